package main

// Families tmcosmos / tmokex: the real cosmos and okex header-sync handlers (tendermint v0.33.7 types, amino codec)
// on a real native service + CacheDB. See tmcommon.go for the op vocabulary.

import (
	"bytes"
	"crypto/sha256"
	"fmt"
	"sort"
	"strings"
	"time"

	"github.com/polynetwork/poly/native/service/header_sync/cosmos"
	"github.com/polynetwork/poly/native/service/header_sync/okex"
	"github.com/polynetwork/poly/native/storage"
	tm34crypto "github.com/switcheo/tendermint/crypto"
	tm34ed25519 "github.com/switcheo/tendermint/crypto/ed25519"
	tm34secp256k1 "github.com/switcheo/tendermint/crypto/secp256k1"
	tm34proto "github.com/switcheo/tendermint/proto/tendermint/types"
	tm34types "github.com/switcheo/tendermint/types"
	"github.com/tendermint/tendermint/crypto"
	"github.com/tendermint/tendermint/crypto/ed25519"
	"github.com/tendermint/tendermint/crypto/secp256k1"
	tmtypes "github.com/tendermint/tendermint/types"
	"github.com/tendermint/tendermint/version"
	"polyverif/internal/hx"
)

func init() {
	families["tmcosmos"] = func() hx.Family { return &tmFam{rt: &tm33Router{cosmos: true}, stream: "sync"} }
	families["tmokex"] = func() hx.Family { return &tmFam{rt: &tm33Router{cosmos: false}, stream: "sync"} }
}

type tmKey struct {
	pri crypto.PrivKey
	pub crypto.PubKey
}

func tmSortKeys(ks []tmKey) []tmKey {
	sort.Slice(ks, func(i, j int) bool { return bytes.Compare(ks[i].pub.Address(), ks[j].pub.Address()) < 0 })
	return ks
}

// cosmos pool: ed25519 and secp256k1 keys from fixed secrets, in address order.
var tmCosmosKeys = func() []tmKey {
	ks := make([]tmKey, tmPool)
	for i := range ks {
		secret := []byte(fmt.Sprintf("polyverif-tm-cosmos-key-%d", i))
		if i%3 == 2 {
			k := secp256k1.GenPrivKeySecp256k1(secret)
			ks[i] = tmKey{pri: k, pub: k.PubKey()}
		} else {
			k := ed25519.GenPrivKeyFromSecret(secret)
			ks[i] = tmKey{pri: k, pub: k.PubKey()}
		}
	}
	return tmSortKeys(ks)
}()

// okex pool: ed25519 and secp256k1 keys (the consensus key types the tendermint amino codec knows; a validator
// with an ethermint ethsecp256k1 key makes ValidatorSet.Hash() panic in the okex router: tendermint's package codec
// has no such concrete type).
var tmOkexKeys = func() []tmKey {
	ks := make([]tmKey, tmPool)
	for i := range ks {
		secret := []byte(fmt.Sprintf("polyverif-tm-okex-key-%d", i))
		if i%4 == 3 {
			k := secp256k1.GenPrivKeySecp256k1(secret)
			ks[i] = tmKey{pri: k, pub: k.PubKey()}
		} else {
			k := ed25519.GenPrivKeyFromSecret(secret)
			ks[i] = tmKey{pri: k, pub: k.PubKey()}
		}
	}
	return tmSortKeys(ks)
}()

type tm33Router struct{ cosmos bool }

func (t *tm33Router) name() string {
	if t.cosmos {
		return "cosmos"
	}
	return "okex"
}
func (t *tm33Router) usesHeaderChain() bool { return t.cosmos }
func (t *tm33Router) keys() []tmKey {
	if t.cosmos {
		return tmCosmosKeys
	}
	return tmOkexKeys
}

func (t *tm33Router) genesis(db *storage.CacheDB, input []byte, anon bool) error {
	ns := newNative(db, input)
	if anon {
		ns = newNativeAnon(db, input)
	}
	if t.cosmos {
		return cosmos.NewCosmosHandler().SyncGenesisHeader(ns)
	}
	return okex.NewHandler().SyncGenesisHeader(ns)
}

func (t *tm33Router) sync(db *storage.CacheDB, input []byte) error {
	ns := newNativeAnon(db, input)
	if t.cosmos {
		return cosmos.NewCosmosHandler().SyncBlockHeader(ns)
	}
	return okex.NewHandler().SyncBlockHeader(ns)
}

func (t *tm33Router) errClass(err error) string { return tmErrClass(err) }

func tmErrClass(err error) string {
	if err == nil {
		return "ok"
	}
	m := err.Error()
	switch {
	case strings.Contains(m, "checkWitness error"):
		return "reject:witness"
	case strings.Contains(m, "genesis header had been initialized"):
		return "reject:dup"
	case strings.Contains(m, "failed to unmarshal header"), strings.Contains(m, "Handler SyncGenesisHeader: "),
		strings.Contains(m, "header failed"):
		return "reject:unmarshal"
	case strings.Contains(m, "get epoch switching height failed"), strings.Contains(m, "failed to get epoch switching height"):
		return "reject:noinfo"
	case strings.Contains(m, "no header you commited is useful"):
		return "reject:useless"
	case strings.Contains(m, "block validator is not right, next validator hash"):
		return "reject:valhash"
	case strings.Contains(m, "block validator is not right!, header validator hash"):
		return "reject:hdrvalhash"
	case strings.Contains(m, "commit height is not right"):
		return "reject:commitheight"
	case strings.Contains(m, "commit hash is not right"):
		return "reject:commithash"
	case strings.Contains(m, "commit is not right! err"):
		return "reject:basic"
	case strings.Contains(m, "the size of precommits is not right"):
		return "reject:size"
	case strings.Contains(m, "does not match its position"):
		return "reject:index"
	case strings.Contains(m, "doesn't exist!"):
		return "reject:noval"
	case strings.Contains(m, "commitSig.Type("):
		return "reject:votetype"
	case strings.Contains(m, "invalid signature"):
		return "reject:sig"
	case strings.Contains(m, "voteing power is not enough"):
		return "reject:power"
	}
	return "reject:other:" + strings.ReplaceAll(m, " ", "_")
}

func tmTime(height int64, idx int) time.Time {
	return time.Unix(1600000000+(height%100000)*100+int64(idx), 0).UTC()
}

// hashes of a valset given by descriptor entries (library calls only)
func (t *tm33Router) legacyHash(vs []tmVal) []byte {
	return tmtypes.NewValidatorSet(t.validators(vs)).Hash()
}

func (t *tm33Router) newHash(vs []tmVal) []byte {
	out := make([]*tm34types.Validator, len(vs))
	for i, v := range vs {
		var pk tm34crypto.PubKey
		switch k := t.keys()[v.key].pub.(type) {
		case ed25519.PubKeyEd25519:
			pk = tm34ed25519.PubKey(k[:])
		case secp256k1.PubKeySecp256k1:
			pk = tm34secp256k1.PubKey(k[:])
		default:
			panic("key type")
		}
		out[i] = tm34types.NewValidator(pk, v.power)
	}
	return tm34types.NewValidatorSet(out).Hash()
}

func (t *tm33Router) validators(vs []tmVal) []*tmtypes.Validator {
	out := make([]*tmtypes.Validator, len(vs))
	for i, v := range vs {
		out[i] = &tmtypes.Validator{Address: t.keys()[v.addr].pub.Address(), PubKey: t.keys()[v.key].pub, VotingPower: v.power}
	}
	return out
}

// hashDesc resolves a hash descriptor to (real bytes, id).
func (t *tm33Router) hashDesc(f *tmFam, s string, own []tmVal, ver uint64) ([]byte, string, bool) {
	switch {
	case s == "e":
		return nil, "e", true
	case s == "":
		return nil, "", false
	case s[0] == 'x':
		return tmArb(s[1:]), s, true
	}
	kind := s[0]
	set := own
	switch {
	case s == "=":
		kind = 'L'
		if t.cosmos && ver >= 11 {
			kind = 'N'
		}
	case s == "L=" || s == "N=":
	case kind == 'L' || kind == 'N':
		var ok bool
		if set, ok = tmParseVals(s[1:]); !ok {
			return nil, "", false
		}
	default:
		return nil, "", false
	}
	if !tmSetValid(set) {
		return nil, "", false
	}
	if kind == 'N' {
		if !t.cosmos || !tmKeysDistinct(set) {
			return nil, "", false
		}
		h := t.newHash(set)
		id := tmNewID(set)
		f.regHash(h, id)
		return h, id, true
	}
	h := t.legacyHash(set)
	id := tmLegacyID(set)
	f.regHash(h, id)
	return h, id, true
}

// signBytes: the canonical vote sign bytes, built from the vote's own content with the tendermint libraries
// (amino for block version < 11 and for okex; protobuf for the cosmos router from block version 11 on).
func (t *tm33Router) signBytes(d *tmHdr, chain string, bid tmtypes.BlockID, forBlock bool, ts time.Time) []byte {
	vb := tmtypes.BlockID{}
	if forBlock {
		vb = bid
	}
	if t.cosmos && d.ver >= 11 {
		v := &tm34proto.Vote{Type: tm34proto.PrecommitType, Height: d.cheight, Round: int32(d.round), Timestamp: ts,
			BlockID: tm34proto.BlockID{Hash: vb.Hash, PartSetHeader: tm34proto.PartSetHeader{Total: uint32(vb.PartsHeader.Total), Hash: vb.PartsHeader.Hash}}}
		return tm34types.VoteSignBytes(chain, v)
	}
	v := &tmtypes.Vote{Type: tmtypes.PrecommitType, Height: d.cheight, Round: int(d.round), BlockID: vb, Timestamp: ts}
	return v.SignBytes(chain)
}

func (t *tm33Router) build(f *tmFam, d *tmHdr) (*tmBuilt, bool) {
	keys := t.keys()
	vh, vhID, ok1 := t.hashDesc(f, d.vh, d.vals, d.ver)
	nvh, nvhID, ok2 := t.hashDesc(f, d.nvh, d.vals, d.ver)
	if !ok1 || !ok2 {
		return nil, false
	}
	var app []byte
	if d.app != "e" {
		app = f.appHash(d.app)
		if app == nil {
			return nil, false
		}
	}
	hd := tmtypes.Header{
		Version: version.Consensus{Block: version.Protocol(d.ver), App: 0}, ChainID: d.chain, Height: d.height, Time: tmTime(d.height, 0),
		ValidatorsHash: vh, NextValidatorsHash: nvh, AppHash: app, ProposerAddress: keys[0].pub.Address(),
	}
	var hash []byte
	if t.cosmos {
		hash = cosmosHeaderHash(hd)
	} else {
		hash = hd.Hash()
	}
	hashID := "e"
	if len(hash) != 0 {
		hashID = fmt.Sprintf("H(%d/%s/%d/%s/%s/%s)", d.ver, d.chain, d.height, vhID, nvhID, d.app)
	}
	f.regHash(hash, hashID)
	b := &tmBuilt{height: d.height, vh: vh, nvh: nvh, hash: hash, hashID: hashID, nvhID: nvhID, chain: d.chain, appHash: app,
		nvhDiffer: !bytes.Equal(vh, nvh), total: 0}
	if vh == nil {
		b.vh = []byte{}
	}
	if nvh == nil {
		b.nvh = []byte{}
	}
	if hash == nil {
		b.hash = []byte{}
	}
	b.validSet = tmSetValid(d.vals)
	if b.validSet {
		b.setHashL = t.legacyHash(d.vals)
		f.regHash(b.setHashL, tmLegacyID(d.vals))
		if t.cosmos && tmKeysDistinct(d.vals) {
			b.setHashN = t.newHash(d.vals)
			f.regHash(b.setHashN, tmNewID(d.vals))
		}
		b.total = tmTotal(d.vals)
	}
	var commit *tmtypes.Commit
	type voteRec struct {
		forBlock bool
		ts       time.Time
		sig      []byte
	}
	var votes []voteRec
	var bid tmtypes.BlockID
	if !d.nilCommit {
		parts := sha256.Sum256([]byte("parts-" + hashID))
		switch d.bid {
		case '=':
			bid = tmtypes.BlockID{Hash: hash, PartsHeader: tmtypes.PartSetHeader{Total: 1, Hash: parts[:]}}
		case 'o':
			bid = tmtypes.BlockID{Hash: tmArb("other-block"), PartsHeader: tmtypes.PartSetHeader{Total: 1, Hash: parts[:]}}
		case 't':
			tr := tmReadTracked(f.db)
			if !tr.ok {
				return nil, false
			}
			bid = tmtypes.BlockID{Hash: tr.block, PartsHeader: tmtypes.PartSetHeader{Total: 1, Hash: parts[:]}}
		}
		b.commitForHeader = bytes.Equal(bid.Hash, hash) && d.cheight == d.height
		commit = &tmtypes.Commit{Height: d.cheight, Round: int(d.round), BlockID: bid}
		for i, s := range d.slots {
			ts := tmTime(d.cheight, i+1)
			var cs tmtypes.CommitSig
			sign := func(forBlock bool, wrong bool) []byte {
				msg := t.signBytes(d, d.signChain, bid, forBlock, ts)
				if wrong {
					msg = append([]byte("other"), msg...)
				}
				sg, err := keys[s.key].pri.Sign(msg)
				if err != nil {
					panic(err)
				}
				return sg
			}
			switch s.kind {
			case 'a':
				cs = tmtypes.NewCommitSigAbsent()
			case 'g':
				cs = tmtypes.CommitSig{BlockIDFlag: tmtypes.BlockIDFlagCommit, ValidatorAddress: keys[s.key].pub.Address(), Timestamp: ts, Signature: sign(true, false)}
			case 'n':
				cs = tmtypes.CommitSig{BlockIDFlag: tmtypes.BlockIDFlagNil, ValidatorAddress: keys[s.key].pub.Address(), Timestamp: ts, Signature: sign(false, false)}
			case 'w':
				cs = tmtypes.CommitSig{BlockIDFlag: tmtypes.BlockIDFlagCommit, ValidatorAddress: keys[s.key].pub.Address(), Timestamp: ts, Signature: sign(true, true)}
			case 'b':
				g := sha256.Sum256([]byte(fmt.Sprintf("garbage-%d", i)))
				cs = tmtypes.CommitSig{BlockIDFlag: tmtypes.BlockIDFlagCommit, ValidatorAddress: g[:20], Timestamp: ts, Signature: append(g[:], g[:]...)}
			case 'A':
				g := sha256.Sum256([]byte(fmt.Sprintf("garbage-%d", i)))
				cs = tmtypes.CommitSig{BlockIDFlag: tmtypes.BlockIDFlagAbsent, Signature: append(g[:], g[:]...)}
			case 'E':
				cs = tmtypes.CommitSig{BlockIDFlag: tmtypes.BlockIDFlagCommit, ValidatorAddress: keys[s.key].pub.Address(), Timestamp: ts}
			case 'u':
				g := sha256.Sum256([]byte(fmt.Sprintf("garbage-%d", i)))
				cs = tmtypes.CommitSig{BlockIDFlag: tmtypes.BlockIDFlag(4), ValidatorAddress: keys[s.key].pub.Address(), Timestamp: ts, Signature: append(g[:], g[:]...)}
			}
			commit.Signatures = append(commit.Signatures, cs)
			votes = append(votes, voteRec{forBlock: cs.BlockIDFlag == tmtypes.BlockIDFlagCommit, ts: ts, sig: cs.Signature})
		}
	}
	vals := d.vals
	b.signerPower = func(chain string) int64 {
		var p int64
		for _, v := range vals {
			for _, vt := range votes {
				if !vt.forBlock || len(vt.sig) == 0 {
					continue
				}
				if keys[v.key].pub.VerifyBytes(t.signBytes(d, chain, bid, true, vt.ts), vt.sig) {
					p += v.power
					break
				}
			}
		}
		return p
	}
	var err error
	if t.cosmos {
		b.bytes, err = cosmos.Cdc.MarshalBinaryBare(cosmos.CosmosHeader{Header: hd, Commit: commit, Valsets: t.validators(d.vals)})
	} else {
		b.bytes, err = okex.NewCDC().MarshalBinaryBare(okex.CosmosHeader{Header: hd, Commit: commit, Valsets: t.validators(d.vals)})
	}
	if err != nil {
		return nil, false
	}
	return b, true
}

// cosmosHeaderHash: Header.Hash() of tendermint 0.33 below block version 11, of tendermint 0.34 from 11 on (library calls).
func cosmosHeaderHash(h tmtypes.Header) []byte {
	return cosmos.HashCosmosHeader(h)
}
