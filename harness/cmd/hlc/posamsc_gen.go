package main

import (
	"bytes"
	"fmt"
	"sort"
	"strconv"
	"strings"

	ecommon "github.com/ethereum/go-ethereum/common"
	"polyverif/internal/hx"
)

// Generator of the posamsc family: clique chains over 1..6 of 16 keys with epochs of 3..16 blocks (checkpoints carry the
// sorted signer list), votes that add and drop signers, competing forks, and single mutations (signer outside the set
// with either difficulty, recent signer, swapped difficulty, wrong / unsorted / missing checkpoint list, checkpoint with
// beneficiary or vote nonce, signer list outside a checkpoint, bad nonce, early timestamp, wrong number, unknown
// parent, duplicates, bad seals, mix digest, uncle hash).
type mscGen struct {
	f    *mscFam
	r    *hx.Run
	next int
	tips []string
	rej  []string
	last int // the authorized signer chosen by the last step (before any mutation of the seal)
}

func (g *mscGen) label() string {
	g.next++
	return strconv.Itoa(g.next)
}

func sortKeysByAddr(ks []int) []int {
	out := append([]int{}, ks...)
	sort.Slice(out, func(i, j int) bool { return bytes.Compare(posaKeys[out[i]].addr[:], posaKeys[out[j]].addr[:]) < 0 })
	return out
}

func (f *mscFam) Gen(r *hx.Run) {
	r.Rule("msc (clique) header trees over 1..6 of 16 secp256k1 keys, epochs 3..16: valid successors, checkpoints, votes that change the signer set, " +
		"competing forks, and ~22 single mutations; distinct non-trivial = (set size, mutation kind, outcome class, checkpoint?)")
	// two fixed histories first (the minimal inputs of the two defects found here: a chain sealed by keys that were
	// never authorized; a signer sealing consecutive blocks after having sealed the checkpoint)
	r.Case("posamsc-unauthorized-signer")
	r.Do(fmt.Sprintf("router msc 8 2 %s", posaAddrTable()))
	r.Do("genesis 1 32 z s0 1 32/0/0/65 1600000000")
	r.Do("hdr 2 1 33 z s5 1 32/-/0/65 1600000002 -")
	r.Do("hdr 3 2 34 z s6 1 32/-/0/65 1600000004 -")
	r.Do("hdr 4 3 35 z w7 1 32/-/0/65 1600000006 -")
	r.Do("hdr 5 1 33 z s0 2 32/-/0/65 1600000002 -")
	r.Do("state")
	r.Case("posamsc-recent-signer")
	r.Do(fmt.Sprintf("router msc 8 2 %s", posaAddrTable()))
	r.Do("genesis 1 32 z s0 1 32/0,1/0/65 1600000000")
	r.Do("hdr 2 1 33 z s1 2 32/-/0/65 1600000002 -")
	r.Do("hdr 3 2 34 z s0 2 32/-/0/65 1600000004 -")
	r.Do("hdr 4 3 35 z s0 1 32/-/0/65 1600000006 -")
	r.Do("hdr 5 3 35 z s1 2 32/-/0/65 1600000006 -")
	r.Do("state")
	cases := r.Pick(40, 600)
	for c := 0; c < cases; c++ {
		r.Case(fmt.Sprintf("posamsc-%d", c))
		g := &mscGen{f: f, r: r}
		g.run()
	}
}

var mscMutations = []string{
	"outsider-noturn", "outsider-inturn", "outsider-noturn", "recent", "diff-swap", "cp-mismatch", "cp-unsorted", "cp-empty", "cp-beneficiary", "cp-nonce",
	"extra-signers", "badnonce", "time-early", "number-plus", "parent-unknown", "dup-stored", "dup-rejected", "seal-x", "seal-w",
	"mix", "uncle", "extra-short", "vote-by-outsider",
}

func (g *mscGen) run() {
	r, f := g.r, g.f
	epoch := []uint64{3, 4, 5, 8, 16}[r.Rng.Intn(5)]
	period := uint64(1 + r.Rng.Intn(3))
	if r.Rng.Chance(1, 25) {
		period = 0
	}
	r.Do(fmt.Sprintf("router msc %d %d %s", epoch, period, posaAddrTable()))
	nv := 1 + r.Rng.Intn(6)
	vals := sortKeysByAddr(r.Rng.Perm(posaPool)[:nv])
	gnum := epoch * uint64(1+r.Rng.Intn(4))
	if r.Rng.Chance(1, 12) {
		gnum = 0
	}
	tm := uint64(1600000000)
	gseal := "s" + strconv.Itoa(vals[r.Rng.Intn(nv)])
	if r.Rng.Chance(1, 10) {
		gseal = "s" + strconv.Itoa(r.Rng.Intn(posaPool))
	}
	if r.Rng.Chance(1, 6) {
		r.Do(fmt.Sprintf("genesis %s %d z %s 1 32/%s/0/65 %d", g.label(), gnum+1, gseal, valsTok(vals), tm))
	}
	if r.Rng.Chance(1, 8) {
		r.Do(fmt.Sprintf("genesis %s %d z %s 1 32/-/0/65 %d", g.label(), gnum, gseal, tm))
	}
	gid := g.label()
	res := r.Do(fmt.Sprintf("genesis %s %d z %s %d 32/%s/0/65 %d", gid, gnum, gseal, 1+r.Rng.Intn(2), valsTok(vals), tm))
	if !strings.HasPrefix(res, "ok") {
		return
	}
	g.tips = append(g.tips, gid)
	steps := 20 + r.Rng.Intn(r.Pick(40, 80))
	mutRate := 3 + r.Rng.Intn(4)
	forkRate := 5 + r.Rng.Intn(10)
	voteRate := 2 + r.Rng.Intn(5)
	cur := gid
	for s := 0; s < steps; s++ {
		if r.Rng.Chance(1, forkRate) && len(g.tips) > 1 {
			back := 1 + r.Rng.Intn(3)
			if back >= len(g.tips) {
				back = len(g.tips) - 1
			}
			cur = g.tips[len(g.tips)-1-back]
			r.Hist("gen.fork")
		}
		tip := f.nodes[cur]
		mut := "valid"
		if r.Rng.Chance(1, mutRate) {
			mut = mscMutations[r.Rng.Intn(len(mscMutations))]
		}
		id, out, nset, cp := g.step(tip, mut, epoch, period, voteRate)
		if id == "" {
			continue
		}
		cls := strings.Fields(out)[0]
		if cls == "ok" {
			g.tips = append(g.tips, id)
			cur = id
		} else if strings.HasPrefix(cls, "reject") {
			g.rej = append(g.rej, id)
		}
		r.Nontrivial(fmt.Sprintf("%d/%s/%s/%v", nset, mut, cls, cp))
		r.Hist("mut." + mut)
		r.Hist("outcome." + cls)
		r.Hist(fmt.Sprintf("setsize.%d", nset))
		if mut != "valid" && s%13 == 2 {
			r.Sample(map[string]interface{}{"mutation": mut, "outcome": out, "signers_in_effect": nset, "number": tip.num + 1, "epoch": epoch})
		}
	}
	g.twins(cur, epoch, period)
	r.Do("state")
}

// twins: as in family posa — the same signed fields with another seal, after and before the genuine header.
func (g *mscGen) twins(from string, epoch, period uint64) {
	r, f := g.r, g.f
	tip := f.nodes[from]
	if tip == nil || !tip.stored {
		return
	}
	note := func(kind, out string) {
		cls := strings.Fields(out)[0]
		r.Hist("twin." + kind + "." + cls)
		r.Nontrivial(fmt.Sprintf("twin/%s/%s", kind, cls))
	}
	id, out, _, _ := g.step(tip, "valid", epoch, period, 1<<30)
	if id != "" && strings.HasPrefix(out, "ok") {
		g.tips = append(g.tips, id)
		anc := append([]*posaNode{tip}, mustAnc(&f.posaFam, tip)...)
		set := f.mscSnapshot(anc)
		for _, k := range r.Rng.Perm(posaPool) {
			if !set[posaKeys[k].addr] {
				note("after.outsider", r.Do(fmt.Sprintf("twin %s %s s%d", g.label(), id, k)))
				break
			}
		}
		note("after.garbage", r.Do(fmt.Sprintf("twin %s %s x", g.label(), id)))
		for _, k := range r.Rng.Perm(posaPool) {
			if set[posaKeys[k].addr] && k != g.last {
				note("after.other-signer", r.Do(fmt.Sprintf("twin %s %s s%d", g.label(), id, k)))
				break
			}
		}
		note("after.genuine-again", r.Do(f.descr[id]))
		tip = f.nodes[id]
	}
	for _, mut := range []string{"seal-x", "seal-w"} {
		bad, out, _, _ := g.step(tip, mut, epoch, period, 1<<30)
		if bad == "" || g.last < 0 {
			continue
		}
		note("before."+mut, out)
		gid := g.label()
		out = r.Do(fmt.Sprintf("twin %s %s s%d", gid, bad, g.last))
		note("before.genuine-after-"+mut, out)
		if strings.HasPrefix(out, "ok") {
			g.tips = append(g.tips, gid)
			tip = f.nodes[gid]
		}
	}
}

func (g *mscGen) step(tip *posaNode, mut string, epoch, period uint64, voteRate int) (string, string, int, bool) {
	r, f := g.r, g.f
	anc := append([]*posaNode{tip}, mustAnc(&f.posaFam, tip)...)
	num := tip.num + 1
	set := f.mscSnapshot(anc)
	sorted := sortedAddrs(set)
	var setIdx []int
	for _, a := range sorted {
		setIdx = append(setIdx, idxOfAddr(a))
	}
	recent := map[ecommon.Address]bool{}
	for j := 0; j < len(set)/2 && j < len(anc); j++ {
		if info := f.info[anc[j]]; info != nil {
			recent[info.signer] = true
		}
	}
	var cand []int
	for _, k := range setIdx {
		if k >= 0 && !recent[posaKeys[k].addr] {
			cand = append(cand, k)
		}
	}
	inTurnKey := -1
	if len(sorted) > 0 {
		inTurnKey = setIdx[int(num%uint64(len(sorted)))]
	}
	signer := -1
	if len(cand) > 0 {
		signer = cand[r.Rng.Intn(len(cand))]
		if r.Rng.Chance(3, 5) {
			for _, k := range cand {
				if k == inTurnKey {
					signer = k
				}
			}
		}
	}
	var outsiders []int
	for k := 0; k < posaPool; k++ {
		if !set[posaKeys[k].addr] {
			outsiders = append(outsiders, k)
		}
	}
	cp := num%epoch == 0
	id := g.label()
	parent := tip.id
	cb, flags := "z", "-"
	extra := "32/-/0/65"
	if cp {
		extra = "32/" + valsTok(setIdx) + "/0/65"
	} else if r.Rng.Chance(1, voteRate) && mut == "valid" {
		// a vote: authorize an outsider or drop a member
		if r.Rng.Bool() && len(outsiders) > 0 {
			cb, flags = strconv.Itoa(outsiders[r.Rng.Intn(len(outsiders))]), "auth"
		} else if len(setIdx) > 1 {
			cb = strconv.Itoa(setIdx[r.Rng.Intn(len(setIdx))])
		}
		if r.Rng.Chance(1, 6) { // a meaningless vote
			cb, flags = strconv.Itoa(r.Rng.Intn(posaPool)), []string{"-", "auth"}[r.Rng.Intn(2)]
		}
		r.Hist("gen.vote")
	}
	tm := tip.time + period + uint64(r.Rng.Intn(2))
	if signer < 0 && !strings.HasPrefix(mut, "outsider") && mut != "dup-stored" {
		mut = "outsider-noturn"
	}
	diff := uint64(1)
	if signer == inTurnKey {
		diff = 2
	}
	seal := "s" + strconv.Itoa(signer)
	g.last = signer
	switch mut {
	case "valid":
	case "outsider-noturn", "outsider-inturn", "vote-by-outsider":
		if len(outsiders) == 0 {
			return "", "", 0, false
		}
		signer = outsiders[r.Rng.Intn(len(outsiders))]
		seal = "s" + strconv.Itoa(signer)
		diff = 1
		if mut == "outsider-inturn" {
			diff = 2
		}
		if mut == "vote-by-outsider" && !cp {
			cb, flags = strconv.Itoa(signer), "auth"
		}
	case "recent":
		pick := -1
		for _, k := range setIdx {
			if k >= 0 && recent[posaKeys[k].addr] {
				pick = k
			}
		}
		if pick < 0 {
			return "", "", 0, false
		}
		signer = pick
		seal = "s" + strconv.Itoa(signer)
		diff = 1
		if signer == inTurnKey {
			diff = 2
		}
	case "diff-swap":
		diff = 3 - diff
	case "cp-mismatch":
		if !cp {
			return "", "", 0, false
		}
		alt := append([]int{}, setIdx...)
		if len(outsiders) > 0 && r.Rng.Bool() {
			alt = sortKeysByAddr(append(alt, outsiders[0]))
		} else if len(alt) > 1 {
			alt = alt[1:]
		} else {
			alt = []int{outsiders[0]}
		}
		extra = "32/" + valsTok(alt) + "/0/65"
	case "cp-unsorted":
		if !cp || len(setIdx) < 2 {
			return "", "", 0, false
		}
		alt := append([]int{}, setIdx...)
		alt[0], alt[1] = alt[1], alt[0]
		extra = "32/" + valsTok(alt) + "/0/65"
	case "cp-empty":
		if !cp {
			return "", "", 0, false
		}
		extra = []string{"32/-/0/65", "32/" + valsTok(setIdx) + "/7/65"}[r.Rng.Intn(2)]
	case "cp-beneficiary":
		if !cp {
			return "", "", 0, false
		}
		cb = strconv.Itoa(r.Rng.Intn(posaPool))
	case "cp-nonce":
		if !cp {
			return "", "", 0, false
		}
		flags = "auth"
	case "extra-signers":
		if cp {
			return "", "", 0, false
		}
		extra = "32/" + valsTok(setIdx) + "/0/65"
	case "badnonce":
		flags = "badnonce"
	case "time-early":
		tm = tip.time + period - 1
	case "number-plus":
		num++
	case "parent-unknown":
		parent = strconv.Itoa(900000 + r.Rng.Intn(1000))
	case "dup-stored":
		if len(g.tips) < 2 {
			return "", "", 0, false
		}
		d := g.tips[1+r.Rng.Intn(len(g.tips)-1)]
		return d, r.Do(f.descr[d]), len(set), false
	case "dup-rejected":
		if len(g.rej) == 0 {
			return "", "", 0, false
		}
		d := g.rej[r.Rng.Intn(len(g.rej))]
		return d, r.Do(f.descr[d]), len(set), false
	case "seal-x":
		seal = "x"
	case "seal-w":
		seal = "w" + strconv.Itoa(signer)
	case "mix":
		flags = "mix"
	case "uncle":
		flags = "unc"
	case "extra-short":
		extra = []string{"10/-/0/0", "32/-/0/40", "0/-/0/0"}[r.Rng.Intn(3)]
		seal = "n"
	}
	op := fmt.Sprintf("hdr %s %s %d %s %s %d %s %d %s", id, parent, num, cb, seal, diff, extra, tm, flags)
	return id, r.Do(op), len(set), cp
}
