package main

import (
	"crypto/ecdsa"
	"crypto/sha256"
	"encoding/json"
	"fmt"
	"math/big"
	"os"
	"sort"
	"strconv"
	"strings"
	"sync"

	ecommon "github.com/ethereum/go-ethereum/common"
	etypes "github.com/ethereum/go-ethereum/core/types"
	ecrypto "github.com/ethereum/go-ethereum/crypto"
	"github.com/polynetwork/poly/common"
	"github.com/polynetwork/poly/common/log"
	cstates "github.com/polynetwork/poly/core/states"
	"github.com/polynetwork/poly/native"
	"github.com/polynetwork/poly/native/service/header_sync/bsc"
	"github.com/polynetwork/poly/native/service/header_sync/bytom"
	hscommon "github.com/polynetwork/poly/native/service/header_sync/common"
	"github.com/polynetwork/poly/native/service/header_sync/eth"
	"github.com/polynetwork/poly/native/service/header_sync/heco"
	"github.com/polynetwork/poly/native/service/header_sync/hsc"
	"github.com/polynetwork/poly/native/service/header_sync/pixiechain"
	"github.com/polynetwork/poly/native/service/utils"
	"github.com/polynetwork/poly/native/storage"
	"polyverif/internal/hx"
)

// Family posa (C29): the real PoSA header-sync handlers (bsc, bytom, heco, hsc, pixiechain) on a real native
// service + CacheDB; headers are built from descriptors, really sealed with secp256k1 keys and submitted as JSON.
//
//	router <name> <ethChainID> <period> <addr0,addr1,...>
//	      first op of a case: selects the handler, registers the side chain (ExtraInfo = {ChainID, Period}); the
//	      address list is the key pool (checked against the keys derived in the harness; the driver needs the table)
//	genesis <id> <number> <cb> <diff> <extra> <pvs> <time> <gaslimit>
//	      SyncGenesisHeader (operator-witnessed; an unwitnessed attempt is made first and must fail)
//	hdr <id> <parent> <number> <cb> <seal> <diff> <extra> <time> <gaslimit> <gasused> <flags> <basefee>
//	      SyncBlockHeader with one header
//	junk  SyncBlockHeader with a header that is not JSON
//	state canonical assignments (all heights 0..max+2 read raw) and the stored ids
//
// id / parent: labels (the label is hashed into the header's state root, so different labels are different
// headers; a label never changes its descriptor inside a case). cb: key index or z (zero address).
// seal: s<k> genuine seal by key k, w<k> seal by key k over another hash, x unrecoverable signature, n no seal.
// extra: <pre>/<vals>/<tail>/<seal>: pre zero bytes, the 20-byte addresses of the listed keys, tail bytes 0xab,
// seal bytes reserved (the signature is stamped only when seal = 65). flags: - | mix | unc | mix,unc.
// pvs: `;`-separated <height>:<vals> entries of GenesisHeader.PrevValidators.
//
// Outcome of hdr: ok | skip:dup | skip:noparent | reject:<class>, followed by the canonical height, head label and
// total difficulty read back through the exported getters.
type posaFam struct {
	db      *storage.CacheDB
	rt      *posaRouter
	period  uint64
	ethCID  *big.Int
	nodes   map[string]*posaNode
	byHash  map[ecommon.Hash]string
	descr   map[string]string
	genesis string
	maxNum  uint64
}

const posaChainID = 79
const posaPool = 16

type posaNode struct {
	id     string
	parent string
	hash   ecommon.Hash
	phash  ecommon.Hash
	num    uint64
	cb     ecommon.Address
	sealBy int             // key index of a genuine seal, -1 otherwise
	sealW  bool            // sealed by a pool key over another hash (recovers to an address outside the pool)
	rec    ecommon.Address // what the harness itself recovers from the header's own seal (go-ethereum ecrecover)
	recOK  bool
	diff   uint64
	extra  []byte
	mixBad bool
	uncBad bool
	stored bool
	refTD  uint64
	pv1    []ecommon.Address // genesis only
	pv1h   uint64
	isGen  bool
	time   uint64
	gl     uint64
}

type posaRouter struct {
	name     string
	delayed  bool // new validators take effect floor(|old|/2) blocks after the epoch header (Parlia); else at once (Congress)
	typesHdr bool
	genesis  func(ns *native.NativeService) error
	sync     func(ns *native.NativeService) error
	height   func(ns *native.NativeService) (uint64, error)
	canon    func(ns *native.NativeService, h uint64) (*eth.Header, *big.Int, error)
	sealHash func(h *eth.Header, cid *big.Int) ecommon.Hash
}

func toTypes(h *eth.Header) *etypes.Header {
	return &etypes.Header{ParentHash: h.ParentHash, UncleHash: h.UncleHash, Coinbase: h.Coinbase, Root: h.Root, TxHash: h.TxHash,
		ReceiptHash: h.ReceiptHash, Bloom: h.Bloom, Difficulty: h.Difficulty, Number: h.Number, GasLimit: h.GasLimit, GasUsed: h.GasUsed,
		Time: h.Time, Extra: h.Extra, MixDigest: h.MixDigest, Nonce: h.Nonce}
}

var posaRouters = map[string]*posaRouter{
	"bsc": {name: "bsc", delayed: true, typesHdr: true,
		genesis: func(ns *native.NativeService) error { return bsc.NewHandler().SyncGenesisHeader(ns) },
		sync:    func(ns *native.NativeService) error { return bsc.NewHandler().SyncBlockHeader(ns) },
		height:  func(ns *native.NativeService) (uint64, error) { return bsc.GetCanonicalHeight(ns, posaChainID) },
		canon: func(ns *native.NativeService, h uint64) (*eth.Header, *big.Int, error) {
			x, err := bsc.GetCanonicalHeader(ns, posaChainID, h)
			if err != nil || x == nil {
				return nil, nil, err
			}
			return eth.To1559(x.Header), x.DifficultySum, nil
		},
		sealHash: func(h *eth.Header, cid *big.Int) ecommon.Hash { return bsc.SealHash(toTypes(h), cid) }},
	"bytom": {name: "bytom", delayed: true, typesHdr: true,
		genesis: func(ns *native.NativeService) error { return bytom.NewHandler().SyncGenesisHeader(ns) },
		sync:    func(ns *native.NativeService) error { return bytom.NewHandler().SyncBlockHeader(ns) },
		height:  func(ns *native.NativeService) (uint64, error) { return bytom.GetCanonicalHeight(ns, posaChainID) },
		canon: func(ns *native.NativeService, h uint64) (*eth.Header, *big.Int, error) {
			x, err := bytom.GetCanonicalHeader(ns, posaChainID, h)
			if err != nil || x == nil {
				return nil, nil, err
			}
			return eth.To1559(x.Header), x.DifficultySum, nil
		},
		sealHash: func(h *eth.Header, cid *big.Int) ecommon.Hash { return bytom.SealHash(toTypes(h), cid) }},
	"heco": {name: "heco",
		genesis: func(ns *native.NativeService) error { return heco.NewHecoHandler().SyncGenesisHeader(ns) },
		sync:    func(ns *native.NativeService) error { return heco.NewHecoHandler().SyncBlockHeader(ns) },
		height:  func(ns *native.NativeService) (uint64, error) { return heco.GetCanonicalHeight(ns, posaChainID) },
		canon: func(ns *native.NativeService, h uint64) (*eth.Header, *big.Int, error) {
			x, err := heco.GetCanonicalHeader(ns, posaChainID, h)
			if err != nil || x == nil {
				return nil, nil, err
			}
			return x.Header, x.DifficultySum, nil
		},
		sealHash: func(h *eth.Header, cid *big.Int) ecommon.Hash { return heco.SealHash(h, cid) }},
	"hsc": {name: "hsc",
		genesis: func(ns *native.NativeService) error { return hsc.NewHscHandler().SyncGenesisHeader(ns) },
		sync:    func(ns *native.NativeService) error { return hsc.NewHscHandler().SyncBlockHeader(ns) },
		height:  func(ns *native.NativeService) (uint64, error) { return hsc.GetCanonicalHeight(ns, posaChainID) },
		canon: func(ns *native.NativeService, h uint64) (*eth.Header, *big.Int, error) {
			x, err := hsc.GetCanonicalHeader(ns, posaChainID, h)
			if err != nil || x == nil {
				return nil, nil, err
			}
			return x.Header, x.DifficultySum, nil
		},
		sealHash: func(h *eth.Header, cid *big.Int) ecommon.Hash { return hsc.SealHash(h, cid) }},
	"pixie": {name: "pixie",
		genesis: func(ns *native.NativeService) error { return pixiechain.NewPixieHandler().SyncGenesisHeader(ns) },
		sync:    func(ns *native.NativeService) error { return pixiechain.NewPixieHandler().SyncBlockHeader(ns) },
		height:  func(ns *native.NativeService) (uint64, error) { return pixiechain.GetCanonicalHeight(ns, posaChainID) },
		canon: func(ns *native.NativeService, h uint64) (*eth.Header, *big.Int, error) {
			x, err := pixiechain.GetCanonicalHeader(ns, posaChainID, h)
			if err != nil || x == nil {
				return nil, nil, err
			}
			return x.Header, x.DifficultySum, nil
		},
		sealHash: func(h *eth.Header, cid *big.Int) ecommon.Hash { return pixiechain.SealHash(h, cid) }},
}

var posaRouterNames = []string{"bsc", "bytom", "heco", "hsc", "pixie"}

func init() {
	families["posa"] = func() hx.Family { return &posaFam{} }
}

type posaKey struct {
	pri  *ecdsa.PrivateKey
	addr ecommon.Address
}

var posaKeys = func() []posaKey {
	ks := make([]posaKey, posaPool)
	for i := range ks {
		d := sha256.Sum256([]byte(fmt.Sprintf("polyverif-posa-key-%d", i)))
		k, err := ecrypto.ToECDSA(d[:])
		if err != nil {
			panic(err)
		}
		ks[i] = posaKey{pri: k, addr: ecrypto.PubkeyToAddress(k.PublicKey)}
	}
	return ks
}()

func posaAddrTable() string {
	s := make([]string, posaPool)
	for i, k := range posaKeys {
		s[i] = fmt.Sprintf("%x", k.addr[:])
	}
	return strings.Join(s, ",")
}

var posaQuiet sync.Once

func (f *posaFam) Reset(r *hx.Run) {
	// the handlers log every skipped header (with its full JSON) at warn level
	posaQuiet.Do(func() { log.InitLog(log.ErrorLog, os.Stderr) })
	f.db = newCacheDB()
	f.rt = nil
	f.nodes = map[string]*posaNode{}
	f.byHash = map[ecommon.Hash]string{}
	f.descr = map[string]string{}
	f.genesis = ""
	f.maxNum = 0
}

func posaKeyIdx(s string) ([]int, bool) {
	if s == "-" {
		return nil, true
	}
	var out []int
	for _, p := range strings.Split(s, ",") {
		v, err := strconv.Atoi(p)
		if err != nil || v < 0 || v >= posaPool {
			return nil, false
		}
		out = append(out, v)
	}
	return out, true
}

// posaExtra builds the extra-data bytes of the descriptor <pre>/<vals>/<tail>/<seal>.
func posaExtra(s string) (extra []byte, sealLen int, ok bool) {
	p := strings.Split(s, "/")
	if len(p) != 4 {
		return nil, 0, false
	}
	pre, e1 := strconv.Atoi(p[0])
	vals, ok2 := posaKeyIdx(p[1])
	tail, e3 := strconv.Atoi(p[2])
	seal, e4 := strconv.Atoi(p[3])
	if e1 != nil || !ok2 || e3 != nil || e4 != nil || pre < 0 || tail < 0 || seal < 0 || pre > 4096 || tail > 4096 || seal > 4096 {
		return nil, 0, false
	}
	extra = make([]byte, pre)
	for _, v := range vals {
		extra = append(extra, posaKeys[v].addr[:]...)
	}
	for i := 0; i < tail; i++ {
		extra = append(extra, 0xab)
	}
	extra = append(extra, make([]byte, seal)...)
	return extra, seal, true
}

func posaUnknownHash(label string) ecommon.Hash {
	return ecommon.Hash(sha256.Sum256([]byte("posa-unknown-" + label)))
}

func (f *posaFam) hashOf(label string) ecommon.Hash {
	if n, ok := f.nodes[label]; ok {
		return n.hash
	}
	return posaUnknownHash(label)
}

var posaUncleHash = etypes.CalcUncleHash(nil)

func posaErrClass(err error) string {
	if err == nil {
		return "ok"
	}
	m := err.Error()
	switch {
	case strings.Contains(m, "block in the future"):
		return "reject:future"
	case strings.Contains(m, "vanity prefix missing"):
		return "reject:vanity"
	case strings.Contains(m, "signature suffix missing"):
		return "reject:sealmissing"
	case strings.Contains(m, "invalid signer list"):
		return "reject:signerlist"
	case strings.Contains(m, "non-zero mix digest"):
		return "reject:mix"
	case strings.Contains(m, "non empty uncle hash"):
		return "reject:uncle"
	case strings.Contains(m, "invalid difficulty, got"):
		return "reject:turn"
	case strings.Contains(m, "invalid difficulty"):
		return "reject:difficulty"
	case strings.Contains(m, "unknown ancestor"):
		return "reject:ancestor"
	case strings.Contains(m, "invalid gasLimit:"):
		return "reject:gascap"
	case strings.Contains(m, "invalid gasUsed"):
		return "reject:gasused"
	case strings.Contains(m, "invalid gas limit"):
		return "reject:gaslimit"
	case strings.Contains(m, "invalid timestamp"):
		return "reject:time"
	case strings.Contains(m, "invalid baseFee") || strings.Contains(m, "missing baseFee"):
		return "reject:basefee"
	case strings.Contains(m, "unknown block"):
		return "reject:block0"
	case strings.Contains(m, "coinbase do not match") || strings.Contains(m, "recovery") || strings.Contains(m, "recover") ||
		strings.Contains(m, "invalid signature"):
		return "reject:seal"
	case strings.Contains(m, "can not change epoch continuously"):
		return "reject:epoch"
	case strings.Contains(m, "RecentlySigned"):
		return "reject:recent"
	case strings.Contains(m, "invalid signer"):
		return "reject:signer"
	case strings.Contains(m, "deserialize header err"):
		return "reject:json"
	case strings.Contains(m, "genesis had been initialized"):
		return "reject:genesis-stored"
	case strings.Contains(m, "invalid PrevValidators"):
		return "reject:prevvalidators"
	case strings.Contains(m, "invalid height orders"):
		return "reject:heightorder"
	case strings.Contains(m, "checkWitness"):
		return "reject:witness"
	}
	return "reject:other:" + strings.ReplaceAll(m, " ", "_")
}

func (f *posaFam) rawStored(h ecommon.Hash) bool {
	raw, err := f.db.Get(utils.ConcatKey(utils.HeaderSyncContractAddress, []byte(hscommon.HEADER_INDEX), utils.GetUint64Bytes(posaChainID), h.Bytes()))
	return err == nil && raw != nil
}

func (f *posaFam) rawCanon(height uint64) (ecommon.Hash, bool) {
	raw, err := f.db.Get(utils.ConcatKey(utils.HeaderSyncContractAddress, []byte(hscommon.MAIN_CHAIN), utils.GetUint64Bytes(posaChainID), utils.GetUint64Bytes(height)))
	if err != nil || raw == nil {
		return ecommon.Hash{}, false
	}
	b, err := cstates.GetValueFromRawStorageItem(raw)
	if err != nil {
		return ecommon.Hash{}, false
	}
	return ecommon.BytesToHash(b), true
}

func (f *posaFam) label(h ecommon.Hash) string {
	if l, ok := f.byHash[h]; ok {
		return l
	}
	return "?" + fmt.Sprintf("%x", h[:4])
}

// canonLine reads the canonical head back through the exported getters.
func (f *posaFam) canonLine() (line string, height uint64, head ecommon.Hash, td uint64, ok bool) {
	ns := newNative(f.db, nil)
	ch, err := f.rt.height(ns)
	if err != nil {
		return "nocanon", 0, ecommon.Hash{}, 0, false
	}
	hd, sum, err := f.rt.canon(ns, ch)
	if err != nil || hd == nil {
		return fmt.Sprintf("h=%d head=nil %s", ch, f.canonDigest()), ch, ecommon.Hash{}, 0, false
	}
	hh := hd.Hash()
	return fmt.Sprintf("h=%d head=%s td=%s %s", ch, f.label(hh), sum.String(), f.canonDigest()), ch, hh, sum.Uint64(), true
}

// canonRange is the height range ever touched in the case: two below the trust root up to two above the highest
// number submitted so far.
func (f *posaFam) canonRange() (lo, hi uint64) {
	if g, ok := f.nodes[f.genesis]; ok && g.num >= 2 {
		lo = g.num - 2
	}
	return lo, f.maxNum + 2
}

// canonDigest: number of canonical assignments (raw MAIN_CHAIN reads over the whole range) and a position-sensitive
// checksum of (height, label), so that the model comparison sees every assignment after every op.
func (f *posaFam) canonDigest() string {
	lo, hi := f.canonRange()
	cnt, sum := 0, uint64(0)
	for h := lo; h <= hi; h++ {
		if hash, ok := f.rawCanon(h); ok {
			cnt++
			id := uint64(0)
			if v, err := strconv.ParseUint(f.label(hash), 10, 32); err == nil {
				id = v
			}
			sum = (sum + (h*1000003+id)*(h+13)) % 1000000007
		}
	}
	return fmt.Sprintf("cn=%d/%d", cnt, sum)
}

func (f *posaFam) rawHeight() (uint64, bool) {
	raw, err := f.db.Get(utils.ConcatKey(utils.HeaderSyncContractAddress, []byte(hscommon.CURRENT_HEADER_HEIGHT), utils.GetUint64Bytes(posaChainID)))
	if err != nil || raw == nil {
		return 0, false
	}
	b, err := cstates.GetValueFromRawStorageItem(raw)
	if err != nil || len(b) != 8 {
		return 0, false
	}
	return utils.GetBytesUint64(b), true
}

func chunk20(b []byte) []ecommon.Address {
	var out []ecommon.Address
	for i := 0; i+20 <= len(b); i += 20 {
		out = append(out, ecommon.BytesToAddress(b[i:i+20]))
	}
	return out
}

// carried returns the validator list a header announces in its extra data (format: 32 vanity, n*20, 65 seal).
func (n *posaNode) carried() []ecommon.Address {
	if len(n.extra) <= 97 {
		return nil
	}
	return chunk20(n.extra[32 : len(n.extra)-65])
}

// ---- the independent reference (written from the property statement) ----

// ancestors returns the chain parent, grandparent, ... down to the trust root, following the labels the harness
// itself generated. ok is false when some ancestor is unknown or not stored.
func (f *posaFam) ancestors(n *posaNode) (out []*posaNode, ok bool) {
	cur := n
	for !cur.isGen {
		p, have := f.nodes[cur.parent]
		if !have || !p.stored {
			return out, false
		}
		out = append(out, p)
		cur = p
	}
	return out, true
}

// inEffect is the validator set in force for a header whose ancestors are anc: the set announced by the nearest
// ancestor that announces one (E1) — for Parlia (bsc, bytom) only once more than floor(|previous set|/2) blocks
// have passed since E1, before that the previous set (announced by the next such ancestor E2, or the trust root's
// recorded previous set). The trust root announces its own set.
func (f *posaFam) inEffect(num uint64, anc []*posaNode) []ecommon.Address {
	type ep struct {
		num  uint64
		vals []ecommon.Address
	}
	var eps []ep
	for _, a := range anc {
		if a.isGen {
			eps = append(eps, ep{a.num, a.carried()}, ep{a.pv1h, a.pv1})
		} else if c := a.carried(); len(a.extra) > 97 {
			eps = append(eps, ep{a.num, c})
		}
	}
	if len(eps) < 2 {
		return nil
	}
	if f.rt.delayed && num-eps[0].num <= uint64(len(eps[1].vals)/2) {
		return eps[1].vals
	}
	return eps[0].vals
}

func (f *posaFam) oracle(r *hx.Run, n *posaNode, parentStoredBefore bool) {
	rt := f.rt.name
	if !parentStoredBefore {
		r.Viol("C29:"+rt+":stored-without-parent", fmt.Sprintf("header %s (number %d) was stored although its parent %s was not stored", n.id, n.num, n.parent))
		return
	}
	anc, ok := f.ancestors(n)
	if !ok || len(anc) == 0 {
		r.Viol("C29:"+rt+":stored-without-parent", fmt.Sprintf("header %s (number %d) was stored although its ancestry is not stored", n.id, n.num))
		return
	}
	if anc[0].num+1 != n.num {
		r.Viol("C29:"+rt+":stored-with-wrong-number", fmt.Sprintf("header %s has number %d, its parent %s has number %d", n.id, n.num, anc[0].id, anc[0].num))
	}
	n.refTD = anc[0].refTD + n.diff
	if len(n.extra) < 97 || (len(n.extra)-97)%20 != 0 || n.mixBad || n.uncBad {
		r.Viol("C29:"+rt+":malformed-stored", fmt.Sprintf("header %s stored with extra length %d, mixBad=%v uncleBad=%v", n.id, len(n.extra), n.mixBad, n.uncBad))
	}
	if !n.recOK || n.rec != n.cb {
		r.Viol("C29:"+rt+":stored-with-bad-seal", fmt.Sprintf("header %s stored although its seal does not recover to its coinbase (recoverable: %v, recovered key %d, coinbase key %d)", n.id, n.recOK, idxOfAddr(n.rec), idxOfAddr(n.cb)))
		return
	}
	signer := n.rec
	set := f.inEffect(n.num, anc)
	pos := -1
	for i, v := range set {
		if v == signer && pos < 0 {
			pos = i
		}
	}
	if pos < 0 {
		r.Viol("C29:"+rt+":stored-with-signer-outside-set", fmt.Sprintf("header %s (number %d) stored, signer key %d is not in the set in effect (%d members)", n.id, n.num, idxOfAddr(signer), len(set)))
		return
	}
	// recent window: the signer must not have sealed any of the floor(|set|/2) preceding blocks (block 0 carries no seal)
	for j := 0; j < len(set)/2 && j < len(anc); j++ {
		if anc[j].cb == signer && anc[j].num > 0 {
			r.Viol("C29:"+rt+":stored-recent-resigner", fmt.Sprintf("header %s (number %d) stored, its signer also sealed ancestor %s (number %d), window %d", n.id, n.num, anc[j].id, anc[j].num, len(set)/2))
			break
		}
	}
	inTurn := false
	for i, v := range set {
		if v == signer && i == int(n.num%uint64(len(set))) {
			inTurn = true
		}
	}
	want := uint64(1)
	if inTurn {
		want = 2
	}
	if n.diff != want {
		r.Viol("C29:"+rt+":wrong-difficulty-stored", fmt.Sprintf("header %s (number %d) stored with difficulty %d, signer in turn = %v", n.id, n.num, n.diff, inTurn))
	}
}

// canonOracle (after every op, raw reads only, independent of the handler's getters): the canonical height points at
// a stored header of maximal total difficulty (reference sums over the harness's own tree); the canonical index from the
// trust root up to that head is exactly the head's parent chain; nothing else is indexed anywhere in the height range
// ever touched in the case (in particular nothing above the canonical height).
func (f *posaFam) canonOracle(r *hx.Run, _ int) {
	rt := f.rt.name
	height, ok := f.rawHeight()
	if !ok {
		r.Viol("C29:"+rt+":canonical-head-missing", "no canonical height is recorded")
		return
	}
	head, have := f.rawCanon(height)
	if !have {
		r.Viol("C29:"+rt+":canonical-head-missing", fmt.Sprintf("the canonical height %d has no canonical assignment", height))
		return
	}
	hl, known := f.byHash[head]
	if !known || !f.nodes[hl].stored || !f.rawStored(head) {
		r.Viol("C29:"+rt+":canonical-head-not-stored", "the canonical head is not a stored header of this history")
		return
	}
	best := uint64(0)
	for _, n := range f.nodes {
		if n.stored && n.refTD > best {
			best = n.refTD
		}
	}
	hn := f.nodes[hl]
	if _, _, _, td, ok := f.canonLine(); !ok || hn.refTD != td || hn.num != height {
		r.Viol("C29:"+rt+":canonical-td-bookkeeping", fmt.Sprintf("head %s: recorded total difficulty %d at height %d, reference %d at number %d", hl, td, height, hn.refTD, hn.num))
	}
	if hn.refTD < best {
		r.Viol("C29:"+rt+":canonical-not-max-td", fmt.Sprintf("canonical head %s has total difficulty %d but a stored header has %d", hl, hn.refTD, best))
	}
	// the expected index: the head's parent chain
	want := map[uint64]ecommon.Hash{}
	for cur := hn; cur != nil; cur = f.nodes[cur.parent] {
		want[cur.num] = cur.hash
		if cur.isGen {
			break
		}
	}
	lo, hi := f.canonRange()
	for h := lo; h <= hi; h++ {
		got, have := f.rawCanon(h)
		w, expected := want[h]
		switch {
		case have && h > height:
			r.Viol("C29:"+rt+":canonical-entry-above-head", fmt.Sprintf("a canonical assignment (%s) exists at %d above the canonical height %d", f.label(got), h, height))
			return
		case have && !expected:
			r.Viol("C29:"+rt+":canonical-entry-below-root", fmt.Sprintf("a canonical assignment (%s) exists at %d outside the chain of the head %s", f.label(got), h, hl))
			return
		case expected && (!have || got != w):
			r.Viol("C29:"+rt+":canonical-not-parent-linked", fmt.Sprintf("the canonical assignment at %d is %s, the ancestor of the canonical head %s (height %d) at that number is %s",
				h, map[bool]string{true: f.label(got), false: "missing"}[have], hl, height, f.label(w)))
			return
		}
	}
}

func (f *posaFam) Exec(r *hx.Run, op []string) string {
	if op[0] == "router" {
		if len(op) != 5 || f.rt != nil {
			return "bad-op"
		}
		rt, ok := posaRouters[op[1]]
		cid, e1 := strconv.ParseInt(op[2], 10, 64)
		period, e2 := strconv.ParseUint(op[3], 10, 32)
		if !ok || e1 != nil || e2 != nil || op[4] != posaAddrTable() {
			return "bad-op"
		}
		f.rt, f.period, f.ethCID = rt, period, big.NewInt(cid)
		ex, _ := json.Marshal(map[string]interface{}{"ChainID": cid, "Period": period})
		putSideChain(f.db, posaChainID, 0, []byte{1}, ex)
		return "ok"
	}
	if f.rt == nil {
		return "bad-op"
	}
	switch op[0] {
	case "genesis":
		return f.execGenesis(r, op)
	case "hdr":
		if len(op) != 13 {
			return "bad-op"
		}
		return f.execHdr(r, op, op[1], strings.Join(op, " "))
	case "twin":
		// twin <id> <orig> <seal>: the header of descriptor <orig> (same signed fields, same state root) with another seal
		if len(op) != 4 {
			return "bad-op"
		}
		od, ok := f.descr[op[2]]
		ot := strings.Fields(od)
		if !ok || len(ot) != 13 || ot[0] != "hdr" {
			return "bad-op"
		}
		ot[1], ot[5] = op[1], op[3]
		return f.execHdr(r, ot, op[2], strings.Join(op, " "))
	case "junk":
		p := &hscommon.SyncBlockHeaderParam{ChainID: posaChainID, Headers: [][]byte{[]byte("{not json")}}
		ps := common.NewZeroCopySink(nil)
		p.Serialization(ps)
		return posaErrClass(f.rt.sync(newNative(f.db, ps.Bytes())))
	case "state":
		return f.execState(r)
	}
	return "bad-op"
}

func (f *posaFam) cbOf(tok string) (ecommon.Address, bool) {
	if tok == "z" {
		return ecommon.Address{}, true
	}
	v, err := strconv.Atoi(tok)
	if err != nil || v < 0 || v >= posaPool {
		return ecommon.Address{}, false
	}
	return posaKeys[v].addr, true
}

func (f *posaFam) build(id string, parent ecommon.Hash, num uint64, cb ecommon.Address, diff uint64, extra []byte, time, gl, gu uint64, flags string, basefee string) (*eth.Header, bool) {
	h := &eth.Header{ParentHash: parent, UncleHash: posaUncleHash, Coinbase: cb,
		Root:   ecommon.Hash(sha256.Sum256([]byte("posa-hdr-" + id))),
		TxHash: etypes.EmptyRootHash, ReceiptHash: etypes.EmptyRootHash,
		Difficulty: new(big.Int).SetUint64(diff), Number: new(big.Int).SetUint64(num), GasLimit: gl, GasUsed: gu, Time: time,
		Extra: extra}
	if flags != "-" {
		for _, fl := range strings.Split(flags, ",") {
			switch fl {
			case "mix":
				h.MixDigest = ecommon.Hash{1}
			case "unc":
				h.UncleHash = ecommon.Hash{2}
			default:
				return nil, false
			}
		}
	}
	if basefee != "-" {
		v, err := strconv.ParseUint(basefee, 10, 63)
		if err != nil {
			return nil, false
		}
		h.BaseFee = new(big.Int).SetUint64(v)
	}
	return h, true
}

func (f *posaFam) headerJSON(h *eth.Header) []byte {
	var b []byte
	var err error
	if f.rt.typesHdr {
		b, err = json.Marshal(toTypes(h))
	} else {
		b, err = json.Marshal(h)
	}
	if err != nil {
		panic(err)
	}
	return b
}

// headerHash is the hash the handler will compute for the submitted header.
func (f *posaFam) headerHash(h *eth.Header) ecommon.Hash {
	if f.rt.typesHdr {
		return toTypes(h).Hash()
	}
	if f.rt.name == "heco" { // the handler erases BaseFee below its fix height (needFix), the harness runs at height 0
		c := *h
		c.BaseFee = nil
		return c.Hash()
	}
	return h.Hash()
}

type posaGenHV struct {
	Height     *big.Int
	Validators []ecommon.Address
	Hash       *ecommon.Hash
}

type posaGenesisJSON struct {
	Header         json.RawMessage
	PrevValidators []posaGenHV
}

func (f *posaFam) execGenesis(r *hx.Run, op []string) string {
	if len(op) != 9 {
		return "bad-op"
	}
	id := op[1]
	num, e1 := strconv.ParseUint(op[2], 10, 32)
	cb, ok1 := f.cbOf(op[3])
	diff, e2 := strconv.ParseUint(op[4], 10, 32)
	extra, _, ok2 := posaExtra(op[5])
	tm, e3 := strconv.ParseUint(op[7], 10, 62)
	gl, e4 := strconv.ParseUint(op[8], 10, 63)
	if e1 != nil || !ok1 || e2 != nil || !ok2 || e3 != nil || e4 != nil {
		return "bad-op"
	}
	if d, seen := f.descr[id]; seen && d != strings.Join(op, " ") {
		return "bad-op"
	}
	var pvs []posaGenHV
	var pv1 []ecommon.Address
	var pv1h uint64
	if op[6] != "-" {
		for i, e := range strings.Split(op[6], ";") {
			hv := strings.SplitN(e, ":", 2)
			if len(hv) != 2 {
				return "bad-op"
			}
			ph, err := strconv.ParseUint(hv[0], 10, 32)
			idx, ok := posaKeyIdx(hv[1])
			if err != nil || !ok {
				return "bad-op"
			}
			vs := []ecommon.Address{}
			for _, k := range idx {
				vs = append(vs, posaKeys[k].addr)
			}
			pvs = append(pvs, posaGenHV{Height: new(big.Int).SetUint64(ph), Validators: vs})
			if i == 0 {
				pv1, pv1h = vs, ph
			}
		}
	}
	f.descr[id] = strings.Join(op, " ")
	h, ok := f.build(id, posaUnknownHash("genesis-parent"), num, cb, diff, extra, tm, gl, 0, "-", "-")
	if !ok {
		return "bad-op"
	}
	gj, err := json.Marshal(&posaGenesisJSON{Header: f.headerJSON(h), PrevValidators: pvs})
	if err != nil {
		panic(err)
	}
	p := &hscommon.SyncGenesisHeaderParam{ChainID: posaChainID, GenesisHeader: gj}
	ps := common.NewZeroCopySink(nil)
	p.Serialization(ps)
	if err := f.rt.genesis(newNativeAnon(f.db, ps.Bytes())); err == nil {
		r.Viol("C29:"+f.rt.name+":genesis-without-operator-witness", "SyncGenesisHeader accepted a transaction that is not witnessed by the consensus operator")
	}
	hash := f.headerHash(h)
	hadGenesis := f.genesis != ""
	if num > f.maxNum {
		f.maxNum = num
	}
	res := posaErrClass(f.rt.genesis(newNative(f.db, ps.Bytes())))
	if res == "ok" {
		if hadGenesis {
			r.Viol("C29:"+f.rt.name+":second-genesis-accepted", "a second SyncGenesisHeader replaced the trust root")
		}
		n := &posaNode{id: id, hash: hash, num: num, cb: cb, sealBy: -1, diff: diff, extra: extra, stored: true, refTD: diff, pv1: pv1, pv1h: pv1h, isGen: true, time: tm, gl: gl}
		f.nodes[id] = n
		f.byHash[hash] = id
		f.genesis = id
		if !f.rawStored(hash) {
			return "ok NOT-STORED"
		}
	}
	line, _, _, _, _ := f.canonLine()
	return res + " " + line
}

func (f *posaFam) execHdr(r *hx.Run, op []string, rootLabel, desc string) string {
	id, parent := op[1], op[2]
	num, e1 := strconv.ParseUint(op[3], 10, 32)
	cb, ok1 := f.cbOf(op[4])
	diff, e2 := strconv.ParseUint(op[6], 10, 32)
	extra, sealLen, ok2 := posaExtra(op[7])
	tm, e3 := strconv.ParseUint(op[8], 10, 62)
	gl, e4 := strconv.ParseUint(op[9], 10, 64)
	gu, e5 := strconv.ParseUint(op[10], 10, 64)
	if e1 != nil || !ok1 || e2 != nil || !ok2 || e3 != nil || e4 != nil || e5 != nil {
		return "bad-op"
	}
	if d, seen := f.descr[id]; seen && d != desc {
		return "bad-op"
	}
	sealTok := op[5]
	sealBy := -1
	sealKind := sealTok[0]
	if sealKind == 's' || sealKind == 'w' {
		v, err := strconv.Atoi(sealTok[1:])
		if err != nil || v < 0 || v >= posaPool {
			return "bad-op"
		}
		sealBy = v
	} else if sealTok != "x" && sealTok != "n" {
		return "bad-op"
	}
	phash := f.hashOf(parent)
	h, ok := f.build(rootLabel, phash, num, cb, diff, extra, tm, gl, gu, op[11], op[12])
	if !ok {
		return "bad-op"
	}
	f.descr[id] = desc
	genuine := -1
	if sealLen == 65 {
		seal := h.Extra[len(h.Extra)-65:]
		switch sealKind {
		case 's', 'w':
			sh := f.rt.sealHash(h, f.ethCID)
			if sealKind == 'w' {
				sh = ecommon.Hash(sha256.Sum256(append([]byte("another message"), sh[:]...)))
			} else {
				genuine = sealBy
			}
			sig, err := ecrypto.Sign(sh[:], posaKeys[sealBy].pri)
			if err != nil {
				panic(err)
			}
			copy(seal, sig)
		case 'x':
			seal[64] = 9
		}
	}
	hash := f.headerHash(h)
	if num > f.maxNum {
		f.maxNum = num
	}
	// the harness recovers the signer from the header's own seal (independent of the handler and of the op token)
	var rec ecommon.Address
	recOK := false
	if len(h.Extra) >= 65 {
		sh := f.rt.sealHash(h, f.ethCID)
		if pub, err := ecrypto.Ecrecover(sh[:], h.Extra[len(h.Extra)-65:]); err == nil && len(pub) == 65 {
			copy(rec[:], ecrypto.Keccak256(pub[1:])[12:])
			recOK = true
		}
	}
	n, seen := f.nodes[id]
	if !seen {
		n = &posaNode{id: id, parent: parent, hash: hash, phash: phash, num: num, cb: cb, sealBy: genuine, diff: diff, extra: extra,
			rec: rec, recOK: recOK,
			mixBad: strings.Contains(op[11], "mix"), uncBad: strings.Contains(op[11], "unc"), time: tm, gl: gl}
		f.nodes[id] = n
		f.byHash[hash] = id
	}
	storedBefore := f.rawStored(hash)
	parentBefore := f.rawStored(phash)
	p := &hscommon.SyncBlockHeaderParam{ChainID: posaChainID, Headers: [][]byte{f.headerJSON(h)}}
	ps := common.NewZeroCopySink(nil)
	p.Serialization(ps)
	err := f.rt.sync(newNative(f.db, ps.Bytes()))
	storedAfter := f.rawStored(hash)
	res := posaErrClass(err)
	switch {
	case storedBefore:
		if err != nil {
			res = "dup-BUT-" + res
		} else {
			res = "skip:dup"
		}
	case err != nil:
		if storedAfter {
			r.Viol("C29:"+f.rt.name+":stored-although-rejected", fmt.Sprintf("header %s rejected (%s) but present in the store", id, res))
		}
	case !storedAfter:
		if parentBefore {
			res = "dropped"
		} else {
			res = "skip:noparent"
		}
	default:
		n.stored = true
		f.oracle(r, n, parentBefore)
	}
	if f.genesis != "" {
		f.canonOracle(r, 6)
	}
	line, _, _, _, _ := f.canonLine()
	return res + " " + line
}

func (f *posaFam) execState(r *hx.Run) string {
	var sb strings.Builder
	sb.WriteString("canon=")
	first := true
	for h := uint64(0); h <= f.maxNum+2; h++ {
		if hash, ok := f.rawCanon(h); ok {
			if !first {
				sb.WriteString(",")
			}
			first = false
			fmt.Fprintf(&sb, "%d:%s", h, f.label(hash))
		}
	}
	if first {
		sb.WriteString("-")
	}
	var st []string
	for id, n := range f.nodes {
		if f.rawStored(n.hash) {
			st = append(st, id)
		}
	}
	sort.Slice(st, func(i, j int) bool {
		a, _ := strconv.Atoi(st[i])
		b, _ := strconv.Atoi(st[j])
		return a < b
	})
	sb.WriteString(" stored=")
	if len(st) == 0 {
		sb.WriteString("-")
	}
	sb.WriteString(strings.Join(st, ","))
	if f.genesis != "" {
		f.canonOracle(r, 0)
	}
	return sb.String()
}

func (f *posaFam) Gen(r *hx.Run) {
	f.genPosa(r)
}
