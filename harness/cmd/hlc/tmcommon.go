package main

// Shared part of the Tendermint-family light-client families (C30): descriptor vocabulary, key pools, the
// hash-id registry, the generic Exec loop and the property oracle. Router specifics (real header types, codecs,
// handlers) live in tmcosmos.go / tmokex.go / tmheimdall.go; deposit proofs in tmdep.go.
//
// Every op line is a full description of what is submitted; all real bytes (keys, signatures, hashes, proofs)
// are derived deterministically from it, so a case replays from its op lines alone.
//
//	hdr <name> <ver> <chain> <height> <vh> <nvh> <app> <vals> nil
//	hdr <name> <ver> <chain> <height> <vh> <nvh> <app> <vals> <cheight> <round> <bid> <signchain> <slots>
//	                      defines header <name> (no handler call). ver = Header.Version.Block, chain = chain-id string,
//	                      vh/nvh = hash descriptors of ValidatorsHash/NextValidatorsHash, app = AppHash descriptor,
//	                      vals = submitted Valsets, then the commit ("nil" = absent Commit pointer)
//	raw <name> <hex>      defines <name> as undecodable header bytes
//	genesis <name>        SyncGenesisHeader (operator-witnessed transaction; an unwitnessed attempt is made first)
//	sync <n1>,<n2>,..     SyncBlockHeader with that batch ("-" = empty batch)
//	dep <name> <h> <pf>   MakeDepositProposal with header <name>, EntranceParam.Height h and proof descriptor pf (tmdep.go)
//	span <name> <pf>      heimdall VerifySpan
//
// vals: "-" or comma list of <key>:<power>[@<addrkey>] (pool key index, voting power, optional pool index whose
// address is written into Validator.Address instead of the key's own).
// hash descriptors: "=" hash of the header's own valset as the router computes it, "L=" / "N=" legacy (amino) /
// new (protobuf, cosmos block version >= 11) hash of the own valset, "L<vals>" / "N<vals>" the same of another
// valset, "x<k>" arbitrary 32 bytes no. k, "e" empty.
// bid: "=" BlockID with the header's hash, "o" another hash, "z" the zero BlockID, "t" BlockID quoting the block hash of
// the epoch info tracked when the header is defined (bad-op without tracked info).
// slots (cosmos, okex): "-" or comma list of: a absent | g<i> for-block vote signed by key i | n<i> nil vote signed
// by key i | w<i> for-block, key i signed other bytes | b for-block, garbage signature | A absent flag with a
// signature | E<i> for-block, empty signature | u<i> unknown BlockIDFlag.
// slots (heimdall): a nil precommit | g<i> n<i> w<i> b as above | t<i> prevote type | h<i> other height | r<i> other
// round | =<j> verbatim copy of slot j; any non-nil slot may carry @<j> = ValidatorIndex j instead of its position.
//
// Outcome: "<verdict> <tracked>" with tracked = "-" or "h=<height> n=<next-hash id> c=<chain> b=<block-hash id>".

import (
	"crypto/sha256"
	"encoding/hex"
	"fmt"
	"os"
	"runtime/debug"
	"sort"
	"strconv"
	"strings"

	"github.com/polynetwork/poly/common"
	cstates "github.com/polynetwork/poly/core/states"
	hscommon "github.com/polynetwork/poly/native/service/header_sync/common"
	"github.com/polynetwork/poly/native/service/utils"
	"github.com/polynetwork/poly/native/storage"
	"polyverif/internal/hx"
)

const tmPool = 12
const tmChainID = 7
const tmMaxPower = int64(1152921504606846975) // MaxTotalVotingPower = MaxInt64 / 8

type tmVal struct {
	key   int
	power int64
	addr  int
}

type tmSlot struct {
	kind   byte
	key    int
	vidx   int // heimdall: ValidatorIndex override, -1 = position
	copyOf int // heimdall '=' slots
}

type tmHdr struct {
	name      string
	raw       []byte
	isRaw     bool
	ver       uint64
	chain     string
	height    int64
	vh, nvh   string
	app       string
	vals      []tmVal
	nilCommit bool
	cheight   int64
	round     int64
	bid       byte
	signChain string
	slots     []tmSlot
}

// tmTracked is the epoch info as read back from the store.
type tmTracked struct {
	ok     bool
	height int64
	next   []byte
	block  []byte
	chain  string
}

// tmBuilt is a header turned into real bytes plus the facts the oracle needs (computed with the libraries only).
type tmBuilt struct {
	bytes     []byte
	height    int64
	vh, nvh   []byte
	hash      []byte
	hashID    string
	nvhID     string
	chain     string
	appHash   []byte
	validSet  bool   // the submitted Valsets form a validator set (no duplicate address, powers in range)
	setHashL  []byte // legacy hash of the submitted set
	setHashN  []byte // new-style hash (cosmos only, nil otherwise)
	total     int64
	nvhDiffer bool // NextValidatorsHash != ValidatorsHash (bytes)
	// the commit is for this header: Commit.BlockID.Hash equals the recomputed header hash and the heights agree
	commitForHeader bool
	// signerPower(chain) = power of the DISTINCT valset entries for which some slot carries a for-block vote whose
	// signature verifies under the entry's key over the vote's own canonical sign bytes for that chain id.
	signerPower func(chain string) int64
}

type tmRouter interface {
	name() string
	// signChainOf: the chain id the router puts into the sign bytes.
	usesHeaderChain() bool
	build(f *tmFam, d *tmHdr) (*tmBuilt, bool)
	genesis(db *storage.CacheDB, input []byte, anon bool) error
	sync(db *storage.CacheDB, input []byte) error
	errClass(err error) string
}

type tmFam struct {
	rt      tmRouter
	stream  string
	db      *storage.CacheDB
	hdrs    map[string]*tmHdr
	built   map[string]*tmBuilt
	hashIDs map[string]string
	clash   bool
	dep     *tmDepState
}

func (f *tmFam) Reset(r *hx.Run) {
	f.db = newCacheDB()
	f.hdrs = map[string]*tmHdr{}
	f.built = map[string]*tmBuilt{}
	f.hashIDs = map[string]string{"": "e"}
	f.clash = false
	f.dep = nil
	f.resetDep()
}

func (f *tmFam) regHash(real []byte, id string) {
	k := hex.EncodeToString(real)
	if old, ok := f.hashIDs[k]; ok && old != id {
		f.clash = true
	}
	f.hashIDs[k] = id
}

func (f *tmFam) idOf(real []byte) string {
	if id, ok := f.hashIDs[hex.EncodeToString(real)]; ok {
		return id
	}
	return "?" + hex.EncodeToString(real)
}

// ---- descriptor parsing ----

func tmParseVals(s string) ([]tmVal, bool) {
	if s == "-" {
		return nil, true
	}
	var out []tmVal
	for _, p := range strings.Split(s, ",") {
		addr := -1
		if at := strings.IndexByte(p, '@'); at >= 0 {
			a, err := strconv.Atoi(p[at+1:])
			if err != nil || a < 0 || a >= tmPool {
				return nil, false
			}
			addr = a
			p = p[:at]
		}
		kp := strings.Split(p, ":")
		if len(kp) != 2 {
			return nil, false
		}
		k, err1 := strconv.Atoi(kp[0])
		pw, err2 := strconv.ParseInt(kp[1], 10, 64)
		if err1 != nil || err2 != nil || k < 0 || k >= tmPool {
			return nil, false
		}
		if addr < 0 {
			addr = k
		}
		out = append(out, tmVal{key: k, power: pw, addr: addr})
	}
	return out, true
}

func tmParseSlots(s string, heimdall bool) ([]tmSlot, bool) {
	if s == "-" {
		return nil, true
	}
	var out []tmSlot
	for _, p := range strings.Split(s, ",") {
		if p == "" {
			return nil, false
		}
		sl := tmSlot{kind: p[0], vidx: -1, copyOf: -1}
		rest := p[1:]
		if at := strings.IndexByte(rest, '@'); at >= 0 {
			if !heimdall {
				return nil, false
			}
			v, err := strconv.Atoi(rest[at+1:])
			if err != nil || v < 0 || v > 64 {
				return nil, false
			}
			sl.vidx = v
			rest = rest[:at]
		}
		kinds := "gnwEu"
		bare := "abA"
		if heimdall {
			kinds = "gnwthr"
			bare = "ab"
		}
		switch {
		case strings.IndexByte(bare, sl.kind) >= 0:
			if rest != "" || (sl.kind == 'a' && sl.vidx >= 0) {
				return nil, false
			}
		case strings.IndexByte(kinds, sl.kind) >= 0:
			v, err := strconv.Atoi(rest)
			if err != nil || v < 0 || v >= tmPool {
				return nil, false
			}
			sl.key = v
		case heimdall && sl.kind == '=':
			v, err := strconv.Atoi(rest)
			if err != nil || v < 0 || v > 64 || sl.vidx >= 0 {
				return nil, false
			}
			sl.copyOf = v
		default:
			return nil, false
		}
		out = append(out, sl)
	}
	return out, true
}

func tmParseHdr(op []string, heimdall bool) (*tmHdr, bool) {
	// op[0] == "hdr"
	if len(op) != 10 && len(op) != 14 {
		return nil, false
	}
	d := &tmHdr{name: op[1], chain: op[3], vh: op[5], nvh: op[6], app: op[7]}
	var err error
	if d.ver, err = strconv.ParseUint(op[2], 10, 32); err != nil {
		return nil, false
	}
	if d.height, err = strconv.ParseInt(op[4], 10, 64); err != nil {
		return nil, false
	}
	var ok bool
	if d.vals, ok = tmParseVals(op[8]); !ok {
		return nil, false
	}
	if len(op) == 10 {
		if op[9] != "nil" {
			return nil, false
		}
		d.nilCommit = true
		return d, true
	}
	if d.cheight, err = strconv.ParseInt(op[9], 10, 64); err != nil {
		return nil, false
	}
	if d.round, err = strconv.ParseInt(op[10], 10, 32); err != nil {
		return nil, false
	}
	if len(op[11]) != 1 || strings.IndexByte("=ozt", op[11][0]) < 0 {
		return nil, false
	}
	d.bid = op[11][0]
	d.signChain = op[12]
	if d.slots, ok = tmParseSlots(op[13], heimdall); !ok {
		return nil, false
	}
	for i, s := range d.slots {
		if s.copyOf >= 0 && (s.copyOf >= len(d.slots) || s.copyOf == i || d.slots[s.copyOf].kind == '=' || d.slots[s.copyOf].kind == 'a') {
			return nil, false
		}
	}
	return d, true
}

// ---- validator sets as the descriptors see them ----

// tmSetValid: what tendermint's NewValidatorSet demands (no duplicate address, 0 < power <= max, total <= max).
func tmSetValid(vs []tmVal) bool {
	seen := map[int]bool{}
	var total int64
	for _, v := range vs {
		if seen[v.addr] || v.power <= 0 || v.power > tmMaxPower {
			return false
		}
		seen[v.addr] = true
		total += v.power
		if total > tmMaxPower {
			return false
		}
	}
	return true
}

func tmKeysDistinct(vs []tmVal) bool {
	seen := map[int]bool{}
	for _, v := range vs {
		if seen[v.key] {
			return false
		}
		seen[v.key] = true
	}
	return true
}

// tmByAddr: the order of ValidatorSet.Validators (pool indices are in address order).
func tmByAddr(vs []tmVal) []tmVal {
	out := append([]tmVal(nil), vs...)
	sort.SliceStable(out, func(i, j int) bool { return out[i].addr < out[j].addr })
	return out
}

func tmLegacyID(vs []tmVal) string {
	if len(vs) == 0 {
		return "e"
	}
	var sb strings.Builder
	sb.WriteString("L")
	for i, v := range tmByAddr(vs) {
		if i > 0 {
			sb.WriteString(",")
		}
		fmt.Fprintf(&sb, "%d:%d", v.key, v.power)
	}
	return sb.String()
}

func tmNewID(vs []tmVal) string {
	out := append([]tmVal(nil), vs...)
	sort.SliceStable(out, func(i, j int) bool {
		if out[i].power != out[j].power {
			return out[i].power > out[j].power
		}
		return out[i].key < out[j].key
	})
	var sb strings.Builder
	sb.WriteString("N")
	for i, v := range out {
		if i > 0 {
			sb.WriteString(",")
		}
		fmt.Fprintf(&sb, "%d:%d", v.key, v.power)
	}
	return sb.String()
}

func tmArb(k string) []byte {
	d := sha256.Sum256([]byte("polyverif-tm-arbitrary-" + k))
	return d[:]
}

// ---- store access (independent of the handlers) ----

func tmReadTracked(db *storage.CacheDB) tmTracked {
	raw, err := db.Get(utils.ConcatKey(utils.HeaderSyncContractAddress, []byte(hscommon.EPOCH_SWITCH), utils.GetUint64Bytes(tmChainID)))
	if err != nil || raw == nil {
		return tmTracked{}
	}
	b, err := cstates.GetValueFromRawStorageItem(raw)
	if err != nil {
		return tmTracked{}
	}
	src := common.NewZeroCopySource(b)
	h, e1 := src.NextInt64()
	bh, e2 := src.NextVarBytes()
	nx, e3 := src.NextVarBytes()
	ch, e4 := src.NextString()
	if e1 || e2 || e3 || e4 {
		return tmTracked{}
	}
	return tmTracked{ok: true, height: h, next: nx, block: bh, chain: ch}
}

func (f *tmFam) showTracked(t tmTracked) string {
	if !t.ok {
		return "-"
	}
	s := fmt.Sprintf("h=%d n=%s c=%s b=%s", t.height, f.idOf(t.next), t.chain, f.idOf(t.block))
	if f.clash {
		s += " HASH-ID-CLASH"
	}
	return s
}

func tmSameTracked(a, b tmTracked) bool {
	return a.ok == b.ok && a.height == b.height && string(a.next) == string(b.next) && string(a.block) == string(b.block) && a.chain == b.chain
}

// ---- Exec ----

func (f *tmFam) Exec(r *hx.Run, op []string) string {
	if len(op) == 0 {
		return "bad-op"
	}
	if os.Getenv("TMDEBUG") != "" {
		defer func() {
			if e := recover(); e != nil {
				fmt.Fprintf(os.Stderr, "panic in %v: %v\n%s\n", op, e, debug.Stack())
				panic(e)
			}
		}()
	}
	rn := f.rt.name()
	switch op[0] {
	case "hdr":
		d, ok := tmParseHdr(op, rn == "heimdall")
		if !ok {
			return "bad-op"
		}
		b, ok := f.rt.build(f, d)
		if !ok {
			return "bad-op"
		}
		f.hdrs[d.name] = d
		f.built[d.name] = b
		return "def"
	case "raw":
		if len(op) != 3 {
			return "bad-op"
		}
		bz, err := hex.DecodeString(op[2])
		if err != nil {
			return "bad-op"
		}
		f.hdrs[op[1]] = &tmHdr{name: op[1], isRaw: true, raw: bz}
		f.built[op[1]] = &tmBuilt{bytes: bz}
		return "def"
	case "genesis":
		if len(op) != 2 {
			return "bad-op"
		}
		b, ok := f.built[op[1]]
		if !ok {
			return "bad-op"
		}
		p := &hscommon.SyncGenesisHeaderParam{ChainID: tmChainID, GenesisHeader: b.bytes}
		sink := common.NewZeroCopySink(nil)
		p.Serialization(sink)
		pre := tmReadTracked(f.db)
		if err := f.rt.genesis(f.db, sink.Bytes(), true); err == nil {
			r.Viol("C30:"+rn+":genesis-without-operator-witness", "SyncGenesisHeader accepted a transaction that is not witnessed by the consensus operator")
		}
		if mid := tmReadTracked(f.db); !tmSameTracked(pre, mid) {
			r.Viol("C30:"+rn+":genesis-without-operator-witness", "an unwitnessed SyncGenesisHeader changed the tracked epoch info")
		}
		err := f.rt.genesis(f.db, sink.Bytes(), false)
		post := tmReadTracked(f.db)
		if pre.ok && !tmSameTracked(pre, post) {
			r.Viol("C30:"+rn+":genesis-overwrote-tracked-info", "SyncGenesisHeader replaced an already installed epoch info")
		}
		return f.rt.errClass(err) + " " + f.showTracked(post)
	case "sync":
		if len(op) != 2 {
			return "bad-op"
		}
		var names []string
		if op[1] != "-" {
			names = strings.Split(op[1], ",")
		}
		p := &hscommon.SyncBlockHeaderParam{ChainID: tmChainID}
		var bs []*tmBuilt
		for _, n := range names {
			b, ok := f.built[n]
			if !ok {
				return "bad-op"
			}
			bs = append(bs, b)
			p.Headers = append(p.Headers, b.bytes)
		}
		sink := common.NewZeroCopySink(nil)
		p.Serialization(sink)
		pre := tmReadTracked(f.db)
		err := f.rt.sync(f.db, sink.Bytes())
		post := tmReadTracked(f.db)
		res := f.rt.errClass(err)
		f.syncOracle(r, names, bs, pre, post, err == nil)
		return res + " " + f.showTracked(post)
	case "dep", "sidechain":
		return f.execDep(r, op)
	case "span":
		return f.execSpan(r, op)
	}
	return "bad-op"
}

// syncOracle evaluates C30 on what SyncBlockHeader did: every change of the tracked info must be explained by a
// chain of headers of the batch, each at a greater height, with a valset hashing to the then trusted next hash and
// a commit in which distinct validators holding more than 2/3 of the power validly signed for the block.
func (f *tmFam) syncOracle(r *hx.Run, names []string, bs []*tmBuilt, pre, post tmTracked, accepted bool) {
	rn := f.rt.name()
	if pre.ok && post.ok && post.height < pre.height {
		r.Viol("C30:"+rn+":height-decreased", fmt.Sprintf("tracked height went from %d to %d", pre.height, post.height))
	}
	if !accepted {
		if !tmSameTracked(pre, post) {
			r.Viol("C30:"+rn+":changed-although-rejected", "SyncBlockHeader returned an error but the tracked epoch info changed")
		}
		return
	}
	if !pre.ok {
		r.Viol("C30:"+rn+":advanced-without-trust-root", "SyncBlockHeader succeeded although no epoch info was installed")
		return
	}
	cur := pre
	for i, b := range bs {
		if b.vh == nil && b.nvh == nil && b.hash == nil { // raw
			continue
		}
		if !b.nvhDiffer || cur.height >= b.height {
			continue
		}
		f.justify(r, "sync", names[i], b, cur)
		cur = tmTracked{ok: true, height: b.height, next: b.nvh, block: b.hash, chain: cur.chain}
	}
	if !tmSameTracked(cur, post) {
		r.Viol("C30:"+rn+":tracked-info-unexplained", fmt.Sprintf("tracked info after the batch (h=%d n=%s) is not the result of adopting the batch's candidate headers in order (h=%d n=%s)",
			post.height, f.idOf(post.next), cur.height, f.idOf(cur.next)))
	}
}

// justify checks one accepted header against the info it was verified with.
func (f *tmFam) justify(r *hx.Run, what, name string, b *tmBuilt, cur tmTracked) {
	rn := f.rt.name()
	if !b.validSet {
		r.Viol("C30:"+rn+":accepted-malformed-valset", fmt.Sprintf("%s accepted header %s whose Valsets do not form a validator set", what, name))
		return
	}
	if !(string(cur.next) == string(b.setHashL) || (b.setHashN != nil && string(cur.next) == string(b.setHashN))) {
		r.Viol("C30:"+rn+":advanced-with-untrusted-valset", fmt.Sprintf("%s accepted header %s whose validator set does not hash to the trusted next-validators hash %s",
			what, name, f.idOf(cur.next)))
	}
	if !b.commitForHeader {
		key := "C30:" + rn + ":advanced-with-unverified-header"
		if what != "sync" {
			key = "C30:" + rn + ":" + what + "-accepted-with-unverified-header"
		}
		r.Viol(key, fmt.Sprintf("%s accepted header %s (height %d) whose commit is not for it: Commit.BlockID.Hash differs from the recomputed header hash (or the commit height from the header height), so no signature in it speaks for this header",
			what, name, b.height))
	}
	chain := cur.chain
	if f.rt.usesHeaderChain() {
		chain = b.chain
	}
	p := b.signerPower(chain)
	// more than two thirds: 3*p > 2*total (exact, no rounding)
	if !(3*p > 2*b.total) {
		key := "C30:" + rn + ":advanced-below-two-thirds"
		if what != "sync" {
			key = "C30:" + rn + ":" + what + "-accepted-below-two-thirds"
		}
		r.Viol(key, fmt.Sprintf("%s accepted header %s (height %d): distinct validators with a valid for-block signature hold %d of %d voting power, not more than two thirds",
			what, name, b.height, p, b.total))
	}
}

// ---- generator helpers ----

func tmValsStr(vs []tmVal) string {
	if len(vs) == 0 {
		return "-"
	}
	s := make([]string, len(vs))
	for i, v := range vs {
		s[i] = fmt.Sprintf("%d:%d", v.key, v.power)
		if v.addr != v.key {
			s[i] += fmt.Sprintf("@%d", v.addr)
		}
	}
	return strings.Join(s, ",")
}

// tmRandSet: n distinct pool keys with powers from a boundary-heavy distribution, in random submission order.
func tmRandSet(r *hx.Run, n int) []tmVal {
	p := r.Rng.Perm(tmPool)
	vs := make([]tmVal, n)
	mode := r.Rng.Intn(5)
	for i := 0; i < n; i++ {
		var pw int64
		switch mode {
		case 0:
			pw = 1
		case 1:
			pw = int64(1 + r.Rng.Intn(10))
		case 2:
			pw = int64(1 + r.Rng.Intn(1000))
		case 3:
			pw = []int64{1, 2, 3, 5, 10, 100, 1 << 20, 1 << 40}[r.Rng.Intn(8)]
		default:
			pw = int64(1 + r.Rng.Intn(3))
			if i == 0 {
				pw = int64(1 + r.Rng.Intn(20))
			}
		}
		vs[i] = tmVal{key: p[i], power: pw, addr: p[i]}
	}
	return vs
}

func tmTotal(vs []tmVal) int64 {
	var t int64
	for _, v := range vs {
		t += v.power
	}
	return t
}
