package main

import (
	"fmt"
	"strconv"
	"strings"

	"polyverif/internal/hx"
)

// Generator of the bor family: spans of 1..7 validators (equal and unequal powers, proposer priorities advanced 0..19
// times), header trees in which every position behind the proposer seals in rotation (in turn, every backup, including
// the wrap-around where the signer sorts before the proposer), with the difficulty N - succession and the back-off
// time, competing forks, and single mutations (difficulty N+k / 0 / off by one, outsider, back-off one second short,
// period short, extra data with validator bytes / short, mix digest, uncle hash, bad seals, wrong number, unknown
// parent, duplicates, twins with another seal).
var borMutations = []string{
	"diff-plus-n", "diff-0", "diff-up", "diff-down", "outsider", "too-soon", "time-early", "extra-validators", "extra-short",
	"mix", "uncle", "seal-x", "seal-w", "number-plus", "parent-unknown", "dup-stored", "twin-outsider", "twin-garbage", "twin-other",
}

func (f *borFam) Gen(r *hx.Run) {
	r.Rule("polygon bor, one fixed span per case: 1..7 validators (equal / unequal powers, proposer advanced 0..19 times), every succession " +
		"position sealing in rotation incl. wrap-around, back-off times, forks, 19 mutations; distinct non-trivial = (N, proposer index, " +
		"succession, mutation, outcome class)")
	cases := r.Pick(40, 500)
	for c := 0; c < cases; c++ {
		r.Case(fmt.Sprintf("bor-%d", c))
		f.genCase(r, c)
	}
}

func (f *borFam) genCase(r *hx.Run, c int) {
	period := uint64(1 + r.Rng.Intn(3))
	pdelay := uint64(1 + r.Rng.Intn(6))
	backup := uint64(r.Rng.Intn(4))
	if backup == 0 && r.Rng.Chance(3, 4) {
		backup = 2
	}
	r.Do(fmt.Sprintf("router bor %d %d %d %s", period, pdelay, backup, posaAddrTable()))
	N := 3 + c%5
	if r.Rng.Chance(1, 10) {
		N = 1 + r.Rng.Intn(2)
	}
	keys := r.Rng.Perm(posaPool)[:N]
	powers := make([]int64, N)
	ps := make([]string, N)
	equal := r.Rng.Bool()
	for i := range powers {
		powers[i] = 10
		if !equal {
			powers[i] = int64(1 + r.Rng.Intn(100))
		}
		ps[i] = strconv.FormatInt(powers[i], 10)
	}
	k := r.Rng.Intn(20)
	vs, ok := borValidatorSet(keys, powers, k)
	if !ok {
		return
	}
	prop := idxOfAddr(vs.GetProposer().Address)
	gnum := []uint64{0, 1, 64, 1000, 63}[r.Rng.Intn(5)]
	tm := uint64(1600000000)
	gid := "1"
	res := r.Do(fmt.Sprintf("genesis 1 %d %s %s %d %d %d %d", gnum, valsTok(keys), strings.Join(ps, ","), k, prop, tm, 1+r.Rng.Intn(int(N))))
	if !strings.HasPrefix(res, "ok") {
		return
	}
	if r.Rng.Chance(1, 5) {
		r.Do(fmt.Sprintf("genesis 2 %d %s %s %d %d %d 1", gnum+1, valsTok(keys), strings.Join(ps, ","), k, prop, tm))
	}
	sorted := sortKeysByAddr(keys)
	pi := 0
	for i, key := range sorted {
		if key == prop {
			pi = i
		}
	}
	var outsiders []int
	for key := 0; key < posaPool; key++ {
		in := false
		for _, x := range keys {
			if x == key {
				in = true
			}
		}
		if !in {
			outsiders = append(outsiders, key)
		}
	}
	next := 2
	label := func() string { next++; return strconv.Itoa(next) }
	tips := []string{gid}
	var rej []string
	cur := gid
	steps := 20 + r.Rng.Intn(r.Pick(30, 60))
	mutRate := 3 + r.Rng.Intn(3)
	for s := 0; s < steps; s++ {
		if r.Rng.Chance(1, 7) && len(tips) > 1 {
			back := 3
			if len(tips) < back {
				back = len(tips)
			}
			cur = tips[len(tips)-1-r.Rng.Intn(back)]
			r.Hist("gen.fork")
		}
		tip := f.nodes[cur]
		mut := "valid"
		if r.Rng.Chance(1, mutRate) {
			mut = borMutations[r.Rng.Intn(len(borMutations))]
		}
		// succession positions in rotation so that every backup (and the wrap-around) occurs; in turn most often
		succ := s % N
		if r.Rng.Chance(1, 3) {
			succ = 0
		}
		si := (pi + succ) % N
		signer := sorted[si]
		id := label()
		parent := tip.id
		num := tip.num + 1
		diff := uint64(N - succ)
		seal := "s" + strconv.Itoa(signer)
		extra := "32/-/0/65"
		t := tip.time + period + uint64(succ)*backup + uint64(r.Rng.Intn(2))
		flags := "-"
		twin := ""
		switch mut {
		case "valid":
		case "diff-plus-n":
			diff += uint64(N)
		case "diff-0":
			diff = 0
		case "diff-up":
			diff++
		case "diff-down":
			diff--
		case "outsider":
			if len(outsiders) == 0 {
				continue
			}
			seal = "s" + strconv.Itoa(outsiders[r.Rng.Intn(len(outsiders))])
			diff = uint64(1 + r.Rng.Intn(N))
		case "too-soon":
			if uint64(succ)*backup == 0 {
				continue
			}
			t = tip.time + period + uint64(succ)*backup - 1
		case "time-early":
			t = tip.time + period - 1
		case "extra-validators":
			extra = "32/" + valsTok(keys[:1]) + "/20/65"
		case "extra-short":
			extra = []string{"32/-/0/64", "10/-/0/0", "32/-/1/65"}[r.Rng.Intn(3)]
			seal = "n"
		case "mix":
			flags = "mix"
		case "uncle":
			flags = "unc"
		case "seal-x":
			seal = "x"
		case "seal-w":
			seal = "w" + strconv.Itoa(signer)
		case "number-plus":
			num++
		case "parent-unknown":
			parent = strconv.Itoa(900000 + r.Rng.Intn(1000))
		case "dup-stored":
			if len(tips) < 2 {
				continue
			}
			r.Do(f.descr[tips[1+r.Rng.Intn(len(tips)-1)]])
			continue
		case "twin-outsider":
			if len(outsiders) == 0 {
				continue
			}
			twin = "s" + strconv.Itoa(outsiders[r.Rng.Intn(len(outsiders))])
		case "twin-garbage":
			twin = "x"
		case "twin-other":
			if N < 2 {
				continue
			}
			twin = "s" + strconv.Itoa(sorted[(si+1)%N])
		}
		op := fmt.Sprintf("hdr %s %s %d %s %d %s %d %s", id, parent, num, seal, diff, extra, t, flags)
		var out string
		if twin != "" && r.Rng.Bool() {
			// the twin with the foreign seal first, then the genuine header
			bad := fmt.Sprintf("hdr %s %s %d %s %d %s %d %s", id, parent, num, twin, diff, extra, t, flags)
			o1 := r.Do(bad)
			r.Hist("twin.before." + strings.Fields(o1)[0])
			if strings.HasPrefix(o1, "reject") {
				rej = append(rej, id)
			}
			id = label()
			out = r.Do(fmt.Sprintf("twin %s %s %s", id, strconv.Itoa(next-1), seal))
			r.Hist("twin.genuine-after." + strings.Fields(out)[0])
		} else {
			out = r.Do(op)
			if twin != "" && strings.HasPrefix(out, "ok") {
				o2 := r.Do(fmt.Sprintf("twin %s %s %s", label(), id, twin))
				r.Hist("twin.after." + strings.Fields(o2)[0])
			}
		}
		cls := strings.Fields(out)[0]
		if cls == "ok" {
			tips = append(tips, id)
			cur = id
		} else if strings.HasPrefix(cls, "reject") {
			rej = append(rej, id)
		}
		wrap := si < pi
		r.Nontrivial(fmt.Sprintf("%d/%d/%d/%s/%s", N, pi, succ, mut, cls))
		r.Hist("mut." + mut)
		r.Hist("outcome." + cls)
		r.Hist(fmt.Sprintf("succession.%d", succ))
		if wrap {
			r.Hist("signer-before-proposer")
		}
		if mut != "valid" && s%11 == 3 {
			r.Sample(map[string]interface{}{"validators": N, "proposer_index": pi, "signer_index": si, "succession": succ, "mutation": mut, "outcome": out})
		}
	}
	_ = rej
	r.Do("state")
}
