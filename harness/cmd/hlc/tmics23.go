package main

// ICS-23 commitment state for the cosmos deposit family (C30): a hand-built two-level commitment — per-store trees
// (store "s": IAVL-shaped inner nodes satisfying ics23.IavlSpec, proof op "ics23:iavl"; store "acc": tendermint simple
// Merkle nodes satisfying ics23.TendermintSpec, proof op "ics23:simple") under a simple-Merkle multistore root (proof op
// "ics23:simple") = app hash q1. Existence and non-existence proofs are built with the confio/ics23 types and checked
// with ics23.VerifyMembership / VerifyNonMembership when the state is built. No ics23 proof generator for IAVL is
// available offline (iavl v0.14.0 has none), hence the hand-built trees.

import (
	"bytes"
	"crypto/sha256"
	"fmt"
	"sort"

	ics23 "github.com/confio/ics23/go"
	"github.com/tendermint/tendermint/crypto/merkle"
)

type tmIcsLeaf struct{ key, value []byte }

type tmIcsTree struct {
	iavl   bool
	leaves []tmIcsLeaf
	paths  [][]*ics23.InnerOp
	root   []byte
}

func (t *tmIcsTree) spec() *ics23.ProofSpec {
	if t.iavl {
		return ics23.IavlSpec
	}
	return ics23.TendermintSpec
}

func (t *tmIcsTree) opType() string {
	if t.iavl {
		return "ics23:iavl"
	}
	return "ics23:simple"
}

func (t *tmIcsTree) leafOp() *ics23.LeafOp {
	op := &ics23.LeafOp{Hash: ics23.HashOp_SHA256, PrehashValue: ics23.HashOp_SHA256, Length: ics23.LengthOp_VAR_PROTO, Prefix: []byte{0}}
	if t.iavl {
		op.Prefix = []byte{0, 2, 2} // height 0, size 1, version 1 (zig-zag varints)
	}
	return op
}

func tmIcsSplit(n int) int {
	k := 1
	for k*2 < n {
		k *= 2
	}
	return k
}

func (t *tmIcsTree) rec(lo, hi, height int) []byte {
	if hi-lo == 1 {
		h, err := t.leafOp().Apply(t.leaves[lo].key, t.leaves[lo].value)
		if err != nil {
			panic(err)
		}
		return h
	}
	k := tmIcsSplit(hi - lo)
	l := t.rec(lo, lo+k, height-1)
	r := t.rec(lo+k, hi, height-1)
	hdr := []byte{1}
	var lp []byte
	if t.iavl {
		hdr = []byte{byte(2 * height), byte(2 * (hi - lo)), 2}
		lp = []byte{0x20}
	}
	cat := func(parts ...[]byte) []byte { return bytes.Join(parts, nil) }
	for i := lo; i < lo+k; i++ {
		t.paths[i] = append(t.paths[i], &ics23.InnerOp{Hash: ics23.HashOp_SHA256, Prefix: cat(hdr, lp), Suffix: cat(lp, r)})
	}
	for i := lo + k; i < hi; i++ {
		t.paths[i] = append(t.paths[i], &ics23.InnerOp{Hash: ics23.HashOp_SHA256, Prefix: cat(hdr, lp, l, lp)})
	}
	d := sha256.Sum256(cat(hdr, lp, l, lp, r))
	return d[:]
}

func tmNewIcsTree(iavl bool, leaves []tmIcsLeaf) *tmIcsTree {
	sort.Slice(leaves, func(i, j int) bool { return bytes.Compare(leaves[i].key, leaves[j].key) < 0 })
	t := &tmIcsTree{iavl: iavl, leaves: leaves, paths: make([][]*ics23.InnerOp, len(leaves))}
	t.root = t.rec(0, len(leaves), 8)
	return t
}

func (t *tmIcsTree) exist(i int) *ics23.ExistenceProof {
	return &ics23.ExistenceProof{Key: t.leaves[i].key, Value: t.leaves[i].value, Leaf: t.leafOp(), Path: t.paths[i]}
}

// proof: existence proof of key if it is a leaf, else the non-existence proof with its neighbours.
func (t *tmIcsTree) proof(key []byte) (p *ics23.CommitmentProof, present bool) {
	i := sort.Search(len(t.leaves), func(i int) bool { return bytes.Compare(t.leaves[i].key, key) >= 0 })
	if i < len(t.leaves) && bytes.Equal(t.leaves[i].key, key) {
		p = &ics23.CommitmentProof{Proof: &ics23.CommitmentProof_Exist{Exist: t.exist(i)}}
		if !ics23.VerifyMembership(t.spec(), t.root, p, key, t.leaves[i].value) {
			panic("hand-built ics23 existence proof does not verify")
		}
		return p, true
	}
	ne := &ics23.NonExistenceProof{Key: key}
	if i > 0 {
		ne.Left = t.exist(i - 1)
	}
	if i < len(t.leaves) {
		ne.Right = t.exist(i)
	}
	p = &ics23.CommitmentProof{Proof: &ics23.CommitmentProof_Nonexist{Nonexist: ne}}
	if !ics23.VerifyNonMembership(t.spec(), t.root, p, key) {
		panic("hand-built ics23 non-existence proof does not verify")
	}
	return p, false
}

func tmIcsOp(typ string, key []byte, p *ics23.CommitmentProof) merkle.ProofOp {
	bz, err := p.Marshal()
	if err != nil {
		panic(err)
	}
	return merkle.ProofOp{Type: typ, Key: key, Data: bz}
}

// tmIcsState: the stores and the multistore tree; root = app hash q1.
type tmIcsState struct {
	stores map[string]*tmIcsTree
	multi  *tmIcsTree
	held   map[int]bool // cosmos items committed in this state
}

func tmNewIcsState(items map[int]*tmItem) *tmIcsState {
	st := &tmIcsState{stores: map[string]*tmIcsTree{}, held: map[int]bool{}}
	per := map[string][]tmIcsLeaf{}
	for _, j := range []int{0, 1, 3, 7, 8, 9} {
		it := items[j]
		per[it.store] = append(per[it.store], tmIcsLeaf{key: it.key, value: it.value})
		st.held[j] = true
	}
	// some unrelated entries so that neighbours exist on both sides
	for i := 0; i < 5; i++ {
		per["s"] = append(per["s"], tmIcsLeaf{key: []byte(fmt.Sprintf("zz-other-%d", i)), value: []byte{byte(i)}})
		per["acc"] = append(per["acc"], tmIcsLeaf{key: []byte(fmt.Sprintf("account-%d", i)), value: []byte{byte(i), 1}})
	}
	st.stores["s"] = tmNewIcsTree(true, per["s"])
	st.stores["acc"] = tmNewIcsTree(false, per["acc"])
	var top []tmIcsLeaf
	for n, t := range st.stores {
		top = append(top, tmIcsLeaf{key: []byte(n), value: t.root})
	}
	st.multi = tmNewIcsTree(false, top)
	return st
}

// proofOf: the two proof ops for item it (existence, or non-existence when the state does not hold its key).
func (st *tmIcsState) proofOf(it *tmItem) (*merkle.Proof, bool) {
	t := st.stores[it.store]
	if t == nil {
		return nil, false
	}
	p0, present := t.proof(it.key)
	p1, ok := st.multi.proof([]byte(it.store))
	if !ok {
		panic("store missing")
	}
	return &merkle.Proof{Ops: []merkle.ProofOp{tmIcsOp(t.opType(), it.key, p0), tmIcsOp("ics23:simple", []byte(it.store), p1)}}, present
}

// holds: ground truth of this state.
func (st *tmIcsState) holds(it *tmItem) bool {
	t := st.stores[it.store]
	if t == nil {
		return false
	}
	for _, l := range t.leaves {
		if bytes.Equal(l.key, it.key) {
			return bytes.Equal(l.value, it.value)
		}
	}
	return false
}
