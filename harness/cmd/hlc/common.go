package main

// Shared helpers of the hlc families: a CacheDB that already holds the governance view and one consensus
// peer (the operator), so that the real SyncGenesisHeader handlers pass their operator-witness gate when the
// transaction carries the operator's address, and side-chain registration.

import (
	"crypto/elliptic"
	"crypto/sha256"

	"github.com/ontio/ontology-crypto/ec"
	"github.com/ontio/ontology-crypto/keypair"
	"github.com/polynetwork/poly/common"
	vconfig "github.com/polynetwork/poly/consensus/vbft/config"
	cstates "github.com/polynetwork/poly/core/states"
	"github.com/polynetwork/poly/core/store/leveldbstore"
	"github.com/polynetwork/poly/core/store/overlaydb"
	"github.com/polynetwork/poly/core/types"
	"github.com/polynetwork/poly/native"
	"github.com/polynetwork/poly/native/service/governance/node_manager"
	"github.com/polynetwork/poly/native/service/governance/side_chain_manager"
	"github.com/polynetwork/poly/native/service/utils"
	"github.com/polynetwork/poly/native/storage"
)

var operatorPub, operatorAddr = func() (keypair.PublicKey, common.Address) {
	d := sha256.Sum256([]byte("polyverif-operator"))
	k := &ec.PrivateKey{Algorithm: ec.ECDSA, PrivateKey: ec.ConstructPrivateKey(d[:], elliptic.P256())}
	pub := k.Public().(keypair.PublicKey)
	return pub, types.AddressFromPubKey(pub)
}()

// newCacheDB returns an empty in-memory CacheDB with governance view 0 and the operator as its only consensus peer.
func newCacheDB() *storage.CacheDB {
	store, _ := leveldbstore.NewMemLevelDBStore()
	db := storage.NewCacheDB(overlaydb.NewOverlayDB(store))
	sink := common.NewZeroCopySink(nil)
	view := &node_manager.GovernanceView{TxHash: common.UINT256_EMPTY, Height: 0, View: 0}
	view.Serialization(sink)
	db.Put(utils.ConcatKey(utils.NodeManagerContractAddress, []byte(node_manager.GOVERNANCE_VIEW)), cstates.GenRawStorageItem(sink.Bytes()))
	id := vconfig.PubkeyID(operatorPub)
	ppm := &node_manager.PeerPoolMap{PeerPoolMap: map[string]*node_manager.PeerPoolItem{
		id: {Address: operatorAddr, Status: node_manager.ConsensusStatus, PeerPubkey: id, Index: 0}}}
	sink.Reset()
	ppm.Serialization(sink)
	db.Put(utils.ConcatKey(utils.NodeManagerContractAddress, []byte(node_manager.PEER_POOL), utils.GetUint32Bytes(0)),
		cstates.GenRawStorageItem(sink.Bytes()))
	return db
}

// newNative: a native service over db whose transaction is witnessed by the operator.
func newNative(db *storage.CacheDB, input []byte) *native.NativeService {
	ns, err := native.NewNativeService(db, &types.Transaction{SignedAddr: []common.Address{operatorAddr}}, 0, 0, common.Uint256{}, 0, input, false)
	if err != nil {
		panic(err)
	}
	return ns
}

// newNativeAnon: same, but the transaction carries no witness (the operator gate must refuse).
func newNativeAnon(db *storage.CacheDB, input []byte) *native.NativeService {
	ns, err := native.NewNativeService(db, &types.Transaction{}, 0, 0, common.Uint256{}, 0, input, false)
	if err != nil {
		panic(err)
	}
	return ns
}

func putSideChain(db *storage.CacheDB, chainID, router uint64, ccmc []byte, extra []byte) {
	ns := newNative(db, nil)
	if err := side_chain_manager.PutSideChain(ns, &side_chain_manager.SideChain{ChainId: chainID, Router: router, Name: "verif",
		BlocksToWait: 1, CCMCAddress: ccmc, ExtraInfo: extra}); err != nil {
		panic(err)
	}
}
