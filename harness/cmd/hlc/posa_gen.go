package main

import (
	"fmt"
	"strconv"
	"strings"

	ecommon "github.com/ethereum/go-ethereum/common"
	"polyverif/internal/hx"
)

// Generator of the posa family: per case one router, a trust root with 1..7 (thorough: up to 15) validators, then a
// tree of headers grown from stored tips: mostly valid successors (signer chosen among the members of the set in
// effect that are outside the recent window, in turn or not, with the matching difficulty), epoch headers that change
// the validator set, competing forks from older tips, and one of ~30 single mutations (wrong / outside / recent
// signer, coinbase != sealer, unrecoverable or foreign seal, difficulty swapped / 0 / 3, malformed extra data,
// consecutive epoch headers, mix digest, uncle hash, gas fields, wrong number, unknown or rejected parent, duplicates,
// early timestamp, base fee).
type posaGen struct {
	f          *posaFam
	r          *hx.Run
	rt         string
	next       int
	period     uint64
	tips       []string // labels of stored headers, in order of storage
	pref       string   // "in": seal in turn when possible, "out": out of turn when possible, "": either
	forceExtra string   // when set, the extra-data descriptor of the next valid header
	rej        []string // labels of rejected headers
}

func (g *posaGen) label() string {
	g.next++
	return strconv.Itoa(g.next)
}

func idxOfAddr(a ecommon.Address) int {
	for i, k := range posaKeys {
		if k.addr == a {
			return i
		}
	}
	return -1
}

func valsTok(v []int) string {
	if len(v) == 0 {
		return "-"
	}
	s := make([]string, len(v))
	for i, x := range v {
		s[i] = strconv.Itoa(x)
	}
	return strings.Join(s, ",")
}

func (f *posaFam) genPosa(r *hx.Run) {
	r.Rule("per router (bsc, bytom, heco, hsc, pixie) synthetic header trees over 1..7 (thorough ..15) of 16 secp256k1 keys: valid successors, " +
		"epoch headers changing the set, competing forks (ties, overtakes), and ~30 single mutations (signer outside set / recent / coinbase != sealer / " +
		"bad seal / difficulty / extra layout / consecutive epochs / mix / uncle / gas / number / parent / duplicate / time / base fee); " +
		"distinct non-trivial = (router, set size, mutation kind, outcome class, head changed?)")
	cases := r.Pick(60, 1200)
	for c := 0; c < cases; c++ {
		rt := posaRouterNames[c%len(posaRouterNames)]
		r.Case(fmt.Sprintf("posa-%s-%d", rt, c))
		g := &posaGen{f: f, r: r, rt: rt}
		long := r.Thorough() && c%40 < 5
		g.run(long)
	}
}

func (g *posaGen) do(op string) string { return g.r.Do(op) }

func (g *posaGen) run(long bool) {
	r := g.r
	g.period = uint64(r.Rng.Intn(4))
	cid := []int{56, 128, 170, 6626, 1}[r.Rng.Intn(5)]
	g.do(fmt.Sprintf("router %s %d %d %s", g.rt, cid, g.period, posaAddrTable()))
	maxV := 7
	if r.Thorough() && r.Rng.Chance(1, 4) {
		maxV = 15
	}
	nv := 1 + r.Rng.Intn(maxV)
	if r.Rng.Chance(2, 3) && nv < 3 {
		nv = 3 + r.Rng.Intn(maxV-2)
	}
	if long {
		nv = 3 + r.Rng.Intn(5)
	}
	vals := r.Rng.Perm(posaPool)[:nv]
	gnum := []uint64{1, 2, 7, 200, 199, 1000}[r.Rng.Intn(6)]
	if r.Rng.Chance(1, 3) {
		gnum = 1 + uint64(r.Rng.Intn(60))
	}
	if long { // crosses two multiples of 200 (the epoch length of the real chains); at most ~290 ops so that a replay keeps the whole case
		gnum = 200*uint64(1+r.Rng.Intn(3)) - 20 - uint64(r.Rng.Intn(15))
	}
	npv := r.Rng.Intn(maxV + 1)
	pv := r.Rng.Perm(posaPool)[:npv]
	if r.Rng.Chance(1, 3) { // previous set overlapping with the genesis set
		pv = append([]int{}, vals...)
		if len(pv) > 1 && r.Rng.Bool() {
			pv = pv[:len(pv)-1]
		}
	}
	pvh := uint64(0)
	if gnum > 1 {
		pvh = uint64(r.Rng.Intn(int(gnum)))
	}
	gl := uint64(30000000)
	tm := uint64(1600000000)
	gcb := strconv.Itoa(vals[r.Rng.Intn(nv)])
	if r.Rng.Chance(1, 4) {
		gcb = "z"
	}
	// malformed trust roots first (each must be refused and leave no trace)
	if r.Rng.Chance(1, 3) {
		switch r.Rng.Intn(7) {
		case 0:
			g.do(fmt.Sprintf("genesis %s 0 %s 2 32/%s/0/65 0:%s %d %d", g.label(), gcb, valsTok(vals), valsTok(pv), tm, gl))
		case 1:
			g.do(fmt.Sprintf("genesis %s %d %s 2 32/%s/0/65 - %d %d", g.label(), gnum, gcb, valsTok(vals), tm, gl))
		case 2:
			g.do(fmt.Sprintf("genesis %s %d %s 2 32/%s/0/65 %d:%s;%d:%s %d %d", g.label(), gnum, gcb, valsTok(vals), pvh, valsTok(pv), pvh, valsTok(pv), tm, gl))
		case 3:
			g.do(fmt.Sprintf("genesis %s %d %s 2 32/-/0/65 %d:%s %d %d", g.label(), gnum, gcb, pvh, valsTok(pv), tm, gl))
		case 4:
			g.do(fmt.Sprintf("genesis %s %d %s 2 32/%s/3/65 %d:%s %d %d", g.label(), gnum, gcb, valsTok(vals), pvh, valsTok(pv), tm, gl))
		case 5:
			g.do(fmt.Sprintf("genesis %s %d %s 2 32/%s/0/65 %d:%s %d %d", g.label(), gnum, gcb, valsTok(vals), gnum, valsTok(pv), tm, gl))
		case 6: // extra shorter than vanity+seal by a multiple of 20
			g.do(fmt.Sprintf("genesis %s %d %s 2 %d/-/0/65 %d:%s %d %d", g.label(), gnum, gcb, 12-20*r.Rng.Intn(1), pvh, valsTok(pv), tm, gl))
		}
		r.Hist("genesis.malformed-first")
	}
	gid := g.label()
	res := g.do(fmt.Sprintf("genesis %s %d %s %d 32/%s/0/65 %d:%s %d %d", gid, gnum, gcb, 1+r.Rng.Intn(2), valsTok(vals), pvh, valsTok(pv), tm, gl))
	if !strings.HasPrefix(res, "ok") {
		return
	}
	g.tips = append(g.tips, gid)
	if r.Rng.Chance(1, 4) {
		g.do(fmt.Sprintf("genesis %s %d %s 2 32/%s/0/65 %d:%s %d %d", g.label(), gnum+1, gcb, valsTok(vals), pvh, valsTok(pv), tm, gl))
	}
	steps := 25 + r.Rng.Intn(r.Pick(40, 90))
	if long {
		steps = 250 + r.Rng.Intn(15)
	}
	mutRate := 3 + r.Rng.Intn(4) // one in mutRate steps is a mutation
	if long {
		mutRate = 25
	}
	epochEvery := uint64(3 + r.Rng.Intn(12))
	if long {
		epochEvery = 200
	}
	forkRate := 4 + r.Rng.Intn(10)
	cur := gid
	for s := 0; s < steps; s++ {
		f := g.f
		// choose the tip
		if r.Rng.Chance(1, forkRate) && len(g.tips) > 1 {
			back := 1 + r.Rng.Intn(4)
			if back >= len(g.tips) {
				back = len(g.tips) - 1
			}
			cur = g.tips[len(g.tips)-1-back]
			if r.Rng.Chance(1, 5) {
				cur = g.tips[r.Rng.Intn(len(g.tips))]
			}
			r.Hist("gen.fork")
		}
		tip := f.nodes[cur]
		mut := "valid"
		if r.Rng.Chance(1, mutRate) {
			mut = posaMutations[r.Rng.Intn(len(posaMutations))]
		}
		headBefore, _, _, _, _ := f.canonLine()
		id, out := g.step(tip, mut, epochEvery)
		if id == "" {
			continue
		}
		cls := strings.Fields(out)[0]
		headAfter, _, _, _, _ := f.canonLine()
		if cls == "ok" {
			g.tips = append(g.tips, id)
			if mut == "valid" || r.Rng.Chance(2, 3) {
				cur = id
			}
		} else if strings.HasPrefix(cls, "reject") {
			g.rej = append(g.rej, id)
		}
		set := f.inEffect(tip.num+1, append([]*posaNode{tip}, mustAnc(f, tip)...))
		reorg := "same"
		if headBefore != headAfter {
			reorg = "moved"
			if n := f.nodes[id]; n != nil && cls == "ok" && !strings.Contains(headBefore, "head="+n.parent+" ") {
				reorg = "reorg"
				r.Hist("canon.reorg")
			}
		} else if cls == "ok" {
			r.Hist("canon.side-branch")
		}
		r.Nontrivial(fmt.Sprintf("%s/%d/%s/%s/%s", g.rt, len(set), mut, cls, reorg))
		r.Hist("mut." + mut)
		r.Hist("outcome." + cls)
		r.Hist("router." + g.rt)
		r.Hist(fmt.Sprintf("setsize.%d", len(set)))
		if mut != "valid" && s%17 == 3 {
			r.Sample(map[string]interface{}{"router": g.rt, "mutation": mut, "outcome": out, "set_in_effect": len(set), "number": tip.num + 1})
		}
	}
	if f := g.f; f.nodes[cur] != nil && f.nodes[cur].stored {
		g.flips(cur)
		if _, _, head, _, ok := f.canonLine(); ok {
			g.handover(f.byHash[head])
		}
		if _, _, head, _, ok := f.canonLine(); ok {
			g.twins(f.byHash[head])
		}
	}
	g.do("junk")
	g.do("state")
}

// grow adds up to n valid headers on top of from, sealing in turn / out of turn as preferred; it returns the last stored label.
func (g *posaGen) grow(from string, n int, pref string) string {
	g.pref = pref
	defer func() { g.pref = "" }()
	cur := from
	for i := 0; i < n; i++ {
		tip := g.f.nodes[cur]
		if tip == nil || !tip.stored {
			break
		}
		_, hBefore, _, _, _ := g.f.canonLine()
		id, out := g.step(tip, "valid", uint64(1)<<60)
		if id == "" || !strings.HasPrefix(out, "ok") {
			break
		}
		_, hAfter, _, _, _ := g.f.canonLine()
		if hAfter < hBefore {
			g.r.Hist("canon.height-decrease")
		}
		g.tips = append(g.tips, id)
		cur = id
	}
	return cur
}

// flips: competing forks whose canonical status changes back and forth, with a canonical height that goes down:
// fork X of k out-of-turn headers (difficulty 1 each) becomes canonical; a SHORTER fork Y of in-turn headers
// (difficulty 2 each) from the same point overtakes it, which lowers the canonical height and must delete the
// assignments above the new head; then X grows until it wins again, then Y once more.
func (g *posaGen) flips(from string) {
	r := g.r
	k := 3 + r.Rng.Intn(3)
	m := k/2 + 1
	x := g.grow(from, k, "out")
	y := g.grow(from, m, "in")
	x = g.grow(x, 2+r.Rng.Intn(3), []string{"out", "in", ""}[r.Rng.Intn(3)])
	y = g.grow(y, 1+r.Rng.Intn(3), "in")
	if r.Rng.Bool() {
		x = g.grow(x, 3+r.Rng.Intn(3), "in")
	}
	_ = y
	r.Hist("gen.flips")
}

func mustAnc(f *posaFam, n *posaNode) []*posaNode {
	a, _ := f.ancestors(n)
	return a
}

var posaMutations = []string{
	"outsider", "cb-mismatch", "recent", "recent-edge", "diff-swap", "diff-0", "diff-3",
	"extra-short-vanity", "extra-short-seal", "extra-not-mult-20", "extra-shifted", "extra-zero-validator", "extra-empty",
	"epoch-now", "epoch-dup-set", "mix", "uncle", "gas-cap", "gas-used", "gas-bound", "gas-bound-edge", "gas-min",
	"number-plus", "number-same", "number-zero", "parent-unknown", "parent-rejected", "dup-stored", "dup-rejected",
	"time-early", "time-edge", "seal-x", "seal-w", "seal-n", "basefee", "cb-zero",
}

// step submits one header on top of tip. It returns the label and the outcome line ("" when nothing was submitted).
func (g *posaGen) step(tip *posaNode, mut string, epochEvery uint64) (string, string) {
	r, f := g.r, g.f
	anc := append([]*posaNode{tip}, mustAnc(f, tip)...)
	num := tip.num + 1
	set := f.inEffect(num, anc)
	var setIdx []int
	for _, a := range set {
		setIdx = append(setIdx, idxOfAddr(a))
	}
	recent := map[int]int{} // key -> distance
	for j := 0; j < len(set)/2 && j < len(anc); j++ {
		if k := idxOfAddr(anc[j].cb); k >= 0 {
			if _, have := recent[k]; !have {
				recent[k] = j
			}
		}
	}
	var cand []int
	for _, k := range setIdx {
		if _, rec := recent[k]; k >= 0 && !rec {
			cand = append(cand, k)
		}
	}
	inTurnKey := -1
	if len(set) > 0 {
		inTurnKey = setIdx[int(num%uint64(len(set)))]
	}
	signer := -1
	if len(cand) > 0 {
		signer = cand[r.Rng.Intn(len(cand))]
		if (g.pref == "" && r.Rng.Chance(3, 5)) || g.pref == "in" {
			for _, k := range cand {
				if k == inTurnKey {
					signer = k
				}
			}
		}
		if g.pref == "out" {
			for _, k := range cand {
				if k != inTurnKey {
					signer = k
					break
				}
			}
		}
	}
	diffOf := func(k int) uint64 {
		if k == inTurnKey {
			return 2
		}
		return 1
	}
	id := g.label()
	parent := tip.id
	cb := strconv.Itoa(signer)
	seal := "s" + strconv.Itoa(signer)
	diff := diffOf(signer)
	extra := "32/-/0/65"
	tm := tip.time + g.period + uint64(r.Rng.Intn(3))
	gl := tip.gl
	if r.Rng.Chance(1, 3) {
		d := tip.gl / 1024
		if d > 1 {
			gl = tip.gl - d + 1 + uint64(r.Rng.Intn(int(2*d-1)))
		}
	}
	gu := uint64(r.Rng.Intn(1000))
	flags, basefee := "-", "-"
	// epoch header: changes the set
	if num%epochEvery == 0 && (mut == "valid" || r.Rng.Bool()) {
		nw := append([]int{}, setIdx...)
		switch r.Rng.Intn(6) {
		case 0: // add a key
			for _, k := range r.Rng.Perm(posaPool) {
				in := false
				for _, x := range nw {
					if x == k {
						in = true
					}
				}
				if !in {
					nw = append(nw, k)
					break
				}
			}
		case 1: // drop a key
			if len(nw) > 1 {
				j := r.Rng.Intn(len(nw))
				nw = append(nw[:j], nw[j+1:]...)
			}
		case 2: // rotate
			if len(nw) > 1 {
				nw = append(nw[1:], nw[0])
			}
		case 3: // fresh set of another size
			nw = r.Rng.Perm(posaPool)[:1+r.Rng.Intn(7)]
		case 4: // same set
		case 5: // grow by two
			for _, k := range r.Rng.Perm(posaPool) {
				in := false
				for _, x := range nw {
					if x == k {
						in = true
					}
				}
				if !in && len(nw) < len(setIdx)+2 {
					nw = append(nw, k)
				}
			}
		}
		for _, k := range nw {
			if k < 0 {
				nw = setIdx[:0]
			}
		}
		if len(nw) > 0 {
			extra = "32/" + valsTok(nw) + "/0/65"
			r.Hist("gen.epoch-header")
		}
	}
	if g.forceExtra != "" && mut == "valid" {
		extra = g.forceExtra
	}
	if signer < 0 && mut != "outsider" && mut != "dup-stored" {
		r.Hist("gen.no-eligible-signer")
		// nobody can extend this tip validly; submit an outsider so that the dead end is still exercised
		mut = "outsider"
	}
	switch mut {
	case "valid":
	case "outsider":
		in := map[int]bool{}
		for _, k := range setIdx {
			in[k] = true
		}
		for _, k := range r.Rng.Perm(posaPool) {
			if !in[k] {
				signer = k
				break
			}
		}
		if signer < 0 {
			return "", ""
		}
		cb, seal, diff = strconv.Itoa(signer), "s"+strconv.Itoa(signer), uint64(1+r.Rng.Intn(2))
	case "cb-mismatch":
		other := (signer + 1 + r.Rng.Intn(posaPool-1)) % posaPool
		seal = "s" + strconv.Itoa(other)
	case "cb-zero":
		cb = "z"
	case "recent", "recent-edge":
		pick, dist := -1, -1
		for k, d := range recent {
			member := false
			for _, x := range setIdx {
				if x == k {
					member = true
				}
			}
			if member && (pick < 0 || (mut == "recent-edge" && d > dist) || (mut == "recent" && (d < dist || (d == dist && k < pick)))) {
				pick, dist = k, d
			}
		}
		if mut == "recent-edge" && r.Rng.Bool() && len(set)/2 < len(anc) { // the first block outside the window (valid)
			if k := idxOfAddr(anc[len(set)/2].cb); k >= 0 {
				if _, rec := recent[k]; !rec {
					pick = k
				}
			}
		}
		if pick < 0 {
			return "", ""
		}
		signer = pick
		cb, seal, diff = strconv.Itoa(signer), "s"+strconv.Itoa(signer), diffOf(signer)
	case "diff-swap":
		diff = 3 - diff
	case "diff-0":
		diff = 0
	case "diff-3":
		diff = 3 + uint64(r.Rng.Intn(3))
	case "extra-short-vanity":
		extra = fmt.Sprintf("%d/-/0/0", r.Rng.Intn(32))
		seal = "n"
	case "extra-short-seal":
		extra = fmt.Sprintf("32/-/0/%d", r.Rng.Intn(65))
		seal = "n"
	case "extra-not-mult-20":
		extra = fmt.Sprintf("32/%s/%d/65", []string{"-", valsTok(setIdx)}[r.Rng.Intn(2)], 1+r.Rng.Intn(19))
	case "extra-shifted":
		extra = "12/-/20/65"
	case "extra-zero-validator":
		extra = "52/-/0/65"
	case "extra-empty":
		extra = "0/-/0/0"
		seal = "n"
	case "epoch-now":
		extra = "32/" + valsTok(r.Rng.Perm(posaPool)[:1+r.Rng.Intn(6)]) + "/0/65"
	case "epoch-dup-set":
		k := setIdx[r.Rng.Intn(len(setIdx))]
		extra = "32/" + valsTok([]int{k, k, setIdx[0]}) + "/0/65"
	case "mix":
		flags = "mix"
	case "uncle":
		flags = []string{"unc", "mix,unc"}[r.Rng.Intn(2)]
	case "gas-cap":
		gl = uint64(1)<<63 + uint64(r.Rng.Intn(2))
		if r.Rng.Bool() {
			gl = uint64(1)<<63 - 1
		}
	case "gas-used":
		gu = gl + 1 + uint64(r.Rng.Intn(2))
		if r.Rng.Chance(1, 3) {
			gu = gl
		}
	case "gas-bound":
		gl = tip.gl + tip.gl/uint64(64+r.Rng.Intn(1000))
		if r.Rng.Bool() {
			gl = tip.gl - tip.gl/uint64(64+r.Rng.Intn(1000))
		}
	case "gas-bound-edge":
		div := uint64(256)
		if r.Rng.Bool() {
			div = 1024
		}
		d := tip.gl / div
		gl = []uint64{tip.gl + d, tip.gl + d - 1, tip.gl - d, tip.gl - d + 1}[r.Rng.Intn(4)]
	case "gas-min":
		gl = uint64(4990 + r.Rng.Intn(20))
		gu = 0
	case "number-plus":
		num += 1 + uint64(r.Rng.Intn(2))
	case "number-same":
		num--
	case "number-zero":
		num = 0
	case "parent-unknown":
		parent = strconv.Itoa(900000 + r.Rng.Intn(1000))
	case "parent-rejected":
		if len(g.rej) == 0 {
			return "", ""
		}
		parent = g.rej[r.Rng.Intn(len(g.rej))]
	case "dup-stored":
		if len(g.tips) < 2 {
			return "", ""
		}
		d := g.tips[1+r.Rng.Intn(len(g.tips)-1)]
		return d, g.do(f.descr[d])
	case "dup-rejected":
		if len(g.rej) == 0 {
			return "", ""
		}
		d := g.rej[r.Rng.Intn(len(g.rej))]
		return d, g.do(f.descr[d])
	case "time-early":
		if tip.time+g.period == 0 {
			return "", ""
		}
		tm = tip.time + g.period - 1
		if g.period > 1 && r.Rng.Bool() {
			tm = tip.time
		}
	case "time-edge":
		tm = tip.time + g.period
	case "seal-x":
		seal = "x"
	case "seal-w":
		seal = "w" + strconv.Itoa(signer)
	case "seal-n":
		seal = "n"
	case "basefee":
		basefee = strconv.Itoa(r.Rng.Intn(3))
	}
	op := fmt.Sprintf("hdr %s %s %d %s %s %d %s %d %d %d %s %s", id, parent, num, cb, seal, diff, extra, tm, gl, gu, flags, basefee)
	return id, g.do(op)
}

// handover: an epoch header that changes the SIZE of the validator set (so that floor(|old|/2) != floor(|new|/2) where
// possible), then at every height between the two candidate hand-over points (epoch+1 .. epoch+max(|old|,|new|)/2+1) two
// probe headers on side branches: one sealed by a member of the old set that is not in the new set, one by a member of
// the new set that is not in the old set, each with the difficulty that is right for its own set; exactly one of them
// is valid at each height (the old set rules for floor(|old|/2) blocks on bsc / bytom, the new set at once elsewhere).
func (g *posaGen) handover(from string) {
	r, f := g.r, g.f
	tip := f.nodes[g.grow(from, 8, "")]
	if tip == nil || !tip.stored {
		return
	}
	anc := append([]*posaNode{tip}, mustAnc(f, tip)...)
	old := f.inEffect(tip.num+1, anc)
	var oldIdx []int
	inOld := map[int]bool{}
	for _, a := range old {
		k := idxOfAddr(a)
		if k < 0 {
			return
		}
		oldIdx = append(oldIdx, k)
		inOld[k] = true
	}
	if len(oldIdx) < 2 {
		return
	}
	// new size: one whose half differs from the old half
	sizes := []int{3, 5, 4, 7, 2, 6}
	nsz := sizes[r.Rng.Intn(len(sizes))]
	for try := 0; try < 8 && (nsz/2 == len(oldIdx)/2); try++ {
		nsz = sizes[r.Rng.Intn(len(sizes))]
	}
	var nw []int
	for _, k := range r.Rng.Perm(posaPool) {
		if !inOld[k] && len(nw) < nsz-1 {
			nw = append(nw, k)
		}
	}
	// one shared member, the rest fresh (filled up with old members when the pool is exhausted)
	for _, k := range oldIdx {
		if len(nw) < nsz {
			nw = append(nw, k)
		}
	}
	if len(nw) < 2 {
		return
	}
	inNew := map[int]bool{}
	for _, k := range nw {
		inNew[k] = true
	}
	g.forceExtra = "32/" + valsTok(nw) + "/0/65"
	eid := g.grow(tip.id, 1, "")
	g.forceExtra = ""
	if eid == tip.id {
		return
	}
	r.Hist(fmt.Sprintf("gen.handover.%d-to-%d", len(oldIdx), len(nw)))
	maxHalf := len(oldIdx) / 2
	if len(nw)/2 > maxHalf {
		maxHalf = len(nw) / 2
	}
	cur := eid
	for j := 1; j <= maxHalf+1; j++ {
		t := f.nodes[cur]
		num := t.num + 1
		lastSigners := map[ecommon.Address]bool{}
		a2 := append([]*posaNode{t}, mustAnc(f, t)...)
		for i := 0; i < 8 && i < len(a2); i++ {
			lastSigners[a2[i].cb] = true
		}
		probe := func(set []int, other map[int]bool, tag string) {
			for _, k := range set {
				if other[k] || lastSigners[posaKeys[k].addr] {
					continue
				}
				diff := 1
				if set[int(num%uint64(len(set)))] == k {
					diff = 2
				}
				op := fmt.Sprintf("hdr %s %s %d %d s%d %d 32/-/0/65 %d %d %d - -", g.label(), t.id, num, k, k, diff, t.time+g.period+1, t.gl, r.Rng.Intn(1000))
				out := g.do(op)
				r.Hist("handover." + tag + "." + strings.Fields(out)[0])
				r.Nontrivial(fmt.Sprintf("%s/handover/%s/%d-%d/+%d/%s", g.rt, tag, len(oldIdx), len(nw), j, strings.Fields(out)[0]))
				return
			}
		}
		probe(oldIdx, inNew, "old-only")
		probe(nw, inOld, "new-only")
		nxt := g.grow(cur, 1, "")
		if nxt == cur {
			return
		}
		cur = nxt
	}
}

// twins: headers that differ from another submitted header ONLY in the 65 seal bytes (same signed fields, hence the same
// seal hash, but another header hash): after a genuine header its twins sealed by an outsider, by an unrecoverable
// signature and by another validator (coinbase unchanged) must all be refused; and a genuine header must still be
// accepted after a twin with a bad seal was refused first.
func (g *posaGen) twins(from string) {
	r, f := g.r, g.f
	tip := f.nodes[from]
	if tip == nil || !tip.stored {
		return
	}
	never := uint64(1) << 60
	cbOf := func(id string) string {
		t := strings.Fields(f.descr[id])
		if len(t) == 13 {
			return t[4]
		}
		return ""
	}
	note := func(kind, out string) {
		cls := strings.Fields(out)[0]
		r.Hist("twin." + kind + "." + cls)
		r.Nontrivial(fmt.Sprintf("%s/twin/%s/%s", g.rt, kind, cls))
	}
	// genuine first
	id, out := g.step(tip, "valid", never)
	if id != "" && strings.HasPrefix(out, "ok") {
		g.tips = append(g.tips, id)
		anc := append([]*posaNode{tip}, mustAnc(f, tip)...)
		in := map[int]bool{}
		var members []int
		for _, a := range f.inEffect(tip.num+1, anc) {
			if k := idxOfAddr(a); k >= 0 {
				in[k] = true
				members = append(members, k)
			}
		}
		cb := cbOf(id)
		for _, k := range r.Rng.Perm(posaPool) {
			if !in[k] {
				note("after.outsider", g.do(fmt.Sprintf("twin %s %s s%d", g.label(), id, k)))
				break
			}
		}
		note("after.garbage", g.do(fmt.Sprintf("twin %s %s x", g.label(), id)))
		for _, k := range members {
			if strconv.Itoa(k) != cb {
				note("after.other-validator", g.do(fmt.Sprintf("twin %s %s s%d", g.label(), id, k)))
				break
			}
		}
		note("after.genuine-again", g.do(f.descr[id]))
		tip = f.nodes[id]
	}
	// bad seal first, then the genuine twin
	for _, mut := range []string{"cb-mismatch", "seal-x", "seal-w"} {
		bad, out := g.step(tip, mut, never)
		if bad == "" {
			continue
		}
		note("before."+mut, out)
		cb := cbOf(bad)
		if cb == "" || cb == "z" || cb == "-1" {
			continue
		}
		gid := g.label()
		out = g.do(fmt.Sprintf("twin %s %s s%s", gid, bad, cb))
		note("before.genuine-after-"+mut, out)
		if strings.HasPrefix(out, "ok") {
			g.tips = append(g.tips, gid)
			tip = f.nodes[gid]
		}
	}
}
