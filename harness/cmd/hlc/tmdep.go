package main

// Deposit side of the tm* families (C30): a real committed cosmos-sdk multistore (rootmulti + IAVL, two versions) with
// real existence and absence proofs, the real cosmos / okex MakeDepositProposal handlers and heimdall VerifySpan.
//
//	dep <name> <h> <pf>   MakeDepositProposal: header <name> ("-" = no header bytes), EntranceParam.Height h
//	span <name> <pf>      polygon.VerifySpan with header <name>
//	sidechain             registers the side chain (okex reads its CCMC address from the registry)
//
// pf = <src>/<kp>/<val>:
//   src  e<j>r<k> existence proof of item j in store version k | a<j>r<k> absence proof of item j's key in version k |
//        e<j>p1 existence proof of item j (5 or 6) in the PRIVATE store p1, a state nobody signed (header app hash p1) |
//        e<j>q1 / a<j>q1 (cosmos) ICS-23 existence / non-existence proof ops (ics23:iavl or ics23:simple for the store,
//        ics23:simple for the multistore) from the hand-built commitment state q1 (tmics23.go), header app hash q1 |
//        x bytes that do not decode as a merkle.Proof
//   kp   = the key path of the src item | k<j> the key path of item j | - empty
//   val  v<j> the message bytes of item j | ! Extra bytes that do not decode as a CosmosProofValue
// Items (the same numbering for every router; the store a router reads is its module store: s / evm / bor):
//   0,1 stored since version 1, 2 stored since version 2 (well-formed messages); 3 stored, bytes that are not a message;
//   4 (heimdall) a span whose conversion fails; 5,6 never stored: well-formed messages whose byte string reads as the key
//   path "/s/<key>" (cosmos absence-proof shape); 7 stored under a key of another contract; 8 stored under a short key;
//   9 stored in the wrong module store.
// Header app-hash descriptors r1, r2 = root of store version 1, 2.

import (
	"bytes"
	"crypto/sha256"
	"encoding/hex"
	"fmt"
	"strconv"
	"strings"
	"sync"

	"github.com/cosmos/cosmos-sdk/store/rootmulti"
	storetypes "github.com/cosmos/cosmos-sdk/store/types"
	sdk "github.com/cosmos/cosmos-sdk/types"
	ethcrypto "github.com/ethereum/go-ethereum/crypto"
	"github.com/polynetwork/poly/common"
	ccmcom "github.com/polynetwork/poly/native/service/cross_chain_manager/common"
	ccmcosmos "github.com/polynetwork/poly/native/service/cross_chain_manager/cosmos"
	ccmokex "github.com/polynetwork/poly/native/service/cross_chain_manager/okex"
	hscosmos "github.com/polynetwork/poly/native/service/header_sync/cosmos"
	"github.com/polynetwork/poly/native/service/header_sync/okex"
	"github.com/polynetwork/poly/native/service/header_sync/polygon"
	ptypes "github.com/polynetwork/poly/native/service/header_sync/polygon/types"
	abci "github.com/tendermint/tendermint/abci/types"
	"github.com/tendermint/tendermint/crypto/merkle"
	dbm "github.com/tendermint/tm-db"
	"polyverif/internal/hx"
)

func init() {
	families["tmdepcosmos"] = func() hx.Family { return &tmFam{rt: &tm33Router{cosmos: true}, stream: "dep"} }
	families["tmdepokex"] = func() hx.Family { return &tmFam{rt: &tm33Router{cosmos: false}, stream: "dep"} }
	families["tmspanheimdall"] = func() hx.Family { return &tmFam{rt: &tmHeimdallRouter{}, stream: "dep"} }
}

type tmDepState struct{}

func (f *tmFam) resetDep() {}

var tmCCMC = func() []byte { d := sha256.Sum256([]byte("polyverif-tm-ccmc")); return d[:20] }()

type tmItem struct {
	store   string
	key     []byte
	value   []byte // the message bytes a relayer submits
	stored  []byte // what the chain stores under key (nil: never stored)
	since   int    // first version that holds it
	keyPath string
	// the same message in the PRIVATE store p1 (a state no validator of the chain ever committed)
	pkey     []byte
	pstored  []byte
	pkeyPath string
}

type tmStoreT struct {
	ms    *rootmulti.Store
	keys  map[string]*sdk.KVStoreKey
	pms   *rootmulti.Store // private store: one version, holds items 5 and 6
	pkeys map[string]*sdk.KVStoreKey
	proot []byte
	ics   *tmIcsState // ICS-23 commitment state q1 (cosmos router only)
	roots map[int][]byte
	items map[string]map[int]*tmItem // router -> item id -> item
}

var tmStoreOnce sync.Once
var tmStoreV *tmStoreT

func tmMsg(txHash []byte, j int) []byte {
	p := &ccmcom.MakeTxParam{TxHash: txHash, CrossChainID: []byte(fmt.Sprintf("cc-id-%02d", j)), FromContractAddress: bytes.Repeat([]byte{0x11}, 20),
		ToChainID: 2, ToContractAddress: bytes.Repeat([]byte{0x22}, 20), Method: "unlock", Args: []byte(fmt.Sprintf("args-of-message-%d", j))}
	sink := common.NewZeroCopySink(nil)
	p.Serialization(sink)
	return sink.Bytes()
}

func tmSpan(j int, goodKey bool) []byte {
	pk := strings.Repeat("k", 65)
	if !goodKey {
		pk = "short"
	}
	v := ptypes.HeimdallValidator{ID: ptypes.ValidatorID(j + 1), VotingPower: 10, PubKey: pk, Signer: strings.Repeat("s", 20)}
	sp := &ptypes.HeimdallSpan{ID: uint64(100 + j), StartBlock: uint64(1000 * j), EndBlock: uint64(1000*j + 999), BorChainId: "137",
		ValidatorSet: ptypes.HeimdallValidatorSet{Validators: []*ptypes.HeimdallValidator{&v}, Proposer: &v}, SelectedProducers: []ptypes.HeimdallValidator{v}}
	return ptypes.NewCDC().MustMarshalBinaryBare(sp)
}

func tmKeyPath(store string, key []byte) string {
	kp := merkle.KeyPath{}
	kp = kp.AppendKey([]byte(store), merkle.KeyEncodingURL)
	kp = kp.AppendKey(key, merkle.KeyEncodingHex)
	return kp.String()
}

func tmEvmKey(addr []byte, j int) []byte {
	h := sha256.Sum256([]byte(fmt.Sprintf("slot-%d", j)))
	return append(append([]byte{0x05}, addr...), h[:]...)
}

func tmStore() *tmStoreT {
	tmStoreOnce.Do(func() {
		db := dbm.NewMemDB()
		ms := rootmulti.NewStore(db)
		ms.SetPruning(storetypes.PruneNothing)
		keys := map[string]*sdk.KVStoreKey{}
		for _, n := range []string{"s", "evm", "bor", "acc"} {
			keys[n] = sdk.NewKVStoreKey(n)
			ms.MountStoreWithDB(keys[n], storetypes.StoreTypeIAVL, nil)
		}
		if err := ms.LoadLatestVersion(); err != nil {
			panic(err)
		}
		st := &tmStoreT{ms: ms, keys: keys, roots: map[int][]byte{}, items: map[string]map[int]*tmItem{"cosmos": {}, "okex": {}, "heimdall": {}}}
		other := bytes.Repeat([]byte{0x77}, 20)
		add := func(rt string, j int, store string, key, value, stored []byte, since int) {
			st.items[rt][j] = &tmItem{store: store, key: key, value: value, stored: stored, since: since, keyPath: tmKeyPath(store, key)}
		}
		for j := 0; j <= 3; j++ {
			since := 1
			if j == 2 {
				since = 2
			}
			msg := tmMsg([]byte(fmt.Sprintf("source-tx-hash-%d", j)), j)
			span := tmSpan(j, true)
			if j == 3 {
				msg = []byte{0xff, 0xff, 0xff}
				span = []byte{0xff, 0xff, 0xff}
			}
			add("cosmos", j, "s", []byte(fmt.Sprintf("ccm-request-%d", j)), msg, msg, since)
			add("okex", j, "evm", tmEvmKey(tmCCMC, j), msg, ethcrypto.Keccak256(msg), since)
			add("heimdall", j, "bor", []byte(fmt.Sprintf("span-%d", j)), span, span, since)
		}
		bad := tmSpan(4, false)
		add("heimdall", 4, "bor", []byte("span-4"), bad, bad, 1)
		for j := 5; j <= 6; j++ {
			// TxHash of 47 bytes ('/' as the var-bytes length) that starts with the store name: the serialized message
			// reads as the key path /s/<rest>
			tx := []byte("s/" + strings.Repeat(string(rune('A'+j)), 45))
			msg := tmMsg(tx, j)
			if msg[0] != '/' || bytes.ContainsAny(msg[3:], "/%") {
				panic("crafted message is not a key path")
			}
			it := &tmItem{store: "s", key: msg[3:], value: msg, stored: nil, since: 0, keyPath: string(msg)}
			st.items["cosmos"][j] = it
			it.pkey = []byte(fmt.Sprintf("ccm-request-%d", j))
			it.pstored, it.pkeyPath = msg, tmKeyPath("s", it.pkey)
			ek := tmEvmKey(tmCCMC, j)
			st.items["okex"][j] = &tmItem{store: "evm", key: msg[3:], value: msg, keyPath: tmKeyPath("evm", msg[3:]),
				pkey: ek, pstored: ethcrypto.Keccak256(msg), pkeyPath: tmKeyPath("evm", ek)}
			sp := tmSpan(j, true)
			sk := []byte(fmt.Sprintf("span-%d", j))
			st.items["heimdall"][j] = &tmItem{store: "bor", key: sk, value: sp, keyPath: tmKeyPath("bor", sk),
				pkey: sk, pstored: sp, pkeyPath: tmKeyPath("bor", sk)}
		}
		m7 := tmMsg([]byte("source-tx-hash-7"), 7)
		add("okex", 7, "evm", tmEvmKey(other, 7), m7, ethcrypto.Keccak256(m7), 1)
		m8 := tmMsg([]byte("source-tx-hash-8"), 8)
		add("okex", 8, "evm", []byte("short-key"), m8, ethcrypto.Keccak256(m8), 1)
		// cosmos 7, 8: messages that exist only in the ICS-23 state q1 (stores s and acc)
		st.items["cosmos"][7] = &tmItem{store: "s", key: []byte("ccm-request-7"), value: m7, keyPath: tmKeyPath("s", []byte("ccm-request-7"))}
		st.items["cosmos"][8] = &tmItem{store: "acc", key: []byte("ccm-request-8"), value: m8, keyPath: tmKeyPath("acc", []byte("ccm-request-8"))}
		m9 := tmMsg([]byte("source-tx-hash-9"), 9)
		add("okex", 9, "acc", tmEvmKey(tmCCMC, 9), m9, ethcrypto.Keccak256(m9), 1)
		add("cosmos", 9, "acc", []byte("ccm-request-9"), m9, m9, 1)
		s9 := tmSpan(9, true)
		add("heimdall", 9, "acc", []byte("span-9"), s9, s9, 1)
		for ver := 1; ver <= 2; ver++ {
			// deterministic insertion order (the shape of an IAVL tree depends on it)
			for _, rt := range []string{"cosmos", "heimdall", "okex"} {
				for j := 0; j <= 9; j++ {
					if it := st.items[rt][j]; it != nil && it.stored != nil && it.since == ver {
						ms.GetKVStore(keys[it.store]).Set(it.key, it.stored)
					}
				}
			}
			cid := ms.Commit()
			st.roots[ver] = cid.Hash
		}
		// the private store
		pms := rootmulti.NewStore(dbm.NewMemDB())
		pms.SetPruning(storetypes.PruneNothing)
		pkeys := map[string]*sdk.KVStoreKey{}
		for _, n := range []string{"s", "evm", "bor", "acc"} {
			pkeys[n] = sdk.NewKVStoreKey(n)
			pms.MountStoreWithDB(pkeys[n], storetypes.StoreTypeIAVL, nil)
		}
		if err := pms.LoadLatestVersion(); err != nil {
			panic(err)
		}
		for _, rt := range []string{"cosmos", "heimdall", "okex"} {
			for j := 0; j <= 9; j++ {
				if it := st.items[rt][j]; it != nil && it.pstored != nil {
					pms.GetKVStore(pkeys[it.store]).Set(it.pkey, it.pstored)
				}
			}
		}
		st.pms, st.pkeys, st.proot = pms, pkeys, pms.Commit().Hash
		st.ics = tmNewIcsState(st.items["cosmos"])
		tmStoreV = st
	})
	return tmStoreV
}

// appHash resolves an AppHash descriptor: x<k> arbitrary bytes, r<k> root of committed store version k.
func (f *tmFam) appHash(s string) []byte {
	if len(s) > 1 && s[0] == 'x' {
		return tmArb("app-" + s[1:])
	}
	if s == "r1" || s == "r2" {
		return tmStore().roots[int(s[1]-'0')]
	}
	if s == "p1" {
		return tmStore().proot
	}
	if s == "q1" && f.rt.name() == "cosmos" {
		return tmStore().ics.multi.root
	}
	return nil
}

type tmPf struct {
	srcKind byte // e a x
	srcItem int
	srcVer  int
	priv    bool   // e<j>p1: proof from the private store
	ics     bool   // e<j>q1 / a<j>q1: ICS-23 proof ops from the commitment state q1
	kp      string // "=", "-", "k<j>"
	val     string // "v<j>", "!"
}

func tmParsePf(s string) (*tmPf, bool) {
	parts := strings.Split(s, "/")
	if len(parts) != 3 {
		return nil, false
	}
	p := &tmPf{kp: parts[1], val: parts[2]}
	src := parts[0]
	if src == "x" {
		p.srcKind = 'x'
	} else {
		if len(src) < 4 || (src[0] != 'e' && src[0] != 'a') {
			return nil, false
		}
		r := strings.IndexAny(src, "rpq")
		if r < 0 {
			return nil, false
		}
		p.priv = src[r] == 'p'
		p.ics = src[r] == 'q'
		j, err1 := strconv.Atoi(src[1:r])
		k, err2 := strconv.Atoi(src[r+1:])
		if err1 != nil || err2 != nil || k < 1 || k > 2 || j < 0 || j > 9 || (p.priv && (k != 1 || src[0] != 'e')) || (p.ics && k != 1) {
			return nil, false
		}
		p.srcKind, p.srcItem, p.srcVer = src[0], j, k
	}
	okItem := func(t string, pre byte) bool {
		if len(t) < 2 || t[0] != pre {
			return false
		}
		j, err := strconv.Atoi(t[1:])
		return err == nil && j >= 0 && j <= 9
	}
	if !(p.kp == "=" || p.kp == "-" || okItem(p.kp, 'k')) || !(p.val == "!" || okItem(p.val, 'v')) {
		return nil, false
	}
	if p.kp == "=" && p.srcKind == 'x' {
		return nil, false
	}
	return p, true
}

// holds: is item it committed (with exactly its stored bytes) in the state whose root is appHash? Direct read of the
// committed store, independent of any proof.
func (st *tmStoreT) holds(it *tmItem, appHash []byte) bool {
	if it == nil {
		return false
	}
	if bytes.Equal(st.ics.multi.root, appHash) {
		return st.ics.holds(it)
	}
	if bytes.Equal(st.proot, appHash) {
		if it.pstored == nil {
			return false
		}
		cms, err := st.pms.CacheMultiStoreWithVersion(1)
		if err != nil {
			panic(err)
		}
		return bytes.Equal(cms.GetKVStore(st.pkeys[it.store]).Get(it.pkey), it.pstored)
	}
	if it.stored == nil {
		return false
	}
	for ver, root := range st.roots {
		if !bytes.Equal(root, appHash) {
			continue
		}
		cms, err := st.ms.CacheMultiStoreWithVersion(int64(ver))
		if err != nil {
			panic(err)
		}
		return bytes.Equal(cms.GetKVStore(st.keys[it.store]).Get(it.key), it.stored)
	}
	return false
}

// proofOf: the real proof of a src descriptor (Query with Prove on the committed multistore).
func (st *tmStoreT) proofOf(it *tmItem, ver int, priv bool) *merkle.Proof {
	if priv {
		res := st.pms.Query(abci.RequestQuery{Path: "/" + it.store + "/key", Data: it.pkey, Prove: true, Height: 1})
		if res.Proof == nil {
			panic("no proof: " + res.Log)
		}
		return res.Proof
	}
	res := st.ms.Query(abci.RequestQuery{Path: "/" + it.store + "/key", Data: it.key, Prove: true, Height: int64(ver)})
	if res.Proof == nil {
		panic("no proof: " + res.Log)
	}
	return res.Proof
}

type tmDepInput struct {
	pf      *tmPf
	src     *tmItem
	valItem *tmItem
	valID   int
	proof   *merkle.Proof
	proofBz []byte
	kp      string
	value   []byte
	extraBz []byte
}

// resolvePf turns a proof descriptor into real bytes; ok=false for descriptors that cannot be realised (an existence
// proof of something that is not stored in that version, an absence proof of something that is).
func (f *tmFam) resolvePf(s string, marshal func(interface{}) ([]byte, error)) (*tmDepInput, bool) {
	pf, ok := tmParsePf(s)
	if !ok {
		return nil, false
	}
	st := tmStore()
	items := st.items[f.rt.name()]
	in := &tmDepInput{pf: pf}
	if pf.srcKind == 'x' {
		in.proofBz = []byte{0xff, 0x00, 0xff}
	} else {
		in.src = items[pf.srcItem]
		if in.src == nil {
			return nil, false
		}
		present := in.src.stored != nil && in.src.since <= pf.srcVer
		if pf.priv {
			present = in.src.pstored != nil
		}
		if pf.ics {
			if f.rt.name() != "cosmos" {
				return nil, false
			}
			var pr *merkle.Proof
			if pr, present = st.ics.proofOf(in.src); pr == nil || (pf.srcKind == 'e') != present {
				return nil, false
			}
			in.proof = pr
		} else {
			if (pf.srcKind == 'e') != present {
				return nil, false
			}
			in.proof = st.proofOf(in.src, pf.srcVer, pf.priv)
		}
		bz, err := marshal(*in.proof)
		if err != nil {
			panic(err)
		}
		in.proofBz = bz
	}
	switch {
	case pf.kp == "=" && pf.priv:
		in.kp = in.src.pkeyPath
	case pf.kp == "=":
		in.kp = in.src.keyPath
	case pf.kp == "-":
		in.kp = ""
	default:
		j, _ := strconv.Atoi(pf.kp[1:])
		if items[j] == nil {
			return nil, false
		}
		in.kp = items[j].keyPath
	}
	if pf.val == "!" {
		in.extraBz = []byte{0xff, 0x00, 0xff}
		in.valID = -1
	} else {
		j, _ := strconv.Atoi(pf.val[1:])
		if items[j] == nil {
			return nil, false
		}
		in.valItem, in.valID, in.value = items[j], j, items[j].value
		bz, err := marshal(ccmcosmos.CosmosProofValue{Kp: in.kp, Value: in.value})
		if err != nil {
			panic(err)
		}
		in.extraBz = bz
	}
	return in, true
}

func tmDepErrClass(err error) string {
	if err == nil {
		return "ok"
	}
	m := err.Error()
	switch {
	case strings.Contains(m, "is lower than epoch"):
		return "reject:low"
	case strings.Contains(m, "you must commit the header"):
		return "reject:nohdr"
	case strings.Contains(m, "height of your header is"):
		return "reject:height"
	case strings.Contains(m, "unmarshal proof value err"):
		return "reject:pv"
	case strings.Contains(m, "unmarshal proof err"):
		return "reject:proof"
	case strings.Contains(m, "proof size wrong"):
		return "reject:proofsize"
	case strings.Contains(m, "storage key length not correct"):
		return "reject:keylen"
	case strings.Contains(m, "storage key not from ccmc"):
		return "reject:keyprefix"
	case strings.Contains(m, "wrong module for proof"):
		return "reject:module"
	case strings.Contains(m, "Kp is nil"):
		return "reject:kp"
	case strings.Contains(m, "proof error"), strings.Contains(m, "VerifyValue error"):
		return "reject:verify"
	case strings.Contains(m, "deserialize merkleValue error"):
		return "reject:txparam"
	case strings.Contains(m, "check done transaction error"):
		return "reject:done"
	case strings.Contains(m, "heimdallSpan UnmarshalBinaryBare error"), strings.Contains(m, "from heimdall"):
		return "reject:span"
	}
	return tmErrClass(err)
}

func (f *tmFam) execDep(r *hx.Run, op []string) string {
	rn := f.rt.name()
	if rn == "heimdall" {
		return "bad-op"
	}
	if op[0] == "sidechain" {
		if len(op) != 1 {
			return "bad-op"
		}
		putSideChain(f.db, tmChainID, 12, tmCCMC, nil)
		return "ok"
	}
	if len(op) != 4 {
		return "bad-op"
	}
	var hb *tmBuilt
	if op[1] != "-" {
		var ok bool
		if hb, ok = f.built[op[1]]; !ok {
			return "bad-op"
		}
	}
	h64, err := strconv.ParseUint(op[2], 10, 32)
	if err != nil {
		return "bad-op"
	}
	marshal := hscosmos.Cdc.MarshalBinaryBare
	if rn == "okex" {
		marshal = okex.NewCDC().MarshalBinaryBare
	}
	in, ok := f.resolvePf(op[3], marshal)
	if !ok {
		return "bad-op"
	}
	p := &ccmcom.EntranceParam{SourceChainID: tmChainID, Height: uint32(h64), Proof: in.proofBz, RelayerAddress: []byte{}, Extra: in.extraBz}
	if hb != nil {
		p.HeaderOrCrossChainMsg = hb.bytes
	}
	sink := common.NewZeroCopySink(nil)
	p.Serialization(sink)
	pre := tmReadTracked(f.db)
	ns := newNativeAnon(f.db, sink.Bytes())
	var tx *ccmcom.MakeTxParam
	if rn == "cosmos" {
		tx, err = ccmcosmos.NewCosmosHandler().MakeDepositProposal(ns)
	} else {
		tx, err = ccmokex.NewHandler().MakeDepositProposal(ns)
	}
	post := tmReadTracked(f.db)
	res := tmDepErrClass(err)
	// the property on the verdict
	if pre.ok && post.ok && post.height < pre.height {
		r.Viol("C30:"+rn+":height-decreased", fmt.Sprintf("tracked height went from %d to %d in a deposit", pre.height, post.height))
	}
	if !tmSameTracked(pre, post) {
		if !pre.ok || hb == nil || hb.hash == nil && hb.vh == nil {
			r.Viol("C30:"+rn+":deposit-changed-info-without-header", "a deposit changed the tracked epoch info without a decodable header")
		} else {
			f.justify(r, "deposit", op[1], hb, pre)
			want := tmTracked{ok: true, height: hb.height, next: hb.nvh, block: hb.hash, chain: hb.chain}
			if !tmSameTracked(want, post) || !(hb.height > pre.height) || !hb.nvhDiffer {
				r.Viol("C30:"+rn+":tracked-info-unexplained", "the tracked info after a deposit is not the submitted header at a greater height with a changed validator set")
			}
		}
	}
	if err == nil {
		if !pre.ok || hb == nil {
			r.Viol("C30:"+rn+":deposit-accepted-without-header", "a deposit was accepted without tracked info or header")
		} else {
			f.justify(r, "deposit", op[1], hb, pre)
			if hb.height < pre.height {
				r.Viol("C30:"+rn+":deposit-below-tracked-height", fmt.Sprintf("deposit accepted with a header at height %d below the tracked height %d", hb.height, pre.height))
			}
			st := tmStore()
			exists := in.valItem != nil && bytes.Equal(in.valItem.value, in.value) && st.holds(in.valItem, hb.appHash)
			if !exists {
				key := "C30:" + rn + ":deposit-accepted-without-existence"
				if in.kp == "" {
					key = "C30:" + rn + ":deposit-accepted-on-absence-proof"
				}
				r.Viol(key, fmt.Sprintf("deposit %s accepted although the message (item %d) is not stored in the state committed by the header's app hash (key path %q, proof %c)",
					op[3], in.valID, in.kp, in.pf.srcKind))
			}
			if tx == nil || in.valItem == nil {
				r.Viol("C30:"+rn+":deposit-returned-other-message", "accepted deposit returned no message")
			} else {
				want := new(ccmcom.MakeTxParam)
				if want.Deserialization(common.NewZeroCopySource(in.value)) != nil || !bytes.Equal(want.CrossChainID, tx.CrossChainID) || !bytes.Equal(want.Args, tx.Args) {
					r.Viol("C30:"+rn+":deposit-returned-other-message", "the returned message is not the decoding of the proven value")
				}
			}
		}
		res = fmt.Sprintf("ok:tx%d", in.valID)
	}
	return res + " " + f.showTracked(post)
}

func (f *tmFam) execSpan(r *hx.Run, op []string) string {
	if f.rt.name() != "heimdall" || len(op) != 3 {
		return "bad-op"
	}
	hb, ok := f.built[op[1]]
	if !ok || (hb.hash == nil && hb.vh == nil) {
		return "bad-op"
	}
	cdc := ptypes.NewCDC()
	in, ok := f.resolvePf(op[2], cdc.MarshalBinaryBare)
	if !ok || in.proof == nil || in.valItem == nil {
		return "bad-op"
	}
	var hdr polygon.CosmosHeader
	if err := cdc.UnmarshalBinaryBare(hb.bytes, &hdr); err != nil {
		return "bad-op"
	}
	pre := tmReadTracked(f.db)
	proof := &polygon.CosmosProof{Value: polygon.CosmosProofValue{Kp: in.kp, Value: in.value}, Proof: *in.proof, Header: hdr}
	span, err := polygon.VerifySpan(newNativeAnon(f.db, nil), tmChainID, proof)
	post := tmReadTracked(f.db)
	if !tmSameTracked(pre, post) {
		r.Viol("C30:heimdall:span-changed-info", "VerifySpan changed the tracked epoch info")
	}
	res := tmDepErrClass(err)
	if err == nil {
		if !pre.ok {
			r.Viol("C30:heimdall:span-accepted-without-trust-root", "VerifySpan succeeded without tracked info")
		} else {
			f.justify(r, "span", op[1], hb, pre)
			if !(bytes.Equal(in.valItem.value, in.value) && tmStore().holds(in.valItem, hb.appHash)) {
				r.Viol("C30:heimdall:span-accepted-without-existence", fmt.Sprintf("span %s accepted although it is not stored in the state committed by the header's app hash", op[2]))
			}
			if span == nil || span.ID != uint64(100+in.valID) {
				r.Viol("C30:heimdall:span-returned-other-value", "the returned span is not the decoding of the proven value")
			}
		}
		res = fmt.Sprintf("ok:tx%d", in.valID)
	}
	return res + " " + f.showTracked(post)
}

// ---- generator ----

func (f *tmFam) genDep(r *hx.Run) {
	rn := f.rt.name()
	r.Rule("deposits of the " + rn + " router: real existence / absence proofs from a committed multistore (IAVL, two versions) x " +
		"header shapes (justified, below two thirds, epoch-changing, other app hash, heights below/at/above the tracked one, " +
		"undecodable, missing) x proof shapes (right, other value, other key path, other version, empty key path, absence proof " +
		"of a crafted message, undecodable proof / proof value, non-message value, wrong module / contract / key length, replay; " +
		"forged headers quoting the stored block hash with a private-store proof; cosmos: ICS-23 existence / non-existence ops); " +
		"distinct non-trivial = (block version, shape, outcome)")
	rounds := r.Pick(4, 80)
	id := 0
	vers := []uint64{10}
	if rn == "cosmos" {
		vers = []uint64{10, 11}
	}
	for round := 0; round < rounds; round++ {
		for _, ver := range vers {
			for n := 1; n <= 4; n++ {
				id++
				r.Case(fmt.Sprintf("tmdep%s-%d-%d-%d", rn, ver, n, id))
				g := &tmGen{r: r, f: f, rn: rn, ver: ver, chain: "chain-A"}
				g.height = int64(r.Rng.Intn(50)) + 5
				g.cur = tmRandSet(r, n)
				verb := "dep"
				arg := func(h int64) string { return fmt.Sprintf(" %d ", h) }
				if rn == "heimdall" {
					verb = "span"
					arg = func(h int64) string { return " " }
				}
				label := func(l, res string) string {
					cls := tmOutcomeClass(res)
					r.Nontrivial(fmt.Sprintf("%d/%s/%s", ver, l, cls))
					r.Hist("shape." + l)
					r.Hist("outcome." + cls)
					if id%13 == 1 && (l == "absence-of-crafted" || l == "right") {
						r.Sample(map[string]interface{}{"router": rn, "shape": l, "outcome": res})
					}
					return cls
				}
				registered := true
				if rn == "okex" {
					if r.Rng.Chance(1, 6) {
						registered = false
					} else {
						r.Do("sidechain")
					}
				}
				mkHdr := func(h int64, app string, k int) string {
					s := g.good(h, g.cur)
					s.nvh = "="
					s.app = app
					if k >= 0 {
						g.shape(s, k)
					}
					return g.def(s)
				}
				// forged headers at (and just above) the tracked height: no / invalid signatures, or genuine signatures over a
				// BlockID that quotes the stored block hash instead of this header's hash; app hash = root of the private store,
				// so that the value proof is genuine against the forged app hash
				forged := func(tag, ctl string) {
					ord := g.order(g.cur, ver)
					all := tmBits(1<<uint(len(ord))-1, len(ord))
					mk := func(h int64, bid string, slots []string) string {
						return g.def(&tmHdrSpec{ver: ver, chain: g.chain, height: h, vh: "=", nvh: "=", app: "p1", vals: g.cur,
							cheight: h, round: 1, bid: bid, signChain: g.chain, slots: slots})
					}
					none := tmSlots(ord, nil, 'a')
					wrong := make([]string, len(ord))
					for i, v := range ord {
						wrong[i] = fmt.Sprintf("w%d", v.key)
					}
					signed := tmSlots(ord, all, 'a')
					h := g.height
					label("forged-"+tag+"-quoting-stored-hash-unsigned", r.Do(verb+" "+mk(h, "t", none)+arg(h)+"e5p1/=/v5"))
					label("forged-"+tag+"-quoting-stored-hash-bad-signatures", r.Do(verb+" "+mk(h, "t", wrong)+arg(h)+"e6p1/=/v6"))
					label("forged-"+tag+"-quoting-stored-hash-signed-for-it", r.Do(verb+" "+mk(h, "t", signed)+arg(h)+"e5p1/=/v5"))
					label("forged-"+tag+"-own-hash-unsigned", r.Do(verb+" "+mk(h, "=", none)+arg(h)+"e6p1/=/v6"))
					label("forged-"+tag+"-own-hash-bad-signatures", r.Do(verb+" "+mk(h, "=", wrong)+arg(h)+"e5p1/=/v5"))
					label("forged-"+tag+"-above-quoting-stored-hash", r.Do(verb+" "+mk(h+1, "t", none)+arg(h+1)+"e6p1/=/v6"))
					label("forged-"+tag+"-nil-commit", r.Do(verb+" "+g.def(&tmHdrSpec{ver: ver, chain: g.chain, height: h, vh: "=", nvh: "=",
						app: "p1", vals: g.cur, nilCommit: true})+arg(h)+"e5p1/=/v5"))
					// control: the same private state under a header the tracked set really signed
					label("signed-"+tag+"-private-app-hash", r.Do(verb+" "+mk(h, "=", signed)+arg(h)+ctl))
				}
				// before genesis
				if r.Rng.Chance(1, 4) {
					nm := mkHdr(g.height+1, "r1", -1)
					label("no-trust-root", r.Do(verb+" "+nm+arg(g.height+1)+"e0r1/=/v0"))
				}
				gen := &tmHdrSpec{ver: ver, chain: g.chain, height: g.height, vh: "x9", nvh: g.hashOf(g.cur, ver), nilCommit: true}
				r.Do("genesis " + g.def(gen))
				h0 := g.height + int64(r.Rng.Intn(3)) // at or above the tracked height
				hA := mkHdr(h0, "r1", 1)              // least power above two thirds
				hB := mkHdr(h0, "r2", 0)
				hC := mkHdr(h0, "x0", 0)
				hBad := mkHdr(h0, "r1", 2) // greatest power not above two thirds
				hSig := mkHdr(h0, "r1", 7)
				a := arg(h0)
				if !registered {
					label("unregistered-side-chain", r.Do(verb+" "+hA+a+"e0r1/=/v0"))
					label("unregistered-short-proof-key", r.Do(verb+" "+hA+a+"e8r1/=/v8"))
					continue
				}
				label("other-value", r.Do(verb+" "+hA+a+"e1r1/=/v0"))
				label("other-key-path", r.Do(verb+" "+hA+a+"e1r1/k0/v1"))
				label("proof-of-other-version", r.Do(verb+" "+hA+a+"e2r2/=/v2"))
				label("stored-later-than-header-state", r.Do(verb+" "+hA+a+"e0r2/=/v0"))
				label("header-app-hash-arbitrary", r.Do(verb+" "+hC+a+"e1r1/=/v1"))
				label("empty-key-path-existence-proof", r.Do(verb+" "+hA+a+"e1r1/-/v1"))
				label("absence-of-crafted", r.Do(verb+" "+hA+a+fmt.Sprintf("a%dr1/-/v%d", 5+r.Rng.Intn(2), 5+r.Rng.Intn(2))))
				label("absence-of-crafted", r.Do(verb+" "+hA+a+"a5r1/-/v5"))
				label("absence-of-crafted-other-version", r.Do(verb+" "+hA+a+"a6r2/-/v6"))
				label("absence-proof-with-key-path", r.Do(verb+" "+hA+a+"a5r1/=/v5"))
				label("absence-proof-of-not-yet-stored", r.Do(verb+" "+hA+a+"a2r1/=/v2"))
				label("absence-proof-empty-path-not-yet-stored", r.Do(verb+" "+hA+a+"a2r1/-/v2"))
				label("not-a-message", r.Do(verb+" "+hA+a+"e3r1/=/v3"))
				if rn == "heimdall" {
					label("span-conversion-fails", r.Do(verb+" "+hA+a+"e4r1/=/v4"))
				} else {
					label("undecodable-proof", r.Do(verb+" "+hA+a+"x/k0/v0"))
					label("undecodable-proof-value", r.Do(verb+" "+hA+a+"e0r1/=/!"))
					label("height-parameter-differs", r.Do(verb+" "+hA+arg(h0+1)+"e0r1/=/v0"))
					if g.height > 0 {
						label("height-parameter-below-tracked", r.Do(verb+" "+hA+arg(g.height-1)+"e0r1/=/v0"))
					}
					label("no-header", r.Do(verb+" -"+a+"e0r1/=/v0"))
					r.Do("raw junk ff00ff")
					label("undecodable-header", r.Do(verb+" junk"+a+"e0r1/=/v0"))
				}
				label("wrong-module", r.Do(verb+" "+hA+a+"e9r1/=/v9"))
				if rn == "okex" {
					label("other-contract-key", r.Do(verb+" "+hA+a+"e7r1/=/v7"))
					label("short-proof-key", r.Do(verb+" "+hA+a+"e8r1/=/v8"))
				}
				if rn == "cosmos" {
					// ICS-23 commitment ops (ics23:iavl / ics23:simple for the store, ics23:simple for the multistore)
					hQ := mkHdr(h0, "q1", 0)
					label("ics23-absence-made-up-value", r.Do(verb+" "+hQ+a+fmt.Sprintf("a%dq1/=/v%d", 5+r.Rng.Intn(2), 5+r.Rng.Intn(2))))
					label("ics23-absence-made-up-value", r.Do(verb+" "+hQ+a+"a5q1/=/v5"))
					label("ics23-absence-of-unstored-message", r.Do(verb+" "+hQ+a+"a2q1/=/v2"))
					label("ics23-absence-other-key-path", r.Do(verb+" "+hQ+a+"a2q1/k0/v0"))
					label("ics23-absence-empty-key-path", r.Do(verb+" "+hQ+a+"a5q1/-/v5"))
					label("ics23-other-value", r.Do(verb+" "+hQ+a+"e1q1/=/v0"))
					label("ics23-op-key-differs-from-key-path", r.Do(verb+" "+hQ+a+"e1q1/k0/v1"))
					label("ics23-existence-empty-key-path", r.Do(verb+" "+hQ+a+"e7q1/-/v7"))
					label("ics23-not-a-message", r.Do(verb+" "+hQ+a+"e3q1/=/v3"))
					label("ics23-under-other-app-hash", r.Do(verb+" "+hA+a+"e7q1/=/v7"))
					label("iavl-proof-under-ics23-app-hash", r.Do(verb+" "+hQ+a+"e0r1/=/v0"))
					label("ics23-right-iavl-spec", r.Do(verb+" "+hQ+a+"e7q1/=/v7"))
					label("ics23-right-simple-spec", r.Do(verb+" "+hQ+a+"e8q1/=/v8"))
					label("ics23-replay", r.Do(verb+" "+hQ+a+"e7q1/=/v7"))
				}
				label("header-below-two-thirds", r.Do(verb+" "+hBad+a+"e0r1/=/v0"))
				label("header-bad-signature", r.Do(verb+" "+hSig+a+"e0r1/=/v0"))
				label("right", r.Do(verb+" "+hA+a+"e0r1/=/v0"))
				label("replay", r.Do(verb+" "+hA+a+"e0r1/=/v0"))
				label("right-version-2", r.Do(verb+" "+hB+a+"e2r2/=/v2"))
				label("right-other-item", r.Do(verb+" "+hB+a+"e1r2/=/v1"))
				forged("genesis-installed", "e5p1/=/v5")
				if rn == "heimdall" {
					n2 := tmRandSet(r, 1+r.Rng.Intn(3))
					hs := g.height + 1 + int64(r.Rng.Intn(3))
					if g.note(r.Do("sync "+g.def(g.good(hs, n2))), hs, n2) {
						forged("sync-installed", "e6p1/=/v6")
					}
					continue
				}
				// an epoch-changing header in a deposit: the info advances (also when the proof part fails afterwards)
				next := tmRandSet(r, 1+r.Rng.Intn(4))
				hE := g.height + 3 + int64(r.Rng.Intn(3))
				sE := g.good(hE, next)
				sE.app = "r2"
				if r.Rng.Bool() {
					g.shape(sE, 1)
				}
				nE := g.def(sE)
				pf := "e0r2/=/v0"
				if r.Rng.Bool() {
					pf = "e1r2/k0/v1" // the proof part fails
				}
				res := r.Do(verb + " " + nE + arg(hE) + pf)
				label("epoch-changing-header", res)
				// the old set is no longer trusted; the new one is
				label("old-set-after-epoch-change", r.Do(verb+" "+mkHdr(hE+1, "r2", 0)+arg(hE+1)+"e0r2/=/v0"))
				g.cur, g.height = next, hE
				label("new-set-after-epoch-change", r.Do(verb+" "+mkHdr(hE, "r2", 0)+arg(hE)+"e0r2/=/v0"))
				label("below-new-tracked-height", r.Do(verb+" "+mkHdr(hE-1, "r2", 0)+arg(hE-1)+"e0r2/=/v0"))
				// a sync batch after deposits still works on the same info
				n2 := tmRandSet(r, 2)
				res = r.Do("sync " + g.def(g.good(hE+2, n2)))
				label("sync-after-deposit", res)
				if g.note(res, hE+2, n2) {
					forged("sync-installed", "e6p1/=/v6")
				}
			}
		}
	}
}

var _ = hex.EncodeToString
