package main

import "polyverif/internal/hx"

type tmDepState struct{}

func (f *tmFam) resetDep() {}

// appHash resolves an AppHash descriptor: x<k> arbitrary bytes, r<k> root of committed store version k (tmdep).
func (f *tmFam) appHash(s string) []byte {
	if len(s) > 1 && s[0] == 'x' {
		return tmArb("app-" + s[1:])
	}
	return nil
}

func (f *tmFam) execDep(r *hx.Run, op []string) string { return "bad-op" }

func (f *tmFam) execSpan(r *hx.Run, op []string) string { return "bad-op" }

func (f *tmFam) genDep(r *hx.Run) {}
