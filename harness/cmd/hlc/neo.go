package main

import (
	"crypto/sha256"
	"encoding/hex"
	"fmt"
	"sort"
	"strconv"
	"strings"

	"github.com/joeqian10/neo-gogogo/block"
	"github.com/joeqian10/neo-gogogo/helper"
	"github.com/joeqian10/neo-gogogo/mpt"
	"github.com/joeqian10/neo-gogogo/sc"
	"github.com/joeqian10/neo-gogogo/tx"
	"github.com/joeqian10/neo-gogogo/wallet/keys"
	"github.com/polynetwork/poly/common"
	cstates "github.com/polynetwork/poly/core/states"
	ccmcom "github.com/polynetwork/poly/native/service/cross_chain_manager/common"
	ccmneo "github.com/polynetwork/poly/native/service/cross_chain_manager/neo"
	hscommon "github.com/polynetwork/poly/native/service/header_sync/common"
	"github.com/polynetwork/poly/native/service/header_sync/neo"
	"github.com/polynetwork/poly/native/service/utils"
	"github.com/polynetwork/poly/native/storage"
	"polyverif/internal/hx"
)

// Family neo (NEO 2.x router: C24 state-root message path, C31 header path): the real NEO handlers on a real
// native service + CacheDB, real multi-signature witnesses made with neo-gogogo.
//
// Keys are pool indices 0..15, numbered in the library's own public-key order. A consensus descriptor is
// `m:k1.k2...` = the m-of-n multi-signature script over those keys in that order (script hash = hash160 of it).
// Signature specs in invocation-script order: g<i> genuine by key i, w<i> by key i over another message, x 64 bytes
// that are no signature.
//
//	ngen <index> <cons>                       NEOHandler.SyncGenesisHeader, header.NextConsensus = hash(cons)
//	nhdr <hdr> [| <hdr> ...]                  NEOHandler.SyncBlockHeader with that batch; hdr = <index>/<next>/<wscript>/<sigs>[/p]
//	                                          (/p: PrevHash = hash of the preceding header of the batch)
//	nmsg <index> <wscript> <sigs>             neo.VerifyCrossChainMsgSig, and cross_chain_manager NEOHandler.MakeDepositProposal
//	                                          up to the proof check
//	nstate                                    tracked (height, descriptor)
type neoFam struct {
	db     *storage.CacheDB
	stream string
	known  map[string]string // script hash (hex) -> descriptor, for reading the store back
}

const neoChainID = 4
const neoPool = 16

func init() {
	families["neomsg"] = func() hx.Family { return &neoFam{stream: "msg"} }
	families["neohdr"] = func() hx.Family { return &neoFam{stream: "hdr"} }
}

var neoKeys = func() []*keys.KeyPair {
	ks := make([]*keys.KeyPair, neoPool)
	for i := range ks {
		d := sha256.Sum256([]byte(fmt.Sprintf("polyverif-neo-key-%d", i)))
		k, err := keys.NewKeyPair(d[:])
		if err != nil {
			panic(err)
		}
		ks[i] = k
	}
	sort.Slice(ks, func(i, j int) bool { return ks[i].PublicKey.X.Cmp(ks[j].PublicKey.X) < 0 })
	return ks
}()

type neoDesc struct {
	m    int
	keys []int
}

func parseNeoDesc(s string) (neoDesc, bool) {
	p := strings.SplitN(s, ":", 2)
	if len(p) != 2 {
		return neoDesc{}, false
	}
	m, err := strconv.Atoi(p[0])
	if err != nil || m < 0 || m > 16 {
		return neoDesc{}, false
	}
	d := neoDesc{m: m}
	if p[1] == "" {
		return d, true
	}
	for _, q := range strings.Split(p[1], ".") {
		v, err := strconv.Atoi(q)
		if err != nil || v < 0 || v >= neoPool {
			return neoDesc{}, false
		}
		d.keys = append(d.keys, v)
	}
	if len(d.keys) > 16 {
		return neoDesc{}, false
	}
	return d, true
}

// neoScript builds the m-of-n CHECKMULTISIG script with the keys in the order given (the library's own
// CreateMultiSigRedeemScript refuses m = n and sorts; the byte layout is the same).
func neoScript(d neoDesc) []byte {
	b := sc.NewScriptBuilder()
	if err := b.EmitPushInt(d.m); err != nil {
		panic(err)
	}
	for _, k := range d.keys {
		if err := b.EmitPushBytes(neoKeys[k].PublicKey.EncodeCompression()); err != nil {
			panic(err)
		}
	}
	if err := b.EmitPushInt(len(d.keys)); err != nil {
		panic(err)
	}
	if err := b.Emit(sc.CHECKMULTISIG); err != nil {
		panic(err)
	}
	return b.ToArray()
}

func (f *neoFam) descHash(s string) (helper.UInt160, bool) {
	d, ok := parseNeoDesc(s)
	if !ok {
		return helper.UInt160{}, false
	}
	h, err := helper.BytesToScriptHash(neoScript(d))
	if err != nil {
		panic(err)
	}
	f.known[hex.EncodeToString(h.Bytes())] = s
	return h, true
}

func neoInvocation(specs []sigSpec, msg []byte) []byte {
	b := sc.NewScriptBuilder()
	for _, sp := range specs {
		var sig []byte
		var err error
		switch sp.kind {
		case 'g':
			sig, err = neoKeys[sp.key].Sign(msg)
		case 'w':
			other := sha256.Sum256(append([]byte("other"), msg...))
			sig, err = neoKeys[sp.key].Sign(other[:])
		default:
			sig = make([]byte, 64)
			for i := range sig {
				sig[i] = byte(0x11 + i)
			}
		}
		if err != nil {
			panic(err)
		}
		if err := b.EmitPushBytes(sig); err != nil {
			panic(err)
		}
	}
	return b.ToArray()
}

func (f *neoFam) Reset(r *hx.Run) {
	f.db = newCacheDB()
	f.known = map[string]string{}
	putSideChain(f.db, neoChainID, 4, []byte{1, 2, 3, 4, 5, 6, 7, 8, 9, 10, 11, 12, 13, 14, 15, 16, 17, 18, 19, 20}, nil)
}

func neoErrClass(err error) string {
	if err == nil {
		return "ok"
	}
	m := err.Error()
	switch {
	case strings.Contains(m, "has not been initialized") || strings.Contains(m, "get Consensus error") || strings.Contains(m, "get ConsensusPeer error"):
		return "reject:noconsensus"
	case strings.Contains(m, "had been initialized"):
		return "reject:initialized"
	case strings.Contains(m, "invalid script hash"):
		return "reject:scripthash"
	case strings.Contains(m, "getScripthash error"):
		return "reject:noscript"
	case strings.Contains(m, "VerifyMultiSignatureWitness error") || strings.Contains(m, "verify witness failed"):
		return "reject:witness"
	case strings.Contains(m, "VerifyFromNeoTx error") || strings.Contains(m, "GetSideChain"):
		return "verified"
	case strings.Contains(m, "Deserialize error") || strings.Contains(m, "FromBytes error") || strings.Contains(m, "deserialize"):
		return "reject:decode"
	}
	return "reject:other:" + strings.ReplaceAll(m, " ", "_")
}

// tracked reads the stored NeoConsensus by raw CacheDB access + the exported decoder.
func (f *neoFam) tracked() (*neo.NeoConsensus, bool) {
	raw, err := f.db.Get(utils.ConcatKey(utils.HeaderSyncContractAddress, []byte(hscommon.CONSENSUS_PEER), utils.GetUint64Bytes(neoChainID)))
	if err != nil || raw == nil {
		return nil, false
	}
	b, err := cstates.GetValueFromRawStorageItem(raw)
	if err != nil {
		return nil, false
	}
	c := new(neo.NeoConsensus)
	if err := c.Deserialization(common.NewZeroCopySource(b)); err != nil {
		return nil, false
	}
	return c, true
}

func (f *neoFam) showTracked() string {
	c, ok := f.tracked()
	if !ok {
		return "none"
	}
	d, ok := f.known[hex.EncodeToString(c.NextConsensus.Bytes())]
	if !ok {
		d = "?"
	}
	return fmt.Sprintf("h=%d c=%s", c.Height, d)
}

// countValid: how many DISTINCT keys of the descriptor have a genuine signature over msg among the pushed signatures
// (independent of the library's matching order).
func neoDistinctValid(d neoDesc, inv []byte, msg []byte) int {
	seen := map[int]bool{}
	for off := 0; off+65 <= len(inv); off += 65 {
		sig := inv[off+1 : off+65]
		for _, k := range d.keys {
			if !seen[k] && keys.VerifySignature(msg, sig, neoKeys[k].PublicKey) {
				seen[k] = true
				break
			}
		}
	}
	return len(seen)
}

// neoRootVariant: optional trailing token r<k> (k = 0..9) selects another state root for the same index.
func neoRootVariant(op []string, n int) (string, bool) {
	if len(op) == n {
		return "22", true
	}
	if len(op) == n+1 && len(op[n]) == 2 && op[n][0] == 'r' && op[n][1] >= '0' && op[n][1] <= '9' {
		return fmt.Sprintf("%02x", 0x30+int(op[n][1]-'0')), true
	}
	return "", false
}

// neoAlteredReplays: after a genuine state root at index idx was accepted, other messages claiming the same index
// (another root, or the same root) with an empty / wrong-message / foreign / missing witness must be refused.
func neoAlteredReplays(r *hx.Run, opName string, n, idx, m int, ks []int, cons string, foreignCons, foreignSigs string) {
	good, _ := neoSigShape(r, m, ks, 0)
	res := r.Do(fmt.Sprintf("%s %d %s %s", opName, idx, cons, good))
	r.Nontrivial(fmt.Sprintf("%d/replay-base/%s", n, res))
	bad := strings.Replace(good, "g", "w", 1)
	for i, alt := range []string{
		fmt.Sprintf("%s %d %s - r1", opName, idx, cons),
		fmt.Sprintf("%s %d %s %s r1", opName, idx, cons, bad),
		fmt.Sprintf("%s %d %s %s r2", opName, idx, foreignCons, foreignSigs),
		fmt.Sprintf("%s %d - - r3", opName, idx),
		fmt.Sprintf("%s %d %s -", opName, idx, cons),
		fmt.Sprintf("%s %d %s %s", opName, idx, cons, bad),
	} {
		res := r.Do(alt)
		r.Nontrivial(fmt.Sprintf("%d/replay-altered-%d/%s", n, i, res))
		r.Hist("shape.replay-altered")
	}
	// the genuine one again, and a genuine one for another root at the same index: both fine
	r.Do(fmt.Sprintf("%s %d %s %s", opName, idx, cons, good))
	r.Do(fmt.Sprintf("%s %d %s %s r4", opName, idx, cons, good))
}

type neoHdrSpec struct {
	index               uint32
	next, wscript, sigs string
	link                bool   // PrevHash = hash of the preceding header of the batch
	prev                []byte // that hash (set while building the batch)
}

func (f *neoFam) buildHeader(h neoHdrSpec) ([]byte, *neo.NeoBlockHeader, []byte, neoDesc, bool) {
	next, ok1 := f.descHash(h.next)
	wd, ok2 := parseNeoDesc(h.wscript)
	specs, ok3 := parseSigs(h.sigs)
	if !ok1 || !ok2 || !ok3 {
		return nil, nil, nil, wd, false
	}
	f.descHash(h.wscript)
	bh := &block.BlockHeader{Version: 0, Timestamp: 1600000000 + h.index, Index: h.index, ConsensusData: uint64(h.index) * 7919, NextConsensus: next,
		Witness: &tx.Witness{}}
	if h.link && len(h.prev) == 32 {
		copy(bh.PrevHash[:], h.prev)
	}
	nh := &neo.NeoBlockHeader{BlockHeader: bh}
	msg, err := nh.GetMessage()
	if err != nil {
		panic(err)
	}
	bh.Witness = &tx.Witness{InvocationScript: neoInvocation(specs, msg), VerificationScript: neoScript(wd)}
	sink := common.NewZeroCopySink(nil)
	if err := nh.Serialization(sink); err != nil {
		panic(err)
	}
	return sink.Bytes(), nh, msg, wd, true
}

func (f *neoFam) Exec(r *hx.Run, op []string) string {
	switch op[0] {
	case "ngen":
		if len(op) != 3 {
			return "bad-op"
		}
		idx, err := strconv.ParseUint(op[1], 10, 32)
		if err != nil {
			return "bad-op"
		}
		raw, _, _, _, ok := f.buildHeader(neoHdrSpec{index: uint32(idx), next: op[2], wscript: "1:0", sigs: "-"})
		if !ok {
			return "bad-op"
		}
		p := &hscommon.SyncGenesisHeaderParam{ChainID: neoChainID, GenesisHeader: raw}
		ps := common.NewZeroCopySink(nil)
		p.Serialization(ps)
		if err := neo.NewNEOHandler().SyncGenesisHeader(newNativeAnon(f.db, ps.Bytes())); err == nil {
			r.Viol("C31:neo-genesis-without-operator-witness", "SyncGenesisHeader accepted a transaction that is not witnessed by the consensus operator")
		}
		return neoErrClass(neo.NewNEOHandler().SyncGenesisHeader(newNative(f.db, ps.Bytes()))) + " " + f.showTracked()
	case "nhdr":
		var specs []neoHdrSpec
		for _, tok := range op[1:] {
			if tok == "|" {
				continue
			}
			q := strings.Split(tok, "/")
			if len(q) != 4 && !(len(q) == 5 && q[4] == "p") {
				return "bad-op"
			}
			idx, err := strconv.ParseUint(q[0], 10, 32)
			if err != nil {
				return "bad-op"
			}
			specs = append(specs, neoHdrSpec{index: uint32(idx), next: q[1], wscript: q[2], sigs: q[3], link: len(q) == 5})
		}
		before, had := f.tracked()
		p := &hscommon.SyncBlockHeaderParam{ChainID: neoChainID}
		type built struct {
			nh  *neo.NeoBlockHeader
			msg []byte
			wd  neoDesc
		}
		var bs []built
		var prevHash []byte
		for _, s := range specs {
			s.prev = prevHash
			raw, nh, msg, wd, ok := f.buildHeader(s)
			if !ok {
				return "bad-op"
			}
			hh := nh.Hash()
			prevHash = append([]byte{}, hh[:]...)
			p.Headers = append(p.Headers, raw)
			bs = append(bs, built{nh, msg, wd})
		}
		ps := common.NewZeroCopySink(nil)
		p.Serialization(ps)
		err := neo.NewNEOHandler().SyncBlockHeader(newNative(f.db, ps.Bytes()))
		res := neoErrClass(err)
		after, has := f.tracked()
		// property oracle (C31): a change of the tracked consensus needs a header at a higher index whose witness
		// script is the tracked one and carries m genuine signatures of distinct keys of that script
		if had && has && (after.Height != before.Height || after.NextConsensus != before.NextConsensus) {
			if res != "ok" {
				r.Viol("C31:neo:changed-although-rejected", fmt.Sprintf("tracked consensus changed although the batch was rejected (%s)", res))
			}
			found := false
			for _, b := range bs {
				if b.nh.Index == after.Height && b.nh.NextConsensus == after.NextConsensus {
					wh := b.nh.Witness.GetScriptHash()
					if b.nh.Index > before.Height && wh == before.NextConsensus &&
						neoDistinctValid(b.wd, b.nh.Witness.InvocationScript, b.msg) >= b.wd.m && b.wd.m >= 1 {
						found = true
					}
				}
			}
			if !found {
				r.Viol("C31:neo:consensus-changed-without-authenticated-header",
					fmt.Sprintf("tracked consensus moved from height %d to %d but no header of the batch at that index is above the tracked height, carries the tracked script and m distinct genuine signatures", before.Height, after.Height))
			}
			if after.Height <= before.Height {
				r.Viol("C31:neo:height-not-increased", fmt.Sprintf("tracked height went from %d to %d", before.Height, after.Height))
			}
		}
		if !had && has {
			r.Viol("C31:neo:consensus-installed-by-header-sync", "SyncBlockHeader created a tracked consensus record")
		}
		return res + " " + f.showTracked()
	case "nmsg":
		rootByte, okr := neoRootVariant(op, 4)
		if !okr {
			return "bad-op"
		}
		idx, err := strconv.ParseUint(op[1], 10, 32)
		specs, ok2 := parseSigs(op[3])
		if err != nil || !ok2 {
			return "bad-op"
		}
		msg := &neo.NeoCrossChainMsg{StateRoot: &mpt.StateRoot{Version: 0, Index: uint32(idx),
			PreHash:   strings.Repeat("11", 32),
			StateRoot: strings.Repeat(rootByte, 32)}}
		var wd neoDesc
		if op[2] != "-" {
			var ok bool
			wd, ok = parseNeoDesc(op[2])
			if !ok {
				return "bad-op"
			}
			f.descHash(op[2])
			msg.Witness.VerificationScript = hex.EncodeToString(neoScript(wd))
		}
		unsigned, err := msg.GetMessage()
		if err != nil {
			panic(err)
		}
		inv := neoInvocation(specs, unsigned)
		msg.Witness.InvocationScript = hex.EncodeToString(inv)
		before, had := f.tracked()
		res := neoErrClass(neo.VerifyCrossChainMsgSig(newNative(f.db, nil), neoChainID, msg))
		// the same message through the deposit handler
		sink := common.NewZeroCopySink(nil)
		if err := msg.Serialization(sink); err != nil {
			panic(err)
		}
		// a well-formed proof for another contract (NOTE: an empty or truncated proof makes neo-gogogo mpt.ResolveProof loop forever)
		proof := append(append(append([]byte{37}, make([]byte, 36)...), 16), 0) // key = 20-byte script hash + one padded group, no nodes
		ep := &ccmcom.EntranceParam{SourceChainID: neoChainID, Height: uint32(idx), Proof: proof, RelayerAddress: []byte{}, Extra: []byte{},
			HeaderOrCrossChainMsg: sink.Bytes()}
		ps := common.NewZeroCopySink(nil)
		ep.Serialization(ps)
		res2 := "panic"
		func() {
			defer func() {
				if e := recover(); e != nil {
					res2 = "panic:" + strings.ReplaceAll(fmt.Sprint(e), " ", "_")
				}
			}()
			_, err2 := ccmneo.NewNEOHandler().MakeDepositProposal(newNative(f.db, ps.Bytes()))
			res2 = neoErrClass(err2)
		}()
		if (res == "ok") != (res2 == "verified") {
			return res + " DEPOSIT-HANDLER-DIFFERS:" + res2
		}
		if res == "ok" {
			if !had {
				r.Viol("C24:neo-msg:accepted-without-tracked-consensus", "state root accepted although no consensus is tracked")
			} else {
				wh, _ := helper.BytesToScriptHash(neoScript(wd))
				d := neoDistinctValid(wd, inv, unsigned)
				if wh != before.NextConsensus || d < wd.m || wd.m < 1 {
					r.Viol("C24:neo-msg:accepted-below-distinct-quorum",
						fmt.Sprintf("state root %d accepted with %d distinct genuine signers of script %s (needs %d, script tracked: %v)", idx, d, op[2], wd.m, wh == before.NextConsensus))
				}
			}
		}
		return res
	case "nstate":
		return f.showTracked()
	}
	return "bad-op"
}

// ---- generators ----

func neoDescOf(m int, ks []int) string {
	s := make([]string, len(ks))
	for i, k := range ks {
		s[i] = strconv.Itoa(k)
	}
	return fmt.Sprintf("%d:%s", m, strings.Join(s, "."))
}

func sortedCopy(a []int) []int {
	b := append([]int{}, a...)
	sort.Ints(b)
	return b
}

// neoSigShape: signature lists for a script (m of keys ks, in script order).
func neoSigShape(r *hx.Run, m int, ks []int, shape int) (string, string) {
	n := len(ks)
	g := func(idx []int) string {
		if len(idx) == 0 {
			return "-"
		}
		s := make([]string, len(idx))
		for i, k := range idx {
			s[i] = "g" + strconv.Itoa(k)
		}
		return strings.Join(s, ",")
	}
	// positions of a random m-subset in script order
	sub := func(k int) []int {
		p := r.Rng.Perm(n)[:k]
		sort.Ints(p)
		out := make([]int, k)
		for i, q := range p {
			out[i] = ks[q]
		}
		return out
	}
	switch shape {
	case 0:
		return g(sub(m)), "exact"
	case 1:
		if m == 0 {
			return "-", "below"
		}
		return g(sub(m - 1)), "below"
	case 2:
		return g(sub(m + r.Rng.Intn(n-m+1))), "above"
	case 3: // one key's signature repeated m times
		k := ks[r.Rng.Intn(n)]
		idx := make([]int, m)
		for i := range idx {
			idx[i] = k
		}
		return g(idx), "dup-single"
	case 4: // m-1 distinct + one repeat
		if m < 2 {
			return neoSigShape(r, m, ks, 3)
		}
		idx := sub(m - 1)
		idx = append(idx, idx[len(idx)-1])
		return g(idx), "dup-pad"
	case 5: // right signers in reverse script order
		idx := sub(m)
		for i, j := 0, len(idx)-1; i < j; i, j = i+1, j-1 {
			idx[i], idx[j] = idx[j], idx[i]
		}
		if m < 2 {
			return g(idx), "exact"
		}
		return g(idx), "reversed"
	case 6: // one signature over another message
		idx := sub(m)
		s := strings.Split(g(idx), ",")
		j := r.Rng.Intn(len(s))
		s[j] = "w" + s[j][1:]
		return strings.Join(s, ","), "wrongmsg"
	case 7: // one garbage signature
		idx := sub(m)
		s := strings.Split(g(idx), ",")
		s[r.Rng.Intn(len(s))] = "x"
		return strings.Join(s, ","), "garbage"
	case 8: // a foreign signer
		var foreign []int
		in := map[int]bool{}
		for _, k := range ks {
			in[k] = true
		}
		for i := 0; i < neoPool; i++ {
			if !in[i] {
				foreign = append(foreign, i)
			}
		}
		idx := sub(m)
		if len(foreign) > 0 {
			idx[r.Rng.Intn(len(idx))] = foreign[r.Rng.Intn(len(foreign))]
		}
		return g(idx), "foreign"
	case 9: // more signatures than keys
		idx := append(append([]int{}, ks...), ks[0])
		return g(idx), "too-many"
	default:
		return "-", "empty"
	}
}

const neoSigShapes = 11

func neoConsM(n int) int { return n - (n-1)/3 }

func (f *neoFam) randCons(r *hx.Run, n int) (int, []int, string) {
	ks := sortedCopy(r.Rng.Perm(neoPool)[:n])
	m := neoConsM(n)
	return m, ks, neoDescOf(m, ks)
}

func (f *neoFam) Gen(r *hx.Run) {
	if f.stream == "msg" {
		f.genMsg(r)
	} else {
		f.genHdr(r)
	}
}

func (f *neoFam) genMsg(r *hx.Run) {
	r.Rule("NEO 2.x state-root messages over tracked m-of-n consensus scripts, n = 1..10 (m = n-(n-1)/3) x 11 signature-list shapes " +
		"(exact/below/above m, repeated signature, reversed order, wrong message, garbage, foreign signer, too many, empty) x " +
		"{tracked script, other script over the same keys with a lower m, other key set, no script}; each through neo.VerifyCrossChainMsgSig and " +
		"cross_chain_manager MakeDepositProposal; distinct non-trivial = (n, shape, script kind, outcome)")
	rounds := r.Pick(3, 60)
	id := 0
	for round := 0; round < rounds; round++ {
		for n := 1; n <= 10; n++ {
			id++
			r.Case(fmt.Sprintf("neomsg-%d-%d", n, id))
			m, ks, cons := f.randCons(r, n)
			if round == 0 && n == 1 {
				r.Do("nmsg 5 1:0 g0") // nothing tracked yet
			}
			r.Do(fmt.Sprintf("ngen %d %s", r.Rng.Intn(100), cons))
			idx := 100
			for shape := 0; shape < neoSigShapes; shape++ {
				idx++
				sigs, label := neoSigShape(r, m, ks, shape)
				res := r.Do(fmt.Sprintf("nmsg %d %s %s", idx, cons, sigs))
				r.Nontrivial(fmt.Sprintf("%d/%s/tracked/%s", n, label, res))
				r.Hist("shape." + label)
				r.Hist("outcome." + res)
				if id%7 == 1 && shape == 3 {
					r.Sample(map[string]interface{}{"tracked": cons, "sigs": sigs, "outcome": res})
				}
			}
			// attacker-chosen scripts: same keys, weaker threshold; other keys
			if m > 1 {
				weak := neoDescOf(1, ks)
				res := r.Do(fmt.Sprintf("nmsg %d %s g%d", idx+1, weak, ks[0]))
				r.Nontrivial(fmt.Sprintf("%d/exact/weaker-m/%s", n, res))
			}
			_, ks2, other := f.randCons(r, 1+r.Rng.Intn(7))
			sigs2, _ := neoSigShape(r, neoConsM(len(ks2)), ks2, 0)
			res := r.Do(fmt.Sprintf("nmsg %d %s %s", idx+2, other, sigs2))
			r.Nontrivial(fmt.Sprintf("%d/exact/other-script/%s", n, res))
			res = r.Do(fmt.Sprintf("nmsg %d - -", idx+3))
			r.Nontrivial(fmt.Sprintf("%d/empty/no-script/%s", n, res))
			neoAlteredReplays(r, "nmsg", n, idx+10, m, ks, cons, other, sigs2)
			if n > 1 {
				perm := append([]int{}, ks...)
				perm[0], perm[1] = perm[1], perm[0]
				sigs3, _ := neoSigShape(r, m, ks, 0)
				res = r.Do(fmt.Sprintf("nmsg %d %s %s", idx+4, neoDescOf(m, perm), sigs3))
				r.Nontrivial(fmt.Sprintf("%d/exact/permuted-script/%s", n, res))
			}
		}
	}
}

func (f *neoFam) genHdr(r *hx.Run) {
	neoGenHdr(r, "neohdr")
}

// neoGenHdr: header-sync histories shared by the neo, neo3 and neo3legacy families (same op vocabulary).
func neoGenHdr(r *hx.Run, prefix string) {
	r.Rule("NEO header-sync histories: genesis with an m-of-n consensus (n = 1..10), then batches of 1..4 headers mixing " +
		"{authenticated change (11 witness signature shapes), same next-consensus, index at/below the tracked height, witness script " +
		"other than the tracked one, change signed by the NEW set, chained changes inside one batch, decreasing indices inside a batch, " +
		"second genesis, sync before genesis}; tracked (height, consensus) read back from the store after every op; " +
		"distinct non-trivial = (n, batch shape, outcome class)")
	rounds := r.Pick(4, 80)
	id := 0
	randCons := func(n int) (int, []int, string) {
		ks := sortedCopy(r.Rng.Perm(neoPool)[:n])
		return neoConsM(n), ks, neoDescOf(neoConsM(n), ks)
	}
	for round := 0; round < rounds; round++ {
		for n := 1; n <= 10; n++ {
			id++
			r.Case(fmt.Sprintf("%s-%d-%d", prefix, n, id))
			m, ks, cons := randCons(n)
			if round == 0 && n <= 2 {
				res := r.Do(fmt.Sprintf("nhdr 5/%s/%s/-", cons, cons))
				r.Nontrivial(fmt.Sprintf("%d/before-genesis/%s", n, res))
			}
			h := uint32(1 + r.Rng.Intn(50))
			r.Do(fmt.Sprintf("ngen %d %s", h, cons))
			record := func(label, res string) {
				r.Nontrivial(fmt.Sprintf("%d/%s/%s", len(ks), label, strings.Fields(res)[0]))
				r.Hist("batch." + label)
				r.Hist("outcome." + strings.Fields(res)[0])
			}
			for step := 0; step < 14+neoSigShapes; step++ {
				_, _, other := randCons(1 + r.Rng.Intn(10))
				for other == cons {
					_, _, other = randCons(1 + r.Rng.Intn(10))
				}
				good, _ := neoSigShape(r, m, ks, 0)
				var res string
				switch {
				case step < neoSigShapes: // one change header, every witness shape
					sigs, label := neoSigShape(r, m, ks, step)
					idx := h + 1 + uint32(r.Rng.Intn(5))
					res = r.Do(fmt.Sprintf("nhdr %d/%s/%s/%s", idx, other, cons, sigs))
					record("change-"+label, res)
				case step == neoSigShapes: // unchanged next consensus: ignored whatever the witness is
					res = r.Do(fmt.Sprintf("nhdr %d/%s/%s/-", h+3, cons, other))
					record("same-next", res)
				case step == neoSigShapes+1: // index at / below the tracked height
					res = r.Do(fmt.Sprintf("nhdr %d/%s/%s/%s | %d/%s/%s/-", h, other, cons, good, h-1, other, other))
					record("not-above", res)
				case step == neoSigShapes+2: // witness script is not the tracked one (signed by the new set itself)
					m2, ks2, c2 := randCons(1 + r.Rng.Intn(7))
					for c2 == cons {
						m2, ks2, c2 = randCons(1 + r.Rng.Intn(7))
					}
					s2, _ := neoSigShape(r, m2, ks2, 0)
					res = r.Do(fmt.Sprintf("nhdr %d/%s/%s/%s", h+2, c2, c2, s2))
					record("self-signed", res)
				case step == neoSigShapes+3: // weaker script over the tracked keys
					res = r.Do(fmt.Sprintf("nhdr %d/%s/%s/g%d", h+2, other, neoDescOf(1, ks), ks[0]))
					if m == 1 {
						record("weaker-script-m1", res)
					} else {
						record("weaker-script", res)
					}
				case step == neoSigShapes+4: // two changes in one batch, both signed by the tracked set: the last one wins
					_, _, o2 := randCons(1 + r.Rng.Intn(10))
					res = r.Do(fmt.Sprintf("nhdr %d/%s/%s/%s | %d/%s/%s/%s", h+1, other, cons, good, h+2, o2, cons, good))
					record("two-changes", res)
				case step == neoSigShapes+5: // chained change inside one batch: second signed by the first's new set
					m2, ks2, c2 := randCons(1 + r.Rng.Intn(7))
					for c2 == cons {
						m2, ks2, c2 = randCons(1 + r.Rng.Intn(7))
					}
					s2, _ := neoSigShape(r, m2, ks2, 0)
					res = r.Do(fmt.Sprintf("nhdr %d/%s/%s/%s | %d/%s/%s/%s", h+1, c2, cons, good, h+2, other, c2, s2))
					record("chained-in-batch", res)
				case step == neoSigShapes+6: // decreasing indices inside a batch
					_, _, o2 := randCons(1 + r.Rng.Intn(10))
					res = r.Do(fmt.Sprintf("nhdr %d/%s/%s/%s | %d/%s/%s/%s", h+9, other, cons, good, h+4, o2, cons, good))
					record("decreasing", res)
				case step == neoSigShapes+7: // a bad header after a good one: the whole batch is refused
					res = r.Do(fmt.Sprintf("nhdr %d/%s/%s/%s | %d/%s/%s/-", h+1, other, cons, good, h+2, other, cons))
					record("good-then-bad", res)
				case step == neoSigShapes+10: // a legitimate change followed by a hash-linked FORGED child (index+1, PrevHash = parent hash)
					_, _, att := randCons(1 + r.Rng.Intn(7))
					for att == cons || att == other {
						_, _, att = randCons(1 + r.Rng.Intn(7))
					}
					switch r.Rng.Intn(3) {
					case 0: // no witness signatures at all, tracked script claimed
						res = r.Do(fmt.Sprintf("nhdr %d/%s/%s/%s | %d/%s/%s/-/p", h+1, other, cons, good, h+2, att, cons))
					case 1: // witnessed by the attacker's own script
						da, _ := parseNeoDesc(att)
						sa, _ := neoSigShape(r, da.m, da.keys, 0)
						res = r.Do(fmt.Sprintf("nhdr %d/%s/%s/%s | %d/%s/%s/%s/p", h+1, other, cons, good, h+2, att, att, sa))
					default: // witnessed by the set the parent just announced (not yet tracked)
						do, _ := parseNeoDesc(other)
						so, _ := neoSigShape(r, do.m, do.keys, 0)
						res = r.Do(fmt.Sprintf("nhdr %d/%s/%s/%s | %d/%s/%s/%s/p", h+1, other, cons, good, h+2, att, other, so))
					}
					record("forged-linked-child", res)
				case step == neoSigShapes+11: // a hash-linked child that IS authenticated by the tracked set: accepted, last one wins
					_, _, o2 := randCons(1 + r.Rng.Intn(10))
					res = r.Do(fmt.Sprintf("nhdr %d/%s/%s/%s | %d/%s/%s/%s/p", h+1, other, cons, good, h+2, o2, cons, good))
					record("linked-child-authentic", res)
				case step == neoSigShapes+8: // second genesis must not replace the tracked consensus
					res = r.Do(fmt.Sprintf("ngen %d %s", h+100, other))
					record("second-genesis", res)
				case step == neoSigShapes+9: // empty batch
					res = r.Do("nhdr")
					record("empty-batch", res)
				default: // a random mix of 1..4 headers
					k := 1 + r.Rng.Intn(4)
					var toks []string
					for j := 0; j < k; j++ {
						idx := h - 2 + uint32(r.Rng.Intn(8))
						next := other
						if r.Rng.Chance(1, 4) {
							next = cons
						}
						ws := cons
						if r.Rng.Chance(1, 5) {
							ws = other
						}
						sigs, _ := neoSigShape(r, m, ks, r.Rng.Intn(neoSigShapes))
						if r.Rng.Chance(1, 2) {
							sigs = good
						}
						toks = append(toks, fmt.Sprintf("%d/%s/%s/%s", idx, next, ws, sigs))
					}
					res = r.Do("nhdr " + strings.Join(toks, " | "))
					record(fmt.Sprintf("mix%d", k), res)
				}
				// follow the tracked state as reported by the store
				f := strings.Fields(res)
				if len(f) == 3 && strings.HasPrefix(f[1], "h=") && strings.HasPrefix(f[2], "c=") {
					nh, _ := strconv.ParseUint(f[1][2:], 10, 32)
					if d, ok := parseNeoDesc(f[2][2:]); ok && (uint32(nh) != h || f[2][2:] != cons) {
						h, cons, m, ks = uint32(nh), f[2][2:], d.m, d.keys
					}
				}
				if id%9 == 1 && step == neoSigShapes+4 {
					r.Sample(map[string]interface{}{"tracked": cons, "outcome": res})
				}
			}
		}
	}
}
