// hlc: correspondence harness for the light-client layer (header_sync and cross_chain_manager handlers of the
// validator-signed, Tendermint-family and PoSA chains). Each family lives in its own file and registers itself
// in `families`.
package main

import "polyverif/internal/hx"

var families = map[string]func() hx.Family{}

func main() { hx.Main(families) }
