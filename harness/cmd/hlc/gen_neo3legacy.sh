#!/bin/sh
# Regenerates neo3legacy.go from neo3.go (same router code over github.com/joeqian10/neo3-gogogo-legacy).
cd "$(dirname "$0")"
sed -e 's#joeqian10/neo3-gogogo/#joeqian10/neo3-gogogo-legacy/#' \
    -e 's#header_sync/neo3"#header_sync/neo3legacy"#' \
    -e 's#cross_chain_manager/neo3"#cross_chain_manager/neo3legacy"#; s/ccmneo3/ccmneo3l/g' \
    -e 's/neo3\./neo3legacy./g' \
    -e 's/n3Fam/n3lFam/g; s/n3Keys/n3lKeys/g; s/n3Script/n3lScript/g; s/n3Invocation/n3lInvocation/g; s/n3ErrClass/n3lErrClass/g; s/n3DistinctValid/n3lDistinctValid/g; s/n3ChainID/n3lChainID/g; s/n3Magic/n3lMagic/g' \
    -e 's/"neo3msg"/"neo3lmsg"/; s/"neo3hdr"/"neo3lhdr"/; s/neo3msg-%d/neo3lmsg-%d/; s/C24:neo3-msg/C24:neo3legacy-msg/; s/C31:neo3/C31:neo3legacy/g; s/polyverif-neo3-key/polyverif-neo3l-key/' \
    -e 's/const n3lChainID = 14/const n3lChainID = 88/' \
    -e 's#^// NOTE: neo3legacy.go is generated.*#// GENERATED from neo3.go by gen_neo3legacy.sh. Do not edit.#' \
    -e 's#^// same code over two versions.*##' \
    neo3.go > neo3legacy.go
gofmt -w neo3legacy.go
