package main

import (
	"crypto/elliptic"
	"crypto/sha256"
	"encoding/json"
	"fmt"
	"sort"
	"strconv"
	"strings"

	"golang.org/x/crypto/ed25519"

	"github.com/ontio/ontology-crypto/ec"
	"github.com/ontio/ontology-crypto/keypair"
	osig "github.com/ontio/ontology-crypto/signature"
	ocommon "github.com/ontio/ontology/common"
	otypes "github.com/ontio/ontology/core/types"
	"github.com/polynetwork/poly/common"
	vconfig "github.com/polynetwork/poly/consensus/vbft/config"
	cstates "github.com/polynetwork/poly/core/states"
	ccmcom "github.com/polynetwork/poly/native/service/cross_chain_manager/common"
	ccmont "github.com/polynetwork/poly/native/service/cross_chain_manager/ont"
	hscommon "github.com/polynetwork/poly/native/service/header_sync/common"
	"github.com/polynetwork/poly/native/service/header_sync/ont"
	"github.com/polynetwork/poly/native/service/utils"
	"github.com/polynetwork/poly/native/storage"
	"polyverif/internal/hx"
)

// Family ont (C24 message path, C31 header path): the real ONT handlers on a real native service + CacheDB.
//
// Keys are pool indices 0..15 (deterministic P-256 / Ed25519 / SM2 key pairs). Signature specs: g<i> = genuine
// signature of key i over the message at hand, w<i> = genuine signature of key i over a different message,
// x = bytes that do not deserialize as a signature.
//
//	genesis <h> <cfg>                      ONTHandler.SyncGenesisHeader (operator-witnessed transaction): installs header h
//	                                       and (cfg != "-") its peer set
//	hdr <h> <nonce> <cfg> <bks> <sigs>     ONTHandler.SyncBlockHeader with one header
//	hbatch <h>/<nonce>/<cfg>/<bks>/<sigs> [| ...]   ONTHandler.SyncBlockHeader with several headers in one call
//	msg <h> <bks> <sigs>                   header_sync ONTHandler.SyncCrossChainMsg with one message
//	dep <h> <bks> <sigs>                   cross_chain_manager ONTHandler.MakeDepositProposal up to the side-chain lookup
//	state                                  key heights, peer sets, stored header / message heights
//
// cfg: "-" (no new chain config), "!" (consensus payload that is not JSON), or a comma list of key indices.
type ontFam struct {
	db     *storage.CacheDB
	stream string
	seenH  map[uint32]bool
}

const ontChainID = 3

func init() {
	families["ontmsg"] = func() hx.Family { return &ontFam{stream: "msg"} }
	families["onthdr"] = func() hx.Family { return &ontFam{stream: "hdr"} }
}

type ontKey struct {
	pri    keypair.PrivateKey
	pub    keypair.PublicKey
	id     string
	scheme osig.SignatureScheme
}

const ontPool = 16

var ontKeys = func() []ontKey {
	ks := make([]ontKey, ontPool)
	for i := range ks {
		d := sha256.Sum256([]byte(fmt.Sprintf("polyverif-ont-key-%d", i)))
		switch {
		case i == 12: // one Ed25519 key
			k := ed25519.NewKeyFromSeed(d[:])
			ks[i] = ontKey{pri: k, pub: k.Public().(ed25519.PublicKey), scheme: osig.SHA512withEDDSA}
		case i == 13: // one SM2 key
			k := &ec.PrivateKey{Algorithm: ec.SM2, PrivateKey: ec.ConstructPrivateKey(d[:], sm2Curve())}
			ks[i] = ontKey{pri: k, pub: k.Public().(keypair.PublicKey), scheme: osig.SM3withSM2}
		default:
			k := &ec.PrivateKey{Algorithm: ec.ECDSA, PrivateKey: ec.ConstructPrivateKey(d[:], elliptic.P256())}
			ks[i] = ontKey{pri: k, pub: k.Public().(keypair.PublicKey), scheme: osig.SHA256withECDSA}
		}
		ks[i].id = vconfig.PubkeyID(ks[i].pub)
	}
	return ks
}()

func sm2Curve() elliptic.Curve {
	c, err := keypair.GetCurve(keypair.SM2P256V1)
	if err != nil {
		panic(err)
	}
	return c
}

func (f *ontFam) Reset(r *hx.Run) {
	f.db = newCacheDB()
	f.seenH = map[uint32]bool{}
	putSideChain(f.db, ontChainID, 3, make([]byte, 20), nil)
}

func parseIdx(s string) ([]int, bool) {
	if s == "-" {
		return nil, true
	}
	var out []int
	for _, p := range strings.Split(s, ",") {
		v, err := strconv.Atoi(p)
		if err != nil || v < 0 || v >= ontPool {
			return nil, false
		}
		out = append(out, v)
	}
	return out, true
}

type sigSpec struct {
	kind byte // g w x
	key  int
}

func parseSigs(s string) ([]sigSpec, bool) {
	if s == "-" {
		return nil, true
	}
	var out []sigSpec
	for _, p := range strings.Split(s, ",") {
		if p == "x" {
			out = append(out, sigSpec{kind: 'x'})
			continue
		}
		if len(p) < 2 || (p[0] != 'g' && p[0] != 'w') {
			return nil, false
		}
		v, err := strconv.Atoi(p[1:])
		if err != nil || v < 0 || v >= ontPool {
			return nil, false
		}
		out = append(out, sigSpec{kind: p[0], key: v})
	}
	return out, true
}

func ontSign(k ontKey, data []byte) []byte {
	sg, err := osig.Sign(k.scheme, k.pri, data, nil)
	if err != nil {
		panic(err)
	}
	b, err := osig.Serialize(sg)
	if err != nil {
		panic(err)
	}
	return b
}

func ontMakeSigs(specs []sigSpec, data []byte) [][]byte {
	var out [][]byte
	for _, sp := range specs {
		switch sp.kind {
		case 'g':
			out = append(out, ontSign(ontKeys[sp.key], data))
		case 'w':
			other := sha256.Sum256(append([]byte("other"), data...))
			out = append(out, ontSign(ontKeys[sp.key], other[:]))
		default:
			out = append(out, []byte{0x7f})
		}
	}
	return out
}

func ontPayload(cfg string) ([]byte, bool) {
	if cfg == "!" {
		return []byte("not json"), true
	}
	info := &vconfig.VbftBlockInfo{Proposer: 1, LastConfigBlockNum: 0}
	if cfg != "-" {
		idx, ok := parseIdx(cfg)
		if !ok {
			return nil, false
		}
		cc := &vconfig.ChainConfig{Version: 1, View: 1, N: uint32(len(idx)), C: uint32((len(idx) - 1) / 3)}
		for j, i := range idx {
			cc.Peers = append(cc.Peers, &vconfig.PeerConfig{Index: uint32(j + 1), ID: ontKeys[i].id})
		}
		info.NewChainConfig = cc
	}
	b, err := json.Marshal(info)
	if err != nil {
		panic(err)
	}
	return b, true
}

func ontHeader(h uint32, nonce uint64, payload []byte) *otypes.Header {
	return &otypes.Header{Version: 0, Height: h, Timestamp: 1600000000 + h, ConsensusData: nonce, ConsensusPayload: payload}
}

func ontErrClass(err error) string {
	if err == nil {
		return "ok"
	}
	m := err.Error()
	switch {
	case strings.Contains(m, "findKeyHeight"):
		return "reject:nokeyheight"
	case strings.Contains(m, "get ConsensusPeer error"):
		return "reject:nopeers"
	case strings.Contains(m, "must more than 2/3"):
		return "reject:few"
	case strings.Contains(m, "invalid pubkey"):
		return "reject:badkey"
	case strings.Contains(m, "VerifyMultiSignature error"):
		return "reject:sig"
	case strings.Contains(m, "had been initialized"):
		return "reject:initialized"
	case strings.Contains(m, "unmarshal blockInfo"):
		return "reject:payload"
	case strings.Contains(m, "GetSideChain") || strings.Contains(m, "VerifyOntTx error"):
		return "verified"
	}
	return "reject:other:" + strings.ReplaceAll(m, " ", "_")
}

// trackedAt reads the peer set the store holds for the greatest key height below h (independent of the handler:
// raw CacheDB reads + the exported decoders).
func (f *ontFam) trackedAt(h uint32) (map[string]bool, bool) {
	ns := newNative(f.db, nil)
	khs, err := ont.GetKeyHeights(ns, ontChainID)
	if err != nil {
		return nil, false
	}
	// the property's own choice: the greatest recorded key height strictly below h
	best, found := uint32(0), false
	for _, v := range khs.HeightList {
		if v < h && (!found || v > best) {
			best, found = v, true
		}
	}
	if !found {
		return nil, false
	}
	peers, ok := f.peersAt(best)
	return peers, ok
}

// anyHeader: is a header stored for any height touched in this case?
func (f *ontFam) anyHeader() (uint32, bool) {
	ns := newNative(f.db, nil)
	for h := range f.seenH {
		if _, err := ont.GetHeaderByHeight(ns, ontChainID, h); err == nil {
			return h, true
		}
	}
	return 0, false
}

func (f *ontFam) peersAt(kh uint32) (map[string]bool, bool) {
	raw, err := f.db.Get(utils.ConcatKey(utils.HeaderSyncContractAddress, []byte(hscommon.CONSENSUS_PEER),
		utils.GetUint64Bytes(ontChainID), utils.GetUint32Bytes(kh)))
	if err != nil || raw == nil {
		return nil, false
	}
	b, err := cstates.GetValueFromRawStorageItem(raw)
	if err != nil {
		return nil, false
	}
	cp := new(ont.ConsensusPeers)
	if err := cp.Deserialization(common.NewZeroCopySource(b)); err != nil {
		return nil, false
	}
	out := map[string]bool{}
	for id := range cp.PeerMap {
		out[id] = true
	}
	return out, true
}

// distinctValid counts the distinct listed keys that are tracked and for which some submitted signature verifies.
func distinctValid(tracked map[string]bool, bks []int, sigs [][]byte, data []byte) int {
	seen := map[string]bool{}
	for _, i := range bks {
		k := ontKeys[i]
		if !tracked[k.id] || seen[k.id] {
			continue
		}
		for _, sb := range sigs {
			sg, err := osig.Deserialize(sb)
			if err != nil {
				continue
			}
			if osig.Verify(k.pub, data, sg) {
				seen[k.id] = true
				break
			}
		}
	}
	return len(seen)
}

func (f *ontFam) quorumOracle(r *hx.Run, what string, h uint32, tracked map[string]bool, haveTracked bool, bks []int, sigs [][]byte, data []byte) {
	if !haveTracked {
		r.Viol("C24:"+what+":accepted-without-tracked-set", fmt.Sprintf("%s at height %d accepted although no peer set is recorded below it", what, h))
		return
	}
	d := distinctValid(tracked, bks, sigs, data)
	if 3*d < len(tracked) {
		prop := "C24"
		if what == "ont-header" {
			prop = "C31"
		}
		r.Viol(fmt.Sprintf("%s:%s:accepted-below-distinct-quorum", prop, what),
			fmt.Sprintf("%s at height %d accepted with %d distinct tracked validly-signing keys (listed %d) of a tracked set of %d; required 3*distinct >= tracked",
				what, h, d, len(bks), len(tracked)))
	}
}

func (f *ontFam) Exec(r *hx.Run, op []string) string {
	switch op[0] {
	case "genesis":
		if len(op) != 3 {
			return "bad-op"
		}
		h64, err := strconv.ParseUint(op[1], 10, 32)
		payload, ok := ontPayload(op[2])
		if err != nil || !ok {
			return "bad-op"
		}
		hd := ontHeader(uint32(h64), 0xffff, payload)
		hs := ocommon.NewZeroCopySink(nil)
		hd.Serialization(hs)
		p := &hscommon.SyncGenesisHeaderParam{ChainID: ontChainID, GenesisHeader: hs.Bytes()}
		ps := common.NewZeroCopySink(nil)
		p.Serialization(ps)
		if err := ont.NewONTHandler().SyncGenesisHeader(newNativeAnon(f.db, ps.Bytes())); err == nil {
			r.Viol("C24:ont-genesis-without-operator-witness", "SyncGenesisHeader accepted a transaction that is not witnessed by the consensus operator")
		}
		f.seenH[uint32(h64)] = true
		_, hadAny := f.anyHeader()
		res := ontErrClass(ont.NewONTHandler().SyncGenesisHeader(newNative(f.db, ps.Bytes())))
		if res == "ok" && hadAny {
			r.Viol("C31:ont-genesis:second-genesis-accepted", "SyncGenesisHeader installed a header / peer set although headers were already stored")
		}
		return res
	case "hdr":
		if len(op) != 6 {
			return "bad-op"
		}
		h64, err1 := strconv.ParseUint(op[1], 10, 32)
		nonce, err2 := strconv.ParseUint(op[2], 10, 64)
		payload, ok1 := ontPayload(op[3])
		bks, wire, ok2 := parseBks(op[4])
		specs, ok3 := parseSigs(op[5])
		if err1 != nil || err2 != nil || !ok1 || !ok2 || !ok3 {
			return "bad-op"
		}
		h := uint32(h64)
		hd := ontHeader(h, nonce, payload)
		hash := hd.Hash()
		hd.SigData = ontMakeSigs(specs, hash[:])
		p := &hscommon.SyncBlockHeaderParam{ChainID: ontChainID, Headers: [][]byte{ontHeaderWire(hd, wire)}}
		ps := common.NewZeroCopySink(nil)
		p.Serialization(ps)
		ns := newNative(f.db, ps.Bytes())
		_, errStored := ont.GetHeaderByHeight(ns, ontChainID, h)
		tracked, have := f.trackedAt(h)
		err := ont.NewONTHandler().SyncBlockHeader(ns)
		f.seenH[h] = true
		if errStored == nil {
			if err != nil {
				return "skip-BUT-" + ontErrClass(err)
			}
			return "skip"
		}
		res := ontErrClass(err)
		_, errNow := ont.GetHeaderByHeight(ns, ontChainID, h)
		if res == "ok" || res == "reject:payload" {
			// the header was stored: it must have met the quorum of the set tracked before the call
			if errNow != nil {
				return res + " NOT-STORED"
			}
			f.quorumOracle(r, "ont-header", h, tracked, have, bks, hd.SigData, hash[:])
		} else if errNow == nil {
			r.Viol("C31:ont-header:stored-although-rejected", fmt.Sprintf("header %d rejected (%s) but present in the store", h, res))
		}
		return res
	case "hbatch":
		// several headers in ONE SyncBlockHeader call: hbatch <h>/<nonce>/<cfg>/<bks>/<sigs> [| ...]
		p := &hscommon.SyncBlockHeaderParam{ChainID: ontChainID}
		var heights []uint32
		var prevHash ocommon.Uint256
		for _, tok := range op[1:] {
			if tok == "|" {
				continue
			}
			q := strings.Split(tok, "/")
			if len(q) != 5 {
				return "bad-op"
			}
			h64, err1 := strconv.ParseUint(q[0], 10, 32)
			nonce, err2 := strconv.ParseUint(q[1], 10, 64)
			payload, ok1 := ontPayload(q[2])
			_, wire, ok2 := parseBks(q[3])
			specs, ok3 := parseSigs(q[4])
			if err1 != nil || err2 != nil || !ok1 || !ok2 || !ok3 {
				return "bad-op"
			}
			hd := ontHeader(uint32(h64), nonce, payload)
			hd.PrevBlockHash = prevHash // the headers of a batch are hash-linked
			hash := hd.Hash()
			prevHash = hash
			hd.SigData = ontMakeSigs(specs, hash[:])
			p.Headers = append(p.Headers, ontHeaderWire(hd, wire))
			heights = append(heights, uint32(h64))
			f.seenH[uint32(h64)] = true
		}
		ps := common.NewZeroCopySink(nil)
		p.Serialization(ps)
		ns := newNative(f.db, ps.Bytes())
		res := ontErrClass(ont.NewONTHandler().SyncBlockHeader(ns))
		var stored []int
		seen := map[uint32]bool{}
		for _, h := range heights {
			if seen[h] {
				continue
			}
			seen[h] = true
			if _, err := ont.GetHeaderByHeight(ns, ontChainID, h); err == nil {
				stored = append(stored, int(h))
			}
		}
		sort.Ints(stored)
		return res + " stored=" + joinInts(stored)
	case "msg", "dep":
		if len(op) != 4 {
			return "bad-op"
		}
		h64, err1 := strconv.ParseUint(op[1], 10, 32)
		bks, wire, ok2 := parseBks(op[2])
		specs, ok3 := parseSigs(op[3])
		if err1 != nil || !ok2 || !ok3 {
			return "bad-op"
		}
		h := uint32(h64)
		f.seenH[h] = true
		msg := &otypes.CrossChainMsg{Version: 0, Height: h}
		root := sha256.Sum256([]byte(fmt.Sprintf("root-%d", h)))
		copy(msg.StatesRoot[:], root[:])
		hash := msg.Hash()
		msg.SigData = ontMakeSigs(specs, hash[:])
		sink := ocommon.NewZeroCopySink(nil)
		msg.Serialization(sink)
		sink.WriteVarUint(uint64(len(wire)))
		for _, w := range wire {
			sink.WriteVarBytes(w)
		}
		nsq := newNative(f.db, nil)
		_, errStored := ont.GetCrossChainMsg(nsq, ontChainID, h)
		tracked, have := f.trackedAt(h)
		var res string
		if op[0] == "msg" {
			p := &hscommon.SyncCrossChainMsgParam{ChainID: ontChainID, CrossChainMsgs: [][]byte{sink.Bytes()}}
			ps := common.NewZeroCopySink(nil)
			p.Serialization(ps)
			ns := newNative(f.db, ps.Bytes())
			err := ont.NewONTHandler().SyncCrossChainMsg(ns)
			if errStored == nil {
				if err != nil {
					return "skip-BUT-" + ontErrClass(err)
				}
				return "skip"
			}
			res = ontErrClass(err)
		} else {
			p := &ccmcom.EntranceParam{SourceChainID: ontChainID, Height: h, Proof: []byte{}, RelayerAddress: []byte{}, Extra: []byte{},
				HeaderOrCrossChainMsg: sink.Bytes()}
			ps := common.NewZeroCopySink(nil)
			p.Serialization(ps)
			ns := newNative(f.db, ps.Bytes())
			_, err := ccmont.NewONTHandler().MakeDepositProposal(ns)
			res = ontErrClass(err)
			if errStored == nil {
				return "stored-" + res
			}
		}
		_, errNow := ont.GetCrossChainMsg(nsq, ontChainID, h)
		if res == "ok" || res == "verified" {
			if errNow != nil {
				return res + " NOT-STORED"
			}
			f.quorumOracle(r, "ont-msg", h, tracked, have, bks, msg.SigData, hash[:])
		} else if errNow == nil {
			r.Viol("C24:ont-msg:stored-although-rejected", fmt.Sprintf("message %d rejected (%s) but present in the store", h, res))
		}
		return res
	case "state":
		ns := newNative(f.db, nil)
		khs, err := ont.GetKeyHeights(ns, ontChainID)
		if err != nil {
			return "err"
		}
		var sb strings.Builder
		sb.WriteString("kh=")
		for i, k := range khs.HeightList {
			if i > 0 {
				sb.WriteString(",")
			}
			fmt.Fprintf(&sb, "%d", k)
		}
		if len(khs.HeightList) == 0 {
			sb.WriteString("-")
		}
		seen := map[uint32]bool{}
		var ks []uint32
		for _, k := range khs.HeightList {
			if !seen[k] {
				seen[k] = true
				ks = append(ks, k)
			}
		}
		sort.Slice(ks, func(i, j int) bool { return ks[i] < ks[j] })
		for _, k := range ks {
			peers, ok := f.peersAt(k)
			if !ok {
				fmt.Fprintf(&sb, " p%d=?", k)
				continue
			}
			var idx []int
			for i, key := range ontKeys {
				if peers[key.id] {
					idx = append(idx, i)
					delete(peers, key.id)
				}
			}
			fmt.Fprintf(&sb, " p%d=%s", k, joinInts(idx))
			if len(peers) != 0 {
				sb.WriteString("+unknown")
			}
		}
		var hs, ms []int
		var all []uint32
		for h := range f.seenH {
			all = append(all, h)
		}
		sort.Slice(all, func(i, j int) bool { return all[i] < all[j] })
		for _, h := range all {
			if _, err := ont.GetHeaderByHeight(ns, ontChainID, h); err == nil {
				hs = append(hs, int(h))
			}
			if _, err := ont.GetCrossChainMsg(ns, ontChainID, h); err == nil {
				ms = append(ms, int(h))
			}
		}
		fmt.Fprintf(&sb, " hdrs=%s msgs=%s", joinInts(hs), joinInts(ms))
		return sb.String()
	}
	return "bad-op"
}

func joinInts(a []int) string {
	if len(a) == 0 {
		return "-"
	}
	s := make([]string, len(a))
	for i, v := range a {
		s[i] = strconv.Itoa(v)
	}
	return strings.Join(s, ",")
}

// ---- generators ----

func ceilThird(n int) int { return (n + 2) / 3 }

// A signer reference is a pool index plus a wire encoding of the SAME public key (index + encStep*code):
// code 0 canonical (33-byte compressed), 1 "a" = 0x12|curve|compressed, 2 "u" = 0x04|X|Y, 3 "v" = 0x12|curve|0x04|X|Y,
// 4 "t" = compressed followed by one surplus byte. All of them decode to the same key (same PubkeyID).
const encStep = 100

var encLetters = []string{"", "a", "u", "v", "t"}

func idxList(a []int) string {
	if len(a) == 0 {
		return "-"
	}
	s := make([]string, len(a))
	for i, v := range a {
		s[i] = strconv.Itoa(v%encStep) + encLetters[v/encStep]
	}
	return strings.Join(s, ",")
}

// ontWireKey returns the requested wire form of pool key i (only P-256 ECDSA keys have alternative forms).
func ontWireKey(i int, code int) ([]byte, bool) {
	canon := keypair.SerializePublicKey(ontKeys[i].pub)
	if code == 0 {
		return canon, true
	}
	pk, ok := ontKeys[i].pub.(*ec.PublicKey)
	if !ok || pk.Algorithm != ec.ECDSA || len(canon) != 33 {
		return nil, false
	}
	unc := ec.EncodePublicKey(pk.PublicKey, false)
	switch code {
	case 1:
		return append([]byte{byte(keypair.PK_ECDSA), keypair.P256}, canon...), true
	case 2:
		return unc, true
	case 3:
		return append([]byte{byte(keypair.PK_ECDSA), keypair.P256}, unc...), true
	case 4:
		return append(append([]byte{}, canon...), 0x00), true
	}
	return nil, false
}

// parseBks parses a signer list with optional encoding letters: pool indices and wire forms.
func parseBks(s string) ([]int, [][]byte, bool) {
	if s == "-" {
		return nil, nil, true
	}
	var idx []int
	var wire [][]byte
	for _, p := range strings.Split(s, ",") {
		code := 0
		if n := len(p); n > 1 {
			for c, l := range encLetters {
				if c > 0 && p[n-1:] == l {
					code, p = c, p[:n-1]
				}
			}
		}
		v, err := strconv.Atoi(p)
		if err != nil || v < 0 || v >= ontPool {
			return nil, nil, false
		}
		w, ok := ontWireKey(v, code)
		if !ok {
			return nil, nil, false
		}
		idx = append(idx, v)
		wire = append(wire, w)
	}
	return idx, wire, true
}

// ontHeaderWire serializes a header with the signer keys in the given wire forms.
func ontHeaderWire(hd *otypes.Header, wire [][]byte) []byte {
	h0 := *hd
	h0.Bookkeepers, h0.SigData = nil, nil
	s0 := ocommon.NewZeroCopySink(nil)
	h0.Serialization(s0)
	b := s0.Bytes()
	sink := ocommon.NewZeroCopySink(nil)
	sink.WriteBytes(b[:len(b)-2]) // the unsigned part (the two trailing bytes are the empty key and signature counts)
	sink.WriteVarUint(uint64(len(wire)))
	for _, w := range wire {
		sink.WriteVarBytes(w)
	}
	sink.WriteVarUint(uint64(len(hd.SigData)))
	for _, sg := range hd.SigData {
		sink.WriteVarBytes(sg)
	}
	return sink.Bytes()
}

func goodSigs(bks []int) string {
	if len(bks) == 0 {
		return "-"
	}
	s := make([]string, len(bks))
	for i, k := range bks {
		s[i] = "g" + strconv.Itoa(k%encStep)
	}
	return strings.Join(s, ",")
}

// pickSubset returns k distinct elements of from (k <= len(from)) in random order.
func pickSubset(r *hx.Run, from []int, k int) []int {
	p := r.Rng.Perm(len(from))
	out := make([]int, 0, k)
	for i := 0; i < k && i < len(from); i++ {
		out = append(out, from[p[i]])
	}
	return out
}

// signerShape produces one (bookkeepers, sigs, label) for a tracked set; the shapes cover the quantifier of C24/C31:
// subsets at/below/above the bound, duplicates, foreign keys, invalid signatures, missing and surplus signatures.
func signerShape(r *hx.Run, tracked []int, shape int) (bks []int, sigs string, label string) {
	n := len(tracked)
	q := ceilThird(n)
	var foreign []int
	in := map[int]bool{}
	for _, t := range tracked {
		in[t] = true
	}
	for i := 0; i < ontPool; i++ {
		if !in[i] {
			foreign = append(foreign, i)
		}
	}
	switch shape {
	case 0: // exactly the bound, distinct, genuine
		bks = pickSubset(r, tracked, q)
		return bks, goodSigs(bks), "exact"
	case 1: // one below the bound
		bks = pickSubset(r, tracked, q-1)
		return bks, goodSigs(bks), "below"
	case 2: // random size at or above the bound
		k := q + r.Rng.Intn(n-q+1)
		bks = pickSubset(r, tracked, k)
		return bks, goodSigs(bks), "above"
	case 3: // one key repeated up to the bound, the same genuine signature each time
		k := tracked[r.Rng.Intn(n)]
		for i := 0; i < q; i++ {
			bks = append(bks, k)
		}
		return bks, goodSigs(bks), "dup-single"
	case 4: // fewer distinct keys than the bound, padded with repeats
		d := 1 + r.Rng.Intn(q)
		if d >= q && q > 1 {
			d = q - 1
		}
		base := pickSubset(r, tracked, d)
		bks = append(bks, base...)
		for len(bks) < q+r.Rng.Intn(2) {
			bks = append(bks, base[r.Rng.Intn(len(base))])
		}
		return bks, goodSigs(bks), "dup-pad"
	case 5: // enough distinct keys plus a repeat (still a quorum of distinct signers)
		bks = pickSubset(r, tracked, q)
		bks = append(bks, bks[r.Rng.Intn(len(bks))])
		return bks, goodSigs(bks), "dup-extra"
	case 6: // a foreign key among the signers
		if len(foreign) == 0 {
			return signerShape(r, tracked, 0)
		}
		bks = pickSubset(r, tracked, q)
		bks[r.Rng.Intn(len(bks))] = foreign[r.Rng.Intn(len(foreign))]
		return bks, goodSigs(bks), "foreign"
	case 7: // only foreign keys
		if len(foreign) < q {
			return signerShape(r, tracked, 0)
		}
		bks = pickSubset(r, foreign, q)
		return bks, goodSigs(bks), "all-foreign"
	case 8: // one signature over another message
		bks = pickSubset(r, tracked, q+r.Rng.Intn(n-q+1))
		s := strings.Split(goodSigs(bks), ",")
		j := r.Rng.Intn(len(s))
		s[j] = "w" + s[j][1:]
		return bks, strings.Join(s, ","), "wrongmsg"
	case 9: // one signature is garbage
		bks = pickSubset(r, tracked, q+r.Rng.Intn(n-q+1))
		s := strings.Split(goodSigs(bks), ",")
		s[r.Rng.Intn(len(s))] = "x"
		return bks, strings.Join(s, ","), "garbage"
	case 10: // one signature missing
		bks = pickSubset(r, tracked, q+r.Rng.Intn(n-q+1))
		s := strings.Split(goodSigs(bks), ",")
		s = s[:len(s)-1]
		if len(s) == 0 {
			return bks, "-", "missing"
		}
		return bks, strings.Join(s, ","), "missing"
	case 11: // signatures in another order than the keys, plus a surplus signature
		bks = pickSubset(r, tracked, q+r.Rng.Intn(n-q+1))
		p := r.Rng.Perm(len(bks))
		s := make([]string, 0, len(bks)+1)
		for _, j := range p {
			s = append(s, "g"+strconv.Itoa(bks[j]))
		}
		s = append(s, "x")
		return bks, strings.Join(s, ","), "permuted"
	case 12: // a signer signs twice, another listed signer not at all
		bks = pickSubset(r, tracked, q+r.Rng.Intn(n-q+1))
		if len(bks) < 2 {
			return signerShape(r, tracked, 3)
		}
		s := strings.Split(goodSigs(bks), ",")
		s[1] = s[0]
		return bks, strings.Join(s, ","), "sig-twice"
	case 13: // signature of an unlisted tracked key
		bks = pickSubset(r, tracked, q)
		s := strings.Split(goodSigs(bks), ",")
		s[0] = "g" + strconv.Itoa(tracked[r.Rng.Intn(n)])
		return bks, strings.Join(s, ","), "sig-unlisted"
	case 14: // empty list
		return nil, "-", "empty"
	case 15: // ONE tracked key listed up to the bound under different wire encodings, its signature each time
		var p256 []int
		for _, t := range tracked {
			if t != 12 && t != 13 {
				p256 = append(p256, t)
			}
		}
		if len(p256) == 0 {
			return signerShape(r, tracked, 3)
		}
		k := p256[r.Rng.Intn(len(p256))]
		codes := r.Rng.Perm(len(encLetters))
		for i := 0; i < q; i++ {
			bks = append(bks, k+encStep*codes[i%len(codes)])
		}
		if q < 2 {
			return bks, goodSigs(bks), "alt-encoding-single"
		}
		return bks, goodSigs(bks), "dup-encodings"
	default: // a genuine distinct quorum whose keys arrive in alternative wire encodings
		bks = pickSubset(r, tracked, q+r.Rng.Intn(n-q+1))
		for i, k := range bks {
			if k != 12 && k != 13 {
				bks[i] = k + encStep*r.Rng.Intn(len(encLetters))
			}
		}
		return bks, goodSigs(bks), "alt-encodings-distinct"
	}
}

const nShapes = 17

func (f *ontFam) Gen(r *hx.Run) {
	if f.stream == "msg" {
		f.genMsg(r)
	} else {
		f.genHdr(r)
	}
}

func (f *ontFam) genMsg(r *hx.Run) {
	r.Rule("ONT cross-chain messages over tracked sets of 1..10 keys (every size, several per size) x 17 signer-list shapes " +
		"(exact/below/above bound, repeated keys, foreign keys, wrong-message / garbage / missing / permuted / repeated signatures, empty), " +
		"through header_sync SyncCrossChainMsg and cross_chain_manager MakeDepositProposal, with one or two key heights; plus three-epoch cases with " +
		"pairwise disjoint peer sets whose key headers arrive in both insertion orders (ascending / newer first, older back-filled) and every epoch " +
		"probed with signers of every epoch; " +
		"distinct non-trivial = (tracked size, shape, entry point, outcome)")
	rounds := r.Pick(6, 120)
	id := 0
	for k := 0; k < r.Pick(12, 240); k++ {
		f.genMsgEpochs(r, k)
	}
	for round := 0; round < rounds; round++ {
		for n := 1; n <= 10; n++ {
			id++
			r.Case(fmt.Sprintf("ontmsg-%d-%d", n, id))
			pool := r.Rng.Perm(ontPool)
			tracked := pool[:n]
			g := uint32(r.Rng.Intn(5))
			r.Do(fmt.Sprintf("genesis %d %s", g, idxList(tracked)))
			// optionally a second, different set at a higher key height
			var tracked2 []int
			g2 := g + 20 + uint32(r.Rng.Intn(5))
			if r.Rng.Chance(1, 3) {
				n2 := 1 + r.Rng.Intn(10)
				tracked2 = r.Rng.Perm(ontPool)[:n2]
				// the second epoch is installed by a configuration-changing header signed by the first epoch's set
				b0, s0, _ := signerShape(r, tracked, 2)
				r.Do(fmt.Sprintf("hdr %d 1 %s %s %s", g2, idxList(tracked2), idxList(b0), s0))
			}
			h := g
			for shape := 0; shape < nShapes; shape++ {
				for rep := 0; rep < 2; rep++ {
					var cur []int
					if rep == 0 || tracked2 == nil {
						h = g + 1 + uint32(r.Rng.Intn(int(g2-g)))
						cur = tracked
					} else {
						h = g2 + 1 + uint32(r.Rng.Intn(30))
						cur = tracked2
					}
					if shape == 14 && rep == 1 {
						h = g // not above any key height
					}
					bks, sigs, label := signerShape(r, cur, shape)
					entry := "msg"
					if r.Rng.Chance(1, 3) {
						entry = "dep"
					}
					res := r.Do(fmt.Sprintf("%s %d %s %s", entry, h, idxList(bks), sigs))
					r.Nontrivial(fmt.Sprintf("%d/%s/%s/%s", len(cur), label, entry, res))
					r.Hist("shape." + label)
					r.Hist("outcome." + strings.SplitN(res, ":", 3)[0] + ":" + lastPart(res))
					if id%41 == 1 && shape == 3 {
						r.Sample(map[string]interface{}{"tracked": cur, "shape": label, "bookkeepers": bks, "sigs": sigs, "height": h, "outcome": res})
					}
				}
			}
			if tracked2 != nil { // exactly at the second key height: still the first epoch's set
				b2, s2, _ := signerShape(r, tracked2, 2)
				res := r.Do(fmt.Sprintf("msg %d %s %s", g2, idxList(b2), s2))
				r.Nontrivial(fmt.Sprintf("%d/at-keyheight-new-set/msg/%s", len(tracked2), res))
				b1, s1, _ := signerShape(r, tracked, 2)
				res = r.Do(fmt.Sprintf("msg %d %s %s", g2, idxList(b1), s1))
				r.Nontrivial(fmt.Sprintf("%d/at-keyheight-old-set/msg/%s", len(tracked), res))
			}
			// replay of a stored height: must be skipped whatever the signer list is
			r.Do(fmt.Sprintf("msg %d - -", h))
			r.Do("state")
		}
	}
}

// genMsgEpochs: three epochs with pairwise DISJOINT peer sets whose key headers are synced in every insertion order
// (ascending, newer first with the older one back-filled, ...), then every epoch is probed with messages signed by
// the members of every epoch (only the epoch's own set may pass).
func (f *ontFam) genMsgEpochs(r *hx.Run, id int) {
	perm := r.Rng.Perm(ontPool)
	sizes := []int{1 + r.Rng.Intn(5), 1 + r.Rng.Intn(5), 1 + r.Rng.Intn(5)}
	sets := [][]int{perm[:sizes[0]], perm[5 : 5+sizes[1]], perm[10 : 10+sizes[2]]}
	g := uint32(1 + r.Rng.Intn(5))
	h1 := g + 10 + uint32(r.Rng.Intn(5))
	h2 := h1 + 10 + uint32(r.Rng.Intn(5))
	khs := []uint32{g, h1, h2}
	order := [][]int{{1, 2}, {2, 1}}[id%2] // insertion order of the two later key headers
	r.Case(fmt.Sprintf("ontmsg-epochs-%d-%d%d", id, order[0], order[1]))
	r.Do(fmt.Sprintf("genesis %d %s", g, idxList(sets[0])))
	nonce := 0
	for _, e := range order {
		// both later key headers are authorised by the genesis set when they arrive out of order; in ascending order the
		// second one must be signed by the first one's set
		signer := sets[0]
		if e == 2 && order[0] == 1 {
			signer = sets[1]
		}
		b, sg, _ := signerShape(r, signer, 2)
		nonce++
		res := r.Do(fmt.Sprintf("hdr %d %d %s %s %s", khs[e], nonce, idxList(sets[e]), idxList(b), sg))
		r.Nontrivial(fmt.Sprintf("epochs/key-header/%d%d/%s", order[0], order[1], res))
	}
	r.Do("state")
	used := map[uint32]bool{}
	for ep := 0; ep < 3; ep++ {
		lo, hi := khs[ep]+1, khs[ep]+9
		for by := 0; by < 3; by++ {
			for _, shape := range []int{0, 2} {
				h := lo + uint32(r.Rng.Intn(int(hi-lo+1)))
				for used[h] {
					h = lo + uint32(r.Rng.Intn(int(hi-lo+1)))
				}
				b, sg, _ := signerShape(r, sets[by], shape)
				entry := "msg"
				if r.Rng.Chance(1, 3) {
					entry = "dep"
				}
				res := r.Do(fmt.Sprintf("%s %d %s %s", entry, h, idxList(b), sg))
				if res == "ok" || res == "verified" {
					used[h] = true
				}
				r.Nontrivial(fmt.Sprintf("epochs/%d%d/epoch%d-signed-by%d/%s", order[0], order[1], ep, by, res))
				r.Hist(fmt.Sprintf("epochs.%s", map[bool]string{true: "own-set", false: "other-epoch-set"}[ep == by]))
				r.Hist("outcome." + lastPart(res))
			}
		}
	}
	// exactly at the later key heights: still the epoch below
	for _, e := range []int{1, 2} {
		b, sg, _ := signerShape(r, sets[e], 2)
		r.Do(fmt.Sprintf("msg %d %s %s", khs[e], idxList(b), sg))
		b, sg, _ = signerShape(r, sets[e-1], 2)
		r.Do(fmt.Sprintf("msg %d %s %s", khs[e], idxList(b), sg))
	}
}

func lastPart(res string) string {
	p := strings.Split(res, ":")
	return p[len(p)-1]
}

func (f *ontFam) genHdr(r *hx.Run) {
	r.Rule("ONT header-sync histories: genesis peer set of 1..10 keys, then headers in ANY height order: 17 signer-list shapes (incl. one key under several wire encodings) against the " +
		"set in force, configuration-changing headers (new peer sets of 1..10 keys, also with repeated ids) above, between and below existing key " +
		"heights, headers between key heights submitted after the later configuration is recorded, headers signed by the wrong epoch's set, " +
		"stored heights again, heights at/below the lowest key height, non-JSON consensus payload, a second genesis, cross-chain messages " +
		"interleaved; state (key heights, peer sets, stored heights) dumped and compared; distinct non-trivial = (set size, step kind, outcome)")
	rounds := r.Pick(5, 100)
	id := 0
	for round := 0; round < rounds; round++ {
		for n := 1; n <= 10; n++ {
			id++
			r.Case(fmt.Sprintf("onthdr-%d-%d", n, id))
			type epoch struct {
				h   uint32
				set []int
			}
			g := uint32(10 + r.Rng.Intn(10))
			epochs := []epoch{{g, r.Rng.Perm(ontPool)[:n]}}
			r.Do(fmt.Sprintf("genesis %d %s", g, idxList(epochs[0].set)))
			used := map[uint32]bool{g: true}
			nonce := 0
			// the set in force for height h according to the history so far (greatest key height below h)
			inForce := func(h uint32) ([]int, bool) {
				best := -1
				for i, e := range epochs {
					if e.h < h && (best < 0 || e.h > epochs[best].h || (e.h == epochs[best].h && i > best)) {
						best = i
					}
				}
				if best < 0 {
					return nil, false
				}
				return epochs[best].set, true
			}
			fresh := func(lo, hi uint32) uint32 {
				for k := 0; k < 50; k++ {
					h := lo + uint32(r.Rng.Intn(int(hi-lo+1)))
					if !used[h] {
						return h
					}
				}
				return hi + 1 + uint32(r.Rng.Intn(1000))
			}
			top := func() uint32 {
				m := uint32(0)
				for _, e := range epochs {
					if e.h > m {
						m = e.h
					}
				}
				return m
			}
			rec := func(label, res string, sz int) {
				r.Nontrivial(fmt.Sprintf("%d/%s/%s", sz, label, res))
				r.Hist("step." + label)
				r.Hist("outcome." + res)
			}
			hdr := func(h uint32, cfg string, bks []int, sigs string) string {
				nonce++
				res := r.Do(fmt.Sprintf("hdr %d %d %s %s %s", h, nonce, cfg, idxList(bks), sigs))
				if res == "ok" || res == "reject:payload" {
					used[h] = true
				}
				return res
			}
			for step := 0; step < nShapes+14; step++ {
				switch {
				case step < nShapes: // every signer shape against the set in force at a fresh height anywhere above genesis
					h := fresh(g+1, top()+40)
					set, _ := inForce(h)
					bks, sigs, label := signerShape(r, set, step)
					rec("shape-"+label, hdr(h, "-", bks, sigs), len(set))
				case step == nShapes || step == nShapes+6: // configuration change above every key height
					h := fresh(top()+1, top()+30)
					set, _ := inForce(h)
					bks, sigs, _ := signerShape(r, set, 2)
					ns := r.Rng.Perm(ontPool)[:1+r.Rng.Intn(10)]
					cfg := idxList(ns)
					if r.Rng.Chance(1, 4) { // repeated id in the configuration
						cfg = cfg + "," + strconv.Itoa(ns[0])
					}
					res := hdr(h, cfg, bks, sigs)
					rec("config-above", res, len(set))
					if res == "ok" {
						epochs = append(epochs, epoch{h, ns})
					}
				case step == nShapes+1: // header for the new epoch signed by the OLD set
					h := fresh(top()+1, top()+20)
					old := epochs[0].set
					bks, sigs, _ := signerShape(r, old, 2)
					rec("old-set-after-change", hdr(h, "-", bks, sigs), len(old))
				case step == nShapes+2 || step == nShapes+8: // configuration change BETWEEN existing key heights (out of order)
					if top() <= g+2 {
						continue
					}
					h := fresh(g+1, top()-1)
					set, _ := inForce(h)
					bks, sigs, _ := signerShape(r, set, 2)
					ns := r.Rng.Perm(ontPool)[:1+r.Rng.Intn(10)]
					res := hdr(h, idxList(ns), bks, sigs)
					rec("config-between", res, len(set))
					if res == "ok" {
						epochs = append(epochs, epoch{h, ns})
						// a header (and a message) ABOVE every key height now: the set in force is the one of the greatest key
						// height, not the one recorded last
						ha := fresh(top()+1, top()+20)
						bl, sl, _ := signerShape(r, ns, 2)
						rec("above-all-late-recorded-set", hdr(ha, "-", bl, sl), len(ns))
						hm := fresh(top()+1, top()+20)
						rec("msg-above-all-late-recorded-set", r.Do(fmt.Sprintf("msg %d %s %s", hm, idxList(bl), sl)), len(ns))
						hb := fresh(top()+1, top()+20)
						right, _ := inForce(hb)
						br, sr, _ := signerShape(r, right, 0)
						rec("above-all-right-set", hdr(hb, "-", br, sr), len(right))
					}
				case step == nShapes+3 || step == nShapes+9: // header between key heights, after later configurations are known
					if top() <= g+2 {
						continue
					}
					h := fresh(g+1, top()-1)
					set, _ := inForce(h)
					bks, sigs, _ := signerShape(r, set, 0)
					rec("between-right-set", hdr(h, "-", bks, sigs), len(set))
					// and one signed by the newest set instead
					h2 := fresh(g+1, top()-1)
					newest, _ := inForce(top() + 1)
					bks2, sigs2, _ := signerShape(r, newest, 2)
					rec("between-newest-set", hdr(h2, "-", bks2, sigs2), len(newest))
				case step == nShapes+4: // a stored height again (any content)
					for h := range used {
						rec("stored-again", hdr(h, "-", nil, "-"), 0)
						break
					}
				case step == nShapes+5: // at / below the lowest key height
					lo := g
					for _, e := range epochs {
						if e.h < lo {
							lo = e.h
						}
					}
					set := epochs[0].set
					bks, sigs, _ := signerShape(r, set, 2)
					h := lo - uint32(1+r.Rng.Intn(3))
					if used[h] {
						continue
					}
					rec("below-lowest", hdr(h, "-", bks, sigs), len(set))
				case step == nShapes+7: // consensus payload that is not JSON: verified and stored, then the update fails
					h := fresh(top()+1, top()+20)
					set, _ := inForce(h)
					bks, sigs, _ := signerShape(r, set, 2)
					rec("bad-payload", hdr(h, "!", bks, sigs), len(set))
				case step == nShapes+10: // second genesis (operator): a further key height without any signature check
					h := fresh(g+1, top()+10)
					ns := r.Rng.Perm(ontPool)[:1+r.Rng.Intn(10)]
					res := r.Do(fmt.Sprintf("genesis %d %s", h, idxList(ns)))
					rec("second-genesis", res, len(ns))
					if res == "ok" {
						used[h] = true
						epochs = append(epochs, epoch{h, ns})
					}
				case step == nShapes+11: // cross-chain messages choose their set the same way
					h := fresh(g+1, top()+20)
					set, _ := inForce(h)
					bks, sigs, _ := signerShape(r, set, 0)
					rec("msg-right-set", r.Do(fmt.Sprintf("msg %d %s %s", h, idxList(bks), sigs)), len(set))
					// a message exactly AT a key height belongs to the epoch below it, not to the set recorded there
					if len(epochs) > 1 {
						e := epochs[1+r.Rng.Intn(len(epochs)-1)]
						if below, ok := inForce(e.h); ok {
							at, _ := inForce(e.h + 1)
							b2, s2, _ := signerShape(r, at, 2)
							rec("msg-at-keyheight-new-set", r.Do(fmt.Sprintf("msg %d %s %s", e.h, idxList(b2), s2)), len(at))
							b1, s1, _ := signerShape(r, below, 2)
							rec("msg-at-keyheight-old-set", r.Do(fmt.Sprintf("msg %d %s %s", e.h, idxList(b1), s1)), len(below))
						}
					}
				case step == nShapes+12: // several headers in one call; a configuration change takes effect for the rest of the batch
					h1 := fresh(top()+1, top()+10)
					set1, _ := inForce(h1)
					b1, s1, _ := signerShape(r, set1, 2)
					ns := r.Rng.Perm(ontPool)[:1+r.Rng.Intn(10)]
					h2 := h1 + 1 + uint32(r.Rng.Intn(2))
					b2, s2, _ := signerShape(r, ns, 2) // signed by the set installed by the first header of the batch
					h3 := h2 + 1 + uint32(r.Rng.Intn(2))
					var b3 []int
					var s3, kind string
					switch r.Rng.Intn(4) {
					case 3:
						b3, s3, kind = nil, "-", "third-unsigned" // a hash-linked child without any signer
					case 0:
						b3, s3, _ = signerShape(r, ns, 2)
						kind = "all-good"
					case 1:
						b3, s3, _ = signerShape(r, set1, 2) // old set: refused (unless the sets overlap enough)
						kind = "third-old-set"
					default:
						b3, s3, _ = signerShape(r, ns, 8)
						kind = "third-bad-sig"
					}
					nonce += 3
					res := r.Do(fmt.Sprintf("hbatch %d/%d/%s/%s/%s | %d/%d/-/%s/%s | %d/%d/-/%s/%s", h1, nonce-2, idxList(ns), idxList(b1), s1,
						h2, nonce-1, idxList(b2), s2, h3, nonce, idxList(b3), s3))
					rec("batch-"+kind, strings.Fields(res)[0], len(set1))
					for _, tok := range strings.Split(strings.TrimPrefix(strings.Fields(res)[1], "stored="), ",") {
						if v, err := strconv.Atoi(tok); err == nil {
							used[uint32(v)] = true
							if uint32(v) == h1 {
								epochs = append(epochs, epoch{h1, ns})
							}
						}
					}
				default:
					h := fresh(g+1, top()+20)
					set, _ := inForce(h)
					bks, sigs, label := signerShape(r, set, r.Rng.Intn(nShapes))
					rec("rand-"+label, hdr(h, "-", bks, sigs), len(set))
				}
			}
			st := r.Do("state")
			if id%13 == 1 {
				r.Sample(map[string]interface{}{"epochs": len(epochs), "state": st})
			}
		}
	}
}
