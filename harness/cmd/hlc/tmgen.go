package main

// Generators of the tm* families (C30): epoch chains with signer subsets at / below / above the two-thirds boundary,
// forged / absent / nil-vote / misplaced signatures, malformed commits and validator sets, heights below / at / above
// the tracked one, and batches whose later headers depend on the info advanced by earlier ones.

import (
	"fmt"
	"strings"

	"polyverif/internal/hx"
)

type tmGen struct {
	r      *hx.Run
	f      *tmFam
	rn     string
	ctr    int
	ver    uint64
	chain  string
	height int64   // tracked height as the generator believes it
	cur    []tmVal // validator set the tracked next-hash stands for
	curTag string  // "L" or "N": which hash of cur is tracked
}

func (g *tmGen) heimdall() bool { return g.rn == "heimdall" }

func (g *tmGen) newName() string {
	g.ctr++
	return fmt.Sprintf("h%d", g.ctr)
}

// order: the validators in the order in which the router pairs them with commit slots.
func (g *tmGen) order(vals []tmVal, ver uint64) []tmVal {
	if g.rn == "cosmos" && ver >= 11 {
		return vals
	}
	return tmByAddr(vals)
}

func (g *tmGen) hashOf(vals []tmVal, ver uint64) string {
	if g.rn == "cosmos" && ver >= 11 {
		return "N" + tmValsStr(vals)
	}
	return "L" + tmValsStr(vals)
}

// subsetNear returns the index sets (into ord) with the greatest power <= 2T/3 and with the least power > 2T/3.
func tmSubsetNear(ord []tmVal) (below, above []int) {
	n := len(ord)
	total := tmTotal(ord)
	bestB, bestA := int64(-1), int64(-1)
	for m := 0; m < 1<<uint(n); m++ {
		var p int64
		for i := 0; i < n; i++ {
			if m>>uint(i)&1 == 1 {
				p += ord[i].power
			}
		}
		if 3*p <= 2*total {
			if p > bestB {
				bestB = p
				below = tmBits(m, n)
			}
		} else if bestA < 0 || p < bestA {
			bestA = p
			above = tmBits(m, n)
		}
	}
	return
}

func tmBits(m, n int) []int {
	out := []int{}
	for i := 0; i < n; i++ {
		if m>>uint(i)&1 == 1 {
			out = append(out, i)
		}
	}
	return out
}

func tmIn(set []int, i int) bool {
	for _, v := range set {
		if v == i {
			return true
		}
	}
	return false
}

// slots builds the slot list for ord: members of signers sign for the block, the others get `rest` ("a" or "n").
func tmSlots(ord []tmVal, signers []int, rest byte) []string {
	out := make([]string, len(ord))
	for i, v := range ord {
		switch {
		case tmIn(signers, i):
			out[i] = fmt.Sprintf("g%d", v.key)
		case rest == 'n':
			out[i] = fmt.Sprintf("n%d", v.key)
		default:
			out[i] = "a"
		}
	}
	return out
}

func tmJoin(s []string) string {
	if len(s) == 0 {
		return "-"
	}
	return strings.Join(s, ",")
}

type tmHdrSpec struct {
	ver       uint64
	chain     string
	height    int64
	vh, nvh   string
	app       string
	vals      []tmVal
	nilCommit bool
	cheight   int64
	round     int
	bid       string
	signChain string
	slots     []string
}

func (g *tmGen) def(s *tmHdrSpec) string {
	name := g.newName()
	if s.app == "" {
		s.app = "x0"
	}
	op := fmt.Sprintf("hdr %s %d %s %d %s %s %s %s", name, s.ver, s.chain, s.height, s.vh, s.nvh, s.app, tmValsStr(s.vals))
	if s.nilCommit {
		op += " nil"
	} else {
		op += fmt.Sprintf(" %d %d %s %s %s", s.cheight, s.round, s.bid, s.signChain, tmJoin(s.slots))
	}
	if res := g.r.Do(op); res != "def" {
		g.r.Hist("gen.hdr-not-defined")
	}
	return name
}

// good: a header at height h carrying the currently trusted set, announcing `next`, signed by everybody.
func (g *tmGen) good(h int64, next []tmVal) *tmHdrSpec {
	ord := g.order(g.cur, g.ver)
	all := make([]int, len(ord))
	for i := range all {
		all[i] = i
	}
	return &tmHdrSpec{ver: g.ver, chain: g.chain, height: h, vh: "=", nvh: g.hashOf(next, g.ver), vals: g.cur,
		cheight: h, round: 1, bid: "=", signChain: g.chain, slots: tmSlots(ord, all, 'a')}
}

const tmNShapes = 40

// shape mutates a good header into one of the shapes of the quantifier; returns a label.
func (g *tmGen) shape(s *tmHdrSpec, k int) string {
	r := g.r
	ord := g.order(s.vals, s.ver)
	below, above := tmSubsetNear(ord)
	n := len(ord)
	pick := func() int { return r.Rng.Intn(n) }
	switch k {
	case 0:
		return "all-sign"
	case 1:
		s.slots = tmSlots(ord, above, 'a')
		return "least-above"
	case 2:
		s.slots = tmSlots(ord, below, 'a')
		return "greatest-below"
	case 3:
		s.slots = tmSlots(ord, below, 'n')
		return "below-rest-nil"
	case 4:
		s.slots = tmSlots(ord, above, 'n')
		return "above-rest-nil"
	case 5:
		s.slots = tmSlots(ord, nil, 'a')
		return "none-sign"
	case 6:
		s.slots = tmSlots(ord, nil, 'n')
		return "all-nil"
	case 7: // a sufficient subset, but one further slot carries a signature over other bytes
		s.slots = tmSlots(ord, above, 'a')
		i := pick()
		s.slots[i] = fmt.Sprintf("w%d", ord[i].key)
		return "one-wrong-message"
	case 8:
		s.slots[pick()] = "b"
		return "one-garbage"
	case 9: // a slot signed by a pool key that is not the validator of that slot
		i := pick()
		s.slots[i] = fmt.Sprintf("g%d", (ord[i].key+1+r.Rng.Intn(tmPool-1))%tmPool)
		return "foreign-signer"
	case 10: // two validators' votes in each other's slot
		if n < 2 {
			return g.shape(s, 2)
		}
		i := pick()
		j := (i + 1 + r.Rng.Intn(n-1)) % n
		s.slots[i], s.slots[j] = s.slots[j], s.slots[i]
		return "swapped-slots"
	case 11: // every slot carries the vote of one validator (the strongest below-threshold attempt at double counting)
		v := ord[pick()]
		for i := range s.slots {
			s.slots[i] = fmt.Sprintf("g%d", v.key)
		}
		if g.heimdall() {
			// handled by shape 30.. for heimdall with copies; here distinct timestamps
		}
		return "one-signer-everywhere"
	case 12:
		s.slots = s.slots[:n-1]
		return "one-slot-short"
	case 13:
		s.slots = append(s.slots, "a")
		return "one-slot-extra"
	case 14:
		s.slots = nil
		return "no-slots"
	case 15:
		if g.heimdall() {
			i := pick()
			s.slots[i] = fmt.Sprintf("t%d", ord[i].key)
			return "prevote-type"
		}
		s.slots[pick()] = "A"
		return "absent-with-signature"
	case 16:
		if g.heimdall() {
			i := pick()
			s.slots[i] = fmt.Sprintf("r%d", ord[i].key)
			return "other-round"
		}
		i := pick()
		s.slots[i] = fmt.Sprintf("E%d", ord[i].key)
		return "empty-signature"
	case 17:
		if g.heimdall() {
			i := pick()
			s.slots[i] = fmt.Sprintf("h%d", ord[i].key)
			return "vote-other-height"
		}
		i := pick()
		s.slots[i] = fmt.Sprintf("u%d", ord[i].key)
		return "unknown-flag"
	case 18:
		s.cheight = s.height + int64(1+r.Rng.Intn(3))
		if r.Rng.Bool() {
			s.cheight = s.height - 1
		}
		return "commit-other-height"
	case 19:
		s.bid = "o"
		return "commit-other-block"
	case 20:
		s.bid = "z"
		return "commit-zero-blockid"
	case 21:
		s.nilCommit = true
		return "nil-commit"
	case 22: // a validator set that is not the trusted one (one power changed / one member replaced)
		vs := append([]tmVal(nil), s.vals...)
		i := r.Rng.Intn(len(vs))
		if r.Rng.Bool() {
			vs[i].power += int64(1 + r.Rng.Intn(3))
		} else {
			vs[i] = g.freshVal(vs)
		}
		s.vals = vs
		s.slots = tmSlots(g.order(vs, s.ver), tmBits(1<<uint(len(vs))-1, len(vs)), 'a')
		return "untrusted-valset"
	case 23:
		s.vh = "x1"
		return "header-valhash-arbitrary"
	case 24: // the other hash flavour in the header field
		if g.rn != "cosmos" {
			s.vh = "e"
			return "header-valhash-empty"
		}
		if s.ver >= 11 {
			s.vh = "L="
		} else {
			s.vh = "N="
		}
		return "header-valhash-other-flavour"
	case 25: // votes signed for another chain id than the header's
		s.signChain = "other-chain"
		return "signed-for-other-chain"
	case 26: // header and votes of another chain id than the tracked one
		s.chain = "other-chain"
		s.signChain = "other-chain"
		return "header-of-other-chain"
	case 27:
		vs := append([]tmVal(nil), s.vals...)
		vs = append(vs, vs[r.Rng.Intn(len(vs))])
		s.vals = vs
		s.vh = "x2"
		return "duplicate-validator"
	case 28:
		vs := append([]tmVal(nil), s.vals...)
		vs[r.Rng.Intn(len(vs))].power = []int64{0, -1, tmMaxPower + 1}[r.Rng.Intn(3)]
		s.vals = vs
		s.vh = "x2"
		return "power-out-of-range"
	case 29:
		vs := append([]tmVal(nil), s.vals...)
		vs[0].power = tmMaxPower
		if len(vs) == 1 {
			vs = append(vs, g.freshVal(vs))
		}
		s.vals = vs
		s.slots = tmSlots(g.order(vs, s.ver), tmBits(1<<uint(len(vs))-1, len(vs)), 'a')
		s.vh = "x2"
		return "total-power-overflow"
	case 30: // a forged Address field: another pool key's address (changes the set order or collides)
		if n < 2 {
			return g.shape(s, 22)
		}
		vs := append([]tmVal(nil), s.vals...)
		i := r.Rng.Intn(len(vs))
		if r.Rng.Bool() {
			vs[i].addr = vs[(i+1)%len(vs)].addr
		} else {
			vs[i].addr = g.freshVal(vs).key
		}
		s.vals = vs
		if !tmSetValid(vs) || (g.rn == "cosmos" && s.ver >= 11 && !tmKeysDistinct(vs)) {
			s.vh = "x2"
		}
		return "forged-address"
	case 31:
		s.round = -1
		return "negative-round"
	case 32:
		s.nvh = s.vh
		if s.vh == "=" {
			s.nvh = "="
		}
		return "valset-unchanged"
	case 33:
		s.height = g.height - int64(r.Rng.Intn(3))
		s.cheight = s.height
		return "height-not-above-tracked"
	case 34:
		s.slots = tmSlots(ord, below, 'a')
		// add the smallest absent validator's nil vote: still below
		for i := range s.slots {
			if s.slots[i] == "a" {
				s.slots[i] = fmt.Sprintf("n%d", ord[i].key)
				break
			}
		}
		return "below-plus-one-nil"
	case 35:
		if !g.heimdall() {
			return g.shape(s, 1)
		}
		// every slot is a verbatim copy of validator 0's precommit (ValidatorIndex 0 in each copy)
		s.slots[0] = fmt.Sprintf("g%d", ord[0].key)
		for i := 1; i < n; i++ {
			s.slots[i] = "=0"
		}
		return "copies-of-one-precommit"
	case 36:
		if !g.heimdall() {
			return g.shape(s, 2)
		}
		// a below-threshold subset, each absent slot filled with a copy of a signer's precommit
		s.slots = tmSlots(ord, below, 'a')
		if len(below) == 0 {
			return "greatest-below"
		}
		for i := range s.slots {
			if s.slots[i] == "a" {
				s.slots[i] = fmt.Sprintf("=%d", below[r.Rng.Intn(len(below))])
			}
		}
		return "below-padded-with-copies"
	case 37:
		if !g.heimdall() {
			return g.shape(s, 0)
		}
		// a genuine vote that claims another validator index
		i := pick()
		s.slots[i] = fmt.Sprintf("g%d@%d", ord[i].key, (i+1)%(n+1))
		return "claims-other-index"
	case 38:
		if !g.heimdall() {
			return g.shape(s, 1)
		}
		// one validator signs in its own slot and again, with its own index, in an absent validator's slot
		s.slots = tmSlots(ord, below, 'a')
		if len(below) == 0 {
			return "greatest-below"
		}
		j := below[r.Rng.Intn(len(below))]
		for i := range s.slots {
			if s.slots[i] == "a" {
				s.slots[i] = fmt.Sprintf("g%d@%d", ord[j].key, j)
			}
		}
		return "below-padded-with-reindexed-votes"
	default:
		s.slots = tmSlots(ord, above, 'a')
		// a random extra signer
		i := pick()
		s.slots[i] = fmt.Sprintf("g%d", ord[i].key)
		return "above-plus-one"
	}
}

func (g *tmGen) freshVal(vs []tmVal) tmVal {
	used := map[int]bool{}
	for _, v := range vs {
		used[v.key] = true
		used[v.addr] = true
	}
	for _, k := range g.r.Rng.Perm(tmPool) {
		if !used[k] {
			return tmVal{key: k, power: int64(1 + g.r.Rng.Intn(5)), addr: k}
		}
	}
	return tmVal{key: 0, power: 1, addr: 0}
}

func tmOutcomeClass(res string) string {
	return strings.SplitN(res, " ", 2)[0]
}

// advance notes that the generator's belief follows an accepted header.
func (g *tmGen) note(res string, h int64, next []tmVal) bool {
	if tmOutcomeClass(res) == "ok" {
		g.height = h
		g.cur = next
		return true
	}
	return false
}

func (f *tmFam) Gen(r *hx.Run) {
	switch f.stream {
	case "sync":
		f.genSync(r)
	case "dep":
		f.genDep(r)
	}
}

func (f *tmFam) genSync(r *hx.Run) {
	rn := f.rt.name()
	r.Rule("epoch chains of the " + rn + " router over validator sets of 1..7 pool keys with arbitrary powers x " + fmt.Sprint(tmNShapes) +
		" header/commit shapes (signer subsets at the greatest power <= 2/3 and the least power > 2/3, nil votes, forged / misplaced / " +
		"duplicated signatures, malformed commits and validator sets, heights below/at/above the tracked one, foreign chain ids) " +
		"plus batch shapes (two epochs in one batch, wrong order, skip+good, good+bad, undecodable, empty, replay); " +
		"distinct non-trivial = (block version, set size, shape, outcome)")
	rounds := r.Pick(3, 60)
	id := 0
	vers := []uint64{10}
	if rn == "cosmos" {
		vers = []uint64{10, 11}
	}
	for round := 0; round < rounds; round++ {
		maxN := 7
		if r.Thorough() && round%4 == 0 {
			maxN = 10
		}
		for n := 1; n <= maxN; n++ {
			for _, ver := range vers {
				id++
				r.Case(fmt.Sprintf("tm%s-%d-%d-%d", rn, ver, n, id))
				g := &tmGen{r: r, f: f, rn: rn, ver: ver, chain: "chain-A"}
				g.height = int64(r.Rng.Intn(50)) + 1
				if r.Rng.Chance(1, 8) {
					g.height = int64(r.Rng.Intn(3)) - 2
				}
				g.cur = tmRandSet(r, n)
				// before genesis
				if r.Rng.Chance(1, 4) {
					s := g.good(g.height+1, tmRandSet(r, 1+r.Rng.Intn(5)))
					nm := g.def(s)
					r.Do("sync " + nm)
				}
				gen := &tmHdrSpec{ver: ver, chain: g.chain, height: g.height, vh: "x9", nvh: g.hashOf(g.cur, ver), vals: nil, nilCommit: true}
				if rn == "cosmos" && r.Rng.Chance(1, 3) {
					// trusted hash in the legacy format although headers will carry block version 11 (upgrade block)
					gen.nvh = "L" + tmValsStr(g.cur)
				}
				gname := g.def(gen)
				r.Do("genesis " + gname)
				if r.Rng.Chance(1, 3) {
					r.Do("genesis " + gname)
				}
				legacyTracked := strings.HasPrefix(gen.nvh, "L") && rn == "cosmos" && ver >= 11
				// shapes against the running info; accepted ones advance the epoch
				shapes := r.Rng.Perm(tmNShapes)
				for _, k := range shapes {
					next := tmRandSet(r, 1+r.Rng.Intn(6))
					h := g.height + 1 + int64(r.Rng.Intn(4))
					s := g.good(h, next)
					label := g.shape(s, k)
					nm := g.def(s)
					res := r.Do("sync " + nm)
					cls := tmOutcomeClass(res)
					r.Nontrivial(fmt.Sprintf("%d/%d/%s/%s", ver, len(g.cur), label, cls))
					r.Hist("shape." + label)
					r.Hist("outcome." + cls)
					if id%37 == 1 && (k == 1 || k == 2) {
						r.Sample(map[string]interface{}{"router": rn, "shape": label, "vals": tmValsStr(s.vals), "slots": tmJoin(s.slots), "outcome": res})
					}
					if g.note(res, s.height, next) {
						legacyTracked = false
					}
				}
				_ = legacyTracked
				f.genBatches(r, g)
			}
		}
		f.genZeroHeight(r, round)
	}
}

// genZeroHeight: a trust root below height 0 and headers at height 0 — tendermint's Commit.ValidateBasic looks at the
// signatures only from height 1 on, so malformed slots reach the tally loop here.
func (f *tmFam) genZeroHeight(r *hx.Run, round int) {
	rn := f.rt.name()
	vers := []uint64{10}
	if rn == "cosmos" {
		vers = []uint64{10, 11}
	}
	for _, ver := range vers {
		n := 2 + r.Rng.Intn(3)
		r.Case(fmt.Sprintf("tm%s-zero-%d-%d", rn, ver, round))
		g := &tmGen{r: r, f: f, rn: rn, ver: ver, chain: "chain-A", height: -1 - int64(r.Rng.Intn(2))}
		g.cur = tmRandSet(r, n)
		gen := &tmHdrSpec{ver: ver, chain: g.chain, height: g.height, vh: "x9", nvh: g.hashOf(g.cur, ver), nilCommit: true}
		r.Do("genesis " + g.def(gen))
		ks := []int{17, 16, 15, 8, 20, 2, 3, 31, 0}
		for _, k := range ks {
			next := tmRandSet(r, 1+r.Rng.Intn(3))
			h := int64(0)
			if g.height >= 0 {
				h = g.height + 1
			}
			s := g.good(h, next)
			label := g.shape(s, k)
			res := r.Do("sync " + g.def(s))
			cls := tmOutcomeClass(res)
			r.Nontrivial(fmt.Sprintf("%d/zero-height/%s/%s", ver, label, cls))
			r.Hist("shape.zero-height-" + label)
			r.Hist("outcome." + cls)
			g.note(res, h, next)
		}
	}
}

// genBatches: batch shapes on top of the current state.
func (f *tmFam) genBatches(r *hx.Run, g *tmGen) {
	mk := func() (string, string, []tmVal, []tmVal, int64, int64) {
		s1set := tmRandSet(r, 1+r.Rng.Intn(5))
		s2set := tmRandSet(r, 1+r.Rng.Intn(5))
		h1 := g.height + 1 + int64(r.Rng.Intn(3))
		h2 := h1 + 1 + int64(r.Rng.Intn(3))
		a := g.good(h1, s1set)
		n1 := g.def(a)
		save := g.cur
		g.cur = s1set
		b := g.good(h2, s2set)
		n2 := g.def(b)
		g.cur = save
		return n1, n2, s1set, s2set, h1, h2
	}
	label := func(l, res string) {
		cls := tmOutcomeClass(res)
		r.Nontrivial(fmt.Sprintf("%d/%d/batch-%s/%s", g.ver, len(g.cur), l, cls))
		r.Hist("shape.batch-" + l)
		r.Hist("outcome." + cls)
	}
	// wrong order: the second epoch's header first
	n1, n2, s1, s2, h1, h2 := mk()
	label("wrong-order", r.Do("sync "+n2+","+n1))
	// right order in one batch: the second is verified against the info advanced by the first
	res := r.Do("sync " + n1 + "," + n2)
	label("two-epochs", res)
	if !g.note(res, h2, s2) {
		_ = s1
		_ = h1
	}
	// replay of the same batch: both are now at or below the tracked height
	label("replay", r.Do("sync "+n1+","+n2))
	// good followed by a bad one: nothing may change
	var s1b []tmVal
	var h1b int64
	n1, n2, s1b, _, h1b, _ = mk()
	save := g.cur
	g.cur = s1b
	bad := g.good(h1b+2, tmRandSet(r, 2))
	g.shape(bad, 2)
	g.cur = save
	nb := g.def(bad)
	label("good-then-below", r.Do("sync "+n1+","+nb))
	// undecodable bytes
	r.Do("raw junk ff00ff")
	label("undecodable", r.Do("sync junk"))
	label("good-then-undecodable", r.Do("sync "+n1+",junk"))
	label("empty", r.Do("sync -"))
	// skipped (unchanged valset) followed by a good one
	sk := g.good(g.height+1, g.cur)
	sk.nvh = "="
	ns := g.def(sk)
	label("only-skipped", r.Do("sync "+ns))
	res = r.Do("sync " + ns + "," + n1 + "," + n2)
	label("skip-good-good", res)
}

var _ = hx.Hex
