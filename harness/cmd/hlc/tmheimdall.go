package main

// Family tmheimdall: the real heimdall (polygon) header-sync handler — peppermint / tendermint 0.32 style commits
// (one optional precommit per validator, each with its own ValidatorIndex), secp256k1 keys with Keccak sign hashes,
// amino codec of native/service/header_sync/polygon/types. See tmcommon.go for the op vocabulary.

import (
	"bytes"
	"crypto/sha256"
	"fmt"
	"sort"

	"github.com/polynetwork/poly/native/service/header_sync/polygon"
	ptypes "github.com/polynetwork/poly/native/service/header_sync/polygon/types"
	psecp "github.com/polynetwork/poly/native/service/header_sync/polygon/types/secp256k1"
	"github.com/polynetwork/poly/native/storage"
	"github.com/tendermint/tendermint/version"
	"polyverif/internal/hx"
)

func init() {
	families["tmheimdall"] = func() hx.Family { return &tmFam{rt: &tmHeimdallRouter{}, stream: "sync"} }
}

type tmHKey struct {
	pri psecp.PrivKeySecp256k1
	pub psecp.PubKeySecp256k1
}

// heimdall pool: secp256k1 keys from fixed secrets, in address order.
var tmHeimdallKeys = func() []tmHKey {
	ks := make([]tmHKey, tmPool)
	for i := range ks {
		k := psecp.GenPrivKeySecp256k1([]byte(fmt.Sprintf("polyverif-tm-heimdall-key-%d", i)))
		ks[i] = tmHKey{pri: k, pub: k.PubKey().(psecp.PubKeySecp256k1)}
	}
	sort.Slice(ks, func(i, j int) bool { return bytes.Compare(ks[i].pub.Address(), ks[j].pub.Address()) < 0 })
	return ks
}()

type tmHeimdallRouter struct{}

func (t *tmHeimdallRouter) name() string          { return "heimdall" }
func (t *tmHeimdallRouter) usesHeaderChain() bool { return false }

func (t *tmHeimdallRouter) genesis(db *storage.CacheDB, input []byte, anon bool) error {
	ns := newNative(db, input)
	if anon {
		ns = newNativeAnon(db, input)
	}
	return polygon.NewHeimdallHandler().SyncGenesisHeader(ns)
}

func (t *tmHeimdallRouter) sync(db *storage.CacheDB, input []byte) error {
	return polygon.NewHeimdallHandler().SyncBlockHeader(newNativeAnon(db, input))
}

func (t *tmHeimdallRouter) errClass(err error) string { return tmErrClass(err) }

func (t *tmHeimdallRouter) validators(vs []tmVal) []*ptypes.Validator {
	out := make([]*ptypes.Validator, len(vs))
	for i, v := range vs {
		out[i] = &ptypes.Validator{Address: tmHeimdallKeys[v.addr].pub.Address(), PubKey: tmHeimdallKeys[v.key].pub, VotingPower: v.power}
	}
	return out
}

func (t *tmHeimdallRouter) legacyHash(vs []tmVal) []byte {
	return ptypes.NewValidatorSet(t.validators(vs)).Hash()
}

func (t *tmHeimdallRouter) hashDesc(f *tmFam, s string, own []tmVal) ([]byte, string, bool) {
	switch {
	case s == "e":
		return nil, "e", true
	case s == "":
		return nil, "", false
	case s[0] == 'x':
		return tmArb(s[1:]), s, true
	}
	set := own
	switch {
	case s == "=" || s == "L=":
	case s[0] == 'L':
		var ok bool
		if set, ok = tmParseVals(s[1:]); !ok {
			return nil, "", false
		}
	default:
		return nil, "", false
	}
	if !tmSetValid(set) {
		return nil, "", false
	}
	h := t.legacyHash(set)
	id := tmLegacyID(set)
	f.regHash(h, id)
	return h, id, true
}

func (t *tmHeimdallRouter) build(f *tmFam, d *tmHdr) (*tmBuilt, bool) {
	keys := tmHeimdallKeys
	vh, vhID, ok1 := t.hashDesc(f, d.vh, d.vals)
	nvh, nvhID, ok2 := t.hashDesc(f, d.nvh, d.vals)
	if !ok1 || !ok2 {
		return nil, false
	}
	var app []byte
	if d.app != "e" {
		app = f.appHash(d.app)
		if app == nil {
			return nil, false
		}
	}
	hd := ptypes.Header{
		Version: version.Consensus{Block: version.Protocol(d.ver), App: 0}, ChainID: d.chain, Height: d.height, Time: tmTime(d.height, 0),
		ValidatorsHash: vh, NextValidatorsHash: nvh, AppHash: app, ProposerAddress: keys[0].pub.Address(),
	}
	hash := []byte(hd.Hash())
	hashID := "e"
	if len(hash) != 0 {
		hashID = fmt.Sprintf("H(%d/%s/%d/%s/%s/%s)", d.ver, d.chain, d.height, vhID, nvhID, d.app)
	}
	f.regHash(hash, hashID)
	b := &tmBuilt{height: d.height, vh: vh, nvh: nvh, hash: hash, hashID: hashID, nvhID: nvhID, chain: d.chain, appHash: app,
		nvhDiffer: !bytes.Equal(vh, nvh)}
	if vh == nil {
		b.vh = []byte{}
	}
	if nvh == nil {
		b.nvh = []byte{}
	}
	if hash == nil {
		b.hash = []byte{}
	}
	b.validSet = tmSetValid(d.vals)
	if b.validSet {
		b.setHashL = t.legacyHash(d.vals)
		f.regHash(b.setHashL, tmLegacyID(d.vals))
		b.total = tmTotal(d.vals)
	}
	var commit *ptypes.Commit
	var bid ptypes.BlockID
	if !d.nilCommit {
		parts := sha256.Sum256([]byte("parts-" + hashID))
		switch d.bid {
		case '=':
			bid = ptypes.BlockID{Hash: hash, PartsHeader: ptypes.PartSetHeader{Total: 1, Hash: parts[:]}}
		case 'o':
			bid = ptypes.BlockID{Hash: tmArb("other-block"), PartsHeader: ptypes.PartSetHeader{Total: 1, Hash: parts[:]}}
		case 't':
			tr := tmReadTracked(f.db)
			if !tr.ok {
				return nil, false
			}
			bid = ptypes.BlockID{Hash: tr.block, PartsHeader: ptypes.PartSetHeader{Total: 1, Hash: parts[:]}}
		}
		b.commitForHeader = bytes.Equal(bid.Hash, hash) && d.cheight == d.height
		commit = &ptypes.Commit{BlockID: bid}
		made := make([]*ptypes.CommitSig, len(d.slots))
		for i, s := range d.slots {
			if s.kind == 'a' || s.kind == '=' {
				continue
			}
			v := &ptypes.Vote{Type: ptypes.PrecommitType, Height: d.cheight, Round: int(d.round), BlockID: bid,
				Timestamp: tmTime(d.cheight, i+1), ValidatorIndex: i}
			if s.vidx >= 0 {
				v.ValidatorIndex = s.vidx
			}
			wrong := false
			switch s.kind {
			case 'n':
				v.BlockID = ptypes.BlockID{}
			case 'w':
				wrong = true
			case 't':
				v.Type = ptypes.PrevoteType
			case 'h':
				v.Height = d.cheight + 1
			case 'r':
				v.Round = int(d.round) + 1
			}
			if s.kind == 'b' {
				g := sha256.Sum256([]byte(fmt.Sprintf("garbage-%d", i)))
				v.ValidatorAddress = g[:20]
				v.Signature = append(append(g[:], g[:]...), 1)
			} else {
				v.ValidatorAddress = keys[s.key].pub.Address()
				msg := v.SignBytes(d.signChain)
				if wrong {
					msg = append([]byte("other"), msg...)
				}
				sg, err := keys[s.key].pri.Sign(msg)
				if err != nil {
					panic(err)
				}
				v.Signature = sg
			}
			made[i] = (*ptypes.CommitSig)(v)
		}
		for i, s := range d.slots {
			if s.kind == '=' {
				cp := *made[s.copyOf]
				made[i] = &cp
			}
		}
		commit.Precommits = made
	}
	vals := d.vals
	b.signerPower = func(chain string) int64 {
		if commit == nil {
			return 0
		}
		var p int64
		for _, v := range vals {
			for _, cs := range commit.Precommits {
				if cs == nil || len(cs.Signature) < 64 || !bid.Equals(cs.BlockID) {
					continue
				}
				if keys[v.key].pub.VerifyBytes((*ptypes.Vote)(cs).SignBytes(chain), cs.Signature) {
					p += v.power
					break
				}
			}
		}
		return p
	}
	var err error
	b.bytes, err = ptypes.NewCDC().MarshalBinaryBare(polygon.CosmosHeader{Header: hd, Commit: commit, Valsets: t.validators(d.vals)})
	if err != nil {
		return nil, false
	}
	return b, true
}
