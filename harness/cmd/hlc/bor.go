package main

import (
	"bytes"
	"crypto/sha256"
	"encoding/json"
	"fmt"
	"math/big"
	"sort"
	"strconv"
	"strings"

	ecommon "github.com/ethereum/go-ethereum/common"
	etypes "github.com/ethereum/go-ethereum/core/types"
	ecrypto "github.com/ethereum/go-ethereum/crypto"
	"github.com/polynetwork/poly/common"
	"github.com/polynetwork/poly/native"
	hscommon "github.com/polynetwork/poly/native/service/header_sync/common"
	"github.com/polynetwork/poly/native/service/header_sync/eth"
	"github.com/polynetwork/poly/native/service/header_sync/polygon"
	"polyverif/internal/hx"
)

// Family bor (C29, polygon bor, REDUCED): the real BorHandler on a real native service + CacheDB with ONE fixed span:
// the trust root carries a snapshot (validator set with powers, proposer priorities advanced k times by the package's
// own IncrementProposerPriority), the sprint length is set beyond every generated height, so no header is a sprint end
// (no validator bytes, no Heimdall span proof) or a sprint start (no proposer rotation, no set change). What is driven:
// verifyHeader / verifyCascadingFields / verifySeal (signer in the set, succession number, back-off time rule,
// difficulty = N - succession) and addHeader (total difficulty, canonical index).
//
//	router bor <period> <producerDelay> <backupMultiplier> <addr table>
//	genesis <id> <number> <vals> <powers> <k> <proposer> <time> <diff>
//	      vals: key indices, powers: voting powers, k: IncrementProposerPriority(k) after NewValidatorSet (0 = none),
//	      proposer: key index of the resulting proposer (computed by the generator with the package's code, checked here)
//	hdr <id> <parent> <number> <seal> <diff> <extra> <time> <flags>
//	twin <id> <orig> <seal>
//	state
type borFam struct {
	posaFam
	backup  uint64
	vals    []ecommon.Address // ascending
	propIdx int
}

func init() {
	families["bor"] = func() hx.Family { return &borFam{} }
}

const borSprint = uint64(1) << 40

func (f *borFam) Reset(r *hx.Run) {
	f.posaFam.Reset(r)
	f.vals, f.propIdx, f.backup = nil, -1, 0
}

func borErrClass(err error) string {
	if err == nil {
		return "ok"
	}
	m := err.Error()
	switch {
	case strings.Contains(m, "errExtraValidators"):
		return "reject:extra-signers"
	case strings.Contains(m, "errInvalidSpanValidators"):
		return "reject:cp-signerlist"
	case strings.Contains(m, "ErrInvalidTimestamp"):
		return "reject:time"
	case strings.Contains(m, "UnauthorizedSignerError") || strings.Contains(m, "UnauthorizedProposerError"):
		return "reject:signer"
	case strings.Contains(m, "BlockTooSoonError"):
		return "reject:toosoon"
	case strings.Contains(m, "WrongDifficultyError"):
		return "reject:turn"
	case strings.Contains(m, "genesis.Snapshot is nil"):
		return "reject:nosnapshot"
	}
	return posaErrClass(err)
}

// borValidatorSet builds the snapshot's validator set exactly as the package does.
func borValidatorSet(keys []int, powers []int64, k int) (vs *polygon.ValidatorSet, ok bool) {
	defer func() {
		if recover() != nil {
			vs, ok = nil, false
		}
	}()
	var vals []*polygon.Validator
	for i, key := range keys {
		vals = append(vals, polygon.NewValidator(posaKeys[key].addr, powers[i]))
	}
	vs = polygon.NewValidatorSet(vals)
	if k > 0 {
		vs.IncrementProposerPriority(k)
	}
	return vs, true
}

func (f *borFam) Exec(r *hx.Run, op []string) string {
	if op[0] == "router" {
		if len(op) != 6 || f.rt != nil || op[1] != "bor" {
			return "bad-op"
		}
		period, e1 := strconv.ParseUint(op[2], 10, 32)
		pdelay, e2 := strconv.ParseUint(op[3], 10, 32)
		backup, e3 := strconv.ParseUint(op[4], 10, 32)
		if e1 != nil || e2 != nil || e3 != nil || op[5] != posaAddrTable() {
			return "bad-op"
		}
		rt := &posaRouter{name: "bor"}
		rt.genesis = func(ns *native.NativeService) error { return polygon.NewBorHandler().SyncGenesisHeader(ns) }
		rt.sync = func(ns *native.NativeService) error { return polygon.NewBorHandler().SyncBlockHeader(ns) }
		rt.height = func(ns *native.NativeService) (uint64, error) { return polygon.GetCanonicalHeight(ns, posaChainID) }
		rt.canon = func(ns *native.NativeService, h uint64) (*eth.Header, *big.Int, error) {
			x, err := polygon.GetCanonicalHeader(ns, posaChainID, h)
			if err != nil || x == nil {
				return nil, nil, err
			}
			hd := x.HeaderWithOptionalSnap.Header
			return &hd, x.DifficultySum, nil
		}
		f.rt, f.period, f.backup = rt, period, backup
		ex, _ := json.Marshal(map[string]interface{}{"Sprint": borSprint, "Period": period, "ProducerDelay": pdelay, "BackupMultiplier": backup, "HeimdallPolyChainID": 0})
		putSideChain(f.db, posaChainID, 0, []byte{1}, ex)
		return "ok"
	}
	if f.rt == nil {
		return "bad-op"
	}
	switch op[0] {
	case "genesis":
		return f.borGenesis(r, op)
	case "hdr":
		if len(op) != 9 {
			return "bad-op"
		}
		return f.borHdr(r, op, op[1], strings.Join(op, " "))
	case "twin":
		if len(op) != 4 {
			return "bad-op"
		}
		od, ok := f.descr[op[2]]
		ot := strings.Fields(od)
		if !ok || len(ot) != 9 || ot[0] != "hdr" {
			return "bad-op"
		}
		ot[1], ot[4] = op[1], op[3]
		return f.borHdr(r, ot, op[2], strings.Join(op, " "))
	case "state":
		return f.execState(r)
	}
	return "bad-op"
}

func borHeader(label string, parent ecommon.Hash, num, diff uint64, extra []byte, tm uint64, flags string) (*eth.Header, bool) {
	h := &eth.Header{ParentHash: parent, UncleHash: posaUncleHash,
		Root:   ecommon.Hash(sha256.Sum256([]byte("posa-hdr-" + label))),
		TxHash: etypes.EmptyRootHash, ReceiptHash: etypes.EmptyRootHash,
		Difficulty: new(big.Int).SetUint64(diff), Number: new(big.Int).SetUint64(num), GasLimit: 30000000, Time: tm, Extra: extra}
	if flags != "-" {
		for _, fl := range strings.Split(flags, ",") {
			switch fl {
			case "mix":
				h.MixDigest = ecommon.Hash{1}
			case "unc":
				h.UncleHash = ecommon.Hash{2}
			default:
				return nil, false
			}
		}
	}
	return h, true
}

func parseInt64s(s string) ([]int64, bool) {
	var out []int64
	for _, p := range strings.Split(s, ",") {
		v, err := strconv.ParseInt(p, 10, 62)
		if err != nil || v <= 0 {
			return nil, false
		}
		out = append(out, v)
	}
	return out, true
}

func (f *borFam) borGenesis(r *hx.Run, op []string) string {
	if len(op) != 9 {
		return "bad-op"
	}
	id := op[1]
	num, e1 := strconv.ParseUint(op[2], 10, 32)
	keys, ok1 := posaKeyIdx(op[3])
	powers, ok2 := parseInt64s(op[4])
	k, e2 := strconv.Atoi(op[5])
	prop, e3 := strconv.Atoi(op[6])
	tm, e4 := strconv.ParseUint(op[7], 10, 62)
	diff, e5 := strconv.ParseUint(op[8], 10, 32)
	if e1 != nil || !ok1 || !ok2 || e2 != nil || e3 != nil || e4 != nil || e5 != nil || len(keys) == 0 || len(keys) != len(powers) || k < 0 || k > 1000 || prop < 0 || prop >= posaPool {
		return "bad-op"
	}
	if d, seen := f.descr[id]; seen && d != strings.Join(op, " ") {
		return "bad-op"
	}
	vs, ok := borValidatorSet(keys, powers, k)
	if !ok || vs.GetProposer().Address != posaKeys[prop].addr {
		return "bad-op"
	}
	f.descr[id] = strings.Join(op, " ")
	h, _ := borHeader(id, posaUnknownHash("genesis-parent"), num, diff, make([]byte, 97), tm, "-")
	hash := h.Hash()
	gj, err := json.Marshal(&polygon.HeaderWithOptionalSnap{Header: *h, Snapshot: &polygon.Snapshot{Hash: hash, ValidatorSet: vs}})
	if err != nil {
		panic(err)
	}
	p := &hscommon.SyncGenesisHeaderParam{ChainID: posaChainID, GenesisHeader: gj}
	ps := common.NewZeroCopySink(nil)
	p.Serialization(ps)
	if err := f.rt.genesis(newNativeAnon(f.db, ps.Bytes())); err == nil {
		r.Viol("C29:bor:genesis-without-operator-witness", "SyncGenesisHeader accepted a transaction that is not witnessed by the consensus operator")
	}
	hadGenesis := f.genesis != ""
	if num > f.maxNum {
		f.maxNum = num
	}
	res := borErrClass(f.rt.genesis(newNative(f.db, ps.Bytes())))
	if res == "ok" {
		if hadGenesis {
			r.Viol("C29:bor:second-genesis-accepted", "a second SyncGenesisHeader replaced the trust root")
		}
		n := &posaNode{id: id, hash: hash, num: num, sealBy: -1, diff: diff, extra: h.Extra, stored: true, refTD: diff, isGen: true, time: tm}
		f.nodes[id] = n
		f.byHash[hash] = id
		f.genesis = id
		// the harness's own view of the span: addresses ascending, proposer position
		f.vals = nil
		for _, key := range keys {
			f.vals = append(f.vals, posaKeys[key].addr)
		}
		sort.Slice(f.vals, func(i, j int) bool { return bytes.Compare(f.vals[i][:], f.vals[j][:]) < 0 })
		f.propIdx = -1
		for i, a := range f.vals {
			if a == posaKeys[prop].addr {
				f.propIdx = i
			}
		}
		if !f.rawStored(hash) {
			return "ok NOT-STORED"
		}
	}
	line, _, _, _, _ := f.canonLine()
	return res + " " + line
}

func (f *borFam) borOracle(r *hx.Run, n *posaNode, parentStoredBefore bool) {
	if !parentStoredBefore {
		r.Viol("C29:bor:stored-without-parent", fmt.Sprintf("header %s (number %d) was stored although its parent %s was not stored", n.id, n.num, n.parent))
		return
	}
	p := f.nodes[n.parent]
	if p == nil || !p.stored {
		r.Viol("C29:bor:stored-without-parent", fmt.Sprintf("header %s (number %d) was stored although its parent is not stored", n.id, n.num))
		return
	}
	if p.num+1 != n.num {
		r.Viol("C29:bor:stored-with-wrong-number", fmt.Sprintf("header %s has number %d, its parent %s has number %d", n.id, n.num, p.id, p.num))
	}
	n.refTD = p.refTD + n.diff
	if len(n.extra) != 97 || n.mixBad || n.uncBad {
		r.Viol("C29:bor:malformed-stored", fmt.Sprintf("header %s (not a sprint end) stored with extra length %d, mixBad=%v uncleBad=%v", n.id, len(n.extra), n.mixBad, n.uncBad))
	}
	if !n.recOK {
		r.Viol("C29:bor:stored-with-bad-seal", fmt.Sprintf("header %s stored although its seal is not a recoverable signature", n.id))
		return
	}
	N := len(f.vals)
	si := -1
	for i, a := range f.vals {
		if a == n.rec {
			si = i
		}
	}
	if si < 0 {
		r.Viol("C29:bor:stored-with-signer-outside-set", fmt.Sprintf("header %s (number %d) stored, its seal recovers to key %d which is not a validator of the span (%d validators)", n.id, n.num, idxOfAddr(n.rec), N))
		return
	}
	// the signer's distance behind the proposer in the ascending validator list, cyclically
	succ := (si - f.propIdx + N) % N
	if n.diff != uint64(N-succ) {
		r.Viol("C29:bor:wrong-difficulty-stored", fmt.Sprintf("header %s (number %d) stored with difficulty %d; %d validators, proposer at %d, signer at %d: succession %d, difficulty must be %d", n.id, n.num, n.diff, N, f.propIdx, si, succ, N-succ))
	}
	if n.time < p.time+f.period+uint64(succ)*f.backup {
		r.Viol("C29:bor:stored-too-soon", fmt.Sprintf("header %s (number %d) stored with time %d, parent time %d, period %d, succession %d, back-off %d per position", n.id, n.num, n.time, p.time, f.period, succ, f.backup))
	}
}

func (f *borFam) borHdr(r *hx.Run, op []string, rootLabel, desc string) string {
	id, parent := op[1], op[2]
	num, e1 := strconv.ParseUint(op[3], 10, 32)
	diff, e2 := strconv.ParseUint(op[5], 10, 32)
	extra, sealLen, ok2 := posaExtra(op[6])
	tm, e3 := strconv.ParseUint(op[7], 10, 62)
	if e1 != nil || e2 != nil || !ok2 || e3 != nil {
		return "bad-op"
	}
	if d, seen := f.descr[id]; seen && d != desc {
		return "bad-op"
	}
	phash := f.hashOf(parent)
	h, ok := borHeader(rootLabel, phash, num, diff, extra, tm, op[8])
	if !ok {
		return "bad-op"
	}
	sealTok := op[4]
	ns := newNative(f.db, nil)
	if len(sealTok) > 1 && (sealTok[0] == 's' || sealTok[0] == 'w') {
		v, err := strconv.Atoi(sealTok[1:])
		if err != nil || v < 0 || v >= posaPool {
			return "bad-op"
		}
		if sealLen == 65 {
			sh := polygon.SealHash(ns, h)
			if sealTok[0] == 'w' {
				sh = ecommon.Hash(sha256.Sum256(append([]byte("another message"), sh[:]...)))
			}
			sig, err := ecrypto.Sign(sh[:], posaKeys[v].pri)
			if err != nil {
				panic(err)
			}
			copy(h.Extra[len(h.Extra)-65:], sig)
		}
	} else if sealTok == "x" {
		if sealLen == 65 {
			h.Extra[len(h.Extra)-1] = 9
		}
	} else if sealTok != "n" {
		return "bad-op"
	}
	f.descr[id] = desc
	hash := h.Hash()
	if num > f.maxNum {
		f.maxNum = num
	}
	var rec ecommon.Address
	recOK := false
	if len(h.Extra) >= 65 {
		sh := polygon.SealHash(ns, h)
		if pub, err := ecrypto.Ecrecover(sh[:], h.Extra[len(h.Extra)-65:]); err == nil && len(pub) == 65 {
			copy(rec[:], ecrypto.Keccak256(pub[1:])[12:])
			recOK = true
		}
	}
	n, seen := f.nodes[id]
	if !seen {
		n = &posaNode{id: id, parent: parent, hash: hash, phash: phash, num: num, sealBy: -1, diff: diff, extra: extra, rec: rec, recOK: recOK,
			mixBad: strings.Contains(op[8], "mix"), uncBad: strings.Contains(op[8], "unc"), time: tm}
		f.nodes[id] = n
		f.byHash[hash] = id
	}
	storedBefore := f.rawStored(hash)
	parentBefore := f.rawStored(phash)
	hj, err := json.Marshal(&polygon.HeaderWithOptionalProof{Header: *h})
	if err != nil {
		panic(err)
	}
	p := &hscommon.SyncBlockHeaderParam{ChainID: posaChainID, Headers: [][]byte{hj}}
	ps := common.NewZeroCopySink(nil)
	p.Serialization(ps)
	err = f.rt.sync(newNative(f.db, ps.Bytes()))
	storedAfter := f.rawStored(hash)
	res := borErrClass(err)
	switch {
	case storedBefore:
		if err != nil {
			res = "dup-BUT-" + res
		} else {
			res = "skip:dup"
		}
	case err != nil:
		if storedAfter {
			r.Viol("C29:bor:stored-although-rejected", fmt.Sprintf("header %s rejected (%s) but present in the store", id, res))
		}
	case !storedAfter:
		if parentBefore {
			res = "dropped"
		} else {
			res = "skip:noparent"
		}
	default:
		n.stored = true
		f.borOracle(r, n, parentBefore)
	}
	if f.genesis != "" {
		f.canonOracle(r, 0)
	}
	line, _, _, _, _ := f.canonLine()
	return res + " " + line
}
