package main

import (
	"bytes"
	"crypto/sha256"
	"encoding/json"
	"fmt"
	"math/big"
	"sort"
	"strconv"
	"strings"

	ecommon "github.com/ethereum/go-ethereum/common"
	"github.com/ethereum/go-ethereum/consensus/clique"
	etypes "github.com/ethereum/go-ethereum/core/types"
	ecrypto "github.com/ethereum/go-ethereum/crypto"
	"github.com/polynetwork/poly/common"
	"github.com/polynetwork/poly/native"
	hscommon "github.com/polynetwork/poly/native/service/header_sync/common"
	"github.com/polynetwork/poly/native/service/header_sync/eth"
	"github.com/polynetwork/poly/native/service/header_sync/msc"
	"polyverif/internal/hx"
)

// Family posamsc (C29, msc router): the real msc (clique-style) header-sync handler on a real native service + CacheDB.
// Same descriptors as family posa, with
//
//	router msc <epoch> <period> <addr table>
//	genesis <id> <number> <cb> <seal> <diff> <extra> <time>
//	hdr <id> <parent> <number> <cb> <seal> <diff> <extra> <time> <flags>
//
// cb is the vote target (z = no vote); flags: - | auth (nonce ff..ff: vote to authorize; default nonce 00..00: vote to
// drop) | badnonce | mix | unc. The trust root is really sealed as well (the handler recovers its signer).
//
// This family has no Lean model behind it (the clique snapshot with its vote tally is not modelled): the outcome is
// judged by the independent reference below (written from the clique rules: signer set = checkpoint list + majority
// votes replayed along the header's own ancestry).
type mscFam struct {
	posaFam
	epoch uint64
	info  map[*posaNode]*mscNodeInfo
}

func init() {
	families["posamsc"] = func() hx.Family { return &mscFam{} }
}

var mscRouter = &posaRouter{name: "msc", typesHdr: true}

func (f *mscFam) Reset(r *hx.Run) {
	f.posaFam.Reset(r)
	f.epoch = 0
	f.info = map[*posaNode]*mscNodeInfo{}
}

func mscErrClass(err error) string {
	if err == nil {
		return "ok"
	}
	m := err.Error()
	switch {
	case strings.Contains(m, "beneficiary in checkpoint block non-zero"):
		return "reject:cp-beneficiary"
	case strings.Contains(m, "vote nonce not"):
		return "reject:nonce"
	case strings.Contains(m, "vote nonce in checkpoint"):
		return "reject:cp-nonce"
	case strings.Contains(m, "non-checkpoint block contains extra signer list"):
		return "reject:extra-signers"
	case strings.Contains(m, "invalid signer list on checkpoint"):
		return "reject:cp-signerlist"
	case strings.Contains(m, "mismatching signer list"):
		return "reject:cp-mismatch"
	case strings.Contains(m, "unauthorized signer"):
		return "reject:signer"
	case strings.Contains(m, "invalid difficulty, got"):
		return "reject:turn"
	case strings.Contains(m, "invalid genesis height"):
		return "reject:genesis-height"
	case strings.Contains(m, "invalid epoch") || strings.Contains(m, "invalid period"):
		return "reject:extrainfo"
	}
	return posaErrClass(err)
}

func (f *mscFam) Exec(r *hx.Run, op []string) string {
	if op[0] == "router" {
		if len(op) != 5 || f.rt != nil || op[1] != "msc" {
			return "bad-op"
		}
		epoch, e1 := strconv.ParseUint(op[2], 10, 32)
		period, e2 := strconv.ParseUint(op[3], 10, 32)
		if e1 != nil || e2 != nil || op[4] != posaAddrTable() {
			return "bad-op"
		}
		rt := *mscRouter
		rt.genesis = func(ns *native.NativeService) error { return msc.NewHandler().SyncGenesisHeader(ns) }
		rt.sync = func(ns *native.NativeService) error { return msc.NewHandler().SyncBlockHeader(ns) }
		rt.height = func(ns *native.NativeService) (uint64, error) { return msc.GetCanonicalHeight(ns, posaChainID) }
		rt.canon = func(ns *native.NativeService, h uint64) (*eth.Header, *big.Int, error) {
			x, err := msc.GetCanonicalHeader(ns, posaChainID, h)
			if err != nil || x == nil {
				return nil, nil, err
			}
			return eth.To1559(x.Header), x.DifficultySum, nil
		}
		f.rt, f.period, f.epoch = &rt, period, epoch
		ex, _ := json.Marshal(map[string]interface{}{"ChainID": 1, "Period": period, "Epoch": epoch})
		putSideChain(f.db, posaChainID, 0, []byte{1}, ex)
		return "ok"
	}
	if f.rt == nil {
		return "bad-op"
	}
	switch op[0] {
	case "genesis":
		return f.mscGenesis(r, op)
	case "hdr":
		if len(op) != 10 {
			return "bad-op"
		}
		return f.mscHdr(r, op, op[1], strings.Join(op, " "))
	case "twin":
		if len(op) != 4 {
			return "bad-op"
		}
		od, ok := f.descr[op[2]]
		ot := strings.Fields(od)
		if !ok || len(ot) != 10 || ot[0] != "hdr" {
			return "bad-op"
		}
		ot[1], ot[5] = op[1], op[3]
		return f.mscHdr(r, ot, op[2], strings.Join(op, " "))
	case "state":
		return f.execState(r)
	}
	return "bad-op"
}

// mscBuild makes the header of a descriptor and seals it.
func (f *mscFam) mscBuild(id string, parent ecommon.Hash, num uint64, cbTok, sealTok string, diff uint64, extraTok string, tm uint64, flags string) (h *etypes.Header, sealBy int, vote *ecommon.Address, ok bool) {
	cb, ok1 := f.cbOf(cbTok)
	extra, sealLen, ok2 := posaExtra(extraTok)
	if !ok1 || !ok2 {
		return nil, -1, nil, false
	}
	h = &etypes.Header{ParentHash: parent, UncleHash: posaUncleHash, Coinbase: cb,
		Root:   ecommon.Hash(sha256.Sum256([]byte("posa-hdr-" + id))),
		TxHash: etypes.EmptyRootHash, ReceiptHash: etypes.EmptyRootHash,
		Difficulty: new(big.Int).SetUint64(diff), Number: new(big.Int).SetUint64(num), GasLimit: 30000000, Time: tm, Extra: extra}
	if flags != "-" {
		for _, fl := range strings.Split(flags, ",") {
			switch fl {
			case "mix":
				h.MixDigest = ecommon.Hash{1}
			case "unc":
				h.UncleHash = ecommon.Hash{2}
			case "auth":
				h.Nonce = etypes.BlockNonce{0xff, 0xff, 0xff, 0xff, 0xff, 0xff, 0xff, 0xff}
			case "badnonce":
				h.Nonce = etypes.BlockNonce{0, 0, 0, 0, 0, 0, 0, 1}
			default:
				return nil, -1, nil, false
			}
		}
	}
	sealBy = -1
	if len(sealTok) > 1 && (sealTok[0] == 's' || sealTok[0] == 'w') {
		v, err := strconv.Atoi(sealTok[1:])
		if err != nil || v < 0 || v >= posaPool {
			return nil, -1, nil, false
		}
		if sealLen == 65 {
			sh := clique.SealHash(h)
			if sealTok[0] == 'w' {
				sh = ecommon.Hash(sha256.Sum256(append([]byte("another message"), sh[:]...)))
			} else {
				sealBy = v
			}
			sig, err := ecrypto.Sign(sh[:], posaKeys[v].pri)
			if err != nil {
				panic(err)
			}
			copy(h.Extra[len(h.Extra)-65:], sig)
		}
	} else if sealTok == "x" {
		if sealLen == 65 {
			h.Extra[len(h.Extra)-1] = 9
		}
	} else if sealTok != "n" {
		return nil, -1, nil, false
	}
	if cb != (ecommon.Address{}) {
		vote = &cb
	}
	return h, sealBy, vote, true
}

// mscRecover: the signer the harness itself recovers from the header's own seal
func mscRecover(h *etypes.Header) (a ecommon.Address, ok bool) {
	if len(h.Extra) < 65 {
		return a, false
	}
	sh := clique.SealHash(h)
	pub, err := ecrypto.Ecrecover(sh[:], h.Extra[len(h.Extra)-65:])
	if err != nil || len(pub) != 65 {
		return a, false
	}
	copy(a[:], ecrypto.Keccak256(pub[1:])[12:])
	return a, true
}

type mscNodeInfo struct {
	auth   bool             // nonce = authorize
	vote   *ecommon.Address // coinbase when non-zero
	signer ecommon.Address  // address of the genuine sealer (zero if none)
}

func (f *mscFam) mscGenesis(r *hx.Run, op []string) string {
	if len(op) != 8 {
		return "bad-op"
	}
	id := op[1]
	num, e1 := strconv.ParseUint(op[2], 10, 32)
	diff, e2 := strconv.ParseUint(op[5], 10, 32)
	tm, e3 := strconv.ParseUint(op[7], 10, 62)
	if e1 != nil || e2 != nil || e3 != nil {
		return "bad-op"
	}
	if d, seen := f.descr[id]; seen && d != strings.Join(op, " ") {
		return "bad-op"
	}
	h, sealBy, _, ok := f.mscBuild(id, posaUnknownHash("genesis-parent"), num, op[3], op[4], diff, op[6], tm, "-")
	if !ok {
		return "bad-op"
	}
	f.descr[id] = strings.Join(op, " ")
	hj, _ := json.Marshal(h)
	p := &hscommon.SyncGenesisHeaderParam{ChainID: posaChainID, GenesisHeader: hj}
	ps := common.NewZeroCopySink(nil)
	p.Serialization(ps)
	if err := f.rt.genesis(newNativeAnon(f.db, ps.Bytes())); err == nil {
		r.Viol("C29:msc:genesis-without-operator-witness", "SyncGenesisHeader accepted a transaction that is not witnessed by the consensus operator")
	}
	hash := h.Hash()
	hadGenesis := f.genesis != ""
	if num > f.maxNum {
		f.maxNum = num
	}
	res := mscErrClass(f.rt.genesis(newNative(f.db, ps.Bytes())))
	if res == "ok" {
		if hadGenesis {
			r.Viol("C29:msc:second-genesis-accepted", "a second SyncGenesisHeader replaced the trust root")
		}
		n := &posaNode{id: id, hash: hash, num: num, cb: h.Coinbase, sealBy: sealBy, diff: diff, extra: h.Extra, stored: true, refTD: diff, isGen: true, time: tm}
		f.nodes[id] = n
		f.byHash[hash] = id
		f.genesis = id
		info := &mscNodeInfo{}
		if a, ok := mscRecover(h); ok {
			info.signer = a
			n.rec, n.recOK = a, true
		}
		f.info[n] = info
		if !f.rawStored(hash) {
			return "ok NOT-STORED"
		}
	}
	line, _, _, _, _ := f.canonLine()
	return res + " " + line
}

// mscSnapshot replays the clique rules over anc (parent first, trust root last) and returns the signer set in effect
// for the child of anc[0]: the list of the nearest checkpoint (number % epoch == 0, or the trust root), then every later
// header's vote (coinbase, authorize / drop) counted per (signer, target), a target changing status as soon as more
// than half of the current signers vote for it; all pending votes are dropped at a checkpoint.
func (f *mscFam) mscSnapshot(anc []*posaNode) map[ecommon.Address]bool {
	start := len(anc) - 1
	for i, a := range anc {
		if a.isGen || a.num%f.epoch == 0 {
			start = i
			break
		}
	}
	set := map[ecommon.Address]bool{}
	cp := anc[start]
	if len(cp.extra) >= 97 {
		for _, a := range chunk20(cp.extra[32 : len(cp.extra)-65]) {
			set[a] = true
		}
	}
	type vote struct {
		signer, target ecommon.Address
		auth           bool
	}
	var votes []vote
	tally := func(target ecommon.Address, auth bool) int {
		c := 0
		for _, v := range votes {
			if v.target == target && v.auth == auth {
				c++
			}
		}
		return c
	}
	for i := start - 1; i >= 0; i-- {
		a := anc[i]
		info := f.info[a]
		if info == nil || info.vote == nil {
			continue
		}
		target := *info.vote
		// a signer's earlier vote on the same target is replaced
		for j, v := range votes {
			if v.signer == info.signer && v.target == target {
				votes = append(votes[:j], votes[j+1:]...)
				break
			}
		}
		// only meaningful votes count: authorize a non-signer, drop a signer
		if set[target] != info.auth {
			votes = append(votes, vote{info.signer, target, info.auth})
		}
		if tally(target, info.auth) > len(set)/2 && set[target] != info.auth {
			if info.auth {
				set[target] = true
			} else {
				delete(set, target)
				var keep []vote
				for _, v := range votes {
					if v.signer != target {
						keep = append(keep, v)
					}
				}
				votes = keep
			}
			var keep []vote
			for _, v := range votes {
				if v.target != target {
					keep = append(keep, v)
				}
			}
			votes = keep
		}
	}
	return set
}

func sortedAddrs(set map[ecommon.Address]bool) []ecommon.Address {
	var out []ecommon.Address
	for a := range set {
		out = append(out, a)
	}
	sort.Slice(out, func(i, j int) bool { return bytes.Compare(out[i][:], out[j][:]) < 0 })
	return out
}

func (f *mscFam) mscOracle(r *hx.Run, n *posaNode, parentStoredBefore bool) {
	if !parentStoredBefore {
		r.Viol("C29:msc:stored-without-parent", fmt.Sprintf("header %s (number %d) was stored although its parent %s was not stored", n.id, n.num, n.parent))
		return
	}
	anc, ok := f.ancestors(n)
	if !ok || len(anc) == 0 {
		r.Viol("C29:msc:stored-without-parent", fmt.Sprintf("header %s (number %d) was stored although its ancestry is not stored", n.id, n.num))
		return
	}
	if anc[0].num+1 != n.num {
		r.Viol("C29:msc:stored-with-wrong-number", fmt.Sprintf("header %s has number %d, its parent %s has number %d", n.id, n.num, anc[0].id, anc[0].num))
	}
	n.refTD = anc[0].refTD + n.diff
	checkpoint := n.num%f.epoch == 0
	if len(n.extra) < 97 || n.mixBad || n.uncBad || (!checkpoint && len(n.extra) != 97) || (checkpoint && (len(n.extra) == 97 || (len(n.extra)-97)%20 != 0)) {
		r.Viol("C29:msc:malformed-stored", fmt.Sprintf("header %s (number %d, epoch %d) stored with extra length %d, mixBad=%v uncleBad=%v", n.id, n.num, f.epoch, len(n.extra), n.mixBad, n.uncBad))
	}
	if !n.recOK {
		r.Viol("C29:msc:stored-with-bad-seal", fmt.Sprintf("header %s stored although its seal is not a recoverable signature", n.id))
		return
	}
	signer := n.rec
	set := f.mscSnapshot(anc)
	if !set[signer] {
		r.Viol("C29:msc:stored-with-signer-outside-set", fmt.Sprintf("header %s (number %d) stored, its seal recovers to key %d which is not an authorized signer (%d signers in effect)", n.id, n.num, idxOfAddr(signer), len(set)))
		return
	}
	for j := 0; j < len(set)/2 && j < len(anc); j++ {
		if info := f.info[anc[j]]; info != nil && info.signer == signer && anc[j].num > 0 {
			r.Viol("C29:msc:stored-recent-resigner", fmt.Sprintf("header %s (number %d) stored, its signer also sealed ancestor %s (number %d), window %d", n.id, n.num, anc[j].id, anc[j].num, len(set)/2))
			break
		}
	}
	sorted := sortedAddrs(set)
	inTurn := sorted[int(n.num%uint64(len(sorted)))] == signer
	want := uint64(1)
	if inTurn {
		want = 2
	}
	if n.diff != want {
		r.Viol("C29:msc:wrong-difficulty-stored", fmt.Sprintf("header %s (number %d) stored with difficulty %d, signer in turn = %v", n.id, n.num, n.diff, inTurn))
	}
	if checkpoint && len(n.extra) >= 97 {
		var want []byte
		for _, a := range sorted {
			want = append(want, a[:]...)
		}
		if !bytes.Equal(n.extra[32:len(n.extra)-65], want) {
			r.Viol("C29:msc:checkpoint-list-mismatch", fmt.Sprintf("checkpoint header %s (number %d) stored with a signer list that is not the set in effect", n.id, n.num))
		}
	}
}

func (f *mscFam) mscHdr(r *hx.Run, op []string, rootLabel, desc string) string {
	id, parent := op[1], op[2]
	num, e1 := strconv.ParseUint(op[3], 10, 32)
	diff, e2 := strconv.ParseUint(op[6], 10, 32)
	tm, e3 := strconv.ParseUint(op[8], 10, 62)
	if e1 != nil || e2 != nil || e3 != nil {
		return "bad-op"
	}
	if d, seen := f.descr[id]; seen && d != desc {
		return "bad-op"
	}
	phash := f.hashOf(parent)
	h, sealBy, vote, ok := f.mscBuild(rootLabel, phash, num, op[4], op[5], diff, op[7], tm, op[9])
	if !ok {
		return "bad-op"
	}
	f.descr[id] = desc
	hash := h.Hash()
	if num > f.maxNum {
		f.maxNum = num
	}
	n, seen := f.nodes[id]
	if !seen {
		n = &posaNode{id: id, parent: parent, hash: hash, phash: phash, num: num, cb: h.Coinbase, sealBy: sealBy, diff: diff, extra: h.Extra,
			mixBad: strings.Contains(op[9], "mix"), uncBad: strings.Contains(op[9], "unc"), time: tm, sealW: strings.HasPrefix(op[5], "w")}
		f.nodes[id] = n
		f.byHash[hash] = id
		info := &mscNodeInfo{auth: strings.Contains(op[9], "auth"), vote: vote}
		if a, ok := mscRecover(h); ok {
			info.signer = a
			n.rec, n.recOK = a, true
		}
		f.info[n] = info
	}
	storedBefore := f.rawStored(hash)
	parentBefore := f.rawStored(phash)
	hj, _ := json.Marshal(h)
	p := &hscommon.SyncBlockHeaderParam{ChainID: posaChainID, Headers: [][]byte{hj}}
	ps := common.NewZeroCopySink(nil)
	p.Serialization(ps)
	err := f.rt.sync(newNative(f.db, ps.Bytes()))
	storedAfter := f.rawStored(hash)
	res := mscErrClass(err)
	switch {
	case storedBefore:
		if err != nil {
			res = "dup-BUT-" + res
		} else {
			res = "skip:dup"
		}
	case err != nil:
		if storedAfter {
			r.Viol("C29:msc:stored-although-rejected", fmt.Sprintf("header %s rejected (%s) but present in the store", id, res))
		}
	case !storedAfter:
		if parentBefore {
			res = "dropped"
		} else {
			res = "skip:noparent"
		}
	default:
		n.stored = true
		f.mscOracle(r, n, parentBefore)
	}
	if f.genesis != "" {
		f.canonOracle(r, 6)
	}
	line, _, _, _, _ := f.canonLine()
	return res + " " + line
}
