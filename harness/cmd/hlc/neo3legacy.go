package main

// GENERATED from neo3.go by gen_neo3legacy.sh. Do not edit.

import (
	"crypto/sha256"
	"encoding/hex"
	"fmt"
	"sort"
	"strconv"
	"strings"

	"github.com/joeqian10/neo3-gogogo-legacy/block"
	"github.com/joeqian10/neo3-gogogo-legacy/crypto"
	"github.com/joeqian10/neo3-gogogo-legacy/helper"
	"github.com/joeqian10/neo3-gogogo-legacy/keys"
	"github.com/joeqian10/neo3-gogogo-legacy/mpt"
	"github.com/joeqian10/neo3-gogogo-legacy/rpc/models"
	"github.com/joeqian10/neo3-gogogo-legacy/sc"
	"github.com/joeqian10/neo3-gogogo-legacy/tx"
	"github.com/polynetwork/poly/common"
	cstates "github.com/polynetwork/poly/core/states"
	ccmcom "github.com/polynetwork/poly/native/service/cross_chain_manager/common"
	ccmneo3l "github.com/polynetwork/poly/native/service/cross_chain_manager/neo3legacy"
	"github.com/polynetwork/poly/native/service/governance/neo3_state_manager"
	hscommon "github.com/polynetwork/poly/native/service/header_sync/common"
	"github.com/polynetwork/poly/native/service/header_sync/neo3legacy"
	"github.com/polynetwork/poly/native/service/utils"
	"github.com/polynetwork/poly/native/storage"
	"polyverif/internal/hx"
)

// Family neo3 (NEO N3 router: C24 state-root path against the registered state validators, C31 header path).
// Same descriptors and signature specs as family neo. Additional ops:
//
//	nsv <k1,k2,...|->                         store the registered state validators (raw write of the record that
//	                                          neo3_state_manager.GetCurrentStateValidator reads)
//	nmsg3 <index> <wscript|-> <sigs>          neo3legacy.VerifyCrossChainMsgSig, and cross_chain_manager Neo3Handler.MakeDepositProposal
//	                                          up to the proof check
type n3lFam struct {
	db     *storage.CacheDB
	stream string
	known  map[string]string
	svs    []int
}

const n3lChainID = 88
const n3lMagic = 0x334f454e

func init() {
	families["neo3lmsg"] = func() hx.Family { return &n3lFam{stream: "msg"} }
	families["neo3lhdr"] = func() hx.Family { return &n3lFam{stream: "hdr"} }
}

var n3lKeys = func() []*keys.KeyPair {
	ks := make([]*keys.KeyPair, neoPool)
	for i := range ks {
		d := sha256.Sum256([]byte(fmt.Sprintf("polyverif-neo3l-key-%d", i)))
		k, err := keys.NewKeyPair(d[:])
		if err != nil {
			panic(err)
		}
		ks[i] = k
	}
	sort.Slice(ks, func(i, j int) bool { return ks[i].PublicKey.CompareTo(ks[j].PublicKey) < 0 })
	return ks
}()

// n3lScript: m-of-n CheckMultisig script with the keys in the order given (same byte layout as
// sc.CreateMultiSigRedeemScript, which sorts).
func n3lScript(d neoDesc) []byte {
	b := sc.NewScriptBuilder()
	b.EmitPushInteger(d.m)
	for _, k := range d.keys {
		b.EmitPushBytes(n3lKeys[k].PublicKey.EncodePoint(true))
	}
	b.EmitPushInteger(len(d.keys))
	b.EmitSysCall(sc.System_Crypto_CheckMultisig.ToInteropMethodHash())
	out, err := b.ToArray()
	if err != nil {
		panic(err)
	}
	return out
}

func (f *n3lFam) descHash(s string) (*helper.UInt160, bool) {
	d, ok := parseNeoDesc(s)
	if !ok {
		return nil, false
	}
	h := crypto.BytesToScriptHash(n3lScript(d))
	f.known[hex.EncodeToString(h.ToByteArray())] = s
	return h, true
}

func n3lInvocation(specs []sigSpec, msg []byte) []byte {
	b := sc.NewScriptBuilder()
	for _, sp := range specs {
		var sig []byte
		var err error
		switch sp.kind {
		case 'g':
			sig, err = n3lKeys[sp.key].Sign(msg)
		case 'w':
			other := sha256.Sum256(append([]byte("other"), msg...))
			sig, err = n3lKeys[sp.key].Sign(other[:])
		default:
			sig = make([]byte, 64)
			for i := range sig {
				sig[i] = byte(0x11 + i)
			}
		}
		if err != nil {
			panic(err)
		}
		b.EmitPushBytes(sig)
	}
	out, err := b.ToArray()
	if err != nil {
		panic(err)
	}
	return out
}

func (f *n3lFam) Reset(r *hx.Run) {
	f.db = newCacheDB()
	f.known = map[string]string{}
	f.svs = nil
	putSideChain(f.db, n3lChainID, 14, []byte{1, 0, 0, 0}, helper.UInt32ToBytes(n3lMagic))
}

func n3lErrClass(err error) string {
	if err == nil {
		return "ok"
	}
	m := err.Error()
	switch {
	case strings.Contains(m, "has not been initialized") || strings.Contains(m, "get Consensus error"):
		return "reject:noconsensus"
	case strings.Contains(m, "had been initialized"):
		return "reject:initialized"
	case strings.Contains(m, "invalid script hash"):
		return "reject:scripthash"
	case strings.Contains(m, "getScripthash error"):
		return "reject:noscript"
	case strings.Contains(m, "CreateMultiSigContract error"):
		return "reject:contract"
	case strings.Contains(m, "VerifyMultiSignatureWitness error") || strings.Contains(m, "verify witness failed"):
		return "reject:witness"
	case strings.Contains(m, "incorrect witness length"):
		return "reject:nowitness"
	case strings.Contains(m, "VerifyFromNeoTx error") || strings.Contains(m, "Verify Neo cross chain proof error"):
		return "verified"
	case strings.Contains(m, "Deserialize error") || strings.Contains(m, "FromBytes error"):
		return "reject:decode"
	}
	return "reject:other:" + strings.ReplaceAll(m, " ", "_")
}

func (f *n3lFam) tracked() (*neo3legacy.NeoConsensus, bool) {
	raw, err := f.db.Get(utils.ConcatKey(utils.HeaderSyncContractAddress, []byte(hscommon.CONSENSUS_PEER), utils.GetUint64Bytes(n3lChainID)))
	if err != nil || raw == nil {
		return nil, false
	}
	b, err := cstates.GetValueFromRawStorageItem(raw)
	if err != nil {
		return nil, false
	}
	c := new(neo3legacy.NeoConsensus)
	if err := c.Deserialization(common.NewZeroCopySource(b)); err != nil {
		return nil, false
	}
	return c, true
}

func (f *n3lFam) showTracked() string {
	c, ok := f.tracked()
	if !ok {
		return "none"
	}
	d, ok := f.known[hex.EncodeToString(c.NextConsensus.ToByteArray())]
	if !ok {
		d = "?"
	}
	return fmt.Sprintf("h=%d c=%s", c.Height, d)
}

func n3lDistinctValid(d neoDesc, inv []byte, msg []byte) int {
	seen := map[int]bool{}
	for off := 0; off+66 <= len(inv); off += 66 {
		sig := inv[off+2 : off+66]
		for _, k := range d.keys {
			if !seen[k] && keys.VerifySignature(msg, sig, n3lKeys[k].PublicKey) {
				seen[k] = true
				break
			}
		}
	}
	return len(seen)
}

func (f *n3lFam) buildHeader(h neoHdrSpec) ([]byte, *neo3legacy.NeoBlockHeader, []byte, neoDesc, bool) {
	next, ok1 := f.descHash(h.next)
	wd, ok2 := parseNeoDesc(h.wscript)
	specs, ok3 := parseSigs(h.sigs)
	if !ok1 || !ok2 || !ok3 {
		return nil, nil, nil, wd, false
	}
	f.descHash(h.wscript)
	bh := block.NewBlockHeader()
	bh.SetIndex(h.index)
	bh.SetTimeStamp(1600000000000 + uint64(h.index))
	bh.SetNextConsensus(next)
	if h.link && len(h.prev) == 32 {
		bh.SetPrevHash(helper.UInt256FromBytes(h.prev))
	}
	bh.Witness = &tx.Witness{InvocationScript: []byte{}, VerificationScript: n3lScript(wd)}
	nh := &neo3legacy.NeoBlockHeader{Header: bh}
	msg, err := nh.GetMessage(n3lMagic)
	if err != nil {
		panic(err)
	}
	bh.Witness = &tx.Witness{InvocationScript: n3lInvocation(specs, msg), VerificationScript: n3lScript(wd)}
	sink := common.NewZeroCopySink(nil)
	if err := nh.Serialization(sink); err != nil {
		panic(err)
	}
	return sink.Bytes(), nh, msg, wd, true
}

func (f *n3lFam) Exec(r *hx.Run, op []string) string {
	switch op[0] {
	case "ngen":
		if len(op) != 3 {
			return "bad-op"
		}
		idx, err := strconv.ParseUint(op[1], 10, 32)
		if err != nil {
			return "bad-op"
		}
		raw, _, _, _, ok := f.buildHeader(neoHdrSpec{index: uint32(idx), next: op[2], wscript: "1:0", sigs: "-"})
		if !ok {
			return "bad-op"
		}
		p := &hscommon.SyncGenesisHeaderParam{ChainID: n3lChainID, GenesisHeader: raw}
		ps := common.NewZeroCopySink(nil)
		p.Serialization(ps)
		if err := neo3legacy.NewNeo3Handler().SyncGenesisHeader(newNativeAnon(f.db, ps.Bytes())); err == nil {
			r.Viol("C31:neo3legacy-genesis-without-operator-witness", "SyncGenesisHeader accepted a transaction that is not witnessed by the consensus operator")
		}
		return n3lErrClass(neo3legacy.NewNeo3Handler().SyncGenesisHeader(newNative(f.db, ps.Bytes()))) + " " + f.showTracked()
	case "nhdr":
		var specs []neoHdrSpec
		for _, tok := range op[1:] {
			if tok == "|" {
				continue
			}
			q := strings.Split(tok, "/")
			if len(q) != 4 && !(len(q) == 5 && q[4] == "p") {
				return "bad-op"
			}
			idx, err := strconv.ParseUint(q[0], 10, 32)
			if err != nil {
				return "bad-op"
			}
			specs = append(specs, neoHdrSpec{index: uint32(idx), next: q[1], wscript: q[2], sigs: q[3], link: len(q) == 5})
		}
		before, had := f.tracked()
		p := &hscommon.SyncBlockHeaderParam{ChainID: n3lChainID}
		type built struct {
			nh  *neo3legacy.NeoBlockHeader
			msg []byte
			wd  neoDesc
		}
		var bs []built
		var prevHash []byte
		for _, s := range specs {
			s.prev = prevHash
			raw, nh, msg, wd, ok := f.buildHeader(s)
			if !ok {
				return "bad-op"
			}
			prevHash = append([]byte{}, nh.GetHash().ToByteArray()...)
			p.Headers = append(p.Headers, raw)
			bs = append(bs, built{nh, msg, wd})
		}
		ps := common.NewZeroCopySink(nil)
		p.Serialization(ps)
		err := neo3legacy.NewNeo3Handler().SyncBlockHeader(newNative(f.db, ps.Bytes()))
		res := n3lErrClass(err)
		after, has := f.tracked()
		if had && has && (after.Height != before.Height || !after.NextConsensus.Equals(before.NextConsensus)) {
			if res != "ok" {
				r.Viol("C31:neo3legacy:changed-although-rejected", fmt.Sprintf("tracked consensus changed although the batch was rejected (%s)", res))
			}
			found := false
			for _, b := range bs {
				if b.nh.GetIndex() == after.Height && b.nh.GetNextConsensus().Equals(after.NextConsensus) {
					wh := b.nh.Witness.GetScriptHash()
					if b.nh.GetIndex() > before.Height && wh.Equals(before.NextConsensus) &&
						n3lDistinctValid(b.wd, b.nh.Witness.InvocationScript, b.msg) >= b.wd.m && b.wd.m >= 1 {
						found = true
					}
				}
			}
			if !found {
				r.Viol("C31:neo3legacy:consensus-changed-without-authenticated-header",
					fmt.Sprintf("tracked consensus moved from height %d to %d but no header of the batch at that index is above the tracked height, carries the tracked script and m distinct genuine signatures", before.Height, after.Height))
			}
			if after.Height <= before.Height {
				r.Viol("C31:neo3legacy:height-not-increased", fmt.Sprintf("tracked height went from %d to %d", before.Height, after.Height))
			}
		}
		if !had && has {
			r.Viol("C31:neo3legacy:consensus-installed-by-header-sync", "SyncBlockHeader created a tracked consensus record")
		}
		return res + " " + f.showTracked()
	case "nsv":
		if len(op) != 2 {
			return "bad-op"
		}
		idx, ok := parseIdx(op[1])
		if !ok {
			return "bad-op"
		}
		strs := make([]string, len(idx))
		for i, k := range idx {
			strs[i] = hex.EncodeToString(n3lKeys[k].PublicKey.EncodePoint(true))
		}
		f.svs = idx
		f.db.Put(utils.ConcatKey(utils.Neo3StateManagerContractAddress, []byte(neo3_state_manager.STATE_VALIDATOR)),
			cstates.GenRawStorageItem(neo3_state_manager.SerializeStringArray(strs)))
		return "ok"
	case "nmsg3":
		rootByte, okr := neoRootVariant(op, 4)
		if !okr {
			return "bad-op"
		}
		idx, err := strconv.ParseUint(op[1], 10, 32)
		specs, ok2 := parseSigs(op[3])
		if err != nil || !ok2 {
			return "bad-op"
		}
		msg := &neo3legacy.NeoCrossChainMsg{StateRoot: &mpt.StateRoot{Version: 0, Index: uint32(idx), RootHash: "0x" + strings.Repeat(rootByte, 32)}}
		unsigned, err := msg.GetMessage(n3lMagic)
		if err != nil {
			panic(err)
		}
		var wd neoDesc
		var inv []byte
		if op[2] != "-" {
			var ok bool
			wd, ok = parseNeoDesc(op[2])
			if !ok {
				return "bad-op"
			}
			inv = n3lInvocation(specs, unsigned)
			msg.Witnesses = []models.RpcWitness{{Invocation: crypto.Base64Encode(inv), Verification: crypto.Base64Encode(n3lScript(wd))}}
		}
		res := n3lErrClass(neo3legacy.VerifyCrossChainMsgSig(newNative(f.db, nil), n3lMagic, msg))
		if op[2] != "-" {
			// the same state root through the deposit handler, with a well-formed proof for another contract id
			// (NOTE: malformed proofs can make the library's proof reader loop; never pass an empty one)
			sink := common.NewZeroCopySink(nil)
			if err := msg.Serialization(sink); err != nil {
				panic(err)
			}
			ep := &ccmcom.EntranceParam{SourceChainID: n3lChainID, Height: uint32(idx), Proof: []byte{5, 99, 0, 0, 0, 0x41, 0}, RelayerAddress: []byte{},
				Extra: []byte{}, HeaderOrCrossChainMsg: sink.Bytes()}
			ps := common.NewZeroCopySink(nil)
			ep.Serialization(ps)
			res2 := "panic"
			func() {
				defer func() {
					if e := recover(); e != nil {
						res2 = "panic:" + strings.ReplaceAll(fmt.Sprint(e), " ", "_")
					}
				}()
				_, err2 := ccmneo3l.NewNeo3Handler().MakeDepositProposal(newNative(f.db, ps.Bytes()))
				res2 = n3lErrClass(err2)
			}()
			if (res == "ok") != (res2 == "verified") || (res != "ok" && res2 != res) {
				return res + " DEPOSIT-HANDLER-DIFFERS:" + res2
			}
		}
		if res == "ok" {
			// property oracle (C24): the script must be over exactly the registered validators with m = n-(n-1)/3 and
			// carry m genuine signatures by distinct registered validators
			n := len(f.svs)
			need := n - (n-1)/3
			reg := map[int]bool{}
			for _, k := range f.svs {
				reg[k] = true
			}
			same := len(wd.keys) == n
			for _, k := range wd.keys {
				if !reg[k] {
					same = false
				}
			}
			d := n3lDistinctValid(wd, inv, unsigned)
			if !same || wd.m < need || d < need || n == 0 {
				r.Viol("C24:neo3legacy-msg:accepted-below-distinct-quorum",
					fmt.Sprintf("state root %d accepted with %d distinct genuine signers of script %s; registered validators %v need %d", idx, d, op[2], f.svs, need))
			}
		}
		return res
	case "nstate":
		return f.showTracked()
	}
	return "bad-op"
}

// ---- generators ----

func (f *n3lFam) Gen(r *hx.Run) {
	if f.stream == "msg" {
		f.genMsg(r)
	} else {
		f.genHdr(r)
	}
}

func (f *n3lFam) genMsg(r *hx.Run) {
	r.Rule("NEO N3 state roots against registered state-validator sets of 0..10 keys (m = n-(n-1)/3) x 11 signature-list shapes x " +
		"{the expected script, same keys with a lower m, a subset script, another key set, unsorted key order, no witness}; " +
		"through VerifyCrossChainMsgSig; distinct non-trivial = (n, shape, script kind, outcome)")
	rounds := r.Pick(3, 60)
	id := 0
	for round := 0; round < rounds; round++ {
		for n := 0; n <= 10; n++ {
			id++
			r.Case(fmt.Sprintf("neo3lmsg-%d-%d", n, id))
			ks := sortedCopy(r.Rng.Perm(neoPool)[:n])
			// registered in a random order (the handler sorts)
			reg := make([]int, n)
			for i, p := range r.Rng.Perm(n) {
				reg[i] = ks[p]
			}
			r.Do("nsv " + joinInts(reg))
			m := neoConsM(n)
			idx := 100
			if n == 0 {
				res := r.Do("nmsg3 101 1:0 g0")
				r.Nontrivial(fmt.Sprintf("0/exact/any/%s", res))
				continue
			}
			cons := neoDescOf(m, ks)
			for shape := 0; shape < neoSigShapes; shape++ {
				idx++
				sigs, label := neoSigShape(r, m, ks, shape)
				res := r.Do(fmt.Sprintf("nmsg3 %d %s %s", idx, cons, sigs))
				r.Nontrivial(fmt.Sprintf("%d/%s/expected/%s", n, label, res))
				r.Hist("shape." + label)
				r.Hist("outcome." + res)
				if id%7 == 1 && shape == 3 {
					r.Sample(map[string]interface{}{"validators": reg, "script": cons, "sigs": sigs, "outcome": res})
				}
			}
			if m > 1 {
				res := r.Do(fmt.Sprintf("nmsg3 %d %s g%d", idx+1, neoDescOf(1, ks), ks[0]))
				r.Nontrivial(fmt.Sprintf("%d/exact/weaker-m/%s", n, res))
				sub := ks[:len(ks)-1]
				sigs, _ := neoSigShape(r, neoConsM(len(sub)), sub, 0)
				res = r.Do(fmt.Sprintf("nmsg3 %d %s %s", idx+2, neoDescOf(neoConsM(len(sub)), sub), sigs))
				r.Nontrivial(fmt.Sprintf("%d/exact/subset-script/%s", n, res))
			}
			ks2 := sortedCopy(r.Rng.Perm(neoPool)[:1+r.Rng.Intn(7)])
			sigs2, _ := neoSigShape(r, neoConsM(len(ks2)), ks2, 0)
			res := r.Do(fmt.Sprintf("nmsg3 %d %s %s", idx+3, neoDescOf(neoConsM(len(ks2)), ks2), sigs2))
			r.Nontrivial(fmt.Sprintf("%d/exact/other-script/%s", n, res))
			res = r.Do(fmt.Sprintf("nmsg3 %d - -", idx+4))
			r.Nontrivial(fmt.Sprintf("%d/empty/no-witness/%s", n, res))
			neoAlteredReplays(r, "nmsg3", n, idx+10, m, ks, cons, neoDescOf(neoConsM(len(ks2)), ks2), sigs2)
			if n > 1 {
				perm := append([]int{}, ks...)
				perm[0], perm[1] = perm[1], perm[0]
				sigs3, _ := neoSigShape(r, m, ks, 0)
				res = r.Do(fmt.Sprintf("nmsg3 %d %s %s", idx+5, neoDescOf(m, perm), sigs3))
				r.Nontrivial(fmt.Sprintf("%d/exact/permuted-script/%s", n, res))
			}
		}
	}
}

func (f *n3lFam) genHdr(r *hx.Run) {
	neoGenHdr(r, "neo3lhdr")
}
