package main

import (
	"encoding/hex"
	"encoding/json"
	"fmt"
	"math/big"

	ecommon "github.com/ethereum/go-ethereum/common"
	etypes "github.com/ethereum/go-ethereum/core/types"
	"github.com/ethereum/go-ethereum/crypto"
	"github.com/ethereum/go-ethereum/ethdb/memorydb"
	"github.com/ethereum/go-ethereum/light"
	"github.com/ethereum/go-ethereum/rlp"
	"github.com/ethereum/go-ethereum/trie"
	"github.com/polynetwork/poly/native/service/header_sync/eth"
)

// Synthetic Ethereum state for driving the eth router to acceptance: one contract account (the side chain's
// cross-chain-manager contract) whose storage holds, for every message, keccak256(message) in its own slot — the
// layout the real eth handler proves against the state root of a synced header. The header is installed through the
// real SyncGenesisHeader of the eth router.

var ethCCMC = ecommon.HexToAddress("0x00000000000000000000000000000000cc00cc01")

const ethGenesisHeight = 7000

type ethState struct {
	root   ecommon.Hash
	proofs map[string][]byte // extra (hex) -> ETHProof JSON
}

type ethStorageProof struct {
	Key   string   `json:"key"`
	Value string   `json:"value"`
	Proof []string `json:"proof"`
}

type ethProofJSON struct {
	Address       string            `json:"address"`
	Balance       string            `json:"balance"`
	CodeHash      string            `json:"codeHash"`
	Nonce         string            `json:"nonce"`
	StorageHash   string            `json:"storageHash"`
	AccountProof  []string          `json:"accountProof"`
	StorageProofs []ethStorageProof `json:"storageProof"`
}

func nodeHexes(nl *light.NodeList) []string {
	var out []string
	for _, n := range *nl {
		out = append(out, "0x"+hex.EncodeToString(n))
	}
	return out
}

func buildEthState(chain uint64, extras [][]byte) (*ethState, error) {
	st, err := trie.New(ecommon.Hash{}, trie.NewDatabase(memorydb.New()))
	if err != nil {
		return nil, err
	}
	slots := make([]ecommon.Hash, len(extras))
	for i, ex := range extras {
		slots[i] = ecommon.Hash(h32(fmt.Sprintf("slot-%d", chain), i))
		val, _ := rlp.EncodeToBytes(ecommon.TrimLeftZeroes(crypto.Keccak256(ex)))
		st.Update(crypto.Keccak256(slots[i].Bytes()), val)
	}
	// a few unrelated slots so that proofs have branch nodes
	for i := 0; i < 5; i++ {
		k := h32("filler", i)
		v, _ := rlp.EncodeToBytes([]byte{byte(i + 1)})
		st.Update(crypto.Keccak256(k[:]), v)
	}
	storageRoot := st.Hash()
	codeHash := ecommon.Hash(h32("code", 0))
	type account struct {
		Nonce    *big.Int
		Balance  *big.Int
		Storage  ecommon.Hash
		Codehash ecommon.Hash
	}
	accRLP, _ := rlp.EncodeToBytes(&account{big.NewInt(1), big.NewInt(0), storageRoot, codeHash})
	at, err := trie.New(ecommon.Hash{}, trie.NewDatabase(memorydb.New()))
	if err != nil {
		return nil, err
	}
	at.Update(crypto.Keccak256(ethCCMC.Bytes()), accRLP)
	for i := 0; i < 6; i++ {
		k := h32("otheraccount", i)
		at.Update(crypto.Keccak256(k[:20]), accRLP)
	}
	es := &ethState{root: at.Hash(), proofs: map[string][]byte{}}
	accProof := new(light.NodeList)
	if err := at.Prove(crypto.Keccak256(ethCCMC.Bytes()), 0, accProof); err != nil {
		return nil, err
	}
	for i, ex := range extras {
		sp := new(light.NodeList)
		if err := st.Prove(crypto.Keccak256(slots[i].Bytes()), 0, sp); err != nil {
			return nil, err
		}
		pj := ethProofJSON{Address: ethCCMC.Hex(), Balance: "0x0", CodeHash: codeHash.Hex(), Nonce: "0x1", StorageHash: storageRoot.Hex(),
			AccountProof: nodeHexes(accProof), StorageProofs: []ethStorageProof{{Key: slots[i].Hex(), Value: "0x" + hex.EncodeToString(crypto.Keccak256(ex)), Proof: nodeHexes(sp)}}}
		b, _ := json.Marshal(pj)
		es.proofs[hex.EncodeToString(ex)] = b
	}
	return es, nil
}

func ethGenesisWithRoot(root ecommon.Hash) ([]byte, error) {
	h := eth.Header{ParentHash: ecommon.Hash(h32("ethdrive-parent", 0)), UncleHash: etypes.EmptyUncleHash, Coinbase: ecommon.Address{9},
		Root: root, TxHash: etypes.EmptyRootHash, ReceiptHash: etypes.EmptyRootHash, Difficulty: big.NewInt(2),
		Number: big.NewInt(ethGenesisHeight), GasLimit: 8000000, GasUsed: 0, Time: 1600000000, Extra: []byte("polyverif"),
		MixDigest: ecommon.Hash{}, Nonce: etypes.BlockNonce{}}
	return json.Marshal(h)
}
