package main

import (
	"encoding/hex"
	"encoding/json"
	"fmt"
	"os"
	"sort"
	"strings"

	"github.com/polynetwork/poly/common"
	"github.com/polynetwork/poly/core/store/leveldbstore"
	"github.com/polynetwork/poly/core/store/overlaydb"
	"github.com/polynetwork/poly/native/service/utils"
	"github.com/polynetwork/poly/native/storage"
	"polyverif/internal/hx"
)

// Family keys (C17): the real utils.ConcatKey and the real storage.CacheDB over a real OverlayDB.
//
//	put <label> <contract20> <value> <f1> ... <fn>  -> raw key (hex) that appeared in the block overlay's write set
//	get <label> <contract20> <f1> ... <fn>          -> value (hex) | nil
//	del <label> <contract20> <f1> ... <fn>          -> raw key whose entry became a delete marker
//	hold <label> <contract20> <f1> .. <fn> / <g1> .. <gm>   k1 := ConcatKey(c, f..) is kept while k2 := ConcatKey(c, g..) is
//	                                                built; -> k1 (as it reads after k2 was built) and k2
//	par <label> <contract20> <f1> .. <fn> / <g1> .. <gm>    two goroutines build their own key 300 times each and compare it
//	                                                with the bytes written by hand -> ok | corrupt
//
// <label> names the construction site family (contract:shape index) and is ignored by the model. The property
// oracle remembers which (contract, field list) wrote each raw key: a second, different field list producing the
// same raw key is a collision (C17:key-collision:...), a raw key that does not start with ST_STORAGE ‖ contract is
// a confinement failure.
type keysFam struct {
	store   *leveldbstore.LevelDBStore
	overlay *overlaydb.OverlayDB
	cache   *storage.CacheDB
	owner   map[string]string // raw key -> label \x00 field list
	seen    map[string]bool
}

func init() { families["keys"] = func() hx.Family { return &keysFam{} } }

func (f *keysFam) Reset(r *hx.Run) {
	if f.store != nil {
		f.store.Close()
	}
	store, err := leveldbstore.NewMemLevelDBStore()
	if err != nil {
		panic(err)
	}
	f.store = store
	f.overlay = overlaydb.NewOverlayDB(store)
	f.cache = storage.NewCacheDB(f.overlay)
	f.owner = map[string]string{}
	f.seen = map[string]bool{}
}

func (f *keysFam) writeSet() map[string][]byte {
	m := map[string][]byte{}
	f.overlay.GetWriteSet().ForEach(func(k, v []byte) {
		m[string(k)] = append([]byte{}, v...)
	})
	return m
}

func concatByHand(addr common.Address, fields [][]byte) []byte {
	out := append([]byte{}, addr[:]...)
	for _, x := range fields {
		out = append(out, x...)
	}
	return out
}

func (f *keysFam) holdOrPar(r *hx.Run, op []string) string {
	addr, err := common.AddressParseFromBytes(hx.UnHex(op[2]))
	if err != nil {
		return "bad-op"
	}
	var a, b [][]byte
	cur := &a
	for _, t := range op[3:] {
		if t == "/" {
			cur = &b
			continue
		}
		*cur = append(*cur, hx.UnHex(t))
	}
	wantA, wantB := concatByHand(addr, a), concatByHand(addr, b)
	if op[0] == "hold" {
		k1 := utils.ConcatKey(addr, a...)
		k2 := utils.ConcatKey(addr, b...)
		if string(k1) != string(wantA) {
			r.Viol("C17:key-changed-after-later-concat:"+op[1], fmt.Sprintf("k1 := ConcatKey(%x, %s) read %x after k2 := ConcatKey(.., %s) was built; it was %x", addr[:], strings.Join(op[3:], " "), k1, hx.Hex(wantB), wantA))
		}
		if string(k2) != string(wantB) {
			r.Viol("C17:key-wrong:"+op[1], fmt.Sprintf("ConcatKey gives %x, the fields written in order are %x", k2, wantB))
		}
		return hx.Hex(k1) + " " + hx.Hex(k2)
	}
	bad := make(chan string, 2)
	done := make(chan bool, 2)
	work := func(fields [][]byte, want []byte) {
		for i := 0; i < 300; i++ {
			k := utils.ConcatKey(addr, fields...)
			keep := utils.ConcatKey(addr, fields...)
			if string(k) != string(want) || string(keep) != string(want) {
				select {
				case bad <- fmt.Sprintf("%x instead of %x", k, want):
				default:
				}
				break
			}
		}
		done <- true
	}
	go work(a, wantA)
	go work(b, wantB)
	<-done
	<-done
	select {
	case m := <-bad:
		r.Viol("C17:key-changed-by-concurrent-concat:"+op[1], "two goroutines building keys of one contract: a key read "+m)
		return "corrupt"
	default:
	}
	return "ok"
}

func (f *keysFam) Exec(r *hx.Run, op []string) string {
	if len(op) < 3 {
		return "bad-op"
	}
	if op[0] == "hold" || op[0] == "par" {
		return f.holdOrPar(r, op)
	}
	label := op[1]
	addr, err := common.AddressParseFromBytes(hx.UnHex(op[2]))
	if err != nil {
		return "bad-op"
	}
	rest := op[3:]
	var value []byte
	if op[0] == "put" {
		if len(rest) < 1 {
			return "bad-op"
		}
		value = hx.UnHex(rest[0])
		rest = rest[1:]
	}
	fields := make([][]byte, len(rest))
	for i, a := range rest {
		fields[i] = hx.UnHex(a)
	}
	key := utils.ConcatKey(addr, fields...)
	ident := strings.Join(rest, ",")
	switch op[0] {
	case "put", "del":
		before := f.writeSet()
		if op[0] == "put" {
			f.cache.Put(key, value)
		} else {
			f.cache.Delete(key)
		}
		f.cache.Commit()
		f.cache.Reset()
		after := f.writeSet()
		var changed []string
		for k, v := range after {
			if old, ok := before[k]; !ok || string(old) != string(v) {
				changed = append(changed, k)
			}
		}
		sort.Strings(changed)
		var outs []string
		for _, k := range changed {
			outs = append(outs, hex.EncodeToString([]byte(k)))
			if len(k) < 21 || k[0] != 0x05 || k[1:21] != string(addr[:]) {
				r.Viol("C17:write-outside-contract-namespace:"+label, fmt.Sprintf("a put/delete through CacheDB with contract %x changed the raw key %x, which does not start with ST_STORAGE ‖ contract", addr[:], k))
			}
			if prev, ok := f.owner[k]; ok && prev[strings.Index(prev, "\x00")+1:] != ident {
				pl := prev[:strings.Index(prev, "\x00")]
				a, b := pl, label
				if a > b {
					a, b = b, a
				}
				r.Viol("C17:key-collision:"+a+"~"+b, fmt.Sprintf("two different field lists give the same storage key %x: [%s] (site family %s) and [%s] (site family %s)", k, prev[strings.Index(prev, "\x00")+1:], pl, ident, label))
			}
			f.owner[k] = label + "\x00" + ident
		}
		if len(changed) == 0 {
			return "unchanged"
		}
		return strings.Join(outs, " ")
	case "get":
		v, err := f.cache.Get(key)
		if err != nil {
			return "reject:store"
		}
		if len(v) == 0 {
			return "nil"
		}
		return hx.Hex(v)
	}
	return "bad-op"
}

type ksSeg struct {
	Kind string `json:"kind"`
	Lit  string `json:"lit"`
	N    int    `json:"n"`
}
type ksShape struct {
	Segs []ksSeg `json:"segs"`
}
type ksContract struct {
	Name   string    `json:"name"`
	Addr   string    `json:"addr"`
	Shapes []ksShape `json:"shapes"`
}
type ksFile struct {
	Contracts []ksContract `json:"contracts"`
}

func (f *keysFam) randArgs(r *hx.Run, s ksShape) []string {
	out := make([]string, len(s.Segs))
	for i, g := range s.Segs {
		switch g.Kind {
		case "lit":
			out[i] = g.Lit
			if out[i] == "" {
				out[i] = "-"
			}
		case "fixed":
			var b []byte
			switch r.Rng.Intn(5) {
			case 0:
				b = make([]byte, g.N)
			case 1:
				b = make([]byte, g.N)
				for j := range b {
					b[j] = 0xff
				}
			case 2:
				b = make([]byte, g.N)
				if g.N > 0 {
					b[0] = byte(1 + r.Rng.Intn(3))
				}
			default:
				b = r.Rng.Bytes(g.N)
			}
			out[i] = hx.Hex(b)
		default:
			n := []int{0, 1, 2, 4, 8, 20, 32, 33, 64}[r.Rng.Intn(9)]
			out[i] = hx.Hex(r.Rng.Bytes(n))
		}
	}
	return out
}

// fit tries to read the byte string y as a key of shape s (fields of unknown width take what is left over).
func fit(s ksShape, y []byte) ([]string, bool) {
	minRest := make([]int, len(s.Segs)+1)
	for i := len(s.Segs) - 1; i >= 0; i-- {
		w := 0
		switch s.Segs[i].Kind {
		case "lit":
			w = len(s.Segs[i].Lit) / 2
		case "fixed":
			w = s.Segs[i].N
		}
		minRest[i] = minRest[i+1] + w
	}
	out := make([]string, len(s.Segs))
	pos := 0
	for i, g := range s.Segs {
		switch g.Kind {
		case "lit":
			l, _ := hex.DecodeString(g.Lit)
			if pos+len(l) > len(y) || string(y[pos:pos+len(l)]) != string(l) {
				return nil, false
			}
			out[i] = hx.Hex(l)
			pos += len(l)
		case "fixed":
			if pos+g.N > len(y) {
				return nil, false
			}
			out[i] = hx.Hex(y[pos : pos+g.N])
			pos += g.N
		default:
			take := len(y) - pos - minRest[i+1]
			if take < 0 {
				return nil, false
			}
			out[i] = hx.Hex(y[pos : pos+take])
			pos += take
		}
	}
	return out, pos == len(y)
}

func (f *keysFam) Gen(r *hx.Run) {
	r.Rule("every generated key shape of every contract × random field values (boundary widths for fields of unknown width), plus for every ordered pair of shapes of a contract the attempt to re-read a key of one shape as a key of the other (adversarial fit); distinct non-trivial = (contract, shape) and (contract, shape pair) exercised")
	path := os.Getenv("VERIF_KEYSHAPES")
	var ks ksFile
	if data, err := os.ReadFile(path); err == nil {
		json.Unmarshal(data, &ks)
	}
	if len(ks.Contracts) == 0 {
		fmt.Fprintln(os.Stderr, "keys: VERIF_KEYSHAPES not set or empty")
		os.Exit(3)
	}
	per := r.Pick(6, 60)
	for _, c := range ks.Contracts {
		if len(c.Addr) != 40 {
			continue
		}
		r.Case("contract-" + c.Name)
		n := 0
		for si, s := range c.Shapes {
			label := fmt.Sprintf("%s:%d", c.Name, si)
			for k := 0; k < per; k++ {
				args := f.randArgs(r, s)
				n++
				val := fmt.Sprintf("%04x", n)
				r.Do(fmt.Sprintf("put %s %s %s %s", label, c.Addr, val, strings.Join(args, " ")))
				if k%2 == 0 {
					r.Do(fmt.Sprintf("get %s %s %s", label, c.Addr, strings.Join(args, " ")))
				}
				if k%5 == 4 {
					r.Do(fmt.Sprintf("del %s %s %s", label, c.Addr, strings.Join(args, " ")))
					r.Do(fmt.Sprintf("get %s %s %s", label, c.Addr, strings.Join(args, " ")))
				}
			}
			// a key kept alive while the next key of the same kind is built (short fields: total length within 48 bytes
			// as well as long ones), sequentially and from two goroutines
			for k := 0; k < r.Pick(2, 8); k++ {
				a1, a2 := f.randArgs(r, s), f.randArgs(r, s)
				r.Do(fmt.Sprintf("hold %s %s %s / %s", label, c.Addr, strings.Join(a1, " "), strings.Join(a2, " ")))
				if k == 0 {
					r.Do(fmt.Sprintf("par %s %s %s / %s", label, c.Addr, strings.Join(a1, " "), strings.Join(a2, " ")))
				}
			}
			r.Nontrivial(label)
		}
		// adversarial: a key of shape t re-read as shape s
		for si, s := range c.Shapes {
			for ti, t := range c.Shapes {
				if si == ti {
					continue
				}
				for k := 0; k < r.Pick(2, 10); k++ {
					targs := f.randArgs(r, t)
					var y []byte
					for _, a := range targs {
						y = append(y, hx.UnHex(a)...)
					}
					sargs, ok := fit(s, y)
					if !ok {
						r.Hist("fit.no")
						continue
					}
					r.Hist("fit.yes")
					n++
					r.Do(fmt.Sprintf("put %s:%d %s %04x %s", c.Name, ti, c.Addr, n, strings.Join(targs, " ")))
					n++
					r.Do(fmt.Sprintf("put %s:%d %s %04x %s", c.Name, si, c.Addr, n, strings.Join(sargs, " ")))
					r.Do(fmt.Sprintf("get %s:%d %s %s", c.Name, ti, c.Addr, strings.Join(targs, " ")))
					r.Nontrivial(fmt.Sprintf("%s:%d~%d", c.Name, si, ti))
				}
			}
		}
	}
	// the same fields under different contracts
	r.Case("cross-contract")
	for i, c := range ks.Contracts {
		if len(c.Addr) != 40 {
			continue
		}
		r.Do(fmt.Sprintf("put %s:x %s %04x 73616d65 0100000000000000", c.Name, c.Addr, i+1))
	}
	for _, c := range ks.Contracts {
		if len(c.Addr) == 40 {
			r.Do(fmt.Sprintf("get %s:x %s 73616d65 0100000000000000", c.Name, c.Addr))
		}
	}
}
