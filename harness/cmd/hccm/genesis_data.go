package main

import (
	"bytes"
	"crypto/sha256"
	"encoding/binary"
	"encoding/json"
	"fmt"
	"math/big"
	"time"

	"github.com/btcsuite/btcd/chaincfg/chainhash"
	"github.com/btcsuite/btcd/wire"
	ecommon "github.com/ethereum/go-ethereum/common"
	etypes "github.com/ethereum/go-ethereum/core/types"
	"github.com/ethereum/go-ethereum/rlp"
	ocommon "github.com/ontio/ontology/common"
	otypes "github.com/ontio/ontology/core/types"
	"github.com/polynetwork/poly/common"
	"github.com/polynetwork/poly/native/service/header_sync/cosmos"
	"github.com/polynetwork/poly/native/service/header_sync/eth"
	"github.com/polynetwork/poly/native/service/header_sync/quorum"
	tmtypes "github.com/tendermint/tendermint/types"
)

// One genesis builder per header-sync router: variant 0 and 1 are two different, individually acceptable genesis
// records for the same chain (different height / validator set / hash). extra is the side-chain ExtraInfo the
// router needs (nil if none).
type routerInfo struct {
	name   string
	router uint64
	build  func(variant int) (genesis []byte, err error)
	extra  func() []byte
	static string // non-empty: not driven dynamically, reason
}

// heightFor: variants 0 and 1 are two ordinary heights, 2 is height 0 (a side chain rooted at its block 0), 3 is an
// extreme height.
func heightFor(v int, a, b, extreme int64) int64 {
	switch v {
	case 0:
		return a
	case 1:
		return b
	case 2:
		return 0
	}
	return extreme
}

// unusual: variant 3 also carries unusual-but-decodable content (long chain ids, odd hash lengths, empty sets).
func unusual(v int) bool { return v == 3 }

func h32(tag string, v int) [32]byte { return sha256.Sum256([]byte(fmt.Sprintf("%s-%d", tag, v))) }

func ethHeaderJSON(v int, extra []byte) ([]byte, error) {
	return ethHeaderJSONAt(v, extra, heightFor(v, 1000, 1200, 1<<62))
}

func ethHeaderJSONAt(v int, extra []byte, number int64) ([]byte, error) {
	return ethHeaderJSONRoot(v, extra, number, ecommon.Hash(h32("root", v)))
}

func ethHeaderJSONRoot(v int, extra []byte, number int64, root ecommon.Hash) ([]byte, error) {
	h := eth.Header{
		ParentHash: ecommon.Hash(h32("parent", v)), UncleHash: etypes.EmptyUncleHash, Coinbase: ecommon.Address{1, byte(v)},
		Root: root, TxHash: etypes.EmptyRootHash, ReceiptHash: etypes.EmptyRootHash,
		Difficulty: big.NewInt(int64(2 + v)), Number: big.NewInt(number), GasLimit: 8000000, GasUsed: 21000,
		Time: uint64(1600000000 + v), Extra: extra, MixDigest: ecommon.Hash{}, Nonce: etypes.BlockNonce{},
	}
	return json.Marshal(h)
}

// parlia/congress style genesis of the bsc, heco, msc, hsc, pixiechain and bytom routers
func posaGenesis(v int) ([]byte, error) {
	return posaGenesisRoot(v, heightFor(v, 1000, 1200, 1<<62), ecommon.Hash(h32("root", v)))
}

// posaGenesisRoot: the same genesis record with a chosen height and state root (used to drive the PoSA routers'
// cross-chain handlers to acceptance with real storage proofs).
func posaGenesisRoot(v int, number int64, root ecommon.Hash) ([]byte, error) {
	extra := make([]byte, 32)
	nSigners := 3 + v
	if unusual(v) {
		nSigners = 1
	}
	for i := 0; i < nSigners; i++ {
		a := h32("signer", 10*v+i)
		extra = append(extra, a[:20]...)
	}
	extra = append(extra, make([]byte, 65)...)
	hdr, err := ethHeaderJSONRoot(v, extra, number, root)
	if err != nil {
		return nil, err
	}
	prev := h32("prevsigner", v)
	g := map[string]interface{}{
		"Header": json.RawMessage(hdr),
		"PrevValidators": []map[string]interface{}{{
			"Height":     big.NewInt(number - 200),
			"Validators": []ecommon.Address{ecommon.BytesToAddress(prev[:20])},
			"Hash":       nil,
		}},
	}
	return json.Marshal(g)
}

func ethGenesis(v int) ([]byte, error) { return ethHeaderJSON(v, []byte("polyverif")) }

func btcGenesis(v int) ([]byte, error) {
	h := wire.BlockHeader{Version: 1, PrevBlock: chainhash.Hash(h32("btcprev", v)), MerkleRoot: chainhash.Hash(h32("btcroot", v)),
		Timestamp: time.Unix(int64(1600000000+v), 0), Bits: 0x1d00ffff, Nonce: uint32(7 + v)}
	var buf bytes.Buffer
	if err := h.BtcEncode(&buf, wire.ProtocolVersion, wire.LatestEncoding); err != nil {
		return nil, err
	}
	var ht [4]byte
	binary.BigEndian.PutUint32(ht[:], uint32(heightFor(v, 20160, 22176, 0xffffffff)))
	return append(buf.Bytes(), ht[:]...), nil
}

func ontGenesis(v int) ([]byte, error) { return ontGenesisPayload(v, true) }

func ontGenesisPayload(v int, withConfig bool) ([]byte, error) {
	type peer struct {
		Index uint32 `json:"index"`
		ID    string `json:"id"`
	}
	var peers []peer
	nPeers := 4 + v
	if unusual(v) {
		nPeers = 1
	}
	for i := 0; i < nPeers; i++ {
		peers = append(peers, peer{Index: uint32(i + 1), ID: valHex[(i+5*v)%nKeys]})
	}
	payload := map[string]interface{}{
		"leader": 1, "vrf_value": []byte{1}, "vrf_proof": []byte{2}, "last_config_block_num": 0,
		"new_chain_config": map[string]interface{}{"version": 1, "view": 1 + v, "n": len(peers), "c": (len(peers) - 1) / 3,
			"block_msg_delay": 10000, "hash_msg_delay": 10000, "peer_handshake_timeout": 10000, "peers": peers,
			"pos_table": []uint32{1, 2, 3}, "MaxBlockChangeView": 10000},
	}
	if !withConfig {
		payload["new_chain_config"] = nil
	}
	pb, err := json.Marshal(payload)
	if err != nil {
		return nil, err
	}
	hd := &otypes.Header{Version: 0, PrevBlockHash: ocommon.Uint256(h32("ontprev", v)), TransactionsRoot: ocommon.Uint256(h32("onttx", v)),
		BlockRoot: ocommon.Uint256(h32("ontblk", v)), Timestamp: uint32(1600000000 + v), Height: uint32(heightFor(v, 0, 100, 0xffffffff)), ConsensusData: uint64(v),
		ConsensusPayload: pb, NextBookkeeper: ocommon.Address{}}
	sink := ocommon.NewZeroCopySink(nil)
	hd.Serialization(sink)
	return sink.Bytes(), nil
}

func quorumGenesis(v int) ([]byte, error) {
	var vals []ecommon.Address
	nVals := 4 + v
	if unusual(v) {
		nVals = 0
	}
	for i := 0; i < nVals; i++ {
		a := h32("qval", 10*v+i)
		vals = append(vals, ecommon.BytesToAddress(a[:20]))
	}
	ist := &quorum.IstanbulExtra{Validators: vals, Seal: make([]byte, 65), CommittedSeal: [][]byte{}}
	payload, err := rlp.EncodeToBytes(ist)
	if err != nil {
		return nil, err
	}
	h := &etypes.Header{ParentHash: ecommon.Hash(h32("qparent", v)), UncleHash: etypes.EmptyUncleHash, Root: ecommon.Hash(h32("qroot", v)),
		TxHash: etypes.EmptyRootHash, ReceiptHash: etypes.EmptyRootHash, Difficulty: big.NewInt(1), Number: big.NewInt(heightFor(v, 50, 60, 1<<62)),
		GasLimit: 1, Time: uint64(1600000000 + v), Extra: append(make([]byte, 32), payload...), MixDigest: quorum.IstanbulDigest}
	return json.Marshal(h)
}

func cosmosGenesis(v int) ([]byte, error) {
	hv := h32("cosmosvals", v)
	chainID, nvh := "polyverif-cosmos", hv[:]
	if unusual(v) {
		chainID, nvh = tmChainIDLong, hv[:5]
	}
	hd := cosmos.CosmosHeader{
		Header: tmtypes.Header{ChainID: chainID, Height: heightFor(v, 100, 150, 1<<62), Time: time.Unix(int64(1600000000+v), 0).UTC(),
			NextValidatorsHash: nvh, ValidatorsHash: hv[:]},
		Commit:  &tmtypes.Commit{},
		Valsets: []*tmtypes.Validator{},
	}
	return cosmos.Cdc.MarshalBinaryBare(hd)
}

const tmChainIDLong = "polyverif-a-chain-id-that-is-longer-than-fifty-characters-0123456789"

func badGenesis() []byte { return []byte{0xde, 0xad, 0xbe, 0xef, 0x01} }

func genesisParam(chain uint64, genesis []byte) []byte {
	sink := common.NewZeroCopySink(nil)
	sink.WriteUint64(chain)
	sink.WriteVarBytes(genesis)
	return sink.Bytes()
}
