package main

import (
	"fmt"
	"math/big"
	"strings"

	"github.com/polynetwork/poly/common"
	"github.com/polynetwork/poly/native/service/governance/neo3_state_manager"
	"github.com/polynetwork/poly/native/service/governance/node_manager"
	"github.com/polynetwork/poly/native/service/governance/relayer_manager"
	"github.com/polynetwork/poly/native/service/governance/side_chain_manager"
	"github.com/polynetwork/poly/native/service/utils"
	"polyverif/internal/hx"
)

// Family govkeys (C17, dynamic cross-check of the key-shape translator only): scripted request/approval flows of the
// governance contracts through the real native service, so that the keys they write are observed ($VERIF_KEYLOG).
// No model: the outcome line is ok | reject and is not compared.
//
//	peers <nCons> <nCand>
//	gov n=<nonce> s=<signer> <flow> <step> [<arg>]      one transaction of a flow (see Exec)
type govFam struct {
	w *world
}

func init() { families["govkeys"] = func() hx.Family { return &govFam{} } }

func (f *govFam) Reset(r *hx.Run) {
	f.w.close()
	f.w = newWorld()
}

type ser interface {
	Serialization(sink *common.ZeroCopySink)
}

func enc(p ser) []byte {
	sink := common.NewZeroCopySink(nil)
	p.Serialization(sink)
	return sink.Bytes()
}

func (f *govFam) Exec(r *hx.Run, op []string) string {
	defer debugPanic()
	w := f.w
	if op[0] == "peers" {
		w.plantPeers(int(u64(op[1])), int(u64(op[2])))
		return "ok"
	}
	if op[0] != "gov" || len(op) < 5 {
		return "bad-op"
	}
	_, n := kv(op[1])
	_, s := kv(op[2])
	flow, step := op[3], op[4]
	signers := w.signerAddrs(s)
	var who common.Address
	if len(signers) > 0 {
		who = signers[0]
	}
	var contract common.Address
	var method string
	var args []byte
	switch flow {
	case "sidechain":
		contract = utils.SideChainManagerContractAddress
		switch step {
		case "register", "update":
			p := &side_chain_manager.RegisterSideChainParam{Address: who, ChainId: 77, Router: 2, Name: "c77" + step, BlocksToWait: 3, CCMCAddress: []byte{7, 7}}
			sink := common.NewZeroCopySink(nil)
			p.Serialization(sink)
			args = sink.Bytes()
			method = side_chain_manager.REGISTER_SIDE_CHAIN
			if step == "update" {
				method = side_chain_manager.UPDATE_SIDE_CHAIN
			}
		case "approve-register", "approve-update", "quit", "approve-quit":
			args = enc(&side_chain_manager.ChainidParam{Chainid: 77, Address: who})
			method = map[string]string{"approve-register": side_chain_manager.APPROVE_REGISTER_SIDE_CHAIN, "approve-update": side_chain_manager.APPROVE_UPDATE_SIDE_CHAIN,
				"quit": side_chain_manager.QUIT_SIDE_CHAIN, "approve-quit": side_chain_manager.APPROVE_QUIT_SIDE_CHAIN}[step]
		case "fee":
			args = enc(&side_chain_manager.UpdateFeeParam{Address: who, ChainId: 77, View: 0, Fee: big.NewInt(12345)})
			method = side_chain_manager.UPDATE_FEE
		case "asset":
			args = enc(&side_chain_manager.RegisterAssetParam{OperatorAddress: who, ChainId: 77, AssetMap: map[uint64][]byte{2: {1}}, LockProxyMap: map[uint64][]byte{2: {2}}})
			method = side_chain_manager.REGISTER_ASSET
		}
	case "relayer":
		contract = utils.RelayerManagerContractAddress
		switch step {
		case "register", "remove":
			args = enc(&relayer_manager.RelayerListParam{AddressList: []common.Address{valAddr[20], valAddr[21]}, Address: who})
			method = relayer_manager.REGISTER_RELAYER
			if step == "remove" {
				method = relayer_manager.REMOVE_RELAYER
			}
		case "approve-register", "approve-remove":
			args = enc(&relayer_manager.ApproveRelayerParam{ID: 0, Address: who})
			method = relayer_manager.APPROVE_REGISTER_RELAYER
			if step == "approve-remove" {
				method = relayer_manager.APPROVE_REMOVE_RELAYER
			}
		}
	case "statevalidator":
		contract = utils.Neo3StateManagerContractAddress
		switch step {
		case "register", "remove":
			args = enc(&neo3_state_manager.StateValidatorListParam{StateValidators: []string{valHex[18], valHex[19]}, Address: who})
			method = neo3_state_manager.REGISTER_STATE_VALIDATOR
			if step == "remove" {
				method = neo3_state_manager.REMOVE_STATE_VALIDATOR
			}
		case "approve-register", "approve-remove":
			args = enc(&neo3_state_manager.ApproveStateValidatorParam{ID: 0, Address: who})
			method = neo3_state_manager.APPROVE_REGISTER_STATE_VALIDATOR
			if step == "approve-remove" {
				method = neo3_state_manager.APPROVE_REMOVE_STATE_VALIDATOR
			}
		}
	case "node":
		contract = utils.NodeManagerContractAddress
		switch step {
		case "register":
			args = enc(&node_manager.RegisterPeerParam{PeerPubkey: valHex[12], Address: who})
			method = node_manager.REGISTER_CANDIDATE
		case "approve", "quit":
			args = enc(&node_manager.PeerParam{PeerPubkey: valHex[12], Address: who})
			method = node_manager.APPROVE_CANDIDATE
			if step == "quit" {
				method = node_manager.QUIT_NODE
			}
		case "black", "white":
			if step == "black" {
				args = enc(&node_manager.PeerListParam{PeerPubkeyList: []string{valHex[12]}, Address: who})
				method = node_manager.BLACK_NODE
			} else {
				args = enc(&node_manager.PeerParam{PeerPubkey: valHex[12], Address: who})
				method = node_manager.WHITE_NODE
			}
		case "commit":
			method = node_manager.COMMIT_DPOS
		}
	}
	if method == "" {
		return "bad-op"
	}
	tx := mkTx(uint32(u64(n)), contract, method, args)
	before := w.writeSet()
	_, _, err := w.exec(tx, signers)
	changed := diffKeys(before, w.writeSet())
	logKeys(changed)
	r.Hist(fmt.Sprintf("%s.%s.%v", flow, step, err == nil))
	if err != nil {
		if osDebug := os_debug(); osDebug {
			fmt.Printf("DEBUG %s: %v\n", strings.Join(op, " "), err)
		}
		if len(changed) != 0 {
			r.Viol("C17:failed-governance-tx-changed-state:"+flow+"."+step, fmt.Sprintf("%s %s failed (%v) but changed %d keys", flow, step, err, len(changed)))
		}
		return "reject"
	}
	return "ok"
}

func (f *govFam) Gen(r *hx.Run) {
	r.Rule("scripted governance flows (side chain register/update/quit with approvals, fee, asset; relayer and state-validator register/remove with approvals; node register/approve/black/white/quit) executed on the real native service for the key log")
	nonce := 0
	do := func(signer, flow, step string) string {
		nonce++
		return r.Do(fmt.Sprintf("gov n=%d s=%s %s %s", nonce, signer, flow, step))
	}
	for _, nCons := range []int{4, 7} {
		r.Case(fmt.Sprintf("gov-%d", nCons))
		r.Do(fmt.Sprintf("peers %d 0", nCons))
		approveAll := func(flow, step string) {
			for i := 0; i < nCons; i++ {
				do(fmt.Sprint(i), flow, step)
			}
		}
		do("10", "sidechain", "register")
		approveAll("sidechain", "approve-register")
		do("10", "sidechain", "update")
		approveAll("sidechain", "approve-update")
		do("0", "sidechain", "fee")
		do("10", "sidechain", "asset")
		do("10", "relayer", "register")
		approveAll("relayer", "approve-register")
		do("10", "relayer", "remove")
		approveAll("relayer", "approve-remove")
		do("10", "statevalidator", "register")
		approveAll("statevalidator", "approve-register")
		do("10", "statevalidator", "remove")
		approveAll("statevalidator", "approve-remove")
		do("12", "node", "register")
		approveAll("node", "approve")
		approveAll("node", "black")
		approveAll("node", "white")
		do("12", "node", "register")
		approveAll("node", "approve")
		do("12", "node", "quit")
		do("op", "node", "commit")
		do("10", "sidechain", "quit")
		approveAll("sidechain", "approve-quit")
		r.Nontrivial(fmt.Sprintf("gov-%d", nCons))
	}
}
