package main

// routerTable: every router of header_sync.GetChainHandler.
var routerTable = []*routerInfo{
	{name: "btc", router: 1, build: btcGenesis},
	{name: "eth", router: 2, build: ethGenesis},
	{name: "ont", router: 3, build: ontGenesis},
	{name: "cosmos", router: 5, build: cosmosGenesis},
	{name: "bsc", router: 6, build: posaGenesis},
	{name: "heco", router: 7, build: posaGenesis},
	{name: "quorum", router: 8, build: quorumGenesis},
	{name: "pixiechain", router: 19, build: posaGenesis},
	{name: "hsc", router: 20, build: posaGenesis},
	{name: "bytom", router: 22, build: posaGenesis},
	{name: "msc", router: 10, build: mscGenesis, extra: mscExtra},
	{name: "neo", router: 4, build: neoGenesis},
	{name: "neo3", router: 14, build: neo3Genesis},
	{name: "neo3legacy", router: 11, build: neo3legacyGenesis},
	{name: "okex", router: 12, build: okexGenesis},
	{name: "heimdall", router: 15, build: heimdallGenesis},
	{name: "bor", router: 16, build: borGenesis, extra: borExtra},
	{name: "zilliqa", router: 17, build: zilliqaGenesis, extra: zilExtra},
	{name: "zilliqalegacy", router: 9, build: zilliqalegacyGenesis, extra: zilExtra},
	{name: "starcoin", router: 18, build: starcoinGenesis},
	{name: "harmony", router: 21, static: "the harmony router needs the BLS C library (stubbed in the sandbox)"},
}
