package main

import (
	"encoding/json"
	"fmt"
	"math/big"
	"regexp"
	"time"

	ecommon "github.com/ethereum/go-ethereum/common"
	"github.com/Zilliqa/gozilliqa-sdk/core"
	neoblock "github.com/joeqian10/neo-gogogo/block"
	neohelper "github.com/joeqian10/neo-gogogo/helper"
	neotx "github.com/joeqian10/neo-gogogo/tx"
	neo3lblock "github.com/joeqian10/neo3-gogogo-legacy/block"
	neo3lhelper "github.com/joeqian10/neo3-gogogo-legacy/helper"
	neo3ltx "github.com/joeqian10/neo3-gogogo-legacy/tx"
	neo3block "github.com/joeqian10/neo3-gogogo/block"
	neo3helper "github.com/joeqian10/neo3-gogogo/helper"
	neo3tx "github.com/joeqian10/neo3-gogogo/tx"
	"github.com/polynetwork/poly/common"
	"github.com/polynetwork/poly/native/service/header_sync/neo"
	"github.com/polynetwork/poly/native/service/header_sync/neo3"
	"github.com/polynetwork/poly/native/service/header_sync/neo3legacy"
	"github.com/polynetwork/poly/native/service/header_sync/okex"
	"github.com/polynetwork/poly/native/service/header_sync/polygon"
	polygonTypes "github.com/polynetwork/poly/native/service/header_sync/polygon/types"
	"github.com/polynetwork/poly/native/service/header_sync/zilliqa"
	"github.com/polynetwork/poly/native/service/header_sync/zilliqalegacy"
	tmtypes "github.com/tendermint/tendermint/types"
)

func mscGenesis(v int) ([]byte, error) {
	extra := make([]byte, 32)
	nSigners := 3 + v
	if unusual(v) {
		nSigners = 1
	}
	for i := 0; i < nSigners; i++ {
		a := h32("mscsigner", 10*v+i)
		extra = append(extra, a[:20]...)
	}
	extra = append(extra, make([]byte, 65)...)
	return ethHeaderJSONAt(v, extra, heightFor(v, 1000, 1200, 200*(1<<50))) // a multiple of the epoch below
}

func mscExtra() []byte {
	b, _ := json.Marshal(map[string]interface{}{"ChainID": big.NewInt(77), "Period": 3, "Epoch": 200})
	return b
}

func neoGenesis(v int) ([]byte, error) {
	prev, _ := neohelper.UInt256FromString("0x0000000000000000000000000000000000000000000000000000000000000000")
	mr := h32("neomerkle", v)
	root, _ := neohelper.UInt256FromBytes(mr[:])
	nc := h32("neonext", v)
	next, _ := neohelper.UInt160FromBytes(nc[:20])
	h := &neo.NeoBlockHeader{BlockHeader: &neoblock.BlockHeader{Version: 0, PrevHash: prev, MerkleRoot: root, Timestamp: uint32(1468595301 + v),
		Index: uint32(heightFor(v, 0, 100, 0xffffffff)), NextConsensus: next, ConsensusData: uint64(2083236893 + v),
		Witness: &neotx.Witness{InvocationScript: []byte{0}, VerificationScript: []byte{81}}}}
	sink := common.NewZeroCopySink(nil)
	if err := h.Serialization(sink); err != nil {
		return nil, err
	}
	return sink.Bytes(), nil
}

func neo3Genesis(v int) ([]byte, error) {
	prev, _ := neo3helper.UInt256FromString("0x0000000000000000000000000000000000000000000000000000000000000000")
	mr := h32("neo3merkle", v)
	root := neo3helper.UInt256FromBytes(mr[:])
	nc := h32("neo3next", v)
	next := neo3helper.UInt160FromBytes(nc[:20])
	g := neo3block.NewBlockHeader()
	g.SetVersion(0)
	g.SetPrevHash(prev)
	g.SetMerkleRoot(root)
	g.SetTimeStamp(uint64(1468595301000 + v))
	g.SetIndex(uint32(heightFor(v, 0, 100, 0xffffffff)))
	g.SetPrimaryIndex(0)
	g.SetNextConsensus(next)
	g.SetWitnesses([]neo3tx.Witness{{InvocationScript: []byte{}, VerificationScript: []byte{}}})
	h := &neo3.NeoBlockHeader{Header: g}
	sink := common.NewZeroCopySink(nil)
	if err := h.Serialization(sink); err != nil {
		return nil, err
	}
	return sink.Bytes(), nil
}

func neo3legacyGenesis(v int) ([]byte, error) {
	prev, _ := neo3lhelper.UInt256FromString("0x0000000000000000000000000000000000000000000000000000000000000000")
	mr := h32("neo3lmerkle", v)
	root := neo3lhelper.UInt256FromBytes(mr[:])
	nc := h32("neo3lnext", v)
	next := neo3lhelper.UInt160FromBytes(nc[:20])
	g := neo3lblock.NewBlockHeader()
	g.SetVersion(0)
	g.SetPrevHash(prev)
	g.SetMerkleRoot(root)
	g.SetTimeStamp(uint64(1468595301000 + v))
	g.SetIndex(uint32(heightFor(v, 0, 100, 0xffffffff)))
	g.SetPrimaryIndex(0)
	g.SetNextConsensus(next)
	g.SetWitnesses([]neo3ltx.Witness{{InvocationScript: []byte{}, VerificationScript: []byte{}}})
	h := &neo3legacy.NeoBlockHeader{Header: g}
	sink := common.NewZeroCopySink(nil)
	if err := h.Serialization(sink); err != nil {
		return nil, err
	}
	return sink.Bytes(), nil
}

func okexGenesis(v int) ([]byte, error) {
	hv := h32("okexvals", v)
	hd := okex.CosmosHeader{
		Header: tmtypes.Header{ChainID: map[bool]string{false: "polyverif-okex", true: tmChainIDLong}[unusual(v)], Height: heightFor(v, 100, 150, 1<<62), Time: time.Unix(int64(1600000000+v), 0).UTC(),
			NextValidatorsHash: hv[:map[bool]int{false: 32, true: 5}[unusual(v)]], ValidatorsHash: hv[:]},
		Commit:  &tmtypes.Commit{},
		Valsets: []*tmtypes.Validator{},
	}
	return okex.NewCDC().MarshalBinaryBare(hd)
}

func heimdallGenesis(v int) ([]byte, error) {
	hv := h32("heimdallvals", v)
	hd := polygon.CosmosHeader{
		Header: polygonTypes.Header{ChainID: map[bool]string{false: "polyverif-heimdall", true: tmChainIDLong}[unusual(v)], Height: heightFor(v, 100, 150, 1<<62), Time: time.Unix(int64(1600000000+v), 0).UTC(),
			NextValidatorsHash: hv[:map[bool]int{false: 32, true: 5}[unusual(v)]], ValidatorsHash: hv[:]},
		Commit:  &polygonTypes.Commit{},
		Valsets: []*polygonTypes.Validator{},
	}
	return polygonTypes.NewCDC().MarshalBinaryBare(hd)
}

func borGenesis(v int) ([]byte, error) {
	hdr, err := ethHeaderJSON(v, append(make([]byte, 32), make([]byte, 65)...))
	if err != nil {
		return nil, err
	}
	a := h32("borval", v)
	val := map[string]interface{}{"ID": 1, "signer": ecommon.BytesToAddress(a[:20]), "power": 10, "accum": 0}
	snap := map[string]interface{}{"hash": ecommon.Hash(h32("borsnap", v)), "validatorSet": map[string]interface{}{"validators": []interface{}{val}, "proposer": val}}
	return json.Marshal(map[string]interface{}{"Header": json.RawMessage(hdr), "Snapshot": snap})
}

func borExtra() []byte {
	b, _ := json.Marshal(polygon.ExtraInfo{Sprint: 64, Period: 2, ProducerDelay: 6, BackupMultiplier: 2, HeimdallPolyChainID: 999})
	return b
}

func zilParts(v int) (*core.TxBlock, *core.DsBlock, []core.PairOfNode, error) {
	var tx core.TxBlock
	if err := json.Unmarshal([]byte(zilTxBlockJSON), &tx); err != nil {
		return nil, nil, nil, err
	}
	var ds core.DsBlock
	if err := json.Unmarshal([]byte(zilDsBlockJSON), &ds); err != nil {
		return nil, nil, nil, err
	}
	if v == 2 {
		tx.BlockHeader.BlockNum = 0
		tx.BlockHeader.DSBlockNum = 1
		tx.BlockHash = h32("ziltx", v)
		ds.BlockHash = h32("zilds", v)
	} else if v > 0 {
		tx.BlockHeader.BlockNum += uint64(100 * v)
		tx.BlockHeader.DSBlockNum += uint64(v)
		tx.BlockHash = h32("ziltx", v)
		ds.BlockHeader.BlockNum += uint64(v)
		ds.BlockHash = h32("zilds", v)
	}
	comm := []core.PairOfNode{{PubKey: "02105342331FCD7CA95648DF8C5373C596982544F35E90849B1E619DFC59F03D48"},
		{PubKey: "021D439D1CCCAE17C3D6E855BC78E96438C808D16D1CBF8D7ABD391E41CEE9B1BF"}}
	if unusual(v) {
		comm = nil
	} else if v > 0 {
		comm = append(comm, core.PairOfNode{PubKey: "021EDDE95598F5F59708D2E728E00EDB2ECF278C16BD389384320B1AF998DCC2FD"})
	}
	return &tx, &ds, comm, nil
}

func zilliqaGenesis(v int) ([]byte, error) {
	tx, ds, comm, err := zilParts(v)
	if err != nil {
		return nil, err
	}
	return json.Marshal(&zilliqa.TxBlockAndDsComm{TxBlock: tx, DsBlock: ds, DsComm: comm})
}

// the legacy router uses a fork of the SDK with the same JSON layout; the record must decode with its own types
func zilliqalegacyGenesis(v int) ([]byte, error) {
	b, err := zilliqaGenesis(v)
	if err != nil {
		return nil, err
	}
	var back zilliqalegacy.TxBlockAndDsComm
	if err := json.Unmarshal(b, &back); err != nil || back.TxBlock == nil || back.DsBlock == nil {
		return nil, fmt.Errorf("zilliqa genesis does not decode with the legacy types: %v", err)
	}
	return b, nil
}

func zilExtra() []byte {
	b, _ := json.Marshal(map[string]interface{}{"NumOfGuardList": 0})
	return b
}

// the repository's fixtures predate the current starcoin-go JSON types, which want the accumulator counters as
// strings; the numbers are quoted here
var stcNumRe = regexp.MustCompile(`"(num_leaves|num_nodes)"\s*:\s*([0-9]+)`)

func starcoinGenesis(v int) ([]byte, error) {
	src := stcGenesisA
	if v == 1 {
		src = stcGenesisB
	} else if v != 0 {
		return nil, fmt.Errorf("no starcoin genesis variant %d", v)
	}
	return []byte(stcNumRe.ReplaceAllString(src, `"$1":"$2"`)), nil
}
