// hccm: correspondence harness for the cross-chain manager entrance, the genesis installers of the header-sync
// routers and the storage-key layer (C17, C19–C22). Each family lives in its own file and registers itself in
// `families`.
package main

import (
	"os"
	"runtime"
	"runtime/pprof"
	"time"

	"polyverif/internal/hx"
)

var families = map[string]func() hx.Family{}

func main() {
	if p := os.Getenv("VERIF_HEAPPROF"); p != "" { // debugging aid: periodic heap profile
		go func() {
			for {
				time.Sleep(20 * time.Second)
				runtime.GC()
				if f, err := os.Create(p); err == nil {
					pprof.WriteHeapProfile(f)
					f.Close()
				}
			}
		}()
	}
	hx.Main(families)
}
