// hccm: correspondence harness for the cross-chain manager entrance, the genesis installers of the header-sync
// routers and the storage-key layer (C17, C19–C22). Each family lives in its own file and registers itself in
// `families`.
package main

import "polyverif/internal/hx"

var families = map[string]func() hx.Family{}

func main() { hx.Main(families) }
