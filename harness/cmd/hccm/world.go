package main

import (
	"crypto/elliptic"
	"crypto/sha256"
	"encoding/hex"
	"fmt"
	"os"
	"runtime/debug"
	"sort"
	"strings"

	"github.com/ontio/ontology-crypto/ec"
	"github.com/ontio/ontology-crypto/keypair"
	"github.com/polynetwork/poly/common"
	"github.com/polynetwork/poly/common/config"
	"github.com/polynetwork/poly/common/log"
	"github.com/polynetwork/poly/core/payload"
	cstates "github.com/polynetwork/poly/core/states"
	"github.com/polynetwork/poly/core/store/ledgerstore"
	"github.com/polynetwork/poly/core/store/leveldbstore"
	"github.com/polynetwork/poly/core/store/overlaydb"
	"github.com/polynetwork/poly/core/types"
	"github.com/polynetwork/poly/native"
	"github.com/polynetwork/poly/native/event"
	_ "github.com/polynetwork/poly/native/service" // registers the native contracts
	"github.com/polynetwork/poly/native/service/governance/node_manager"
	"github.com/polynetwork/poly/native/service/governance/side_chain_manager"
	"github.com/polynetwork/poly/native/service/utils"
	nstates "github.com/polynetwork/poly/native/states"
	"github.com/polynetwork/poly/native/storage"
)

// world is a relay-chain state the way block execution sees it: a block overlay over an (in-memory) LevelDB and
// one transaction cache that is reset before every transaction and committed by the real
// StateStore.HandleInvokeTransaction when the native call succeeds.
type world struct {
	store   *leveldbstore.LevelDBStore
	overlay *overlaydb.OverlayDB
	cache   *storage.CacheDB
	height  uint32
	nCons   int
	nCand   int
}

const nKeys = 24

var (
	valPriv []keypair.PrivateKey
	valPub  []keypair.PublicKey
	valAddr []common.Address
	valHex  []string
)

func init() {
	log.InitLog(log.ErrorLog) // no writer: discard
	for i := 0; i < nKeys; i++ {
		d := sha256.Sum256([]byte(fmt.Sprintf("polyverif validator key %d", i)))
		priv := ec.ConstructPrivateKey(d[:], elliptic.P256())
		pub := &ec.PublicKey{Algorithm: ec.ECDSA, PublicKey: &priv.PublicKey}
		valPriv = append(valPriv, &ec.PrivateKey{Algorithm: ec.ECDSA, PrivateKey: priv})
		valPub = append(valPub, pub)
		valAddr = append(valAddr, types.AddressFromPubKey(pub))
		valHex = append(valHex, hex.EncodeToString(keypair.SerializePublicKey(pub)))
	}
}

func newWorld() *world {
	store, err := leveldbstore.NewMemLevelDBStore()
	if err != nil {
		panic(err)
	}
	w := &world{height: 100, store: store}
	w.overlay = overlaydb.NewOverlayDB(store)
	w.cache = storage.NewCacheDB(w.overlay)
	config.DefConfig.P2PNode.NetworkId = config.NETWORK_ID_MAIN_NET
	config.DefConfig.Common.EnableEventLog = true
	// SideChain.Serialization consults ledger.DefLedger (nil here) unless the fork check is off; with the check off
	// the ExtraInfo field is always written, which is the post-fork main-net behaviour
	config.EXTRA_INFO_HEIGHT_FORK_CHECK = false
	return w
}

// plantPeers writes the governance view and the peer pool the way the node manager stores them: validators
// 0..nCons-1 with consensus status, nCons..nCons+nCand-1 with candidate status.
func (w *world) plantPeers(nCons, nCand int) {
	w.nCons, w.nCand = nCons, nCand
	w.cache.Reset()
	var view uint32 = 1
	gv := &node_manager.GovernanceView{View: view, Height: 1, TxHash: common.Uint256{}}
	sink := common.NewZeroCopySink(nil)
	gv.Serialization(sink)
	w.cache.Put(utils.ConcatKey(utils.NodeManagerContractAddress, []byte(node_manager.GOVERNANCE_VIEW)), cstates.GenRawStorageItem(sink.Bytes()))
	pm := &node_manager.PeerPoolMap{PeerPoolMap: map[string]*node_manager.PeerPoolItem{}}
	for i := 0; i < nCons+nCand && i < nKeys; i++ {
		st := node_manager.ConsensusStatus
		if i >= nCons {
			st = node_manager.CandidateStatus
		}
		pm.PeerPoolMap[valHex[i]] = &node_manager.PeerPoolItem{Index: uint32(i + 1), PeerPubkey: valHex[i], Address: valAddr[i], Status: st}
	}
	sink = common.NewZeroCopySink(nil)
	pm.Serialization(sink)
	w.cache.Put(utils.ConcatKey(utils.NodeManagerContractAddress, []byte(node_manager.PEER_POOL), utils.GetUint32Bytes(view)), cstates.GenRawStorageItem(sink.Bytes()))
	w.cache.Commit()
	w.cache.Reset()
}

// close releases the in-memory LevelDB of a finished case (it owns goroutines and write buffers).
func (w *world) close() {
	if w != nil && w.store != nil {
		w.store.Close()
		w.store = nil
	}
}

func (w *world) operator() common.Address {
	a, err := types.AddressFromBookkeepers(append([]keypair.PublicKey{}, valPub[:w.nCons]...))
	if err != nil {
		return common.Address{}
	}
	return a
}

// signerAddrs maps "0,3,op" to addresses ("-" = nobody).
func (w *world) signerAddrs(csv string) []common.Address {
	var out []common.Address
	if csv == "-" || csv == "" {
		return out
	}
	for _, t := range strings.Split(csv, ",") {
		if t == "op" {
			out = append(out, w.operator())
			continue
		}
		var i int
		fmt.Sscan(t, &i)
		if i >= 0 && i < nKeys {
			out = append(out, valAddr[i])
		}
	}
	return out
}

func mkTx(nonce uint32, contract common.Address, method string, args []byte) *types.Transaction {
	return mkTxChain(0, nonce, contract, method, args)
}

func mkTxChain(chainID uint64, nonce uint32, contract common.Address, method string, args []byte) *types.Transaction {
	inv := nstates.ContractInvokeParam{Address: contract, Method: method, Args: args}
	sink := common.NewZeroCopySink(nil)
	inv.Serialization(sink)
	tx := &types.Transaction{Version: 0, TxType: types.Invoke, Nonce: nonce, ChainID: chainID, Payload: &payload.InvokeCode{Code: sink.Bytes()}}
	s2 := common.NewZeroCopySink(nil)
	if err := tx.Serialization(s2); err != nil {
		panic(err)
	}
	tx2, err := types.TransactionFromRawBytes(s2.Bytes())
	if err != nil {
		panic(err)
	}
	return tx2
}

// exec runs one transaction through the real HandleInvokeTransaction (commit to the block overlay on success).
func (w *world) exec(tx *types.Transaction, signers []common.Address) (crossHashes []common.Uint256, notify *event.ExecuteNotify, err error) {
	tx.SignedAddr = signers
	if len(signers) == 0 {
		tx.SignedAddr = []common.Address{{0xee, 0xee}} // GetSignatureAddresses would otherwise look at tx.Sigs
	}
	block := &types.Block{Header: &types.Header{Height: w.height, Timestamp: 1600000000 + w.height, ChainID: 0}}
	notify = &event.ExecuteNotify{TxHash: tx.Hash(), State: event.CONTRACT_STATE_FAIL}
	w.cache.Reset()
	crossHashes, err = (&ledgerstore.StateStore{}).HandleInvokeTransaction(nil, w.overlay, w.cache, tx, block, notify)
	w.cache.Reset()
	return
}

// preExec runs one transaction the way the node pre-executes it: its own transaction cache over the block overlay,
// preExec flag set, and the cache is dropped afterwards whatever the result.
func (w *world) preExec(tx *types.Transaction, signers []common.Address) error {
	tx.SignedAddr = signers
	if len(signers) == 0 {
		tx.SignedAddr = []common.Address{{0xee, 0xee}}
	}
	cache := storage.NewCacheDB(w.overlay)
	inv := tx.Payload.(*payload.InvokeCode)
	ns, err := native.NewNativeService(cache, tx, 1600000000+w.height, w.height, common.Uint256{}, 0, inv.Code, true)
	if err != nil {
		return err
	}
	_, err = ns.Invoke()
	return err
}

// view returns a native service for reading the committed state.
func (w *world) view() *native.NativeService {
	w.cache.Reset()
	tx := &types.Transaction{ChainID: 0, SignedAddr: []common.Address{{0xee}}}
	ns, err := native.NewNativeService(w.cache, tx, 0, w.height, common.Uint256{}, 0, nil, false)
	if err != nil {
		panic(err)
	}
	return ns
}

// writeSet snapshots the block overlay's write set (raw keys, including the ST_STORAGE prefix).
func (w *world) writeSet() map[string]string {
	m := map[string]string{}
	w.overlay.GetWriteSet().ForEach(func(k, v []byte) { m[string(k)] = string(v) })
	return m
}

func diffKeys(before, after map[string]string) []string {
	var out []string
	for k, v := range after {
		if old, ok := before[k]; !ok || old != v {
			out = append(out, k)
		}
	}
	for k := range before {
		if _, ok := after[k]; !ok {
			out = append(out, k)
		}
	}
	sort.Strings(out)
	return out
}

// logKeys appends raw keys to $VERIF_KEYLOG (dynamic cross-check of the key-shape translator, C17).
func logKeys(keys []string) {
	p := os.Getenv("VERIF_KEYLOG")
	if p == "" || len(keys) == 0 {
		return
	}
	f, err := os.OpenFile(p, os.O_APPEND|os.O_CREATE|os.O_WRONLY, 0644)
	if err != nil {
		return
	}
	defer f.Close()
	for _, k := range keys {
		fmt.Fprintln(f, hex.EncodeToString([]byte(k)))
	}
}

func (w *world) putSideChain(chain, router uint64) {
	ns := w.view()
	side_chain_manager.PutSideChain(ns, &side_chain_manager.SideChain{Address: valAddr[nKeys-1], ChainId: chain, Router: router,
		Name: fmt.Sprintf("chain%d", chain), BlocksToWait: 1, CCMCAddress: ethCCMC.Bytes()})
	w.cache.Commit()
	w.cache.Reset()
}

func (w *world) delSideChain(chain uint64) {
	w.cache.Reset()
	w.cache.Delete(utils.ConcatKey(utils.SideChainManagerContractAddress, []byte(side_chain_manager.SIDE_CHAIN), utils.GetUint64Bytes(chain)))
	w.cache.Commit()
	w.cache.Reset()
}

// debugPanic prints the stack of a panic when VERIF_DEBUG is set, then lets hx record the outcome `panic`.
func debugPanic() {
	if e := recover(); e != nil {
		if os.Getenv("VERIF_DEBUG") != "" {
			fmt.Fprintf(os.Stderr, "panic: %v\n%s\n", e, debug.Stack())
		}
		panic(e)
	}
}

func small() bool { return os.Getenv("VERIF_SMALL") != "" }

func minInt(a, b int) int {
	if a < b {
		return a
	}
	return b
}

func os_debug() bool { return os.Getenv("VERIF_DEBUG") != "" }
