package main

import (
	"bytes"
	"crypto/sha256"
	"encoding/hex"
	"fmt"
	"os"
	"strings"

	"github.com/ontio/ontology-crypto/keypair"
	sig "github.com/ontio/ontology-crypto/signature"
	"github.com/polynetwork/poly/account"
	"github.com/polynetwork/poly/common"
	"github.com/polynetwork/poly/common/config"
	"github.com/polynetwork/poly/core/genesis"
	"github.com/polynetwork/poly/core/ledger"
	"github.com/polynetwork/poly/core/signature"
	cstates "github.com/polynetwork/poly/core/states"
	"github.com/polynetwork/poly/core/store/ledgerstore"
	"github.com/polynetwork/poly/core/types"
	"github.com/polynetwork/poly/native"
	"github.com/polynetwork/poly/native/event"
	scom "github.com/polynetwork/poly/native/service/cross_chain_manager/common"
	"github.com/polynetwork/poly/native/service/governance/side_chain_manager"
	"github.com/polynetwork/poly/native/service/utils"
	"polyverif/internal/hx"
)

// Family ccmblock (C20/C21/C22 on whole blocks): the cross-chain-manager entrance executed by the real
// LedgerStoreImp.ExecuteBlock (one transaction cache shared by all transactions of a block, exactly as the node does)
// on a real ledger under $TMPDIR, blocks committed by the real AddBlock.
//
//	peers 7 0                       (for the model: the 7 genesis validators are the consensus peers)
//	blk h=<height> <tx> ;; <tx> ;; ...     one block; <tx> is a `reg`, `unreg`, `black`, `white` or `import` op of family
//	                                ccm (registry changes go through a scripted planter contract)
//	    -> <outcome of tx 1> | <outcome of tx 2> | ... || done=..,.. req=..,.. xh=<leaves of the block> new=<request keys>
//
// outcome: ok | ok-pending | fail (ExecuteBlock does not report error texts). done/req list the imports of the block
// that carry a decodable message, read from the committed state after the block.
type blockFam struct {
	dir     string
	ls      *ledgerstore.LedgerStoreImp
	lg      *ledger.Ledger
	w       *world // only for signer bookkeeping (nCons)
	marked  map[string]bool
	black   map[uint64]bool
	reg     map[uint64]uint64
	nonce   uint32
	reqKeys map[string]bool
}

func init() { families["ccmblock"] = func() hx.Family { return &blockFam{} } }

var planterAddr = common.Address{0xee, 0x01, 0xee, 0x01, 0xee}

// planter: a scripted native contract of the harness; `plant` puts (value non-empty) or deletes raw contract-storage
// records: args = count ‖ (varbytes key ‖ varbytes value)*
func registerPlanter() {
	native.Contracts[planterAddr] = func(ns *native.NativeService) {
		ns.Register("plant", func(ns *native.NativeService) ([]byte, error) {
			src := common.NewZeroCopySource(ns.GetInput())
			n, eof := src.NextVarUint()
			if eof {
				return utils.BYTE_FALSE, fmt.Errorf("planter: bad args")
			}
			for i := uint64(0); i < n; i++ {
				k, eof := src.NextVarBytes()
				v, eof2 := src.NextVarBytes()
				if eof || eof2 {
					return utils.BYTE_FALSE, fmt.Errorf("planter: bad args")
				}
				if len(v) == 0 {
					ns.GetCacheDB().Delete(k)
				} else {
					ns.GetCacheDB().Put(k, v)
				}
			}
			return utils.BYTE_TRUE, nil
		})
	}
}

func (f *blockFam) closeLedger() {
	if f.ls != nil {
		f.ls.Close()
		f.ls = nil
	}
	if f.dir != "" {
		os.RemoveAll(f.dir)
		f.dir = ""
	}
}

func (f *blockFam) bookkeepers() []keypair.PublicKey { return append([]keypair.PublicKey{}, valPub[:7]...) }

func (f *blockFam) Reset(r *hx.Run) {
	f.closeLedger()
	registerPlanter()
	config.DefConfig.P2PNode.NetworkId = config.NETWORK_ID_MAIN_NET
	config.DefConfig.Common.EnableEventLog = true
	config.EXTRA_INFO_HEIGHT_FORK_CHECK = false
	var peers []*config.VBFTPeerInfo
	for i := 0; i < 7; i++ {
		peers = append(peers, &config.VBFTPeerInfo{Index: uint32(i + 1), PeerPubkey: valHex[i], Address: valAddr[i].ToBase58()})
	}
	mn := config.MainNetConfig
	config.DefConfig.Genesis = &config.GenesisConfig{SeedList: []string{}, ConsensusType: config.CONSENSUS_TYPE_VBFT,
		VBFT: &config.VBFTConfig{BlockMsgDelay: mn.VBFT.BlockMsgDelay, HashMsgDelay: mn.VBFT.HashMsgDelay, PeerHandshakeTimeout: mn.VBFT.PeerHandshakeTimeout,
			MaxBlockChangeView: mn.VBFT.MaxBlockChangeView, VrfValue: mn.VBFT.VrfValue, VrfProof: mn.VBFT.VrfProof, Peers: peers},
		DBFT: &config.DBFTConfig{}, SOLO: &config.SOLOConfig{}}
	dir, err := os.MkdirTemp("", "hccm-ledger-")
	if err != nil {
		panic(err)
	}
	lg, err := ledger.NewLedger(dir)
	if err != nil {
		panic(err)
	}
	ls := lg.GetStore().(*ledgerstore.LedgerStoreImp)
	gb, err := genesis.BuildGenesisBlock(f.bookkeepers(), config.DefConfig.Genesis)
	if err != nil {
		panic(err)
	}
	if err := ls.InitLedgerStoreWithGenesisBlock(gb, f.bookkeepers()); err != nil {
		panic(err)
	}
	ledger.DefLedger = lg
	f.dir, f.ls, f.lg = dir, ls, lg
	f.w = &world{nCons: 7}
	f.marked, f.black, f.reg, f.reqKeys = map[string]bool{}, map[uint64]bool{}, map[uint64]uint64{}, map[string]bool{}
}

func (f *blockFam) chainID() uint64 { return config.GetChainIdByNetId(config.DefConfig.P2PNode.NetworkId) }

func (f *blockFam) nextBlock(txs []*types.Transaction) *types.Block {
	h := f.ls.GetCurrentBlockHeight()
	prevHash := f.ls.GetCurrentBlockHash()
	prev, err := f.ls.GetHeaderByHash(prevHash)
	if err != nil {
		panic(err)
	}
	hdr := &types.Header{Version: types.CURR_HEADER_VERSION, ChainID: f.chainID(), PrevBlockHash: prevHash, Timestamp: prev.Timestamp + 1,
		Height: h + 1, ConsensusData: uint64(h + 1), ConsensusPayload: []byte(`{"leader":0,"last_config_block_num":0}`),
		BlockRoot: f.ls.GetBlockRootWithPreBlockHashes(h+1, []common.Uint256{prevHash}), NextBookkeeper: prev.NextBookkeeper}
	blk := &types.Block{Header: hdr, Transactions: txs}
	blk.RebuildMerkleRoot()
	hash := blk.Hash()
	for i := 0; i < 7; i++ {
		acc := &account.Account{PrivateKey: valPriv[i], PublicKey: valPub[i], Address: valAddr[i], SigScheme: sig.SHA256withECDSA}
		sg, err := signature.Sign(acc, hash[:])
		if err != nil {
			panic(err)
		}
		hdr.Bookkeepers = append(hdr.Bookkeepers, valPub[i])
		hdr.SigData = append(hdr.SigData, sg)
	}
	return blk
}

func (f *blockFam) read(contract common.Address, key []byte) []byte {
	item, err := f.ls.GetStorageItem(&cstates.StorageKey{ContractAddress: contract, Key: key})
	if err != nil || item == nil {
		return nil
	}
	return item.Value
}

type blockTx struct {
	kind string
	imp  *importOp
	th   common.Uint256
}

func (f *blockFam) Exec(r *hx.Run, op []string) string {
	defer debugPanic()
	if op[0] == "peers" {
		return "ok"
	}
	if op[0] != "blk" || len(op) < 3 {
		return "bad-op"
	}
	_, hs := kv(op[1])
	if uint32(u64(hs)) != f.ls.GetCurrentBlockHeight()+1 {
		return fmt.Sprintf("bad-op:height=%d", f.ls.GetCurrentBlockHeight()+1)
	}
	var specs [][]string
	cur := []string{}
	for _, t := range op[2:] {
		if t == ";;" {
			specs = append(specs, cur)
			cur = []string{}
			continue
		}
		cur = append(cur, t)
	}
	specs = append(specs, cur)
	var txs []*types.Transaction
	var infos []blockTx
	for _, sp := range specs {
		if len(sp) == 0 {
			return "bad-op"
		}
		var tx *types.Transaction
		info := blockTx{kind: sp[0]}
		switch sp[0] {
		case "reg", "unreg":
			chain := u64(sp[1])
			key := utils.ConcatKey(utils.SideChainManagerContractAddress, []byte(side_chain_manager.SIDE_CHAIN), utils.GetUint64Bytes(chain))
			var val []byte
			if sp[0] == "reg" {
				sc := &side_chain_manager.SideChain{Address: valAddr[nKeys-1], ChainId: chain, Router: u64(sp[2]), Name: fmt.Sprintf("chain%d", chain), BlocksToWait: 1, CCMCAddress: ethCCMC.Bytes()}
				sk := common.NewZeroCopySink(nil)
				sc.Serialization(sk)
				val = cstates.GenRawStorageItem(sk.Bytes())
			}
			sk := common.NewZeroCopySink(nil)
			sk.WriteVarUint(1)
			sk.WriteVarBytes(key)
			sk.WriteVarBytes(val)
			f.nonce++
			tx = mkTxChain(f.chainID(), 0x40000000+f.nonce, planterAddr, "plant", sk.Bytes())
			tx.SignedAddr = []common.Address{valAddr[0]}
		case "black", "white":
			_, n := kv(sp[1])
			_, s := kv(sp[2])
			sk := common.NewZeroCopySink(nil)
			(&scom.BlackChainParam{ChainID: u64(sp[3])}).Serialization(sk)
			method := scom.BLACK_CHAIN
			if sp[0] == "white" {
				method = scom.WHITE_CHAIN
			}
			tx = mkTxChain(f.chainID(), uint32(u64(n)), utils.CrossChainManagerContractAddress, method, sk.Bytes())
			tx.SignedAddr = f.w.signerAddrs(s)
		case "import":
			o, ok := parseImport(f.w, sp)
			if !ok {
				return "bad-op"
			}
			tx = mkTxChain(f.chainID(), o.nonce, utils.CrossChainManagerContractAddress, scom.IMPORT_OUTER_TRANSFER_NAME, o.args())
			if th := tx.Hash(); hex.EncodeToString(th[:]) != o.th {
				return "bad-op:txhash=" + hex.EncodeToString(th[:])
			}
			tx.SignedAddr = f.w.signerAddrs(o.signers)
			info.imp, info.th = o, tx.Hash()
		default:
			return "bad-op"
		}
		if len(tx.SignedAddr) == 0 {
			tx.SignedAddr = []common.Address{{0xee, 0xee}}
		}
		txs = append(txs, tx)
		infos = append(infos, info)
	}
	blk := f.nextBlock(txs)
	res, err := f.ls.ExecuteBlock(blk)
	if err != nil {
		return "bad-op:execute:" + err.Error()
	}
	if err := f.ls.AddBlock(blk, res.MerkleRoot); err != nil {
		return "bad-op:addblock:" + err.Error()
	}
	var outs []string
	var doneL, reqL []string
	expectLeaves := [][]byte{}
	doneSeen, doneMsg := map[string]bool{}, map[string]string{}
	newReq := 0
	for i, info := range infos {
		ok := res.Notify[i].State == event.CONTRACT_STATE_SUCCESS
		out := "fail"
		executed := false
		if ok {
			out = "ok"
			if info.kind == "import" {
				out = "ok-pending"
				for _, n := range res.Notify[i].Notify {
					if st, isL := n.States.([]interface{}); isL && len(st) > 0 && st[0] == scom.NOTIFY_MAKE_PROOF {
						out, executed = "ok", true
					}
				}
			}
		}
		outs = append(outs, out)
		// bookkeeping of the committed registry / blacklist for the oracles
		switch info.kind {
		case "reg":
			sp := specs[i]
			f.reg[u64(sp[1])] = u64(sp[2])
		case "unreg":
			delete(f.reg, u64(specs[i][1]))
		case "black":
			if ok {
				f.black[u64(specs[i][3])] = true
			}
		case "white":
			if ok {
				delete(f.black, u64(specs[i][3]))
			}
		}
		if info.kind != "import" || !info.imp.dec {
			continue
		}
		o := info.imp
		mk := fmt.Sprintf("%d/%x", o.src, o.p.CrossChainID)
		done := f.read(utils.CrossChainManagerContractAddress, append(append([]byte(scom.DONE_TX), utils.GetUint64Bytes(o.src)...), o.p.CrossChainID...)) != nil
		reqVal := f.read(utils.CrossChainManagerContractAddress, append(append([]byte(scom.REQUEST), utils.GetUint64Bytes(o.p.ToChainID)...), info.th.ToArray()...))
		if executed {
			if f.marked[mk] {
				r.Viol(fmt.Sprintf("C20:replay-accepted:block:router=%d", f.reg[o.src]), fmt.Sprintf("message (chain %d, id %x) was executed again in block %d", o.src, o.p.CrossChainID, blk.Header.Height))
			}
			f.marked[mk] = true
			want := refMerkleValue(info.th.ToArray(), o.src, &o.p)
			if !bytes.Equal(reqVal, want) {
				r.Viol("C22:request-content:block", fmt.Sprintf("request record of tx %x in block %d is %x, expected %x", info.th.ToArray(), blk.Header.Height, reqVal, want))
			}
			expectLeaves = append(expectLeaves, want)
			newReq++
		} else if reqVal != nil {
			r.Viol("C22:not-executed-but-committed:block", fmt.Sprintf("import %x (%s) left a request record", info.th.ToArray(), out))
		}
		doneSeen[mk] = done
		doneMsg[mk] = fmt.Sprintf("(chain %d, id %x)", o.src, o.p.CrossChainID)
		doneL = append(doneL, map[bool]string{true: "1", false: "0"}[done])
		reqL = append(reqL, hx.Hex(reqVal))
	}
	for mk, done := range doneSeen {
		if done != f.marked[mk] {
			r.Viol("C20:done-mark-wrong:block", fmt.Sprintf("after block %d the done record of %s is %v, but the message was%s executed (a failed transaction of the block must not leave its replay marker behind)", blk.Header.Height, doneMsg[mk], done, map[bool]string{true: "", false: " never"}[f.marked[mk]]))
		}
	}
	var xhs []string
	for _, h := range res.CrossHashes {
		xhs = append(xhs, hex.EncodeToString(h[:]))
	}
	if len(res.CrossHashes) != len(expectLeaves) {
		r.Viol("C22:block-leaves", fmt.Sprintf("block %d committed %d cross-state leaves for %d executed imports", blk.Header.Height, len(res.CrossHashes), len(expectLeaves)))
	} else {
		for i, w := range expectLeaves {
			if lf := sha256.Sum256(append([]byte{0}, w...)); res.CrossHashes[i] != common.Uint256(lf) {
				r.Viol("C22:block-leaves", fmt.Sprintf("leaf %d of block %d is %x, expected %x", i, blk.Header.Height, res.CrossHashes[i][:], lf[:]))
			}
		}
	}
	join := func(l []string) string {
		if len(l) == 0 {
			return "-"
		}
		return strings.Join(l, ",")
	}
	return strings.Join(outs, " | ") + " || done=" + join(doneL) + " req=" + join(reqL) + " xh=" + join(xhs) + fmt.Sprintf(" new=%d", newReq)
}

func (f *blockFam) Gen(r *hx.Run) {
	r.Rule("blocks of 1..6 transactions executed by the real ExecuteBlock/AddBlock on a real ledger: registry changes, BlackChain/WhiteChain, vote-router imports of the 7 genesis validators (a quorum and more inside one block and across blocks); failing imports (destination unregistered / blacklisted after the handler marked the message) followed by successful transactions in the same block, then the same message again when the destination is available; distinct non-trivial = (block shape: positions of failing and succeeding transactions, outcome of the retried message)")
	defer f.closeLedger()
	nCases := r.Pick(10, 200)
	if small() {
		nCases = 2
	}
	cf := &ccmFam{w: &world{nCons: 7}}
	for c := 0; c < nCases; c++ {
		r.Case(fmt.Sprintf("b%d", c))
		rng := r.Rng
		r.Do("peers 7 0")
		nonce := uint32(c*10000 + 1)
		height := 1
		blk := func(txs ...string) string {
			res := r.Do(fmt.Sprintf("blk h=%d %s", height, strings.Join(txs, " ;; ")))
			height++
			return res
		}
		mkMsg := func(to uint64, id byte) *msg {
			p := scom.MakeTxParam{TxHash: rng.Bytes(8), CrossChainID: append([]byte{id}, rng.Bytes(7)...), FromContractAddress: rng.Bytes(4), ToChainID: to,
				ToContractAddress: rng.Bytes(4), Method: "unlock", Args: rng.Bytes(10 + rng.Intn(40))}
			sk := common.NewZeroCopySink(nil)
			p.Serialization(sk)
			return &msg{p: p, raw: sk.Bytes(), dec: true}
		}
		vote := func(voter int, src uint64, h uint32, m *msg) string {
			nonce++
			op := cf.importOp(nonce, fmt.Sprint(voter), fmt.Sprint(voter), src, h, nil, nil, m, 0)
			return f.fixHash(op)
		}
		filler := func() string {
			nonce++
			if rng.Bool() {
				return fmt.Sprintf("reg %d 0", 40+rng.Intn(3))
			}
			return fmt.Sprintf("black n=%d s=op %d", nonce, 50+rng.Intn(3))
		}
		src, dst := uint64(1), uint64(2)
		blk(fmt.Sprintf("reg %d 0", src))
		m := mkMsg(dst, 1)
		mOK := mkMsg(src, 2) // destination = the (registered) source chain: executes
		// four votes in their own blocks, then the quorum vote inside a block whose destination gate fails, followed by
		// successful transactions in the same block
		var pre []string
		for v := 0; v < 4; v++ {
			pre = append(pre, vote(v, src, 0, m))
		}
		switch rng.Intn(3) {
		case 0:
			blk(pre...)
		case 1:
			blk(pre[:2]...)
			blk(pre[2:]...)
		default:
			for _, p := range pre {
				blk(p)
			}
		}
		destGate := rng.Intn(2) // 0: destination unregistered, 1: destination blacklisted
		if destGate == 1 {
			nonce++
			blk(fmt.Sprintf("reg %d 2", dst), fmt.Sprintf("black n=%d s=op %d", nonce, dst))
		}
		var tail []string
		tail = append(tail, vote(4, src, 0, m)) // quorum: handler marks the message, destination gate fails
		for k := 0; k < 1+rng.Intn(3); k++ {
			if rng.Bool() {
				tail = append(tail, filler())
			} else {
				// a complete successful import in the same block: 5 votes for another message
				for v := 0; v < 5; v++ {
					tail = append(tail, vote(v, src, uint32(10+k), mOK))
				}
				mOK = mkMsg(src, byte(10+k))
			}
		}
		res := blk(tail...)
		r.Nontrivial("fail-then-ok/" + strings.Join(strings.Fields(strings.Split(res, "||")[0]), ""))
		// the destination becomes available; the same message (same id) in a new vote round must be executed
		if destGate == 1 {
			nonce++
			blk(fmt.Sprintf("white n=%d s=op %d", nonce, dst))
		} else {
			blk(fmt.Sprintf("reg %d 2", dst))
		}
		var retry []string
		for v := 0; v < 5; v++ {
			retry = append(retry, vote(v, src, 1, m))
		}
		res = blk(retry...)
		r.Nontrivial("retry/" + strings.Join(strings.Fields(strings.Split(res, "||")[0]), ""))
		// and once more: now it is a replay
		var again []string
		for v := 0; v < 5; v++ {
			again = append(again, vote(v, src, 2, m))
		}
		blk(again...)
	}
}

// fixHash recomputes the th= token of an import op for the ledger's chain id.
func (f *blockFam) fixHash(op string) string {
	fields := strings.Fields(op)
	o, ok := parseImport(f.w, fields)
	if !ok {
		panic("unparsable import op")
	}
	tx := mkTxChain(f.chainID(), o.nonce, utils.CrossChainManagerContractAddress, scom.IMPORT_OUTER_TRANSFER_NAME, o.args())
	th := tx.Hash()
	for i, t := range fields {
		if strings.HasPrefix(t, "th=") {
			fields[i] = "th=" + hex.EncodeToString(th[:])
		}
	}
	return strings.Join(fields, " ")
}
