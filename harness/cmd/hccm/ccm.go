package main

import (
	"bytes"
	"crypto/sha256"
	"encoding/hex"
	"fmt"
	"strconv"
	"strings"

	"github.com/polynetwork/poly/common"
	"github.com/polynetwork/poly/common/config"
	"github.com/polynetwork/poly/core/types"
	"github.com/polynetwork/poly/native"
	"github.com/polynetwork/poly/native/event"
	"github.com/polynetwork/poly/native/service/governance/side_chain_manager"
	"github.com/polynetwork/poly/native/storage"
	cstates "github.com/polynetwork/poly/core/states"
	scom "github.com/polynetwork/poly/native/service/cross_chain_manager/common"
	hscommon "github.com/polynetwork/poly/native/service/header_sync/common"
	"github.com/polynetwork/poly/native/service/utils"
	"polyverif/internal/hx"
)

// Family ccm (C20, C21, C22): the real cross-chain-manager entrance on a real native service; one op = one
// transaction executed by StateStore.HandleInvokeTransaction (commit on success, nothing on failure).
//
//	peers <nCons> <nCand>                      plant the governance view and the peer pool            -> ok
//	net main|test                               config.DefConfig.P2PNode.NetworkId                      -> ok
//	height <h>                                  height of the following blocks                          -> ok
//	conc <g> <chain>...                         the registry / blacklist / done getters for these chains from g goroutines, each
//	                                            with its own CacheDB over the block overlay; every answer must equal the
//	                                            sequential one                                            -> ok | diverged
//	eventlog on|off                             config.DefConfig.Common.EnableEventLog                  -> ok
//	reg <chain> <router> | unreg <chain>        plant / remove a side-chain record                      -> ok
//	black|white n=<nonce> s=<signers> <chain>   BlackChain / WhiteChain signed by <signers>             -> ok | reject:<class>
//	dput <chain> <id> | dcheck <chain> <id>     the real PutDoneTx / CheckDoneTx on the committed state -> ok | done | free
//	ethsetup n=<nonce> chain=<c> m=<extra>,<extra>,..   build a synthetic Ethereum state whose contract storage commits to the
//	       given messages and install a header with that state root through the real eth SyncGenesisHeader   -> ok | reject
//	dryblack|drywhite n=<nonce> s=<signers> <chain>   the same call in a discarded execution (pre-exec: nothing committed)
//	import n=<nonce> th=<txhash> s=<signers> rl=<id|bad> src=<chain> h=<height> px=<proof> hd=<header> ex=<extra>
//	       pv=<0|1>  (the generator's claim: px is a valid eth storage proof of ex at height h of an eth chain set up by ethsetup)
//	       dec=0 | dec=1 <txHash> <crossChainID> <fromContract> <toChain> <toContract> <method> <args>
//	    -> <outcome> done=<0|1|-> req=<value|-> xh=<cross hashes|-> new=<number of new request keys>
//
// signers: comma separated validator ids, `op` = the consensus operator (multi-signature address of the consensus
// peers), `-` = nobody. th is the hash of the relay transaction (the model cannot compute it; the harness checks
// it). dec=1 fields are what ex decodes to (checked).
type ccmFam struct {
	w *world
	// property oracle bookkeeping, independent of the model
	accepted map[string]int
	black    map[uint64]bool
	reg      map[uint64]uint64
	mainNet  bool
	eth      map[uint64]*ethState // synthetic Ethereum state installed per chain (ethsetup)
	marked   map[string]bool      // (chain, id) for which PutDoneTx was executed (dput, or an executed import)
}

func init() { families["ccm"] = func() hx.Family { return &ccmFam{} } }

func (f *ccmFam) Reset(r *hx.Run) {
	f.w.close()
	f.w = newWorld()
	f.accepted = map[string]int{}
	f.black = map[uint64]bool{}
	f.reg = map[uint64]uint64{}
	f.mainNet = true
	f.eth = map[uint64]*ethState{}
	f.marked = map[string]bool{}
}

func kv(tok string) (string, string) {
	i := strings.Index(tok, "=")
	if i < 0 {
		return tok, ""
	}
	return tok[:i], tok[i+1:]
}

func u64(s string) uint64 {
	v, _ := strconv.ParseUint(s, 10, 64)
	return v
}

func classify(err error) string {
	if err == nil {
		return "ok"
	}
	m := err.Error()
	switch {
	case strings.Contains(m, "contract params deserialize error"):
		return "reject:param"
	case strings.Contains(m, "source chain is blacked"):
		return "reject:src-black"
	case strings.Contains(m, "target chain is blacked"):
		return "reject:dst-black"
	case strings.Contains(m, "ImportExTransfer, side chain ") && strings.Contains(m, " is not registered"):
		return "reject:unreg" // the entrance's own registry gates (the BTC / ripple builders use similar words)
	case strings.Contains(m, "not a supported router"):
		return "reject:router"
	case strings.Contains(m, "common.AddressParseFromBytes error"):
		return "reject:relayer-addr"
	case strings.Contains(m, "signer is not consensus peer"):
		return "reject:not-consensus"
	case strings.Contains(m, "deserialize MakeTxParam error"):
		return "reject:extra"
	case strings.Contains(m, "check done transaction error"), strings.Contains(m, "tx already done"):
		return "reject:done"
	case strings.Contains(m, "checkWitness error"):
		return "reject:witness"
	}
	return "reject:verify"
}

type importOp struct {
	nonce                   uint32
	th, signers, rl         string
	src                     uint64
	h                       uint32
	proof, hdr, extra       []byte
	dec                     bool
	p                       scom.MakeTxParam
	relayer                 []byte
}

func parseImport(w *world, op []string) (*importOp, bool) {
	o := &importOp{}
	i := 1
	for ; i < len(op); i++ {
		k, v := kv(op[i])
		switch k {
		case "n":
			o.nonce = uint32(u64(v))
		case "th":
			o.th = v
		case "s":
			o.signers = v
		case "rl":
			o.rl = v
		case "src":
			o.src = u64(v)
		case "h":
			o.h = uint32(u64(v))
		case "px":
			o.proof = hx.UnHex(v)
		case "hd":
			o.hdr = hx.UnHex(v)
		case "ex":
			o.extra = hx.UnHex(v)
		case "pv":
		case "dec":
			o.dec = v == "1"
			i++
			goto fields
		default:
			return nil, false
		}
	}
fields:
	if o.dec {
		if len(op)-i != 7 {
			return nil, false
		}
		o.p = scom.MakeTxParam{TxHash: hx.UnHex(op[i]), CrossChainID: hx.UnHex(op[i+1]), FromContractAddress: hx.UnHex(op[i+2]),
			ToChainID: u64(op[i+3]), ToContractAddress: hx.UnHex(op[i+4]), Method: string(hx.UnHex(op[i+5])), Args: hx.UnHex(op[i+6])}
	}
	switch o.rl {
	case "bad":
		o.relayer = []byte{1, 2, 3}
	default:
		a := w.signerAddrs(o.rl)
		if len(a) != 1 {
			return nil, false
		}
		o.relayer = a[0][:]
	}
	return o, true
}

func (o *importOp) args() []byte {
	ep := &scom.EntranceParam{SourceChainID: o.src, Height: o.h, Proof: o.proof, RelayerAddress: o.relayer, Extra: o.extra, HeaderOrCrossChainMsg: o.hdr}
	sink := common.NewZeroCopySink(nil)
	ep.Serialization(sink)
	return sink.Bytes()
}

func requestPrefix() string {
	return string(append([]byte{0x05}, utils.ConcatKey(utils.CrossChainManagerContractAddress, []byte(scom.REQUEST))...))
}

func (f *ccmFam) Exec(r *hx.Run, op []string) string {
	defer debugPanic()
	w := f.w
	switch op[0] {
	case "peers":
		w.plantPeers(int(u64(op[1])), int(u64(op[2])))
		return "ok"
	case "net":
		f.mainNet = op[1] == "main"
		if f.mainNet {
			config.DefConfig.P2PNode.NetworkId = config.NETWORK_ID_MAIN_NET
		} else {
			config.DefConfig.P2PNode.NetworkId = config.NETWORK_ID_TEST_NET
		}
		return "ok"
	case "height":
		w.height = uint32(u64(op[1]))
		return "ok"
	case "conc":
		return f.concurrentReads(r, int(u64(op[1])), op[2:])
	case "eventlog":
		// config.DefConfig.Common.EnableEventLog (a node started with --disable-event-log); reset to on by every new case
		config.DefConfig.Common.EnableEventLog = op[1] == "on"
		return "ok"
	case "reg":
		before := w.writeSet()
		w.putSideChain(u64(op[1]), u64(op[2]))
		logKeys(diffKeys(before, w.writeSet()))
		f.reg[u64(op[1])] = u64(op[2])
		return "ok"
	case "unreg":
		w.delSideChain(u64(op[1]))
		delete(f.reg, u64(op[1]))
		return "ok"
	case "dryblack", "drywhite":
		// BlackChain / WhiteChain executed the way a pre-execution does: own transaction cache, never committed
		_, n := kv(op[1])
		_, sg := kv(op[2])
		chain := u64(op[3])
		sink := common.NewZeroCopySink(nil)
		(&scom.BlackChainParam{ChainID: chain}).Serialization(sink)
		method := scom.BLACK_CHAIN
		if op[0] == "drywhite" {
			method = scom.WHITE_CHAIN
		}
		tx := mkTx(uint32(u64(n)), utils.CrossChainManagerContractAddress, method, sink.Bytes())
		before := w.writeSet()
		err := w.preExec(tx, w.signerAddrs(sg))
		if len(diffKeys(before, w.writeSet())) != 0 {
			r.Viol("C21:discarded-execution-changed-state", fmt.Sprintf("a pre-executed %s(%d) changed committed storage", method, chain))
		}
		b, _ := scom.CheckIfChainBlacked(w.view(), chain)
		if b != f.black[chain] {
			r.Viol("C21:discarded-execution-changed-blacklist", fmt.Sprintf("after a discarded %s(%d) CheckIfChainBlacked answers %v; the committed blacklist says %v", method, chain, b, f.black[chain]))
		}
		return classify(err)
	case "black", "white":
		_, n := kv(op[1])
		_, s := kv(op[2])
		chain := u64(op[3])
		sink := common.NewZeroCopySink(nil)
		(&scom.BlackChainParam{ChainID: chain}).Serialization(sink)
		method := scom.BLACK_CHAIN
		if op[0] == "white" {
			method = scom.WHITE_CHAIN
		}
		tx := mkTx(uint32(u64(n)), utils.CrossChainManagerContractAddress, method, sink.Bytes())
		before := w.writeSet()
		_, _, err := w.exec(tx, w.signerAddrs(s))
		after := w.writeSet()
		logKeys(diffKeys(before, after))
		out := classify(err)
		if err == nil {
			if op[0] == "black" {
				f.black[chain] = true
			} else {
				delete(f.black, chain)
			}
			// read back through the real gate
			b, _ := scom.CheckIfChainBlacked(w.view(), chain)
			if b != (op[0] == "black") {
				r.Viol("C21:"+op[0]+"-chain-no-effect", fmt.Sprintf("%sChain(%d) succeeded but CheckIfChainBlacked now answers %v", op[0], chain, b))
			}
		} else if len(diffKeys(before, after)) != 0 {
			r.Viol("C21:rejected-"+op[0]+"-changed-state", fmt.Sprintf("%sChain(%d) failed (%v) but changed %d storage keys", op[0], chain, err, len(diffKeys(before, after))))
		}
		isOp := false
		for _, a := range w.signerAddrs(s) {
			if a == w.operator() {
				isOp = true
			}
		}
		if isOp != (err == nil) {
			r.Viol("C21:"+op[0]+"-witness", fmt.Sprintf("%sChain(%d) signed by [%s]: result %v (the operator witness decides)", op[0], chain, s, err))
		}
		return out
	case "dput", "dcheck":
		chain, id := u64(op[1]), hx.UnHex(op[2])
		mk := fmt.Sprintf("%d/%x", chain, id)
		if op[0] == "dput" {
			before := w.writeSet()
			scom.PutDoneTx(w.view(), id, chain)
			w.cache.Commit()
			w.cache.Reset()
			changed := diffKeys(before, w.writeSet())
			logKeys(changed)
			want := string(rawDoneKey(chain, id))
			for _, k := range changed {
				if k != want {
					r.Viol(fmt.Sprintf("C17:done-key-not-raw:idlen=%d", len(id)), fmt.Sprintf("PutDoneTx(chain %d, id %x) wrote the key %x; the record of that (chain, id) is doneTx ‖ chain ‖ id = %x", chain, id, k, want))
				}
			}
			f.marked[mk] = true
			return "ok"
		}
		done := scom.CheckDoneTx(w.view(), id, chain) != nil
		if done != f.marked[mk] {
			r.Viol(fmt.Sprintf("C20:done-check-wrong:idlen=%d", len(id)), fmt.Sprintf("CheckDoneTx(chain %d, id %x) answers done=%v, but PutDoneTx was%s executed for exactly that (chain, id)", chain, id, done, map[bool]string{true: "", false: " never"}[f.marked[mk]]))
		}
		if done {
			return "done"
		}
		return "free"
	case "ethsetup":
		var nonce uint32
		var chain uint64
		router := uint64(2)
		var extras [][]byte
		for _, t := range op[1:] {
			k, v := kv(t)
			switch k {
			case "n":
				nonce = uint32(u64(v))
			case "r":
				router = u64(v)
			case "chain":
				chain = u64(v)
			case "m":
				for _, e := range strings.Split(v, ",") {
					extras = append(extras, hx.UnHex(e))
				}
			}
		}
		es, err := buildEthState(chain, extras)
		if err != nil {
			return "bad-op:" + err.Error()
		}
		var gb []byte
		if router == 2 {
			gb, err = ethGenesisWithRoot(es.root)
		} else { // PoSA routers (bsc, heco, pixiechain, hsc, bytom): parlia-style genesis with the same state root
			gb, err = posaGenesisRoot(0, ethGenesisHeight, es.root)
		}
		if err != nil {
			return "bad-op:" + err.Error()
		}
		tx := mkTx(nonce, utils.HeaderSyncContractAddress, hscommon.SYNC_GENESIS_HEADER, genesisParam(chain, gb))
		before := w.writeSet()
		_, _, err = w.exec(tx, w.signerAddrs("op"))
		logKeys(diffKeys(before, w.writeSet()))
		if err != nil {
			return "reject"
		}
		f.eth[chain] = es
		return "ok"
	case "import":
		return f.doImport(r, op)
	}
	return "bad-op"
}

func (f *ccmFam) doImport(r *hx.Run, op []string) string {
	w := f.w
	o, ok := parseImport(w, op)
	if !ok {
		return "bad-op"
	}
	tx := mkTx(o.nonce, utils.CrossChainManagerContractAddress, scom.IMPORT_OUTER_TRANSFER_NAME, o.args())
	th := tx.Hash()
	if hex.EncodeToString(th.ToArray()) != o.th {
		return "bad-op:txhash=" + hex.EncodeToString(th.ToArray())
	}
	if o.dec {
		sink := common.NewZeroCopySink(nil)
		o.p.Serialization(sink)
		if !bytes.Equal(sink.Bytes(), o.extra) {
			return "bad-op:extra-fields"
		}
	} else {
		var p scom.MakeTxParam
		if p.Deserialization(common.NewZeroCopySource(o.extra)) == nil {
			return "bad-op:extra-decodes"
		}
	}
	doneBefore := false
	if o.dec {
		doneBefore = scom.CheckDoneTx(w.view(), o.p.CrossChainID, o.src) != nil
	}
	before := w.writeSet()
	var xh []common.Uint256
	var notify *event.ExecuteNotify
	var err error
	func() {
		// an import ends in success or in an error; a panic inside block execution is not recovered anywhere in the node
		defer func() {
			if e := recover(); e != nil {
				rt, reg := f.reg[o.src]
				name := "unregistered"
				if reg {
					name = fmt.Sprint(rt)
				}
				r.Viol("C21:import-panicked:router="+name, fmt.Sprintf("ImportOuterTransfer from chain %d (router %s) panicked instead of being rejected: %v", o.src, name, e))
				panic(e)
			}
		}()
		xh, notify, err = w.exec(tx, w.signerAddrs(o.signers))
	}()
	evExecuted := false
	for _, n := range notify.Notify {
		if st, ok := n.States.([]interface{}); ok && len(st) > 0 && st[0] == scom.NOTIFY_MAKE_PROOF {
			evExecuted = true
		}
	}
	after := w.writeSet()
	changed := diffKeys(before, after)
	logKeys(changed)
	out := classify(err)
	if out == "reject:unreg" {
		if strings.Contains(err.Error(), fmt.Sprintf("side chain %d is not registered", o.src)) {
			out = "reject:src-unreg"
		} else {
			out = "reject:dst-unreg"
		}
	}
	// observations
	nNewReq := 0
	for _, k := range changed {
		if strings.HasPrefix(k, requestPrefix()) {
			if _, existed := before[k]; !existed {
				nNewReq++
			}
		}
	}
	done := "-"
	doneAfter := false
	if o.dec {
		doneAfter = scom.CheckDoneTx(w.view(), o.p.CrossChainID, o.src) != nil
		done = "0"
		if doneAfter {
			done = "1"
		}
	}
	req := "-"
	var reqVal []byte
	if o.dec {
		raw, _ := w.view().GetCacheDB().Get(utils.ConcatKey(utils.CrossChainManagerContractAddress, []byte(scom.REQUEST), utils.GetUint64Bytes(o.p.ToChainID), th.ToArray()))
		if raw != nil {
			reqVal, _ = cstates.GetValueFromRawStorageItem(raw)
			req = hx.Hex(reqVal)
		}
	}
	var xhs []string
	for _, h := range xh {
		xhs = append(xhs, hex.EncodeToString(h[:]))
	}
	xhStr := "-"
	if len(xhs) > 0 {
		xhStr = strings.Join(xhs, ",")
	}
	// executed = the handler returned a message and MakeTransaction ran; three independent signals must agree:
	// the makeProof event, a new request record, and (main net) a fresh done mark
	executed := err == nil && (evExecuted || nNewReq > 0 || (o.dec && doneAfter && !doneBefore))
	pending := err == nil && !executed
	if pending {
		out = "ok-pending"
	}

	// ---- the properties, evaluated directly on the implementation's outputs
	srcRouter, srcReg := f.reg[o.src]
	if err != nil {
		if len(changed) != 0 {
			r.Viol("C21:rejected-import-changed-state", fmt.Sprintf("a failed import (%v) changed %d storage keys, first %x", err, len(changed), changed[0]))
		}
		if len(xh) != 0 {
			r.Viol("C22:failed-import-committed-leaf", fmt.Sprintf("a failed import (%v) returned %d cross-state leaves", err, len(xh)))
		}
	}
	if err == nil {
		if f.black[o.src] {
			r.Viol("C21:import-accepted:src-black", fmt.Sprintf("import from blacklisted source chain %d succeeded (%s)", o.src, out))
		}
		if !srcReg {
			r.Viol("C21:import-accepted:src-unregistered", fmt.Sprintf("import from unregistered source chain %d succeeded (%s)", o.src, out))
		}
		if srcReg && f.mainNet && (srcRouter == utils.HARMONY_ROUTER || srcRouter == utils.HSC_ROUTER || srcRouter == utils.BYTOM_ROUTER) && w.height < 18823000 {
			r.Viol("C21:import-accepted:router-inactive", fmt.Sprintf("import through router %d succeeded at height %d, before its start block", srcRouter, w.height))
		}
	}
	if o.dec {
		mk := fmt.Sprintf("%d/%x", o.src, o.p.CrossChainID)
		if doneBefore != f.marked[mk] {
			r.Viol(fmt.Sprintf("C20:done-check-wrong:idlen=%d", len(o.p.CrossChainID)), fmt.Sprintf("before this import CheckDoneTx(chain %d, id %x) answered done=%v, but that message was%s executed or marked before", o.src, o.p.CrossChainID, doneBefore, map[bool]string{true: "", false: " never"}[f.marked[mk]]))
		}
		if doneAfter {
			f.marked[mk] = true
		}
	}
	if executed && o.dec {
		if f.black[o.p.ToChainID] {
			r.Viol("C21:import-accepted:dst-black", fmt.Sprintf("import towards blacklisted chain %d was executed", o.p.ToChainID))
		}
		if _, ok := f.reg[o.p.ToChainID]; !ok {
			r.Viol("C21:import-accepted:dst-unregistered", fmt.Sprintf("import towards unregistered chain %d was executed", o.p.ToChainID))
		}
		id := fmt.Sprintf("%d/%x", o.src, o.p.CrossChainID)
		f.accepted[id]++
		if f.accepted[id] > 1 && f.mainNet {
			r.Viol(fmt.Sprintf("C20:replay-accepted:router=%d", srcRouter), fmt.Sprintf("message (chain %d, id %x) was executed %d times", o.src, o.p.CrossChainID, f.accepted[id]))
		}
		if f.mainNet && !doneAfter {
			r.Viol(fmt.Sprintf("C20:accepted-not-marked:router=%d", srcRouter), fmt.Sprintf("message (chain %d, id %x) was executed but is not marked done", o.src, o.p.CrossChainID))
		}
		if nNewReq != 1 {
			r.Viol(fmt.Sprintf("C22:request-count:%d", nNewReq), fmt.Sprintf("an executed import created %d request records", nNewReq))
		}
		if !evExecuted && config.DefConfig.Common.EnableEventLog {
			r.Viol("C22:no-makeProof-event", "an executed import did not emit the makeProof event")
		}
		// independent reference encoding of ToMerkleValue
		want := refMerkleValue(th.ToArray(), o.src, &o.p)
		if !bytes.Equal(reqVal, want) {
			r.Viol("C22:request-content", fmt.Sprintf("request record under (chain %d, tx %x) is %x, expected %x", o.p.ToChainID, th.ToArray(), reqVal, want))
		}
		leaf := sha256.Sum256(append([]byte{0}, want...))
		if len(xh) != 1 || xh[0] != common.Uint256(leaf) {
			r.Viol("C22:cross-hash", fmt.Sprintf("cross-state leaves of the import are %v, expected exactly [%x]", xhs, leaf[:]))
		}
		var back scom.ToMerkleValue
		if e := back.Deserialization(common.NewZeroCopySource(reqVal)); e != nil || !bytes.Equal(back.TxHash, th.ToArray()) || back.FromChainID != o.src ||
			!bytes.Equal(back.MakeTxParam.CrossChainID, o.p.CrossChainID) || back.MakeTxParam.ToChainID != o.p.ToChainID ||
			!bytes.Equal(back.MakeTxParam.Args, o.p.Args) || back.MakeTxParam.Method != o.p.Method {
			r.Viol("C22:request-decode", fmt.Sprintf("stored request does not decode back to the executed message: %v", e))
		}
	}
	if !executed && o.dec && doneAfter != doneBefore {
		r.Viol(fmt.Sprintf("C20:not-accepted-but-marked:router=%d", srcRouter), fmt.Sprintf("message (chain %d, id %x) was not executed (%s) but its done mark changed %v -> %v", o.src, o.p.CrossChainID, out, doneBefore, doneAfter))
	}
	if !executed && (nNewReq != 0 || len(xh) != 0) {
		r.Viol("C22:not-executed-but-committed", fmt.Sprintf("import outcome %s created %d request records and %d leaves", out, nNewReq, len(xh)))
	}
	r.Hist("outcome." + out)
	if srcReg && (out == "ok" || out == "reject:done" || out == "ok-pending") {
		r.Hist(fmt.Sprintf("router%d.%s", srcRouter, out))
	}
	return fmt.Sprintf("%s done=%s req=%s xh=%s new=%d", out, done, req, xhStr, nNewReq)
}

// rawDoneKey is the storage key of the done record of (chain, id), written by hand.
func rawDoneKey(chain uint64, id []byte) []byte {
	k := []byte{0x05, 0, 0, 0, 0, 0, 0, 0, 0, 0, 0, 0, 0, 0, 0, 0, 0, 0, 0, 0, 0x03}
	k = append(k, "doneTx"...)
	for i := 0; i < 8; i++ {
		k = append(k, byte(chain>>(8*uint(i))))
	}
	return append(k, id...)
}

// refMerkleValue is an independent encoding of ToMerkleValue (hand-written, not the repo's sink).
func refMerkleValue(txHash []byte, from uint64, p *scom.MakeTxParam) []byte {
	var b []byte
	vu := func(n uint64) {
		switch {
		case n < 0xfd:
			b = append(b, byte(n))
		case n <= 0xffff:
			b = append(b, 0xfd, byte(n), byte(n>>8))
		case n <= 0xffffffff:
			b = append(b, 0xfe, byte(n), byte(n>>8), byte(n>>16), byte(n>>24))
		default:
			b = append(b, 0xff)
			for i := 0; i < 8; i++ {
				b = append(b, byte(n>>(8*uint(i))))
			}
		}
	}
	vb := func(x []byte) { vu(uint64(len(x))); b = append(b, x...) }
	le64 := func(n uint64) {
		for i := 0; i < 8; i++ {
			b = append(b, byte(n>>(8*uint(i))))
		}
	}
	vb(txHash)
	le64(from)
	vb(p.TxHash)
	vb(p.CrossChainID)
	vb(p.FromContractAddress)
	le64(p.ToChainID)
	vb(p.ToContractAddress)
	vb([]byte(p.Method))
	vb(p.Args)
	return b
}

// ---------------------------------------------------------------------------------------------- generator

type msg struct {
	p   scom.MakeTxParam
	raw []byte // extra bytes (may be malformed)
	dec bool
}

func (f *ccmFam) importOp(nonce uint32, signers, rl string, src uint64, h uint32, proof, hdr []byte, m *msg, pv int) string {
	base := fmt.Sprintf("import n=%d th=@ s=%s rl=%s src=%d h=%d px=%s hd=%s ex=%s pv=%d", nonce, signers, rl, src, h, hx.Hex(proof), hx.Hex(hdr), hx.Hex(m.raw), pv)
	if m.dec {
		base += fmt.Sprintf(" dec=1 %s %s %s %d %s %s %s", hx.Hex(m.p.TxHash), hx.Hex(m.p.CrossChainID), hx.Hex(m.p.FromContractAddress),
			m.p.ToChainID, hx.Hex(m.p.ToContractAddress), hx.Hex([]byte(m.p.Method)), hx.Hex(m.p.Args))
	} else {
		base += " dec=0"
	}
	o, ok := parseImport(f.w, strings.Fields(base))
	if !ok {
		panic("generator produced an unparsable op: " + base)
	}
	tx := mkTx(o.nonce, utils.CrossChainManagerContractAddress, scom.IMPORT_OUTER_TRANSFER_NAME, o.args())
	th := tx.Hash()
	return strings.Replace(base, "th=@", "th="+hex.EncodeToString(th.ToArray()), 1)
}

func (f *ccmFam) Gen(r *hx.Run) {
	r.Rule("histories of peer-pool planting, side-chain register/remove, BlackChain/WhiteChain (operator and non-operator signers), and ImportOuterTransfer through the consensus-vote router (vote campaigns to and past the quorum, replays with the same and with different heights, malformed extra, wrong/missing witnesses, non-consensus signers) and through every other router with garbage proofs; 3x3..6x6 grids of source/destination chains incl. unregistered, blacklisted, BTC/ripple-free targets; main net and test net (done-check gate), heights around the router start block; distinct non-trivial = (outcome, source router class, destination state, replay?) combinations")
	nCases := r.Pick(160, 6000)
	if small() {
		nCases = 12
	}
	routers := []uint64{2, 3, 4, 5, 6, 7, 8, 9, 10, 12, 14, 16, 17, 18, 19, 20, 21, 22, 1, 23, 11, 13, 15, 99}
	for c := 0; c < nCases; c++ {
		r.Case(fmt.Sprintf("h%d", c))
		rng := r.Rng
		nonce := uint32(c*1000 + 1)
		nCons := []int{1, 2, 3, 4, 4, 5, 7}[rng.Intn(7)]
		nCand := rng.Intn(3)
		r.Do(fmt.Sprintf("peers %d %d", nCons, nCand))
		curH := uint32(100)
		setH := func(h uint32) {
			curH = h
			r.Do(fmt.Sprintf("height %d", h))
		}
		// boundary-heavy relay-chain heights (router start block, fork-height candidates, integer limits)
		heightSet := []uint32{0, 1, 100, 18822999, 18823000, 18823001, 19954184, 19954185, 19999999, 20000000, 20000001,
			35999999, 36000000, 36000001, 100000000, 2147483647, 2147483648, 4294967295}
		laterHeight := func() uint32 { // a strictly larger height from the set, usually much larger
			var bigger []uint32
			for _, h := range heightSet {
				if h > curH {
					bigger = append(bigger, h)
				}
			}
			if len(bigger) == 0 {
				return curH
			}
			return bigger[len(bigger)/2+rng.Intn(len(bigger)-len(bigger)/2)]
		}
		testnet := rng.Chance(1, 8)
		if testnet {
			r.Do("net test")
			if rng.Bool() {
				setH([]uint32{19954184, 19954185, 19954186, 100}[rng.Intn(4)])
			}
		} else {
			r.Do("net main")
			if rng.Chance(1, 6) {
				setH([]uint32{18822999, 18823000, 18823001}[rng.Intn(3)])
			}
		}
		if c%3 == 2 {
			r.Do("eventlog off") // a node started with --disable-event-log: requests and leaves must not depend on events
		}
		// chains
		universe := []uint64{1, 2, 3, 4, 5, 6}
		if rng.Chance(1, 4) {
			universe = append(universe, 1<<32+1, 0xffffffffffffffff, 0)
		}
		chainRouter := map[uint64]uint64{}
		registered := func() []uint64 {
			var o []uint64
			for _, u := range universe {
				if _, ok := chainRouter[u]; ok {
					o = append(o, u)
				}
			}
			return o
		}
		// message pool
		// a family of related cross-chain ids: x (longer than a hash), sha256(x), x[:32], x‖00, and the boundary lengths
		x := rng.Bytes([]int{33, 64, 300}[rng.Intn(3)])
		hx32 := sha256.Sum256(x)
		idFamily := [][]byte{x, hx32[:], append([]byte{}, x[:32]...), append(append([]byte{}, x...), 0), {}, rng.Bytes(1), rng.Bytes(31), rng.Bytes(32)}
		useFamily := rng.Bool()
		// every fourth case: a large message (ToMerkleValue above 4 KiB / above 64 KiB) executed through the eth router and
		// immediately followed by a small executed import (buffers reused between imports must not leak content)
		bigCase := c%4 == 1
		bigArgs := []int{5000, 5000, 70000}[rng.Intn(3)]
		var pool []*msg
		for i := 0; i < 4; i++ {
			to := universe[rng.Intn(len(universe))]
			if (bigCase && i < 2) || c%4 == 3 {
				to = universe[0]
			}
			p := scom.MakeTxParam{TxHash: rng.Bytes(1 + rng.Intn(32)), CrossChainID: rng.Bytes([]int{0, 1, 8, 32, 33}[rng.Intn(5)]),
				FromContractAddress: rng.Bytes(rng.Intn(21)), ToChainID: to, ToContractAddress: rng.Bytes(rng.Intn(21)),
				Method: []string{"unlock", "", "a"}[rng.Intn(3)], Args: rng.Bytes([]int{0, 3, 60, 253, 300}[rng.Intn(5)])}
			if bigCase && i == 0 {
				p.Args = rng.Bytes(bigArgs)
			}
			if bigCase && i < 2 {
				p.CrossChainID = append([]byte{byte(i), 0xb1}, rng.Bytes(8)...)
			} else if useFamily {
				p.CrossChainID = idFamily[i] // x, sha256(x), x[:32], x‖00: four different messages
			} else if i > 0 && rng.Chance(1, 3) { // same cross-chain id as an earlier message, different content
				p.CrossChainID = pool[rng.Intn(len(pool))].p.CrossChainID
			}
			sink := common.NewZeroCopySink(nil)
			p.Serialization(sink)
			pool = append(pool, &msg{p: p, raw: sink.Bytes(), dec: true})
		}
		if rng.Chance(1, 3) {
			g := pool[0]
			cut := rng.Intn(len(g.raw))
			bad := append([]byte{}, g.raw[:cut]...)
			var p scom.MakeTxParam
			if p.Deserialization(common.NewZeroCopySource(bad)) != nil {
				pool = append(pool, &msg{raw: bad, dec: false})
			}
		}
		ethSetup := map[uint64]bool{}
		ethRouter := map[uint64]uint64{} // a chain whose light-client records were written by one router keeps that router
		// routers whose cross-chain handler verifies an Ethereum storage proof against a synced header: eth and the PoSA
		// family (bsc, heco, pixiechain, hsc, bytom); hsc and bytom are gated by the router start block
		ethLike := map[uint64]bool{2: true, 6: true, 7: true, 19: true, 20: true, 22: true}
		doEthSetup := func(ch, rt uint64) {
			var ms []string
			for _, m := range pool {
				ms = append(ms, hx.Hex(m.raw))
			}
			back := curH
			if (rt == 20 || rt == 22) && !testnet && curH < 18823000 {
				setH(18823000) // the header-sync entrance has the same start-block gate
			}
			nonce++
			if r.Do(fmt.Sprintf("ethsetup n=%d chain=%d r=%d m=%s", nonce, ch, rt, strings.Join(ms, ","))) == "ok" {
				ethSetup[ch] = true
				ethRouter[ch] = rt
			}
			if back != curH {
				setH(back)
			}
		}
		regOne := func(ch uint64) {
			var rt uint64
			switch rng.Intn(10) {
			case 0, 1, 2, 3, 4, 5:
				rt = 0
			case 6:
				rt = 2
			case 7:
				rt = []uint64{6, 7, 19, 20, 22}[rng.Intn(5)]
			default:
				rt = routers[rng.Intn(len(routers))]
			}
			if ethSetup[ch] {
				// a chain whose light-client records were written by one router keeps that router: the routers share record
				// families keyed only by the chain id, and another router reading foreign header records is outside the
				// properties checked here (observed: the zilliqa handlers dereference a nil BlockHeader on eth records)
				rt = ethRouter[ch]
			}
			chainRouter[ch] = rt
			r.Do(fmt.Sprintf("reg %d %d", ch, rt))
			if ethLike[rt] && !ethSetup[ch] && rng.Chance(3, 4) {
				doEthSetup(ch, rt)
			}
		}
		for _, u := range universe {
			if rng.Chance(3, 4) {
				regOne(u)
			}
		}
		if bigCase {
			// destination universe[0] on the vote router, source universe[1] on the eth router with the synthetic state
			r.Do(fmt.Sprintf("reg %d 0", universe[0]))
			chainRouter[universe[0]] = 0
			if !ethSetup[universe[1]] {
				chainRouter[universe[1]] = 2
				r.Do(fmt.Sprintf("reg %d 2", universe[1]))
				doEthSetup(universe[1], 2)
			}
			if es := f.eth[universe[1]]; es != nil && ethSetup[universe[1]] {
				for _, m := range []*msg{pool[0], pool[1], pool[0]} { // big, small, big again (rejected: done)
					nonce++
					res := r.Do(f.importOp(nonce, "0", "0", universe[1], ethGenesisHeight, es.proofs[hex.EncodeToString(m.raw)], nil, m, 1))
					r.Nontrivial(fmt.Sprintf("big/%d/%s", len(m.p.Args), strings.Fields(res)[0]))
				}
			}
		}
		if !testnet && c%4 == 3 {
			// the router start block, exactly: a chain on a gated router (hsc, bytom) with valid proofs, imports at
			// start-1 (must be rejected by the gate), start and start+1 (executed)
			gr := []uint64{20, 22}[rng.Intn(2)]
			gch := universe[2]
			dst := universe[0]
			r.Do(fmt.Sprintf("reg %d 0", dst))
			chainRouter[dst] = 0
			if !ethSetup[gch] {
				chainRouter[gch] = gr
				r.Do(fmt.Sprintf("reg %d %d", gch, gr))
				doEthSetup(gch, gr)
			}
			if es := f.eth[gch]; es != nil && ethSetup[gch] {
				i := 0
				for _, hh := range []uint32{18822999, 18823000, 18823001, 18822998} {
					m := pool[i%len(pool)]
					i++
					if !m.dec {
						continue
					}
					m2 := *m
					m2.p.ToChainID = dst
					if pr, ok := es.proofs[hex.EncodeToString(m.raw)]; ok && m.p.ToChainID == dst {
						setH(hh)
						nonce++
						res := r.Do(f.importOp(nonce, "0", "0", gch, ethGenesisHeight, pr, nil, m, 1))
						r.Nontrivial(fmt.Sprintf("gate/%d/%d/%s", ethRouter[gch], hh, strings.Fields(res)[0]))
					}
				}
			}
		}
		type campaign struct {
			src  uint64
			h    uint32
			m    *msg
			next int
		}
		var camps []*campaign
		newCamp := func() *campaign {
			var src uint64
			regs := registered()
			var voteRegs []uint64
			for _, c := range regs {
				if chainRouter[c] == 0 {
					voteRegs = append(voteRegs, c)
				}
			}
			var ethRegs []uint64
			for _, c := range regs {
				if ethLike[chainRouter[c]] && ethSetup[c] {
					ethRegs = append(ethRegs, c)
				}
			}
			switch {
			case len(ethRegs) > 0 && rng.Chance(2, 6):
				src = ethRegs[rng.Intn(len(ethRegs))]
			case len(voteRegs) > 0 && rng.Chance(4, 6):
				src = voteRegs[rng.Intn(len(voteRegs))]
			case len(regs) > 0 && rng.Chance(1, 2):
				src = regs[rng.Intn(len(regs))]
			default:
				src = universe[rng.Intn(len(universe))]
			}
			cp := &campaign{src: src, h: uint32(rng.Intn(3)), m: pool[rng.Intn(len(pool))]}
			camps = append(camps, cp)
			return cp
		}
		nOps := 20 + rng.Intn(40)
		for k := 0; k < nOps; k++ {
			switch x := rng.Intn(20); {
			case x < 15: // import
				var cp *campaign
				if len(camps) == 0 || rng.Chance(1, 8) {
					cp = newCamp()
				} else {
					cp = camps[len(camps)-1-rng.Intn(minInt(len(camps), 2))]
				}
				voter := cp.next % (nCons + nCand + 1)
				if rng.Chance(1, 6) {
					voter = rng.Intn(nCons + nCand + 2)
				}
				cp.next++
				signers := fmt.Sprint(voter)
				rl := fmt.Sprint(voter)
				switch rng.Intn(24) {
				case 0:
					signers = "-"
				case 1:
					rl = "bad"
				case 2:
					signers = fmt.Sprintf("%d,%d", (voter+1)%nKeys, voter)
				case 3:
					rl = fmt.Sprint((voter + 1) % nKeys)
				case 4:
					signers, rl = "op", "op"
				}
				var proof, hdr []byte
				pv := 0
				h := cp.h
				if rt, ok := chainRouter[cp.src]; ok && ethLike[rt] && ethSetup[cp.src] {
					// the eth router: a real storage proof against the installed header, or a tampered one
					h = ethGenesisHeight
					es := f.eth[cp.src]
					switch x := rng.Intn(12); {
					case x < 9:
						proof, pv = es.proofs[hex.EncodeToString(cp.m.raw)], 1
					case x == 9: // the proof of another message
						other := pool[rng.Intn(len(pool))]
						proof = es.proofs[hex.EncodeToString(other.raw)]
						if string(other.raw) == string(cp.m.raw) {
							pv = 1
						}
					case x == 10: // right proof, wrong height
						proof = es.proofs[hex.EncodeToString(cp.m.raw)]
						h = ethGenesisHeight + uint32(rng.Intn(3)) - 1
						if h == ethGenesisHeight {
							pv = 1
						}
					default: // one proof node corrupted
						proof = append([]byte{}, es.proofs[hex.EncodeToString(cp.m.raw)]...)
						if i := strings.Index(string(proof), "storageProof"); i > 0 && i+80 < len(proof) {
							j := i + 60 + rng.Intn(20)
							if proof[j] == 'a' {
								proof[j] = 'b'
							} else if (proof[j] >= '0' && proof[j] <= '8') || (proof[j] >= 'b' && proof[j] <= 'e') {
								proof[j]++
							} else {
								pv = 1 // left untouched
							}
						} else {
							pv = 1
						}
					}
					if len(proof) == 0 { // a message that was not committed in the synthetic state
						pv = 0
					}
				} else if ok && rt != 0 && rng.Bool() {
					proof, hdr = rng.Bytes(rng.Intn(80)), rng.Bytes(rng.Intn(120))
					if rt == 3 && len(hdr) > 37 {
						// the ONT handler hands the header to ontology's CrossChainMsg.Deserialization, which allocates
						// `make([][]byte, 0, n)` for an unchecked 64-bit n read at offset 37 (reported separately): keep
						// the random header below that offset so that the harness itself stays within memory
						hdr = hdr[:37]
					}
				}
				nonce++
				res := r.Do(f.importOp(nonce, signers, rl, cp.src, h, proof, hdr, cp.m, pv))
				rt, isReg := chainRouter[cp.src]
				cls := "vote"
				if !isReg {
					cls = "unreg"
				} else if rt != 0 {
					cls = fmt.Sprintf("r%d", rt)
				}
				out := strings.Fields(res)[0]
				r.Nontrivial(out + "/" + cls + "/" + fmt.Sprint(f.black[cp.src], cp.m.dec && f.black[cp.m.p.ToChainID]))
				if out == "ok" && rng.Chance(1, 2) {
					// the same submission again, immediately and at a later, much larger relay-chain height
					if rng.Bool() {
						setH(laterHeight())
					}
					nonce++
					r.Do(f.importOp(nonce, signers, rl, cp.src, h, proof, hdr, cp.m, pv))
				}
				if out == "ok" && rng.Chance(2, 3) {
					// replay: the same message again (same id), as a new vote round with another height or another content
					m2 := cp.m
					if rng.Chance(1, 3) {
						p2 := cp.m.p
						p2.Args = append(append([]byte{}, p2.Args...), 0x42)
						sink := common.NewZeroCopySink(nil)
						p2.Serialization(sink)
						m2 = &msg{p: p2, raw: sink.Bytes(), dec: true}
					}
					camps = append(camps, &campaign{src: cp.src, h: cp.h + 1 + uint32(rng.Intn(2)), m: m2})
				}
			case x < 17: // black / white
				ch := universe[rng.Intn(len(universe))]
				signer := "op"
				if rng.Chance(1, 5) {
					signer = []string{"0", "-", "1,2", fmt.Sprint(nCons)}[rng.Intn(4)]
				}
				nonce++
				kind := "black"
				if rng.Bool() {
					kind = "white"
				}
				r.Do(fmt.Sprintf("%s n=%d s=%s %d", kind, nonce, signer, ch))
				if rng.Chance(1, 3) {
					// a discarded execution (pre-execution / abandoned block) of the opposite operation: nothing is committed,
					// so the imports that follow must still see the committed blacklist
					other := "white"
					if kind == "white" {
						other = "black"
					}
					nonce++
					r.Do(fmt.Sprintf("dry%s n=%d s=op %d", other, nonce, ch))
				}
			case x == 17 && rng.Bool(): // the done records directly: related ids on the same and on another chain
				c1 := universe[rng.Intn(len(universe))]
				c2 := universe[rng.Intn(len(universe))]
				a := idFamily[rng.Intn(len(idFamily))]
				b := idFamily[rng.Intn(4)]
				r.Do(fmt.Sprintf("dcheck %d %s", c1, hx.Hex(a)))
				r.Do(fmt.Sprintf("dput %d %s", c1, hx.Hex(a)))
				r.Do(fmt.Sprintf("dcheck %d %s", c1, hx.Hex(a)))
				r.Do(fmt.Sprintf("dcheck %d %s", c1, hx.Hex(b)))
				r.Do(fmt.Sprintf("dcheck %d %s", c2, hx.Hex(a)))
				r.Nontrivial(fmt.Sprintf("donetx/%d/%d", len(a), len(b)))
			case x == 18 && rng.Chance(1, 3): // concurrent reads of registry, blacklist and done records
				var cs []string
				for _, u := range universe {
					cs = append(cs, fmt.Sprint(u))
				}
				cs = append(cs, "77", "4242")
				r.Do(fmt.Sprintf("conc %d %s", 2+rng.Intn(3), strings.Join(cs, " ")))
			case x < 19: // registry
				ch := universe[rng.Intn(len(universe))]
				if _, ok := chainRouter[ch]; ok && rng.Bool() {
					delete(chainRouter, ch)
					r.Do(fmt.Sprintf("unreg %d", ch))
				} else {
					regOne(ch)
				}
			default:
				if rng.Chance(2, 3) {
					setH(laterHeight()) // relay-chain heights mostly grow
				} else {
					setH(heightSet[rng.Intn(len(heightSet))])
				}
			}
		}
		if c < 3 {
			r.Sample(map[string]interface{}{"case": c, "nCons": nCons, "testnet": testnet, "ops": nOps})
		}
	}
}

// concurrentReads: RPC pre-execution runs native code concurrently with block execution in one process. The getters
// of the contracts are asked for a set of chains sequentially first, then from g goroutines at once (own CacheDB and
// native service each, over the same block overlay); answers must not depend on what another goroutine asks.
func (f *ccmFam) concurrentReads(r *hx.Run, g int, chains []string) string {
	w := f.w
	type q struct {
		kind  string
		chain uint64
		id    []byte
	}
	var qs []q
	for _, c := range chains {
		ch := u64(c)
		qs = append(qs, q{"sidechain", ch, nil}, q{"black", ch, nil}, q{"fee", ch, nil}, q{"asset", ch, nil})
		for mk := range f.marked {
			var mc uint64
			var idh string
			fmt.Sscanf(mk, "%d/%s", &mc, &idh)
			if len(qs) < 400 {
				qs = append(qs, q{"done", ch, hx.UnHex(map[bool]string{true: "-", false: idh}[idh == ""])})
			}
		}
		qs = append(qs, q{"done", ch, []byte{1, 2, 3}})
	}
	ask := func(ns *native.NativeService, x q) string {
		switch x.kind {
		case "sidechain":
			sc, err := side_chain_manager.GetSideChain(ns, x.chain)
			if err != nil {
				return "err"
			}
			if sc == nil {
				return "none"
			}
			return fmt.Sprintf("%d/%d/%s", sc.ChainId, sc.Router, sc.Name)
		case "fee":
			fee, err := side_chain_manager.GetFee(ns, x.chain)
			if err != nil {
				return "err"
			}
			if fee == nil || fee.Fee == nil {
				return "none"
			}
			return fmt.Sprint(fee.View, fee.Fee)
		case "asset":
			ab, err := side_chain_manager.GetAssetBind(ns, x.chain)
			if err != nil {
				return "err"
			}
			return fmt.Sprint(len(ab.AssetMap), len(ab.LockProxyMap))
		case "black":
			b, err := scom.CheckIfChainBlacked(ns, x.chain)
			return fmt.Sprint(b, err != nil)
		default:
			return fmt.Sprint(scom.CheckDoneTx(ns, x.id, x.chain) != nil)
		}
	}
	newNS := func() *native.NativeService {
		tx := &types.Transaction{ChainID: 0, SignedAddr: []common.Address{{0xee}}}
		ns, err := native.NewNativeService(storage.NewCacheDB(w.overlay), tx, 0, w.height, common.Uint256{}, 0, nil, true)
		if err != nil {
			panic(err)
		}
		return ns
	}
	seq := make([]string, len(qs))
	ns0 := newNS()
	for i, x := range qs {
		seq[i] = ask(ns0, x)
	}
	bad := make(chan string, g)
	done := make(chan bool, g)
	for k := 0; k < g; k++ {
		go func(k int) {
			defer func() {
				if e := recover(); e != nil {
					select {
					case bad <- fmt.Sprintf("panic: %v", e):
					default:
					}
				}
				done <- true
			}()
			ns := newNS()
			for rep := 0; rep < 60; rep++ {
				for j := range qs {
					i := (j*7 + k*13 + rep) % len(qs)
					if got := ask(ns, qs[i]); got != seq[i] {
						select {
						case bad <- fmt.Sprintf("%s(chain %d) answered %s concurrently, %s sequentially", qs[i].kind, qs[i].chain, got, seq[i]):
						default:
						}
						return
					}
				}
			}
		}(k)
	}
	for k := 0; k < g; k++ {
		<-done
	}
	select {
	case m := <-bad:
		r.Viol("C21:concurrent-read-wrong", "with "+fmt.Sprint(g)+" native executions in one process: "+m)
		return "diverged"
	default:
	}
	return "ok"
}
