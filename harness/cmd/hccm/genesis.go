package main

import (
	"fmt"
	"strings"

	"github.com/polynetwork/poly/common"
	"github.com/polynetwork/poly/common/config"
	hscommon "github.com/polynetwork/poly/native/service/header_sync/common"
	"github.com/polynetwork/poly/native/service/governance/side_chain_manager"
	"github.com/polynetwork/poly/native/service/utils"
	"polyverif/internal/hx"
)

// Family genesis (C19): the real header_sync entrance (SyncGenesisHeader / SyncBlockHeader) of every router on a
// real native service; one op = one transaction executed by StateStore.HandleInvokeTransaction.
//
//	peers <nCons> <nCand> | height <h>                                                          -> ok
//	reg <chain> <router name>          plant the side-chain record (with the ExtraInfo the router needs) -> ok
//	install n=<nonce> s=<signers> chain=<c> g=<0..3|1x|bad|badx>   SyncGenesisHeader with genesis variant g of the chain's router:
//	        0..3 complete records, 10+i = partial record i that the installer accepts, bad = garbage, bad<i> = partial record i
//	        that the installer refuses (partial = one optional part of the format missing)
//	                                                       -> ok|reject:<class> changed=<0|1>
//	sync n=<nonce> s=<signers> chain=<c>                   SyncBlockHeader with a header that does not verify
//	                                                       -> reject:<class> changed=0
//
// changed = the transaction changed at least one storage key. The property oracle keeps its own record of which
// chains have a trust root: a second successful installation is C19:reinstall-accepted (state changed) or
// C19:reinstall-reported-success (state unchanged), a failed one that changes storage is
// C19:failed-install-changed-state.
type genesisFam struct {
	w         *world
	chainRt   map[uint64]*routerInfo
	installed map[uint64]string
}

func init() { families["genesis"] = func() hx.Family { return &genesisFam{} } }

func (f *genesisFam) Reset(r *hx.Run) {
	f.w.close()
	f.w = newWorld()
	f.chainRt = map[uint64]*routerInfo{}
	f.installed = map[uint64]string{}
}

func routerByName(n string) *routerInfo {
	for _, ri := range routerTable {
		if ri.name == n {
			return ri
		}
	}
	return nil
}

func classifyGenesis(err error) string {
	if err == nil {
		return "ok"
	}
	m := err.Error()
	switch {
	case strings.Contains(m, "contract params deserialize error"), strings.Contains(m, "deserialize genesis header params"):
		return "reject:param"
	case strings.Contains(m, "is not registered"):
		return "reject:unreg"
	case strings.Contains(m, "not a supported router"):
		return "reject:router"
	case strings.Contains(m, "checkWitness error"), strings.Contains(m, "check operator witness"):
		return "reject:witness"
	case strings.Contains(m, "had been initialized"), strings.Contains(m, "already set"), strings.Contains(m, "has been initialized"),
		strings.Contains(m, "already initialized"), strings.Contains(m, "had been synced"):
		return "reject:installed"
	}
	return "reject:genesis"
}

func (f *genesisFam) Exec(r *hx.Run, op []string) string {
	defer debugPanic()
	w := f.w
	switch op[0] {
	case "peers":
		w.plantPeers(int(u64(op[1])), int(u64(op[2])))
		return "ok"
	case "height":
		w.height = uint32(u64(op[1]))
		return "ok"
	case "net":
		if op[1] == "main" {
			config.DefConfig.P2PNode.NetworkId = config.NETWORK_ID_MAIN_NET
		} else {
			config.DefConfig.P2PNode.NetworkId = config.NETWORK_ID_TEST_NET
		}
		return "ok"
	case "reg":
		ri := routerByName(op[2])
		if ri == nil {
			return "bad-op"
		}
		chain := u64(op[1])
		before := w.writeSet()
		ns := w.view()
		sc := &side_chain_manager.SideChain{Address: valAddr[nKeys-1], ChainId: chain, Router: ri.router, Name: ri.name, BlocksToWait: 1, CCMCAddress: []byte{1, 2, 3, 4}}
		if ri.extra != nil {
			sc.ExtraInfo = ri.extra()
		}
		side_chain_manager.PutSideChain(ns, sc)
		w.cache.Commit()
		w.cache.Reset()
		logKeys(diffKeys(before, w.writeSet()))
		f.chainRt[chain] = ri
		return "ok"
	case "install", "sync":
		var nonce uint32
		var signers string
		var chain uint64
		g := ""
		for _, t := range op[1:] {
			k, v := kv(t)
			switch k {
			case "n":
				nonce = uint32(u64(v))
			case "s":
				signers = v
			case "chain":
				chain = u64(v)
			case "g":
				g = v
			}
		}
		ri := f.chainRt[chain]
		name := "unregistered"
		if ri != nil {
			name = ri.name
		}
		var method string
		var args []byte
		if op[0] == "install" {
			var gb []byte
			pi := -1
			if strings.HasPrefix(g, "bad") && len(g) > 3 {
				pi = int(u64(g[3:]))
			} else if !strings.HasPrefix(g, "bad") && u64(g) >= 10 {
				pi = int(u64(g)) - 10
			}
			switch {
			case g == "bad" || ri == nil || ri.build == nil:
				gb = badGenesis()
			case pi >= 0:
				ps := partialsOf(ri.name)
				if pi >= len(ps) {
					return "bad-op:no-such-partial"
				}
				var err error
				if gb, err = ps[pi](); err != nil {
					return "bad-op:partial-builder:" + err.Error()
				}
			default:
				var err error
				gb, err = ri.build(int(u64(g)))
				if err != nil {
					return "bad-op:genesis-builder:" + err.Error()
				}
			}
			method, args = hscommon.SYNC_GENESIS_HEADER, genesisParam(chain, gb)
		} else {
			p := &hscommon.SyncBlockHeaderParam{ChainID: chain, Address: valAddr[0], Headers: [][]byte{badGenesis(), {}}}
			sink := common.NewZeroCopySink(nil)
			p.Serialization(sink)
			method, args = hscommon.SYNC_BLOCK_HEADER, sink.Bytes()
		}
		tx := mkTx(nonce, utils.HeaderSyncContractAddress, method, args)
		before := w.writeSet()
		var err error
		func() {
			// an installation ends in success or in an error; a panic inside block execution is recovered nowhere in the node
			defer func() {
				if e := recover(); e != nil {
					r.Viol("C19:install-panicked:router="+name, fmt.Sprintf("%s for chain %d (router %s, genesis %s) panicked: %v", method, chain, name, g, e))
					panic(e)
				}
			}()
			_, _, err = w.exec(tx, w.signerAddrs(signers))
		}()
		after := w.writeSet()
		changedKeys := diffKeys(before, after)
		logKeys(changedKeys)
		changed := 0
		if len(changedKeys) > 0 {
			changed = 1
		}
		out := classifyGenesis(err)
		if op[0] == "install" {
			prev, was := f.installed[chain]
			switch {
			case err == nil && was && changed == 1:
				r.Viol("C19:reinstall-accepted:router="+name, fmt.Sprintf("chain %d (router %s) already had the trust root of genesis %s; SyncGenesisHeader with genesis %s succeeded and changed %d storage keys (first %x)", chain, name, prev, g, len(changedKeys), changedKeys[0]))
			case err == nil && was && changed == 0:
				r.Viol("C19:reinstall-reported-success:router="+name, fmt.Sprintf("chain %d (router %s) already had the trust root of genesis %s; SyncGenesisHeader with genesis %s left the state unchanged but reported success", chain, name, prev, g))
			case err == nil && !was:
				f.installed[chain] = g
				if changed == 0 {
					r.Viol("C19:first-install-no-effect:router="+name, fmt.Sprintf("first SyncGenesisHeader for chain %d (router %s) succeeded without writing anything", chain, name))
				}
			case err != nil && changed == 1:
				r.Viol("C19:failed-install-changed-state:router="+name, fmt.Sprintf("SyncGenesisHeader for chain %d (router %s) failed (%v) but changed %d storage keys", chain, name, err, len(changedKeys)))
			}
		} else if err != nil && changed == 1 {
			r.Viol("C19:failed-sync-changed-state:router="+name, fmt.Sprintf("SyncBlockHeader for chain %d (router %s) failed (%v) but changed %d storage keys", chain, name, err, len(changedKeys)))
		}
		r.Hist("outcome." + name + "." + out)
		if op[0] == "sync" && err != nil {
			out = "reject" // the routers reject an undecodable header each in its own words
		}
		if op[0] == "install" && strings.HasPrefix(g, "bad") && len(g) > 3 && (out == "reject:genesis" || out == "reject:installed") {
			// a partial record decodes but is refused by a later check: whether that check or the existence test speaks
			// first differs between routers
			out = "reject:refused"
		}
		if os := os_debug(); os && err != nil {
			fmt.Printf("DEBUG %s %s: %v\n", name, strings.Join(op, " "), err)
		}
		return fmt.Sprintf("%s changed=%d", out, changed)
	}
	return "bad-op"
}

// probe: does a first installation of genesis variant v succeed on a fresh chain of router ri? (throw-away world)
func (f *genesisFam) probe(ri *routerInfo, v int) bool {
	if ri.build == nil {
		return false
	}
	gb, err := ri.build(v)
	if err != nil {
		return false
	}
	return f.probeBytes(ri, gb)
}

func (f *genesisFam) probeBytes(ri *routerInfo, gb []byte) bool {
	saved, savedRt := f.w, f.chainRt
	defer func() { f.w.close(); f.w, f.chainRt = saved, savedRt }()
	f.w = newWorld()
	f.chainRt = map[uint64]*routerInfo{}
	f.w.plantPeers(4, 0)
	f.w.height = 18823000
	sc := &side_chain_manager.SideChain{Address: valAddr[nKeys-1], ChainId: 9, Router: ri.router, Name: ri.name, BlocksToWait: 1, CCMCAddress: []byte{1, 2, 3, 4}}
	if ri.extra != nil {
		sc.ExtraInfo = ri.extra()
	}
	side_chain_manager.PutSideChain(f.w.view(), sc)
	f.w.cache.Commit()
	f.w.cache.Reset()
	ok := false
	func() {
		defer func() { recover() }()
		tx := mkTx(1, utils.HeaderSyncContractAddress, hscommon.SYNC_GENESIS_HEADER, genesisParam(9, gb))
		_, _, err := f.w.exec(tx, f.w.signerAddrs("op"))
		ok = err == nil
	}()
	return ok
}

func (f *genesisFam) Gen(r *hx.Run) {
	r.Rule("per header-sync router: histories of SyncGenesisHeader with two different valid genesis records and a malformed one, signed by the operator / a single validator / nobody, before and after registration of the chain, on two chains of the same router, interleaved with (rejected) header syncs; distinct non-trivial = (router, outcome, already installed?, same or different genesis) combinations")
	nPer := r.Pick(6, 300)
	if small() {
		nPer = 1
	}
	id := 0
	for _, ri := range routerTable {
		if ri.static != "" {
			continue
		}
		// which genesis variants does the real installer accept as a first installation? (0, 1: ordinary; 2: height 0;
		// 3: extreme height with unusual content — long chain id, odd hash length, empty / single-member sets)
		var variants []int
		for v := 0; v < 4; v++ {
			if f.probe(ri, v) {
				variants = append(variants, v)
				r.Hist(fmt.Sprintf("variant.%s.%d", ri.name, v))
			}
		}
		if len(variants) == 0 {
			variants = []int{0, 1}
		}
		// partial records: accepted ones become further variants (10+i), refused ones are submitted as bad<i>
		var refused []string
		for i, pb := range partialsOf(ri.name) {
			gb, err := pb()
			if err != nil {
				continue
			}
			if f.probeBytes(ri, gb) {
				variants = append(variants, 10+i)
				r.Hist(fmt.Sprintf("partial-accepted.%s.%d", ri.name, i))
			} else {
				refused = append(refused, fmt.Sprintf("bad%d", i))
				r.Hist(fmt.Sprintf("partial-refused.%s.%d", ri.name, i))
			}
		}
		nCasesRouter := nPer
		if len(variants) > nCasesRouter {
			nCasesRouter = len(variants) // every accepted genesis shape is the FIRST installation of a chain at least once
		}
		for k := 0; k < nCasesRouter; k++ {
			id++
			r.Case(fmt.Sprintf("%s-%d", ri.name, id))
			rng := r.Rng
			nonce := uint32(id * 1000)
			nCons := []int{1, 4, 7}[rng.Intn(3)]
			r.Do(fmt.Sprintf("peers %d 1", nCons))
			if ri.router == 20 || ri.router == 21 || ri.router == 22 {
				if k%3 == 2 {
					r.Do("height 18822999")
				} else {
					r.Do("height 18823000")
				}
			}
			chains := []uint64{uint64(10 + rng.Intn(5)), uint64(100 + rng.Intn(5))}
			if k%4 == 3 {
				chains[1] = 0xffffffffffffff00 + uint64(rng.Intn(200))
			}
			regd := map[uint64]bool{}
			inst := map[uint64]bool{}
			anyInstall := false
			steps := 6 + rng.Intn(8)
			for s := 0; s < steps; s++ {
				ch := chains[rng.Intn(2)]
				if !regd[ch] && rng.Chance(4, 5) {
					r.Do(fmt.Sprintf("reg %d %s", ch, ri.name))
					regd[ch] = true
				}
				nonce++
				switch x := rng.Intn(10); {
				case x < 7:
					g := fmt.Sprint(variants[rng.Intn(len(variants))])
					if !anyInstall {
						// the first installation of the case goes through the variants in turn (ordinary, height 0, extreme and
						// unusual content, accepted partial records), so that each shape is followed by a different genesis
						g = fmt.Sprint(variants[k%len(variants)])
					}
					if anyInstall && rng.Chance(1, 8) {
						g = "bad"
					} else if anyInstall && len(refused) > 0 && rng.Chance(1, 5) {
						g = refused[rng.Intn(len(refused))]
					}
					signer := "op"
					if anyInstall && rng.Chance(1, 6) {
						signer = []string{"-", "1", "2,3"}[rng.Intn(3)]
					}
					if !regd[ch] {
						r.Do(fmt.Sprintf("reg %d %s", ch, ri.name))
						regd[ch] = true
					}
					anyInstall = true
					res := r.Do(fmt.Sprintf("install n=%d s=%s chain=%d g=%s", nonce, signer, ch, g))
					out := strings.Fields(res)[0]
					r.Nontrivial(fmt.Sprintf("%s/%s/%v/%s", ri.name, out, inst[ch], g))
					if out == "ok" {
						inst[ch] = true
						// always followed by a second, different genesis (and the same one again)
						for _, v2 := range variants {
							if fmt.Sprint(v2) != g {
								nonce++
								r.Do(fmt.Sprintf("install n=%d s=op chain=%d g=%d", nonce, ch, v2))
								break
							}
						}
						if rng.Bool() {
							nonce++
							r.Do(fmt.Sprintf("sync n=%d s=0 chain=%d", nonce, ch))
							nonce++
							r.Do(fmt.Sprintf("install n=%d s=op chain=%d g=%s", nonce, ch, g))
						}
					}
				default:
					r.Do(fmt.Sprintf("sync n=%d s=0 chain=%d", nonce, ch))
				}
			}
		}
	}
}
