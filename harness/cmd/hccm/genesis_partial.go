package main

import (
	"encoding/json"
	"fmt"
	"regexp"
	"strings"
	"time"

	ecommon "github.com/ethereum/go-ethereum/common"
	"github.com/polynetwork/poly/native/service/header_sync/cosmos"
	"github.com/polynetwork/poly/native/service/header_sync/okex"
	"github.com/polynetwork/poly/native/service/header_sync/polygon"
	polygonTypes "github.com/polynetwork/poly/native/service/header_sync/polygon/types"
	"github.com/polynetwork/poly/native/service/header_sync/zilliqa"
	tmtypes "github.com/tendermint/tendermint/types"
)

// Partial genesis records: each optional part of a router's genesis format missing in turn. Whether the real
// installer accepts one is probed on a fresh chain; an accepted one is a further genesis variant (it must set the
// once-only marker like any other), a refused one must be refused without a state change — and never with a panic.
type partialBuilder func() ([]byte, error)

func zilPartial(dropTx, dropDs, dropComm bool) partialBuilder {
	return func() ([]byte, error) {
		tx, ds, comm, err := zilParts(1)
		if err != nil {
			return nil, err
		}
		g := &zilliqa.TxBlockAndDsComm{TxBlock: tx, DsBlock: ds, DsComm: comm}
		if dropTx {
			g.TxBlock = nil
		}
		if dropDs {
			g.DsBlock = nil
		}
		if dropComm {
			g.DsComm = nil
		}
		return json.Marshal(g)
	}
}

var zilPartials = []partialBuilder{zilPartial(false, true, false), zilPartial(true, false, false), zilPartial(false, false, true), zilPartial(true, true, true)}

func tmHeader(tag string) tmtypes.Header {
	hv := h32(tag, 9)
	return tmtypes.Header{ChainID: "polyverif-" + tag, Height: 77, Time: time.Unix(1600000009, 0).UTC(), NextValidatorsHash: hv[:], ValidatorsHash: hv[:]}
}

var cosmosPartials = []partialBuilder{
	func() ([]byte, error) { return cosmos.Cdc.MarshalBinaryBare(cosmos.CosmosHeader{Header: tmHeader("cosmos-p")}) },
	func() ([]byte, error) {
		h := tmHeader("cosmos-q")
		h.NextValidatorsHash = nil
		return cosmos.Cdc.MarshalBinaryBare(cosmos.CosmosHeader{Header: h, Commit: &tmtypes.Commit{}})
	},
}

// unusual-but-decodable tendermint headers, one deviation each (the limits tendermint's own ValidateBasic would apply)
func tmUnusual(tag string, i int) tmtypes.Header {
	h := tmHeader(fmt.Sprintf("%s-u%d", tag, i))
	switch i {
	case 0:
		h.ChainID = strings.Repeat("c", 51)
	case 1:
		h.ChainID = strings.Repeat("d", 50) // exactly at the limit
	case 2:
		h.NextValidatorsHash = h.NextValidatorsHash[:20]
	case 3:
		h.NextValidatorsHash = append(h.NextValidatorsHash, h.NextValidatorsHash...)
	case 4:
		h.Height = -5
	case 5:
		h.Height = 0
		h.ChainID = ""
	}
	return h
}

func init() {
	for i := 0; i < 6; i++ {
		i := i
		cosmosPartials = append(cosmosPartials, func() ([]byte, error) {
			return cosmos.Cdc.MarshalBinaryBare(cosmos.CosmosHeader{Header: tmUnusual("cosmos", i), Commit: &tmtypes.Commit{}, Valsets: []*tmtypes.Validator{}})
		})
		okexPartials = append(okexPartials, func() ([]byte, error) {
			return okex.NewCDC().MarshalBinaryBare(okex.CosmosHeader{Header: tmUnusual("okex", i), Commit: &tmtypes.Commit{}, Valsets: []*tmtypes.Validator{}})
		})
		heimdallPartials = append(heimdallPartials, func() ([]byte, error) {
			u := tmUnusual("heimdall", i)
			return polygonTypes.NewCDC().MarshalBinaryBare(polygon.CosmosHeader{Header: polygonTypes.Header{ChainID: u.ChainID, Height: u.Height, Time: u.Time,
				NextValidatorsHash: []byte(u.NextValidatorsHash), ValidatorsHash: []byte(u.ValidatorsHash)}, Commit: &polygonTypes.Commit{}, Valsets: []*polygonTypes.Validator{}})
		})
	}
}

var okexPartials = []partialBuilder{
	func() ([]byte, error) { return okex.NewCDC().MarshalBinaryBare(okex.CosmosHeader{Header: tmHeader("okex-p")}) },
}

var heimdallPartials = []partialBuilder{
	func() ([]byte, error) {
		hv := h32("heimdall-p", 9)
		return polygonTypes.NewCDC().MarshalBinaryBare(polygon.CosmosHeader{Header: polygonTypes.Header{ChainID: "polyverif-heimdall-p", Height: 77,
			Time: time.Unix(1600000009, 0).UTC(), NextValidatorsHash: hv[:]}})
	},
}

// JSON records with members removed (routers whose genesis is a JSON document)
func jsonDrop(build func(int) ([]byte, error), members ...string) partialBuilder {
	return func() ([]byte, error) {
		b, err := build(1)
		if err != nil {
			return nil, err
		}
		out := string(b)
		for _, m := range members {
			re := regexp.MustCompile(`"` + m + `":("[^"]*"|[0-9]+|null|\[[^\]]*\]|\{[^{}]*\}),?`)
			out = re.ReplaceAllString(out, "")
		}
		out = regexp.MustCompile(`,\s*}`).ReplaceAllString(out, "}")
		if !json.Valid([]byte(out)) {
			return nil, fmt.Errorf("dropping %v leaves invalid JSON", members)
		}
		return []byte(out), nil
	}
}

func ethPartials(build func(int) ([]byte, error)) []partialBuilder {
	return []partialBuilder{jsonDrop(build, "number"), jsonDrop(build, "difficulty"), jsonDrop(build, "extraData"),
		func() ([]byte, error) { return []byte("{}"), nil }, func() ([]byte, error) { return []byte("null"), nil }}
}

func posaPartials() []partialBuilder {
	return []partialBuilder{
		jsonDrop(posaGenesis, "PrevValidators"),
		jsonDrop(posaGenesis, "Header"),
		jsonDrop(posaGenesis, "number"),
		jsonDrop(posaGenesis, "Height"),
		func() ([]byte, error) { return []byte(`{"Header":null,"PrevValidators":null}`), nil },
	}
}

var borPartials = []partialBuilder{
	jsonDrop(borGenesis, "Snapshot"),
	jsonDrop(borGenesis, "validatorSet"),
	jsonDrop(borGenesis, "proposer"),
	func() ([]byte, error) {
		hdr, _ := ethHeaderJSON(1, make([]byte, 97))
		return json.Marshal(map[string]interface{}{"Header": json.RawMessage(hdr), "Snapshot": map[string]interface{}{"hash": ecommon.Hash{}, "validatorSet": nil}})
	},
}

var starcoinPartials = []partialBuilder{
	func() ([]byte, error) {
		b, _ := starcoinGenesis(0)
		var m map[string]json.RawMessage
		if err := json.Unmarshal(b, &m); err != nil {
			return nil, err
		}
		delete(m, "block_info")
		return json.Marshal(m)
	},
	func() ([]byte, error) {
		b, _ := starcoinGenesis(0)
		var m map[string]json.RawMessage
		if err := json.Unmarshal(b, &m); err != nil {
			return nil, err
		}
		delete(m, "header")
		return json.Marshal(m)
	},
}

var ontPartials = []partialBuilder{
	func() ([]byte, error) { // no new chain config in the consensus payload
		b, err := ontGenesisPayload(1, false)
		return b, err
	},
}

func partialsOf(name string) []partialBuilder {
	switch name {
	case "zilliqa", "zilliqalegacy":
		return zilPartials
	case "cosmos":
		return cosmosPartials
	case "okex":
		return okexPartials
	case "heimdall":
		return heimdallPartials
	case "eth":
		return ethPartials(ethGenesis)
	case "quorum":
		return ethPartials(quorumGenesis)
	case "msc":
		return ethPartials(mscGenesis)
	case "bsc", "heco", "pixiechain", "hsc", "bytom":
		return posaPartials()
	case "bor":
		return borPartials
	case "starcoin":
		return starcoinPartials
	case "ont":
		return ontPartials
	}
	return nil
}
