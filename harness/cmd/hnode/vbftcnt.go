package main

import (
	"encoding/hex"
	"fmt"
	"sort"
	"strconv"
	"strings"

	"github.com/ontio/ontology-crypto/keypair"
	"github.com/polynetwork/poly/common"
	"github.com/polynetwork/poly/common/log"
	"github.com/polynetwork/poly/consensus/vbft"
	vconfig "github.com/polynetwork/poly/consensus/vbft/config"
	"github.com/polynetwork/poly/core/types"
	"polyverif/internal/hx"
)

// Family vbftcnt (C41): the VBFT block pool's counting of proposals, endorsements and commits on the real code
// through the `verif` wrappers (messages are built from the unexported message structs via the exported aliases).
//
//	init <self> <C> <N> <endorsers> <peers idx:id,..> <connected> <isEndorser verdicts>   -> ok
//	prop <blk> <proposer> <sig>                                       -> ok | dup
//	end <blk> <endorser> <proposer> <forEmpty> <sig>                  -> ok
//	commit <blk> <committer> <proposer> <hash> <forEmpty> <committerSig> <e:sig,..>   -> ok | dup
//	dump <blk>          -> esigs=... props=... commits=...   (EndorseSigs sorted by endorser)
//	edone <blk> <C>     -> done=<0|1>                        (endorseDone, evaluated 8 times: Go re-randomises the map order)
//	edcheck <blk> <C> <p> <e>  -> possible                   (emitted for every distinct answer observed)
//	cdone <blk> <C> <N> -> msgs p=<p> e=<0|1> | fallback done=<0|1> | none
//	cdcheck <blk> <C> <N> <p> <e> -> possible
//	gcc <C> <N> <committer:proposer:forEmpty:e1+e2..> ...   -> p=<p> e=<0|1> | none     (getCommitConsensus)
//	seal <blk> <proposer> <forEmpty> <proposerSig>   -> first=<p>/<sig> rest=<e>/<sig>,..
//
// Property oracle (r.Viol), evaluated on the pool's real records: no endorser has two entries for one proposer or two
// empty entries; an endorseDone answer for proposer p needs more than C distinct endorsers with a non-empty entry for p
// (for empty: more than C distinct endorsers with an empty entry); a commitDone answer needs either
// |distinct committers and named endorsers of p in the commit messages| + 1 >= N - (N-1)/3 or more than N-1-C distinct
// endorsers of p; the verdict `done` must not depend on the map order; a sealed header carries one signature per
// distinct participant, each a supporter of the sealed proposal.
type vbftcnt struct {
	pool  *vbft.VerifPool
	C, N  uint32
	ids   map[string]uint32 // hex pubkey -> peer index
	keys  map[uint32]bool
	isEnd map[uint32]bool
}

func init() {
	families["vbftcnt"] = func() hx.Family {
		log.InitLog(log.FatalLog)
		return &vbftcnt{}
	}
}

func (f *vbftcnt) Reset(r *hx.Run) { f.pool = nil }

func b01(b bool) string {
	if b {
		return "1"
	}
	return "0"
}

func (f *vbftcnt) dump(blk uint32) string {
	c := f.pool.Candidate(blk)
	if c == nil {
		return "none"
	}
	var ends []int
	for e := range c.EndorseSigs {
		ends = append(ends, int(e))
	}
	sort.Ints(ends)
	var es, ps, cs []string
	for _, e := range ends {
		var l []string
		for _, sg := range c.EndorseSigs[uint32(e)] {
			l = append(l, fmt.Sprintf("%d/%s/%s", sg.EndorsedProposer, hx.Hex(sg.Signature), b01(sg.ForEmpty)))
		}
		es = append(es, fmt.Sprintf("%d:%s", e, strings.Join(l, "+")))
	}
	for _, p := range c.Proposals {
		ps = append(ps, fmt.Sprintf("%d/%s", p.Block.Info.Proposer, hx.Hex(p.Block.Block.Header.SigData[0])))
	}
	for _, m := range c.CommitMsgs {
		cs = append(cs, fmt.Sprintf("%d/%d", m.Committer, m.BlockProposer))
	}
	j := func(l []string) string {
		if len(l) == 0 {
			return "-"
		}
		return strings.Join(l, ";")
	}
	return fmt.Sprintf("esigs=%s props=%s commits=%s", j(es), j(ps), j(cs))
}

// invariant of the endorsement records: an endorser counts at most once per proposer and at most once for empty
func (f *vbftcnt) checkRecords(r *hx.Run, blk uint32) {
	c := f.pool.Candidate(blk)
	if c == nil {
		return
	}
	for e, l := range c.EndorseSigs {
		seen := map[uint32]bool{}
		empties := 0
		for _, sg := range l {
			if sg.ForEmpty {
				empties++
			} else {
				if seen[sg.EndorsedProposer] {
					r.Viol("C41:endorser-recorded-twice-for-proposer", fmt.Sprintf("endorser %d has two entries for proposer %d", e, sg.EndorsedProposer))
				}
				seen[sg.EndorsedProposer] = true
			}
		}
		if empties > 1 {
			r.Viol("C41:endorser-recorded-twice-for-empty", fmt.Sprintf("endorser %d has %d empty entries", e, empties))
		}
	}
	cm := map[uint32]bool{}
	for _, m := range c.CommitMsgs {
		if cm[m.Committer] {
			r.Viol("C41:committer-recorded-twice", fmt.Sprintf("committer %d has two commit messages", m.Committer))
		}
		cm[m.Committer] = true
	}
	pm := map[uint32]bool{}
	for _, p := range c.Proposals {
		if pm[p.Block.Info.Proposer] {
			r.Viol("C41:proposer-recorded-twice", fmt.Sprintf("proposer %d has two proposals", p.Block.Info.Proposer))
		}
		pm[p.Block.Info.Proposer] = true
	}
}

func (f *vbftcnt) supporters(blk uint32, p uint32, empty bool) int {
	c := f.pool.Candidate(blk)
	n := 0
	if c == nil {
		return 0
	}
	for _, l := range c.EndorseSigs {
		for _, sg := range l {
			if (empty && sg.ForEmpty) || (!empty && !sg.ForEmpty && sg.EndorsedProposer == p) {
				n++
				break
			}
		}
	}
	return n
}

func u32(s string) uint32 { v, _ := strconv.ParseUint(s, 10, 32); return uint32(v) }

func (f *vbftcnt) Exec(r *hx.Run, op []string) string {
	if op[0] == "gcc" {
		if len(op) < 3 {
			return "bad-op"
		}
		C, N := atoi(op[1]), atoi(op[2])
		var msgs []*vbft.VerifBlockCommitMsg
		sets := map[uint32]map[uint32]bool{}
		for _, t := range op[3:] {
			p := strings.Split(t, ":")
			if len(p) != 4 {
				return "bad-op"
			}
			m := &vbft.VerifBlockCommitMsg{Committer: u32(p[0]), BlockProposer: u32(p[1]), CommitForEmpty: p[2] == "1", EndorsersSig: map[uint32][]byte{}}
			if p[3] != "-" {
				for _, e := range strings.Split(p[3], "+") {
					m.EndorsersSig[u32(e)] = []byte{1}
				}
			}
			msgs = append(msgs, m)
		}
		p, e := vbft.VerifGetCommitConsensus(msgs, C, N)
		if p == 0xFFFFFFFF {
			return "none"
		}
		// oracle: distinct signers named for p in the messages up to the deciding one
		for _, m := range msgs {
			if sets[m.BlockProposer] == nil {
				sets[m.BlockProposer] = map[uint32]bool{}
			}
			sets[m.BlockProposer][m.Committer] = true
			for en := range m.EndorsersSig {
				sets[m.BlockProposer][en] = true
			}
		}
		if len(sets[p])+1 < N-(N-1)/3 {
			r.Viol("C41:committed-without-quorum:gcc", fmt.Sprintf("getCommitConsensus(C=%d,N=%d) decides for proposer %d with only %d distinct signers", C, N, p, len(sets[p])))
		}
		return fmt.Sprintf("p=%d e=%s", p, b01(e))
	}
	if op[0] == "init" {
		if len(op) != 8 {
			return "bad-op"
		}
		peers := map[uint32]string{}
		f.ids = map[string]uint32{}
		f.keys = map[uint32]bool{}
		for _, t := range splitList(op[5]) {
			kv := strings.Split(t, ":")
			if len(kv) != 2 {
				return "bad-op"
			}
			peers[u32(kv[0])] = kv[1]
			f.ids[kv[1]] = u32(kv[0])
			f.keys[u32(kv[0])] = true
		}
		f.C, f.N = u32(op[2]), u32(op[3])
		pool, err := vbft.VerifNewPool(u32(op[1]), f.C, u32List(op[4]), peers, u32List(op[6]))
		if err != nil {
			return "bad-op"
		}
		f.pool = pool
		// isEndorser verdicts of the real code for every peer index that can occur
		var ver []uint32
		f.isEnd = map[uint32]bool{}
		for i := uint32(0); i <= f.N+2; i++ {
			if pool.IsEndorser(1, i) {
				ver = append(ver, i)
				f.isEnd[i] = true
			}
		}
		if showU32(ver) != op[7] {
			return "bad-verdicts"
		}
		return "ok"
	}
	if f.pool == nil {
		return "bad-op"
	}
	switch op[0] {
	case "prop":
		if len(op) != 4 {
			return "bad-op"
		}
		blk := u32(op[1])
		msg := &vbft.VerifBlockProposalMsg{Block: &vbft.Block{
			Block: &types.Block{Header: &types.Header{Height: blk, SigData: [][]byte{hx.UnHex(op[3])}}},
			Info:  &vconfig.VbftBlockInfo{Proposer: u32(op[2])}}}
		err := f.pool.NewBlockProposal(msg)
		f.checkRecords(r, blk)
		if err != nil {
			return "dup"
		}
		return "ok"
	case "end":
		if len(op) != 6 {
			return "bad-op"
		}
		blk := u32(op[1])
		msg := &vbft.VerifBlockEndorseMsg{Endorser: u32(op[2]), EndorsedProposer: u32(op[3]), BlockNum: blk,
			EndorseForEmpty: op[4] == "1", EndorserSig: hx.UnHex(op[5])}
		if err := f.pool.NewBlockEndorsement(msg); err != nil {
			return "err"
		}
		f.checkRecords(r, blk)
		return "ok"
	case "commit":
		if len(op) != 8 {
			return "bad-op"
		}
		blk := u32(op[1])
		var h common.Uint256
		copy(h[:], hx.UnHex(op[4]))
		msg := &vbft.VerifBlockCommitMsg{Committer: u32(op[2]), BlockProposer: u32(op[3]), BlockNum: blk, CommitBlockHash: h,
			CommitForEmpty: op[5] == "1", CommitterSig: hx.UnHex(op[6]), EndorsersSig: map[uint32][]byte{}}
		for _, t := range splitList(op[7]) {
			kv := strings.Split(t, ":")
			if len(kv) != 2 {
				return "bad-op"
			}
			msg.EndorsersSig[u32(kv[0])] = hx.UnHex(kv[1])
		}
		err := f.pool.NewBlockCommitment(msg)
		f.checkRecords(r, blk)
		if err != nil {
			return "dup"
		}
		return "ok"
	case "dump":
		return f.dump(u32(op[1]))
	case "edone":
		blk, C := u32(op[1]), u32(op[2])
		p0, e0, d0 := f.pool.EndorseDone(blk, C)
		for i := 0; i < 8; i++ {
			p, e, d := f.pool.EndorseDone(blk, C)
			if d != d0 {
				r.Viol("C41:endorse-verdict-depends-on-map-order", fmt.Sprintf("endorseDone(C=%d) answered done=%v and done=%v on the same records", C, d0, d))
			}
			if d {
				f.checkEndorsed(r, blk, C, p, e)
			}
		}
		if d0 {
			f.checkEndorsed(r, blk, C, p0, e0)
		}
		return "done=" + b01(d0)
	case "edcheck", "cdcheck":
		return "possible"
	case "cdone":
		blk, C, N := u32(op[1]), u32(op[2]), u32(op[3])
		c := f.pool.Candidate(blk)
		if c == nil {
			return "none"
		}
		mp, me := vbft.VerifGetCommitConsensus(c.CommitMsgs, int(C), int(N))
		p0, e0, d0 := f.pool.CommitDone(blk, C, N)
		for i := 0; i < 8; i++ {
			p, e, d := f.pool.CommitDone(blk, C, N)
			if d != d0 {
				r.Viol("C41:commit-verdict-depends-on-map-order", fmt.Sprintf("commitDone(C=%d,N=%d) answered done=%v and done=%v on the same records", C, N, d0, d))
			}
			if d {
				f.checkCommitted(r, blk, C, N, p, e)
			}
			if mp != 0xFFFFFFFF && (p != mp || e != me || !d) {
				r.Viol("C41:commit-messages-quorum-ignored", fmt.Sprintf("getCommitConsensus decides (%d,%v) but commitDone answers (%d,%v,%v)", mp, me, p, e, d))
			}
		}
		if d0 {
			f.checkCommitted(r, blk, C, N, p0, e0)
		}
		if mp != 0xFFFFFFFF {
			return fmt.Sprintf("msgs p=%d e=%s", mp, b01(me))
		}
		return "fallback done=" + b01(d0)
	case "seal":
		if len(op) != 5 {
			return "bad-op"
		}
		blk, proposer, forEmpty := u32(op[1]), u32(op[2]), op[3] == "1"
		psig := hx.UnHex(op[4])
		mkb := func() *types.Block {
			return &types.Block{Header: &types.Header{Height: blk, SigData: [][]byte{psig}}}
		}
		b := &vbft.Block{Block: mkb(), EmptyBlock: mkb(), Info: &vconfig.VbftBlockInfo{Proposer: proposer}}
		if err := f.pool.AddSignaturesToBlock(b, forEmpty); err != nil {
			return "err"
		}
		hdr := b.Block.Header
		if forEmpty {
			hdr = b.EmptyBlock.Header
		}
		if len(hdr.Bookkeepers) != len(hdr.SigData) || len(hdr.Bookkeepers) == 0 {
			return "malformed"
		}
		type pr struct {
			idx int
			sig string
		}
		var rest []pr
		seen := map[int]bool{}
		first := ""
		for i, pk := range hdr.Bookkeepers {
			idx := -1
			if pk != nil {
				if v, ok := f.ids[hex.EncodeToString(keypair.SerializePublicKey(pk))]; ok {
					idx = int(v)
				}
			} else if i == 0 {
				idx = int(proposer) // the proposer's key may be missing from the peer pool: nil bookkeeper
			}
			if i == 0 {
				first = fmt.Sprintf("%d/%s", idx, hx.Hex(hdr.SigData[0]))
				seen[idx] = true
				continue
			}
			if seen[idx] {
				r.Viol("C41:sealed-participant-signs-twice", fmt.Sprintf("the sealed header of block %d carries two signatures of participant %d", blk, idx))
			}
			seen[idx] = true
			if f.supportersHas(blk, uint32(idx), proposer, forEmpty) == false {
				r.Viol("C41:sealed-signature-of-non-supporter", fmt.Sprintf("the sealed header of block %d carries a signature of participant %d who has no matching endorsement of proposer %d", blk, idx, proposer))
			}
			rest = append(rest, pr{idx, hx.Hex(hdr.SigData[i])})
		}
		sort.Slice(rest, func(a, b int) bool { return rest[a].idx < rest[b].idx })
		var rs []string
		for _, x := range rest {
			rs = append(rs, fmt.Sprintf("%d/%s", x.idx, x.sig))
		}
		out := "-"
		if len(rs) > 0 {
			out = strings.Join(rs, ",")
		}
		return fmt.Sprintf("first=%s rest=%s", first, out)
	}
	return "bad-op"
}

func (f *vbftcnt) supportersHas(blk uint32, e uint32, proposer uint32, forEmpty bool) bool {
	c := f.pool.Candidate(blk)
	if c == nil {
		return false
	}
	for _, sg := range c.EndorseSigs[e] {
		if sg.EndorsedProposer == proposer && sg.ForEmpty == forEmpty {
			return true
		}
	}
	return false
}

func (f *vbftcnt) checkEndorsed(r *hx.Run, blk, C, p uint32, empty bool) {
	n := f.supporters(blk, p, empty)
	if uint32(n) <= C {
		r.Viol(fmt.Sprintf("C41:endorsed-without-quorum:empty=%v", empty), fmt.Sprintf("endorseDone(C=%d) answers proposer %d (empty=%v) but only %d distinct endorsers support it", C, p, empty, n))
	}
}

func (f *vbftcnt) checkCommitted(r *hx.Run, blk, C, N, p uint32, empty bool) {
	c := f.pool.Candidate(blk)
	set := map[uint32]bool{}
	for _, m := range c.CommitMsgs {
		if m.BlockProposer == p {
			set[m.Committer] = true
			for e := range m.EndorsersSig {
				set[e] = true
			}
		}
	}
	byMsgs := int(len(set))+1 >= int(N)-(int(N)-1)/3
	byEndorse := N >= C+1 && uint32(f.supporters(blk, p, false)) > N-1-C
	if !byMsgs && !byEndorse {
		r.Viol("C41:committed-without-quorum", fmt.Sprintf("commitDone(C=%d,N=%d) answers proposer %d with %d distinct signers in commit messages and %d distinct endorsers", C, N, p, len(set), f.supporters(blk, p, false)))
	}
}

// ---------------------------------------------------------------------------------------------- generation

func (f *vbftcnt) Gen(r *hx.Run) {
	r.Rule("histories of proposal / endorsement / commit messages for N = 4..10 peers (C = (N-1)/3 or N/3) on one block pool: 1..3 proposers with repeated and equivocating proposals, endorsements with repeats, conflicts and empty votes, commit messages with repeated / conflicting hashes and 0..N named endorsers, interleaved with endorseDone / commitDone (each evaluated 9 times, every distinct answer checked for reachability by the model) and record dumps; sealed-header signature collection at the end; plus direct getCommitConsensus calls; distinct non-trivial = distinct (N, C, number of messages, endorse verdict, commit verdict kind)")
	var keyPool []string
	for i := 0; i < 12; i++ {
		_, pub, err := keypair.GenerateKeyPair(keypair.PK_ECDSA, keypair.P256)
		if err != nil {
			panic(err)
		}
		keyPool = append(keyPool, hex.EncodeToString(keypair.SerializePublicKey(pub)))
	}
	nHist := r.Pick(2500, 80000)
	for h := 0; h < nHist; h++ {
		r.Case(fmt.Sprintf("hist-%d", h))
		N := uint32(4 + r.Rng.Intn(7))
		C := (N - 1) / 3
		if r.Rng.Chance(1, 4) {
			C = N / 3
		}
		if r.Rng.Chance(1, 12) {
			C = uint32(r.Rng.Intn(4))
		}
		self := uint32(r.Rng.Intn(int(N)))
		var peers []string
		for i := uint32(0); i < N; i++ {
			if r.Rng.Chance(1, 15) {
				continue // a participant without a key in the peer pool
			}
			peers = append(peers, fmt.Sprintf("%d:%s", i, keyPool[i]))
		}
		var endorsers, connected []uint32
		for _, i := range r.Rng.Perm(int(N)) {
			if r.Rng.Chance(3, 4) {
				endorsers = append(endorsers, uint32(i))
			}
			if r.Rng.Chance(2, 3) {
				connected = append(connected, uint32(i))
			}
		}
		ps := "-"
		if len(peers) > 0 {
			ps = strings.Join(peers, ",")
		}
		// the isEndorser verdicts come from the real code: ask a scratch pool
		pm := map[uint32]string{}
		for _, t := range peers {
			kv := strings.Split(t, ":")
			pm[u32(kv[0])] = kv[1]
		}
		sp, err := vbft.VerifNewPool(self, C, endorsers, pm, connected)
		if err != nil {
			panic(err)
		}
		var ver []uint32
		for i := uint32(0); i <= N+2; i++ {
			if sp.IsEndorser(1, i) {
				ver = append(ver, i)
			}
		}
		r.Do(fmt.Sprintf("init %d %d %d %s %s %s %s", self, C, N, showU32(endorsers), ps, showU32(connected), showU32(ver)))
		blk := uint32(1 + r.Rng.Intn(5))
		nProps := 1 + r.Rng.Intn(3)
		props := make([]uint32, nProps)
		for i := range props {
			props[i] = uint32(r.Rng.Intn(int(N)))
		}
		sigOf := func() string { return hx.Hex(r.Rng.Bytes(4)) }
		hashOf := func(p uint32, empty bool) string {
			b := make([]byte, 32)
			b[0], b[1] = byte(p), byte(len(b01(empty))+int(b01(empty)[0]))
			return hx.Hex(b)
		}
		propSig := map[uint32]string{}
		steps := 4 + r.Rng.Intn(int(3*N))
		edKinds, cdKinds := map[string]bool{}, map[string]bool{}
		query := func() {
			res := r.Do(fmt.Sprintf("edone %d %d", blk, C))
			edKinds[res] = true
			if res == "done=1" {
				seen := map[string]bool{}
				for i := 0; i < 9; i++ {
					p, e, d := f.pool.EndorseDone(blk, C)
					k := fmt.Sprintf("%d %s", p, b01(e))
					if d && !seen[k] {
						seen[k] = true
						r.Do(fmt.Sprintf("edcheck %d %d %s", blk, C, k))
					}
				}
			}
			res = r.Do(fmt.Sprintf("cdone %d %d %d", blk, C, N))
			cdKinds[strings.Fields(res)[0]+strings.Fields(res)[len(strings.Fields(res))-1]] = true
			if res == "fallback done=1" {
				seen := map[string]bool{}
				for i := 0; i < 9; i++ {
					p, e, d := f.pool.CommitDone(blk, C, N)
					k := fmt.Sprintf("%d %s", p, b01(e))
					if d && !seen[k] {
						seen[k] = true
						r.Do(fmt.Sprintf("cdcheck %d %d %d %s", blk, C, N, k))
					}
				}
			}
		}
		for s := 0; s < steps; s++ {
			switch k := r.Rng.Intn(10); {
			case k < 2: // proposal (repeat with the same signature, or equivocation with another)
				p := props[r.Rng.Intn(nProps)]
				sg, ok := propSig[p]
				if !ok || r.Rng.Chance(1, 4) {
					sg = sigOf()
					if !ok {
						propSig[p] = sg
					}
				}
				r.Do(fmt.Sprintf("prop %d %d %s", blk, p, sg))
			case k < 7: // endorsement
				e := uint32(r.Rng.Intn(int(N)))
				p := props[r.Rng.Intn(nProps)]
				if r.Rng.Chance(1, 10) {
					p = uint32(r.Rng.Intn(int(N)))
				}
				r.Do(fmt.Sprintf("end %d %d %d %s %s", blk, e, p, b01(r.Rng.Chance(1, 5)), sigOf()))
			default: // commit
				cm := uint32(r.Rng.Intn(int(N)))
				p := props[r.Rng.Intn(nProps)]
				empty := r.Rng.Chance(1, 5)
				hash := hashOf(p, empty)
				if r.Rng.Chance(1, 10) {
					hash = hx.Hex(r.Rng.Bytes(32))
				}
				var es []string
				for _, i := range r.Rng.Perm(int(N))[:r.Rng.Intn(int(N)+1)] {
					es = append(es, fmt.Sprintf("%d:%s", i, sigOf()))
				}
				el := "-"
				if len(es) > 0 {
					el = strings.Join(es, ",")
				}
				r.Do(fmt.Sprintf("commit %d %d %d %s %s %s %s", blk, cm, p, hash, b01(empty), sigOf(), el))
			}
			if r.Rng.Chance(1, 3) {
				query()
			}
			if r.Rng.Chance(1, 6) {
				r.Do(fmt.Sprintf("dump %d", blk))
			}
		}
		query()
		r.Do(fmt.Sprintf("dump %d", blk))
		p := props[0]
		sg, ok := propSig[p]
		if !ok {
			sg = sigOf()
		}
		r.Do(fmt.Sprintf("seal %d %d %s %s", blk, p, b01(r.Rng.Chance(1, 4)), sg))
		var ek, ck []string
		for k := range edKinds {
			ek = append(ek, k)
		}
		for k := range cdKinds {
			ck = append(ck, k)
		}
		sort.Strings(ek)
		sort.Strings(ck)
		r.Nontrivial(fmt.Sprintf("N%d/C%d/s%d/%s/%s", N, C, steps/4, strings.Join(ek, "+"), strings.Join(ck, "+")))
		for _, k := range ek {
			r.Hist("endorse." + k)
		}
		for _, k := range ck {
			r.Hist("commit." + k)
		}
		if h%301 == 1 {
			r.Sample(map[string]interface{}{"N": N, "C": C, "steps": steps, "endorse": ek, "commit": ck})
		}
	}
	nG := r.Pick(3000, 100000)
	for g := 0; g < nG; g++ {
		r.Case(fmt.Sprintf("gcc-%d", g))
		N := 1 + r.Rng.Intn(12)
		C := (N - 1) / 3
		if r.Rng.Chance(1, 5) {
			C = r.Rng.Intn(5)
		}
		var ms []string
		for i := 0; i < r.Rng.Intn(N+3); i++ {
			var es []string
			for _, e := range r.Rng.Perm(N)[:r.Rng.Intn(N+1)] {
				es = append(es, strconv.Itoa(e))
			}
			el := "-"
			if len(es) > 0 {
				el = strings.Join(es, "+")
			}
			ms = append(ms, fmt.Sprintf("%d:%d:%s:%s", r.Rng.Intn(N), r.Rng.Intn(2), b01(r.Rng.Chance(1, 3)), el))
		}
		res := r.Do(strings.TrimSpace(fmt.Sprintf("gcc %d %d %s", C, N, strings.Join(ms, " "))))
		r.Hist("gcc." + strings.Fields(res)[0][:1])
	}
}
