// hnode: correspondence harness for the node layer (VBFT selection and counting, transaction signature validation).
// Each family lives in its own file and registers itself in `families`.
package main

import "polyverif/internal/hx"

var families = map[string]func() hx.Family{}

func main() { hx.Main(families) }
