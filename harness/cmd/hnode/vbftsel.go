package main

import (
	"crypto/sha512"
	"encoding/json"
	"fmt"
	"math"
	"sort"
	"strconv"
	"strings"

	"github.com/polynetwork/poly/common"
	"github.com/polynetwork/poly/common/config"
	"github.com/polynetwork/poly/common/log"
	"github.com/polynetwork/poly/consensus/vbft"
	vconfig "github.com/polynetwork/poly/consensus/vbft/config"
	cstates "github.com/polynetwork/poly/core/states"
	scommon "github.com/polynetwork/poly/core/store/common"
	"github.com/polynetwork/poly/core/store/overlaydb"
	"github.com/polynetwork/poly/core/types"
	"github.com/polynetwork/poly/native/service/governance/node_manager"
	nutils "github.com/polynetwork/poly/native/service/utils"
	"polyverif/internal/hx"
)

// Family vbftsel (C40): VBFT participant selection on the real code through the `verif` wrappers.
//
//	part <seed> <k> <table>                                  -> <peer> | panic            (calcParticipant)
//	peers <seed> <N> <C> <start> <end> <proposers> <table>   -> <list> | panic            (calcParticipantPeers)
//	build <blkNum> <N> <C> <seed> <table> <height> <proposer> <blockroot> <vrfvalue>
//	                                                         -> ok p=<list> e=<list> c=<list> | err:<class> | panic
//	      (buildParticipantConfig on a block with the given fields; <seed> must be the block's selection seed)
//	genesis <height> <idx:id,...>                            -> N=<n> C=<c> table=<list>  (GenesisChainConfig)
//
// Property oracle (r.Viol) on every successful build: proposers / endorsers / committers are drawn from the table,
// contain no duplicates, have C+1 resp. at least 2C members, endorsers and committers avoid the first C proposers,
// and a second evaluation on the same inputs gives the same answer; for genesis: every table entry is a pool
// member, N = k, C = k/3, each distinct pool index fills 15 slots.
type vbftsel struct{}

func init() {
	families["vbftsel"] = func() hx.Family {
		log.InitLog(log.FatalLog) // no writers: buildParticipantConfig logs every configuration at info level
		return &vbftsel{}
	}
}

func (f *vbftsel) Reset(r *hx.Run) {}

func splitList(s string) []string {
	if s == "-" {
		return nil
	}
	return strings.Split(s, ",")
}

func u32List(s string) []uint32 {
	out := []uint32{}
	for _, t := range splitList(s) {
		v, _ := strconv.ParseUint(t, 10, 32)
		out = append(out, uint32(v))
	}
	return out
}

func showU32(l []uint32) string {
	if len(l) == 0 {
		return "-"
	}
	p := make([]string, len(l))
	for i, v := range l {
		p[i] = strconv.FormatUint(uint64(v), 10)
	}
	return strings.Join(p, ",")
}

// refSeed is an independent derivation of the participant selection seed of a block: SHA-512 twice over the JSON record
// of (height + 1, proposer, block root, VRF value) — the block's own fields and nothing else.
func refSeed(height, proposer uint32, root common.Uint256, vrfValue []byte) vconfig.VRFValue {
	data, err := json.Marshal(&struct {
		BlockNum          uint32         `json:"block_num"`
		PrevBlockProposer uint32         `json:"prev_block_proposer"`
		BlockRoot         common.Uint256 `json:"block_root"`
		VrfValue          []byte         `json:"vrf_value"`
	}{height + 1, proposer, root, vrfValue})
	if err != nil {
		return vconfig.VRFValue{}
	}
	t := sha512.Sum512(data)
	return vconfig.VRFValue(sha512.Sum512(t[:]))
}

func seedOf(s string) (vconfig.VRFValue, bool) {
	var v vconfig.VRFValue
	b := hx.UnHex(s)
	if len(b) != vconfig.VRF_SIZE {
		return v, false
	}
	copy(v[:], b)
	return v, true
}

func atoi(s string) int { v, _ := strconv.Atoi(s); return v }

func errClass(err error) string {
	m := err.Error()
	switch {
	case strings.Contains(m, "genesis block"):
		return "genesis"
	case strings.Contains(m, "SelectionSeed"):
		return "nil-seed"
	case strings.Contains(m, "cfg Proposers length"):
		return "proposers"
	case strings.Contains(m, "cfg.Endorsers length"):
		return "endorsers"
	case strings.Contains(m, "cfg.Committers length"):
		return "committers"
	}
	return "other"
}

func hasDupU32(l []uint32) bool {
	m := map[uint32]bool{}
	for _, v := range l {
		if m[v] {
			return true
		}
		m[v] = true
	}
	return false
}

func subsetOf(l, table []uint32) bool {
	m := map[uint32]bool{}
	for _, v := range table {
		m[v] = true
	}
	for _, v := range l {
		if !m[v] {
			return false
		}
	}
	return true
}

func (f *vbftsel) Exec(r *hx.Run, op []string) string {
	switch op[0] {
	case "part":
		if len(op) != 4 {
			return "bad-op"
		}
		vrf, ok := seedOf(op[1])
		if !ok {
			return "bad-op"
		}
		k, _ := strconv.ParseUint(op[2], 10, 32)
		return strconv.FormatUint(uint64(vbft.VerifCalcParticipant(vrf, u32List(op[3]), uint32(k))), 10)
	case "peers":
		if len(op) != 8 {
			return "bad-op"
		}
		vrf, ok := seedOf(op[1])
		if !ok {
			return "bad-op"
		}
		table := u32List(op[7])
		chain := &vconfig.ChainConfig{N: uint32(atoi(op[2])), C: uint32(atoi(op[3])), PosTable: table}
		props := u32List(op[6])
		res := vbft.VerifCalcParticipantPeers(vrf, props, chain, atoi(op[4]), atoi(op[5]))
		res2 := vbft.VerifCalcParticipantPeers(vrf, props, chain, atoi(op[4]), atoi(op[5]))
		if showU32(res) != showU32(res2) {
			r.Viol("C40:peers-not-deterministic", fmt.Sprintf("two evaluations of calcParticipantPeers on the same inputs differ: %v vs %v", res, res2))
		}
		if hasDupU32(res) {
			r.Viol("C40:peers-duplicate", fmt.Sprintf("calcParticipantPeers returned a duplicate: %v", res))
		}
		if !subsetOf(res, table) {
			r.Viol("C40:peers-not-from-table", fmt.Sprintf("calcParticipantPeers returned a peer that is not in the position table: %v", res))
		}
		return showU32(res)
	case "build":
		if len(op) != 10 {
			return "bad-op"
		}
		vrf, ok := seedOf(op[4])
		if !ok {
			return "bad-op"
		}
		table := u32List(op[5])
		N, C := uint32(atoi(op[2])), uint32(atoi(op[3]))
		root, err := common.Uint256ParseFromBytes(hx.UnHex(op[8]))
		if err != nil {
			return "bad-op"
		}
		mk := func() *vbft.Block {
			return &vbft.Block{
				Block: &types.Block{Header: &types.Header{Height: uint32(atoi(op[6])), BlockRoot: root}},
				Info:  &vconfig.VbftBlockInfo{Proposer: uint32(atoi(op[7])), VrfValue: hx.UnHex(op[9])},
			}
		}
		if refSeed(uint32(atoi(op[6])), uint32(atoi(op[7])), root, hx.UnHex(op[9])) != vrf {
			return "bad-seed" // the op line's seed is not the seed of the op line's block
		}
		if got := vbft.VerifParticipantSeed(mk()); got != vrf {
			r.Viol("C40:selection-seed-not-derived-from-the-block", fmt.Sprintf("getParticipantSelectionSeed of the block (height %s, proposer %s, root %s) is %x, the double SHA-512 of its own fields is %x", op[6], op[7], op[8], got[:8], vrf[:8]))
		}
		chain := &vconfig.ChainConfig{N: N, C: C, PosTable: table}
		cfg, err := vbft.VerifBuildParticipantConfig(uint32(atoi(op[1])), mk(), chain)
		if err != nil {
			r.Hist("build.err." + errClass(err))
			return "err:" + errClass(err)
		}
		r.Hist("build.ok")
		out := fmt.Sprintf("ok p=%s e=%s c=%s", showU32(cfg.Proposers), showU32(cfg.Endorsers), showU32(cfg.Committers))
		cfg2, err2 := vbft.VerifBuildParticipantConfig(uint32(atoi(op[1])), mk(), &vconfig.ChainConfig{N: N, C: C, PosTable: append([]uint32{}, table...)})
		if err2 != nil || out != fmt.Sprintf("ok p=%s e=%s c=%s", showU32(cfg2.Proposers), showU32(cfg2.Endorsers), showU32(cfg2.Committers)) {
			r.Viol("C40:build-not-deterministic", "two evaluations of buildParticipantConfig on the same inputs differ")
		}
		key := fmt.Sprintf("N=%d,C=%d", N, C)
		if uint32(len(cfg.Proposers)) != C+1 || hasDupU32(cfg.Proposers) || !subsetOf(cfg.Proposers, table) {
			r.Viol("C40:proposers-malformed", fmt.Sprintf("%s: proposers %v (need C+1 distinct table members)", key, cfg.Proposers))
		}
		first := cfg.Proposers
		if uint32(len(first)) > C {
			first = first[:C]
		}
		for name, l := range map[string][]uint32{"endorsers": cfg.Endorsers, "committers": cfg.Committers} {
			if uint32(len(l)) < 2*C || hasDupU32(l) || !subsetOf(l, table) {
				r.Viol("C40:"+name+"-malformed", fmt.Sprintf("%s: %s %v (need at least 2C distinct table members)", key, name, l))
			}
			for _, p := range first {
				for _, e := range l {
					if p == e {
						r.Viol("C40:"+name+"-contain-leading-proposer", fmt.Sprintf("%s: %s %v contain leading proposer %d (proposers %v)", key, name, l, p, cfg.Proposers))
					}
				}
			}
		}
		return out
	case "seed":
		// seed <height> <proposer> <blockroot> <vrfvalue> <seed>: getParticipantSelectionSeed of that block
		if len(op) != 6 {
			return "bad-op"
		}
		root, err := common.Uint256ParseFromBytes(hx.UnHex(op[3]))
		if err != nil {
			return "bad-op"
		}
		want := refSeed(uint32(atoi(op[1])), uint32(atoi(op[2])), root, hx.UnHex(op[4]))
		if hx.Hex(want[:]) != op[5] {
			return "bad-seed"
		}
		blk := &vbft.Block{
			Block: &types.Block{Header: &types.Header{Height: uint32(atoi(op[1])), BlockRoot: root}},
			Info:  &vconfig.VbftBlockInfo{Proposer: uint32(atoi(op[2])), VrfValue: hx.UnHex(op[4])},
		}
		got := vbft.VerifParticipantSeed(blk)
		if got != want {
			r.Viol("C40:selection-seed-not-derived-from-the-block", fmt.Sprintf("getParticipantSelectionSeed of the block (height %s, proposer %s, root %s) is %x, the double SHA-512 of its own fields is %x", op[1], op[2], op[3], got[:8], want[:8]))
		}
		return hx.Hex(got[:])
	case "peerscfg":
		if len(op) != 3 {
			return "bad-op"
		}
		view := uint32(atoi(op[1]))
		pm := &node_manager.PeerPoolMap{PeerPoolMap: map[string]*node_manager.PeerPoolItem{}}
		for _, t := range splitList(op[2]) {
			f := strings.Split(t, ":")
			if len(f) != 3 {
				return "bad-op"
			}
			if _, dup := pm.PeerPoolMap[f[1]]; dup {
				return "bad-op" // the pool is a map keyed by public key
			}
			pm.PeerPoolMap[f[1]] = &node_manager.PeerPoolItem{Index: uint32(atoi(f[0])), PeerPubkey: f[1], Status: node_manager.Status(atoi(f[2]))}
		}
		memdb := overlaydb.NewMemDB(1024, 16)
		put := func(key []byte, ser func(sink *common.ZeroCopySink)) {
			sink := common.NewZeroCopySink(nil)
			ser(sink)
			raw := append([]byte{byte(scommon.ST_STORAGE)}, nutils.NodeManagerContractAddress[:]...)
			memdb.Put(append(raw, key...), cstates.GenRawStorageItem(sink.Bytes()))
		}
		gv := &node_manager.GovernanceView{View: view}
		put([]byte(node_manager.GOVERNANCE_VIEW), gv.Serialization)
		put(append([]byte(node_manager.PEER_POOL), nutils.GetUint32Bytes(view)...), pm.Serialization)
		canon := func(ps []*config.VBFTPeerInfo) string {
			l := append([]*config.VBFTPeerInfo{}, ps...)
			sort.SliceStable(l, func(a, b int) bool {
				if l[a].Index != l[b].Index {
					return l[a].Index < l[b].Index
				}
				return l[a].PeerPubkey < l[b].PeerPubkey
			})
			var out []string
			for _, p := range l {
				out = append(out, fmt.Sprintf("%d:%s", p.Index, p.PeerPubkey))
			}
			if len(out) == 0 {
				return "-"
			}
			return strings.Join(out, ",")
		}
		first := ""
		orders := map[string]bool{}
		for i := 0; i < 12; i++ {
			ps, err := vbft.GetPeersConfig(memdb)
			if err != nil {
				return "err"
			}
			var o []string
			for _, p := range ps {
				o = append(o, fmt.Sprint(p.Index))
			}
			orders[strings.Join(o, ",")] = true
			c := canon(ps)
			if i == 0 {
				first = c
			} else if c != first {
				r.Viol("C40:peers-config-set-depends-on-map-order", fmt.Sprintf("GetPeersConfig returned different peer sets on the same pool: %s vs %s", first, c))
			}
		}
		r.Hist(fmt.Sprintf("peerscfg.distinct-orders-in-12-calls=%d", len(orders)))
		return first
	case "genesis":
		if len(op) != 3 {
			return "bad-op"
		}
		var peers []*config.VBFTPeerInfo
		pool := map[uint32]bool{}
		for _, t := range splitList(op[2]) {
			kv := strings.Split(t, ":")
			if len(kv) != 2 {
				return "bad-op"
			}
			idx, _ := strconv.ParseUint(kv[0], 10, 32)
			peers = append(peers, &config.VBFTPeerInfo{Index: uint32(idx), PeerPubkey: kv[1]})
			pool[uint32(idx)] = true
		}
		conf := &config.VBFTConfig{BlockMsgDelay: 1, HashMsgDelay: 1, PeerHandshakeTimeout: 1, MaxBlockChangeView: 1}
		cc, err := vconfig.GenesisChainConfig(conf, peers, uint32(atoi(op[1])))
		if err != nil {
			return "err"
		}
		k := uint32(len(peers))
		if cc.N != k || cc.C != k/3 {
			r.Viol("C40:genesis-N-C", fmt.Sprintf("GenesisChainConfig over %d peers gives N=%d C=%d", k, cc.N, cc.C))
		}
		count := map[uint32]int{}
		for _, e := range cc.PosTable {
			if !pool[e] {
				r.Viol("C40:table-entry-not-in-pool", fmt.Sprintf("position table entry %d is not a pool member", e))
			}
			count[e]++
		}
		if len(cc.PosTable) != 15*len(peers) {
			r.Viol("C40:table-size", fmt.Sprintf("position table has %d entries for %d peers", len(cc.PosTable), len(peers)))
		}
		if len(pool) == len(peers) {
			for idx := range pool {
				if count[idx] != 15 {
					r.Viol("C40:table-share", fmt.Sprintf("pool member %d fills %d slots of the position table, expected 15", idx, count[idx]))
				}
			}
		}
		return fmt.Sprintf("N=%d C=%d table=%s", cc.N, cc.C, showU32(cc.PosTable))
	}
	return "bad-op"
}

// ---------------------------------------------------------------------------------------------- generation

func genSeed(r *hx.Run) []byte {
	switch r.Rng.Intn(12) {
	case 0:
		b := make([]byte, 64)
		for i := range b {
			b[i] = 0xff
		}
		return b
	case 1:
		return make([]byte, 64)
	case 2:
		b := make([]byte, 64)
		for i := range b {
			b[i] = byte(i)
		}
		return b
	case 3:
		b := make([]byte, 64)
		b[r.Rng.Intn(64)] = byte(1 << uint(r.Rng.Intn(8)))
		return b
	default:
		return r.Rng.Bytes(64)
	}
}

func pubkeyLike(r *hx.Run) string {
	return "02" + fmt.Sprintf("%x", r.Rng.Bytes(32))
}

// table built by the real GenesisChainConfig from a pool of k peers
func genesisTable(r *hx.Run, k int) (table []uint32, N, C uint32, op string) {
	var peers []*config.VBFTPeerInfo
	var parts []string
	base := uint32(1)
	if r.Rng.Chance(1, 4) {
		base = uint32(r.Rng.Intn(1000))
	}
	used := map[uint32]bool{}
	for i := 0; i < k; i++ {
		idx := base + uint32(i)
		if r.Rng.Chance(1, 6) {
			idx = uint32(r.Rng.Intn(100000))
		}
		for used[idx] {
			idx++
		}
		used[idx] = true
		p := &config.VBFTPeerInfo{Index: idx, PeerPubkey: pubkeyLike(r)}
		peers = append(peers, p)
		parts = append(parts, fmt.Sprintf("%d:%s", idx, p.PeerPubkey))
	}
	height := uint32(r.Rng.Intn(1 << 20))
	conf := &config.VBFTConfig{}
	cc, err := vconfig.GenesisChainConfig(conf, peers, height)
	if err != nil {
		return nil, 0, 0, ""
	}
	return cc.PosTable, cc.N, cc.C, fmt.Sprintf("genesis %d %s", height, strings.Join(parts, ","))
}

func randomTable(r *hx.Run) []uint32 {
	L := 1 + r.Rng.Intn(64)
	switch r.Rng.Intn(6) {
	case 0:
		L = 1
	case 1:
		L = 1 << uint(r.Rng.Intn(9))
	case 2:
		L = 1 + r.Rng.Intn(400)
	}
	distinct := 1 + r.Rng.Intn(24)
	ids := make([]uint32, distinct)
	for i := range ids {
		ids[i] = uint32(1 + i)
		if r.Rng.Chance(1, 10) {
			ids[i] = uint32(r.Rng.Intn(1 << 30))
		}
	}
	t := make([]uint32, L)
	for i := range t {
		t[i] = ids[r.Rng.Intn(distinct)]
	}
	if r.Rng.Chance(1, 200) {
		t[r.Rng.Intn(L)] = math.MaxUint32
	}
	return t
}

func distinctCount(t []uint32) int {
	m := map[uint32]bool{}
	for _, v := range t {
		m[v] = true
	}
	return len(m)
}

func (f *vbftsel) Gen(r *hx.Run) {
	r.Rule("build: buildParticipantConfig over random blocks (seed = the block's real selection seed) x position tables built by the real GenesisChainConfig from pools of 1..24 peers or random tables (length 1..400, 1..24 distinct peers, powers of two, singletons) x (N, C) from the chain config or perturbed (C=0, C above the distinct count, small N); part/peers: calcParticipant at every window offset class and calcParticipantPeers in the three call modes and odd (start,end) with crafted seeds (all ones, all zero, single bit); genesis: pools with gaps, repeated indices, permuted order; distinct non-trivial = distinct (table kind, N, C, outcome, |endorsers|, |committers|) of builds")
	id := 0
	nBuild := r.Pick(6000, 400000)
	for i := 0; i < nBuild; i++ {
		id++
		r.Case(fmt.Sprintf("build-%d", id))
		var table []uint32
		var N, C uint32
		kind := "genesis"
		if r.Rng.Chance(3, 5) {
			k := 1 + r.Rng.Intn(r.Pick(20, 24))
			if r.Rng.Chance(1, 8) {
				k = []int{1, 2, 3, 4, 6, 7, 9, 10}[r.Rng.Intn(8)]
			}
			var gop string
			table, N, C, gop = genesisTable(r, k)
			if r.Rng.Chance(1, 10) {
				r.Do(gop)
			}
		} else {
			kind = "random"
			table = randomTable(r)
			d := distinctCount(table)
			N = uint32(d)
			C = uint32(d / 3)
		}
		perturb := r.Rng.Intn(14)
		switch perturb {
		case 0:
			C = 0
		case 1:
			C = uint32(distinctCount(table))
		case 2:
			N = uint32(r.Rng.Intn(4))
		case 3:
			C = C + 1
		case 4:
			N = N + uint32(r.Rng.Intn(3))
		case 5:
			if r.Rng.Chance(1, 6) {
				table = nil
				kind = "empty"
			}
		}
		height := uint32(r.Rng.Intn(1 << 24))
		proposer := uint32(r.Rng.Intn(30))
		root := r.Rng.Bytes(32)
		vrfv := r.Rng.Bytes(64)
		blk := &vbft.Block{
			Block: &types.Block{Header: &types.Header{Height: height, BlockRoot: mustU256(root)}},
			Info:  &vconfig.VbftBlockInfo{Proposer: proposer, VrfValue: vrfv},
		}
		_ = blk
		seed := refSeed(height, proposer, mustU256(root), vrfv)
		blkNum := height + 1
		if r.Rng.Chance(1, 50) {
			blkNum = 0
		}
		res := r.Do(fmt.Sprintf("build %d %d %d %s %s %d %d %s %s", blkNum, N, C, hx.Hex(seed[:]), showU32(table), height, proposer, hx.Hex(root), hx.Hex(vrfv)))
		// sibling blocks: same height and proposer, another merkle root and/or VRF value (stale fork, equivocating
		// proposer), derived back to back in the same process and in both orders: each must get its own seed
		if r.Rng.Chance(1, 5) {
			root2, vrf2 := root, vrfv
			switch r.Rng.Intn(3) {
			case 0:
				root2 = r.Rng.Bytes(32)
			case 1:
				vrf2 = r.Rng.Bytes(64)
			default:
				root2, vrf2 = r.Rng.Bytes(32), r.Rng.Bytes(64)
			}
			seed2 := refSeed(height, proposer, mustU256(root2), vrf2)
			line := func(sd vconfig.VRFValue, rt, vv []byte) string {
				return fmt.Sprintf("build %d %d %d %s %s %d %d %s %s", blkNum, N, C, hx.Hex(sd[:]), showU32(table), height, proposer, hx.Hex(rt), hx.Hex(vv))
			}
			r.Do(line(seed2, root2, vrf2))
			r.Do(line(seed, root, vrfv))
			r.Do(fmt.Sprintf("seed %d %d %s %s %s", height, proposer, hx.Hex(root2), hx.Hex(vrf2), hx.Hex(seed2[:])))
			r.Do(fmt.Sprintf("seed %d %d %s %s %s", height, proposer, hx.Hex(root), hx.Hex(vrfv), hx.Hex(seed[:])))
			r.Hist("build.sibling-blocks")
		}
		sig := fmt.Sprintf("%s/N%d/C%d/%s", kind, N, C, strings.Fields(res)[0])
		if strings.HasPrefix(res, "ok") {
			fs := strings.Fields(res)
			sig += fmt.Sprintf("/e%d/c%d", strings.Count(fs[2], ","), strings.Count(fs[3], ","))
			r.Nontrivial(sig)
		}
		r.Hist("build.table." + kind)
		if perturb > 5 && kind == "genesis" {
			r.Hist(fmt.Sprintf("build.chain-config-as-generated.N-mod-3=%d.%s", N%3, strings.SplitN(strings.Fields(res)[0], "=", 2)[0]))
		}
		if id%501 == 1 {
			r.Sample(map[string]interface{}{"kind": kind, "N": N, "C": C, "table_len": len(table), "res": res})
		}
		// the same seed and table through the lower-level entry points
		if r.Rng.Chance(1, 6) && len(table) > 0 {
			k := []int{0, 1, 7, 8, 9, 15, 16, 31, 32, 255, 256, 271, 272, 503, 504, 505, 510, 511, 512, 513, 600, 1 << 20}[r.Rng.Intn(22)]
			if r.Rng.Bool() {
				k = r.Rng.Intn(512)
			}
			r.Do(fmt.Sprintf("part %s %d %s", hx.Hex(seed[:]), k, showU32(table)))
		}
	}
	nPeers := r.Pick(3000, 100000)
	for i := 0; i < nPeers; i++ {
		id++
		r.Case(fmt.Sprintf("peers-%d", id))
		table := randomTable(r)
		if r.Rng.Chance(1, 2) {
			table, _, _, _ = genesisTable(r, 1+r.Rng.Intn(16))
		}
		if r.Rng.Chance(1, 100) {
			table = nil
		}
		seed := genSeed(r)
		d := distinctCount(table)
		N := uint32(d)
		C := uint32(d / 3)
		if r.Rng.Chance(1, 4) {
			C = uint32(r.Rng.Intn(d + 2))
		}
		if r.Rng.Chance(1, 6) {
			N = uint32(r.Rng.Intn(d + 2))
		}
		se := [][2]int{{0, 32}, {32, 272}, {272, 512}}[r.Rng.Intn(3)]
		if r.Rng.Chance(1, 6) {
			se = [][2]int{{0, 10}, {5, 32}, {100, 272}, {500, 512}, {511, 512}, {512, 512}, {40, 32}, {0, 512}, {300, 272}, {0, 0}}[r.Rng.Intn(10)]
		}
		// proposers: distinct members of the table (as buildParticipantConfig would pass), sometimes arbitrary
		var props []uint32
		if se[1] != 32 || r.Rng.Chance(1, 4) {
			seen := map[uint32]bool{}
			for _, v := range table {
				if !seen[v] && uint32(len(props)) < C+1 {
					seen[v] = true
					props = append(props, v)
				}
			}
			if r.Rng.Chance(1, 8) && len(props) > 0 {
				props = append(props, props[0])
			}
			if r.Rng.Chance(1, 8) {
				props = nil
			}
		}
		r.Do(fmt.Sprintf("peers %s %d %d %d %d %s %s", hx.Hex(seed), N, C, se[0], se[1], showU32(props), showU32(table)))
		r.Do(fmt.Sprintf("part %s %d %s", hx.Hex(seed), r.Rng.Intn(520), showU32(table)))
	}
	nGen := r.Pick(400, 8000)
	for i := 0; i < nGen; i++ {
		id++
		r.Case(fmt.Sprintf("genesis-%d", id))
		k := 1 + r.Rng.Intn(r.Pick(24, 60))
		var parts []string
		for j := 0; j < k; j++ {
			idx := j + 1
			if r.Rng.Chance(1, 5) {
				idx = r.Rng.Intn(50)
			}
			pk := pubkeyLike(r)
			if r.Rng.Chance(1, 10) {
				pk = fmt.Sprintf("node%d", r.Rng.Intn(5))
			}
			parts = append(parts, fmt.Sprintf("%d:%s", idx, pk))
		}
		height := r.Rng.Intn(1 << 30)
		r.Do(fmt.Sprintf("genesis %d %s", height, strings.Join(parts, ",")))
		// the same pool in another order: the table may differ, the multiset of entries may not
		perm := r.Rng.Perm(k)
		p2 := make([]string, k)
		for a, b := range perm {
			p2[a] = parts[b]
		}
		r.Do(fmt.Sprintf("genesis %d %s", height, strings.Join(p2, ",")))
		r.Nontrivial(fmt.Sprintf("genesis/k%d", k))
		// the same kind of pool as the governance contract stores it: GetPeersConfig filters by status and hands it
		// over in map order
		if i%4 == 0 {
			var items []string
			for j := 0; j < k; j++ {
				items = append(items, fmt.Sprintf("%d:%s:%d", j+1, pubkeyLike(r), r.Rng.Intn(4)))
			}
			r.Do(fmt.Sprintf("peerscfg %d %s", r.Rng.Intn(100), strings.Join(items, ",")))
		}
	}
	_ = sort.Ints
}

func mustU256(b []byte) common.Uint256 {
	u, err := common.Uint256ParseFromBytes(b)
	if err != nil {
		panic(err)
	}
	return u
}
