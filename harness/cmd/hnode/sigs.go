package main

import (
	"bytes"
	"crypto/sha256"
	"encoding/hex"
	"fmt"
	"math/big"
	"sort"
	"strconv"
	"strings"

	"github.com/ontio/ontology-crypto/ec"
	"github.com/ontio/ontology-crypto/keypair"
	s "github.com/ontio/ontology-crypto/signature"
	"github.com/polynetwork/poly/common"
	"github.com/polynetwork/poly/common/log"
	"github.com/polynetwork/poly/core/payload"
	"github.com/polynetwork/poly/core/signature"
	"github.com/polynetwork/poly/core/types"
	"github.com/polynetwork/poly/core/validation"
	ontErrors "github.com/polynetwork/poly/errors"
	"golang.org/x/crypto/ed25519"
	"golang.org/x/crypto/ripemd160"
	"polyverif/internal/hx"
)

// Family sigs (C39): transaction signature validation on the real code.
//
//	tx <nonce> <entry> ...     -> ok signers=<sorted addresses> | reject
//	     validation.VerifyTransaction on an invoke transaction with the given nonce whose Sigs are the entries
//	vms <data> <entry>         -> ok | reject:not-enough | reject:invalid-sig | reject:multi-failed
//	     signature.VerifyMultiSignature(data, keys, m, sigs)
//	entry = M;pk1,pk2,..;sig1,sig2,..;ADDR;WF;V   (hex; "-" = empty list; "_" = empty signature)
//	     ADDR = address the library derives for the entry, WF = per signature "decodes" bit,
//	     V = per signature the bits "verifies under key j" (rows separated by "/"): the harness recomputes all three
//	     by calling the library and answers bad-addr / bad-verdicts if the op line disagrees.
//
// Property oracle (r.Viol): the verdict must equal the independent specification (entry count <= 16; per entry
// n <= 16, 1 <= m <= n, at least m signatures, single key: first signature valid; otherwise the first m
// signatures can be matched to m different key positions — decided by augmenting-path bipartite matching, not by
// the greedy scan), and tx.SignedAddr as a set must equal the set of entry addresses.
type sigsFam struct{}

func init() {
	families["sigs"] = func() hx.Family {
		log.InitLog(log.FatalLog)
		return &sigsFam{}
	}
}

func (f *sigsFam) Reset(r *hx.Run) {}

type sigEntry struct {
	m    int
	pks  [][]byte
	sigs [][]byte
	addr string
	wf   string
	v    string
}

func hexList(bs [][]byte, empty string) string {
	if len(bs) == 0 {
		return "-"
	}
	p := make([]string, len(bs))
	for i, b := range bs {
		if len(b) == 0 {
			p[i] = empty
		} else {
			p[i] = hex.EncodeToString(b)
		}
	}
	return strings.Join(p, ",")
}

func unhexList(t string) ([][]byte, bool) {
	if t == "-" {
		return nil, true
	}
	var out [][]byte
	for _, h := range strings.Split(t, ",") {
		if h == "_" {
			out = append(out, []byte{})
			continue
		}
		b, err := hex.DecodeString(h)
		if err != nil {
			return nil, false
		}
		out = append(out, b)
	}
	return out, true
}

func (e *sigEntry) token() string {
	return fmt.Sprintf("%d;%s;%s;%s;%s;%s", e.m, hexList(e.pks, "_"), hexList(e.sigs, "_"), e.addr, e.wf, e.v)
}

func parseEntry(t string) (*sigEntry, bool) {
	p := strings.Split(t, ";")
	if len(p) != 6 {
		return nil, false
	}
	m, err := strconv.Atoi(p[0])
	if err != nil || m < 0 || m > 65535 {
		return nil, false
	}
	pks, ok1 := unhexList(p[1])
	sigs, ok2 := unhexList(p[2])
	if !ok1 || !ok2 {
		return nil, false
	}
	return &sigEntry{m: m, pks: pks, sigs: sigs, addr: p[3], wf: p[4], v: p[5]}, true
}

// verdicts computes ADDR / WF / V of an entry by calling the libraries the node calls.
func verdicts(pks []keypair.PublicKey, m int, sigs [][]byte, data []byte) (addr, wf, v string, valid [][]bool) {
	addr = "-"
	if len(pks) == 1 {
		a := types.AddressFromPubKey(pks[0])
		addr = hex.EncodeToString(a[:])
	} else if len(pks) > 1 {
		cp := append([]keypair.PublicKey{}, pks...) // AddressFromMultiPubKeys sorts its argument in place
		a, err := types.AddressFromMultiPubKeys(cp, m)
		if err == nil {
			addr = hex.EncodeToString(a[:])
		}
	}
	var wfb, rows []string
	for _, sg := range sigs {
		obj, err := s.Deserialize(sg)
		row := make([]bool, len(pks))
		if err != nil {
			wfb = append(wfb, "0")
		} else {
			wfb = append(wfb, "1")
			for j, pk := range pks {
				row[j] = s.Verify(pk, data, obj)
			}
		}
		valid = append(valid, row)
		rs := ""
		for _, b := range row {
			if b {
				rs += "1"
			} else {
				rs += "0"
			}
		}
		if rs == "" {
			rs = "-"
		}
		rows = append(rows, rs)
	}
	wf, v = "-", "-"
	if len(sigs) > 0 {
		wf = strings.Join(wfb, "")
		v = strings.Join(rows, "/")
	}
	return
}

// matchable: can the first m signatures be assigned to m different key positions? (Kuhn's augmenting paths)
func matchable(valid [][]bool, m, kn int) bool {
	if m > len(valid) {
		return false
	}
	owner := make([]int, kn)
	for i := range owner {
		owner[i] = -1
	}
	var try func(i int, seen []bool) bool
	try = func(i int, seen []bool) bool {
		for j := 0; j < kn; j++ {
			if valid[i][j] && !seen[j] {
				seen[j] = true
				if owner[j] < 0 || try(owner[j], seen) {
					owner[j] = i
					return true
				}
			}
		}
		return false
	}
	for i := 0; i < m; i++ {
		if !try(i, make([]bool, kn)) {
			return false
		}
	}
	return true
}

// keyToken renders a public key as ser:type:curve:x:y — the serialization and the quadruple keypair.SortPublicKeys
// compares (key type, curve label, X, Y; for Ed25519 the key bytes as one number).
func keyToken(pk keypair.PublicKey) string {
	sr := hex.EncodeToString(keypair.SerializePublicKey(pk))
	ty := int(keypair.GetKeyType(pk))
	switch k := pk.(type) {
	case *ec.PublicKey:
		c, err := keypair.GetCurveLabel(k.Curve)
		if err != nil {
			return "?"
		}
		return fmt.Sprintf("%s:%d:%d:%s:%s", sr, ty, c, k.X.String(), k.Y.String())
	case ed25519.PublicKey:
		return fmt.Sprintf("%s:%d:0:%s:0", sr, ty, new(big.Int).SetBytes(k).String())
	}
	return "?"
}

func txFor(nonce uint32) (*types.Transaction, error) {
	tx := &types.Transaction{Version: 0, TxType: types.Invoke, Nonce: nonce, Payload: &payload.InvokeCode{Code: []byte{1, 2, 3}}}
	sink := common.NewZeroCopySink(nil)
	if err := tx.Serialization(sink); err != nil {
		return nil, err
	}
	return types.TransactionFromRawBytes(sink.Bytes())
}

func (f *sigsFam) Exec(r *hx.Run, op []string) string {
	switch op[0] {
	case "tx":
		if len(op) < 2 {
			return "bad-op"
		}
		nonce, err := strconv.ParseUint(op[1], 10, 32)
		if err != nil {
			return "bad-op"
		}
		tx, err := txFor(uint32(nonce))
		if err != nil {
			return "bad-op"
		}
		hash := tx.Hash()
		specOK := len(op)-2 <= 16
		want := map[string]bool{}
		tx.Sigs = nil
		for _, tok := range op[2:] {
			e, ok := parseEntry(tok)
			if !ok {
				return "bad-op"
			}
			var pks []keypair.PublicKey
			for _, b := range e.pks {
				pk, err := keypair.DeserializePublicKey(b)
				if err != nil {
					return "bad-key"
				}
				pks = append(pks, pk)
			}
			addr, wf, v, valid := verdicts(pks, e.m, e.sigs, hash[:])
			if addr != e.addr {
				return "bad-addr"
			}
			if wf != e.wf || v != e.v {
				return "bad-verdicts"
			}
			kn, sn := len(pks), len(e.sigs)
			entryOK := kn <= 16 && e.m >= 1 && e.m <= kn && sn >= e.m
			if entryOK {
				if kn == 1 {
					entryOK = valid[0][0]
				} else {
					entryOK = matchable(valid, e.m, kn)
				}
			}
			if !entryOK {
				specOK = false
			}
			want[addr] = true
			tx.Sigs = append(tx.Sigs, types.Sig{SigData: e.sigs, PubKeys: append([]keypair.PublicKey{}, pks...), M: uint16(e.m)})
		}
		code := validation.VerifyTransaction(tx)
		got := code == ontErrors.ErrNoError
		cls := fmt.Sprintf("entries=%d", len(op)-2)
		if got && !specOK {
			r.Viol("C39:accepted-invalid", fmt.Sprintf("validation passed a transaction (%s) that has an invalid signature entry or exceeds a limit", cls))
		}
		if !got && specOK {
			r.Viol("C39:rejected-valid", fmt.Sprintf("validation refused a transaction (%s) all of whose entries are valid and within limits (code %v)", cls, code))
		}
		if !got {
			r.Hist("tx.reject")
			return "reject"
		}
		r.Hist("tx.ok")
		var signers []string
		gotSet := map[string]bool{}
		for _, a := range tx.SignedAddr {
			h := hex.EncodeToString(a[:])
			if gotSet[h] {
				r.Viol("C39:signer-listed-twice", "tx.SignedAddr lists an address twice: "+h)
			}
			gotSet[h] = true
			signers = append(signers, h)
		}
		sort.Strings(signers)
		if len(gotSet) != len(want) {
			r.Viol("C39:signers-differ", fmt.Sprintf("attributed signer addresses %v differ from the addresses of the entries %v", gotSet, want))
		} else {
			for a := range want {
				if !gotSet[a] {
					r.Viol("C39:signers-differ", fmt.Sprintf("attributed signer addresses %v differ from the addresses of the entries %v", gotSet, want))
					break
				}
			}
		}
		out := "-"
		if len(signers) > 0 {
			out = strings.Join(signers, ",")
		}
		return "ok signers=" + out
	case "prog", "bk":
		var pks []keypair.PublicKey
		first := 2
		if op[0] == "bk" {
			first = 1
		}
		if len(op) < first {
			return "bad-op"
		}
		for _, t := range op[first:] {
			f := strings.Split(t, ":")
			if len(f) != 5 {
				return "bad-op"
			}
			b, err := hex.DecodeString(f[0])
			if err != nil {
				return "bad-op"
			}
			pk, err := keypair.DeserializePublicKey(b)
			if err != nil {
				return "bad-key"
			}
			if keyToken(pk) != t { // serialization and the compared quadruple are recomputed from the key
				return "bad-verdicts"
			}
			pks = append(pks, pk)
		}
		hash160 := func(b []byte) string {
			t := sha256.Sum256(b)
			md := ripemd160.New()
			md.Write(t[:])
			return hex.EncodeToString(md.Sum(nil))
		}
		empty := hex.EncodeToString(common.ADDRESS_EMPTY[:])
		if op[0] == "bk" {
			a, err := types.AddressFromBookkeepers(append([]keypair.PublicKey{}, pks...))
			got := hex.EncodeToString(a[:])
			n := len(pks)
			want := empty
			if n == 1 {
				want = hash160(keypair.SerializePublicKey(pks[0]))
			} else {
				sink := common.NewZeroCopySink(nil)
				if e := types.EncodeMultiPubKeyProgramInto(sink, append([]keypair.PublicKey{}, pks...), uint16(n-(n-1)/3)); e == nil {
					want = hash160(sink.Bytes())
				}
			}
			if err != nil || got != want {
				r.Viol("C39:bookkeeper-address", fmt.Sprintf("AddressFromBookkeepers over %d keys gives %s (err %v), expected %s", n, got, err, want))
			}
			if got == empty {
				r.Hist("bk.empty-address")
			}
			return "empty=" + b01(got == empty)
		}
		m, err := strconv.Atoi(op[1])
		if err != nil || m < 0 {
			return "bad-op"
		}
		sink := common.NewZeroCopySink(nil)
		encErr := types.EncodeMultiPubKeyProgramInto(sink, append([]keypair.PublicKey{}, pks...), uint16(m))
		a, aerr := types.AddressFromMultiPubKeys(append([]keypair.PublicKey{}, pks...), m)
		got := hex.EncodeToString(a[:])
		if aerr != nil {
			r.Viol("C39:multi-address-error", fmt.Sprintf("AddressFromMultiPubKeys returned an error: %v", aerr))
		}
		if encErr != nil {
			r.Hist("prog.err")
			if got != empty {
				r.Viol("C39:multi-address-after-encoder-error", fmt.Sprintf("encoder error but address %s", got))
			}
			return "err empty=" + b01(got == empty)
		}
		r.Hist("prog.ok")
		if got != hash160(sink.Bytes()) {
			r.Viol("C39:multi-address-not-hash-of-program", fmt.Sprintf("AddressFromMultiPubKeys(m=%d, n=%d) = %s, RIPEMD160(SHA256(program)) = %s", m, len(pks), got, hash160(sink.Bytes())))
		}
		// the same keys in reverse order: same program
		rev := make([]keypair.PublicKey, len(pks))
		for i, k := range pks {
			rev[len(pks)-1-i] = k
		}
		s2 := common.NewZeroCopySink(nil)
		if e := types.EncodeMultiPubKeyProgramInto(s2, rev, uint16(m)); e != nil || !bytes.Equal(s2.Bytes(), sink.Bytes()) {
			r.Viol("C39:program-depends-on-key-order", "the same keys listed in reverse order give different program bytes")
		}
		return "ok " + hx.Hex(sink.Bytes()) + " empty=" + b01(got == empty)
	case "vms":
		if len(op) != 3 {
			return "bad-op"
		}
		data := hx.UnHex(op[1])
		e, ok := parseEntry(op[2])
		if !ok {
			return "bad-op"
		}
		var pks []keypair.PublicKey
		for _, b := range e.pks {
			pk, err := keypair.DeserializePublicKey(b)
			if err != nil {
				return "bad-key"
			}
			pks = append(pks, pk)
		}
		_, wf, v, valid := verdicts(pks, e.m, e.sigs, data)
		if wf != e.wf || v != e.v {
			return "bad-verdicts"
		}
		err := signature.VerifyMultiSignature(data, append([]keypair.PublicKey{}, pks...), e.m, e.sigs)
		allWF := true
		for i := 0; i < e.m && i < len(e.sigs); i++ {
			if e.wf[i] != '1' {
				allWF = false
			}
		}
		spec := len(e.sigs) >= e.m && allWF && matchable(valid, e.m, len(pks))
		if (err == nil) != spec {
			r.Viol(fmt.Sprintf("C39:vms-verdict:accepts=%v", err == nil), fmt.Sprintf("VerifyMultiSignature(m=%d, n=%d, sigs=%d) returns %v, specification says valid=%v", e.m, len(pks), len(e.sigs), err, spec))
		}
		if err == nil {
			return "ok"
		}
		switch {
		case strings.Contains(err.Error(), "not enough"):
			return "reject:not-enough"
		case strings.Contains(err.Error(), "invalid signature data"):
			return "reject:invalid-sig"
		case strings.Contains(err.Error(), "multi-signature verification failed"):
			return "reject:multi-failed"
		}
		return "reject:other"
	}
	return "bad-op"
}

// ---------------------------------------------------------------------------------------------- generation

type sigKey struct {
	pri    keypair.PrivateKey
	pub    keypair.PublicKey
	scheme s.SignatureScheme
	ser    []byte
}

func newKeys() []*sigKey {
	var ks []*sigKey
	add := func(t keypair.KeyType, curve byte, sch s.SignatureScheme, n int) {
		for i := 0; i < n; i++ {
			pri, pub, err := keypair.GenerateKeyPair(t, curve)
			if err != nil {
				panic(err)
			}
			ks = append(ks, &sigKey{pri: pri, pub: pub, scheme: sch, ser: keypair.SerializePublicKey(pub)})
		}
	}
	add(keypair.PK_ECDSA, keypair.P256, s.SHA256withECDSA, 20)
	add(keypair.PK_ECDSA, keypair.P224, s.SHA224withECDSA, 2)
	add(keypair.PK_ECDSA, keypair.P384, s.SHA384withECDSA, 2)
	add(keypair.PK_ECDSA, keypair.P521, s.SHA512withECDSA, 1)
	add(keypair.PK_ECDSA, keypair.P256, s.SHA3_256withECDSA, 1)
	add(keypair.PK_SM2, keypair.SM2P256V1, s.SM3withSM2, 3)
	add(keypair.PK_EDDSA, keypair.ED25519, s.SHA512withEDDSA, 4)
	return ks
}

func (k *sigKey) sign(data []byte) []byte {
	sg, err := s.Sign(k.scheme, k.pri, data, nil)
	if err != nil {
		panic(err)
	}
	b, err := s.Serialize(sg)
	if err != nil {
		panic(err)
	}
	return b
}

type entrySpec struct {
	keys    []*sigKey
	m       int
	sigs    [][]byte
	comment string
}

func corrupt(r *hx.Run, b []byte) []byte {
	c := append([]byte{}, b...)
	switch r.Rng.Intn(5) {
	case 0:
		if len(c) > 0 {
			c[r.Rng.Intn(len(c))] ^= byte(1 << uint(r.Rng.Intn(8)))
		}
	case 1:
		if len(c) > 1 {
			c = c[:r.Rng.Intn(len(c))]
		}
	case 2:
		c = []byte{}
	case 3:
		c = append(c, byte(r.Rng.Intn(256)))
	default:
		c = r.Rng.Bytes(1 + r.Rng.Intn(70))
	}
	return c
}

func pickKeys(r *hx.Run, pool []*sigKey, n int, fast bool) []*sigKey {
	out := make([]*sigKey, 0, n)
	perm := r.Rng.Perm(len(pool))
	for _, i := range perm {
		if len(out) == n {
			break
		}
		if fast && i >= 20 && !r.Rng.Chance(1, 6) { // mostly P-256 keys in large entries (speed)
			continue
		}
		out = append(out, pool[i])
	}
	for len(out) < n {
		out = append(out, pool[r.Rng.Intn(len(pool))])
	}
	return out
}

func genEntry(r *hx.Run, pool []*sigKey, data, otherData []byte, wantValid bool) *entrySpec {
	kind := r.Rng.Intn(20)
	e := &entrySpec{}
	switch {
	case kind < 4: // single key
		k := pool[r.Rng.Intn(len(pool))]
		e.keys = []*sigKey{k}
		e.m = 1
		e.sigs = [][]byte{k.sign(data)}
		e.comment = "single-valid"
		if wantValid {
			return e
		}
		switch r.Rng.Intn(12) {
		case 0:
			e.sigs[0] = corrupt(r, e.sigs[0])
			e.comment = "single-corrupt"
		case 1:
			e.sigs[0] = pool[r.Rng.Intn(len(pool))].sign(data)
			e.comment = "single-other-signer"
		case 2:
			e.sigs[0] = k.sign(otherData)
			e.comment = "single-other-message"
		case 3:
			e.m = []int{0, 2, 65535}[r.Rng.Intn(3)]
			e.comment = "single-bad-m"
		case 4:
			e.sigs = append(e.sigs, corrupt(r, e.sigs[0]))
			e.comment = "single-extra-sig"
		case 5:
			e.sigs = [][]byte{corrupt(r, e.sigs[0]), e.sigs[0]}
			e.comment = "single-valid-second"
		case 6:
			e.sigs = nil
			e.comment = "single-no-sig"
		}
		return e
	}
	n := 2 + r.Rng.Intn(5)
	switch r.Rng.Intn(10) {
	case 0:
		n = 16
	case 1:
		if !wantValid {
			n = 17
		}
	case 2:
		n = 15
	case 3:
		n = 2
	}
	keys := pickKeys(r, pool, n, n > 7)
	if r.Rng.Chance(1, 6) { // repeated keys
		for i := 1; i < len(keys); i++ {
			if r.Rng.Chance(1, 2) {
				keys[i] = keys[r.Rng.Intn(i)]
			}
		}
	}
	m := 1 + r.Rng.Intn(n)
	switch r.Rng.Intn(8) {
	case 0:
		m = n
	case 1:
		m = 1
	case 2:
		m = n - (n-1)/3
	}
	e.keys = keys
	e.m = m
	// signers: m positions
	pos := r.Rng.Perm(n)[:m]
	if r.Rng.Bool() {
		sort.Ints(pos)
	}
	for _, p := range pos {
		e.sigs = append(e.sigs, keys[p].sign(data))
	}
	e.comment = "multi-valid"
	if wantValid {
		if r.Rng.Chance(1, 5) {
			p := r.Rng.Perm(n)
			k2 := make([]*sigKey, n)
			for a, b := range p {
				k2[a] = keys[b]
			}
			e.keys = k2
			e.comment = "multi-permuted-keys"
		}
		return e
	}
	switch r.Rng.Intn(16) {
	case 0:
		e.sigs[r.Rng.Intn(m)] = corrupt(r, e.sigs[0])
		e.comment = "multi-one-corrupt"
	case 1:
		if m >= 2 {
			e.sigs[1] = e.sigs[0]
			e.comment = "multi-reused-signature"
		}
	case 2:
		if m >= 2 {
			e.sigs[m-1] = keys[pos[0]].sign(data) // same signer twice, fresh signature
			e.comment = "multi-same-signer-twice"
		}
	case 3:
		e.sigs = e.sigs[:m-1]
		e.comment = "multi-one-missing"
	case 4:
		e.m = []int{0, n + 1, 65535}[r.Rng.Intn(3)]
		e.comment = "multi-bad-m"
	case 5:
		e.sigs[r.Rng.Intn(m)] = pool[r.Rng.Intn(len(pool))].sign(data)
		e.comment = "multi-outsider"
	case 6:
		e.sigs[r.Rng.Intn(m)] = keys[pos[0]].sign(otherData)
		e.comment = "multi-other-message"
	case 7: // an invalid signature among the first m, a valid one after them: only the first m count
		bad := corrupt(r, e.sigs[0])
		i := r.Rng.Intn(m)
		good := e.sigs[i]
		e.sigs[i] = bad
		e.sigs = append(e.sigs, good)
		e.comment = "multi-valid-beyond-m"
	case 8:
		e.sigs = append(e.sigs, corrupt(r, e.sigs[0]))
		e.comment = "multi-extra-garbage"
	case 9: // permuted key list, same signatures
		p := r.Rng.Perm(n)
		k2 := make([]*sigKey, n)
		for a, b := range p {
			k2[a] = keys[b]
		}
		e.keys = k2
		e.comment = "multi-permuted-keys"
	}
	return e
}

func (e *entrySpec) build(data []byte) *sigEntry {
	var pks []keypair.PublicKey
	var ser [][]byte
	for _, k := range e.keys {
		pks = append(pks, k.pub)
		ser = append(ser, k.ser)
	}
	addr, wf, v, _ := verdicts(pks, e.m, e.sigs, data)
	return &sigEntry{m: e.m, pks: ser, sigs: e.sigs, addr: addr, wf: wf, v: v}
}

func (f *sigsFam) Gen(r *hx.Run) {
	r.Rule("tx: invoke transactions whose signature entries are built from a pool of 33 real keys (ECDSA P-224/256/384/521 with SHA-2/SHA-3, SM2, Ed25519): valid single and m-of-n entries (n 2..17, m 1..n, signers in key order or shuffled), corrupted / truncated / empty / foreign / other-message signatures, reused signature, same signer twice, repeated and permuted keys, m in {0, n+1, 65535}, one signature missing, valid signature beyond the first m, 1..17 entries incl. repeated entries; vms: VerifyMultiSignature on the same entry kinds; distinct non-trivial = distinct (entry kinds, verdict) per transaction")
	pool := newKeys()
	// every interleaving of valid / invalid single-key and multi-key entries, 2..4 entries per transaction (all 16 pairs,
	// all 64 triples, a sample of the 256 quadruples): each entry must be validated as what it is, at its own position
	mkEntry := func(kind int, data, other []byte) (*sigEntry, string) {
		switch kind {
		case 0: // valid single
			k := pool[r.Rng.Intn(20)]
			es := &entrySpec{keys: []*sigKey{k}, m: 1, sigs: [][]byte{k.sign(data)}}
			return es.build(data), "S"
		case 1: // single key, signature of somebody else
			k, o := pool[r.Rng.Intn(20)], pool[20+r.Rng.Intn(len(pool)-20)]
			es := &entrySpec{keys: []*sigKey{k}, m: 1, sigs: [][]byte{o.sign(data)}}
			return es.build(data), "s"
		case 2: // valid m-of-n
			n := 2 + r.Rng.Intn(2)
			ks := pickKeys(r, pool[:20], n, false)
			m := 1 + r.Rng.Intn(n)
			es := &entrySpec{keys: ks, m: m}
			for _, p := range r.Rng.Perm(n)[:m] {
				es.sigs = append(es.sigs, ks[p].sign(data))
			}
			return es.build(data), "M"
		default: // m-of-n key list of a victim, signatures only by an outsider (or over another message)
			n := 2 + r.Rng.Intn(2)
			ks := pickKeys(r, pool[:20], n, false)
			m := 2
			es := &entrySpec{keys: ks, m: m}
			o := pool[20+r.Rng.Intn(len(pool)-20)]
			for j := 0; j < m; j++ {
				if r.Rng.Bool() {
					es.sigs = append(es.sigs, o.sign(data))
				} else {
					es.sigs = append(es.sigs, ks[j].sign(other))
				}
			}
			return es.build(data), "m"
		}
	}
	combo := 0
	for k := 2; k <= 4; k++ {
		total := 1
		for j := 0; j < k; j++ {
			total *= 4
		}
		for c := 0; c < total; c++ {
			if k == 4 && !r.Rng.Chance(r.Pick(40, 256), 256) {
				continue
			}
			combo++
			r.Case(fmt.Sprintf("mix-%d", combo))
			nonce := uint32(r.Rng.Intn(1 << 30))
			tx, err := txFor(nonce)
			if err != nil {
				panic(err)
			}
			h := tx.Hash()
			other := r.Rng.Bytes(32)
			var toks []string
			shape := ""
			x := c
			for j := 0; j < k; j++ {
				e, tag := mkEntry(x%4, h[:], other)
				x /= 4
				toks = append(toks, e.token())
				shape += tag
			}
			res := r.Do(fmt.Sprintf("tx %d %s", nonce, strings.Join(toks, " ")))
			r.Nontrivial("mix/" + shape + "/" + strings.Fields(res)[0])
			r.Hist("mix." + strings.Fields(res)[0])
		}
	}
	nTx := r.Pick(700, 20000)
	for i := 0; i < nTx; i++ {
		r.Case(fmt.Sprintf("tx-%d", i))
		nonce := uint32(r.Rng.Intn(1 << 30))
		tx, err := txFor(nonce)
		if err != nil {
			panic(err)
		}
		h := tx.Hash()
		other := r.Rng.Bytes(32)
		ne := 1
		switch r.Rng.Intn(12) {
		case 0:
			ne = 16
		case 1:
			ne = 17
		case 2:
			ne = 0
		case 3, 4, 5:
			ne = 2 + r.Rng.Intn(4)
		}
		var toks, kinds []string
		var prev *sigEntry
		allValid := ne > 1 && r.Rng.Chance(3, 5)
		for j := 0; j < ne; j++ {
			var se *sigEntry
			if prev != nil && r.Rng.Chance(1, 8) {
				se = prev // the same entry again: its address is attributed once
				kinds = append(kinds, "repeat")
			} else {
				es := genEntry(r, pool, h[:], other, allValid)
				if ne >= 16 && len(es.keys) > 3 { // keep the big transactions affordable
					es = genEntry(r, pool[:20], h[:], other, allValid)
					for len(es.keys) > 6 {
						es = genEntry(r, pool[:20], h[:], other, allValid)
					}
				}
				se = es.build(h[:])
				kinds = append(kinds, es.comment)
			}
			prev = se
			toks = append(toks, se.token())
		}
		// the same unsigned transaction (same nonce, hence same hash) with other signature entries, validated in the same
		// process before and after the original: a verdict must depend on the entries presented, not on history
		variants := func() {
			for v := 0; v < 1+r.Rng.Intn(3); v++ {
				var vt []string
				switch r.Rng.Intn(6) {
				case 0: // no entries at all
				case 1: // the first entry with its signatures removed
					if len(toks) > 0 {
						e, _ := parseEntry(toks[0])
						e.sigs = nil
						e.wf, e.v = "-", "-"
						vt = []string{e.token()}
					}
				case 2: // fewer signatures than m
					if len(toks) > 0 {
						e, _ := parseEntry(toks[0])
						if len(e.sigs) > 0 {
							e.sigs = e.sigs[:len(e.sigs)-1]
							pks := []keypair.PublicKey{}
							for _, b := range e.pks {
								pk, _ := keypair.DeserializePublicKey(b)
								pks = append(pks, pk)
							}
							_, e.wf, e.v, _ = verdicts(pks, e.m, e.sigs, h[:])
						}
						vt = []string{e.token()}
					}
				case 3: // entries signed by other keys / corrupted
					es := genEntry(r, pool[:20], h[:], other, false)
					vt = []string{es.build(h[:]).token()}
				case 4: // a foreign single signer
					k := pool[r.Rng.Intn(len(pool))]
					es := &entrySpec{keys: []*sigKey{k}, m: 1, sigs: [][]byte{pool[r.Rng.Intn(len(pool))].sign(other)}}
					vt = []string{es.build(h[:]).token()}
				default: // a valid entry of another signer
					es := genEntry(r, pool[:20], h[:], other, true)
					vt = []string{es.build(h[:]).token()}
				}
				vres := r.Do(strings.TrimSpace(fmt.Sprintf("tx %d %s", nonce, strings.Join(vt, " "))))
				r.Hist("tx.same-body-other-sigs." + strings.Fields(vres)[0])
			}
		}
		twoStep := ne >= 1 && ne <= 6 && r.Rng.Chance(1, 3)
		if twoStep && r.Rng.Bool() {
			variants()
		}
		res := r.Do(strings.TrimSpace(fmt.Sprintf("tx %d %s", nonce, strings.Join(toks, " "))))
		if twoStep {
			variants()
			r.Do(strings.TrimSpace(fmt.Sprintf("tx %d %s", nonce, strings.Join(toks, " "))))
		}
		sort.Strings(kinds)
		r.Nontrivial(strings.Join(kinds, "+") + "/" + strings.Fields(res)[0])
		for _, k := range kinds {
			r.Hist("entry." + k)
		}
		if i%97 == 1 {
			r.Sample(map[string]interface{}{"entries": kinds, "res": res})
		}
		if r.Rng.Chance(1, 2) { // program bytes and addresses: n in 0..18, m in {0, 1, .., n, n+1, 65535, 65536+1, 65536}, repeated keys
			n := r.Rng.Intn(8)
			switch r.Rng.Intn(8) {
			case 0:
				n = 16
			case 1:
				n = 17
			case 2:
				n = 15 + r.Rng.Intn(4)
			}
			ks := pickKeys(r, pool, n, false)
			if n > 1 && r.Rng.Chance(1, 6) {
				ks[n-1] = ks[0]
			}
			var toks []string
			for _, k := range ks {
				toks = append(toks, keyToken(k.pub))
			}
			m := 0
			if n > 0 {
				m = 1 + r.Rng.Intn(n)
			}
			if r.Rng.Chance(1, 4) {
				m = []int{0, n + 1, 65535, 65536, 65536 + 1, 65536 + n, 1, n}[r.Rng.Intn(8)]
			}
			r.Do(strings.TrimSpace(fmt.Sprintf("prog %d %s", m, strings.Join(toks, " "))))
			if r.Rng.Chance(1, 2) {
				r.Do(strings.TrimSpace("bk " + strings.Join(toks, " ")))
			}
		}
		if r.Rng.Chance(1, 3) {
			es := genEntry(r, pool, h[:], other, false)
			if len(es.keys) >= 1 {
				se := es.build(h[:])
				r.Do(fmt.Sprintf("vms %s %s", hx.Hex(h[:]), se.token()))
			}
		}
	}
}
