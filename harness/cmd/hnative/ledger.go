package main

import (
	"encoding/hex"
	"fmt"
	"os"

	"github.com/ontio/ontology-crypto/keypair"
	s "github.com/ontio/ontology-crypto/signature"
	"github.com/polynetwork/poly/account"
	"github.com/polynetwork/poly/common"
	"github.com/polynetwork/poly/common/config"
	"github.com/polynetwork/poly/common/log"
	vconfig "github.com/polynetwork/poly/consensus/vbft/config"
	"github.com/polynetwork/poly/core/genesis"
	"github.com/polynetwork/poly/core/ledger"
	"github.com/polynetwork/poly/core/payload"
	"github.com/polynetwork/poly/core/signature"
	"github.com/polynetwork/poly/core/store"
	"github.com/polynetwork/poly/core/store/ledgerstore"
	"github.com/polynetwork/poly/core/types"
	"github.com/polynetwork/poly/native/states"
)

// Shared by the families of hnative: a real ledger (block, state, event stores on LevelDB under $TMPDIR) whose
// genesis block installs a VBFT configuration made of validator keys owned by the harness, so that blocks can be
// executed by the real ExecuteBlock and committed by the real AddBlock.

const nValidators = 7

type env struct {
	accs  []*account.Account // consensus validators (genesis peers)
	extra []*account.Account // other keys: owners, unrelated signers
}

var theEnv *env

var logOnce bool

// getEnvQuiet silences the node's logger (it logs every failed transaction at debug level).
func getEnvQuiet() {
	if !logOnce {
		logOnce = true
		log.InitLog(log.ErrorLog, os.Stderr)
	}
}

func getEnv() *env {
	if theEnv != nil {
		return theEnv
	}
	getEnvQuiet()
	e := &env{}
	for i := 0; i < nValidators; i++ { // the deterministic validator keys of world.go, so that replay files stay valid
		k := valKeys[i]
		e.accs = append(e.accs, &account.Account{PrivateKey: k.priv, PublicKey: k.pub, Address: k.addr, SigScheme: s.SHA256withECDSA})
	}
	for i := 0; i < 6; i++ {
		e.extra = append(e.extra, account.NewAccount(""))
	}
	peers := make([]*config.VBFTPeerInfo, 0, nValidators)
	for i, a := range e.accs {
		peers = append(peers, &config.VBFTPeerInfo{
			Index:      uint32(i + 1),
			PeerPubkey: hex.EncodeToString(keypair.SerializePublicKey(a.PublicKey)),
			Address:    a.Address.ToBase58(),
		})
	}
	mn := config.MainNetConfig
	config.DefConfig.Genesis = &config.GenesisConfig{
		SeedList:      []string{},
		ConsensusType: config.CONSENSUS_TYPE_VBFT,
		VBFT: &config.VBFTConfig{
			BlockMsgDelay:        mn.VBFT.BlockMsgDelay,
			HashMsgDelay:         mn.VBFT.HashMsgDelay,
			PeerHandshakeTimeout: mn.VBFT.PeerHandshakeTimeout,
			MaxBlockChangeView:   mn.VBFT.MaxBlockChangeView,
			VrfValue:             mn.VBFT.VrfValue,
			VrfProof:             mn.VBFT.VrfProof,
			Peers:                peers,
		},
		DBFT: &config.DBFTConfig{},
		SOLO: &config.SOLOConfig{},
	}
	config.DefConfig.Common.EnableEventLog = true
	theEnv = e
	return e
}

func (e *env) bookkeepers() []keypair.PublicKey {
	var ks []keypair.PublicKey
	for _, a := range e.accs {
		ks = append(ks, a.PublicKey)
	}
	return ks
}

type ledgerT struct {
	dir     string
	ls      *ledgerstore.LedgerStoreImp
	lg      *ledger.Ledger
	genesis *types.Block
}

// newLedger creates a fresh ledger under $TMPDIR and initialises it with the genesis block.
func newLedger() (*ledgerT, error) {
	e := getEnv()
	dir, err := os.MkdirTemp("", "hnative-ledger-")
	if err != nil {
		return nil, err
	}
	// through core/ledger, so that the node's global ledger.DefLedger (consulted by some native serialisers for a fork
	// height) can point at the ledger a block is executed on
	lg, err := ledger.NewLedger(dir)
	if err != nil {
		os.RemoveAll(dir)
		return nil, err
	}
	ls := lg.GetStore().(*ledgerstore.LedgerStoreImp)
	gb, err := genesis.BuildGenesisBlock(e.bookkeepers(), config.DefConfig.Genesis)
	if err != nil {
		ls.Close()
		os.RemoveAll(dir)
		return nil, err
	}
	if err := ls.InitLedgerStoreWithGenesisBlock(gb, e.bookkeepers()); err != nil {
		ls.Close()
		os.RemoveAll(dir)
		return nil, err
	}
	return &ledgerT{dir: dir, ls: ls, lg: lg, genesis: gb}, nil
}

func (l *ledgerT) close() {
	if l == nil {
		return
	}
	if l.ls != nil {
		l.ls.Close()
	}
	os.RemoveAll(l.dir)
}

// invokeTx builds an Invoke transaction calling (contract, method, args); signers are injected through the public
// field SignedAddr, exactly what the transaction validator assigns after verifying signatures.
func invokeTx(contract common.Address, method string, args []byte, nonce uint32, signers []common.Address) *types.Transaction {
	p := &states.ContractInvokeParam{Address: contract, Method: method, Args: args}
	sink := common.NewZeroCopySink(nil)
	p.Serialization(sink)
	return rawInvokeTx(sink.Bytes(), nonce, signers)
}

func rawInvokeTx(code []byte, nonce uint32, signers []common.Address) *types.Transaction {
	return rawInvokeTxPayer(code, nonce, signers, common.ADDRESS_EMPTY)
}

func rawInvokeTxPayer(code []byte, nonce uint32, signers []common.Address, payer common.Address) *types.Transaction {
	tx := &types.Transaction{
		Payer:   payer,
		Version: types.CURR_TX_VERSION,
		TxType:  types.Invoke,
		Payload: &payload.InvokeCode{Code: code},
		Nonce:   nonce,
		ChainID: config.GetChainIdByNetId(config.DefConfig.P2PNode.NetworkId),
	}
	sink := common.NewZeroCopySink(nil)
	if err := tx.Serialization(sink); err != nil {
		panic(err)
	}
	tx2, err := types.TransactionFromRawBytes(sink.Bytes())
	if err != nil {
		panic(err)
	}
	tx2.SignedAddr = append([]common.Address{}, signers...)
	return tx2
}

// nextBlock builds the successor of the current block holding txs, signed by all validators.
func (l *ledgerT) nextBlock(txs []*types.Transaction, timestampDelta uint32) (*types.Block, error) {
	e := getEnv()
	h := l.ls.GetCurrentBlockHeight()
	prevHash := l.ls.GetCurrentBlockHash()
	prev, err := l.ls.GetHeaderByHash(prevHash)
	if err != nil {
		return nil, err
	}
	blockRoot := l.ls.GetBlockRootWithPreBlockHashes(h+1, []common.Uint256{prevHash})
	hdr := &types.Header{
		Version:          types.CURR_HEADER_VERSION,
		ChainID:          config.GetChainIdByNetId(config.DefConfig.P2PNode.NetworkId),
		PrevBlockHash:    prevHash,
		Timestamp:        prev.Timestamp + 1 + timestampDelta,
		Height:           h + 1,
		ConsensusData:    uint64(h + 1),
		ConsensusPayload: []byte(`{"leader":0,"last_config_block_num":0}`),
		BlockRoot:        blockRoot,
		NextBookkeeper:   prev.NextBookkeeper,
	}
	blk := &types.Block{Header: hdr, Transactions: txs}
	blk.RebuildMerkleRoot()
	hash := blk.Hash()
	ks := e.bookkeepers()
	for i, a := range e.accs {
		sig, err := signature.Sign(a, hash[:])
		if err != nil {
			return nil, err
		}
		hdr.Bookkeepers = append(hdr.Bookkeepers, ks[i])
		hdr.SigData = append(hdr.SigData, sig)
	}
	return blk, nil
}

func (l *ledgerT) execute(blk *types.Block) (store.ExecuteResult, error) {
	ledger.DefLedger = l.lg
	return l.ls.ExecuteBlock(blk)
}

func (l *ledgerT) commit(blk *types.Block, res store.ExecuteResult) error {
	ledger.DefLedger = l.lg
	return l.ls.AddBlock(blk, res.MerkleRoot)
}

var _ = vconfig.VbftBlock
var _ = fmt.Sprintf
