// hnative: correspondence harness for the native-contract runtime (NativeService, block execution,
// witness checks). Each family lives in its own file and registers itself in `families`.
package main

import "polyverif/internal/hx"

var families = map[string]func() hx.Family{}

func main() { hx.Main(families) }
