package main

import (
	"bytes"
	"encoding/hex"
	"encoding/json"
	"errors"
	"fmt"
	"sort"
	"strconv"
	"strings"

	"github.com/ontio/ontology-crypto/keypair"
	"github.com/polynetwork/poly/common"
	"github.com/polynetwork/poly/common/constants"
	"github.com/polynetwork/poly/core/ledger"
	"github.com/polynetwork/poly/core/store"
	scommon "github.com/polynetwork/poly/core/store/common"
	"github.com/polynetwork/poly/core/types"
	"github.com/polynetwork/poly/merkle"
	"github.com/polynetwork/poly/native"
	"github.com/polynetwork/poly/native/event"
	"polyverif/internal/hx"
)

// Family atomic (C15, also the scripted half of C16): blocks of transactions that call a scripted test contract
// registered in native.Contracts from here (no change to /repo). The program of a call is the ASCII text of its
// arguments; the real executeBlock / handleTransaction / HandleInvokeTransaction / NativeService.Invoke / CacheDB run
// it on a real ledger (LevelDB stores under $TMPDIR).
//
//	blk <dt> <tx>*                execute the next block (timestamp = previous + 1 + dt) on the committed state
//	                              (ExecuteBlock; nothing is persisted)
//	    <tx> ::= tx <signers> <C>.<m> [ <prog> ] | txchain <signers> <C>.<m> [ <prog> ] | txraw <signers> <hex>
//	    <prog> ::= (put K V | del K | get K | cp K1 K2 | ntf D | mkl D | fail | panic | ret D | wit X | inp | ctx | bi
//	               | call C.m [ <prog> ] | try C.m [ <prog> ])*
//	commit                        persist the last executed block (AddBlock)
//	keep                          hold the last executed candidate block together with the ExecuteResult that was returned
//	submitkept                    after other candidates were executed for the same height: the held result must be
//	                              unchanged and equal to a fresh re-execution; persist it through SubmitBlock(block, result)
//	                              and read back the stored cross states and their root
//	nblk <dt> <c>/<m>;<variant>;<signers>;<owner> ...   (family determ) a block of real native-contract transactions,
//	                              executed k times on two ledgers; outcome `same n=<txs>`
//
// outcome of blk: per transaction `ok|fail/<events>/<what the contract observed>`, then cross hashes, write set,
// state-change digest and cross-state root.

var genesisTimestamp = constants.GENESIS_BLOCK_TIMESTAMP

var (
	addrA = fillAddr(0xa1)
	addrB = fillAddr(0xb2)
	addrN = fillAddr(0xc3)
)

func fillAddr(b byte) (a common.Address) {
	for i := range a {
		a[i] = b
	}
	return
}

func addrNamed(s string) (common.Address, bool) {
	switch s {
	case "A":
		return addrA, true
	case "B":
		return addrB, true
	case "N":
		return addrN, true
	case "z":
		return common.ADDRESS_EMPTY, true
	}
	if len(s) == 2 && s[0] == 's' && s[1] >= '0' && s[1] <= '5' {
		return fillAddr(0x50 + s[1] - '0'), true
	}
	return common.Address{}, false
}

func unhex(s string) ([]byte, error) {
	if s == "-" {
		return []byte{}, nil
	}
	return hex.DecodeString(s)
}

// ---- what the scripted contract records about its own execution (ghost state, keyed by transaction hash)

type rwOp struct {
	write bool
	key   []byte
	val   []byte // value written / value read (nil = absent)
}

type txTrace struct {
	log       []string
	notifs    []string // events emitted, in program order
	cross     []string // cross hashes emitted, in program order
	rw        []rwOp
	swallowed bool // an inner failure was swallowed by a `try`
	panicked  bool // the program reached its `panic` instruction
}

var traces = map[common.Uint256]*txTrace{}

func traceOf(s *native.NativeService) *txTrace {
	h := s.GetTx().Hash()
	t := traces[h]
	if t == nil {
		t = &txTrace{}
		traces[h] = t
	}
	return t
}

type instr struct {
	op      string
	a, b    []byte
	addr    common.Address
	method  string
	args    string
	nesting bool
}

func splitBracket(toks []string) (inside, rest []string, ok bool) {
	depth := 0
	for i, t := range toks {
		switch t {
		case "[":
			depth++
		case "]":
			if depth == 0 {
				return toks[:i], toks[i+1:], true
			}
			depth--
		}
	}
	return nil, nil, false
}

func target(s string) (common.Address, string, bool) {
	p := strings.Split(s, ".")
	if len(p) != 2 {
		return common.Address{}, "", false
	}
	a, ok := addrNamed(p[0])
	return a, p[1], ok
}

var errParse = errors.New("scripted contract: malformed program")

func parseInstrs(toks []string) ([]instr, error) {
	var out []instr
	for len(toks) > 0 {
		need := func(n int) bool { return len(toks) > n }
		switch toks[0] {
		case "put", "cp":
			if !need(2) {
				return nil, errParse
			}
			a, e1 := unhex(toks[1])
			b, e2 := unhex(toks[2])
			if e1 != nil || e2 != nil {
				return nil, errParse
			}
			out = append(out, instr{op: toks[0], a: a, b: b})
			toks = toks[3:]
		case "del", "get", "ntf", "mkl", "ret":
			if !need(1) {
				return nil, errParse
			}
			a, e1 := unhex(toks[1])
			if e1 != nil {
				return nil, errParse
			}
			out = append(out, instr{op: toks[0], a: a})
			toks = toks[2:]
		case "fail", "panic", "inp", "ctx", "bi":
			out = append(out, instr{op: toks[0]})
			toks = toks[1:]
		case "wit":
			if !need(1) {
				return nil, errParse
			}
			a, ok := addrNamed(toks[1])
			if !ok {
				return nil, errParse
			}
			out = append(out, instr{op: "wit", addr: a})
			toks = toks[2:]
		case "call", "try":
			if !need(2) || toks[2] != "[" {
				return nil, errParse
			}
			a, m, ok := target(toks[1])
			if !ok {
				return nil, errParse
			}
			inside, rest, ok := splitBracket(toks[3:])
			if !ok {
				return nil, errParse
			}
			out = append(out, instr{op: toks[0], addr: a, method: m, args: strings.Join(inside, " ")})
			toks = rest
		default:
			return nil, errParse
		}
	}
	return out, nil
}

func short(a common.Address) string { return hex.EncodeToString(a[:1]) }

func runHandler(s *native.NativeService) ([]byte, error) {
	return runText(s, string(s.GetInput()))
}

func runText(s *native.NativeService, text string) ([]byte, error) {
	is, err := parseInstrs(strings.Fields(text))
	if err != nil {
		return nil, err
	}
	tr := traceOf(s)
	db := s.GetCacheDB()
	for _, in := range is {
		switch in.op {
		case "put":
			db.Put(in.a, in.b)
			tr.rw = append(tr.rw, rwOp{true, in.a, in.b})
		case "del":
			db.Delete(in.a)
			tr.rw = append(tr.rw, rwOp{true, in.a, nil})
		case "get":
			v, err := db.Get(in.a)
			if err != nil {
				return nil, err
			}
			v = append([]byte(nil), v...) // the returned slice aliases the cache's buffer
			tr.rw = append(tr.rw, rwOp{false, in.a, v})
			tr.log = append(tr.log, "g:"+hx.Hex(v))
		case "cp":
			v, err := db.Get(in.a)
			if err != nil {
				return nil, err
			}
			v = append([]byte(nil), v...)
			tr.rw = append(tr.rw, rwOp{false, in.a, v})
			db.Put(in.b, v)
			tr.rw = append(tr.rw, rwOp{true, in.b, v})
		case "ntf":
			cur := s.CurrentContext()
			s.AddNotify(&event.NotifyEventInfo{ContractAddress: cur, States: hx.Hex(in.a)})
			tr.notifs = append(tr.notifs, short(cur)+"@"+hx.Hex(in.a))
		case "mkl":
			s.PutMerkleVal(in.a)
			h := merkle.HashLeaf(in.a)
			tr.cross = append(tr.cross, hex.EncodeToString(h[:]))
		case "fail":
			return nil, errors.New("scripted failure")
		case "panic":
			tr.panicked = true
			var np *txTrace
			_ = np.log[0] // a genuine runtime panic (nil dereference), as a buggy handler would produce
		case "ret":
			return in.a, nil
		case "wit":
			if s.CheckWitness(in.addr) {
				tr.log = append(tr.log, "w:1")
			} else {
				tr.log = append(tr.log, "w:0")
			}
		case "inp":
			tr.log = append(tr.log, "i:"+hx.Hex(s.GetInput()))
		case "ctx":
			tr.log = append(tr.log, "x:"+short(s.CurrentContext())+"/"+short(s.CallingContext()))
		case "bi":
			tr.log = append(tr.log, fmt.Sprintf("b:%d/%d", s.GetHeight(), s.GetTime()-genesisTimestamp))
		case "call", "try":
			res, err := s.NativeCall(in.addr, in.method, []byte(in.args))
			if err != nil {
				if in.op == "call" {
					return nil, err
				}
				tr.swallowed = true
				tr.log = append(tr.log, "c:err")
				continue
			}
			switch v := res.(type) {
			case []byte:
				tr.log = append(tr.log, "c:ok:"+hx.Hex(v))
			case error:
				tr.swallowed = true // the callee never ran and the caller's earlier events are gone
				tr.log = append(tr.log, "c:ctx")
			default:
				tr.log = append(tr.log, fmt.Sprintf("c:?%T", res))
			}
		}
	}
	return []byte{1}, nil
}

func allDigits(s string) bool {
	if s == "" {
		return false
	}
	for _, c := range s {
		if c < '0' || c > '9' {
			return false
		}
	}
	return true
}

func recHandler(s *native.NativeService) ([]byte, error) {
	toks := strings.Fields(string(s.GetInput()))
	if len(toks) == 0 || !allDigits(toks[0]) {
		return nil, errParse
	}
	n, err := strconv.Atoi(toks[0])
	if err != nil {
		return nil, errParse
	}
	if n == 0 {
		return runText(s, strings.Join(toks[1:], " "))
	}
	args := strings.Join(append([]string{strconv.Itoa(n - 1)}, toks[1:]...), " ")
	res, err := s.NativeCall(addrA, "rec", []byte(args))
	if err != nil {
		return nil, err
	}
	switch v := res.(type) {
	case []byte:
		return v, nil
	case error:
		tr := traceOf(s)
		tr.swallowed = true
		tr.log = append(tr.log, "c:ctx")
		return []byte{}, nil
	}
	return nil, errors.New("unexpected result type")
}

func init() {
	native.Contracts[addrA] = func(s *native.NativeService) {
		s.Register("run", runHandler)
		s.Register("rec", recHandler)
		s.Register("onlyA", runHandler)
		s.Register("relay", relayHandler)
		s.Register("seq", seqHandler)
	}
	native.Contracts[addrB] = func(s *native.NativeService) {
		s.Register("run", runHandler)
		s.Register("onlyB", runHandler)
		s.Register("relay", relayHandler)
		s.Register("seq", seqHandler)
	}
	families["atomic"] = func() hx.Family { return &atomic{reps: 1, native: true} }
	// C16 (a): the same ops, every block executed 5 (thorough 25) times on two ledgers with the same history, plus blocks of
	// real governance transactions (handlers that range over Go maps)
	families["determ"] = func() hx.Family { return &atomic{reps: 5, twin: true, native: true} }
}

// ---- the family

type atomic struct {
	reps    int // executions of every block (C16: must all be identical)
	twin    bool
	native  bool // also generate blocks of real native-contract transactions
	specs   map[string]methodSpec
	led     *ledgerT
	led2    *ledgerT // second ledger with the same history (fresh stores), when twin
	nonce   uint32
	lastBlk *types.Block
	lastRes store.ExecuteResult
	lastOk  bool
	// a candidate block whose ExecuteResult is held while other candidates are executed (consensus does exactly this:
	// ExecuteBlock for every proposal, SubmitBlock(block, result) for the one that is sealed)
	keptBlk  *types.Block
	keptRes  store.ExecuteResult
	keptLine string
	keptRef  map[string][]byte
	refBase map[string][]byte // independent reference of the committed contract storage
	lastRef map[string][]byte
}

func (f *atomic) Reset(r *hx.Run) {
	f.led.close()
	f.led2.close()
	f.led, f.led2 = nil, nil
	f.lastBlk, f.lastOk = nil, false
	f.keptBlk = nil
	f.refBase = map[string][]byte{}
	f.lastRef = nil
	f.nonce = 0
	traces = map[common.Uint256]*txTrace{}
}

func (f *atomic) ensure() error {
	if f.led != nil {
		return nil
	}
	var err error
	if f.led, err = newLedger(); err != nil {
		return err
	}
	ledger.DefLedger = f.led.lg // some parameter serialisers consult the global ledger (fork height switch)
	if f.twin {
		if f.led2, err = newLedger(); err != nil {
			return err
		}
	}
	return nil
}

func parseSigners(s string) ([]common.Address, bool) {
	if s == "-" {
		return nil, true
	}
	var out []common.Address
	for _, n := range strings.Split(s, ",") {
		a, ok := addrNamed(n)
		if !ok {
			return nil, false
		}
		out = append(out, a)
	}
	return out, true
}

func (f *atomic) parseTxs(toks []string) ([]*types.Transaction, bool) {
	var txs []*types.Transaction
	for len(toks) > 0 {
		f.nonce++
		switch toks[0] {
		case "tx", "txchain":
			if len(toks) < 4 || toks[3] != "[" {
				return nil, false
			}
			sg, ok := parseSigners(toks[1])
			if !ok {
				return nil, false
			}
			a, m, ok := target(toks[2])
			if !ok {
				return nil, false
			}
			inside, rest, ok := splitBracket(toks[4:])
			if !ok {
				return nil, false
			}
			tx := invokeTx(a, m, []byte(strings.Join(inside, " ")), f.nonce, sg)
			if toks[0] == "txchain" {
				tx.ChainID++ // the hash is cached from the raw bytes; only NewNativeService looks at the field
			}
			txs = append(txs, tx)
			toks = rest
		case "txraw":
			if len(toks) < 3 {
				return nil, false
			}
			sg, ok := parseSigners(toks[1])
			if !ok {
				return nil, false
			}
			code, err := unhex(toks[2])
			if err != nil {
				return nil, false
			}
			txs = append(txs, rawInvokeTx(code, f.nonce, sg))
			toks = toks[3:]
		default:
			return nil, false
		}
	}
	return txs, true
}

func join(l []string) string {
	if len(l) == 0 {
		return "-"
	}
	return strings.Join(l, ",")
}

func notifStrings(n *event.ExecuteNotify) []string {
	var out []string
	for _, e := range n.Notify {
		out = append(out, short(e.ContractAddress)+"@"+fmt.Sprint(e.States))
	}
	return out
}

func writeSetStrings(res store.ExecuteResult) []string {
	var ws []string
	res.WriteSet.ForEach(func(k, v []byte) {
		ws = append(ws, hx.Hex(k)+":"+hx.Hex(v))
	})
	return ws
}

func crossStrings(hs []common.Uint256) []string {
	var out []string
	for _, h := range hs {
		out = append(out, hex.EncodeToString(h[:]))
	}
	return out
}

// canonical rendering of everything observable of an ExecuteResult (C16 compares these strings across runs)
func renderResult(res store.ExecuteResult, txs []*types.Transaction, withLog bool) string {
	var parts []string
	for i, n := range res.Notify {
		st := "fail"
		if n.State == event.CONTRACT_STATE_SUCCESS {
			st = "ok"
		}
		lg := "-"
		if withLog {
			if t := traces[txs[i].Hash()]; t != nil {
				lg = join(t.log)
			}
		}
		parts = append(parts, st+"/"+join(notifStrings(n))+"/"+lg)
	}
	return strings.Join(parts, " ") + " | x=" + join(crossStrings(res.CrossHashes)) + " w=" + join(writeSetStrings(res)) +
		" h=" + hex.EncodeToString(res.Hash[:]) + " r=" + hex.EncodeToString(res.CrossStatesRoot[:])
}

func (f *atomic) Exec(r *hx.Run, op []string) string {
	switch op[0] {
	case "blk":
		if len(op) < 2 {
			return "bad-op"
		}
		if err := f.ensure(); err != nil {
			return "err-ledger:" + err.Error()
		}
		if !allDigits(op[1]) {
			return "bad-op"
		}
		dt, _ := strconv.Atoi(op[1])
		txs, ok := f.parseTxs(op[2:])
		if !ok {
			return "bad-op"
		}
		blk, err := f.led.nextBlock(txs, uint32(dt))
		if err != nil {
			return "err-block:" + err.Error()
		}
		for _, tx := range txs {
			delete(traces, tx.Hash())
		}
		var res store.ExecuteResult
		panicked := false
		func() {
			defer func() {
				if e := recover(); e != nil {
					panicked = true
				}
			}()
			res, err = f.led.execute(blk)
		}()
		if panicked {
			// a handler panic leaves ExecuteBlock (nothing recovers it): no result exists, nothing may have been persisted
			f.lastOk = false
			if f.led.ls.GetCurrentBlockHeight() != blk.Header.Height-1 {
				r.Viol("C15:panicked-tx-left-trace", "a block whose execution panicked advanced the ledger")
			}
			return "panic"
		}
		if err != nil {
			f.lastOk = false
			return "err-exec"
		}
		// execution returned normally: no transaction whose handler panicked may be reported successful
		for i, tx := range txs {
			if tr := traces[tx.Hash()]; tr != nil && tr.panicked && res.Notify[i].State == event.CONTRACT_STATE_SUCCESS {
				r.Viol("C15:panicked-tx-left-trace", fmt.Sprintf("the handler of tx %d panicked after %d storage operations, %d events and %d cross-chain records, but the transaction is reported successful and its partial effects are in the block result",
					i, len(tr.rw), len(tr.notifs), len(tr.cross)))
			}
		}
		f.lastBlk, f.lastRes, f.lastOk = blk, res, true
		line := renderResult(res, txs, true)
		f.oracle(r, blk, res)
		f.repeat(r, blk, res, line)
		return line
	case "nblk":
		// nblk <dt> <contract>/<method>;<variant>;<signers>;<owner> ...   a block of real native-contract transactions
		if len(op) < 2 || !allDigits(op[1]) {
			return "bad-op"
		}
		if err := f.ensure(); err != nil {
			return "err-ledger:" + err.Error()
		}
		dt, _ := strconv.Atoi(op[1])
		txs, ok := f.nativeTxs(op[2:])
		if !ok {
			return "bad-op"
		}
		blk, err := f.led.nextBlock(txs, uint32(dt))
		if err != nil {
			return "err-block:" + err.Error()
		}
		res, err := f.led.execute(blk)
		if err != nil {
			f.lastOk = false
			return "err-exec"
		}
		f.lastBlk, f.lastRes, f.lastOk = blk, res, true
		f.lastRef = map[string][]byte{}
		line := renderNative(res)
		nOk := 0
		for _, n := range res.Notify {
			if n.State == event.CONTRACT_STATE_SUCCESS {
				nOk++
				r.Hist("native.ok")
			} else {
				r.Hist("native.fail")
			}
		}
		// C15 on real methods: the block without its failed transactions (bad witness, bad parameters, wrong state)
		// must give the same write set, cross hashes and events
		if nOk != len(txs) {
			var okTxs []*types.Transaction
			for i, n := range res.Notify {
				if n.State == event.CONTRACT_STATE_SUCCESS {
					okTxs = append(okTxs, txs[i])
				}
			}
			if fb, err := f.led.nextBlock(okTxs, uint32(dt)); err == nil {
				if fres, err := f.led.execute(fb); err == nil {
					if a, b := renderNativeOk(res), renderNativeOk(fres); a != b {
						r.Viol("C15:failed-tx-left-trace:native:"+nativeKey(op[2:]), "executing only the successful native transactions of the block gives a different result: "+firstDiff(a, b))
					}
				}
			}
		}
		reps := f.reps
		if r.Thorough() {
			reps *= 5
		}
		for i := 1; i < reps; i++ {
			led := f.led
			if f.led2 != nil && i%2 == 1 {
				led = f.led2
			}
			res2, err := led.execute(blk)
			if err != nil {
				r.Viol("C16:rerun-error", "re-executing the same block failed: "+err.Error())
				return "DIFF"
			}
			if l2 := renderNative(res2); l2 != line || res2.MerkleRoot != res.MerkleRoot {
				r.Viol("C16:rerun-differs:native:"+nativeKey(op[2:]), "the same block of native transactions on the same prior state gave two results: "+firstDiff(line, l2))
				return "DIFF"
			}
		}
		return fmt.Sprintf("same n=%d", len(txs))
	case "keep":
		if !f.lastOk {
			return "bad-op"
		}
		f.keptBlk, f.keptRes, f.keptRef = f.lastBlk, f.lastRes, f.lastRef
		f.keptLine = renderResult(f.keptRes, f.keptBlk.Transactions, false)
		return "ok"
	case "submitkept":
		// the held result must still be what ExecuteBlock returned, whatever was executed since; then it is persisted
		// through the consensus path SubmitBlock(block, result) and the stored cross states are read back
		if f.keptBlk == nil {
			return "bad-op"
		}
		blk, res := f.keptBlk, f.keptRes
		f.keptBlk = nil
		now := renderResult(res, blk.Transactions, false)
		fresh, err := f.led.execute(blk)
		if err != nil {
			return "err-exec"
		}
		freshLine := renderResult(fresh, blk.Transactions, false)
		if now != f.keptLine {
			r.Viol("C16:execute-result-changed-after-later-execution", "an ExecuteResult held by the caller changed while other blocks were executed on the same ledger: when returned "+f.keptLine+" ;; now "+now)
		} else if freshLine != f.keptLine {
			r.Viol("C16:rerun-differs:scripted", "re-executing a held candidate block gives another result: first "+f.keptLine+" ;; again "+freshLine)
		}
		ledger.DefLedger = f.led.lg
		if err := f.led.ls.SubmitBlock(blk, res); err != nil {
			return "err:" + err.Error()
		}
		h := blk.Header.Height
		if f.led.ls.GetCurrentBlockHeight() != h {
			return "err:height"
		}
		if f.led2 != nil {
			res2, err := f.led2.execute(blk)
			if err == nil {
				err = f.led2.commit(blk, res2)
			}
			if err != nil {
				return "err-twin:" + err.Error()
			}
		}
		for k, v := range f.keptRef {
			if len(v) == 0 {
				delete(f.refBase, k)
			} else {
				f.refBase[k] = v
			}
		}
		f.lastOk = false
		key := []byte{byte(scommon.SYS_CROSS_STATES), byte(h), byte(h >> 8), byte(h >> 16), byte(h >> 24)}
		raw, err := f.led.ls.VerifStorageRaw(key)
		if err != nil {
			return "err:" + err.Error()
		}
		var stored []string
		for i := 0; i+32 <= len(raw); i += 32 {
			stored = append(stored, hex.EncodeToString(raw[i:i+32]))
		}
		root, err := f.led.ls.GetCrossStateRoot(h)
		if err != nil {
			return "err:" + err.Error()
		}
		if want := crossStrings(fresh.CrossHashes); strings.Join(stored, ",") != strings.Join(want, ",") || (len(want) > 0 && root != fresh.CrossStatesRoot) {
			r.Viol("C16:stored-cross-states-differ", fmt.Sprintf("SubmitBlock stored cross states %v (root %x) for a block whose execution yields %v (root %x)", stored, root[:], want, fresh.CrossStatesRoot[:]))
		}
		return "ok x=" + join(stored) + " r=" + hex.EncodeToString(root[:])
	case "commit":
		if !f.lastOk {
			return "bad-op"
		}
		f.keptBlk = nil
		if err := f.led.commit(f.lastBlk, f.lastRes); err != nil {
			return "err:" + err.Error()
		}
		if f.led.ls.GetCurrentBlockHeight() != f.lastBlk.Header.Height {
			return "err:height"
		}
		if f.led2 != nil {
			res2, err := f.led2.execute(f.lastBlk)
			if err == nil {
				err = f.led2.commit(f.lastBlk, res2)
			}
			if err != nil {
				return "err-twin:" + err.Error()
			}
		}
		for k, v := range f.lastRef {
			if len(v) == 0 {
				delete(f.refBase, k)
			} else {
				f.refBase[k] = v
			}
		}
		f.lastOk = false
		return "ok"
	}
	return "bad-op"
}

// oracle evaluates C15 directly on what the real code produced, independently of the Lean model.
func (f *atomic) oracle(r *hx.Run, blk *types.Block, res store.ExecuteResult) {
	txs := blk.Transactions
	if len(res.Notify) != len(txs) {
		r.Viol("C15:notify-count", fmt.Sprintf("%d transactions but %d ExecuteNotify entries", len(txs), len(res.Notify)))
		return
	}
	var okTxs []*types.Transaction
	ref := map[string][]byte{} // reference overlay: last write of the successful transactions, in order
	var refCross []string
	anySwallowed := false
	view := func(own map[string][]byte, k []byte) []byte {
		if v, ok := own[string(k)]; ok {
			return v
		}
		if v, ok := ref[string(k)]; ok {
			return v
		}
		return f.refBase[string(k)]
	}
	for i, tx := range txs {
		n := res.Notify[i]
		tr := traces[tx.Hash()]
		if tr == nil {
			tr = &txTrace{}
		}
		if n.TxHash != tx.Hash() {
			r.Viol("C15:notify-txhash", "ExecuteNotify entry does not carry its transaction's hash")
		}
		// every read must see: own earlier writes, else committed writes of earlier successful transactions, else the store
		own := map[string][]byte{}
		for _, o := range tr.rw {
			if o.write {
				own[string(o.key)] = o.val
			} else if want := view(own, o.key); !bytes.Equal(want, o.val) {
				r.Viol("C15:read-isolation", fmt.Sprintf("tx %d read key %x = %x; the writes of the successful transactions before it give %x", i, o.key, o.val, want))
			}
		}
		if n.State != event.CONTRACT_STATE_SUCCESS {
			if n.State != event.CONTRACT_STATE_FAIL || len(n.Notify) != 0 {
				r.Viol("C15:failed-tx-has-events", fmt.Sprintf("failed tx %d reports state %d with %d events", i, n.State, len(n.Notify)))
			}
			continue
		}
		okTxs = append(okTxs, tx)
		for k, v := range own {
			ref[k] = v
		}
		if !tr.swallowed {
			if got := notifStrings(n); strings.Join(got, ",") != strings.Join(tr.notifs, ",") {
				r.Viol("C15:ok-tx-lost-event", fmt.Sprintf("successful tx %d emitted events %v but its ExecuteNotify holds %v", i, tr.notifs, got))
			}
		}
		if tr.swallowed {
			// Known quirk of Invoke (not reachable from shipped contracts: none of them calls NativeCall, which the
			// check verifies statically): when a handler swallows the failure of a nested call, the events and cross
			// hashes it emitted before that call are dropped. The model reproduces this; the oracle does not demand them.
			anySwallowed = true
			r.Hist("quirk.swallowed-inner-failure-drops-earlier-events")
		}
		refCross = append(refCross, tr.cross...)
	}
	// all cross hashes of successful transactions are kept, none of a failed one (order inside a tx is the code's)
	got := crossStrings(res.CrossHashes)
	a, b := append([]string{}, got...), append([]string{}, refCross...)
	sort.Strings(a)
	sort.Strings(b)
	if anySwallowed {
		// the kept ones must still all have been emitted by successful transactions (nothing of a failed one)
		emitted := map[string]int{}
		for _, h := range refCross {
			emitted[h]++
		}
		for _, h := range got {
			emitted[h]--
			if emitted[h] < 0 {
				r.Viol("C15:cross-hashes", fmt.Sprintf("block cross hash %s was not emitted by a successful transaction", h))
			}
		}
	} else if strings.Join(a, ",") != strings.Join(b, ",") {
		r.Viol("C15:cross-hashes", fmt.Sprintf("block cross hashes %v differ (as a multiset) from those emitted by the successful transactions %v", got, refCross))
	}
	// write set = last writes of the successful transactions
	var want []string
	for k, v := range ref {
		want = append(want, hx.Hex(append([]byte{5}, k...))+":"+hx.Hex(v))
	}
	sort.Strings(want)
	gotWS := writeSetStrings(res)
	sorted := append([]string{}, gotWS...)
	sort.Strings(sorted)
	if strings.Join(sorted, ",") != strings.Join(want, ",") {
		r.Viol("C15:write-set", fmt.Sprintf("write set %v differs from the writes of the successful transactions %v", gotWS, want))
	}
	f.lastRef = ref
	// the failed transactions are removable: the block without them yields the same result
	if len(okTxs) != len(txs) {
		fb, err := f.led.nextBlock(okTxs, blk.Header.Timestamp-f.prevTimestamp()-1)
		if err == nil {
			saved := traces
			traces = map[common.Uint256]*txTrace{}
			fres, err := f.led.execute(fb)
			traces = saved
			if err == nil {
				full := renderOk(res)
				filt := renderOk(fres)
				if full != filt {
					r.Viol("C15:failed-tx-left-trace", "executing only the successful transactions of the block gives a different result: with failed ones "+full+" ; without "+filt)
				}
			}
		}
	}
}

func (f *atomic) prevTimestamp() uint32 {
	hdr, _ := f.led.ls.GetHeaderByHash(f.led.ls.GetCurrentBlockHash())
	return hdr.Timestamp
}

// renderOk renders a result restricted to its successful transactions.
func renderOk(res store.ExecuteResult) string {
	var parts []string
	for _, n := range res.Notify {
		if n.State == event.CONTRACT_STATE_SUCCESS {
			parts = append(parts, join(notifStrings(n)))
		}
	}
	return strings.Join(parts, " ") + " | x=" + join(crossStrings(res.CrossHashes)) + " w=" + join(writeSetStrings(res)) +
		" h=" + hex.EncodeToString(res.Hash[:]) + " r=" + hex.EncodeToString(res.CrossStatesRoot[:])
}

// repeat re-executes the block (C16a): every run must give the same ExecuteResult.
func (f *atomic) repeat(r *hx.Run, blk *types.Block, res store.ExecuteResult, line string) {
	for i := 1; i < f.reps; i++ {
		for _, tx := range blk.Transactions {
			delete(traces, tx.Hash())
		}
		led := f.led
		if f.led2 != nil && i%2 == 1 {
			led = f.led2
		}
		res2, err := led.execute(blk)
		if err != nil {
			r.Viol("C16:rerun-error", "re-executing the same block failed: "+err.Error())
			return
		}
		if l2 := renderResult(res2, blk.Transactions, true); l2 != line || res2.MerkleRoot != res.MerkleRoot {
			r.Viol("C16:rerun-differs:scripted", "the same block on the same prior state gave two results: "+line+" ;; "+l2)
			return
		}
	}
}

// nativeTxs builds real transactions from <contract>/<method>;<variant>;<signers>;<owner> tokens.
func (f *atomic) nativeTxs(toks []string) ([]*types.Transaction, bool) {
	if f.specs == nil {
		f.specs = map[string]methodSpec{}
		for _, s := range catalogue() {
			f.specs[s.id] = s
		}
	}
	role := func(s string) (common.Address, bool) {
		switch s {
		case "op":
			var ks []keypair.PublicKey
			for _, k := range valKeys[:nValidators] {
				ks = append(ks, k.pub)
			}
			a, _ := types.AddressFromBookkeepers(ks)
			return a, true
		case "own":
			return ownKey.addr, true
		case "oth":
			return othKey.addr, true
		}
		if strings.HasPrefix(s, "op:") && len(s) > 4 && allDigits(s[3:]) {
			// the operator address of the consensus set made of the listed validators (after others left)
			var ks []keypair.PublicKey
			for _, d := range s[3:] {
				if d < '1' || d > '8' {
					return common.Address{}, false
				}
				if d == '8' { // the candidate node key, once it has been approved and an epoch change made it a consensus peer
					ks = append(ks, candKey.pub)
				} else {
					ks = append(ks, valKeys[d-'1'].pub)
				}
			}
			a, _ := types.AddressFromBookkeepers(ks)
			return a, true
		}
		if len(s) == 2 && s[0] == 'v' && s[1] >= '1' && s[1] <= '7' {
			return valKeys[s[1]-'1'].addr, true
		}
		return common.Address{}, false
	}
	var txs []*types.Transaction
	for _, t := range toks {
		p := strings.Split(t, ";")
		if len(p) != 4 || !allDigits(p[1]) {
			return nil, false
		}
		spec, ok := f.specs[strings.Replace(p[0], "/", " ", 1)]
		if !ok && strings.HasPrefix(p[0], "header_sync/") { // header_sync/<pkg>/SyncGenesisHeader
			i := strings.LastIndex(p[0], "/")
			spec, ok = f.specs[p[0][:i]+" "+p[0][i+1:]]
		}
		if !ok {
			return nil, false
		}
		v, _ := strconv.Atoi(p[1])
		var signers []common.Address
		if p[2] != "-" {
			for _, sname := range strings.Split(p[2], ",") {
				a, ok := role(sname)
				if !ok {
					return nil, false
				}
				signers = append(signers, a)
			}
		}
		owner, ok := role(p[3])
		if !ok {
			return nil, false
		}
		f.nonce++
		txs = append(txs, invokeTx(spec.contract, spec.method, spec.args(owner, v), f.nonce, signers))
	}
	return txs, true
}

func nativeKey(toks []string) string {
	var ms []string
	seen := map[string]bool{}
	for _, t := range toks {
		m := strings.Split(t, ";")[0]
		if !seen[m] {
			seen[m] = true
			ms = append(ms, m)
		}
	}
	sort.Strings(ms)
	return strings.Join(ms, "+")
}

func firstDiff(a, b string) string {
	i := 0
	for i < len(a) && i < len(b) && a[i] == b[i] {
		i++
	}
	lo := i - 60
	if lo < 0 {
		lo = 0
	}
	ha, hb := i+120, i+120
	if ha > len(a) {
		ha = len(a)
	}
	if hb > len(b) {
		hb = len(b)
	}
	return fmt.Sprintf("at byte %d: …%s… vs …%s…", i, a[lo:ha], b[lo:hb])
}

// renderNativeOk: the same restricted to successful transactions.
func renderNativeOk(res store.ExecuteResult) string {
	cp := res
	cp.Notify = nil
	for _, n := range res.Notify {
		if n.State == event.CONTRACT_STATE_SUCCESS {
			cp.Notify = append(cp.Notify, n)
		}
	}
	return renderNative(cp)
}

// renderNative renders every observable part of the result of a block of real transactions (events as JSON).
func renderNative(res store.ExecuteResult) string {
	var parts []string
	for _, n := range res.Notify {
		var evs []string
		for _, e := range n.Notify {
			js, err := json.Marshal(e.States)
			if err != nil {
				js = []byte(fmt.Sprintf("%v", e.States))
			}
			evs = append(evs, short(e.ContractAddress)+"@"+string(js))
		}
		parts = append(parts, fmt.Sprintf("%d/%s", n.State, strings.Join(evs, ",")))
	}
	return strings.Join(parts, " ") + " | x=" + join(crossStrings(res.CrossHashes)) + " w=" + join(writeSetStrings(res)) +
		" h=" + hex.EncodeToString(res.Hash[:]) + " r=" + hex.EncodeToString(res.CrossStatesRoot[:])
}

// ---- generator

type agen struct {
	r      *hx.Run
	keys   []string
	panics bool // some injected failures are panics
}

func (g *agen) key() string  { return g.keys[g.r.Rng.Intn(len(g.keys))] }
func (g *agen) val() string {
	switch g.r.Rng.Intn(6) {
	case 0:
		return "-"
	case 1:
		return "00"
	default:
		return hex.EncodeToString(g.r.Rng.Bytes(1 + g.r.Rng.Intn(3)))
	}
}
func (g *agen) who() string {
	return []string{"A", "B", "N", "z", "s0", "s1", "s2", "s5"}[g.r.Rng.Intn(8)]
}

func (g *agen) targetName() string {
	return []string{"A.run", "A.run", "B.run", "B.run", "A.onlyA", "B.onlyB", "B.onlyA", "A.onlyB", "N.run", "A.nope", "B.rec"}[g.r.Rng.Intn(11)]
}

// prog generates n instructions; failAt >= 0 puts a `fail` at that position.
func (g *agen) prog(n, failAt, depth int) []string {
	var out []string
	for i := 0; i < n; i++ {
		if i == failAt {
			if g.panics && g.r.Rng.Chance(1, 20) {
				out = append(out, "panic")
			} else {
				out = append(out, "fail")
			}
			continue
		}
		c := g.r.Rng.Intn(20)
		switch {
		case c < 4:
			out = append(out, "put", g.key(), g.val())
		case c < 6:
			out = append(out, "del", g.key())
		case c < 8:
			out = append(out, "get", g.key())
		case c < 10:
			out = append(out, "cp", g.key(), g.key())
		case c < 12:
			out = append(out, "ntf", g.val())
		case c < 14:
			out = append(out, "mkl", g.val())
		case c < 15:
			out = append(out, "wit", g.who())
		case c < 16:
			out = append(out, []string{"inp", "ctx", "bi"}[g.r.Rng.Intn(3)])
		case c < 19 && depth < 6 && (depth < 3 || g.r.Rng.Bool()):
			kw := "call"
			if g.r.Rng.Chance(1, 3) {
				kw = "try"
			}
			fa := -1
			m := 1 + g.r.Rng.Intn(4)
			if g.r.Rng.Chance(1, 3) {
				fa = g.r.Rng.Intn(m)
			}
			out = append(out, kw, g.targetName(), "[")
			out = append(out, g.prog(m, fa, depth+1)...)
			out = append(out, "]")
		default:
			if g.r.Rng.Chance(1, 6) {
				out = append(out, "ret", g.val())
				return out
			}
			out = append(out, "ntf", g.val())
		}
	}
	return out
}

func (g *agen) signers() string {
	switch g.r.Rng.Intn(4) {
	case 0:
		return "-"
	case 1:
		return "s0"
	case 2:
		return "s1,s2"
	default:
		return "s0,A"
	}
}

func (g *agen) tx(failing bool) string {
	n := 1 + g.r.Rng.Intn(8)
	failAt := -1
	if failing {
		failAt = g.r.Rng.Intn(n)
	}
	c := g.r.Rng.Intn(40)
	switch {
	case c == 0:
		return "txraw " + g.signers() + " " + hx.Hex(g.r.Rng.Bytes(g.r.Rng.Intn(30)))
	case c == 1:
		return "txchain " + g.signers() + " A.run [ " + strings.Join(g.prog(n, -1, 0), " ") + " ]"
	case c == 2:
		return "tx " + g.signers() + " " + g.targetName() + " [ " + strings.Join(g.prog(n, failAt, 0), " ") + " ]"
	case c == 3:
		return "tx " + g.signers() + " A.run [ put zz ]" // malformed program text
	}
	t := "A.run"
	if g.r.Rng.Bool() {
		t = "B.run"
	}
	return "tx " + g.signers() + " " + t + " [ " + strings.Join(g.prog(n, failAt, 0), " ") + " ]"
}

func (f *atomic) Gen(r *hx.Run) {
	r.Rule("blocks of 1..6 scripted transactions over a 4-key alphabet (programs of 1..8 primitive effects incl. nested calls to two test contracts, up to depth 3), with a failure injected at every position; each block executed by the real ExecuteBlock on a real ledger; some blocks are committed (AddBlock) so that later blocks read persisted state; distinct non-trivial = distinct (number of txs, ok/fail pattern, position of the failure, nested?) with at least one failing and one succeeding transaction")
	g := &agen{r: r, keys: []string{"01", "02", "0301", "-"}, panics: true}
	id := 0
	nCases := r.Pick(150, 6000)
	if f.reps > 1 {
		nCases = r.Pick(60, 500)
	}
	for c := 0; c < nCases; c++ {
		id++
		r.Case(fmt.Sprintf("blocks-%d", id))
		if err := f.ensure(); err != nil {
			panic(err)
		}
		nb := 1 + r.Rng.Intn(6)
		for b := 0; b < nb; b++ {
			ntx := 1 + r.Rng.Intn(6)
			var txs []string
			pat := ""
			sig := ""
			for i := 0; i < ntx; i++ {
				failing := r.Rng.Chance(2, 5)
				t := g.tx(failing)
				txs = append(txs, t)
				if failing {
					pat += "f"
					sig += fmt.Sprintf("%d", strings.Count(strings.Split(t, "fail")[0], " ")/3)
				} else {
					pat += "o"
				}
			}
			res := r.Do(fmt.Sprintf("blk %d %s", r.Rng.Intn(3), strings.Join(txs, " ")))
			if strings.Contains(res, "fail/") && strings.Contains(res, "ok/") {
				r.Nontrivial(fmt.Sprintf("%d/%s/%s/%v", ntx, pat, sig, strings.Contains(strings.Join(txs, " "), "call")))
			}
			r.Hist(fmt.Sprintf("txs.%d", ntx))
			if strings.Contains(res, "c:err") {
				r.Hist("swallowed-inner-failure")
			}
			if id%50 == 1 && b == 0 {
				r.Sample(map[string]interface{}{"block": strings.Join(txs, " "), "result": res})
			}
			switch r.Rng.Intn(6) {
			case 0, 1, 2:
				r.Do("commit")
			case 3:
				// consensus interleaving: hold this candidate's result, execute other candidates for the same height
				// (different transactions; the same transactions in another order), then submit the held one
				withCross := append(append([]string{}, txs...), "tx s0 B.run [ mkl "+g.val()+" put 01 "+g.val()+" mkl "+g.val()+" ntf 01 mkl 0a0b ]")
				txs = withCross
				r.Do(fmt.Sprintf("blk %d %s", r.Rng.Intn(3), strings.Join(withCross, " ")))
				r.Do("keep")
				for k := 0; k < 1+r.Rng.Intn(2); k++ {
					var other []string
					for i := 0; i < 1+r.Rng.Intn(4); i++ {
						other = append(other, g.tx(r.Rng.Chance(1, 4)))
					}
					other = append(other, "tx s0 A.run [ mkl "+g.val()+" mkl "+g.val()+" put 02 "+g.val()+" ]")
					r.Do(fmt.Sprintf("blk %d %s", r.Rng.Intn(3), strings.Join(other, " ")))
				}
				rev := append([]string{}, txs...)
				for i, j := 0, len(rev)-1; i < j; i, j = i+1, j-1 {
					rev[i], rev[j] = rev[j], rev[i]
				}
				r.Do(fmt.Sprintf("blk %d %s", r.Rng.Intn(3), strings.Join(rev, " ")))
				r.Do("submitkept")
				r.Hist("held-result-submitted")
			}
		}
	}
	if f.native {
		f.genNative(r, &id)
	}
	// every failure position of a fixed 8-instruction program, with effects before and after it
	base := []string{"put 01 aa", "ntf 01", "mkl 02", "cp 01 02", "del 01", "call B.run [ put 0301 bb mkl 03 ntf 04 ]", "put 02 cc", "ntf 05"}
	for k := 0; k <= len(base); k++ {
		id++
		r.Case(fmt.Sprintf("failpos-%d", k))
		p := append([]string{}, base[:k]...)
		if k < len(base) {
			p = append(p, "fail")
			p = append(p, base[k+1:]...)
		}
		r.Do(fmt.Sprintf("blk 0 tx s0 A.run [ put 02 11 ntf 99 ] tx s0 A.run [ %s ] tx - B.run [ get 01 get 02 get 0301 mkl 07 ]", strings.Join(p, " ")))
		r.Do("commit")
		r.Do("blk 3 tx - B.run [ get 01 get 02 get 0301 bi ]")
		r.Nontrivial(fmt.Sprintf("failpos/%d", k))
	}
	// a panic at every position of the same program (after k-1 effects), alone, after a successful transaction, and
	// inside a nested call; the block after it must see the untouched state
	for k := 0; k <= len(base); k++ {
		id++
		r.Case(fmt.Sprintf("panicpos-%d", k))
		p := append([]string{}, base[:k]...)
		p = append(p, "panic")
		if k < len(base) {
			p = append(p, base[k+1:]...)
		}
		r.Do("blk 0 tx s0 A.run [ put 02 11 ntf 99 mkl 0c ]")
		r.Do("commit")
		r.Do(fmt.Sprintf("blk 0 tx s0 A.run [ put 02 22 ntf 98 ] tx s0 A.run [ %s ] tx - B.run [ get 01 get 02 ]", strings.Join(p, " ")))
		r.Do("commit") // nothing to commit: no result
		r.Do(fmt.Sprintf("blk 1 tx s0 B.run [ try A.run [ %s ] get 01 get 02 ntf 07 ]", strings.Join(p, " ")))
		r.Do("blk 2 tx - B.run [ get 01 get 02 get 0301 mkl 0d ]")
		r.Do("commit")
		r.Nontrivial(fmt.Sprintf("panicpos/%d", k))
	}
	// nesting five deep with a failure at the innermost frame, swallowed at every possible level (what survives: the
	// writes of every frame, the events and cross hashes of the swallowing frame's failed callee only)
	for lvl := 0; lvl < 5; lvl++ {
		id++
		r.Case(fmt.Sprintf("nest5-swallow-at-%d", lvl))
		inner := "put 0301 05 ntf 05 mkl 05 fail"
		for d := 4; d >= 1; d-- {
			kw := "call"
			if d == lvl {
				kw = "try"
			}
			tgt := "A.run"
			if d%2 == 0 {
				tgt = "B.run"
			}
			inner = fmt.Sprintf("put 0%d 0%d ntf 0%d mkl 0%d %s %s [ %s ] ntf a%d wit A wit B ctx", d, d, d, d, kw, tgt, inner, d)
		}
		kw0 := "call"
		if lvl == 0 {
			kw0 = "try"
		}
		r.Do(fmt.Sprintf("blk 0 tx s0 A.run [ put 01 aa ntf 00 mkl 00 %s B.run [ %s ] ntf ff mkl ff get 0301 ] tx - B.run [ get 01 get 02 get 03 get 04 get 0301 ]", kw0, inner))
		r.Do("commit")
		r.Do("blk 0 tx - A.run [ get 01 get 02 get 03 get 04 get 0301 ]")
		r.Nontrivial(fmt.Sprintf("nest5/%d", lvl))
	}
	// the context stack limit: 1023..1027 nested frames
	for _, n := range []int{1, 2, 1022, 1023, 1024, 1025, 1026, 1030} {
		id++
		r.Case(fmt.Sprintf("depth-%d", n))
		r.Do(fmt.Sprintf("blk 0 tx s0 A.run [ ntf 01 mkl 01 put 01 01 call A.rec [ %d ntf 02 mkl 02 put 02 02 ctx ] ntf 03 inp ]", n))
		r.Nontrivial(fmt.Sprintf("depth/%d", n))
	}
}


// genNative: blocks of real governance transactions; every handler that ranges over a Go map is on the path
// (CheckConsensusSigns, GetCurConOperator, executeCommitDpos, BlackNode, UpdateFee, peer pool (de)serialisation).
func (f *atomic) genNative(r *hx.Run, id *int) {
	vals := []string{"v1", "v2", "v3", "v4", "v5", "v6", "v7"}
	each := func(method string, variant int, who []string) string {
		var t []string
		for _, v := range who {
			t = append(t, fmt.Sprintf("%s;%d;%s;%s", method, variant, v, v))
		}
		return strings.Join(t, " ")
	}
	block := func(txs string, commit bool) {
		res := r.Do("nblk " + fmt.Sprint(r.Rng.Intn(3)) + " " + txs)
		r.Nontrivial("native/" + nativeKey(strings.Fields(txs)) + "/" + res)
		if commit {
			r.Do("commit")
		}
	}
	var ids []string
	for _, s := range catalogue() {
		ids = append(ids, strings.Replace(s.id, " ", "/", 1))
	}
	n := r.Pick(6, 50)
	if f.reps == 1 {
		n = r.Pick(3, 40) // family atomic: the real methods are there for the atomicity oracle only
	}
	for c := 0; c < n; c++ {
		*id++
		r.Case(fmt.Sprintf("native-%d", *id))
		// a quorum of approvers: 5 of the 7 consensus validators, in random order
		perm := r.Rng.Perm(7)
		var three []string
		for _, i := range perm[:5] {
			three = append(three, vals[i])
		}
		block("node_manager/registerCandidate;0;own;own side_chain_manager/registerSideChain;0;own;own relayer_manager/registerRelayer;0;own;own neo3_state_manager/registerStateValidator;0;own;own node_manager/registerCandidate;1;oth;oth", true)
		block(each("node_manager/approveCandidate", 0, three)+" "+each("side_chain_manager/approveRegisterSideChain", 0, three)+" "+
			each("relayer_manager/approveRegisterRelayer", 0, three)+" "+each("neo3_state_manager/approveRegisterStateValidator", 0, three), true)
		block("node_manager/commitDpos;0;op;op node_manager/updateConfig;"+fmt.Sprint(r.Rng.Intn(3))+";op;op cross_chain_manager/BlackChain;0;op;op cross_chain_manager/WhiteChain;0;op;op "+
			"side_chain_manager/updateSideChain;0;own;own signature_manager/addSignature;0;v1;v1 signature_manager/addSignature;0;v2;v2 signature_manager/addSignature;0;v3;v3", true)
		// several peers leave in the same view change (the epoch change ranges over the peer-pool map): three validators
		// quit, then commitDpos; or two are black-listed in one step (which runs the epoch change itself)
		if r.Rng.Bool() {
			// (the operator is derived from the peers still in consensus: after the quits it is the multi-signature address of
			// validators 1, 2, 3, 7 and of the candidate that joined in the previous epoch change)
			block("node_manager/quitNode;0;v4;v4 node_manager/quitNode;1;v5;v5 node_manager/quitNode;2;v6;v6 node_manager/commitDpos;0;op:12378;op:12378", true)
			block("node_manager/commitDpos;0;op:12378;op:12378 "+each("side_chain_manager/updateFee", 0, vals), true)
		} else {
			block(each("node_manager/blackNode", 1+r.Rng.Intn(2), vals)+" node_manager/commitDpos;0;op;op "+each("side_chain_manager/updateFee", 0, vals), true)
		}
		block(each("node_manager/whiteNode", 0, three)+" node_manager/quitNode;0;v4;v4 relayer_manager/RemoveRelayer;0;own;own "+each("relayer_manager/approveRemoveRelayer", 0, three)+
			" header_sync/btc/SyncGenesisHeader;0;oth;oth header_sync/eth/SyncGenesisHeader;0;op;op", true)
		// BTC redeem bindings: signature sets in which one cosigner signed twice (two different valid signatures)
		block(fmt.Sprintf("side_chain_manager/registerRedeem;%d;oth;oth side_chain_manager/setBtcTxParam;%d;oth;oth side_chain_manager/registerRedeem;%d;-;oth",
			r.Rng.Intn(3), r.Rng.Intn(3), 3+r.Rng.Intn(3)), true)
		// random blocks, mostly with the right witness
		for b := 0; b < r.Pick(6, 12); b++ {
			var txs []string
			for i := 0; i < 1+r.Rng.Intn(6); i++ {
				m := ids[r.Rng.Intn(len(ids))]
				who := []string{"own", "oth", "op", "v1", "v2", "v3", "v4", "v5", "v6"}[r.Rng.Intn(9)]
				signer := who
				if r.Rng.Chance(1, 4) {
					signer = []string{"-", "oth", "op", "v1,v2,v3"}[r.Rng.Intn(4)]
				}
				txs = append(txs, fmt.Sprintf("%s;%d;%s;%s", m, r.Rng.Intn(3), signer, who))
			}
			block(strings.Join(txs, " "), r.Rng.Chance(2, 3))
		}
	}
}
