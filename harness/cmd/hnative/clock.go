package main

import (
	"encoding/json"
	"fmt"
	"math/big"
	"strings"
	"time"

	ethtypes "github.com/ethereum/go-ethereum/core/types"
	"github.com/polynetwork/poly/common"
	"github.com/polynetwork/poly/native/service/header_sync/eth"
	hscom "github.com/polynetwork/poly/native/service/header_sync/common"
	"github.com/polynetwork/poly/native/service/utils"
	"polyverif/internal/hx"
)

// Family clock (C16, dynamic demonstration of a reachable wall-clock read): the SAME SyncBlockHeader transaction is
// executed twice on the SAME prior state (nothing is persisted in between) a few seconds apart. The header's timestamp
// lies `ahead` seconds beyond what the future-block check allows at the first execution.
//
//	clock eth <ahead>    -> first=<class> second=<class>
//
// The proof-of-work seal check is switched off through the verif hook eth.VerifAcceptSeal (nothing else is changed);
// the trust root is installed by the real SyncGenesisHeader with the operator's witness.

type clock struct{ w *nworld }

func init() { families["clock"] = func() hx.Family { return &clock{} } }

func (f *clock) Reset(r *hx.Run) {
	f.w.close()
	f.w = nil
}

func classifyEth(o callOut) string {
	switch {
	case o.ok:
		return "ok"
	case strings.Contains(o.errStr, "verify header time error"):
		return "reject:future-block"
	}
	return "reject:other(" + o.errStr + ")"
}

func (f *clock) Exec(r *hx.Run, op []string) string {
	if len(op) != 3 || op[0] != "clock" || op[1] != "eth" || !allDigits(op[2]) {
		return "bad-op"
	}
	var ahead int64
	fmt.Sscan(op[2], &ahead)
	if ahead < 1 || ahead > 20 {
		return "bad-op"
	}
	if f.w == nil {
		f.w = newNWorld(7)
		f.w.setupChains()
	}
	eth.VerifAcceptSeal = true
	chain := routerChain(utils.ETH_ROUTER)
	now := time.Now().Unix()
	genesis := &eth.Header{Number: big.NewInt(100), Time: uint64(now - 1000), Difficulty: big.NewInt(1000000), GasLimit: 8000000,
		UncleHash: ethtypes.EmptyUncleHash}
	gj, err := json.Marshal(genesis)
	if err != nil {
		return "err-json"
	}
	gargs := ser(func(s *common.ZeroCopySink) { (&hscom.SyncGenesisHeaderParam{ChainID: chain, GenesisHeader: gj}).Serialization(s) })
	if o := f.w.invoke([]common.Address{f.w.operator()}, nil, utils.HeaderSyncContractAddress, hscom.SYNC_GENESIS_HEADER, gargs, true); !o.ok {
		return "err-genesis:" + o.errStr
	}
	const allowed = 15 // allowedFutureBlockTime of the handler, seconds
	child := &eth.Header{ParentHash: genesis.Hash(), Number: big.NewInt(101), Time: uint64(now + allowed + ahead), GasLimit: 8000000,
		UncleHash: ethtypes.EmptyUncleHash}
	child.Difficulty = eth.VerifDifficultyCalculator(new(big.Int).SetUint64(child.Time), genesis)
	cj, _ := json.Marshal(child)
	args := ser(func(s *common.ZeroCopySink) {
		(&hscom.SyncBlockHeaderParam{ChainID: chain, Address: othKey.addr, Headers: [][]byte{cj}}).Serialization(s)
	})
	first := f.w.invoke([]common.Address{othKey.addr}, nil, utils.HeaderSyncContractAddress, hscom.SYNC_BLOCK_HEADER, args, false)
	for time.Now().Unix() < now+ahead+1 {
		time.Sleep(200 * time.Millisecond)
	}
	second := f.w.invoke([]common.Address{othKey.addr}, nil, utils.HeaderSyncContractAddress, hscom.SYNC_BLOCK_HEADER, args, false)
	a, b := classifyEth(first), classifyEth(second)
	if a != b {
		r.Viol("C16:sink-reachable:native/service/header_sync/eth.(*ETHHandler).SyncBlockHeader->time.Now#0",
			fmt.Sprintf("the same syncBlockHeader transaction (ETH header number 101, timestamp = clock + %ds + %ds) on the same prior state was %s and, %d seconds later, %s: the result depends on the node's wall clock",
				allowed, ahead, a, ahead+1, b))
	}
	return "first=" + a + " second=" + b
}

func (f *clock) Gen(r *hx.Run) {
	r.Rule("one ETH header whose timestamp is 2 s beyond the future-block allowance, synchronised twice on the same state 3 s apart")
	r.Case("eth-future-block")
	res := r.Do("clock eth 2")
	r.Nontrivial(res)
	r.Sample(map[string]string{"op": "clock eth 2", "result": res})
}
