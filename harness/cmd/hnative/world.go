package main

import (
	"bytes"
	"crypto/ecdsa"
	"crypto/elliptic"
	"encoding/binary"
	"encoding/hex"
	"fmt"
	"math/big"
	"strings"

	"github.com/btcsuite/btcd/chaincfg"
	"github.com/btcsuite/btcd/wire"
	"github.com/ontio/ontology-crypto/ec"
	"github.com/ontio/ontology-crypto/keypair"
	"github.com/polynetwork/poly/common"
	"github.com/polynetwork/poly/common/config"
	"github.com/polynetwork/poly/core/store/leveldbstore"
	"github.com/polynetwork/poly/core/store/overlaydb"
	"github.com/polynetwork/poly/core/types"
	"github.com/polynetwork/poly/native"
	_ "github.com/polynetwork/poly/native/service" // registers the eight native contracts exactly as the node does
	ccmcom "github.com/polynetwork/poly/native/service/cross_chain_manager/common"
	"github.com/polynetwork/poly/native/service/governance/neo3_state_manager"
	"github.com/polynetwork/poly/native/service/governance/node_manager"
	"github.com/polynetwork/poly/native/service/governance/relayer_manager"
	"github.com/polynetwork/poly/native/service/governance/side_chain_manager"
	"github.com/polynetwork/poly/native/service/governance/signature_manager"
	hscom "github.com/polynetwork/poly/native/service/header_sync/common"
	"github.com/polynetwork/poly/native/service/utils"
	"github.com/polynetwork/poly/native/states"
	"github.com/polynetwork/poly/native/storage"
)

// ---- deterministic keys (the same in every run, so that replay files stay valid)

type keyRec struct {
	pk   []byte // serialized public key
	pub  keypair.PublicKey
	priv *ec.PrivateKey
	addr common.Address
}

func mkKey(seed uint64) keyRec {
	c := elliptic.P256()
	d := new(big.Int).SetUint64(seed)
	d.Mul(d, big.NewInt(0x9E3779B1))
	d.Add(d, big.NewInt(0x1234567))
	x, y := c.ScalarBaseMult(d.Bytes())
	pub := &ec.PublicKey{Algorithm: ec.ECDSA, PublicKey: &ecdsa.PublicKey{Curve: c, X: x, Y: y}}
	priv := &ec.PrivateKey{Algorithm: ec.ECDSA, PrivateKey: &ecdsa.PrivateKey{PublicKey: *pub.PublicKey, D: d}}
	return keyRec{pk: keypair.SerializePublicKey(pub), pub: pub, priv: priv, addr: types.AddressFromPubKey(pub)}
}

var (
	// consensus validator keys; a world uses the first n of them (the ledger-based families use 7)
	valKeys  = []keyRec{mkKey(1), mkKey(2), mkKey(3), mkKey(4), mkKey(5), mkKey(6), mkKey(7), mkKey(8), mkKey(9)}
	ownKey   = mkKey(10)                                        // the owner named by parameters
	othKey   = mkKey(11)                                        // an unrelated signer
	candKey  = mkKey(20)                                        // a candidate node key
	cand2Key = mkKey(21)
)

func vbftConfigFor(vals []keyRec) *config.VBFTConfig {
	mn := config.MainNetConfig.VBFT
	peers := make([]*config.VBFTPeerInfo, 0, len(vals))
	for i, k := range vals {
		peers = append(peers, &config.VBFTPeerInfo{Index: uint32(i + 1), PeerPubkey: hex.EncodeToString(k.pk), Address: k.addr.ToBase58()})
	}
	return &config.VBFTConfig{BlockMsgDelay: mn.BlockMsgDelay, HashMsgDelay: mn.HashMsgDelay, PeerHandshakeTimeout: mn.PeerHandshakeTimeout,
		MaxBlockChangeView: mn.MaxBlockChangeView, VrfValue: mn.VrfValue, VrfProof: mn.VrfProof, Peers: peers}
}

// ---- a world of real native contracts over a real overlay / CacheDB on an in-memory LevelDB

const worldHeight = 20000000 // above every router start block of the main net configuration

type nworld struct {
	n       int // number of genesis consensus validators
	overlay *overlaydb.OverlayDB
	store  *leveldbstore.LevelDBStore
	height uint32
	time   uint32
	nonce  uint32
}

type callOut struct {
	panicked bool
	ok     bool
	errStr string
	writes int // entries the call put into its transaction cache (whether or not it was committed)
	events int
}

func (o callOut) class() string {
	switch {
	case o.panicked:
		return "panic"
	case o.ok:
		return "ok"
	case strings.Contains(o.errStr, "authentication failed") || strings.Contains(o.errStr, "authentication Failed"):
		return "reject:witness"
	}
	return "reject:other"
}

func newNWorld(n int) *nworld {
	store, err := leveldbstore.NewMemLevelDBStore()
	if err != nil {
		panic(err)
	}
	getEnvQuiet()
	// SideChain / RegisterSideChainParam serialisation consults the *global* ledger.DefLedger for a fork height when
	// this flag is set (native/service sets it at init); this world has no global ledger: use the post-fork encoding.
	config.EXTRA_INFO_HEIGHT_FORK_CHECK = false
	w := &nworld{n: n, store: store, height: worldHeight, time: 1700000000}
	sink := common.NewZeroCopySink(nil)
	vbftConfigFor(valKeys[:n]).Serialization(sink)
	if out := w.invoke(nil, nil, utils.NodeManagerContractAddress, "initConfig", sink.Bytes(), true); !out.ok {
		panic("initConfig failed: " + out.errStr)
	}
	return w
}

func (w *nworld) close() {
	if w != nil && w.store != nil {
		w.store.Close()
	}
}

func invokeCode(contract common.Address, method string, args []byte) []byte {
	p := &states.ContractInvokeParam{Address: contract, Method: method, Args: args}
	sink := common.NewZeroCopySink(nil)
	p.Serialization(sink)
	return sink.Bytes()
}

// relayCode wraps an invocation into calls of the scripted contracts' `relay` method: via = [A, B] means the
// transaction calls A.relay, which NativeCalls B.relay, which NativeCalls the target.
func relayCode(via []common.Address, contract common.Address, method string, args []byte) []byte {
	code := invokeCode(contract, method, args)
	for i := len(via) - 1; i >= 0; i-- {
		code = invokeCode(via[i], "relay", code)
	}
	return code
}

func relayHandler(s *native.NativeService) ([]byte, error) {
	p := new(states.ContractInvokeParam)
	if err := p.Deserialization(common.NewZeroCopySource(s.GetInput())); err != nil {
		return nil, err
	}
	res, err := s.NativeCall(p.Address, p.Method, p.Args)
	if err != nil {
		return nil, err
	}
	if b, ok := res.([]byte); ok {
		return b, nil
	}
	return nil, fmt.Errorf("relay: nested call returned %T", res)
}

// service builds a NativeService over a fresh overlay on the committed store.
func (w *nworld) service(signers []common.Address, code []byte) (*native.NativeService, *overlaydb.OverlayDB, *storage.CacheDB) {
	return w.serviceP(signers, common.ADDRESS_EMPTY, code)
}

// serviceP: the transaction additionally names a payer (a field nothing ties to the signatures).
func (w *nworld) serviceP(signers []common.Address, payer common.Address, code []byte) (*native.NativeService, *overlaydb.OverlayDB, *storage.CacheDB) {
	// one overlay object per world, emptied before every use (allocating it is by far the most expensive step)
	if w.overlay == nil {
		w.overlay = overlaydb.NewOverlayDB(w.store)
	}
	overlay := w.overlay
	overlay.Reset()
	w.nonce++
	tx := rawInvokeTxPayer(code, w.nonce, signers, payer)
	svc := w.serviceOf(tx, code)
	return svc, overlay, svc.GetCacheDB()
}

func (w *nworld) serviceOf(tx *types.Transaction, code []byte) *native.NativeService {
	svc, err := native.NewNativeService(storage.NewCacheDB(w.overlay), tx, w.time, w.height, common.Uint256{}, tx.ChainID, code, false)
	if err != nil {
		panic(err)
	}
	return svc
}

// invoke runs one transaction through the real NativeService.Invoke; on success with commit the writes are persisted.
func (w *nworld) invoke(signers, via []common.Address, contract common.Address, method string, args []byte, commit bool) (out callOut) {
	return w.invokeCodeTx(signers, common.ADDRESS_EMPTY, relayCode(via, contract, method, args), commit)
}

// invokeCodeTx runs a transaction with the given invoke code, signers and payer.
func (w *nworld) invokeCodeTx(signers []common.Address, payer common.Address, code []byte, commit bool) (out callOut) {
	svc, overlay, cache := w.serviceP(signers, payer, code)
	return w.run(svc, overlay, cache, commit)
}

// invokeTxObj runs a prepared transaction object (its SignedAddr is whatever the caller or the real validator put there).
func (w *nworld) invokeTxObj(tx *types.Transaction, code []byte, commit bool) callOut {
	if w.overlay == nil {
		w.overlay = overlaydb.NewOverlayDB(w.store)
	}
	w.overlay.Reset()
	svc := w.serviceOf(tx, code)
	return w.run(svc, w.overlay, svc.GetCacheDB(), commit)
}

func (w *nworld) run(svc *native.NativeService, overlay *overlaydb.OverlayDB, cache *storage.CacheDB, commit bool) (out callOut) {
	var err error
	func() {
		defer func() {
			if e := recover(); e != nil { // executeBlock has no recover: on a node this is a crash
				out.panicked = true
				err = fmt.Errorf("panic: %v", e)
			}
		}()
		_, err = svc.Invoke()
	}()
	if out.panicked {
		out.errStr = err.Error()
		return out
	}
	cache.Commit() // into the throw-away overlay, to see what the call wrote whether or not it succeeded
	out = callOut{ok: err == nil, events: len(svc.GetNotify())}
	overlay.GetWriteSet().ForEach(func(k, v []byte) { out.writes++ })
	if err != nil {
		out.errStr = err.Error()
		return out
	}
	if overlay.Error() != nil {
		panic(overlay.Error())
	}
	if commit {
		w.store.NewBatch()
		overlay.CommitTo()
		if err := w.store.BatchCommit(); err != nil {
			panic(err)
		}
	}
	return out
}

// operator recomputes the consensus operator address independently of GetCurConOperator: consensus peers of the current
// view's pool, multi-signature address of their keys.
func (w *nworld) operator() common.Address { return w.operatorM(0) }

// operatorShort: the multi-signature address of the same keys with one signature less than the operator's threshold.
func (w *nworld) operatorShort() common.Address { return w.operatorM(1) }

// operatorM recomputes the operator address independently of GetCurConOperator and of AddressFromBookkeepers: the
// consensus peers of the current view's pool, and the (n - (n-1)/3 - less)-of-n multi-signature address of their keys.
func (w *nworld) operatorM(less int) common.Address {
	svc, _, _ := w.service(nil, nil)
	view, err := node_manager.GetView(svc)
	if err != nil {
		panic(err)
	}
	pool, err := node_manager.GetPeerPoolMap(svc, view)
	if err != nil {
		panic(err)
	}
	var keys []keypair.PublicKey
	for k, p := range pool.PeerPoolMap {
		if p.Status == node_manager.ConsensusStatus {
			b, _ := hex.DecodeString(k)
			pk, err := keypair.DeserializePublicKey(b)
			if err != nil {
				panic(err)
			}
			keys = append(keys, pk)
		}
	}
	n := len(keys)
	if n == 1 {
		if less > 0 {
			return common.ADDRESS_EMPTY
		}
		return types.AddressFromPubKey(keys[0])
	}
	m := n - (n-1)/3 - less
	if m < 1 {
		return common.ADDRESS_EMPTY
	}
	a, err := types.AddressFromMultiPubKeys(keys, m)
	if err != nil {
		panic(err)
	}
	return a
}

// due tells whether CommitDpos is open to everybody (height - view.height >= MaxBlockChangeView).
func (w *nworld) due() bool {
	svc, _, _ := w.service(nil, nil)
	cfg, err := node_manager.GetConfig(svc)
	if err != nil {
		panic(err)
	}
	gv, err := node_manager.GetGovernanceView(svc)
	if err != nil {
		panic(err)
	}
	return w.height-gv.Height >= cfg.MaxBlockChangeView
}

// ---- the catalogue of methods: how to call each entry of the guard table

type methodSpec struct {
	id       string // "<contract or handler package> <method>" as in the guard table
	want     string // guard the property demands: operator | owner | operatorOrDue | none
	contract common.Address
	method   string
	args     func(owner common.Address, variant int) []byte
}

func ser(f func(*common.ZeroCopySink)) []byte {
	s := common.NewZeroCopySink(nil)
	f(s)
	return s.Bytes()
}

func routerChain(router uint64) uint64 { return 100 + router }

var routers = []struct {
	pkg    string
	router uint64
}{
	{"btc", utils.BTC_ROUTER}, {"eth", utils.ETH_ROUTER}, {"ont", utils.ONT_ROUTER}, {"neo", utils.NEO_ROUTER},
	{"cosmos", utils.COSMOS_ROUTER}, {"bsc", utils.BSC_ROUTER}, {"heco", utils.HECO_ROUTER}, {"quorum", utils.QUORUM_ROUTER},
	{"zilliqalegacy", utils.ZILLIQA_LEGACY_ROUTER}, {"msc", utils.MSC_ROUTER}, {"neo3legacy", utils.NEO3_LEGACY_ROUTER},
	{"okex", utils.OKEX_ROUTER}, {"neo3", utils.NEO3_ROUTER}, {"polygon:heimdall", utils.POLYGON_HEIMDALL_ROUTER},
	{"polygon:bor", utils.POLYGON_BOR_ROUTER}, {"zilliqa", utils.ZILLIQA_ROUTER}, {"starcoin", utils.STARCOIN_ROUTER},
	{"pixiechain", utils.PIXIECHAIN_ROUTER}, {"hsc", utils.HSC_ROUTER}, {"harmony", utils.HARMONY_ROUTER}, {"bytom", utils.BYTOM_ROUTER},
}

func btcGenesisHeader() []byte {
	var buf bytes.Buffer
	_ = chaincfg.RegressionNetParams.GenesisBlock.Header.BtcEncode(&buf, wire.ProtocolVersion, wire.LatestEncoding)
	h := make([]byte, 4)
	binary.BigEndian.PutUint32(h, 0)
	return append(buf.Bytes(), h...)
}

func sideChainParam(owner common.Address, chainID, router uint64, name string) []byte {
	extra := []byte{}
	if router == utils.MSC_ROUTER { // this handler validates the chain's extra info before it asks for the witness
		extra = []byte(`{"ChainID":7,"Period":3,"Epoch":200}`)
	}
	p := &side_chain_manager.RegisterSideChainParam{Address: owner, ChainId: chainID, Router: router, Name: name, BlocksToWait: 1,
		CCMCAddress: bytes.Repeat([]byte{0xcc}, 20), ExtraInfo: extra}
	s := common.NewZeroCopySink(nil)
	p.Serialization(s)
	return s.Bytes()
}

func catalogue() []methodSpec {
	nm, scm, rm := utils.NodeManagerContractAddress, utils.SideChainManagerContractAddress, utils.RelayerManagerContractAddress
	sv, sm := utils.Neo3StateManagerContractAddress, utils.SignatureManagerContractAddress
	peer := func(k keyRec) func(common.Address, int) []byte {
		return func(o common.Address, v int) []byte {
			return ser(func(s *common.ZeroCopySink) { (&node_manager.PeerParam{PeerPubkey: hex.EncodeToString(k.pk), Address: o}).Serialization(s) })
		}
	}
	chainid := func(o common.Address, v int) []byte {
		return ser(func(s *common.ZeroCopySink) { (&side_chain_manager.ChainidParam{Chainid: uint64(900 + v), Address: o}).Serialization(s) })
	}
	specs := []methodSpec{
		{"node_manager registerCandidate", "owner", nm, node_manager.REGISTER_CANDIDATE, func(o common.Address, v int) []byte {
			k := candKey
			if v == 1 {
				k = cand2Key
			}
			return ser(func(s *common.ZeroCopySink) {
				(&node_manager.RegisterPeerParam{PeerPubkey: hex.EncodeToString(k.pk), Address: o}).Serialization(s)
			})
		}},
		{"node_manager unRegisterCandidate", "owner", nm, node_manager.UNREGISTER_CANDIDATE, peer(candKey)},
		{"node_manager approveCandidate", "owner", nm, node_manager.APPROVE_CANDIDATE, peer(candKey)},
		{"node_manager blackNode", "owner", nm, node_manager.BLACK_NODE, func(o common.Address, v int) []byte {
			return ser(func(s *common.ZeroCopySink) {
				list := []string{hex.EncodeToString(valKeys[3].pk)}
				switch v {
				case 1: // two peers leave in one step
					list = []string{hex.EncodeToString(valKeys[3].pk), hex.EncodeToString(valKeys[4].pk)}
				case 2:
					list = []string{hex.EncodeToString(valKeys[5].pk), hex.EncodeToString(valKeys[6].pk)}
				}
				(&node_manager.PeerListParam{PeerPubkeyList: list, Address: o}).Serialization(s)
			})
		}},
		{"node_manager whiteNode", "owner", nm, node_manager.WHITE_NODE, peer(valKeys[3])},
		{"node_manager quitNode", "owner", nm, node_manager.QUIT_NODE, func(o common.Address, v int) []byte {
			return peer(valKeys[3+v%3])(o, v) // variant v: validator 4, 5 or 6 leaves
		}},
		{"node_manager updateConfig", "operator", nm, node_manager.UPDATE_CONFIG, func(o common.Address, v int) []byte {
			return ser(func(s *common.ZeroCopySink) {
				(&node_manager.UpdateConfigParam{Configuration: &node_manager.Configuration{BlockMsgDelay: 10000, HashMsgDelay: 10000,
					PeerHandshakeTimeout: 10, MaxBlockChangeView: uint32(60000 + v)}}).Serialization(s)
			})
		}},
		{"node_manager commitDpos", "operatorOrDue", nm, node_manager.COMMIT_DPOS, func(o common.Address, v int) []byte { return []byte{} }},
		{"side_chain_manager registerSideChain", "owner", scm, side_chain_manager.REGISTER_SIDE_CHAIN, func(o common.Address, v int) []byte {
			return sideChainParam(o, uint64(900+v), utils.ETH_ROUTER, "c")
		}},
		{"side_chain_manager approveRegisterSideChain", "owner", scm, side_chain_manager.APPROVE_REGISTER_SIDE_CHAIN, chainid},
		{"side_chain_manager updateSideChain", "owner", scm, side_chain_manager.UPDATE_SIDE_CHAIN, func(o common.Address, v int) []byte {
			return sideChainParam(o, routerChain(utils.ETH_ROUTER), utils.ETH_ROUTER, "renamed")
		}},
		{"side_chain_manager approveUpdateSideChain", "owner", scm, side_chain_manager.APPROVE_UPDATE_SIDE_CHAIN, func(o common.Address, v int) []byte {
			return ser(func(s *common.ZeroCopySink) {
				(&side_chain_manager.ChainidParam{Chainid: routerChain(utils.ETH_ROUTER), Address: o}).Serialization(s)
			})
		}},
		{"side_chain_manager quitSideChain", "owner", scm, side_chain_manager.QUIT_SIDE_CHAIN, func(o common.Address, v int) []byte {
			return ser(func(s *common.ZeroCopySink) {
				(&side_chain_manager.ChainidParam{Chainid: routerChain(utils.NEO_ROUTER), Address: o}).Serialization(s)
			})
		}},
		{"side_chain_manager approveQuitSideChain", "owner", scm, side_chain_manager.APPROVE_QUIT_SIDE_CHAIN, func(o common.Address, v int) []byte {
			return ser(func(s *common.ZeroCopySink) {
				(&side_chain_manager.ChainidParam{Chainid: routerChain(utils.NEO_ROUTER), Address: o}).Serialization(s)
			})
		}},
		{"side_chain_manager registerAsset", "owner", scm, side_chain_manager.REGISTER_ASSET, func(o common.Address, v int) []byte {
			return ser(func(s *common.ZeroCopySink) {
				(&side_chain_manager.RegisterAssetParam{OperatorAddress: o, ChainId: routerChain(utils.ETH_ROUTER),
					AssetMap: map[uint64][]byte{1: {1}}, LockProxyMap: map[uint64][]byte{1: {2}}}).Serialization(s)
			})
		}},
		{"side_chain_manager updateFee", "owner", scm, side_chain_manager.UPDATE_FEE, func(o common.Address, v int) []byte {
			return ser(func(s *common.ZeroCopySink) {
				(&side_chain_manager.UpdateFeeParam{Address: o, ChainId: routerChain(utils.ETH_ROUTER), View: 0, Fee: big.NewInt(int64(1000 + v))}).Serialization(s)
			})
		}},
		{"relayer_manager registerRelayer", "owner", rm, relayer_manager.REGISTER_RELAYER, func(o common.Address, v int) []byte {
			return ser(func(s *common.ZeroCopySink) {
				(&relayer_manager.RelayerListParam{AddressList: []common.Address{othKey.addr}, Address: o}).Serialization(s)
			})
		}},
		{"relayer_manager approveRegisterRelayer", "owner", rm, relayer_manager.APPROVE_REGISTER_RELAYER, func(o common.Address, v int) []byte {
			return ser(func(s *common.ZeroCopySink) { (&relayer_manager.ApproveRelayerParam{ID: uint64(v), Address: o}).Serialization(s) })
		}},
		{"relayer_manager RemoveRelayer", "owner", rm, relayer_manager.REMOVE_RELAYER, func(o common.Address, v int) []byte {
			return ser(func(s *common.ZeroCopySink) {
				(&relayer_manager.RelayerListParam{AddressList: []common.Address{othKey.addr}, Address: o}).Serialization(s)
			})
		}},
		{"relayer_manager approveRemoveRelayer", "owner", rm, relayer_manager.APPROVE_REMOVE_RELAYER, func(o common.Address, v int) []byte {
			return ser(func(s *common.ZeroCopySink) { (&relayer_manager.ApproveRelayerParam{ID: uint64(v), Address: o}).Serialization(s) })
		}},
		{"neo3_state_manager registerStateValidator", "owner", sv, neo3_state_manager.REGISTER_STATE_VALIDATOR, func(o common.Address, v int) []byte {
			return ser(func(s *common.ZeroCopySink) {
				(&neo3_state_manager.StateValidatorListParam{StateValidators: []string{hex.EncodeToString(candKey.pk)}, Address: o}).Serialization(s)
			})
		}},
		{"neo3_state_manager approveRegisterStateValidator", "owner", sv, neo3_state_manager.APPROVE_REGISTER_STATE_VALIDATOR, func(o common.Address, v int) []byte {
			return ser(func(s *common.ZeroCopySink) {
				(&neo3_state_manager.ApproveStateValidatorParam{ID: uint64(v), Address: o}).Serialization(s)
			})
		}},
		{"neo3_state_manager removeStateValidator", "owner", sv, neo3_state_manager.REMOVE_STATE_VALIDATOR, func(o common.Address, v int) []byte {
			return ser(func(s *common.ZeroCopySink) {
				(&neo3_state_manager.StateValidatorListParam{StateValidators: []string{hex.EncodeToString(candKey.pk)}, Address: o}).Serialization(s)
			})
		}},
		{"neo3_state_manager approveRemoveStateValidator", "owner", sv, neo3_state_manager.APPROVE_REMOVE_STATE_VALIDATOR, func(o common.Address, v int) []byte {
			return ser(func(s *common.ZeroCopySink) {
				(&neo3_state_manager.ApproveStateValidatorParam{ID: uint64(v), Address: o}).Serialization(s)
			})
		}},
		{"signature_manager addSignature", "owner", sm, signature_manager.ADD_SIGNATURE, func(o common.Address, v int) []byte {
			return ser(func(s *common.ZeroCopySink) {
				(&signature_manager.AddSignatureParam{Address: o, SideChainID: routerChain(utils.ETH_ROUTER), Subject: []byte{1, 2, byte(v)}, Signature: []byte{9, 9}}).Serialization(s)
			})
		}},
		{"cross_chain_manager BlackChain", "operator", utils.CrossChainManagerContractAddress, ccmcom.BLACK_CHAIN, func(o common.Address, v int) []byte {
			return ser(func(s *common.ZeroCopySink) { (&ccmcom.BlackChainParam{ChainID: uint64(900 + v)}).Serialization(s) })
		}},
		{"cross_chain_manager WhiteChain", "operator", utils.CrossChainManagerContractAddress, ccmcom.WHITE_CHAIN, func(o common.Address, v int) []byte {
			return ser(func(s *common.ZeroCopySink) { (&ccmcom.BlackChainParam{ChainID: uint64(900 + v)}).Serialization(s) })
		}},
	}
	for _, r := range routers {
		r := r
		specs = append(specs, methodSpec{"header_sync/" + r.pkg + " SyncGenesisHeader", "operator", utils.HeaderSyncContractAddress, hscom.SYNC_GENESIS_HEADER,
			func(o common.Address, v int) []byte {
				hdr := []byte(`{"not":"a header"}`)
				if r.router == utils.BTC_ROUTER {
					hdr = btcGenesisHeader()
				}
				return ser(func(s *common.ZeroCopySink) {
					(&hscom.SyncGenesisHeaderParam{ChainID: routerChain(r.router), GenesisHeader: hdr}).Serialization(s)
				})
			}})
	}
	// methods without a witness guard: signers must not matter at all
	specs = append(specs,
		methodSpec{"header_sync syncBlockHeader", "none", utils.HeaderSyncContractAddress, hscom.SYNC_BLOCK_HEADER, func(o common.Address, v int) []byte {
			return ser(func(s *common.ZeroCopySink) {
				(&hscom.SyncBlockHeaderParam{ChainID: routerChain(utils.ETH_ROUTER), Address: o, Headers: [][]byte{{1, 2, 3}}}).Serialization(s)
			})
		}},
		methodSpec{"side_chain_manager registerRedeem", "none", scm, side_chain_manager.REGISTER_REDEEM, registerRedeemArgs},
		methodSpec{"side_chain_manager setBtcTxParam", "none", scm, side_chain_manager.SET_BTC_TX_PARAM, setBtcTxParamArgs},
		methodSpec{"neo3_state_manager getCurrentStateValidator", "none", sv, neo3_state_manager.GET_CURRENT_STATE_VALIDATOR, func(o common.Address, v int) []byte { return []byte{} }},
	)
	return specs
}

// setupChains registers one side chain per router (owner: ownKey) through the real request + approval methods.
func (w *nworld) setupChains() {
	scm := utils.SideChainManagerContractAddress
	for _, r := range routers {
		id := routerChain(r.router)
		if out := w.invoke([]common.Address{ownKey.addr}, nil, scm, side_chain_manager.REGISTER_SIDE_CHAIN, sideChainParam(ownKey.addr, id, r.router, r.pkg), true); !out.ok {
			panic("setup registerSideChain: " + out.errStr)
		}
		for i := 0; i < (2*w.n+2)/3; i++ {
			args := ser(func(s *common.ZeroCopySink) { (&side_chain_manager.ChainidParam{Chainid: id, Address: valKeys[i].addr}).Serialization(s) })
			if out := w.invoke([]common.Address{valKeys[i].addr}, nil, scm, side_chain_manager.APPROVE_REGISTER_SIDE_CHAIN, args, true); !out.ok {
				panic("setup approveRegisterSideChain: " + out.errStr)
			}
		}
	}
}
