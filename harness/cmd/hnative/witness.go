package main

import (
	"encoding/hex"
	"fmt"
	"os"
	"runtime/pprof"
	"strings"

	"github.com/polynetwork/poly/common"
	"github.com/polynetwork/poly/native"
	"github.com/polynetwork/poly/native/states"
	"polyverif/internal/hx"
)

// Family witness (C18): every registered privileged native method, called on the real contracts (real NativeService,
// CacheDB, overlay on an in-memory LevelDB) under every combination of signers, directly and through calling contracts.
//
//	try|do|seq <id…> <variant> via=<-|A|A,B> signers=<roles> owner=<role> payer=<role|-> | operator=<hex> owneraddr=<hex> signeraddrs=<hex,…|-> due=<0|1> pre=<ok|fail> post=<ok|fail|panic>
//
// `try` executes without persisting, `do` persists a successful call, `seq` calls the method twice in one transaction (directly
// from contract A, then through A -> B.relay); `world <n>` (first op of a case) chooses the number of consensus validators.
// Roles: op (current consensus operator = m-of-n multi-signature address, recomputed here with AddressFromMultiPubKeys),
// opm1 (the (m-1)-of-n address of the same keys), v1..v9 (single validators), own, oth, A, B (the scripted contracts), z (zero address). The fields after `|`
// are what the Lean model needs and cannot compute (addresses are hashes of keys; `post` = outcome of the same call when
// every witness is present, i.e. whether the method's body succeeds once authorised; `pre` = whether the call reaches its
// guard at all, observed with no witness present); the harness recomputes them and
// refuses a line whose fields are stale. Outcome: ok | reject:other | reject:witness w=<writes before the rejection>.

type witness struct {
	candOwner *common.Address // who registered the candidate key candKey (nil: nobody yet in this case)
	n     int                 // consensus validators of the next world (op `world <n>`, default 7)
	w     *nworld
	specs map[string]methodSpec
	order []string
}

func init() {
	families["witness"] = func() hx.Family {
		f := &witness{specs: map[string]methodSpec{}}
		for _, s := range catalogue() {
			f.specs[s.id] = s
			f.order = append(f.order, s.id)
		}
		return f
	}
}

func (f *witness) Reset(r *hx.Run) {
	f.candOwner = nil
	f.n = 7
	f.w.close()
	f.w = nil
}

func (f *witness) ensure() {
	if f.w == nil {
		if f.n == 0 {
			f.n = 7
		}
		f.w = newNWorld(f.n)
		f.w.setupChains()
	}
}

func (f *witness) role(s string) (common.Address, bool) {
	switch s {
	case "op":
		return f.w.operator(), true
	case "opm1": // the (m-1)-of-n multi-signature address of the same keys: one signature short of the operator
		return f.w.operatorShort(), true
	case "own":
		return ownKey.addr, true
	case "oth":
		return othKey.addr, true
	case "z":
		return common.ADDRESS_EMPTY, true
	case "A":
		return addrA, true
	case "B":
		return addrB, true
	}
	if len(s) == 2 && s[0] == 'v' && s[1] >= '1' && s[1] <= '9' {
		return valKeys[s[1]-'1'].addr, true
	}
	return common.Address{}, false
}

func (f *witness) roles(s string) ([]common.Address, bool) {
	if s == "-" {
		return nil, true
	}
	var out []common.Address
	for _, p := range strings.Split(s, ",") {
		a, ok := f.role(p)
		if !ok {
			return nil, false
		}
		out = append(out, a)
	}
	return out, true
}

func kv(tok, key string) (string, bool) {
	if strings.HasPrefix(tok, key+"=") {
		return tok[len(key)+1:], true
	}
	return "", false
}

func ahex(a common.Address) string { return hex.EncodeToString(a[:]) }

func ahexList(as []common.Address) string {
	if len(as) == 0 {
		return "-"
	}
	var p []string
	for _, a := range as {
		p = append(p, ahex(a))
	}
	return strings.Join(p, ",")
}

// allWitnesses: a signer set under which every guard passes.
func (f *witness) allWitnesses(owner common.Address) []common.Address {
	out := []common.Address{f.w.operator(), owner}
	for _, k := range valKeys[:f.w.n] {
		out = append(out, k.addr)
	}
	return out
}

type wcall struct {
	seq     bool // two calls in one transaction: directly from contract A, then through A -> B.relay
	payer   common.Address
	commit  bool
	spec    methodSpec
	variant int
	via     []common.Address
	signers []common.Address
	owner   common.Address
}

func (f *witness) parse(op []string) (c wcall, model []string, ok bool) {
	f.ensure()
	bar := -1
	for i, t := range op {
		if t == "|" {
			bar = i
		}
	}
	if bar < 0 || bar < 8 || (op[0] != "try" && op[0] != "do" && op[0] != "seq") {
		return c, nil, false
	}
	c.commit = op[0] == "do"
	c.seq = op[0] == "seq"
	spec, found := f.specs[op[1]+" "+op[2]]
	if !found {
		return c, nil, false
	}
	c.spec = spec
	if _, err := fmt.Sscan(op[3], &c.variant); err != nil {
		return c, nil, false
	}
	v, ok1 := kv(op[4], "via")
	s, ok2 := kv(op[5], "signers")
	o, ok3 := kv(op[6], "owner")
	py, ok4 := kv(op[7], "payer")
	if !ok1 || !ok2 || !ok3 || !ok4 {
		return c, nil, false
	}
	if py != "-" {
		pa, okp := f.role(py)
		if !okp {
			return c, nil, false
		}
		c.payer = pa
	}
	var okk bool
	if c.via, okk = f.roles(v); !okk {
		return c, nil, false
	}
	if c.signers, okk = f.roles(s); !okk {
		return c, nil, false
	}
	if c.owner, okk = f.role(o); !okk {
		return c, nil, false
	}
	return c, op[bar+1:], true
}

// code builds the invoke code of the transaction of a call.
func (f *witness) code(c wcall) []byte {
	if !c.seq {
		return relayCode(c.via, c.spec.contract, c.spec.method, c.spec.args(c.owner, c.variant))
	}
	// A.seq [ G(variant) ; B.relay(G(variant+1)) ]: the second call reaches the guarded method through another frame
	first := invokeCode(c.spec.contract, c.spec.method, c.spec.args(c.owner, c.variant))
	second := relayCode([]common.Address{addrB}, c.spec.contract, c.spec.method, c.spec.args(c.owner, c.variant+1))
	return invokeCode(addrA, "seq", seqArgs(first, second))
}

// codeAuthorised: the same bodies, every call made directly by A (so that both guards pass when the owner is A or signed).
func (f *witness) codeAuthorised(c wcall) []byte {
	if !c.seq {
		return f.code(c)
	}
	first := invokeCode(c.spec.contract, c.spec.method, c.spec.args(c.owner, c.variant))
	second := invokeCode(c.spec.contract, c.spec.method, c.spec.args(c.owner, c.variant+1))
	return invokeCode(addrA, "seq", seqArgs(first, second))
}

func seqArgs(a, b []byte) []byte {
	s := common.NewZeroCopySink(nil)
	s.WriteVarBytes(a)
	s.WriteVarBytes(b)
	return s.Bytes()
}

// seqHandler (scripted contracts): two nested calls in one transaction, errors propagate.
func seqHandler(s *native.NativeService) ([]byte, error) {
	src := common.NewZeroCopySource(s.GetInput())
	var last []byte
	for i := 0; i < 2; i++ {
		raw, eof := src.NextVarBytes()
		if eof {
			return nil, errParse
		}
		p := new(states.ContractInvokeParam)
		if err := p.Deserialization(common.NewZeroCopySource(raw)); err != nil {
			return nil, err
		}
		res, err := s.NativeCall(p.Address, p.Method, p.Args)
		if err != nil {
			return nil, err
		}
		b, ok := res.([]byte)
		if !ok {
			return nil, fmt.Errorf("seq: nested call returned %T", res)
		}
		last = b
	}
	return last, nil
}

// modelFields recomputes what the model is told about this call.
func (f *witness) modelFields(c wcall) []string {
	due := "0"
	if f.w.due() {
		due = "1"
	}
	post := "fail"
	if o := f.w.invokeCodeTx(f.allWitnesses(c.owner), common.ADDRESS_EMPTY, f.codeAuthorised(c), false); o.ok {
		post = "ok"
	} else if o.panicked {
		post = "panic"
	}
	if c.seq {
		// for the two calls of a `seq`: <does the first body succeed once authorised>/<do both>
		first := "fail"
		code1 := relayCode([]common.Address{addrA}, c.spec.contract, c.spec.method, c.spec.args(c.owner, c.variant))
		if o := f.w.invokeCodeTx(f.allWitnesses(c.owner), common.ADDRESS_EMPTY, code1, false); o.ok {
			first = "ok"
		} else if o.panicked {
			first = "panic"
		}
		post = first + "/" + post
	}
	// does the call get as far as its witness guard? (some handlers validate stored configuration first): without any
	// signer and without calling contract no guard passes, so anything but a witness rejection happened before it
	pre := "ok"
	if post != "ok" && post != "ok/ok" {
		if o := f.w.invoke(nil, nil, c.spec.contract, c.spec.method, c.spec.args(c.owner, c.variant), false); o.class() != "reject:witness" && !(c.seq && o.ok) {
			pre = "fail"
		}
	}
	return []string{"operator=" + ahex(f.w.operator()), "owneraddr=" + ahex(c.owner), "signeraddrs=" + ahexList(c.signers), "due=" + due, "pre=" + pre, "post=" + post}
}

func (f *witness) Exec(r *hx.Run, op []string) string {
	if len(op) == 2 && op[0] == "height" && allDigits(op[1]) {
		f.ensure()
		var n uint32
		fmt.Sscan(op[1], &n)
		f.w.height += n
		return "ok"
	}
	if len(op) == 2 && op[0] == "world" && allDigits(op[1]) {
		var n int
		fmt.Sscan(op[1], &n)
		if n < 4 || n > 9 || f.w != nil {
			return "bad-op" // only as the first op of a case
		}
		f.n = n
		f.ensure()
		return "ok"
	}
	if op[0] == "sigtx" {
		return f.execSigTx(r, op)
	}
	c, model, ok := f.parse(op)
	if !ok {
		return "bad-op"
	}
	// stale model fields: the line was recorded on another tree or state (replay of a finding after the code changed).
	// The call is still executed and the property evaluated on its real outcome; the outcome line says `stale-op` because
	// a comparison with a model fed with outdated observations would be meaningless.
	stale := strings.Join(model, " ") != strings.Join(f.modelFields(c), " ")
	opBefore, dueBefore := f.w.operator(), f.w.due()
	out := f.w.invokeCodeTx(c.signers, c.payer, f.code(c), c.commit)
	cls := out.class()
	if out.panicked {
		r.Hist("handler-panic." + c.spec.id)
	}
	// the property, on the real outcome: a privileged method must not succeed without the witness it is reserved to
	var required common.Address
	need := true
	switch c.spec.want {
	case "operator":
		required = opBefore
	case "operatorOrDue":
		required = opBefore
		need = !dueBefore
	case "owner":
		required = c.owner
	default:
		need = false
	}
	has := false
	for _, s := range c.signers {
		if s == required {
			has = true
		}
	}
	if !c.seq && len(c.via) > 0 && c.via[len(c.via)-1] == required && required != common.ADDRESS_EMPTY {
		has = true // the immediately calling contract
	}
	if c.seq && required == addrB {
		has = true // the second call is made by B
	}
	id := strings.ReplaceAll(c.spec.id, " ", ".")
	if out.ok && need && !has && c.seq {
		r.Viol("C18:witness-outlives-frame:"+id, fmt.Sprintf("%s was called twice in one transaction, directly by contract A and then through A -> B; both calls succeeded although the second one has neither a signature of %x nor that address as its immediate caller",
			c.spec.id, required[:]))
	} else if out.ok && need && !has {
		r.Viol("C18:no-witness-required:"+id, fmt.Sprintf("%s succeeded for signers [%s] via [%s] although it is reserved to %s %x (which neither signed nor is the calling contract)",
			c.spec.id, op[5], op[4], c.spec.want, required[:]))
	}
	// owner-only operations on an existing record: the witnessed owner must also be the owner stored with the record
	if out.ok {
		var stored *common.Address
		switch c.spec.id {
		case "side_chain_manager updateSideChain", "side_chain_manager quitSideChain":
			stored = &ownKey.addr // every side chain of this world was registered by `own`
		case "node_manager quitNode":
			stored = &valKeys[3+c.variant%3].addr
		case "node_manager unRegisterCandidate":
			stored = f.candOwner
		}
		if stored != nil && *stored != c.owner {
			r.Viol("C18:not-stored-owner:"+id, fmt.Sprintf("%s succeeded for owner %x although the record belongs to %x", c.spec.id, c.owner[:], (*stored)[:]))
		}
		if c.commit && c.spec.id == "node_manager registerCandidate" && c.variant != 1 {
			o := c.owner
			f.candOwner = &o
		}
	}
	if c.seq && cls == "reject:witness" && !stale {
		return "reject:witness" // the first of the two calls may have written before the second one was refused
	}
	if stale {
		if !c.seq && cls == "reject:witness" && out.writes != 0 {
			r.Viol("C18:write-before-guard:"+id, fmt.Sprintf("%s was rejected for lack of witness after writing %d storage entries", c.spec.id, out.writes))
		}
		return "stale-op"
	}
	if cls == "reject:witness" {
		if out.writes != 0 {
			r.Viol("C18:write-before-guard:"+id, fmt.Sprintf("%s was rejected for lack of witness after writing %d storage entries", c.spec.id, out.writes))
		}
		return fmt.Sprintf("reject:witness w=%d", out.writes)
	}
	return cls
}

func (f *witness) line(kind, id string, variant int, via, signers, owner string) string {
	return f.lineP(kind, id, variant, via, signers, owner, "-")
}

func (f *witness) lineP(kind, id string, variant int, via, signers, owner, payer string) string {
	head := fmt.Sprintf("%s %s %d via=%s signers=%s owner=%s payer=%s", kind, id, variant, via, signers, owner, payer)
	c, _, ok := f.parse(append(strings.Fields(head), "|", "x"))
	if !ok {
		panic("generator produced an unparsable line: " + head)
	}
	return head + " | " + strings.Join(f.modelFields(c), " ")
}

func (f *witness) Gen(r *hx.Run) {
	if p := os.Getenv("HNATIVE_PROF"); p != "" {
		pf, _ := os.Create(p)
		pprof.StartCPUProfile(pf)
		defer pprof.StopCPUProfile()
	}
	r.Rule("every method of the guard table that can be invoked (27 governance/cross-chain methods, SyncGenesisHeader for 21 routers, 2 unguarded controls) x signer sets {-, op, each single validator, three validators, own, oth, op+own, oth+own, the zero address} x owner role x direct / through one / through two calling contracts, on a state with 4 consensus validators and a registered side chain per router; successful calls of the stateful walk are persisted, so later calls see candidates, requests and approvals; distinct non-trivial = distinct (method, signer set, owner role, via, outcome)")
	signerSets := []string{"-", "op", "v1", "v2", "v1,v2,v3", "own", "oth", "op,own", "oth,own", "z", "v4", "op,oth", "opm1"}
	owners := []string{"own", "oth", "v1", "v4", "op", "A", "z"}
	vias := []string{"-", "A", "B", "A,B", "B,A", "A,A"}
	doP := func(kind, id string, variant int, via, signers, owner, payer string) string {
		f.ensure()
		l := f.lineP(kind, id, variant, via, signers, owner, payer)
		res := r.Do(l)
		r.Nontrivial(kind + "/" + id + "/" + signers + "/" + owner + "/" + via + "/" + payer + "/" + res)
		r.Hist("class." + strings.Fields(res)[0])
		r.Hist("method." + id)
		if kind == "seq" {
			r.Hist("two-calls-one-tx")
		}
		if payer != "-" {
			r.Hist("payer-named")
		}
		return res
	}
	do := func(caseID string, kind, id string, variant int, via, signers, owner string) string {
		return doP(kind, id, variant, via, signers, owner, "-")
	}
	// systematic: every method x every signer set, owner = own, direct; nothing persisted
	cid := 0
	for _, id := range f.order {
		cid++
		r.Case(fmt.Sprintf("matrix-%d-%s", cid, strings.ReplaceAll(id, " ", ".")))
		for _, s := range signerSets {
			do("", "try", id, 0, "-", s, "own")
		}
		// the owner named by the parameters is somebody else
		for _, o := range []string{"oth", "v1", "op"} {
			do("", "try", id, 0, "-", "own", o)
			do("", "try", id, 0, "-", o, o)
		}
		// calling-context path: the owner is the calling contract, the immediate one or a deeper one
		for _, v := range vias[1:] {
			do("", "try", id, 0, v, "-", "A")
			do("", "try", id, 0, v, "own", "own")
		}
		// the transaction's payer field names the owner / the operator, the signer is a stranger or nobody
		for _, py := range []string{"own", "op"} {
			doP("try", id, 0, "-", "oth", "own", py)
			doP("try", id, 0, "-", "-", "own", py)
		}
		doP("try", id, 0, "-", "own", "own", "oth")
		// two calls in one transaction: directly by contract A, then through A -> B (a witness obtained in the first frame
		// must not carry over)
		for _, so := range [][2]string{{"-", "A"}, {"-", "own"}, {"own", "own"}, {"-", "B"}, {"op", "A"}} {
			if f.specs[id].want != "operatorOrDue" {
				doP("seq", id, 0, "-", so[0], so[1], "-")
			}
		}
	}
	// the operator address for 4..9 consensus validators: the m-of-n multi-signature address (m = n - (n-1)/3, computed here
	// with AddressFromMultiPubKeys), and the (m-1)-of-n address of the same keys, which must be refused
	for n := 4; n <= 9; n++ {
		cid++
		r.Case(fmt.Sprintf("validators-%d", n))
		f.n = n
		r.Do(fmt.Sprintf("world %d", n))
		for _, id := range f.order {
			if w := f.specs[id].want; w != "operator" && w != "operatorOrDue" {
				continue
			}
			if strings.HasPrefix(id, "header_sync/") && id != "header_sync/eth SyncGenesisHeader" && id != "header_sync/btc SyncGenesisHeader" {
				continue
			}
			for _, s := range []string{"op", "opm1", "-", "v1", "v1,v2,v3", "opm1,oth"} {
				do("", "try", id, 0, "-", s, "own")
			}
		}
		r.Nontrivial(fmt.Sprintf("validators/%d", n))
	}
	f.genSigTx(r, &cid)
	// stateful walks: successful calls are persisted
	n := r.Pick(12, 400)
	for w := 0; w < n; w++ {
		cid++
		r.Case(fmt.Sprintf("walk-%d", cid))
		f.n = 4 + r.Rng.Intn(6)
		r.Do(fmt.Sprintf("world %d", f.n))
		steps := r.Pick(40, 120)
		for i := 0; i < steps; i++ {
			id := f.order[r.Rng.Intn(len(f.order))]
			kind := "do"
			if r.Rng.Chance(1, 3) {
				kind = "try"
			}
			via := "-"
			if r.Rng.Chance(1, 5) {
				via = vias[r.Rng.Intn(len(vias))]
			}
			owner := owners[r.Rng.Intn(len(owners))]
			signers := signerSets[r.Rng.Intn(len(signerSets))]
			if r.Rng.Chance(2, 5) { // mostly-valid: the right witness
				switch f.specs[id].want {
				case "owner":
					signers = owner
					if owner == "A" || owner == "z" {
						signers = "own"
					}
				default:
					signers = "op"
				}
			}
			if i == 20 { // let the epoch become due in the second half of some walks
				if r.Rng.Bool() {
					r.Do("height 60000")
				}
			}
			payer := "-"
			if r.Rng.Chance(1, 6) {
				payer = []string{"own", "op", "oth", "v1"}[r.Rng.Intn(4)]
			}
			if r.Rng.Chance(1, 10) && f.specs[id].want != "operatorOrDue" {
				// (not for CommitDpos: its first call changes the view height, so `due` differs between the two calls of
				// one transaction, which a per-line `due` field cannot express)
				kind, via = "seq", "-"
			}
			doP(kind, id, r.Rng.Intn(3), via, signers, owner, payer)
		}
	}
}
