package main

import (
	"fmt"
	"sort"
	"strings"

	"github.com/ontio/ontology-crypto/keypair"
	sg "github.com/ontio/ontology-crypto/signature"
	"github.com/polynetwork/poly/account"
	"github.com/polynetwork/poly/common"
	"github.com/polynetwork/poly/core/signature"
	"github.com/polynetwork/poly/core/types"
	"github.com/polynetwork/poly/core/validation"
	ontErrors "github.com/polynetwork/poly/errors"
	"polyverif/internal/hx"
)

// Part of family witness (C18): transactions that carry REAL signature entries and go through the real
// validation.VerifyTransaction (checkTransactionSignatures), which is what fills tx.SignedAddr on a node, before the
// privileged method is invoked. Nothing is injected into SignedAddr here.
//
//	sigtx <id…> <variant> owner=<role> entries=<E>[+<E>…] | operator=<hex> owneraddr=<hex> eaddrs=<hex,…> due= pre= post=
//	  <E> ::= <keys>/<m>/<sigs>   keys, sigs: strings over 1..9 (validators), a (own), b (oth); in sigs also
//	                              x (undecodable bytes) and w (a well-formed signature of another message)
//
// Outcome: `sigerr` when the validator refuses the transaction (it would never enter a block), else as for try/do.
// `eaddrs` = the address of each entry (AddressFromPubKey / AddressFromMultiPubKeys), for the model, whose signer set
// is computed by the Lean model of checkTransactionSignatures (Poly.Model.Sig) from the entries.

func keyOfChar(c byte) (keyRec, bool) {
	switch {
	case c >= '1' && c <= '9':
		return valKeys[c-'1'], true
	case c == 'a':
		return ownKey, true
	case c == 'b':
		return othKey, true
	}
	return keyRec{}, false
}

func signerOf(k keyRec) *account.Account {
	return &account.Account{PrivateKey: k.priv, PublicKey: k.pub, Address: k.addr, SigScheme: sg.SHA256withECDSA}
}

type sigEntry struct {
	keys []keyRec
	m    int
	sigs string
}

func parseEntries(s string) ([]sigEntry, bool) {
	var out []sigEntry
	for _, e := range strings.Split(s, "+") {
		p := strings.Split(e, "/")
		if len(p) != 3 || !allDigits(p[1]) || p[0] == "" {
			return nil, false
		}
		var se sigEntry
		for i := 0; i < len(p[0]); i++ {
			k, ok := keyOfChar(p[0][i])
			if !ok {
				return nil, false
			}
			se.keys = append(se.keys, k)
		}
		fmt.Sscan(p[1], &se.m)
		if se.m > 60000 {
			return nil, false
		}
		if p[2] != "-" {
			se.sigs = p[2]
		}
		for i := 0; i < len(se.sigs); i++ {
			if _, ok := keyOfChar(se.sigs[i]); !ok && se.sigs[i] != 'x' && se.sigs[i] != 'w' {
				return nil, false
			}
		}
		out = append(out, se)
	}
	return out, true
}

func entryAddr(e sigEntry) common.Address {
	var pks []keypair.PublicKey
	for _, k := range e.keys {
		pks = append(pks, k.pub)
	}
	if len(pks) == 1 {
		return types.AddressFromPubKey(pks[0])
	}
	a, _ := types.AddressFromMultiPubKeys(pks, e.m)
	return a
}

func (f *witness) execSigTx(r *hx.Run, op []string) string {
	f.ensure()
	bar := -1
	for i, t := range op {
		if t == "|" {
			bar = i
		}
	}
	if bar != 6 || len(op) != bar+7 {
		return "bad-op"
	}
	spec, found := f.specs[op[1]+" "+op[2]]
	if !found {
		return "bad-op"
	}
	var variant int
	if _, err := fmt.Sscan(op[3], &variant); err != nil {
		return "bad-op"
	}
	o, ok1 := kv(op[4], "owner")
	es, ok2 := kv(op[5], "entries")
	if !ok1 || !ok2 {
		return "bad-op"
	}
	owner, ok := f.role(o)
	if !ok {
		return "bad-op"
	}
	entries, ok := parseEntries(es)
	if !ok {
		return "bad-op"
	}
	c := wcall{spec: spec, variant: variant, owner: owner}
	stale := strings.Join(op[bar+1:], " ") != strings.Join(f.sigModelFields(c, entries), " ")
	// the transaction with real signature entries
	code := f.code(c)
	f.w.nonce++
	tx := rawInvokeTxPayer(code, f.w.nonce, nil, common.ADDRESS_EMPTY)
	hash := tx.Hash()
	for _, e := range entries {
		s := types.Sig{M: uint16(e.m)}
		for _, k := range e.keys {
			s.PubKeys = append(s.PubKeys, k.pub)
		}
		for i := 0; i < len(e.sigs); i++ {
			switch ch := e.sigs[i]; ch {
			case 'x':
				s.SigData = append(s.SigData, []byte{0xff, 0x01, 0x02})
			case 'w':
				b, err := signature.Sign(signerOf(valKeys[0]), []byte("another message"))
				if err != nil {
					return "err-sign"
				}
				s.SigData = append(s.SigData, b)
			default:
				k, _ := keyOfChar(ch)
				b, err := signature.Sign(signerOf(k), hash[:])
				if err != nil {
					return "err-sign"
				}
				s.SigData = append(s.SigData, b)
			}
		}
		tx.Sigs = append(tx.Sigs, s)
	}
	tx.SignedAddr = nil
	if code := validation.VerifyTransaction(tx); code != ontErrors.ErrNoError {
		if stale {
			return "stale-op"
		}
		return "sigerr"
	}
	// what the validator attributed must be exactly the addresses of the entries
	want := map[common.Address]bool{}
	for _, e := range entries {
		want[entryAddr(e)] = true
	}
	got := map[common.Address]bool{}
	for _, a := range tx.SignedAddr {
		got[a] = true
	}
	same := len(got) == len(want) && len(got) == len(tx.SignedAddr)
	for a := range want {
		same = same && got[a]
	}
	if !same {
		r.Viol("C18:signed-addr-not-entry-addresses", fmt.Sprintf("the validator attributed signers %x to a transaction whose entries have the addresses %x", tx.SignedAddr, keysOf(want)))
	}
	opBefore, dueBefore := f.w.operator(), f.w.due()
	out := f.w.invokeTxObj(tx, code, false)
	cls := out.class()
	var required common.Address
	need := true
	switch spec.want {
	case "operator":
		required = opBefore
	case "operatorOrDue":
		required = opBefore
		need = !dueBefore
	case "owner":
		required = owner
	default:
		need = false
	}
	id := strings.ReplaceAll(spec.id, " ", ".")
	if out.ok && need && !want[required] {
		r.Viol("C18:no-witness-required:"+id, fmt.Sprintf("%s succeeded for a transaction whose verified signature entries %s have the addresses %x, none of which is the %s address %x",
			spec.id, es, keysOf(want), spec.want, required[:]))
	}
	if stale {
		return "stale-op"
	}
	if cls == "reject:witness" {
		if out.writes != 0 {
			r.Viol("C18:write-before-guard:"+id, fmt.Sprintf("%s was rejected for lack of witness after writing %d storage entries", spec.id, out.writes))
		}
		return fmt.Sprintf("reject:witness w=%d", out.writes)
	}
	return cls
}

func keysOf(m map[common.Address]bool) []string {
	var l []string
	for a := range m {
		l = append(l, ahex(a))
	}
	sort.Strings(l)
	return l
}

func (f *witness) sigModelFields(c wcall, entries []sigEntry) []string {
	base := f.modelFields(c) // operator owneraddr signeraddrs due pre post
	var ea []string
	for _, e := range entries {
		ea = append(ea, ahex(entryAddr(e)))
	}
	return []string{base[0], base[1], "eaddrs=" + strings.Join(ea, ","), base[3], base[4], base[5]}
}

func (f *witness) sigLine(id string, variant int, owner, entries string) string {
	head := fmt.Sprintf("sigtx %s %d owner=%s entries=%s", id, variant, owner, entries)
	f.ensure()
	ow, _ := f.role(owner)
	es, ok := parseEntries(entries)
	if !ok {
		panic("generator produced bad entries: " + entries)
	}
	c := wcall{spec: f.specs[id], variant: variant, owner: ow}
	return head + " | " + strings.Join(f.sigModelFields(c, es), " ")
}

// genSigTx: for n = 4..9 consensus validators, the operator-guarded methods with real multi-signature entries.
func (f *witness) genSigTx(r *hx.Run, cid *int) {
	do := func(id string, owner, entries string) string {
		res := r.Do(f.sigLine(id, 0, owner, entries))
		r.Nontrivial("sigtx/" + id + "/" + entries + "/" + res)
		r.Hist("sigtx." + strings.Fields(res)[0])
		return res
	}
	for n := 4; n <= 9; n++ {
		*cid++
		r.Case(fmt.Sprintf("sigtx-validators-%d", n))
		f.n = n
		r.Do(fmt.Sprintf("world %d", n))
		all := "123456789"[:n]
		m := n - (n-1)/3
		for _, id := range f.order {
			w := f.specs[id].want
			isOp := w == "operator" || w == "operatorOrDue"
			if isOp && strings.HasPrefix(id, "header_sync/") && id != "header_sync/eth SyncGenesisHeader" && id != "header_sync/btc SyncGenesisHeader" {
				continue
			}
			if !isOp && id != "node_manager registerCandidate" && id != "relayer_manager registerRelayer" && id != "side_chain_manager registerSideChain" {
				continue
			}
			e := func(keys string, mm int, sigs string) string { return fmt.Sprintf("%s/%d/%s", keys, mm, sigs) }
			cases := []string{
				e(all, m, all[:m]),              // the operator: m of n signatures
				e(all, m, all[n-m:]),            // another m signers
				e(all, m, all),                  // all n sign
				e(all, m, all[:m-1]),            // one signature short: refused by the validator
				e(all, m-1, all[:m-1]),          // a valid (m-1)-of-n entry: another address
				e(all, m, all[:m-1]+all[:1]),    // m signatures, but one key signed twice
				e(all, m, all[:m-1]+"b"),        // m signatures, one by a key that is not listed
				e(all, m, all[:m-1]+"w"),        // m signatures, one over another message
				e(all, m, "x"+all[:m-1]),        // an undecodable signature
				e(all[:n-1], (n-1)-(n-2)/3, all[:n-1]), // the validators without the last one: another address
				e(all+"b", m, all[:m]),          // the validators plus a stranger's key
				e("a", 1, "a"),                  // the owner alone
				e("b", 1, "b"),                  // a stranger alone
				e("a", 1, "b"),                  // the owner's key, signed by somebody else
				e(all, m, all[:m]) + "+" + e("b", 1, "b"), // the operator and a stranger
				e("a", 1, "a") + "+" + e("b", 1, "b"),
			}
			// every validator signs alone: m valid single-key entries are not the operator
			var singles []string
			for i := 0; i < m; i++ {
				singles = append(singles, e(all[i:i+1], 1, all[i:i+1]))
			}
			cases = append(cases, strings.Join(singles, "+"))
			for _, c := range cases {
				do(id, "own", c)
			}
		}
	}
}
