package main

import (
	"math/big"

	"github.com/btcsuite/btcd/btcec"
	"github.com/btcsuite/btcd/chaincfg"
	"github.com/btcsuite/btcd/txscript"
	"github.com/btcsuite/btcutil"
	"github.com/polynetwork/poly/common"
	"github.com/polynetwork/poly/native/service/governance/side_chain_manager"
	"github.com/polynetwork/poly/native/service/utils"
)

// RegisterRedeem / SetBtcTxParam parameters signed by the cosigners of a 2-of-3 BTC redeem script (deterministic keys).
// Cosigner 0 contributes TWO different valid signatures of the same message (the second one is the first with s
// replaced by n - s), cosigner 1 one: which of the two ends up stored for cosigner 0 must not depend on anything but
// their order in the parameters.

func btcKey(seed int64) *btcec.PrivateKey {
	d := big.NewInt(seed)
	d.Mul(d, big.NewInt(0x9E3779B1))
	d.Add(d, big.NewInt(0x7654321))
	priv, _ := btcec.PrivKeyFromBytes(btcec.S256(), d.Bytes())
	return priv
}

var btcCosigners = []*btcec.PrivateKey{btcKey(31), btcKey(32), btcKey(33)}

func redeemScript() []byte {
	var addrs []*btcutil.AddressPubKey
	for _, k := range btcCosigners {
		a, err := btcutil.NewAddressPubKey(k.PubKey().SerializeCompressed(), &chaincfg.TestNet3Params)
		if err != nil {
			panic(err)
		}
		addrs = append(addrs, a)
	}
	s, err := txscript.MultiSigScript(addrs, 2)
	if err != nil {
		panic(err)
	}
	return s
}

// btcSigs: signatures of cosigner 0 (two different ones, repeated) and of cosigner 1, in an order chosen by the variant.
func btcSigs(hash []byte, variant int) [][]byte {
	s0, err := btcCosigners[0].Sign(hash)
	if err != nil {
		panic(err)
	}
	s0b := &btcec.Signature{R: new(big.Int).Set(s0.R), S: new(big.Int).Sub(btcec.S256().N, s0.S)}
	s1, err := btcCosigners[1].Sign(hash)
	if err != nil {
		panic(err)
	}
	a, b, c := s0.Serialize(), s0b.Serialize(), s1.Serialize()
	// the two signatures of cosigner 0 alternate several times: the stored one is the last in parameter order
	switch variant % 3 {
	case 0:
		return [][]byte{a, b, a, b, a, b, c}
	case 1:
		return [][]byte{b, c, a, b, a, b, a}
	}
	return [][]byte{c, a, b, b, a, a, b}
}

func registerRedeemArgs(o common.Address, v int) []byte {
	p := &side_chain_manager.RegisterRedeemParam{RedeemChainID: 1, ContractChainID: 2, Redeem: redeemScript(), CVersion: uint64(v / 3),
		ContractAddress: []byte{0xc0, byte(v)}}
	hash := btcutil.Hash160(append(append(append(append(append([]byte{}, p.Redeem...), utils.GetUint64Bytes(p.RedeemChainID)...), p.ContractAddress...),
		utils.GetUint64Bytes(p.ContractChainID)...), utils.GetUint64Bytes(p.CVersion)...))
	p.Signs = btcSigs(hash, v)
	return ser(func(s *common.ZeroCopySink) { p.Serialization(s) })
}

func setBtcTxParamArgs(o common.Address, v int) []byte {
	p := &side_chain_manager.BtcTxParam{Redeem: redeemScript(), RedeemChainId: 1,
		Detial: &side_chain_manager.BtcTxParamDetial{PVersion: uint64(v / 3), FeeRate: 10, MinChange: uint64(2000 + v)}}
	hash := btcutil.Hash160(append(append(append(append(append([]byte{}, p.Redeem...), utils.GetUint64Bytes(p.RedeemChainId)...), utils.GetUint64Bytes(p.Detial.FeeRate)...),
		utils.GetUint64Bytes(p.Detial.MinChange)...), utils.GetUint64Bytes(p.Detial.PVersion)...))
	p.Sigs = btcSigs(hash, v)
	return ser(func(s *common.ZeroCopySink) { p.Serialization(s) })
}
