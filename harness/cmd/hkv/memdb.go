package main

import (
	"bytes"
	"fmt"
	"sort"
	"strings"

	"github.com/polynetwork/poly/core/store/overlaydb"
	"github.com/syndtr/goleveldb/leveldb/iterator"
	"github.com/syndtr/goleveldb/leveldb/util"
	"polyverif/internal/hx"
)

// Family memdb (C09): the real overlaydb.MemDB and its iterator against the model (drv_kv memdb) and against
// a reference kept in a plain Go map.
//
//	put k v | del k            -> ok
//	get k                      -> known:<v> | absent | unknown
//	find k                     -> <key> <val> | notfound
//	len                        -> n=<Len()> size=<Size()>
//	foreach                    -> k:v,k:v,... | []
//	reset                      -> ok          (releases and forgets every open iterator first)
//	iter id noslice|<start> <limit>   (nil = nil slice, - = empty non-nil slice)
//	first|last|next|prev id, seek id k -> <t|f> <key> <val> <valid|invalid> <err|noerr>
//	release id                 -> ok
//	scan / rscan noslice|<start> <limit> -> entries of a fresh iterator walked First/Next (Last/Prev)
type memdbFam struct {
	db    *overlaydb.MemDB
	ref   map[string][]byte
	iters map[string]*refIter
}

type refIter struct {
	it    iterator.Iterator
	slice *util.Range
}

func init() { families["memdb"] = func() hx.Family { return &memdbFam{} } }

func (f *memdbFam) Reset(r *hx.Run) {
	f.db = overlaydb.NewMemDB(64, 2) // tiny capacities: force growth of both arenas
	f.ref = map[string][]byte{}
	f.iters = map[string]*refIter{}
}

func optBytes(s string) []byte {
	if s == "nil" {
		return nil
	}
	return hx.UnHex(s)
}

func parseSlice(toks []string) *util.Range {
	if len(toks) == 1 && toks[0] == "noslice" {
		return nil
	}
	if len(toks) != 2 {
		panic("bad slice")
	}
	return &util.Range{Start: optBytes(toks[0]), Limit: optBytes(toks[1])}
}

type kv struct{ k, v []byte }

func showKVs(l []kv) string {
	if len(l) == 0 {
		return "[]"
	}
	parts := make([]string, len(l))
	for i, e := range l {
		parts[i] = hx.Hex(e.k) + ":" + hx.Hex(e.v)
	}
	return strings.Join(parts, ",")
}

// refSorted returns the reference contents in byte order, restricted to the slice.
func refSorted(ref map[string][]byte, sl *util.Range) []kv {
	keys := make([]string, 0, len(ref))
	for k := range ref {
		keys = append(keys, k)
	}
	sort.Slice(keys, func(i, j int) bool { return bytes.Compare([]byte(keys[i]), []byte(keys[j])) < 0 })
	var out []kv
	for _, k := range keys {
		if sl != nil {
			if sl.Start != nil && bytes.Compare([]byte(k), sl.Start) < 0 {
				continue
			}
			if sl.Limit != nil && bytes.Compare([]byte(k), sl.Limit) >= 0 {
				continue
			}
		}
		out = append(out, kv{[]byte(k), ref[k]})
	}
	return out
}

func sameKVs(a, b []kv) bool {
	if len(a) != len(b) {
		return false
	}
	for i := range a {
		if !bytes.Equal(a[i].k, b[i].k) || !bytes.Equal(a[i].v, b[i].v) {
			return false
		}
	}
	return true
}

func showIt(ok bool, it iterator.Iterator) string {
	b := "f"
	if ok {
		b = "t"
	}
	v := "invalid"
	if it.Valid() {
		v = "valid"
	}
	e := "noerr"
	if it.Error() != nil {
		e = "err"
	}
	return fmt.Sprintf("%s %s %s %s %s", b, hx.Hex(it.Key()), hx.Hex(it.Value()), v, e)
}

func sliceName(sl *util.Range) string {
	if sl == nil {
		return "noslice"
	}
	n := func(b []byte) string {
		if b == nil {
			return "nil"
		}
		return "set"
	}
	return n(sl.Start) + "/" + n(sl.Limit)
}

// expectAt checks that the iterator sits on want (nil = must be invalid).
func (f *memdbFam) expectAt(r *hx.Run, what string, ri *refIter, ok bool, want *kv) {
	it := ri.it
	if want == nil {
		if ok || it.Valid() {
			r.Viol("C09:iter-"+what+":should-be-exhausted:"+sliceName(ri.slice),
				fmt.Sprintf("%s positioned the iterator on key %x but the byte-ordered reference map has no such entry in range", what, it.Key()))
		}
		return
	}
	if !ok || !it.Valid() || !bytes.Equal(it.Key(), want.k) || !bytes.Equal(it.Value(), want.v) {
		r.Viol("C09:iter-"+what+":wrong-entry:"+sliceName(ri.slice),
			fmt.Sprintf("%s returned %v at (%x,%x); the byte-ordered reference map says (%x,%x)", what, ok, it.Key(), it.Value(), want.k, want.v))
	}
}

func (f *memdbFam) Exec(r *hx.Run, op []string) string {
	switch op[0] {
	case "put":
		k, v := hx.UnHex(op[1]), hx.UnHex(op[2])
		f.db.Put(k, v)
		f.ref[string(k)] = append([]byte{}, v...)
		return "ok"
	case "del":
		k := hx.UnHex(op[1])
		f.db.Delete(k)
		f.ref[string(k)] = []byte{}
		return "ok"
	case "get":
		k := hx.UnHex(op[1])
		v, unknown := f.db.Get(k)
		rv, written := f.ref[string(k)]
		var res, want string
		switch {
		case unknown:
			res = "unknown"
		case len(v) == 0:
			res = "absent"
		default:
			res = "known:" + hx.Hex(v)
		}
		switch {
		case !written:
			want = "unknown"
		case len(rv) == 0:
			want = "absent"
		default:
			want = "known:" + hx.Hex(rv)
		}
		if unknown && v != nil {
			r.Viol("C09:get-unknown-with-value", "Get returned unknown together with a value")
		}
		if res != want {
			r.Viol("C09:get-differs-from-map:"+want[:3]+"-read-as-"+res[:3],
				fmt.Sprintf("Get(%x) = %s but the reference map says %s", k, res, want))
		}
		return res
	case "find":
		k := hx.UnHex(op[1])
		rk, rv, err := f.db.Find(k)
		all := refSorted(f.ref, &util.Range{Start: k})
		if err != nil {
			if len(all) != 0 {
				r.Viol("C09:find-missed", fmt.Sprintf("Find(%x) found nothing, reference has %x", k, all[0].k))
			}
			return "notfound"
		}
		if len(all) == 0 || !bytes.Equal(all[0].k, rk) || !bytes.Equal(all[0].v, rv) {
			r.Viol("C09:find-wrong", fmt.Sprintf("Find(%x) = (%x,%x) differs from the reference", k, rk, rv))
		}
		return hx.Hex(rk) + " " + hx.Hex(rv)
	case "len":
		n, size := f.db.Len(), f.db.Size()
		wn, ws := len(f.ref), 0
		for k, v := range f.ref {
			ws += len(k) + len(v)
		}
		if n != wn || size != ws {
			r.Viol("C09:len-size-accounting", fmt.Sprintf("Len/Size = %d/%d, reference %d/%d", n, size, wn, ws))
		}
		return fmt.Sprintf("n=%d size=%d", n, size)
	case "foreach":
		var got []kv
		f.db.ForEach(func(k, v []byte) { got = append(got, kv{append([]byte{}, k...), append([]byte{}, v...)}) })
		if !sameKVs(got, refSorted(f.ref, nil)) {
			r.Viol("C09:foreach-differs", "ForEach does not enumerate the reference map in byte order: "+showKVs(got))
		}
		return showKVs(got)
	case "reset":
		for _, ri := range f.iters {
			ri.it.Release()
		}
		f.iters = map[string]*refIter{}
		f.db.Reset()
		f.ref = map[string][]byte{}
		if f.db.Len() != 0 || f.db.Size() != 0 {
			r.Viol("C09:reset-not-empty", "Len/Size non-zero after Reset")
		}
		return "ok"
	case "iter":
		sl := parseSlice(op[2:])
		if old, ok := f.iters[op[1]]; ok {
			old.it.Release()
		}
		f.iters[op[1]] = &refIter{it: f.db.NewIterator(sl), slice: sl}
		return "ok"
	case "first", "last", "next", "prev", "seek":
		ri := f.iters[op[1]]
		if ri == nil {
			ri = &refIter{it: f.db.NewIterator(nil)}
			f.iters[op[1]] = ri
		}
		it := ri.it
		wasValid := it.Valid()
		prevKey := append([]byte{}, it.Key()...)
		released := false
		if rr, ok := it.(interface{ Released() bool }); ok {
			released = rr.Released()
		}
		var ok bool
		inr := refSorted(f.ref, ri.slice)
		switch op[0] {
		case "first":
			ok = it.First()
			if !released {
				if len(inr) == 0 {
					f.expectAt(r, "First", ri, ok, nil)
				} else {
					f.expectAt(r, "First", ri, ok, &inr[0])
				}
			}
		case "last":
			ok = it.Last()
			if !released {
				if len(inr) == 0 {
					f.expectAt(r, "Last", ri, ok, nil)
				} else {
					f.expectAt(r, "Last", ri, ok, &inr[len(inr)-1])
				}
			}
		case "seek":
			k := hx.UnHex(op[2])
			ok = it.Seek(k)
			if !released {
				var want *kv
				for i := range inr {
					if bytes.Compare(inr[i].k, k) >= 0 {
						want = &inr[i]
						break
					}
				}
				f.expectAt(r, "Seek", ri, ok, want)
			}
		case "next":
			ok = it.Next()
			if wasValid && !released {
				var want *kv
				for i := range inr {
					if bytes.Compare(inr[i].k, prevKey) > 0 {
						want = &inr[i]
						break
					}
				}
				f.expectAt(r, "Next", ri, ok, want)
			}
		case "prev":
			ok = it.Prev()
			if wasValid && !released {
				var want *kv
				for i := len(inr) - 1; i >= 0; i-- {
					if bytes.Compare(inr[i].k, prevKey) < 0 {
						want = &inr[i]
						break
					}
				}
				f.expectAt(r, "Prev", ri, ok, want)
			}
		}
		if released && (ok || it.Error() == nil) {
			r.Viol("C09:released-iterator-usable", op[0]+" on a released iterator did not fail")
		}
		return showIt(ok, it)
	case "release":
		if ri := f.iters[op[1]]; ri != nil {
			ri.it.Release()
		} else {
			it := f.db.NewIterator(nil)
			it.Release()
			f.iters[op[1]] = &refIter{it: it}
		}
		return "ok"
	case "scan", "rscan":
		sl := parseSlice(op[1:])
		it := f.db.NewIterator(sl)
		var got []kv
		want := refSorted(f.ref, sl)
		if op[0] == "scan" {
			for ok := it.First(); ok; ok = it.Next() {
				got = append(got, kv{append([]byte{}, it.Key()...), append([]byte{}, it.Value()...)})
			}
		} else {
			for ok := it.Last(); ok; ok = it.Prev() {
				got = append(got, kv{append([]byte{}, it.Key()...), append([]byte{}, it.Value()...)})
			}
			for i, j := 0, len(want)-1; i < j; i, j = i+1, j-1 {
				want[i], want[j] = want[j], want[i]
			}
		}
		it.Release()
		if !sameKVs(got, want) {
			r.Viol("C09:"+op[0]+"-differs-from-map:"+sliceName(sl),
				fmt.Sprintf("%s %v yields %s, the sorted reference map restricted to the range is %s", op[0], op[1:], showKVs(got), showKVs(want)))
		}
		return showKVs(got)
	}
	return "bad-op"
}

// key alphabet with prefix relations and the 0xff corner
var memKeys = []string{"-", "61", "6161", "6162", "62", "ff", "ffff", "6100", "61ff"}
var memVals = []string{"-", "01", "0202", "030303"}

func bound(r *hx.Run) string {
	switch r.Rng.Intn(8) {
	case 0:
		return "nil"
	case 1:
		return "-"
	default:
		return memKeys[r.Rng.Intn(len(memKeys))]
	}
}

func sliceTok(r *hx.Run) string {
	switch r.Rng.Intn(10) {
	case 0:
		return "noslice"
	case 1, 2, 3:
		// BytesPrefix of a key
		p := memKeys[r.Rng.Intn(len(memKeys))]
		rg := util.BytesPrefix(hx.UnHex(p))
		lim := "nil"
		if rg.Limit != nil {
			lim = hx.Hex(rg.Limit)
		}
		return p + " " + lim
	}
	return bound(r) + " " + bound(r)
}

func (f *memdbFam) summary(r *hx.Run, keys []string) {
	r.Do("len")
	r.Do("foreach")
	for _, k := range keys {
		r.Do("get " + k)
	}
	r.Do("scan noslice")
	r.Do("rscan noslice")
	r.Do("scan 61 62")
	r.Do("rscan 61 62")
	r.Do("scan - 6161")
	r.Do("rscan 6161 nil")
}

func (f *memdbFam) Gen(r *hx.Run) {
	r.Rule("(a) every op sequence of length <= L over {put k v, del k} x 3 keys (\"\", a, ab) x values {\"\",01,0202}, each followed by len/foreach/get/scan/rscan; " +
		"(b) random sequences over a 9-key alphabet with prefix relations and 0xff keys, values incl. empty, up to 4 live iterators with arbitrary bounds stepped between writes; " +
		"distinct non-trivial = distinct final contents (a) / distinct (op-kind multiset signature, final contents) (b)")
	// (a) exhaustive short sequences
	small := []string{"-", "61", "6162"}
	var alpha []string
	for _, k := range small {
		for _, v := range []string{"-", "01", "0202"} {
			alpha = append(alpha, "put "+k+" "+v)
		}
		alpha = append(alpha, "del "+k)
	}
	maxL := r.Pick(4, 5)
	var rec func(seq []string)
	id := 0
	rec = func(seq []string) {
		id++
		r.Case(fmt.Sprintf("ex-%d", id))
		for _, o := range seq {
			r.Do(o)
		}
		f.summary(r, small)
		r.Nontrivial("ex:" + r.Do("foreach"))
		r.Hist(fmt.Sprintf("exhaustive.len%d", len(seq)))
		if len(seq) < maxL {
			for _, o := range alpha {
				rec(append(seq, o))
			}
		}
	}
	rec(nil)
	// (b) random with live iterators
	n := r.Pick(6000, 120000)
	for c := 0; c < n; c++ {
		r.Case(fmt.Sprintf("rnd-%d", c))
		L := 10 + r.Rng.Intn(40)
		open := map[int]bool{}
		sig := map[string]int{}
		for i := 0; i < L; i++ {
			k := memKeys[r.Rng.Intn(len(memKeys))]
			switch x := r.Rng.Intn(100); {
			case x < 25:
				r.Do("put " + k + " " + memVals[r.Rng.Intn(len(memVals))])
			case x < 33:
				r.Do("del " + k)
			case x < 40:
				r.Do("get " + k)
			case x < 43:
				r.Do("find " + k)
			case x < 46:
				r.Do("len")
			case x < 50:
				r.Do("scan " + sliceTok(r))
			case x < 54:
				r.Do("rscan " + sliceTok(r))
			case x < 56 && i > 5:
				r.Do("reset")
				open = map[int]bool{}
				sig["reset"]++
			case x < 64:
				id := r.Rng.Intn(4)
				r.Do(fmt.Sprintf("iter %d %s", id, sliceTok(r)))
				open[id] = true
			case x < 67:
				id := r.Rng.Intn(4)
				r.Do(fmt.Sprintf("release %d", id))
				open[id] = true
			default:
				id := r.Rng.Intn(4)
				if !open[id] {
					r.Do(fmt.Sprintf("iter %d %s", id, sliceTok(r)))
					open[id] = true
				}
				m := []string{"first", "last", "next", "next", "next", "prev", "prev", "seek"}[r.Rng.Intn(8)]
				if m == "seek" {
					r.Do(fmt.Sprintf("seek %d %s", id, k))
				} else {
					res := r.Do(fmt.Sprintf("%s %d", m, id))
					// walk on in the same direction for a while
					for j := 0; j < 3 && strings.HasPrefix(res, "t") && r.Rng.Chance(2, 3); j++ {
						if m == "first" {
							m = "next"
						} else if m == "last" {
							m = "prev"
						}
						res = r.Do(fmt.Sprintf("%s %d", m, id))
					}
				}
				sig[m]++
			}
		}
		fin := r.Do("foreach")
		r.Do("len")
		r.Nontrivial(fmt.Sprintf("rnd:%v:%s", sig, fin))
		if c%500 == 0 {
			r.Sample(map[string]interface{}{"case": c, "ops": L, "final": fin})
		}
	}
}
