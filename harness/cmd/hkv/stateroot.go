package main

import (
	"fmt"
	"os"
	"strings"

	"github.com/polynetwork/poly/common"
	"github.com/polynetwork/poly/common/config"
	"github.com/polynetwork/poly/core/ledger"
	"github.com/polynetwork/poly/core/payload"
	"github.com/polynetwork/poly/core/store"
	"github.com/polynetwork/poly/core/types"
	"github.com/polynetwork/poly/native/states"
	"polyverif/internal/hx"
)

// Family stateroot (C11, delta_root_fn): the state Merkle root a real ledger predicts for a block
// (ExecuteResult.MerkleRoot = GetStateMerkleRootWithNewHash(digest)) and the root it records when the block is
// committed (AddStateMerkleTreeRoot -> GetStateMerkleRoot(height)), over a chain of committed blocks.
//
//	ledger <root0>        -> ok     fresh ledger (empty genesis); root0 = state root recorded for the genesis block
//	exec <w>... | ... x   -> h=<digest> root=<predicted state root>     candidate next block (not committed)
//	commit                -> recorded=<state root recorded at the new height>   the last candidate is signed and committed
type staterootFam struct {
	dir   string
	l     *ledger.Ledger
	nonce uint32
	blk   *types.Block
	res   store.ExecuteResult
	seen  map[string]string
}

func init() { families["stateroot"] = func() hx.Family { return &staterootFam{} } }

func (f *staterootFam) close() {
	if f.l != nil {
		func() {
			defer func() { recover() }()
			f.l.Close()
		}()
		f.l = nil
		os.RemoveAll(f.dir)
	}
}

func (f *staterootFam) Reset(r *hx.Run) { f.close() }

func (f *staterootFam) open() common.Uint256 {
	f.close()
	dir, err := os.MkdirTemp("", "hkv-stateroot-")
	if err != nil {
		panic(err)
	}
	f.dir = dir
	l, err := stNewLedger(dir)
	if err != nil {
		panic(err)
	}
	f.l = l
	f.blk = nil
	f.seen = map[string]string{}
	root0, err := l.GetStateMerkleRoot(0)
	if err != nil {
		panic(err)
	}
	return root0
}

func (f *staterootFam) tx(prog []byte) *types.Transaction {
	ip := &states.ContractInvokeParam{Address: bdAddr, Method: "run", Args: prog}
	code := common.NewZeroCopySink(nil)
	ip.Serialization(code)
	f.nonce++
	tx := &types.Transaction{Version: types.CURR_TX_VERSION, TxType: types.Invoke, Nonce: 900000 + f.nonce,
		ChainID: config.GetChainIdByNetId(config.DefConfig.P2PNode.NetworkId), Payload: &payload.InvokeCode{Code: code.Bytes()}}
	sink := common.NewZeroCopySink(nil)
	if err := tx.Serialization(sink); err != nil {
		panic(err)
	}
	t2, err := types.TransactionFromRawBytes(sink.Bytes())
	if err != nil {
		panic(err)
	}
	return t2
}

func (f *staterootFam) Exec(r *hx.Run, op []string) string {
	switch op[0] {
	case "ledger":
		root0 := f.open()
		if hx.Hex(root0[:]) != op[1] {
			return "genesis-state-root=" + hx.Hex(root0[:])
		}
		return "ok"
	case "exec":
		var prog []byte
		var txs []*types.Transaction
		net := map[string][]byte{}
		pending := map[string][]byte{}
		for _, t := range op[1:] {
			switch t {
			case "|":
				txs = append(txs, f.tx(prog))
				for k, v := range pending {
					net[k] = v
				}
				prog, pending = nil, map[string][]byte{}
			case "x":
				txs = append(txs, f.tx(append(prog, 3)))
				prog, pending = nil, map[string][]byte{}
			default:
				k, v, del := parseWrite(t)
				if del {
					prog = append(append(prog, 2, byte(len(k))), k...)
					pending["\x05"+string(k)] = []byte{}
				} else {
					prog = append(append(append(append(prog, 1, byte(len(k))), k...), byte(len(v))), v...)
					pending["\x05"+string(k)] = v
				}
			}
		}
		blk, err := stBuildBlock(f.l, txs)
		if err != nil {
			return "err:" + strings.ReplaceAll(err.Error(), " ", "_")
		}
		res, err := f.l.ExecuteBlock(blk)
		if err != nil {
			return "err:" + strings.ReplaceAll(err.Error(), " ", "_")
		}
		f.blk, f.res = blk, res
		out := fmt.Sprintf("h=%s root=%s", hx.Hex(res.Hash[:]), hx.Hex(res.MerkleRoot[:]))
		// same height, same net effect => same digest and same predicted root
		nk, _ := netKey(net)
		nk = fmt.Sprintf("%d|%s", blk.Header.Height, nk)
		if prev, ok := f.seen[nk]; ok && prev != out {
			r.Viol("C11:equal-net-effect-different-state-root", fmt.Sprintf("two candidate blocks at height %d with the same net writes give %s and %s", blk.Header.Height, prev, out))
		}
		f.seen[nk] = out
		return out
	case "commit":
		if f.blk == nil {
			return "nothing-to-commit"
		}
		if err := f.l.SubmitBlock(f.blk, f.res); err != nil {
			return "err:" + strings.ReplaceAll(err.Error(), " ", "_")
		}
		rec, err := f.l.GetStateMerkleRoot(f.blk.Header.Height)
		if err != nil {
			return "err:" + strings.ReplaceAll(err.Error(), " ", "_")
		}
		if rec != f.res.MerkleRoot {
			r.Viol("C11:recorded-state-root-differs-from-predicted",
				fmt.Sprintf("height %d: ExecuteBlock predicted state root %x, AddStateMerkleTreeRoot recorded %x", f.blk.Header.Height, f.res.MerkleRoot[:], rec[:]))
		}
		f.blk = nil
		return "recorded=" + hx.Hex(rec[:])
	}
	return "bad-op"
}

func (f *staterootFam) Gen(r *hx.Run) {
	r.Rule("chains of committed blocks on a real ledger (4-validator VBFT played by the harness); at every height several candidate blocks (same writes grouped/permuted/with noise, and different writes) are executed, " +
		"one is committed; chain lengths cover tree sizes 1..N (carry patterns of the compact tree); distinct non-trivial = distinct (height, candidate kind)")
	root0 := f.open()
	f.close()
	for c := 0; c < r.Pick(3, 40); c++ {
		r.Case(fmt.Sprintf("chain-%d", c))
		r.Do("ledger " + hx.Hex(root0[:]))
		n := r.Pick(9, 40)
		for h := 1; h <= n; h++ {
			L := r.Rng.Intn(7)
			base := make([]wr, L)
			for i := range base {
				base[i] = rndWrite(r)
			}
			r.Do("exec " + asTxs(r, base, false))
			if r.Rng.Bool() {
				r.Do("exec " + asTxs(r, stableShuffle(r, withNoise(r, base)), true))
				r.Nontrivial(fmt.Sprintf("%d:equiv", h))
			}
			if r.Rng.Chance(1, 3) {
				r.Do("exec " + asTxs(r, append(append([]wr{}, base...), rndWrite(r)), true))
				r.Nontrivial(fmt.Sprintf("%d:other", h))
			}
			r.Do("commit")
			r.Nontrivial(fmt.Sprintf("%d:commit", h))
		}
	}
	f.close()
}
