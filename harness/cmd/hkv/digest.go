package main

import (
	"bytes"
	"crypto/sha256"
	"fmt"
	"sort"
	"strings"

	"github.com/polynetwork/poly/core/store/overlaydb"
	"github.com/polynetwork/poly/native/storage"
	"polyverif/internal/hx"
)

// Family digest (C11): OverlayDB.ChangeHash / GetWriteSet on write sequences.
//
//	seq <w>...            writes applied to a fresh OverlayDB; w = k=v (Put, v may be -) or k! (Delete)
//	txs <w>... | <w>... x ...   the same through CacheDB: `|` ends a successful transaction (Commit), `x` a failed
//	                      one (dropped); every transaction starts with cache.Reset()
//	-> h=<ChangeHash> ws=<write set entries>
//
// Within one case the harness remembers (net effect -> digest, write set): two lines with the same net effect
// must agree; every digest must equal SHA-256 over the byte-ordered net writes computed from a plain Go map.
type digestFam struct {
	ov   *overlaydb.OverlayDB
	seen map[string]string
	repr map[string]string
}

func init() { families["digest"] = func() hx.Family { return &digestFam{} } }

func (f *digestFam) Reset(r *hx.Run) {
	if f.ov == nil {
		f.ov = overlaydb.NewOverlayDB(nil) // ChangeHash / GetWriteSet / Put / Delete never touch the store
	}
	f.seen = map[string]string{}
	f.repr = map[string]string{}
}

func parseWrite(tok string) (k, v []byte, del bool) {
	if strings.HasSuffix(tok, "!") {
		return hx.UnHex(tok[:len(tok)-1]), nil, true
	}
	i := strings.IndexByte(tok, '=')
	if i < 0 {
		panic("bad write token " + tok)
	}
	return hx.UnHex(tok[:i]), hx.UnHex(tok[i+1:]), false
}

func netKey(net map[string][]byte) (string, []byte) {
	keys := make([]string, 0, len(net))
	for k := range net {
		keys = append(keys, k)
	}
	sort.Slice(keys, func(i, j int) bool { return bytes.Compare([]byte(keys[i]), []byte(keys[j])) < 0 })
	h := sha256.New()
	var sb strings.Builder
	for _, k := range keys {
		h.Write([]byte(k))
		h.Write(net[k])
		fmt.Fprintf(&sb, "%x:%x,", k, net[k])
	}
	return sb.String(), h.Sum(nil)
}

func (f *digestFam) result() (string, string) {
	h := f.ov.ChangeHash()
	var ws []kv
	f.ov.GetWriteSet().ForEach(func(k, v []byte) { ws = append(ws, kv{append([]byte{}, k...), append([]byte{}, v...)}) })
	return hx.Hex(h[:]), showKVs(ws)
}

func (f *digestFam) Exec(r *hx.Run, op []string) string {
	net := map[string][]byte{}
	run := func() (string, string) {
		f.ov.Reset()
		for k := range net {
			delete(net, k)
		}
		switch op[0] {
		case "seq":
			for _, t := range op[1:] {
				k, v, del := parseWrite(t)
				if del {
					f.ov.Delete(k)
					net[string(k)] = []byte{}
				} else {
					f.ov.Put(k, v)
					net[string(k)] = v
				}
			}
		case "txs":
			cache := storage.NewCacheDB(f.ov)
			cache.Reset()
			pending := map[string][]byte{}
			for _, t := range op[1:] {
				switch t {
				case "|":
					cache.Commit()
					for k, v := range pending {
						net[k] = v
					}
					pending = map[string][]byte{}
					cache.Reset()
				case "x":
					pending = map[string][]byte{}
					cache.Reset()
				default:
					k, v, del := parseWrite(t)
					if del {
						cache.Delete(k)
						pending["\x05"+string(k)] = []byte{}
					} else {
						cache.Put(k, v)
						pending["\x05"+string(k)] = v
					}
				}
			}
		default:
			panic("bad op")
		}
		return f.result()
	}
	if op[0] != "seq" && op[0] != "txs" {
		return "bad-op"
	}
	h1, ws1 := run()
	h2, ws2 := run() // same sequence again on the reused overlay: must be reproducible
	if h1 != h2 || ws1 != ws2 {
		r.Viol("C11:digest-not-reproducible", fmt.Sprintf("the same write sequence gave %s then %s", h1, h2))
	}
	nk, want := netKey(net)
	if hx.Hex(want) != h1 {
		r.Viol("C11:digest-differs-from-net-writes:"+op[0],
			fmt.Sprintf("ChangeHash = %s but SHA-256 over the byte-ordered last writes {%s} is %x", h1, nk, want))
	}
	var wantWS []kv
	for _, e := range strings.Split(strings.TrimSuffix(nk, ","), ",") {
		if e == "" {
			continue
		}
		p := strings.SplitN(e, ":", 2)
		wantWS = append(wantWS, kv{hx.UnHex(orDash(p[0])), hx.UnHex(orDash(p[1]))})
	}
	if ws1 != showKVs(wantWS) {
		r.Viol("C11:writeset-differs-from-net-writes:"+op[0], fmt.Sprintf("write set %s, net writes %s", ws1, showKVs(wantWS)))
	}
	res := "h=" + h1 + " ws=" + ws1
	if prev, ok := f.seen[nk]; ok && prev != res {
		r.Viol("C11:equal-net-effect-different-digest:"+op[0],
			fmt.Sprintf("`%s` and `%s` have the same last write per key but give %s and %s", f.repr[nk], strings.Join(op, " "), prev, res))
	}
	f.seen[nk] = res
	f.repr[nk] = strings.Join(op, " ")
	return res
}

func orDash(s string) string {
	if s == "" {
		return "-"
	}
	return s
}

var digKeys = []string{"-", "61", "6161", "62", "ff", "6100", "05", "0561"}
var digVals = []string{"-", "01", "0202", "61", "0061"}

type wr struct{ k, v string } // v == "!" means Delete

func (w wr) tok() string {
	if w.v == "!" {
		return w.k + "!"
	}
	return w.k + "=" + w.v
}

func toks(ws []wr) string {
	p := make([]string, len(ws))
	for i, w := range ws {
		p[i] = w.tok()
	}
	return strings.Join(p, " ")
}

func rndWrite(r *hx.Run) wr {
	k := digKeys[r.Rng.Intn(len(digKeys))]
	if r.Rng.Chance(1, 6) {
		return wr{k, "!"}
	}
	return wr{k, digVals[r.Rng.Intn(len(digVals))]}
}

// interleave preserving the per-key order (a permutation that keeps the net effect)
func stableShuffle(r *hx.Run, ws []wr) []wr {
	byKey := map[string][]wr{}
	var keys []string
	for _, w := range ws {
		if _, ok := byKey[w.k]; !ok {
			keys = append(keys, w.k)
		}
		byKey[w.k] = append(byKey[w.k], w)
	}
	var out []wr
	for len(keys) > 0 {
		i := r.Rng.Intn(len(keys))
		k := keys[i]
		out = append(out, byKey[k][0])
		byKey[k] = byKey[k][1:]
		if len(byKey[k]) == 0 {
			keys = append(keys[:i], keys[i+1:]...)
		}
	}
	return out
}

func lastOnly(ws []wr) []wr {
	last := map[string]int{}
	for i, w := range ws {
		last[w.k] = i
	}
	var out []wr
	for i, w := range ws {
		if last[w.k] == i {
			out = append(out, w)
		}
	}
	return out
}

// withNoise inserts overwritten writes / delete-then-put in front of later writes to the same key.
func withNoise(r *hx.Run, ws []wr) []wr {
	var out []wr
	for _, w := range ws {
		for r.Rng.Chance(1, 3) {
			if r.Rng.Bool() {
				out = append(out, wr{w.k, "!"})
			} else {
				out = append(out, wr{w.k, digVals[r.Rng.Intn(len(digVals))]})
			}
		}
		out = append(out, w)
	}
	return out
}

func asTxs(r *hx.Run, ws []wr, junk bool) string {
	var parts []string
	open := false // the current transaction already holds writes
	for _, w := range ws {
		if junk && r.Rng.Chance(1, 4) {
			// a failed transaction with arbitrary writes (the transaction in progress is closed first)
			if open {
				parts = append(parts, "|")
				open = false
			}
			for j := 0; j <= r.Rng.Intn(3); j++ {
				parts = append(parts, rndWrite(r).tok())
			}
			parts = append(parts, "x")
		}
		parts = append(parts, w.tok())
		open = true
		if r.Rng.Chance(1, 2) {
			parts = append(parts, "|")
			open = false
		}
	}
	parts = append(parts, "|")
	return strings.Join(parts, " ")
}

func (f *digestFam) Gen(r *hx.Run) {
	r.Rule("families of write sequences over an 8-key alphabet (prefix-related keys, values incl. empty, Put-empty and Delete): a base sequence, " +
		"per-key-order-preserving permutations, the last-write-only sequence, versions with redundant overwrites / delete-then-put, the same writes grouped into " +
		"transactions through CacheDB with failed transactions interleaved, and unrelated sequences; distinct non-trivial = distinct base sequences with >= 2 writes to some key or >= 3 keys")
	n := r.Pick(4000, 200000)
	for c := 0; c < n; c++ {
		r.Case(fmt.Sprintf("fam-%d", c))
		L := r.Rng.Intn(13)
		base := make([]wr, L)
		for i := range base {
			base[i] = rndWrite(r)
		}
		r.Do(strings.TrimSpace("seq " + toks(base)))
		r.Do(strings.TrimSpace("seq " + toks(stableShuffle(r, base))))
		r.Do(strings.TrimSpace("seq " + toks(lastOnly(base))))
		r.Do(strings.TrimSpace("seq " + toks(stableShuffle(r, withNoise(r, base)))))
		r.Do(strings.TrimSpace("seq " + toks(stableShuffle(r, lastOnly(withNoise(r, base))))))
		r.Do("txs " + asTxs(r, base, false))
		r.Do("txs " + asTxs(r, stableShuffle(r, withNoise(r, base)), true))
		r.Do("txs " + asTxs(r, lastOnly(base), true))
		// unrelated: one more write at the end (often changes the net effect)
		r.Do(strings.TrimSpace("seq " + toks(append(append([]wr{}, base...), rndWrite(r)))))
		keys := map[string]int{}
		multi := false
		for _, w := range base {
			keys[w.k]++
			if keys[w.k] > 1 {
				multi = true
			}
		}
		if multi || len(keys) >= 3 {
			r.Nontrivial(toks(base))
		}
		r.Hist(fmt.Sprintf("base-len.%d", L))
		if c%1000 == 0 {
			r.Sample(map[string]interface{}{"base": toks(base)})
		}
	}
}
