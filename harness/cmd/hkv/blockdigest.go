package main

import (
	"errors"
	"fmt"
	"os"
	"path/filepath"
	"strings"

	"github.com/polynetwork/poly/common"
	"github.com/polynetwork/poly/common/config"
	"github.com/polynetwork/poly/common/log"
	"github.com/polynetwork/poly/core/ledger"
	"github.com/polynetwork/poly/core/payload"
	"github.com/polynetwork/poly/core/types"
	"github.com/polynetwork/poly/native"
	"github.com/polynetwork/poly/native/states"
	"polyverif/internal/hx"
)

// Family blockdigest (C11): the digest and write set that the real block executor (Ledger.ExecuteBlock ->
// executeBlock -> handleTransaction -> native service) records for a block whose transactions call a scripted
// native contract.
//
//	blk <w>... | <w>... x ...     one transaction per group; `|` ends a transaction that succeeds, `x` one whose
//	                              handler returns an error after its writes; w = k=v (Put) or k! (Delete)
//	-> h=<ExecuteResult.Hash> ws=<ExecuteResult.WriteSet entries>
type blockdigestFam struct {
	dir   string
	l     *ledger.Ledger
	nonce uint32
	seen  map[string]string
	repr  map[string]string
}

var bdAddr common.Address

func init() {
	for i := range bdAddr {
		bdAddr[i] = 0xD1
	}
	families["blockdigest"] = func() hx.Family { return &blockdigestFam{} }
}

// program: 01 klen key vlen val = Put; 02 klen key = Delete; 03 = fail
func bdRun(s *native.NativeService) ([]byte, error) {
	p := s.GetInput()
	db := s.GetCacheDB()
	for i := 0; i < len(p); {
		switch p[i] {
		case 1:
			kl := int(p[i+1])
			k := p[i+2 : i+2+kl]
			vl := int(p[i+2+kl])
			v := p[i+3+kl : i+3+kl+vl]
			db.Put(k, v)
			i += 3 + kl + vl
		case 2:
			kl := int(p[i+1])
			db.Delete(p[i+2 : i+2+kl])
			i += 2 + kl
		case 3:
			return nil, errors.New("scripted failure")
		default:
			return nil, errors.New("bad instruction")
		}
	}
	return []byte{1}, nil
}

func (f *blockdigestFam) setup() {
	if f.l != nil {
		return
	}
	log.InitLog(log.FatalLog)
	native.Contracts[bdAddr] = func(s *native.NativeService) { s.Register("run", bdRun) }
	dir, err := os.MkdirTemp("", "hkv-blockdigest-")
	if err != nil {
		panic(err)
	}
	f.dir = dir
	l, err := ledger.NewLedger(filepath.Join(dir, "chain"))
	if err != nil {
		panic(err)
	}
	bk, _ := config.DefConfig.GetBookkeepers()
	if err := l.Init(bk, genesisBlock()); err != nil {
		panic(err)
	}
	f.l = l
}

func (f *blockdigestFam) Reset(r *hx.Run) {
	f.setup()
	f.seen = map[string]string{}
	f.repr = map[string]string{}
}

func (f *blockdigestFam) tx(prog []byte) *types.Transaction {
	ip := &states.ContractInvokeParam{Address: bdAddr, Method: "run", Args: prog}
	code := common.NewZeroCopySink(nil)
	ip.Serialization(code)
	f.nonce++
	tx := &types.Transaction{Version: types.CURR_TX_VERSION, TxType: types.Invoke, Nonce: f.nonce,
		ChainID: config.GetChainIdByNetId(config.DefConfig.P2PNode.NetworkId), Payload: &payload.InvokeCode{Code: code.Bytes()}}
	sink := common.NewZeroCopySink(nil)
	if err := tx.Serialization(sink); err != nil {
		panic(err)
	}
	t2, err := types.TransactionFromRawBytes(sink.Bytes())
	if err != nil {
		panic(err)
	}
	return t2
}

func (f *blockdigestFam) Exec(r *hx.Run, op []string) string {
	if op[0] != "blk" {
		return "bad-op"
	}
	net := map[string][]byte{}
	pending := map[string][]byte{}
	var prog []byte
	var txs []*types.Transaction
	for _, t := range op[1:] {
		switch t {
		case "|":
			txs = append(txs, f.tx(prog))
			for k, v := range pending {
				net[k] = v
			}
			prog, pending = nil, map[string][]byte{}
		case "x":
			txs = append(txs, f.tx(append(prog, 3)))
			prog, pending = nil, map[string][]byte{}
		default:
			k, v, del := parseWrite(t)
			if del {
				prog = append(append(prog, 2, byte(len(k))), k...)
				pending["\x05"+string(k)] = []byte{}
			} else {
				prog = append(append(append(append(prog, 1, byte(len(k))), k...), byte(len(v))), v...)
				pending["\x05"+string(k)] = v
			}
		}
	}
	run := func() (string, string, error) {
		blk := &types.Block{Header: &types.Header{Height: f.l.GetCurrentBlockHeight() + 1, PrevBlockHash: f.l.GetCurrentBlockHash(),
			Timestamp: 1600000000, ConsensusPayload: []byte("{}")}, Transactions: txs}
		blk.RebuildMerkleRoot()
		res, err := f.l.ExecuteBlock(blk)
		if err != nil {
			return "", "", err
		}
		var ws []kv
		res.WriteSet.ForEach(func(k, v []byte) { ws = append(ws, kv{append([]byte{}, k...), append([]byte{}, v...)}) })
		return hx.Hex(res.Hash[:]), showKVs(ws), nil
	}
	h1, ws1, err := run()
	if err != nil {
		return "err:" + strings.ReplaceAll(err.Error(), " ", "_")
	}
	h2, ws2, _ := run()
	if h1 != h2 || ws1 != ws2 {
		r.Viol("C11:block-digest-not-reproducible", fmt.Sprintf("executing the same block twice gave %s then %s", h1, h2))
	}
	nk, want := netKey(net)
	if hx.Hex(want) != h1 {
		r.Viol("C11:block-digest-differs-from-net-writes",
			fmt.Sprintf("ExecuteBlock digest = %s but SHA-256 over the byte-ordered net writes of the successful transactions {%s} is %x", h1, nk, want))
	}
	res := "h=" + h1 + " ws=" + ws1
	if prev, ok := f.seen[nk]; ok && prev != res {
		r.Viol("C11:equal-net-effect-different-block-digest",
			fmt.Sprintf("`%s` and `%s` have the same net effect but give %s and %s", f.repr[nk], strings.Join(op, " "), prev, res))
	}
	f.seen[nk] = res
	f.repr[nk] = strings.Join(op, " ")
	return res
}

func (f *blockdigestFam) Gen(r *hx.Run) {
	r.Rule("blocks of scripted native-contract transactions executed by the real Ledger.ExecuteBlock on a ledger holding the genesis block: the same writes grouped differently into " +
		"transactions, permuted (per-key order kept), with redundant overwrites, with failing transactions carrying arbitrary writes; distinct non-trivial = distinct base write sequences with >= 2 writes")
	n := r.Pick(150, 5000)
	for c := 0; c < n; c++ {
		r.Case(fmt.Sprintf("blk-%d", c))
		L := r.Rng.Intn(10)
		base := make([]wr, L)
		for i := range base {
			base[i] = rndWrite(r)
		}
		r.Do("blk " + asTxs(r, base, false))
		r.Do("blk " + asTxs(r, base, true))
		r.Do("blk " + asTxs(r, stableShuffle(r, withNoise(r, base)), true))
		r.Do("blk " + asTxs(r, lastOnly(base), false))
		r.Do("blk " + asTxs(r, append(append([]wr{}, base...), rndWrite(r)), true))
		if L >= 2 {
			r.Nontrivial(toks(base))
		}
	}
	if f.l != nil {
		f.l.Close()
		os.RemoveAll(f.dir)
		f.l = nil
	}
}
