package main

import (
	"fmt"
	"strconv"
	"strings"

	"github.com/polynetwork/poly/common"
	"github.com/polynetwork/poly/common/log"
	"github.com/polynetwork/poly/core/payload"
	"github.com/polynetwork/poly/core/types"
	"github.com/polynetwork/poly/validator/increment"
	"polyverif/internal/hx"
)

// Family incval (C38): the real increment.IncrementValidator on real blocks/transactions.
//
//	new <maxBlocks>                 -> ok
//	add <height> <tx index>...      -> <start> <end>      (BlockRange after AddBlock)
//	verify <tx index> <startHeight> -> ok | dup | err
//	range                           -> <start> <end>
//	clean                           -> ok
//
// Reference kept by the harness: the list of the most recent contiguous (height, tx set) pairs.
type incvalFam struct {
	v       *increment.IncrementValidator
	max     int
	tracked []refBlock
}

type refBlock struct {
	h   uint32
	txs map[int]bool
}

var incTxs []*types.Transaction

func init() {
	families["incval"] = func() hx.Family {
		log.InitLog(log.FatalLog) // no writers: AddBlock logs every ignored block
		return &incvalFam{}
	}
}

func incTx(i int) *types.Transaction {
	for len(incTxs) <= i {
		n := len(incTxs)
		tx := &types.Transaction{Version: 0, TxType: types.Invoke, Nonce: uint32(1000 + n),
			Payload: &payload.InvokeCode{Code: []byte{byte(n), 7, 7}}}
		sink := common.NewZeroCopySink(nil)
		if err := tx.Serialization(sink); err != nil {
			panic(err)
		}
		tx2, err := types.TransactionFromRawBytes(sink.Bytes())
		if err != nil {
			panic(err)
		}
		for _, o := range incTxs {
			if o.Hash() == tx2.Hash() {
				panic("test transactions must have distinct hashes")
			}
		}
		incTxs = append(incTxs, tx2)
	}
	return incTxs[i]
}

func (f *incvalFam) Reset(r *hx.Run) {
	f.v = increment.NewIncrementValidator(20)
	f.max = 20
	f.tracked = nil
}

func (f *incvalFam) rng() string {
	s, e := f.v.BlockRange()
	var ws, we uint32
	if len(f.tracked) > 0 {
		ws = f.tracked[0].h
	}
	we = ws + uint32(len(f.tracked))
	if s != ws || e != we {
		f.viol("C38:block-range-differs", fmt.Sprintf("BlockRange = [%d,%d), the most recent contiguous blocks up to capacity are [%d,%d)", s, e, ws, we))
	}
	return fmt.Sprintf("%d %d", s, e)
}

var curRun *hx.Run

func (f *incvalFam) viol(k, d string) { curRun.Viol(k, d) }

func (f *incvalFam) Exec(r *hx.Run, op []string) string {
	curRun = r
	switch op[0] {
	case "new":
		m, _ := strconv.Atoi(op[1])
		f.v = increment.NewIncrementValidator(m)
		f.max = m
		if m <= 0 {
			f.max = 20
		}
		f.tracked = nil
		return "ok"
	case "add":
		h64, _ := strconv.ParseUint(op[1], 10, 32)
		h := uint32(h64)
		blk := &types.Block{Header: &types.Header{Height: h}}
		set := map[int]bool{}
		for _, t := range op[2:] {
			i, _ := strconv.Atoi(t)
			blk.Transactions = append(blk.Transactions, incTx(i))
			set[i] = true
		}
		f.v.AddBlock(blk)
		// reference: keep the most recent contiguous blocks, at most max
		if len(f.tracked) == 0 || f.tracked[len(f.tracked)-1].h+1 == h {
			f.tracked = append(f.tracked, refBlock{h, set})
			if len(f.tracked) > f.max {
				f.tracked = f.tracked[1:]
			}
		}
		return f.rng()
	case "verify":
		i, _ := strconv.Atoi(op[1])
		s64, _ := strconv.ParseUint(op[2], 10, 32)
		start := uint32(s64)
		err := f.v.Verify(incTx(i), start)
		res := "ok"
		if err != nil {
			if strings.Contains(err.Error(), "duplicated") {
				res = "dup"
			} else {
				res = "err"
			}
		}
		// reference (skipped in the uint32 wrap-around corner, where heights are not monotone)
		wrap := len(f.tracked) > 0 && uint64(f.tracked[0].h)+uint64(len(f.tracked)) > 1<<32
		if !wrap {
			want := "ok"
			if len(f.tracked) > 0 && start < f.tracked[0].h {
				want = "err"
			} else {
				for _, b := range f.tracked {
					if b.h >= start && b.txs[i] {
						want = "dup"
					}
				}
			}
			if res != want {
				f.viol(fmt.Sprintf("C38:verify-%s-should-be-%s", res, want),
					fmt.Sprintf("Verify(tx%d, start=%d) = %s; by the tracked recent blocks it is %s", i, start, res, want))
			}
		}
		return res
	case "range":
		return f.rng()
	case "clean":
		f.v.Clean()
		f.tracked = nil
		return "ok"
	}
	return "bad-op"
}

func (f *incvalFam) Gen(r *hx.Run) {
	r.Rule("block sequences (contiguous runs, gaps forwards/backwards, repeated heights, Clean restarts, capacities -1,0,1,2,3,5,20, start heights incl. 0 and the uint32 maximum) " +
		"over 6 transactions, each step followed by Verify for every transaction at start heights around the tracked range; " +
		"distinct non-trivial = distinct (capacity, sequence of accepted/ignored flags, evictions) with at least one eviction or one ignored block")
	n := r.Pick(3000, 150000)
	caps := []int{-1, 0, 1, 2, 3, 5, 20}
	starts := []uint32{0, 1, 7, 1000, 4294967290, 4294967293, 4294967295}
	for c := 0; c < n; c++ {
		r.Case(fmt.Sprintf("seq-%d", c))
		cp := caps[r.Rng.Intn(len(caps))]
		if r.Rng.Chance(4, 5) {
			r.Do(fmt.Sprintf("new %d", cp))
		} else {
			cp = 20
		}
		h := starts[r.Rng.Intn(len(starts))]
		if r.Rng.Chance(1, 2) {
			h = uint32(r.Rng.Intn(50))
		}
		L := 1 + r.Rng.Intn(12)
		if cp == 20 || cp <= 0 {
			L += r.Rng.Intn(25)
		}
		sig := []string{fmt.Sprint(cp)}
		interesting := false
		for i := 0; i < L; i++ {
			switch x := r.Rng.Intn(100); {
			case x < 70: // contiguous
			case x < 78:
				h += uint32(1 + r.Rng.Intn(3)) // gap forwards
			case x < 86:
				h -= uint32(1 + r.Rng.Intn(3)) // back / repeat
			case x < 90:
				h = uint32(r.Rng.U64B())
			case x < 95:
				r.Do("clean")
				sig = append(sig, "c")
			default:
				r.Do("range")
			}
			var txs []string
			for t := 0; t < 6; t++ {
				if r.Rng.Chance(1, 3) {
					txs = append(txs, strconv.Itoa(t))
				}
			}
			before := len(f.tracked)
			var bh uint32
			if before > 0 {
				bh = f.tracked[0].h
			}
			res := r.Do(strings.TrimSpace(fmt.Sprintf("add %d %s", h, strings.Join(txs, " "))))
			switch {
			case before > 0 && len(f.tracked) == before && f.tracked[0].h == bh:
				sig = append(sig, "i") // ignored
				interesting = true
			case before > 0 && len(f.tracked) == before:
				sig = append(sig, "e") // evicted
				interesting = true
			default:
				sig = append(sig, "a")
			}
			var s, e uint32
			fmt.Sscan(res, &s, &e)
			qs := []uint32{s - 1, s, s + 1, e - 1, e, e + 1, h}
			for t := 0; t < 6; t++ {
				for _, q := range qs {
					if r.Rng.Chance(1, 3) {
						r.Do(fmt.Sprintf("verify %d %d", t, q))
					}
				}
			}
			h++
			if r.Rng.Chance(3, 4) {
				h = e // continue contiguously with what the tracker expects
			}
		}
		if interesting {
			r.Nontrivial(strings.Join(sig, ""))
		}
		r.Hist(fmt.Sprintf("capacity.%d", cp))
	}
	// exhaustive small scope (thorough): capacity 2, heights in 0..3, sequences of length <= 4, all queries
	if r.Thorough() {
		var rec func(seq []int)
		id := 0
		rec = func(seq []int) {
			id++
			r.Case(fmt.Sprintf("ex-%d", id))
			r.Do("new 2")
			for i, hh := range seq {
				r.Do(fmt.Sprintf("add %d %d", hh, i%2))
			}
			for t := 0; t < 2; t++ {
				for q := 0; q <= 5; q++ {
					r.Do(fmt.Sprintf("verify %d %d", t, q))
				}
			}
			if len(seq) < 5 {
				for hh := 0; hh < 4; hh++ {
					rec(append(seq, hh))
				}
			}
		}
		rec(nil)
	}
}
