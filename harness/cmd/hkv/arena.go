package main

import (
	"bytes"
	"fmt"
	"math/rand"
	"strconv"
	"strings"

	"github.com/polynetwork/poly/core/store/overlaydb"
	"polyverif/internal/hx"
)

// Family arena (C09, arena refinement): the real MemDB's two arenas, level 0, against the arena model.
//
//	put k v h | del k h   -> ok     h = the height the code will draw if the key is new (randHeight is a fixed
//	                                sequence after NewMemDB/Reset: math/rand seeded 0xdeadbeef); ignored otherwise
//	reset                 -> ok
//	get k                 -> known:<v> | absent | unknown
//	dump                  -> kvlen=.. ndlen=.. n=.. size=.. kv=<hex> chain=<off>:<kvoff>:<klen>:<vlen>:<h>,...
//
// The dump comes from the verif-tagged accessors MemDB.VerifLevel0 / VerifKV. The harness also decodes the chain
// itself (keys/values cut out of kvData at the dumped offsets) and compares it with a plain Go map.
type arenaFam struct {
	db  *overlaydb.MemDB
	ref map[string][]byte
}

func init() { families["arena"] = func() hx.Family { return &arenaFam{} } }

func (f *arenaFam) Reset(r *hx.Run) {
	f.db = overlaydb.NewMemDB(16, 1)
	f.ref = map[string][]byte{}
}

func (f *arenaFam) Exec(r *hx.Run, op []string) string {
	switch op[0] {
	case "put":
		k, v := hx.UnHex(op[1]), hx.UnHex(op[2])
		f.db.Put(k, v)
		f.ref[string(k)] = append([]byte{}, v...)
		return "ok"
	case "del":
		k := hx.UnHex(op[1])
		f.db.Delete(k)
		f.ref[string(k)] = []byte{}
		return "ok"
	case "reset":
		f.db.Reset()
		f.ref = map[string][]byte{}
		return "ok"
	case "get":
		v, unknown := f.db.Get(hx.UnHex(op[1]))
		switch {
		case unknown:
			return "unknown"
		case len(v) == 0:
			return "absent"
		}
		return "known:" + hx.Hex(v)
	case "dump":
		nodes, kvLen, ndLen := f.db.VerifLevel0()
		kvd := f.db.VerifKV()
		parts := make([]string, len(nodes))
		var decoded []kv
		for i, n := range nodes {
			parts[i] = fmt.Sprintf("%d:%d:%d:%d:%d", n[0], n[1], n[2], n[3], n[4])
			if n[1] < 0 || n[1]+n[2]+n[3] > len(kvd) {
				r.Viol("C09:arena-offset-out-of-bounds", fmt.Sprintf("node %d points outside kvData: %v (len %d)", n[0], n, len(kvd)))
				continue
			}
			decoded = append(decoded, kv{kvd[n[1] : n[1]+n[2]], kvd[n[1]+n[2] : n[1]+n[2]+n[3]]})
		}
		if want := refSorted(f.ref, nil); !sameKVs(decoded, want) {
			r.Viol("C09:arena-chain-differs-from-map", fmt.Sprintf("level-0 chain decodes to %s, reference map is %s", showKVs(decoded), showKVs(want)))
		}
		for i := 1; i < len(decoded); i++ {
			if bytes.Compare(decoded[i-1].k, decoded[i].k) >= 0 {
				r.Viol("C09:arena-chain-not-sorted", "level-0 chain keys are not strictly increasing")
			}
		}
		chain := "-"
		if len(parts) > 0 {
			chain = strings.Join(parts, ",")
		}
		return fmt.Sprintf("kvlen=%d ndlen=%d n=%d size=%d kv=%s chain=%s", kvLen, ndLen, f.db.Len(), f.db.Size(), hx.Hex(kvd), chain)
	}
	return "bad-op"
}

// heightSeq replicates MemDB.randHeight's draws (tMaxHeight 12, branching 4, source 0xdeadbeef).
type heightSeq struct{ rnd *rand.Rand }

func newHeightSeq() *heightSeq { return &heightSeq{rand.New(rand.NewSource(0xdeadbeef))} }
func (s *heightSeq) next() int {
	h := 1
	for h < 12 && s.rnd.Int()%4 == 0 {
		h++
	}
	return h
}

func (f *arenaFam) Gen(r *hx.Run) {
	r.Rule("write sequences (puts incl. empty values, overwrites with empty/non-empty values, deletes, resets) over the 9-key memdb alphabet, arenas dumped after every few writes; " +
		"exhaustive sequences of length <= L over 3 keys; distinct non-trivial = distinct final arena dumps")
	gen := func(id string, ops []string) {
		r.Case(id)
		hs := newHeightSeq()
		known := map[string]bool{}
		for _, o := range ops {
			t := strings.Fields(o)
			switch t[0] {
			case "put", "del":
				h := 0
				if !known[t[1]] {
					h = hs.next()
					known[t[1]] = true
				}
				r.Do(o + " " + strconv.Itoa(h))
			case "reset":
				r.Do(o)
				hs = newHeightSeq()
				known = map[string]bool{}
			default:
				r.Do(o)
			}
		}
		r.Nontrivial(r.Do("dump"))
	}
	// exhaustive short sequences
	small := []string{"-", "61", "6162"}
	var alpha []string
	for _, k := range small {
		for _, v := range []string{"-", "01", "0202"} {
			alpha = append(alpha, "put "+k+" "+v)
		}
		alpha = append(alpha, "del "+k)
	}
	maxL := r.Pick(3, 4)
	id := 0
	var rec func(seq []string)
	rec = func(seq []string) {
		id++
		gen(fmt.Sprintf("ex-%d", id), append(append([]string{}, seq...), "get 61"))
		if len(seq) < maxL {
			for _, o := range alpha {
				rec(append(seq, o))
			}
		}
	}
	rec(nil)
	// random
	n := r.Pick(1500, 60000)
	for c := 0; c < n; c++ {
		L := 5 + r.Rng.Intn(40)
		var ops []string
		for i := 0; i < L; i++ {
			k := memKeys[r.Rng.Intn(len(memKeys))]
			switch x := r.Rng.Intn(100); {
			case x < 55:
				ops = append(ops, "put "+k+" "+memVals[r.Rng.Intn(len(memVals))])
			case x < 70:
				ops = append(ops, "del "+k)
			case x < 80:
				ops = append(ops, "get "+k)
			case x < 83 && i > 3:
				ops = append(ops, "reset")
			default:
				ops = append(ops, "dump")
			}
		}
		gen(fmt.Sprintf("rnd-%d", c), ops)
	}
}
