package main

import (
	"crypto/elliptic"
	"crypto/sha256"
	"encoding/json"
	"fmt"
	"os"
	"path/filepath"
	"strconv"
	"strings"
	"time"

	"github.com/ontio/ontology-crypto/ec"
	"github.com/ontio/ontology-crypto/keypair"
	osig "github.com/ontio/ontology-crypto/signature"
	"github.com/ontio/ontology-eventbus/actor"
	"github.com/polynetwork/poly/common"
	"github.com/polynetwork/poly/common/config"
	"github.com/polynetwork/poly/common/log"
	vconfig "github.com/polynetwork/poly/consensus/vbft/config"
	"github.com/polynetwork/poly/core/genesis"
	"github.com/polynetwork/poly/core/ledger"
	"github.com/polynetwork/poly/core/payload"
	"github.com/polynetwork/poly/core/types"
	"github.com/polynetwork/poly/errors"
	"github.com/polynetwork/poly/native"
	"github.com/polynetwork/poly/native/states"
	"github.com/polynetwork/poly/validator/stateful"
	vatypes "github.com/polynetwork/poly/validator/types"
	"polyverif/internal/hx"
)

// Family stateful (C38, last clause): the real stateful validator actor over a real ledger that grows by real,
// signed blocks (the harness plays a 4-validator VBFT consensus, as harness/cmd/hmledger does).
//
//	ledger                      -> ok    fresh ledger in $TMPDIR with an empty genesis block, DefLedger set, validator spawned
//	commit <s|a> <i> <j> ...    -> ok    next block with transactions i, j, ... built, signed, executed and committed
//	                                     (s: ExecuteBlock+SubmitBlock, a: ExecuteBlock+AddBlock)
//	check <i>                   -> ok | dup | unknown    CheckTx for transaction i through the validator actor
//	reopen                      -> ok    stores closed, ledger reopened from disk (the in-memory block/transaction cache is cold)
//	closestore                  -> ok    the ledger's stores are closed under the running validator: lookups that reach
//	                                     LevelDB now fail (leveldb: closed); the case ends after the following checks
//
// Oracle: at every check the verdict must equal ledger.IsContainTransaction at that moment, and must equal the
// harness's own set of committed transactions.
type statefulFam struct {
	dir       string
	pid       *actor.PID
	serial    int
	committed map[int]bool
}

type stKey struct {
	priv *ec.PrivateKey
	pub  keypair.PublicKey
	id   string
}

var (
	stKeys []*stKey
	stTxs  []*types.Transaction
)

func init() { families["stateful"] = func() hx.Family { return &statefulFam{} } }

// genesisBlock is the default-configuration genesis block (used by the blockdigest family).
func genesisBlock() *types.Block {
	bk, err := config.DefConfig.GetBookkeepers()
	if err != nil {
		panic(err)
	}
	b, err := genesis.BuildGenesisBlock(bk, config.DefConfig.Genesis)
	if err != nil {
		panic(err)
	}
	return b
}

func stSetup() {
	if stKeys != nil {
		return
	}
	log.InitLog(log.FatalLog)
	config.DefConfig.P2PNode.NetworkId = config.NETWORK_ID_TEST_NET
	config.DefConfig.Genesis.ConsensusType = config.CONSENSUS_TYPE_VBFT
	for i := 0; i < 4; i++ {
		d := sha256.Sum256([]byte(fmt.Sprintf("polyverif-kv-stateful-key-%d", i)))
		d[0] &= 0x7f
		pk := ec.ConstructPrivateKey(d[:], elliptic.P256())
		priv := &ec.PrivateKey{Algorithm: ec.ECDSA, PrivateKey: pk}
		pub := &ec.PublicKey{Algorithm: ec.ECDSA, PublicKey: &pk.PublicKey}
		stKeys = append(stKeys, &stKey{priv: priv, pub: pub, id: vconfig.PubkeyID(pub)})
	}
	native.Contracts[bdAddr] = func(s *native.NativeService) { s.Register("run", bdRun) }
}

func stChainID() uint64 { return config.GetChainIdByNetId(config.DefConfig.P2PNode.NetworkId) }

func stPayload(withCfg bool) []byte {
	info := &vconfig.VbftBlockInfo{Proposer: 0, LastConfigBlockNum: 0}
	if withCfg {
		cc := &vconfig.ChainConfig{Version: 1, View: 1, N: 4, C: 1, Peers: []*vconfig.PeerConfig{}}
		for i, k := range stKeys {
			cc.Peers = append(cc.Peers, &vconfig.PeerConfig{Index: uint32(i + 1), ID: k.id})
		}
		info.NewChainConfig = cc
	}
	b, _ := json.Marshal(info)
	return b
}

// stTx returns test transaction i: an invocation of the scripted contract that stores one key.
func stTx(i int) *types.Transaction {
	for len(stTxs) <= i {
		n := len(stTxs)
		prog := []byte{1, 2, 0x73, byte(n), 1, byte(n)} // Put("s"+n, n)
		ip := &states.ContractInvokeParam{Address: bdAddr, Method: "run", Args: prog}
		code := common.NewZeroCopySink(nil)
		ip.Serialization(code)
		tx := &types.Transaction{Version: types.CURR_TX_VERSION, TxType: types.Invoke, Nonce: uint32(5000 + n), ChainID: stChainID(),
			Payload: &payload.InvokeCode{Code: code.Bytes()}}
		sink := common.NewZeroCopySink(nil)
		if err := tx.Serialization(sink); err != nil {
			panic(err)
		}
		t2, err := types.TransactionFromRawBytes(sink.Bytes())
		if err != nil {
			panic(err)
		}
		for _, o := range stTxs {
			if o.Hash() == t2.Hash() {
				panic("test transactions must have distinct hashes")
			}
		}
		stTxs = append(stTxs, t2)
	}
	return stTxs[i]
}

func (f *statefulFam) Reset(r *hx.Run) { f.close() }

func (f *statefulFam) close() {
	if ledger.DefLedger != nil && f.dir != "" {
		func() {
			defer func() { recover() }()
			ledger.DefLedger.Close()
		}()
		ledger.DefLedger = nil
		os.RemoveAll(f.dir)
		f.dir = ""
	}
}

// stBuildBlock builds the next block on l's tip with the given transactions and signs it with all validators
// (the harness in the role of the consensus).
func stBuildBlock(l *ledger.Ledger, txs []*types.Transaction) (*types.Block, error) {
	cur := l.GetCurrentBlockHeight()
	prev := l.GetCurrentBlockHash()
	xroot, err := l.GetCrossStateRoot(cur)
	if err != nil {
		return nil, err
	}
	hdr := &types.Header{Version: 0, ChainID: stChainID(), PrevBlockHash: prev, Timestamp: 1000 + cur + 1, Height: cur + 1,
		ConsensusData: uint64(cur) + 8, ConsensusPayload: stPayload(false),
		BlockRoot:      l.GetBlockRootWithPreBlockHashes(cur+1, []common.Uint256{prev}),
		CrossStateRoot: xroot}
	blk := &types.Block{Header: hdr, Transactions: txs}
	blk.RebuildMerkleRoot()
	h := hdr.Hash()
	for _, k := range stKeys {
		hdr.Bookkeepers = append(hdr.Bookkeepers, k.pub)
		sg, err := osig.Sign(osig.SHA256withECDSA, k.priv, h[:], nil)
		if err != nil {
			return nil, err
		}
		raw, err := osig.Serialize(sg)
		if err != nil {
			return nil, err
		}
		hdr.SigData = append(hdr.SigData, raw)
	}
	return blk, nil
}

// stNewLedger opens a fresh ledger under dir initialised with the empty VBFT genesis block of the 4 test validators.
func stNewLedger(dir string) (*ledger.Ledger, error) {
	stSetup()
	l, err := ledger.NewLedger(filepath.Join(dir, "chain"))
	if err != nil {
		return nil, err
	}
	gen := &types.Block{Header: &types.Header{Version: 0, ChainID: stChainID(), Timestamp: 1000, Height: 0, ConsensusData: 7,
		ConsensusPayload: stPayload(true)}}
	gen.RebuildMerkleRoot()
	pubs := []keypair.PublicKey{}
	for _, k := range stKeys {
		pubs = append(pubs, k.pub)
	}
	if err := l.Init(pubs, gen); err != nil {
		return nil, err
	}
	return l, nil
}

func (f *statefulFam) commit(kind string, idx []int) error {
	l := ledger.DefLedger
	cur := l.GetCurrentBlockHeight()
	var txs []*types.Transaction
	for _, i := range idx {
		txs = append(txs, stTx(i))
	}
	blk, err := stBuildBlock(l, txs)
	if err != nil {
		return err
	}
	res, err := l.ExecuteBlock(blk)
	if err != nil {
		return err
	}
	if kind == "s" {
		err = l.SubmitBlock(blk, res)
	} else {
		err = l.AddBlock(blk, res.MerkleRoot)
	}
	if err != nil {
		return err
	}
	if l.GetCurrentBlockHeight() != cur+1 {
		return fmt.Errorf("height did not advance")
	}
	return nil
}

func (f *statefulFam) Exec(r *hx.Run, op []string) string {
	switch op[0] {
	case "ledger":
		f.close()
		dir, err := os.MkdirTemp("", "hkv-stateful-")
		if err != nil {
			panic(err)
		}
		f.dir = dir
		l, err := stNewLedger(dir)
		if err != nil {
			panic(err)
		}
		ledger.DefLedger = l
		f.committed = map[int]bool{}
		f.serial++
		id := fmt.Sprintf("hkv-stateful-%d", f.serial)
		if _, err := stateful.NewValidator(id); err != nil {
			panic(err)
		}
		f.pid = actor.NewLocalPID(id)
		return "ok"
	case "reopen":
		func() {
			defer func() { recover() }()
			ledger.DefLedger.Close()
		}()
		l, err := stNewLedger(f.dir) // same directory: Init finds the stored genesis block and loads the chain
		if err != nil {
			return "err:" + strings.ReplaceAll(err.Error(), " ", "_")
		}
		ledger.DefLedger = l
		return "ok"
	case "closestore":
		if err := ledger.DefLedger.Close(); err != nil {
			return "err:" + strings.ReplaceAll(err.Error(), " ", "_")
		}
		return "ok"
	case "commit":
		var idx []int
		for _, t := range op[2:] {
			i, _ := strconv.Atoi(t)
			idx = append(idx, i)
		}
		if err := f.commit(op[1], idx); err != nil {
			return "err:" + strings.ReplaceAll(err.Error(), " ", "_")
		}
		for _, i := range idx {
			f.committed[i] = true
		}
		return "ok"
	case "check":
		i, _ := strconv.Atoi(op[1])
		tx := stTx(i)
		fut := f.pid.RequestFuture(&vatypes.CheckTx{WorkerId: 3, Tx: tx}, 10*time.Second)
		res, err := fut.Result()
		if err != nil {
			return "timeout"
		}
		rsp, ok := res.(*vatypes.CheckResponse)
		if !ok {
			return "bad-response"
		}
		out := "unknown"
		switch rsp.ErrCode {
		case errors.ErrNoError:
			out = "ok"
		case errors.ErrDuplicatedTx:
			out = "dup"
		}
		in, err := ledger.DefLedger.IsContainTransaction(tx.Hash())
		if err != nil && out != "unknown" {
			// the verdict may be ok only if the ledger positively answered "not contained"
			r.Viol(fmt.Sprintf("C38:stateful-verdict-%s-despite-lookup-error:committed=%v", out, f.committed[i]),
				fmt.Sprintf("ledger.IsContainTransaction(tx %d) fails with %q, yet stateful validation answered %s (transaction committed by the harness: %v)",
					i, err.Error(), out, f.committed[i]))
		}
		if err == nil && in != (out == "dup") {
			r.Viol(fmt.Sprintf("C38:stateful-verdict-differs-from-ledger:in-ledger=%v:verdict=%s", in, out),
				fmt.Sprintf("stateful validation of transaction %d (%x) answered %s at height %d, but ledger.IsContainTransaction is %v at that moment",
					i, tx.Hash(), out, ledger.DefLedger.GetCurrentBlockHeight(), in))
		}
		if err == nil && in != f.committed[i] {
			r.Viol("C38:ledger-transaction-index-differs-from-committed-blocks",
				fmt.Sprintf("IsContainTransaction(tx %d) = %v, committed by the harness: %v", i, in, f.committed[i]))
		}
		if rsp.Hash != tx.Hash() || rsp.WorkerId != 3 || rsp.Type != vatypes.Stateful {
			r.Viol("C38:stateful-response-mislabelled", "response does not carry the request's hash / worker id / type")
		}
		return out
	}
	return "bad-op"
}

func min(a, b int) int {
	if a < b {
		return a
	}
	return b
}

func (f *statefulFam) Gen(r *hx.Run) {
	r.Rule("real ledgers growing by signed blocks; CheckTx through the stateful validator actor before and after the transaction is committed, with blocks that do / do not contain it, " +
		"with and without checks of other fresh or committed transactions in between, both commit paths; distinct non-trivial = distinct (transaction, committed?, checked-before?, interleaving) situations")
	commitKinds := []string{"s", "a"}
	nCases := r.Pick(6, 60)
	for c := 0; c < nCases; c++ {
		r.Case(fmt.Sprintf("ledger-%d", c))
		r.Do("ledger")
		next := 0 // transactions >= next were never used in this case
		fresh := func() int { next++; return next - 1 }
		var pendingChecked []int // checked while absent, not yet committed
		var committed []int
		steps := r.Pick(14, 40)
		// scripted core: check(T) -> commit(T) -> check(T), with the interleavings that matter
		for _, inter := range []string{"none", "other-fresh", "other-committed", "empty-block", "block-without-T"} {
			t := fresh()
			r.Do(fmt.Sprintf("check %d", t))
			switch inter {
			case "other-fresh":
				r.Do(fmt.Sprintf("check %d", fresh()))
			case "other-committed":
				if len(committed) > 0 {
					r.Do(fmt.Sprintf("check %d", committed[r.Rng.Intn(len(committed))]))
				}
			case "empty-block":
				r.Do("commit " + commitKinds[r.Rng.Intn(2)])
				r.Do(fmt.Sprintf("check %d", t))
			case "block-without-T":
				o := fresh()
				r.Do(fmt.Sprintf("commit %s %d", commitKinds[r.Rng.Intn(2)], o))
				committed = append(committed, o)
				r.Do(fmt.Sprintf("check %d", t))
			}
			r.Do(fmt.Sprintf("commit %s %d", commitKinds[r.Rng.Intn(2)], t))
			committed = append(committed, t)
			r.Do(fmt.Sprintf("check %d", t))
			r.Do(fmt.Sprintf("check %d", t))
			r.Nontrivial("core:" + inter)
		}
		// random continuation
		for s := 0; s < steps; s++ {
			switch x := r.Rng.Intn(100); {
			case x < 25:
				t := fresh()
				r.Do(fmt.Sprintf("check %d", t))
				pendingChecked = append(pendingChecked, t)
				r.Nontrivial("check-fresh")
			case x < 40 && len(pendingChecked) > 0:
				t := pendingChecked[r.Rng.Intn(len(pendingChecked))]
				r.Do(fmt.Sprintf("check %d", t))
				r.Nontrivial("recheck-absent")
			case x < 60 && len(committed) > 0:
				r.Do(fmt.Sprintf("check %d", committed[r.Rng.Intn(len(committed))]))
				r.Nontrivial("check-committed")
			case x < 85:
				// commit a block: some previously checked absent transactions, some never seen, maybe none
				var idx []string
				k := r.Rng.Intn(4)
				for j := 0; j < k; j++ {
					if len(pendingChecked) > 0 && r.Rng.Bool() {
						p := r.Rng.Intn(len(pendingChecked))
						t := pendingChecked[p]
						pendingChecked = append(pendingChecked[:p], pendingChecked[p+1:]...)
						idx = append(idx, strconv.Itoa(t))
						committed = append(committed, t)
						r.Nontrivial("commit-checked")
					} else {
						t := fresh()
						idx = append(idx, strconv.Itoa(t))
						committed = append(committed, t)
						r.Nontrivial("commit-unseen")
					}
				}
				r.Do(strings.TrimSpace(fmt.Sprintf("commit %s %s", commitKinds[r.Rng.Intn(2)], strings.Join(idx, " "))))
				// immediately re-check one of them half of the time
				if len(idx) > 0 && r.Rng.Bool() {
					r.Do("check " + idx[r.Rng.Intn(len(idx))])
				}
			default:
				r.Do("commit " + commitKinds[r.Rng.Intn(2)])
			}
		}
		for _, t := range committed {
			if r.Rng.Chance(1, 2) {
				r.Do(fmt.Sprintf("check %d", t))
			}
		}
		for _, t := range pendingChecked {
			r.Do(fmt.Sprintf("check %d", t))
		}
		// fault ending: cold cache (reopen), optionally more blocks (warm for those only), then the stores are closed
		// under the running validator and committed / fresh transactions are checked
		if c%2 == 0 || r.Rng.Bool() {
			r.Do("reopen")
			for _, t := range committed[:min(len(committed), 3)] {
				r.Do(fmt.Sprintf("check %d", t))
			}
			var warm []int
			if r.Rng.Bool() {
				t := fresh()
				r.Do(fmt.Sprintf("commit %s %d", commitKinds[r.Rng.Intn(2)], t))
				warm = append(warm, t)
			}
			r.Do("closestore")
			for _, t := range warm {
				r.Do(fmt.Sprintf("check %d", t)) // still answered from the in-memory cache
			}
			for k := 0; k < 4 && len(committed) > 0; k++ {
				r.Do(fmt.Sprintf("check %d", committed[r.Rng.Intn(len(committed))]))
			}
			r.Do(fmt.Sprintf("check %d", fresh()))
			r.Do(fmt.Sprintf("check %d", fresh()))
			r.Nontrivial(fmt.Sprintf("fault:warm=%d", len(warm)))
		}
	}
	f.close()
}
