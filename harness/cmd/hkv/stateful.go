package main

import (
	"fmt"
	"os"
	"path/filepath"
	"strconv"
	"time"

	"github.com/ontio/ontology-eventbus/actor"
	"github.com/polynetwork/poly/common/config"
	"github.com/polynetwork/poly/common/log"
	"github.com/polynetwork/poly/core/genesis"
	"github.com/polynetwork/poly/core/ledger"
	"github.com/polynetwork/poly/core/types"
	"github.com/polynetwork/poly/errors"
	"github.com/polynetwork/poly/validator/stateful"
	vatypes "github.com/polynetwork/poly/validator/types"
	"polyverif/internal/hx"
)

// Family stateful (C38, last clause): the real stateful validator actor over a real ledger that holds the
// genesis block.
//
//	ledger <n>        -> ok    fresh ledger in $TMPDIR initialised with the genesis block (n transactions), DefLedger set,
//	                           validator actor spawned
//	check g <i>       -> ok | dup | unknown    CheckTx for the i-th genesis transaction
//	check n <i>       -> ...                   CheckTx for a transaction that is not in the ledger
type statefulFam struct {
	dir    string
	pid    *actor.PID
	gen    *types.Block
	serial int
}

func init() { families["stateful"] = func() hx.Family { return &statefulFam{} } }

func genesisBlock() *types.Block {
	bk, err := config.DefConfig.GetBookkeepers()
	if err != nil {
		panic(err)
	}
	b, err := genesis.BuildGenesisBlock(bk, config.DefConfig.Genesis)
	if err != nil {
		panic(err)
	}
	return b
}

func (f *statefulFam) Reset(r *hx.Run) {
	f.close()
}

func (f *statefulFam) close() {
	if ledger.DefLedger != nil && f.dir != "" {
		ledger.DefLedger.Close()
		ledger.DefLedger = nil
		os.RemoveAll(f.dir)
		f.dir = ""
	}
}

func (f *statefulFam) Exec(r *hx.Run, op []string) string {
	switch op[0] {
	case "ledger":
		log.InitLog(log.FatalLog)
		f.close()
		dir, err := os.MkdirTemp("", "hkv-stateful-")
		if err != nil {
			panic(err)
		}
		f.dir = dir
		l, err := ledger.NewLedger(filepath.Join(dir, "chain"))
		if err != nil {
			panic(err)
		}
		ledger.DefLedger = l
		bk, _ := config.DefConfig.GetBookkeepers()
		f.gen = genesisBlock()
		if err := l.Init(bk, f.gen); err != nil {
			panic(err)
		}
		n, _ := strconv.Atoi(op[1])
		if len(f.gen.Transactions) != n {
			return fmt.Sprintf("genesis-has-%d-transactions", len(f.gen.Transactions))
		}
		f.serial++
		id := fmt.Sprintf("hkv-stateful-%d", f.serial)
		if _, err := stateful.NewValidator(id); err != nil {
			panic(err)
		}
		f.pid = actor.NewLocalPID(id)
		return "ok"
	case "check":
		i, _ := strconv.Atoi(op[2])
		var tx *types.Transaction
		if op[1] == "g" {
			tx = f.gen.Transactions[i]
		} else {
			tx = incTx(i)
		}
		fut := f.pid.RequestFuture(&vatypes.CheckTx{WorkerId: 3, Tx: tx}, 10*time.Second)
		res, err := fut.Result()
		if err != nil {
			return "timeout"
		}
		rsp, ok := res.(*vatypes.CheckResponse)
		if !ok {
			return "bad-response"
		}
		out := "unknown"
		switch rsp.ErrCode {
		case errors.ErrNoError:
			out = "ok"
		case errors.ErrDuplicatedTx:
			out = "dup"
		}
		in, err := ledger.DefLedger.IsContainTransaction(tx.Hash())
		if err == nil && in != (out == "dup") {
			r.Viol("C38:stateful-verdict-differs-from-ledger:in-ledger="+strconv.FormatBool(in),
				fmt.Sprintf("stateful validation of %x answered %s, ledger contains it: %v", tx.Hash(), out, in))
		}
		if op[1] == "g" && out != "dup" {
			r.Viol("C38:stateful-accepts-included-tx", fmt.Sprintf("genesis transaction %d passed stateful validation (%s)", i, out))
		}
		if op[1] == "n" && out != "ok" {
			r.Viol("C38:stateful-rejects-fresh-tx", fmt.Sprintf("a transaction that is not in the ledger got %s", out))
		}
		if rsp.Hash != tx.Hash() || rsp.WorkerId != 3 || rsp.Type != vatypes.Stateful {
			r.Viol("C38:stateful-response-mislabelled", "response does not carry the request's hash / worker id / type")
		}
		return out
	}
	return "bad-op"
}

func (f *statefulFam) Gen(r *hx.Run) {
	r.Rule("one real ledger per case holding the genesis block; CheckTx through the stateful validator actor for every genesis transaction and for transactions not in the ledger; distinct non-trivial = distinct queried transactions")
	n := len(genesisBlock().Transactions)
	for c := 0; c < r.Pick(2, 6); c++ {
		r.Case(fmt.Sprintf("ledger-%d", c))
		r.Do(fmt.Sprintf("ledger %d", n))
		for k := 0; k < r.Pick(20, 200); k++ {
			if r.Rng.Bool() && n > 0 {
				i := r.Rng.Intn(n)
				r.Do(fmt.Sprintf("check g %d", i))
				r.Nontrivial(fmt.Sprintf("g%d", i))
			} else {
				i := r.Rng.Intn(40)
				r.Do(fmt.Sprintf("check n %d", i))
				r.Nontrivial(fmt.Sprintf("n%d", i))
			}
		}
	}
	f.close()
}
