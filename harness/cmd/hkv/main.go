// hkv: correspondence harness for the key/value layers (overlaydb.MemDB, OverlayDB, native/storage CacheDB,
// the join iterator, the change digest) and the incremental validator. One family per file.
package main

import "polyverif/internal/hx"

var families = map[string]func() hx.Family{}

func main() { hx.Main(families) }
