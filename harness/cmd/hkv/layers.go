package main

import (
	"bytes"
	"fmt"
	"sort"
	"strings"

	scom "github.com/polynetwork/poly/core/store/common"
	"github.com/polynetwork/poly/core/store/leveldbstore"
	"github.com/polynetwork/poly/core/store/overlaydb"
	"github.com/polynetwork/poly/native/storage"
	"github.com/syndtr/goleveldb/leveldb/util"
	"polyverif/internal/hx"
)

// faultIter wraps a store iterator and starts failing at its failAt-th positioning call (0 = never).
type faultIter struct {
	scom.StoreIterator
	calls, failAt int
	err           error
}

var errInjected = fmt.Errorf("injected iterator failure")

func (it *faultIter) step(f func() bool) bool {
	it.calls++
	if it.failAt != 0 && it.calls >= it.failAt {
		it.err = errInjected
		return false
	}
	return f()
}
func (it *faultIter) First() bool { return it.step(it.StoreIterator.First) }
func (it *faultIter) Next() bool  { return it.step(it.StoreIterator.Next) }
func (it *faultIter) Key() []byte {
	if it.err != nil {
		return nil
	}
	return it.StoreIterator.Key()
}
func (it *faultIter) Value() []byte {
	if it.err != nil {
		return nil
	}
	return it.StoreIterator.Value()
}
func (it *faultIter) Error() error {
	if it.err != nil {
		return it.err
	}
	return it.StoreIterator.Error()
}

// Family layers (C10): a real LevelDBStore (goleveldb over in-memory storage) + OverlayDB + CacheDB against the
// model (drv_kv layers) and against three plain Go maps.
//
//	sput k v | sdel k | sget k | sscan p          store (LevelDB) directly
//	oput k v | odel k | oget k | oscan p | oit p <F/N script> | ocommit | ocommitnobatch | oreset
//	cput k v | cdel k | cget k | cscan p | cit p <F/N script> | ccommit | creset
type layersFam struct {
	store *leveldbstore.LevelDBStore
	ov    *overlaydb.OverlayDB
	cache *storage.CacheDB
	rs    map[string][]byte // reference: store contents
	ro    map[string][]byte // reference: overlay writes (empty = tombstone)
	rc    map[string][]byte // reference: cache writes, keys WITH the ST_STORAGE prefix
	oj    scom.StoreIterator // open OverlayDB iterator stepped between writes (ojopen/ojfirst/ojnext)
	cj    scom.StoreIterator // open CacheDB iterator stepped between writes
	ojLast, cjLast []byte    // last key yielded with true since the last First (nil = none)
	nCases int
}

func init() { families["layers"] = func() hx.Family { return &layersFam{} } }

func (f *layersFam) Reset(r *hx.Run) {
	// One LevelDB (in-memory storage) and one OverlayDB (4 MiB arena) per run; a new case empties them.
	f.nCases++
	if f.store != nil && f.nCases%2000 == 0 {
		f.store.Close()
		f.store = nil
	}
	if f.store == nil {
		st, err := leveldbstore.NewMemLevelDBStore()
		if err != nil {
			panic(err)
		}
		f.store = st
		f.ov = overlaydb.NewOverlayDB(st)
		f.cache = storage.NewCacheDB(f.ov)
	} else {
		it := f.store.NewIterator(nil)
		var keys [][]byte
		for ok := it.First(); ok; ok = it.Next() {
			keys = append(keys, append([]byte{}, it.Key()...))
		}
		it.Release()
		for _, k := range keys {
			if err := f.store.Delete(k); err != nil {
				panic(err)
			}
		}
		f.ov.Reset()
		f.cache.Reset()
	}
	f.rs, f.ro, f.rc = map[string][]byte{}, map[string][]byte{}, map[string][]byte{}
	f.closeLive()
}

func (f *layersFam) closeLive() {
	if f.oj != nil {
		f.oj.Release()
		f.oj = nil
	}
	if f.cj != nil {
		f.cj.Release()
		f.cj = nil
	}
	f.ojLast, f.cjLast = nil, nil
}

// liveStep performs First/Next on an iterator that stays open across writes and checks that yielded keys
// strictly increase after a First (the join never goes back, whatever is written in between).
func (f *layersFam) liveStep(r *hx.Run, it scom.StoreIterator, last *[]byte, first bool, what string) string {
	if it == nil {
		return "closed"
	}
	var ok bool
	if first {
		ok = it.First()
		*last = nil
	} else {
		ok = it.Next()
	}
	if ok {
		k := append([]byte{}, it.Key()...)
		if len(it.Value()) == 0 {
			r.Viol("C10:live-iterator-yields-empty-value:"+what, fmt.Sprintf("%s iterator yielded key %x with an empty value", what, k))
		}
		if !first && *last != nil && bytes.Compare(*last, k) >= 0 {
			r.Viol("C10:live-iterator-goes-back:"+what, fmt.Sprintf("%s iterator yielded %x after %x", what, k, *last))
		}
		*last = k
		return fmt.Sprintf("t %s %s", hx.Hex(it.Key()), hx.Hex(it.Value()))
	}
	// after a false return Key()/Value() are not meaningful: a re-First that finds nothing leaves the previous key
	// slice in place, and that slice aliases a goleveldb buffer that has been reused since
	return "f"
}

func collectIter(it scom.StoreIterator) []kv {
	var out []kv
	for ok := it.First(); ok; ok = it.Next() {
		out = append(out, kv{append([]byte{}, it.Key()...), append([]byte{}, it.Value()...)})
		if len(out) > 10000 {
			panic("iterator does not terminate")
		}
	}
	it.Release()
	return out
}

func script(it scom.StoreIterator, s string) string {
	var parts []string
	for _, c := range s {
		var ok bool
		if c == 'F' {
			ok = it.First()
		} else {
			ok = it.Next()
		}
		b := "f"
		if ok {
			b = "t"
		}
		parts = append(parts, fmt.Sprintf("%s %s %s", b, hx.Hex(it.Key()), hx.Hex(it.Value())))
	}
	it.Release()
	return strings.Join(parts, " | ")
}

// visible value of a raw key through the overlay, by the reference maps
func (f *layersFam) refOv(k string) []byte {
	if v, ok := f.ro[k]; ok {
		return v
	}
	return f.rs[k]
}

func (f *layersFam) refCache(pk string) []byte {
	if v, ok := f.rc[pk]; ok {
		return v
	}
	return f.refOv(pk)
}

// refScan: visible live keys with the prefix, in byte order, newest value.
func refScan(prefix []byte, view func(string) []byte, layers ...map[string][]byte) []kv {
	seen := map[string]bool{}
	var keys []string
	for _, m := range layers {
		for k := range m {
			if !seen[k] && bytes.HasPrefix([]byte(k), prefix) {
				seen[k] = true
				keys = append(keys, k)
			}
		}
	}
	sort.Slice(keys, func(i, j int) bool { return bytes.Compare([]byte(keys[i]), []byte(keys[j])) < 0 })
	var out []kv
	for _, k := range keys {
		if v := view(k); len(v) != 0 {
			out = append(out, kv{[]byte(k), v})
		}
	}
	return out
}

func (f *layersFam) Exec(r *hx.Run, op []string) string {
	switch op[0] {
	case "sput":
		k, v := hx.UnHex(op[1]), hx.UnHex(op[2])
		if err := f.store.Put(k, v); err != nil {
			return "err"
		}
		f.rs[string(k)] = v
		return "ok"
	case "sdel":
		k := hx.UnHex(op[1])
		if err := f.store.Delete(k); err != nil {
			return "err"
		}
		delete(f.rs, string(k))
		return "ok"
	case "sget":
		k := hx.UnHex(op[1])
		v, err := f.store.Get(k)
		rv, ok := f.rs[string(k)]
		if err != nil {
			if err != scom.ErrNotFound {
				return "err"
			}
			if ok {
				r.Viol("C10:store-lost-key", fmt.Sprintf("store.Get(%x) not found, reference has %x", k, rv))
			}
			return "notfound"
		}
		if !ok || !bytes.Equal(v, rv) {
			r.Viol("C10:store-get-differs", fmt.Sprintf("store.Get(%x) = %x, reference %x (present=%v)", k, v, rv, ok))
		}
		return hx.Hex(v)
	case "sscan":
		p := hx.UnHex(op[1])
		got := collectIter(f.store.NewIterator(p))
		want := refScan(p, func(k string) []byte { return []byte("x") }, f.rs)
		for i := range want {
			want[i].v = f.rs[string(want[i].k)]
		}
		if !sameKVs(got, want) {
			r.Viol("C10:store-scan-differs", fmt.Sprintf("store scan %x = %s, reference %s", p, showKVs(got), showKVs(want)))
		}
		return showKVs(got)
	case "oput":
		k, v := hx.UnHex(op[1]), hx.UnHex(op[2])
		f.ov.Put(k, v)
		f.ro[string(k)] = v
		return "ok"
	case "odel":
		k := hx.UnHex(op[1])
		f.ov.Delete(k)
		f.ro[string(k)] = []byte{}
		return "ok"
	case "oget":
		k := hx.UnHex(op[1])
		v, err := f.ov.Get(k)
		if err != nil {
			return "err"
		}
		if want := f.refOv(string(k)); !bytes.Equal(v, want) {
			_, inOv := f.ro[string(k)]
			r.Viol(fmt.Sprintf("C10:overlay-get-differs:written-in-overlay=%v:want-empty=%v", inOv, len(want) == 0),
				fmt.Sprintf("OverlayDB.Get(%x) = %x, newest layer says %x", k, v, want))
		}
		return hx.Hex(v)
	case "oscan":
		p := hx.UnHex(op[1])
		got := collectIter(f.ov.NewIterator(p))
		want := refScan(p, func(k string) []byte { return f.refOv(k) }, f.ro, f.rs)
		if !sameKVs(got, want) {
			r.Viol("C10:overlay-scan-differs", fmt.Sprintf("OverlayDB prefix scan %x = %s, visible live keys are %s", p, showKVs(got), showKVs(want)))
		}
		return showKVs(got)
	case "oit":
		return script(f.ov.NewIterator(hx.UnHex(op[1])), op[2])
	case "ocommit":
		f.store.NewBatch()
		f.ov.CommitTo()
		if err := f.store.BatchCommit(); err != nil {
			return "err"
		}
		for k, v := range f.ro {
			if len(v) == 0 {
				delete(f.rs, k)
			} else {
				f.rs[k] = v
			}
		}
		return "ok"
	case "ocommitnobatch":
		f.ov.CommitTo() // panics (nil batch) unless the buffer is empty
		return "ok"
	case "ofail":
		// JoinIter over the overlay buffer and a store iterator that fails at its k-th positioning call
		p := hx.UnHex(op[1])
		var k int
		fmt.Sscan(op[2], &k)
		back := &faultIter{StoreIterator: f.store.NewIterator(p), failAt: k}
		it := overlaydb.NewJoinIter(f.ov.GetWriteSet().NewIterator(util.BytesPrefix(p)), back)
		var parts []string
		var yields []kv
		failed, plain := false, true
		for i, c := range op[3] {
			var ok bool
			if c == 'F' {
				ok = it.First()
			} else {
				ok = it.Next()
			}
			if (i == 0) != (c == 'F') {
				plain = false
			}
			e := "-"
			if it.Error() != nil {
				e = "E"
			}
			if ok && e == "E" {
				r.Viol("C10:join-yields-with-error-set", fmt.Sprintf("JoinIter returned true at step %d while Error() is non-nil", i))
			}
			if failed && (ok || e != "E") {
				r.Viol("C10:join-continues-after-iterator-error", fmt.Sprintf("after a sub-iterator failed, step %d returned %v / Error()=%s", i, ok, e))
			}
			if e == "E" {
				failed = true
			}
			if ok {
				yields = append(yields, kv{append([]byte{}, it.Key()...), append([]byte{}, it.Value()...)})
			}
			b := "f"
			if ok {
				b = "t"
			}
			parts = append(parts, fmt.Sprintf("%s %s %s %s", b, hx.Hex(it.Key()), hx.Hex(it.Value()), e))
		}
		it.Release()
		if plain {
			want := refScan(p, func(k string) []byte { return f.refOv(k) }, f.ro, f.rs)
			if len(yields) > len(want) || !sameKVs(yields, want[:len(yields)]) {
				r.Viol("C10:join-error-scan-not-a-prefix", fmt.Sprintf("scan with a failing store iterator yields %s, the full scan is %s", showKVs(yields), showKVs(want)))
			}
			if !failed && len(op[3]) > len(want)+1 && len(yields) != len(want) {
				r.Viol("C10:join-scan-incomplete-without-error", "scan stopped early although no iterator reported an error")
			}
		}
		return strings.Join(parts, " | ")
	case "ojopen":
		if f.oj != nil {
			f.oj.Release()
		}
		f.oj = f.ov.NewIterator(hx.UnHex(op[1]))
		f.ojLast = nil
		return "ok"
	case "ojfirst", "ojnext":
		return f.liveStep(r, f.oj, &f.ojLast, op[0] == "ojfirst", "overlay")
	case "cjopen":
		if f.cj != nil {
			f.cj.Release()
		}
		f.cj = f.cache.NewIterator(hx.UnHex(op[1]))
		f.cjLast = nil
		return "ok"
	case "cjfirst", "cjnext":
		return f.liveStep(r, f.cj, &f.cjLast, op[0] == "cjfirst", "cache")
	case "oreset":
		f.closeLive() // Reset truncates the arenas under an open iterator: not a supported use
		f.ov.Reset()
		f.ro = map[string][]byte{}
		return "ok"
	case "cput":
		k, v := hx.UnHex(op[1]), hx.UnHex(op[2])
		f.cache.Put(k, v)
		f.rc["\x05"+string(k)] = v
		return "ok"
	case "cdel":
		k := hx.UnHex(op[1])
		f.cache.Delete(k)
		f.rc["\x05"+string(k)] = []byte{}
		return "ok"
	case "cget":
		k := hx.UnHex(op[1])
		v, err := f.cache.Get(k)
		if err != nil {
			return "err"
		}
		if want := f.refCache("\x05" + string(k)); !bytes.Equal(v, want) {
			_, inC := f.rc["\x05"+string(k)]
			r.Viol(fmt.Sprintf("C10:cache-get-differs:written-in-cache=%v:want-empty=%v", inC, len(want) == 0),
				fmt.Sprintf("CacheDB.Get(%x) = %x, newest layer says %x", k, v, want))
		}
		return hx.Hex(v)
	case "cscan":
		p := hx.UnHex(op[1])
		got := collectIter(f.cache.NewIterator(p))
		want := refScan(append([]byte{5}, p...), func(k string) []byte { return f.refCache(k) }, f.rc, f.ro, f.rs)
		for i := range want {
			want[i].k = want[i].k[1:]
		}
		if !sameKVs(got, want) {
			r.Viol("C10:cache-scan-differs", fmt.Sprintf("CacheDB prefix scan %x = %s, visible live keys are %s", p, showKVs(got), showKVs(want)))
		}
		return showKVs(got)
	case "cit":
		return script(f.cache.NewIterator(hx.UnHex(op[1])), op[2])
	case "ccommit":
		f.cache.Commit()
		for k, v := range f.rc {
			f.ro[k] = v
		}
		return "ok"
	case "creset":
		if f.cj != nil {
			f.cj.Release()
			f.cj = nil
		}
		f.cache.Reset()
		f.rc = map[string][]byte{}
		return "ok"
	}
	return "bad-op"
}

var rawKeys = []string{"05", "0561", "056161", "056162", "0562", "05ff", "05ffff", "06", "04ff", "-", "ff", "61"}
var cacheKeys = []string{"-", "61", "6161", "6162", "62", "ff", "ffff"}
var rawPrefixes = []string{"-", "05", "0561", "05ff", "0562", "ff", "06", "04", "056161", "05ffff", "0500"}
var cachePrefixes = []string{"-", "61", "ff", "6161", "62", "ffff", "00"}
var layVals = []string{"-", "01", "0202", "0303"}

func rndScript(r *hx.Run) string {
	n := 1 + r.Rng.Intn(9)
	b := make([]byte, n)
	for i := range b {
		if r.Rng.Chance(1, 5) {
			b[i] = 'F'
		} else {
			b[i] = 'N'
		}
	}
	if r.Rng.Chance(3, 4) {
		b[0] = 'F'
	}
	return string(b)
}

func (f *layersFam) probe(r *hx.Run) {
	for _, p := range []string{"-", "05", "0561", "05ff"} {
		r.Do("oscan " + p)
	}
	for _, p := range []string{"-", "61", "ff"} {
		r.Do("cscan " + p)
	}
}

func (f *layersFam) Gen(r *hx.Run) {
	r.Rule("(a) every assignment of {absent,value} in the store x {unknown,tombstone,value} in the overlay buffer to 4 keys under one prefix, scanned and read through both layers; " +
		"(b) the same with the cache layer added over 3 keys (all 18^3 in the thorough tier, a sample in quick); " +
		"(c) random sequences of store/overlay/cache writes, deletes, commits, resets, point reads, prefix scans and First/Next scripts over a small alphabet with prefix relations; " +
		"(d) OverlayDB / CacheDB iterators kept open and stepped (First/Next) while the buffers and the store are written in between (the buffer side is live, the store side a snapshot); " +
		"distinct non-trivial = distinct (store, overlay, cache) contents reached with at least two layers non-empty, and distinct live-iterator scenarios")
	// (a) exhaustive store x overlay states over 4 keys
	ks := []string{"0561", "056161", "0562", "05ff"}
	n := 0
	for code := 0; code < 6*6*6*6; code++ {
		n++
		r.Case(fmt.Sprintf("ex2-%d", code))
		c := code
		for _, k := range ks {
			st := c % 6
			c /= 6
			if st%2 == 1 {
				r.Do("sput " + k + " 0a")
			}
			switch st / 2 {
			case 1:
				r.Do("odel " + k)
			case 2:
				r.Do("oput " + k + " 0b")
			}
		}
		r.Do("oscan 05")
		r.Do("oscan 0561")
		r.Do("oscan -")
		r.Do("oit 05 FNNNNNN")
		r.Do(fmt.Sprintf("ofail 05 %d FNNNNNN", 1+code%5))
		r.Do("cscan -")
		for _, k := range ks {
			r.Do("oget " + k)
		}
		r.Do("ocommit")
		r.Do("sscan 05")
		r.Do("oscan 05")
		r.Do("oreset")
		r.Do("oscan 05")
		r.Nontrivial(fmt.Sprintf("ex2:%d", code))
	}
	// (b) three layers over 3 keys
	ks3 := []string{"61", "6161", "62"}
	total := 18 * 18 * 18
	cnt := r.Pick(600, total)
	for i := 0; i < cnt; i++ {
		code := i
		if cnt != total {
			code = r.Rng.Intn(total)
		}
		r.Case(fmt.Sprintf("ex3-%d", code))
		c := code
		for _, k := range ks3 {
			st := c % 18
			c /= 18
			if st%2 == 1 {
				r.Do("sput 05" + k + " 0a")
			}
			switch (st / 2) % 3 {
			case 1:
				r.Do("odel 05" + k)
			case 2:
				r.Do("oput 05" + k + " 0b")
			}
			switch st / 6 {
			case 1:
				r.Do("cdel " + k)
			case 2:
				r.Do("cput " + k + " 0c")
			}
		}
		r.Do("cscan -")
		r.Do("cscan 61")
		r.Do("cit - FNNNNN")
		for _, k := range ks3 {
			r.Do("cget " + k)
		}
		r.Do("ccommit")
		r.Do("oscan 05")
		r.Do("creset")
		r.Do("cscan -")
		for _, k := range ks3 {
			r.Do("cget " + k)
		}
		r.Nontrivial(fmt.Sprintf("ex3:%d", code))
	}
	// (c) random histories
	m := r.Pick(3000, 150000)
	for c := 0; c < m; c++ {
		r.Case(fmt.Sprintf("rnd-%d", c))
		L := 8 + r.Rng.Intn(30)
		sig := map[string]int{}
		for i := 0; i < L; i++ {
			rk := rawKeys[r.Rng.Intn(len(rawKeys))]
			ck := cacheKeys[r.Rng.Intn(len(cacheKeys))]
			v := layVals[r.Rng.Intn(len(layVals))]
			switch x := r.Rng.Intn(100); {
			case x < 12:
				if v == "-" && r.Rng.Chance(9, 10) {
					v = "0a" // an empty value stored in LevelDB itself is a rare corner
				}
				r.Do("sput " + rk + " " + v)
			case x < 15:
				r.Do("sdel " + rk)
			case x < 27:
				r.Do("oput " + rk + " " + v)
			case x < 33:
				r.Do("odel " + rk)
			case x < 45:
				r.Do("cput " + ck + " " + v)
			case x < 51:
				r.Do("cdel " + ck)
			case x < 57:
				r.Do("oget " + rk)
			case x < 63:
				r.Do("cget " + ck)
			case x < 66:
				r.Do("sget " + rk)
			case x < 72:
				r.Do("oscan " + rawPrefixes[r.Rng.Intn(len(rawPrefixes))])
			case x < 78:
				r.Do("cscan " + cachePrefixes[r.Rng.Intn(len(cachePrefixes))])
			case x < 80:
				r.Do("sscan " + rawPrefixes[r.Rng.Intn(len(rawPrefixes))])
			case x < 82:
				r.Do("oit " + rawPrefixes[r.Rng.Intn(len(rawPrefixes))] + " " + rndScript(r))
			case x < 83:
				sc := "F" + strings.Repeat("N", 2+r.Rng.Intn(8))
				if r.Rng.Chance(1, 4) {
					sc = rndScript(r)
				}
				r.Do(fmt.Sprintf("ofail %s %d %s", rawPrefixes[r.Rng.Intn(len(rawPrefixes))], r.Rng.Intn(6), sc))
			case x < 86:
				r.Do("cit " + cachePrefixes[r.Rng.Intn(len(cachePrefixes))] + " " + rndScript(r))
			case x < 90:
				r.Do("ccommit")
				sig["cc"]++
				if r.Rng.Chance(2, 3) {
					r.Do("creset")
				}
			case x < 93:
				r.Do("creset")
				sig["cr"]++
			case x < 96:
				r.Do("ocommit")
				sig["oc"]++
				if r.Rng.Chance(2, 3) {
					r.Do("oreset")
				}
			case x < 98:
				r.Do("oreset")
				sig["or"]++
			default:
				r.Do("ocommitnobatch")
			}
		}
		f.probe(r)
		if len(f.rs) > 0 && len(f.ro)+len(f.rc) > 0 || len(f.ro) > 0 && len(f.rc) > 0 {
			r.Nontrivial(fmt.Sprintf("rnd:%v:%v:%v", f.rs, f.ro, f.rc))
		}
		r.Hist(fmt.Sprintf("layers-nonempty.%d", b2i(len(f.rs) > 0)+b2i(len(f.ro) > 0)+b2i(len(f.rc) > 0)))
	}
	f.genLive(r)
}

// genLive: (d) iterators that stay open while the buffers (and the store) are written.
func (f *layersFam) genLive(r *hx.Run) {
	n := r.Pick(1500, 60000)
	for c := 0; c < n; c++ {
		r.Case(fmt.Sprintf("live-%d", c))
		for i := 0; i < 2+r.Rng.Intn(8); i++ {
			rk := rawKeys[r.Rng.Intn(len(rawKeys))]
			switch r.Rng.Intn(3) {
			case 0:
				r.Do("sput " + rk + " 0a")
			case 1:
				r.Do("oput " + rk + " " + layVals[r.Rng.Intn(len(layVals))])
			default:
				r.Do("cput " + cacheKeys[r.Rng.Intn(len(cacheKeys))] + " " + layVals[r.Rng.Intn(len(layVals))])
			}
		}
		cacheSide := r.Rng.Bool()
		open, first, next := "ojopen", "ojfirst", "ojnext"
		pfx := []string{"-", "05", "0561", "05ff"}[r.Rng.Intn(4)]
		if cacheSide {
			open, first, next = "cjopen", "cjfirst", "cjnext"
			pfx = []string{"-", "61", "ff"}[r.Rng.Intn(3)]
		}
		r.Do(open + " " + pfx)
		r.Do(first)
		// a second iterator of the other layer, open at the same time over the same buffers
		next2 := ""
		if r.Rng.Chance(1, 3) {
			if cacheSide {
				r.Do("ojopen " + []string{"-", "05", "0561"}[r.Rng.Intn(3)])
				r.Do("ojfirst")
				next2 = "ojnext"
			} else {
				r.Do("cjopen " + []string{"-", "61"}[r.Rng.Intn(2)])
				r.Do("cjfirst")
				next2 = "cjnext"
			}
		}
		steps := 3 + r.Rng.Intn(12)
		for i := 0; i < steps; i++ {
			rk := rawKeys[r.Rng.Intn(len(rawKeys))]
			ck := cacheKeys[r.Rng.Intn(len(cacheKeys))]
			v := layVals[r.Rng.Intn(len(layVals))]
			switch x := r.Rng.Intn(100); {
			case x < 40:
				if next2 != "" && r.Rng.Bool() {
					r.Do(next2)
				} else {
					r.Do(next)
				}
			case x < 60:
				r.Do("oput " + rk + " " + v)
			case x < 68:
				r.Do("odel " + rk)
			case x < 80:
				if cacheSide {
					r.Do("cput " + ck + " " + v)
				} else {
					r.Do("oput 05" + strings.TrimPrefix(ck, "-") + " " + v)
				}
			case x < 85:
				if cacheSide {
					r.Do("cdel " + ck)
				} else {
					r.Do("odel 05" + strings.TrimPrefix(ck, "-"))
				}
			case x < 92:
				r.Do("sput " + rk + " 0c") // the store side of an open iterator is a snapshot
			case x < 95:
				r.Do("sdel " + rk)
			case x < 97:
				r.Do(first)
			default:
				r.Do("ccommit")
			}
		}
		for i := 0; i < 4; i++ {
			r.Do(next)
		}
		r.Nontrivial(fmt.Sprintf("live:%v:%s:%d", cacheSide, pfx, steps))
	}
}

func b2i(b bool) int {
	if b {
		return 1
	}
	return 0
}
