package main

import (
	"bytes"
	"crypto/sha256"
	"fmt"
	"strings"

	"github.com/polynetwork/poly/common"
	"github.com/polynetwork/poly/core/payload"
	"github.com/polynetwork/poly/core/types"
	"polyverif/internal/hx"
)

// Family btcroot (C03): ComputeMerkleRoot against the model and an independent recursive reference, and the
// block glue (RebuildMerkleRoot / Deserialization root check).
//
//	root <h1> ... <hn>        -> root hex           (n may be 0)
//	blockroot <n> <nonce0> [i j] (transaction j repeats transaction i) -> "ok" when the rebuilt block root equals the reference root of the transaction
//	                             hashes in block order, the block round-trips, and a flipped root is refused
type btcroot struct{}

func init() { families["btcroot"] = func() hx.Family { return &btcroot{} } }

func (f *btcroot) Reset(r *hx.Run) {}

func dsha(a, b []byte) common.Uint256 {
	t := sha256.Sum256(append(append([]byte{}, a...), b...))
	return sha256.Sum256(t[:])
}

// refRoot is an independent recursive reference (fresh slices at every level).
func refRoot(hs []common.Uint256) common.Uint256 {
	if len(hs) == 0 {
		return common.Uint256{}
	}
	if len(hs) == 1 {
		return hs[0]
	}
	var next []common.Uint256
	for i := 0; i < len(hs); i += 2 {
		if i+1 < len(hs) {
			next = append(next, dsha(hs[i][:], hs[i+1][:]))
		} else {
			next = append(next, dsha(hs[i][:], hs[i][:]))
		}
	}
	return refRoot(next)
}

func (f *btcroot) Exec(r *hx.Run, op []string) string {
	switch op[0] {
	case "root":
		hs := make([]common.Uint256, 0, len(op)-1)
		for _, h := range op[1:] {
			u, err := common.Uint256ParseFromBytes(hx.UnHex(h))
			if err != nil {
				return "bad-op"
			}
			hs = append(hs, u)
		}
		want := refRoot(hs)
		work := append([]common.Uint256{}, hs...) // the argument slice is used as workspace by the code
		got := common.ComputeMerkleRoot(work)
		if got != want {
			r.Viol(fmt.Sprintf("C03:root-differs-from-reference:n=%d", len(hs)),
				fmt.Sprintf("ComputeMerkleRoot over %d hashes = %x, reference double-SHA256 Merkle root = %x", len(hs), got[:], want[:]))
		}
		return hx.Hex(got[:])
	case "rootpar":
		// concurrent use: g goroutines compute roots of lists of sizes n, n+1, ... at the same time, several rounds;
		// every result must equal the independent reference (ComputeMerkleRoot has no shared state to protect)
		var g, rounds, n int
		fmt.Sscan(op[1], &g)
		fmt.Sscan(op[2], &rounds)
		fmt.Sscan(op[3], &n)
		seed := hx.UnHex(op[4])
		lists := make([][]common.Uint256, g)
		wants := make([]common.Uint256, g)
		for i := range lists {
			lists[i] = make([]common.Uint256, n+i)
			for j := range lists[i] {
				h := sha256.Sum256(append(append([]byte{byte(i), byte(j), byte(j >> 8)}, seed...), byte(i*7+j)))
				lists[i][j] = h
			}
			wants[i] = refRoot(lists[i])
		}
		bad := make(chan string, g*rounds+1)
		done := make(chan struct{})
		for i := 0; i < g; i++ {
			go func(i int) {
				defer func() {
					if e := recover(); e != nil {
						bad <- fmt.Sprintf("goroutine %d panicked: %v", i, e)
					}
					done <- struct{}{}
				}()
				for k := 0; k < rounds; k++ {
					work := append([]common.Uint256{}, lists[i]...)
					if got := common.ComputeMerkleRoot(work); got != wants[i] {
						bad <- fmt.Sprintf("goroutine %d round %d: root over %d hashes = %x, reference %x", i, k, len(lists[i]), got[:], wants[i][:])
						return
					}
				}
			}(i)
		}
		for i := 0; i < g; i++ {
			<-done
		}
		select {
		case msg := <-bad:
			r.Viol("C03:root-differs-under-concurrent-calls", "ComputeMerkleRoot called from "+fmt.Sprint(g)+" goroutines at once: "+msg)
			return "BAD"
		default:
		}
		return "ok"
	case "blockroot":
		var n, nonce int
		di, dj := -1, -1
		fmt.Sscan(op[1], &n)
		fmt.Sscan(op[2], &nonce)
		if len(op) >= 5 {
			fmt.Sscan(op[3], &di)
			fmt.Sscan(op[4], &dj)
		}
		blk := &types.Block{Header: &types.Header{}}
		var hashes []common.Uint256
		for i := 0; i < n; i++ {
			k := i
			if i == dj && di >= 0 && di < n {
				k = di // transaction j repeats transaction i (same bytes, same hash)
			}
			tx := &types.Transaction{Version: 0, TxType: types.Invoke, Nonce: uint32(nonce + k),
				Payload: &payload.InvokeCode{Code: []byte{byte(k), byte(k >> 8), 1, 2, 3}}}
			sink := common.NewZeroCopySink(nil)
			if err := tx.Serialization(sink); err != nil {
				return "err-ser"
			}
			tx2, err := types.TransactionFromRawBytes(sink.Bytes())
			if err != nil {
				return "err-deser"
			}
			blk.Transactions = append(blk.Transactions, tx2)
			hashes = append(hashes, tx2.Hash())
		}
		blk.RebuildMerkleRoot()
		want := refRoot(hashes)
		var res []string
		if blk.Header.TransactionsRoot == want {
			res = append(res, "root-ok")
		} else {
			res = append(res, "root-BAD")
			r.Viol(fmt.Sprintf("C03:block-root-differs:n=%d", n), fmt.Sprintf("RebuildMerkleRoot over %d transactions gives %x, reference %x", n, blk.Header.TransactionsRoot[:], want[:]))
		}
		raw := blk.ToArray()
		var back types.Block
		if di >= 0 && di < n && dj < n && di != dj {
			// a block that repeats a transaction: the rebuilt root still covers every hash in block order
			// (checked above); decoding such a block is refused
			if err := back.Deserialization(common.NewZeroCopySource(raw)); err != nil {
				res = append(res, "dup-rejected")
			} else {
				res = append(res, "dup-ACCEPTED")
				r.Viol(fmt.Sprintf("C03:block-duplicate-accepted:n=%d", n), "a block repeating a transaction was decoded without error")
			}
			return strings.Join(res, " ")
		}
		if err := back.Deserialization(common.NewZeroCopySource(raw)); err == nil && bytes.Equal(back.ToArray(), raw) {
			res = append(res, "deser-ok")
		} else {
			res = append(res, "deser-BAD")
			r.Viol(fmt.Sprintf("C03:block-roundtrip:n=%d", n), fmt.Sprintf("a block with %d transactions and a rebuilt root does not decode back: %v", n, err))
		}
		blk.Header.TransactionsRoot[7] ^= 0x40
		var back2 types.Block
		if err := back2.Deserialization(common.NewZeroCopySource(blk.ToArray())); err != nil {
			res = append(res, "mut-rejected")
		} else {
			res = append(res, "mut-ACCEPTED")
			r.Viol(fmt.Sprintf("C03:block-wrong-root-accepted:n=%d", n), "a block whose header root differs from its transactions' root was decoded without error")
		}
		return strings.Join(res, " ")
	}
	return "bad-op"
}

func (f *btcroot) Gen(r *hx.Run) {
	r.Rule("lists of 0..N 32-byte hashes (random, all-equal, repeated pairs, near-duplicates), every size 0..N once per content kind plus random sizes; distinct non-trivial = distinct (size, content kind) with size >= 2; blocks of 0..40 real transactions")
	maxN := r.Pick(130, 1500)
	id := 0
	emit := func(kind string, hs [][]byte) {
		id++
		r.Case(fmt.Sprintf("%s-%d-%d", kind, len(hs), id))
		parts := []string{"root"}
		for _, h := range hs {
			parts = append(parts, hx.Hex(h))
		}
		res := r.Do(strings.Join(parts, " "))
		if len(hs) >= 2 {
			r.Nontrivial(fmt.Sprintf("%s/%d", kind, len(hs)))
		}
		r.Hist(fmt.Sprintf("size.%s", sizeClass(len(hs))))
		if id%97 == 1 {
			r.Sample(map[string]interface{}{"kind": kind, "n": len(hs), "root": res})
		}
	}
	for n := 0; n <= maxN; n++ {
		// random contents
		hs := make([][]byte, n)
		for i := range hs {
			hs[i] = r.Rng.Bytes(32)
		}
		emit("rand", hs)
		// all equal
		e := r.Rng.Bytes(32)
		eq := make([][]byte, n)
		for i := range eq {
			eq[i] = e
		}
		emit("equal", eq)
		// repeated tail (the classic duplicate-last-node shape)
		if n >= 2 {
			rp := make([][]byte, n)
			for i := range rp {
				rp[i] = r.Rng.Bytes(32)
			}
			rp[n-1] = rp[n-2]
			emit("duptail", rp)
		}
	}
	for k := 0; k < r.Pick(20, 120); k++ {
		n := 1 + r.Rng.Intn(r.Pick(3000, 7000)) // the model's in-place level is quadratic in the driver (List.set): keep sizes moderate
		hs := make([][]byte, n)
		for i := range hs {
			hs[i] = r.Rng.Bytes(32)
		}
		emit("big", hs)
	}
	for k := 0; k < r.Pick(6, 60); k++ {
		id++
		r.Case(fmt.Sprintf("par-%d", k))
		r.Do(fmt.Sprintf("rootpar %d %d %d %s", 4+r.Rng.Intn(5), r.Pick(150, 600), 1+r.Rng.Intn(40), hx.Hex(r.Rng.Bytes(8))))
		r.Nontrivial(fmt.Sprintf("par/%d", k))
	}
	for n := 0; n <= r.Pick(40, 300); n++ {
		id++
		r.Case(fmt.Sprintf("block-%d", n))
		r.Do(fmt.Sprintf("blockroot %d %d", n, r.Rng.Intn(1<<30)))
		if n >= 2 {
			r.Nontrivial(fmt.Sprintf("block/%d", n))
			// repeated transactions: first/last/adjacent/random positions
			for _, pr := range [][2]int{{0, n - 1}, {0, 1}, {n - 2, n - 1}, {r.Rng.Intn(n), r.Rng.Intn(n)}} {
				if pr[0] != pr[1] {
					r.Do(fmt.Sprintf("blockroot %d %d %d %d", n, r.Rng.Intn(1<<30), pr[0], pr[1]))
					r.Nontrivial(fmt.Sprintf("blockdup/%d/%d/%d", n, pr[0], pr[1]))
				}
			}
		}
	}
}

func sizeClass(n int) string {
	switch {
	case n == 0:
		return "0"
	case n == 1:
		return "1"
	case n&(n-1) == 0:
		return "pow2"
	case n%2 == 1:
		return "odd"
	default:
		return "even"
	}
}
