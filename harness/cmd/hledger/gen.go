package main

import (
	"fmt"
	"strings"

	"github.com/polynetwork/poly/common"
	"polyverif/internal/hx"
)

// chainGen builds block definitions the way an honest proposer would (correct height, parent, later
// timestamp, accumulator root from an independent reference, signatures of the set in force) so that the
// generators can then mutate single fields.
type chainGen struct {
	r       *hx.Run
	w       *world
	set     []int // validator set in force for blocks (generator's own bookkeeping)
	net     string
	hashes  []common.Uint256
	tss     []uint32
	names   []string
	nonce   uint32
	seq     int
	lastCfg uint32
	ts0     uint32 // genesis timestamp (0 = default 1000)
}

func (g *chainGen) randProg() []byte {
	rg := g.r.Rng
	var p []byte
	n := rg.Intn(5)
	for i := 0; i < n; i++ {
		switch x := rg.Intn(20); {
		case x < 12:
			p = append(p, 1, byte(rg.Intn(6)), byte(1+rg.Intn(9)))
		case x < 14:
			p = append(p, 2, byte(rg.Intn(6)))
		case x < 17:
			p = append(p, 3, byte(rg.Intn(256)))
		case x < 19:
			p = append(p, 5, byte(rg.Intn(100)))
		default:
			p = append(p, 4)
		}
	}
	return p
}

func (g *chainGen) randTxs(max int) []txSpec {
	n := g.r.Rng.Intn(max + 1)
	var txs []txSpec
	for i := 0; i < n; i++ {
		g.nonce++
		txs = append(txs, txSpec{nonce: g.nonce, prog: g.randProg()})
	}
	return txs
}

func (g *chainGen) genesis(n int, net string, ev, twin bool, txs []txSpec) string {
	return g.genesisK(n, net, ev, twin, txs, -1)
}

// genesisK: k >= 0 stops the first start at crash point k of the genesis block and starts again.
func (g *chainGen) genesisK(n int, net string, ev, twin bool, txs []txSpec, k int) string {
	cfg := make([]int, n)
	for i := range cfg {
		cfg[i] = i
	}
	// the network id decides the chain id inside transactions and headers: set it before hashing
	setup()
	setNet(net)
	if g.ts0 == 0 {
		g.ts0 = 1000
	}
	b := &blockSpec{name: "g", ts: g.ts0, txs: txs, hasCfg: true, cfg: cfg}
	if _, err := b.materialize(false); err != nil {
		panic(err)
	}
	g.set, g.net, g.lastCfg = cfg, net, 0
	h, _ := parseHash(b.hash)
	g.hashes, g.tss, g.names = []common.Uint256{h}, []uint32{g.ts0}, []string{"g"}
	bi := func(x bool) int {
		if x {
			return 1
		}
		return 0
	}
	if k >= 0 {
		return g.r.Do(fmt.Sprintf("gcrash %d %s %d %d %s %s %d %d", n, net, bi(ev), b.ts, b.txsToken(), b.hash, bi(twin), k))
	}
	return g.r.Do(fmt.Sprintf("genesis %d %s %d %d %s %s %d", n, net, bi(ev), b.ts, b.txsToken(), b.hash, bi(twin)))
}

// next returns an honest successor of the generator's tip, signed by every validator in force.
func (g *chainGen) next(maxTx int) *blockSpec {
	g.seq++
	h := uint32(len(g.hashes))
	ts := g.tss[h-1] + 1 + uint32(g.r.Rng.Intn(3))
	if ts < g.tss[h-1] { // uint32 wrap at the very end of the range
		ts = ^uint32(0)
	}
	b := &blockSpec{name: fmt.Sprintf("b%d", g.seq), height: h, prev: g.hashes[h-1], ts: ts,
		root: refBlockRoot(g.hashes), txs: g.randTxs(maxTx), lastCfg: g.lastCfg}
	g.signBy(b, g.set)
	return b
}

func (g *chainGen) signBy(b *blockSpec, signers []int) {
	b.bks = append([]int{}, signers...)
	b.sigs = nil
	for _, k := range signers {
		b.sigs = append(b.sigs, fmt.Sprintf("s%d", k))
	}
}

func (g *chainGen) def(b *blockSpec) {
	if _, err := b.materialize(false); err != nil {
		panic(err)
	}
	if res := g.r.Do(b.opLine()); res != "def" {
		panic("generator produced a block definition the executor refuses: " + res + " " + b.opLine())
	}
}

// committed records that the generator regards b as the new tip.
func (g *chainGen) committed(b *blockSpec) {
	h, _ := parseHash(b.hash)
	g.hashes = append(g.hashes, h)
	g.tss = append(g.tss, b.ts)
	g.names = append(g.names, b.name)
	if b.hasCfg {
		g.set = dedup(b.cfg)
		g.lastCfg = b.height
	}
}

func okRes(res string) bool { return strings.HasPrefix(res, "ok ") || res == "ok" }

// ------------------------------------------------------------------------------------------------ C12

type crashFam struct{ world }

func init() { families["crash"] = func() hx.Family { return &crashFam{} } }

func (f *crashFam) Gen(r *hx.Run) {
	r.Rule("chains of L blocks with 0-4 state-changing transactions (counters, deletions, cross-chain leaves, notifications, failing transactions, validator-set changes) on a real ledger; every block is persisted with a crash at one of the points {0 nothing committed, 1 block store, 2 +event store, 3 +state store} or without crash, the crash point rotating over (chain, block) so that every (point, position) pair occurs; each restart is compared with an uncrashed twin ledger and with the model; distinct = (crash point, block position, #transactions>0, config change)")
	chains := r.Pick(24, 400)
	for c := 0; c < chains; c++ {
		L := 6
		if r.Thorough() {
			L = 4 + r.Rng.Intn(22)
		}
		r.Case(fmt.Sprintf("crash-%d", c))
		g := &chainGen{r: r, w: &f.world}
		n := 1 + r.Rng.Intn(7)
		res := g.genesis(n, "test", c%2 == 0, true, g.randTxs(2))
		if !okRes(res) {
			continue
		}
		for i := 1; i <= L; i++ {
			b := g.next(4)
			cfgChange := r.Rng.Chance(1, 6)
			if cfgChange {
				b.hasCfg = true
				m := 1 + r.Rng.Intn(6)
				off := r.Rng.Intn(4)
				for j := 0; j < m; j++ {
					b.cfg = append(b.cfg, (off+j)%poolSize)
				}
			}
			g.def(b)
			k := (c + i) % 5
			sig := fmt.Sprintf("k%d/pos%d/tx%v/cfg%v", k, i, len(b.txs) > 0, cfgChange)
			switch {
			case k == 4:
				if r.Rng.Bool() {
					r.Do("add " + b.name)
				} else {
					r.Do("sub " + b.name)
				}
			default:
				var res string
				if r.Rng.Bool() {
					// further crashes inside recoverStore during the following starts
					var rs []string
					for j := 1 + r.Rng.Intn(3); j > 0; j-- {
						rs = append(rs, fmt.Sprint(r.Rng.Intn(3)))
					}
					res = r.Do(fmt.Sprintf("crashr %s %d %s", b.name, k, strings.Join(rs, ",")))
					if f := strings.Fields(res); len(f) > 2 && f[0] == "crashed" {
						r.Hist("crashr.k" + fmt.Sprint(k) + "." + f[1])
						sig += "/rec:" + strings.Join(rs, "") + ":" + f[1]
					}
				} else {
					res = r.Do(fmt.Sprintf("crash %s %d", b.name, k))
				}
				r.Hist("crash.k" + fmt.Sprint(k))
				if strings.HasPrefix(res, "crashed") && strings.Contains(res, " ok ") {
					r.Nontrivial(sig)
				}
				if k == 0 {
					r.Do("add " + b.name)
				}
			}
			g.committed(b)
			if r.Rng.Chance(1, 8) {
				r.Do("reopen")
			}
		}
		r.Do("obs")
		for _, nm := range g.names[1:] {
			r.Do("get " + nm)
		}
		if c < 3 {
			r.Sample(map[string]interface{}{"case": c, "validators": n, "blocks": L})
		}
	}
	f.bigBlocks(r)
	if r.Thorough() {
		f.longChain(r)
	}
}

// bigBlocks: blocks whose write set has well over 1000 raw writes, all made by read-modify-write transactions (one
// transaction increments 1100 / 1050 distinct counters), persisted with a crash at every point and with further
// crashes inside recovery. A state-store batch that is not committed as a whole shows up as a double application.
func (f *crashFam) bigBlocks(r *hx.Run) {
	rangeTx := func(g *chainGen, n, d int) txSpec {
		g.nonce++
		return txSpec{nonce: g.nonce, prog: []byte{6, byte(n >> 8), byte(n), byte(d)}}
	}
	for k := 0; k < 4; k++ {
		r.Case(fmt.Sprintf("crash-big-%d", k))
		g := &chainGen{r: r, w: &f.world}
		if !okRes(g.genesis(3, "test", k%2 == 0, true, nil)) {
			continue
		}
		// block 1: the range is created (plain submission)
		b1 := g.next(1)
		b1.txs = append(b1.txs, rangeTx(g, 1100, 1))
		g.def(b1)
		if !okRes(r.Do("add " + b1.name)) {
			continue
		}
		g.committed(b1)
		// block 2: every counter is read and incremented again; crash at point k
		b2 := g.next(0)
		b2.txs = []txSpec{rangeTx(g, 1100, 2), rangeTx(g, 300, 3)}
		g.def(b2)
		res := r.Do(fmt.Sprintf("crash %s %d", b2.name, k))
		if strings.HasPrefix(res, "crashed ok") {
			r.Nontrivial(fmt.Sprintf("big/k%d/crash", k))
		}
		if k == 0 {
			r.Do("add " + b2.name)
		}
		g.committed(b2)
		// block 3: again, with further crashes inside recoverStore
		b3 := g.next(1)
		b3.txs = append(b3.txs, rangeTx(g, 1050, 5))
		g.def(b3)
		res = r.Do(fmt.Sprintf("crashr %s %d %d,%d", b3.name, (k+1)%4, r.Rng.Intn(3), r.Rng.Intn(3)))
		if strings.HasPrefix(res, "crashed") && strings.Contains(res, " ok ") {
			r.Nontrivial(fmt.Sprintf("big/k%d/crashr", (k+1)%4))
		}
		if (k+1)%4 == 0 {
			r.Do("add " + b3.name)
		}
		g.committed(b3)
		b4 := g.next(1)
		g.def(b4)
		r.Do("sub " + b4.name)
		r.Do("obs")
	}
}

// fast emits one op that adds n honest empty blocks.
func (g *chainGen) fast(n int) string {
	ts0 := g.tss[len(g.tss)-1] + 1
	parts := []string{"fast", fmt.Sprint(ts0), fmt.Sprint(g.lastCfg)}
	for i := 0; i < n; i++ {
		b := g.next(0)
		b.ts = ts0 + uint32(i)
		if _, err := b.materialize(false); err != nil {
			panic(err)
		}
		parts = append(parts, b.hash)
		g.committed(b)
	}
	return g.r.Do(strings.Join(parts, " "))
}

// longChain crosses the header-index batch boundary (HEADER_INDEX_BATCH_SIZE = 2000 block hashes are written as one
// batch once that many are not yet stored) with crashes and restarts on both sides of it.
func (f *crashFam) longChain(r *hx.Run) {
	r.Case("crash-long")
	g := &chainGen{r: r, w: &f.world}
	if !okRes(g.genesis(4, "test", false, true, nil)) {
		return
	}
	if !okRes(g.fast(1996)) {
		return
	}
	for i := 0; i < 8; i++ {
		b := g.next(1)
		g.def(b)
		k := i % 4
		res := r.Do(fmt.Sprintf("crash %s %d", b.name, k))
		if strings.HasPrefix(res, "crashed ok") {
			r.Nontrivial(fmt.Sprintf("long/k%d/h%d", k, b.height))
		}
		if k == 0 {
			r.Do("add " + b.name)
		}
		g.committed(b)
	}
	r.Do("reopen")
	g.fast(5)
	r.Do("reopen")
	r.Do("obs")
	for _, nm := range []string{"g", "f1", "f1000", "f1996", g.names[len(g.names)-7]} {
		r.Do("get " + nm)
	}
}

// ------------------------------------------------------------------------------------------------ C13

type growFam struct{ world }

func init() { families["grow"] = func() hx.Family { return &growFam{} } }

func (f *growFam) Gen(r *hx.Run) {
	r.Rule("submission histories of up to 12 steps on a real ledger with 4-7 validators and real signatures: honest successors, mutants of honest successors (height+1, stale height with other content, unknown parent, parent = tip-1, equal / earlier timestamp, flipped / truncated / zero block root, wrong state root, missing signatures), stale re-submissions, header-first delivery, and a signed fork at the tip, through AddBlock and ExecuteBlock+SubmitBlock; distinct = (action kind, path, verdict)")
	hist := r.Pick(100, 6000)
	for c := 0; c < hist; c++ {
		r.Case(fmt.Sprintf("grow-%d", c))
		g := &chainGen{r: r, w: &f.world}
		n := 4 + r.Rng.Intn(4)
		net := "test"
		if r.Rng.Chance(1, 4) {
			net = "main"
		}
		// boundary-heavy genesis timestamps: the successor rule is a comparison of uint32 values
		g.ts0 = []uint32{1000, 1000, 1, 1<<31 - 2, 1 << 31, 3000000000, 3000000000, 1<<32 - 60}[r.Rng.Intn(8)]
		if !okRes(g.genesis(n, net, r.Rng.Bool(), false, g.randTxs(1))) {
			continue
		}
		path := func() string {
			if r.Rng.Bool() {
				return "add"
			}
			return "sub"
		}
		steps := 4 + r.Rng.Intn(9)
		for s := 0; s < steps; s++ {
			x := r.Rng.Intn(100)
			kind := ""
			var res, p string
			switch {
			case x < 40:
				kind = "honest"
				b := g.next(3)
				f.maybeCfg(r, g, b)
				g.def(b)
				p = path()
				res = r.Do(p + " " + b.name)
				if okRes(res) {
					g.committed(b)
				}
			case x < 78:
				b := g.next(2)
				h := len(g.hashes)
				muts := []string{"height+1", "stale-other", "unknown-parent", "parent-tip-1", "ts-equal", "ts-earlier", "root-flip", "root-short", "root-zero", "stateroot", "nosigs", "height+2",
					"ts-boundary", "ts-boundary", "ts-half-range", "bad-payload"}
				kind = muts[r.Rng.Intn(len(muts))]
				p = path()
				arg := ""
				switch kind {
				case "height+1":
					b.height++
				case "height+2":
					b.height += 2
				case "stale-other":
					if h < 2 {
						kind = "ts-equal"
						b.ts = g.tss[h-1]
						break
					}
					b.height = uint32(h - 1)
					b.prev = g.hashes[h-2]
					b.root = refBlockRoot(g.hashes[:h-1])
				case "unknown-parent":
					copy(b.prev[:], r.Rng.Bytes(32))
				case "parent-tip-1":
					if h < 2 {
						copy(b.prev[:], r.Rng.Bytes(32))
						kind = "unknown-parent"
						break
					}
					b.prev = g.hashes[h-2]
				case "ts-equal":
					b.ts = g.tss[h-1]
				case "ts-earlier":
					b.ts = g.tss[h-1] - 1 - uint32(r.Rng.Intn(5))
				case "ts-boundary":
					// absolute boundary values of the uint32 range (earlier, equal or later than the tip)
					b.ts = []uint32{0, 1, 1<<31 - 1, 1 << 31, 1<<31 + 1, 1<<32 - 2, 1<<32 - 1}[r.Rng.Intn(7)]
				case "ts-half-range":
					// half the uint32 range before the tip: a signed reading of the difference would call these later
					b.ts = g.tss[h-1] - (1 << 31) + uint32(r.Rng.Intn(3)) - 1
				case "root-flip":
					b.root[r.Rng.Intn(32)] ^= byte(1 << uint(r.Rng.Intn(8)))
				case "root-short":
					b.root = refBlockRoot(g.hashes[:h-1])
				case "root-zero":
					b.root = common.UINT256_EMPTY
				case "stateroot":
					p, arg = "add", " badroot"
				case "nosigs":
					b.sigs = nil
				case "bad-payload":
					b.badPayload = true
				}
				if f.maybeCfg(r, g, b) {
					kind += "+cfg"
				}
				g.def(b)
				res = r.Do(p + " " + b.name + arg)
				if okRes(res) && strings.Contains(res, "tip="+b.hash) {
					g.committed(b) // the ledger took a mutant: keep the generator in step (the oracle has reported it)
				}
			case x < 82:
				kind = "resubmit"
				nm := g.names[r.Rng.Intn(len(g.names))]
				p = path()
				res = r.Do(p + " " + nm)
			case x < 90:
				kind = "header-first"
				b := g.next(2)
				g.def(b)
				res = r.Do("hdr " + b.name)
				if r.Rng.Chance(3, 4) {
					p = path()
					res = r.Do(p + " " + b.name)
					if okRes(res) {
						g.committed(b)
					}
				} else {
					// the header stays ahead of the blocks; another honest block with the same content arrives later
					b2 := *b
					b2.name = b.name + "x"
					g.def(&b2)
					p = path()
					res = r.Do(p + " " + b2.name)
					if okRes(res) {
						g.committed(&b2)
					}
				}
			case x < 96:
				// a proposer asks for block roots (with the tip, with a foreign predecessor, over several heights, from
				// behind the ledger), then a block whose root was computed over the foreign predecessor and the honest
				// block are submitted
				kind = "root-query"
				h := len(g.hashes)
				tip := hexOf(g.hashes[h-1])
				var xh common.Uint256
				copy(xh[:], r.Rng.Bytes(32))
				if h >= 2 && r.Rng.Bool() {
					xh = g.hashes[h-2]
				}
				queries := []string{
					fmt.Sprintf("root %d %s", h, hexOf(xh)),
					fmt.Sprintf("root %d %s", h, tip),
				}
				if h >= 2 {
					queries = append(queries, fmt.Sprintf("root %d %s,%s", h-1, hexOf(g.hashes[h-2]), hexOf(xh)),
						fmt.Sprintf("root %d %s", h-1, hexOf(g.hashes[h-2])))
				}
				queries = append(queries, fmt.Sprintf("root %d %s,%s", h, tip, hexOf(xh)))
				for _, i := range r.Rng.Perm(len(queries)) {
					if r.Rng.Chance(3, 4) || i < 2 {
						r.Do(queries[i])
					}
				}
				mb := g.next(1)
				mb.root = refBlockRoot(append(append([]common.Uint256{}, g.hashes[:h-1]...), xh))
				g.def(mb)
				p = path()
				res = r.Do(p + " " + mb.name)
				if okRes(res) && strings.Contains(res, "tip="+mb.hash) {
					g.committed(mb)
					break
				}
				r.Do(fmt.Sprintf("root %d %s", h, tip))
				vb := g.next(2)
				g.def(vb)
				res = r.Do(p + " " + vb.name)
				if okRes(res) {
					g.committed(vb)
				} else if v := strings.SplitN(res, " ", 2)[0]; v == "err:blockroot" || v == "err:notip" {
					// (a refusal for another reason, e.g. no later timestamp exists after 2^32-1, is not about the queries)
					r.Viol("C13:honest-successor-refused-after-root-query", fmt.Sprintf("after block-root queries at height %d the honest successor %s is refused: %s", h, vb.name, strings.SplitN(res, " ", 2)[0]))
				}
			default:
				kind = "fork-at-tip"
				// two signed headers at the same height: X is announced as a header, Y is committed as the
				// block, then Z (child of X) is submitted
				xb := g.next(1)
				g.def(xb)
				r.Do("hdr " + xb.name)
				yb := g.next(2)
				yb.ts = xb.ts + 1
				g.def(yb)
				p = path()
				if res = r.Do(p + " " + yb.name); !okRes(res) {
					break
				}
				g.committed(yb)
				zb := g.next(1)
				xh, _ := parseHash(xb.hash)
				zb.prev = xh
				zb.root = refBlockRoot(append(append([]common.Uint256{}, g.hashes[:len(g.hashes)-1]...), xh))
				zb.ts = xb.ts + 5
				g.def(zb)
				res = r.Do(p + " " + zb.name)
				if okRes(res) && strings.Contains(res, "tip="+zb.hash) {
					g.committed(zb)
				}
			}
			verdict := strings.SplitN(res, " ", 2)[0]
			r.Hist("grow." + kind + "." + verdict)
			r.Nontrivial(kind + "/" + p + "/" + verdict)
			if r.Rng.Chance(1, 4) {
				r.Do("get " + g.names[r.Rng.Intn(len(g.names))])
			}
		}
		r.Do("obs")
		if r.Rng.Chance(1, 5) {
			r.Do("reopen")
		}
		if c < 2 {
			r.Sample(map[string]interface{}{"case": c, "validators": n, "net": net, "height": len(g.hashes) - 1})
		}
	}
}

// maybeCfg lets a block announce a new validator set (sometimes).
func (f *growFam) maybeCfg(r *hx.Run, g *chainGen, b *blockSpec) bool {
	if !r.Rng.Chance(1, 5) {
		return false
	}
	b.hasCfg = true
	m := 3 + r.Rng.Intn(5)
	off := r.Rng.Intn(poolSize)
	for j := 0; j < m; j++ {
		b.cfg = append(b.cfg, (off+j)%poolSize)
	}
	return true
}

// ------------------------------------------------------------------------------------------------ C14

type quorumFam struct{ world }

func init() { families["quorum"] = func() hx.Family { return &quorumFam{} } }

func (f *quorumFam) Gen(r *hx.Run) {
	r.Rule("validator sets of 1..10 generated keys on a real ledger; headers at height 1 signed by every subset of the set (N<=6) or sampled subsets, in shuffled order, with duplicated / foreign bookkeepers, signatures over another message, undecodable signatures, missing signatures, signatures of unlisted validators, repeated signatures, explicit smaller/larger sets in force, wrong parent / timestamp; then configuration-changing blocks followed by blocks and headers signed by the old and by the new set, and a restart; distinct = (N, |bookkeepers|, #valid distinct signers, mutation kind, verdict)")
	type cfgT struct {
		n   int
		net string
	}
	var cfgs []cfgT
	for n := 1; n <= 10; n++ {
		cfgs = append(cfgs, cfgT{n, "test"})
	}
	cfgs = append(cfgs, cfgT{4, "main"}, cfgT{7, "main"}, cfgT{8, "main"})
	rounds := r.Pick(1, 12)
	id := 0
	if r.Thorough() {
		// the modern rule N-(N-1)/3: main net with the header index pre-filled beyond height 20,000,000
		for _, n := range []int{4, 7} {
			id++
			r.Case(fmt.Sprintf("quorum-modern-%d-n%d", id, n))
			g := &chainGen{r: r, w: &f.world}
			if !okRes(g.genesis(n, "main", false, false, nil)) {
				continue
			}
			if !okRes(r.Do("prefill 20000002")) {
				continue
			}
			f.headersAt(r, g, n, 20000001)
		}
	}
	for round := 0; round < rounds; round++ {
		for _, c := range cfgs {
			id++
			r.Case(fmt.Sprintf("quorum-%d-n%d-%s", id, c.n, c.net))
			g := &chainGen{r: r, w: &f.world}
			if !okRes(g.genesis(c.n, c.net, false, false, nil)) {
				continue
			}
			f.headers(r, g, c.n)
			f.strippedAfterHeader(r, g, c.n)
			f.rejectedAnnouncement(r, g, c.n)
			f.headerSyncAhead(r, g, c.n)
			f.handover(r, g, c.n)
		}
	}
}

func shuffled(r *hx.Run, v []int) []int {
	out := make([]int, len(v))
	for i, j := range r.Rng.Perm(len(v)) {
		out[i] = v[j]
	}
	return out
}

func (f *quorumFam) headers(r *hx.Run, g *chainGen, n int) { f.headersAt(r, g, n, 0) }

// headersAt: hh is the header height the ledger reports (decides between the legacy and the modern rule).
func (f *quorumFam) headersAt(r *hx.Run, g *chainGen, n int, hh uint32) {
	setTok := intsToken(g.set)
	m := refThreshold(n, g.net, hh)
	vid := 0
	try := func(kind string, mut func(b *blockSpec), set string) {
		vid++
		b := g.next(0)
		b.name = fmt.Sprintf("v%d", vid)
		mut(b)
		g.def(b)
		res := r.Do(fmt.Sprintf("vh %s %s", b.name, set))
		verdict := strings.SplitN(res, " ", 2)[0]
		r.Hist("vh." + kind + "." + verdict)
		r.Nontrivial(fmt.Sprintf("n%d/m%d/bk%d/valid%d/%s/%s", n, m, len(b.bks), validSigners(b, parseSet(set)), kind, verdict))
	}
	signSub := func(b *blockSpec, s []int) {
		b.bks = shuffled(r, s)
		b.sigs = nil
		for _, k := range shuffled(r, s) {
			b.sigs = append(b.sigs, fmt.Sprintf("s%d", k))
		}
	}
	// every subset (small N) or sampled subsets
	if n <= 6 {
		for mask := 0; mask < 1<<uint(n); mask++ {
			var s []int
			for i := 0; i < n; i++ {
				if mask>>uint(i)&1 == 1 {
					s = append(s, i)
				}
			}
			try("subset", func(b *blockSpec) { signSub(b, s) }, setTok)
		}
	} else {
		for t := 0; t < r.Pick(40, 120); t++ {
			var s []int
			sz := r.Rng.Intn(n + 1)
			if t%3 == 0 {
				sz = m - 1 + r.Rng.Intn(3)
			}
			for _, i := range r.Rng.Perm(n) {
				if len(s) < sz {
					s = append(s, i)
				}
			}
			try("subset", func(b *blockSpec) { signSub(b, s) }, setTok)
		}
	}
	// boundary sets with single mutations
	for _, sz := range []int{m, m + 1, n} {
		if sz > n || sz < 1 {
			continue
		}
		base := r.Rng.Perm(n)[:sz]
		foreign := n + r.Rng.Intn(poolSize-n)
		try("dup-bookkeeper", func(b *blockSpec) {
			signSub(b, base)
			b.bks = append(b.bks, base[0])
			b.sigs = append(b.sigs, fmt.Sprintf("s%d", base[0]))
		}, setTok)
		try("dup-bookkeeper-first", func(b *blockSpec) {
			signSub(b, base)
			b.bks = append([]int{base[sz-1]}, b.bks...)
		}, setTok)
		try("foreign-bookkeeper", func(b *blockSpec) {
			signSub(b, base)
			b.bks = append(b.bks, foreign)
			b.sigs = append(b.sigs, fmt.Sprintf("s%d", foreign))
		}, setTok)
		try("foreign-replaces-member", func(b *blockSpec) {
			signSub(b, base)
			b.bks[0] = foreign
			b.sigs[0] = fmt.Sprintf("s%d", foreign)
		}, setTok)
		try("foreign-signature-only", func(b *blockSpec) {
			signSub(b, base)
			b.sigs[r.Rng.Intn(len(b.sigs))] = fmt.Sprintf("s%d", foreign)
		}, setTok)
		for _, pos := range []int{0, m - 1, m, sz - 1} {
			if pos < 0 || pos >= sz {
				continue
			}
			try(fmt.Sprintf("wrong-message-sig@%s", posClass(pos, m)), func(b *blockSpec) {
				signSub(b, base)
				b.sigs[pos] = "w" + b.sigs[pos][1:]
			}, setTok)
			try(fmt.Sprintf("garbage-sig@%s", posClass(pos, m)), func(b *blockSpec) {
				signSub(b, base)
				b.sigs[pos] = "g"
			}, setTok)
			try(fmt.Sprintf("repeated-sig@%s", posClass(pos, m)), func(b *blockSpec) {
				signSub(b, base)
				b.sigs[pos] = b.sigs[(pos+1)%sz]
			}, setTok)
		}
		try("sigs-short", func(b *blockSpec) {
			signSub(b, base)
			if m-1 < len(b.sigs) {
				b.sigs = b.sigs[:m-1]
			}
		}, setTok)
		try("sigs-empty", func(b *blockSpec) { signSub(b, base); b.sigs = nil }, setTok)
		try("no-bookkeepers", func(b *blockSpec) { signSub(b, base); b.bks = nil }, setTok)
		try("unlisted-signers", func(b *blockSpec) {
			// signatures of validators that are in force but not listed as bookkeepers of this header
			signSub(b, base)
			others := []int{}
			for i := 0; i < n; i++ {
				listed := false
				for _, k := range base {
					listed = listed || k == i
				}
				if !listed {
					others = append(others, i)
				}
			}
			for i := range b.sigs {
				if i < len(others) {
					b.sigs[i] = fmt.Sprintf("s%d", others[i])
				}
			}
		}, setTok)
		// other sets in force than the ledger's own
		if n >= 2 {
			sub := base[:1+r.Rng.Intn(sz)]
			try("smaller-set-in-force", func(b *blockSpec) { signSub(b, base) }, intsToken(sub))
		}
		big := append(append([]int{}, g.set...), foreign)
		try("larger-set-in-force", func(b *blockSpec) { signSub(b, base) }, intsToken(big))
		try("empty-set-in-force", func(b *blockSpec) { signSub(b, base) }, "-")
		try("empty-set-nothing-signed", func(b *blockSpec) { b.bks, b.sigs = nil, nil }, "-")
		try("announces-config", func(b *blockSpec) {
			signSub(b, base)
			b.hasCfg = true
			b.cfg = []int{foreign, base[0]}
		}, setTok)
	}
	all := g.set
	try("malformed-payload-full-quorum", func(b *blockSpec) { signSub(b, all); b.badPayload = true }, setTok)
	try("malformed-payload-exact-quorum", func(b *blockSpec) {
		signSub(b, r.Rng.Perm(n)[:m])
		b.badPayload = true
	}, setTok)
	try("malformed-payload-bad-signature", func(b *blockSpec) {
		signSub(b, all)
		b.sigs[0] = "w" + b.sigs[0][1:]
		b.badPayload = true
	}, setTok)
	try("unknown-parent", func(b *blockSpec) { signSub(b, all); b.prev[5] ^= 1 }, setTok)
	try("ts-equal", func(b *blockSpec) { signSub(b, all); b.ts = g.tss[0] }, setTok)
	try("ts-earlier", func(b *blockSpec) { signSub(b, all); b.ts = g.tss[0] - 1 }, setTok)
	try("height-2", func(b *blockSpec) { signSub(b, all); b.height = 2 }, setTok)
	try("height-0-exempt", func(b *blockSpec) { b.height = 0; b.bks, b.sigs = nil, nil }, setTok)
}

func posClass(pos, m int) string {
	if pos < m {
		return "first-m"
	}
	return "beyond-m"
}

// handover: blocks that announce a new validator set, then blocks / headers signed by the old and the new set.
func (f *quorumFam) handover(r *hx.Run, g *chainGen, n int) {
	for _, op := range []string{"hdr", "add", "sub"} {
		mp := g.next(1)
		mp.name += "mp" + op
		mp.badPayload = true
		g.def(mp)
		res := r.Do(op + " " + mp.name)
		r.Nontrivial(fmt.Sprintf("malformed-payload/n%d/%s/%s", n, op, verdictOf(res)))
	}
	for step := 0; step < 3; step++ {
		old := append([]int{}, g.set...)
		// new set: rotate by one, grow or shrink
		var nw []int
		switch r.Rng.Intn(3) {
		case 0:
			for _, k := range old {
				nw = append(nw, (k+1)%poolSize)
			}
		case 1:
			nw = append(append([]int{}, old...), (old[len(old)-1]+1)%poolSize)
		default:
			nw = append([]int{}, old[:len(old)-len(old)/2]...)
			nw = append(nw, (old[len(old)-1]+3)%poolSize)
		}
		nw = dedup(nw)
		b := g.next(1)
		b.hasCfg, b.cfg = true, nw
		headerFirst := r.Rng.Bool()
		g.def(b)
		if headerFirst {
			r.Do("hdr " + b.name)
		}
		res := r.Do("add " + b.name)
		if !okRes(res) {
			return
		}
		g.committed(b)
		r.Hist("handover.config-block")
		// signed by the previous set only
		o := g.next(1)
		g.signBy(o, old)
		o.name += "old"
		g.def(o)
		res = r.Do("hdr " + o.name)
		r.Nontrivial(fmt.Sprintf("handover/n%d/old-set/hdr/%s", n, strings.SplitN(res, " ", 2)[0]))
		res = r.Do("add " + o.name)
		r.Nontrivial(fmt.Sprintf("handover/n%d/old-set/add/%s", n, strings.SplitN(res, " ", 2)[0]))
		if okRes(res) && strings.Contains(res, "tip="+o.hash) {
			g.committed(o)
			continue
		}
		// signed by the new set
		nb := g.next(1)
		g.def(nb)
		if r.Rng.Bool() {
			r.Do("hdr " + nb.name)
		}
		res = r.Do("sub " + nb.name)
		r.Nontrivial(fmt.Sprintf("handover/n%d/new-set/%s", n, strings.SplitN(res, " ", 2)[0]))
		if okRes(res) {
			g.committed(nb)
		}
		if step == 1 {
			r.Do("reopen")
		}
	}
	r.Do("obs")
}

// ------------------------------------------------------------------------------------------------ C12 (first start)

type firstStartFam struct{ world }

func init() { families["firststart"] = func() hx.Family { return &firstStartFam{} } }

// Gen: the very first start of a node is stopped at each crash point of the genesis block's persistence and the node
// is started again; then a short chain is added and the node restarted once more.
func (f *firstStartFam) Gen(r *hx.Run) {
	r.Rule("first start of a node (genesis block with 0-2 state-changing transactions) stopped at crash point 0..3 of the genesis block's submitBlock, second start on the same directory, compared with a ledger started without crash and with the model; then 3 blocks and a restart; distinct = (crash point, #genesis transactions>0, event log)")
	rounds := r.Pick(2, 40)
	for c := 0; c < rounds*4; c++ {
		k := c % 4
		r.Case(fmt.Sprintf("firststart-%d-k%d", c, k))
		g := &chainGen{r: r, w: &f.world}
		n := 1 + r.Rng.Intn(7)
		txs := g.randTxs(2)
		res := g.genesisK(n, "test", c%8 < 4, true, txs, k)
		r.Hist("firststart.k" + fmt.Sprint(k) + "." + strings.SplitN(res, " ", 3)[0])
		if !strings.HasPrefix(res, "crashed ok") {
			continue
		}
		r.Nontrivial(fmt.Sprintf("k%d/tx%v/ev%v", k, len(txs) > 0, c%8 < 4))
		for i := 0; i < 3; i++ {
			b := g.next(2)
			g.def(b)
			if okRes(r.Do("add " + b.name)) {
				g.committed(b)
			}
		}
		r.Do("reopen")
		r.Do("obs")
	}
}

// crashlong: only the long chain across the header-index batch boundary (part of the thorough `crash` stream as well).
type crashLongFam struct{ crashFam }

func init() { families["crashlong"] = func() hx.Family { return &crashLongFam{} } }

func (f *crashLongFam) Gen(r *hx.Run) {
	r.Rule("one chain of 2009 blocks: 1996 honest empty blocks, then crashes at every point on both sides of the header-index batch boundary (height 2001 writes the first batch of 2000 hashes), restarts, lookups of old and new blocks; compared with an uncrashed twin and with the model")
	f.longChain(r)
}


// outsiders returns up to k pool keys that are not in the set in force.
func (g *chainGen) outsiders(k int) []int {
	in := map[int]bool{}
	for _, x := range g.set {
		in[x] = true
	}
	var out []int
	for i := 0; i < poolSize && len(out) < k; i++ {
		if !in[i] {
			out = append(out, i)
		}
	}
	return out
}

func verdictOf(res string) string { return strings.SplitN(res, " ", 2)[0] }

// rejectedAnnouncement: a header / block that announces a new validator set but fails the signature check must
// leave the sets alone; afterwards headers signed only by the announced outsiders are tried, then one by the set in force.
func (f *quorumFam) rejectedAnnouncement(r *hx.Run, g *chainGen, n int) {
	out := g.outsiders(2)
	if len(out) == 0 {
		return
	}
	m := refThreshold(len(g.set), g.net, 0)
	if m < 1 {
		m = 1
	}
	listed := shuffled(r, g.set)
	if len(listed) > m {
		listed = listed[:m]
	}
	for vi, variant := range []string{"wrong-message", "garbage", "too-few", "unlisted-outsider-sig"} {
		c := g.next(0)
		c.name = fmt.Sprintf("rj%d_%d", len(g.hashes), vi)
		c.hasCfg, c.cfg = true, out
		c.bks = append([]int{}, listed...)
		c.sigs = nil
		for _, k := range listed {
			switch variant {
			case "wrong-message":
				c.sigs = append(c.sigs, fmt.Sprintf("w%d", k))
			case "garbage":
				c.sigs = append(c.sigs, "g")
			case "unlisted-outsider-sig":
				c.sigs = append(c.sigs, fmt.Sprintf("s%d", out[0]))
			}
		}
		g.def(c)
		op := "hdr"
		if vi%2 == 1 && r.Rng.Bool() {
			op = "add"
		}
		res := r.Do(op + " " + c.name)
		r.Hist("rejected-announcement." + variant + "." + op + "." + verdictOf(res))
		r.Nontrivial(fmt.Sprintf("rejected-announcement/n%d/%s/%s/%s", n, variant, op, verdictOf(res)))
		if okRes(res) {
			return // (the oracle has reported it; the generator's chain no longer matches)
		}
		// a header signed only by the announced outsiders
		o := g.next(0)
		o.name = c.name + "o"
		g.signBy(o, out)
		g.def(o)
		res = r.Do("hdr " + o.name)
		r.Nontrivial(fmt.Sprintf("rejected-announcement/n%d/%s/outsider-header/%s", n, variant, verdictOf(res)))
		if okRes(res) {
			return
		}
	}
	// the set in force still signs
	v := g.next(0)
	v.name = fmt.Sprintf("rjv%d", len(g.hashes))
	g.def(v)
	if okRes(r.Do("hdr " + v.name)) {
		if okRes(r.Do("add " + v.name)) {
			g.committed(v)
		}
	}
}

// headerSyncAhead: header sync runs ahead of block sync across a configuration change; the blocks arrive late, one
// by one, and between them further headers signed by the retired set and by the set in force are delivered.
func (f *quorumFam) headerSyncAhead(r *hx.Run, g *chainGen, n int) {
	nw := g.outsiders(3)
	if len(nw) == 0 {
		return
	}
	old := append([]int{}, g.set...)
	var late []*blockSpec
	for i := 0; i < 3; i++ {
		b := g.next(1)
		b.name = fmt.Sprintf("hs%d_%d", len(g.hashes), i)
		if i == 1 {
			b.hasCfg, b.cfg = true, nw
		}
		g.def(b)
		if !okRes(r.Do("hdr " + b.name)) {
			return
		}
		g.committed(b)
		late = append(late, b)
	}
	tryHeaders := func(tag string) bool {
		o := g.next(0)
		o.name = fmt.Sprintf("hso%d_%s", len(g.hashes), tag)
		g.signBy(o, old)
		g.def(o)
		res := r.Do("hdr " + o.name)
		r.Nontrivial(fmt.Sprintf("header-sync-ahead/n%d/%s/retired-set/%s", n, tag, verdictOf(res)))
		if okRes(res) {
			return false
		}
		v := g.next(1)
		v.name = fmt.Sprintf("hsv%d_%s", len(g.hashes), tag)
		g.def(v)
		res = r.Do("hdr " + v.name)
		r.Nontrivial(fmt.Sprintf("header-sync-ahead/n%d/%s/set-in-force/%s", n, tag, verdictOf(res)))
		if !okRes(res) {
			return false
		}
		g.committed(v)
		late = append(late, v)
		return true
	}
	for i := 0; i < len(late); i++ {
		op := "add"
		if r.Rng.Bool() {
			op = "sub"
		}
		res := r.Do(op + " " + late[i].name)
		r.Hist("header-sync-ahead.late-block." + verdictOf(res))
		if !okRes(res) {
			return
		}
		if i < 2 {
			if !tryHeaders(fmt.Sprintf("after-late-block-%d", i)) {
				return
			}
		}
	}
	r.Do("obs")
}


// strippedAfterHeader: the genuine signed header goes through AddHeader; then the same block (same hash: the header hash
// does not cover bookkeepers and signatures) is submitted with the signatures stripped, truncated below the threshold,
// or replaced by outsiders' valid signatures; finally the genuine block.
func (f *quorumFam) strippedAfterHeader(r *hx.Run, g *chainGen, n int) {
	m := refThreshold(len(g.set), g.net, 0)
	b := g.next(1)
	g.def(b)
	if !okRes(r.Do("hdr " + b.name)) {
		return
	}
	out := g.outsiders(2)
	variants := []struct {
		tag  string
		bks  []int
		sigs []string
	}{
		{"stripped", nil, nil},
		{"sigs-only-stripped", b.bks, nil},
	}
	if m >= 2 {
		variants = append(variants, struct {
			tag  string
			bks  []int
			sigs []string
		}{"truncated", b.bks[:m-1], b.sigs[:m-1]})
	}
	if len(out) > 0 {
		var os []string
		for _, k := range out {
			os = append(os, fmt.Sprintf("s%d", k))
		}
		variants = append(variants, struct {
			tag  string
			bks  []int
			sigs []string
		}{"outsiders", out, os})
	}
	for i, v := range variants {
		c := *b
		c.name = fmt.Sprintf("%sx%d", b.name, i)
		c.bks, c.sigs = append([]int{}, v.bks...), append([]string{}, v.sigs...)
		g.def(&c)
		op := "add"
		if (i+n)%2 == 1 {
			op = "sub"
		}
		res := r.Do(op + " " + c.name)
		r.Hist("stripped-after-header." + v.tag + "." + verdictOf(res))
		r.Nontrivial(fmt.Sprintf("stripped-after-header/n%d/%s/%s/%s", n, v.tag, op, verdictOf(res)))
		if okRes(res) && strings.Contains(res, "tip="+c.hash) {
			g.committed(&c) // (reported by the oracle)
			return
		}
	}
	if okRes(r.Do("add " + b.name)) {
		g.committed(b)
	}
}
