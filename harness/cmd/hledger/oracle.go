package main

import (
	"crypto/sha256"

	osig "github.com/ontio/ontology-crypto/signature"
	vconfig "github.com/polynetwork/poly/consensus/vbft/config"
	"fmt"
	"sort"
	"strconv"
	"strings"

	"github.com/polynetwork/poly/common"
	"github.com/polynetwork/poly/core/types"
	"polyverif/internal/hx"
)

// Independent references used to evaluate the properties directly on the implementation's outputs.

func leafHash(data []byte) common.Uint256 { return sha256.Sum256(append([]byte{0}, data...)) }

// refMTH is the RFC 6962 tree hash over leaf hashes (recursive definition, fresh slices).
func refMTH(l []common.Uint256) common.Uint256 {
	switch len(l) {
	case 0:
		return sha256.Sum256(nil)
	case 1:
		return l[0]
	}
	k := 1
	for k*2 < len(l) {
		k *= 2
	}
	a, b := refMTH(l[:k]), refMTH(l[k:])
	return sha256.Sum256(append(append([]byte{1}, a[:]...), b[:]...))
}

// refBlockRoot is the accumulator root a block at `height` must carry: the tree over the previous-block
// hashes of blocks 0..height, i.e. zero, hash(0), ..., hash(height-1).
func refBlockRoot(hashes []common.Uint256) common.Uint256 {
	leaves := []common.Uint256{leafHash(common.UINT256_EMPTY[:])}
	for _, h := range hashes {
		leaves = append(leaves, leafHash(h[:]))
	}
	return refMTH(leaves)
}

// required number of signatures for n validators as the property states it
func refThreshold(n int, net string, headerHeight uint32) int {
	if net != "main" || headerHeight <= 20000000 {
		return n - (6*n)/7
	}
	return n - (n-1)/3
}

func parseSet(tok string) []int {
	v, _ := parseInts(tok)
	return v
}

// distinct members of `set` with a valid signature over the header hash among the listed signatures
func validSigners(spec *blockSpec, set []int) int {
	in := map[int]bool{}
	for _, k := range set {
		in[k] = true
	}
	seen := map[int]bool{}
	for _, s := range spec.sigs {
		if s[0] == 's' {
			k, _ := strconv.Atoi(s[1:])
			if in[k] {
				seen[k] = true
			}
		}
	}
	return len(seen)
}

func sortedCopy(v []int) []int {
	c := append([]int{}, v...)
	sort.Ints(c)
	return c
}

func (w *world) specByHash(h string) *blockSpec {
	for _, b := range w.blocks {
		if b.hash == h {
			return b
		}
	}
	return nil
}

// forceAfter is the validator set in force after the block/header with the given hash, derived from the
// block definitions alone (latest announced configuration on the parent chain), independent of the ledger.
func (w *world) forceAfter(hash string) ([]int, bool) {
	for depth := 0; depth < 10000; depth++ {
		spec := w.specByHash(hash)
		if spec == nil {
			return nil, false
		}
		if spec.hasCfg {
			return sortedCopy(dedup(spec.cfg)), true
		}
		if spec.height == 0 {
			return nil, false
		}
		hash = hexOf(spec.prev)
	}
	return nil, false
}

// checkSetsInForce: the set tracked for blocks is the one in force after the current block, the set tracked
// for headers the one in force after the current header.
func (w *world) checkSetsInForce(r *hx.Run, when string, o obsT) {
	if w.main.store == nil {
		return
	}
	if want, ok := w.forceAfter(hexOf(o.tip)); ok && intsToken(want) != o.peersB {
		r.Viol("C14:block-validator-set-is-not-the-set-in-force:"+when, fmt.Sprintf("after %s the validator set tracked for blocks is %s, the configuration in force after the current block (height %d) is %s", when, o.peersB, o.bh, intsToken(want)))
	}
	ht := w.main.store.GetCurrentHeaderHash()
	if want, ok := w.forceAfter(hexOf(ht)); ok && intsToken(want) != o.peersH {
		r.Viol("C14:header-validator-set-is-not-the-set-in-force:"+when, fmt.Sprintf("after %s the validator set tracked for headers is %s, the configuration in force after the current header (height %d) is %s", when, o.peersH, o.hh, intsToken(want)))
	}
}

// checkSuccessor evaluates C13 / C14 on one add/sub/hdr step of the real ledger.
func (w *world) checkSuccessor(r *hx.Run, op string, spec *blockSpec, before, after obsT, err error) {
	st := w.main.store
	if st == nil {
		return
	}
	verdict := "accepted"
	if err != nil {
		verdict = "rejected"
	}
	w.checkSetsInForce(r, verdict+"-"+op, after)
	if err != nil {
		if before.peersB != after.peersB || before.peersH != after.peersH {
			r.Viol("C14:validator-set-changed-by-rejected-"+op+":"+errClass(err), fmt.Sprintf("%s of block %s was rejected (%v) but the validator set in force changed from %s|%s to %s|%s", op, spec.name, err, before.peersH, before.peersB, after.peersH, after.peersB))
		} else if before.String() != after.String() {
			r.Viol("C13:rejected-submission-changed-state:"+errClass(err), fmt.Sprintf("%s of block %s was rejected (%v) but the ledger changed: %s", op, spec.name, err, diffFields(before.String(), after.String())))
		}
		return
	}
	if op == "hdr" {
		if after.hh != before.hh+1 || spec.height != after.hh {
			r.Viol("C13:header-accepted-at-wrong-height", fmt.Sprintf("header %s (height %d) accepted, header height %d -> %d", spec.name, spec.height, before.hh, after.hh))
		}
		w.checkQuorum(r, "header", spec, before.peersH, before.hh)
		return
	}
	if after.bh == before.bh {
		// nothing committed: must be a stale height and nothing may have changed
		if spec.height > before.bh {
			r.Viol("C13:accepted-without-commit", fmt.Sprintf("%s of block %s (height %d) returned success at block height %d but nothing was committed", op, spec.name, spec.height, before.bh))
		}
		if before.String() != after.String() {
			r.Viol("C13:resubmission-changed-state", fmt.Sprintf("re-submitting height %d at block height %d changed the ledger: %s", spec.height, before.bh, diffFields(before.String(), after.String())))
		}
		return
	}
	// a block was committed
	if after.bh != before.bh+1 || spec.height != before.bh+1 {
		r.Viol("C13:committed-at-wrong-height", fmt.Sprintf("block %s of height %d committed, block height %d -> %d", spec.name, spec.height, before.bh, after.bh))
	}
	if hexOf(after.tip) != spec.hash {
		r.Viol("C13:tip-is-not-the-committed-block", "tip after commit is not the submitted block")
	}
	if spec.prev != before.tip {
		r.Viol("C13:committed-with-prev-not-tip", fmt.Sprintf("block %s (height %d) was committed with previous-block hash %s while the tip was %s", spec.name, spec.height, hexOf(spec.prev), hexOf(before.tip)))
	}
	if tip := w.specByHash(hexOf(before.tip)); tip != nil && !(tip.ts < spec.ts) {
		r.Viol("C13:committed-with-timestamp-not-later", fmt.Sprintf("block %s committed with timestamp %d, tip timestamp %d", spec.name, spec.ts, tip.ts))
	}
	var hashes []common.Uint256
	for i := uint32(0); i < spec.height; i++ {
		hashes = append(hashes, st.GetBlockHash(i))
	}
	if want := refBlockRoot(hashes); want != spec.root {
		r.Viol("C13:committed-with-wrong-block-root", fmt.Sprintf("block %s (height %d) committed with block root %s, reference accumulator root over the %d earlier block hashes is %s", spec.name, spec.height, hexOf(spec.root), len(hashes), hexOf(want)))
	}
	if got, want := w.lookup(spec), fmt.Sprintf("byhash=1 byheight=1 header=1 contains=1 txs=%d/%d", len(spec.txs), len(spec.txs)); got != want {
		r.Viol("C13:lookup-after-commit", fmt.Sprintf("after committing block %s lookups give %s", spec.name, got))
	}
	if after.sh != after.bh || after.stip != after.tip {
		r.Viol("C13:state-height-lags", fmt.Sprintf("after commit block height %d, state height %d", after.bh, after.sh))
	}
	w.checkQuorum(r, "block", spec, before.peersB, before.hh)
	w.checkStoredQuorum(r, spec, before.peersB, before.hh)
}

// checkStoredQuorum reads the committed block back by height and counts, in ITS OWN Bookkeepers / SigData, the distinct
// members of the set in force whose signature over the header hash really verifies (ontology-crypto, not the op tokens).
func (w *world) checkStoredQuorum(r *hx.Run, spec *blockSpec, ledgerSet string, headerHeight uint32) {
	if spec.height == 0 {
		return
	}
	blk, err := w.main.store.GetBlockByHeight(spec.height)
	if err != nil || blk == nil {
		return // reported by the lookup oracle
	}
	set, ok := w.forceAfter(hexOf(spec.prev))
	if !ok {
		set = parseSet(ledgerSet)
	}
	in := map[string]bool{}
	for _, k := range set {
		in[pool[k].id] = true
	}
	h := blk.Hash()
	valid := map[string]bool{}
	for _, pk := range blk.Header.Bookkeepers {
		id := vconfig.PubkeyID(pk)
		if !in[id] || valid[id] {
			continue
		}
		for _, raw := range blk.Header.SigData {
			if sg, err := osig.Deserialize(raw); err == nil && osig.Verify(pk, h[:], sg) {
				valid[id] = true
				break
			}
		}
	}
	m := refThreshold(len(set), w.net, headerHeight)
	if len(valid) < m {
		r.Viol(fmt.Sprintf("C14:stored-block-below-quorum:n=%d:m=%d:got=%d", len(set), m, len(valid)), fmt.Sprintf("the block stored at height %d (submitted as %s) lists %d bookkeepers and %d signatures, of which %d distinct validators in force (%s) have a verifying signature; required %d", spec.height, spec.name, len(blk.Header.Bookkeepers), len(blk.Header.SigData), len(valid), intsToken(set), m))
	}
}

func (w *world) checkQuorum(r *hx.Run, what string, spec *blockSpec, ledgerSet string, headerHeight uint32) {
	if spec.height == 0 {
		return
	}
	if spec.badPayload {
		r.Viol("C14:"+what+"-with-undecodable-payload-accepted", fmt.Sprintf("%s %s (height %d) was accepted although its consensus payload does not decode: the configuration it announces is undefined", what, spec.name, spec.height))
	}
	set, ok := w.forceAfter(hexOf(spec.prev))
	if !ok {
		set = parseSet(ledgerSet)
	}
	m := refThreshold(len(set), w.net, headerHeight)
	if got := validSigners(spec, set); got < m {
		r.Viol(fmt.Sprintf("C14:%s-accepted-below-quorum:n=%d:m=%d:got=%d", what, len(set), m, got), fmt.Sprintf("%s %s (height %d) accepted with %d distinct valid signers of the %d validators in force at that height (%s; the ledger tracked %s); required %d; bookkeepers %v signatures %v", what, spec.name, spec.height, got, len(set), intsToken(set), ledgerSet, m, spec.bks, spec.sigs))
	}
}

func dedup(v []int) []int {
	seen := map[int]bool{}
	var out []int
	for _, x := range v {
		if !seen[x] {
			seen[x] = true
			out = append(out, x)
		}
	}
	return out
}

func (w *world) verifyHeaderOp(r *hx.Run, spec *blockSpec, setTok string) string {
	set := parseSet(setTok)
	peers := map[string]uint32{}
	for i, k := range set {
		peers[pool[k].id] = uint32(i + 1)
	}
	blk, err := spec.materialize(true)
	if err != nil {
		return "bad-op"
	}
	hh := w.main.store.GetCurrentHeaderHeight()
	out, err := w.main.store.VerifVerifyHeader(blk.Header, peers)
	res := peersToken(out)
	if err == nil && spec.height != 0 && spec.badPayload {
		r.Viol("C14:header-with-undecodable-payload-accepted", fmt.Sprintf("verifyHeader accepted %s although its consensus payload does not decode: the configuration it announces is undefined", spec.name))
	}
	if err == nil && spec.height != 0 {
		m := refThreshold(len(peers), w.net, hh)
		if got := validSigners(spec, set); got < m {
			r.Viol(fmt.Sprintf("C14:header-accepted-below-quorum:n=%d:m=%d:got=%d", len(peers), m, got), fmt.Sprintf("verifyHeader accepted %s with %d distinct valid signers of the %d validators in force; required %d; bookkeepers %v signatures %v", spec.name, got, len(peers), m, spec.bks, spec.sigs))
		}
		want := intsToken(sortedCopy(dedup(set)))
		if spec.hasCfg {
			want = intsToken(sortedCopy(dedup(spec.cfg)))
		}
		if res != want {
			r.Viol("C14:verifyHeader-returns-unexpected-set", fmt.Sprintf("verifyHeader returned the set %s, expected %s", res, want))
		}
	}
	if err != nil && res != intsToken(sortedCopy(dedup(set))) {
		r.Viol("C14:rejected-header-changes-set", fmt.Sprintf("verifyHeader rejected %s but returned the set %s instead of %s", spec.name, res, setTok))
	}
	return errClass(err) + " " + res
}

var _ = strings.Join
var _ *types.Block
