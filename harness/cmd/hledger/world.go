package main

import (
	"bytes"
	"encoding/hex"
	"crypto/elliptic"
	"crypto/sha256"
	"encoding/binary"
	"encoding/json"
	"errors"
	"fmt"
	"os"
	"sort"
	"strconv"
	"strings"

	"github.com/ontio/ontology-crypto/ec"
	"github.com/ontio/ontology-crypto/keypair"
	osig "github.com/ontio/ontology-crypto/signature"
	"github.com/polynetwork/poly/common"
	"github.com/polynetwork/poly/common/config"
	"github.com/polynetwork/poly/common/log"
	vconfig "github.com/polynetwork/poly/consensus/vbft/config"
	"github.com/polynetwork/poly/core/payload"
	"github.com/polynetwork/poly/core/store/ledgerstore"
	"github.com/polynetwork/poly/core/types"
	"github.com/polynetwork/poly/native"
	"github.com/polynetwork/poly/native/event"
	"github.com/polynetwork/poly/native/states"
	"polyverif/internal/hx"
)

// ---------------------------------------------------------------------------------------------
// Op vocabulary (tokens separated by one space; "-" is an empty list / empty byte string)
//
//	genesis <N> <net:main|test> <ev:0|1> <ts> <txs> <hash> <twin:0|1>
//	    fresh ledger in a temp dir; validators = key pool [0,N); genesis block built from the fields.
//	blk <name> <height> <prev> <ts> <blockroot> <txs> <bookkeepers> <sigs> <cfg> <lastcfg> <hash>
//	    defines a block (no ledger action). txs: tx/tx/..., tx = <nonce>.<proghex|_>.<txhash>;
//	    bookkeepers: key indices; sigs: s<i> valid signature of key i over the header hash, w<i> signature
//	    of key i over another message, g undecodable bytes; cfg: "-" or c<i,j,..> (announced validator set) or x
//	    (consensus payload that does not decode).
//	add <name> [badroot]   ExecuteBlock + AddBlock(block, state root)      -> verdict + observation
//	sub <name>             ExecuteBlock + SubmitBlock(block, result)       -> verdict + observation
//	hdr <name>             AddHeader                                       -> verdict + observation
//	crash <name> <k>       AddBlock stopped at crash point k, stores closed, ledger reopened
//	reopen                 stores closed, ledger reopened
//	obs                    observation
//	get <name>             lookups by hash / height / transaction hash
//	vh <name> <set>        verifyHeader against an explicit validator set (no state change)
//
// Test contract programs (bytes): 01 k d  counter k += d;  02 k  delete counter k;  03 b  cross-chain
// leaf [b];  04  fail (transaction reverts);  05 b  notification b;  06 n_hi n_lo d  counters 0..n-1 of a wide range
// (three-byte key suffix) += d, each a read-modify-write.
// ---------------------------------------------------------------------------------------------

const poolSize = 14

var (
	pool        []*poolKey
	testAddr    common.Address
	keyIdx      = map[string]int{}
	setupOnce   bool
	ledgerCount int
)

// signing is slow (several ms): a signature of key k over a given message is made once
var sigCache = map[string][]byte{}

type poolKey struct {
	priv *ec.PrivateKey
	pub  keypair.PublicKey
	id   string
}

func setup() {
	if setupOnce {
		return
	}
	setupOnce = true
	log.InitLog(log.MaxLevelLog)
	for i := 0; i < poolSize; i++ {
		d := sha256.Sum256([]byte(fmt.Sprintf("polyverif-ledger-key-%d", i)))
		d[0] &= 0x7f
		pk := ec.ConstructPrivateKey(d[:], elliptic.P256())
		priv := &ec.PrivateKey{Algorithm: ec.ECDSA, PrivateKey: pk}
		pub := &ec.PublicKey{Algorithm: ec.ECDSA, PublicKey: &pk.PublicKey}
		k := &poolKey{priv: priv, pub: pub, id: vconfig.PubkeyID(pub)}
		pool = append(pool, k)
		keyIdx[k.id] = i
	}
	for i := range testAddr {
		testAddr[i] = 0xEE
	}
	native.Contracts[testAddr] = func(s *native.NativeService) { s.Register("run", runProgram) }
}

func counterKey(k byte) []byte { return append(append([]byte{}, testAddr[:]...), k) }

// rangeKey: counters of the wide range (instruction 06)
func rangeKey(j int) []byte {
	return append(append([]byte{}, testAddr[:]...), 0xff, byte(j>>8), byte(j))
}

const rangeObserved = 2000

func runProgram(s *native.NativeService) ([]byte, error) {
	p := s.GetInput()
	db := s.GetCacheDB()
	for i := 0; i < len(p); {
		switch p[i] {
		case 1:
			if i+2 >= len(p) {
				return nil, errors.New("short program")
			}
			cur, err := db.Get(counterKey(p[i+1]))
			if err != nil {
				return nil, err
			}
			var v uint64
			if len(cur) == 8 {
				v = binary.LittleEndian.Uint64(cur)
			}
			v += uint64(p[i+2])
			nv := make([]byte, 8)
			binary.LittleEndian.PutUint64(nv, v)
			db.Put(counterKey(p[i+1]), nv)
			i += 3
		case 2:
			if i+1 >= len(p) {
				return nil, errors.New("short program")
			}
			db.Delete(counterKey(p[i+1]))
			i += 2
		case 3:
			if i+1 >= len(p) {
				return nil, errors.New("short program")
			}
			s.PutMerkleVal([]byte{p[i+1]})
			i += 2
		case 6:
			// 06 n_hi n_lo d: counters 0..n-1 of the wide range (key suffix ff,i_hi,i_lo) += d, each read-modify-write
			if i+3 >= len(p) {
				return nil, errors.New("short program")
			}
			n := int(p[i+1])<<8 | int(p[i+2])
			for j := 0; j < n; j++ {
				key := rangeKey(j)
				cur, err := db.Get(key)
				if err != nil {
					return nil, err
				}
				var v uint64
				if len(cur) == 8 {
					v = binary.LittleEndian.Uint64(cur)
				}
				v += uint64(p[i+3])
				nv := make([]byte, 8)
				binary.LittleEndian.PutUint64(nv, v)
				db.Put(key, nv)
			}
			i += 4
		case 4:
			return nil, errors.New("scripted failure")
		case 5:
			if i+1 >= len(p) {
				return nil, errors.New("short program")
			}
			s.AddNotify(&event.NotifyEventInfo{ContractAddress: testAddr, States: []interface{}{int(p[i+1])}})
			i += 2
		default:
			return nil, errors.New("bad instruction")
		}
	}
	return []byte{1}, nil
}

// ---------------------------------------------------------------------------------------------

type txSpec struct {
	nonce uint32
	prog  []byte
	hash  string
}

type blockSpec struct {
	name                    string
	height                  uint32
	prev, root              common.Uint256
	ts                      uint32
	txs                     []txSpec
	bks                     []int
	sigs                    []string
	cfg                     []int
	hasCfg                  bool
	badPayload              bool // the consensus payload is not valid JSON
	lastCfg                 uint32
	hash                    string
	txsTok, bkTok, sgTok, cfgTok string
}

// setNet selects the network id (it decides the chain id inside headers and transactions, and the
// signature threshold rule).
func setNet(net string) {
	if net == "main" {
		config.DefConfig.P2PNode.NetworkId = config.NETWORK_ID_MAIN_NET
	} else {
		config.DefConfig.P2PNode.NetworkId = config.NETWORK_ID_TEST_NET
	}
	config.DefConfig.Genesis.ConsensusType = config.CONSENSUS_TYPE_VBFT
}

func chainID() uint64 { return config.GetChainIdByNetId(config.DefConfig.P2PNode.NetworkId) }

func buildTx(nonce uint32, prog []byte) (*types.Transaction, error) {
	ip := &states.ContractInvokeParam{Address: testAddr, Method: "run", Args: prog}
	code := common.NewZeroCopySink(nil)
	ip.Serialization(code)
	tx := &types.Transaction{Version: types.CURR_TX_VERSION, TxType: types.Invoke, Nonce: nonce, ChainID: chainID(),
		Payload: &payload.InvokeCode{Code: code.Bytes()}}
	sink := common.NewZeroCopySink(nil)
	if err := tx.Serialization(sink); err != nil {
		return nil, err
	}
	return types.TransactionFromRawBytes(sink.Bytes())
}

func parseInts(tok string) ([]int, error) {
	if tok == "-" || tok == "" {
		return nil, nil
	}
	var out []int
	for _, p := range strings.Split(tok, ",") {
		v, err := strconv.Atoi(p)
		if err != nil || v < 0 || v >= poolSize {
			return nil, errors.New("bad index")
		}
		out = append(out, v)
	}
	return out, nil
}

func parseTxs(tok string) ([]txSpec, error) {
	if tok == "-" {
		return nil, nil
	}
	var out []txSpec
	for _, t := range strings.Split(tok, "/") {
		f := strings.Split(t, ".")
		if len(f) != 3 {
			return nil, errors.New("bad tx")
		}
		n, err := strconv.ParseUint(f[0], 10, 32)
		if err != nil {
			return nil, err
		}
		var prog []byte
		if f[1] != "_" {
			prog = hx.UnHex(f[1])
		}
		out = append(out, txSpec{nonce: uint32(n), prog: prog, hash: f[2]})
	}
	return out, nil
}

func payloadJSON(lastCfg uint32, hasCfg bool, cfg []int) []byte {
	info := &vconfig.VbftBlockInfo{Proposer: 0, LastConfigBlockNum: lastCfg}
	if hasCfg {
		cc := &vconfig.ChainConfig{Version: 1, View: 1, N: uint32(len(cfg)), C: uint32(len(cfg)) / 3, Peers: []*vconfig.PeerConfig{}}
		for i, k := range cfg {
			cc.Peers = append(cc.Peers, &vconfig.PeerConfig{Index: uint32(i + 1), ID: pool[k].id})
		}
		info.NewChainConfig = cc
	}
	b, _ := json.Marshal(info)
	return b
}

// materialize builds the real block of a spec (fresh signatures every time; the header hash does not
// depend on them). Returns an error when the recorded hashes do not match the rebuilt objects.
func (b *blockSpec) materialize(check bool) (*types.Block, error) {
	hdr := &types.Header{Version: 0, ChainID: chainID(), PrevBlockHash: b.prev, BlockRoot: b.root, Timestamp: b.ts,
		Height: b.height, ConsensusData: uint64(b.height) + 7, ConsensusPayload: payloadJSON(b.lastCfg, b.hasCfg, b.cfg)}
	if b.badPayload {
		hdr.ConsensusPayload = []byte(fmt.Sprintf("{\"leader\":0,\"last_config_block_num\":%d,", b.lastCfg))
	}
	blk := &types.Block{Header: hdr}
	for i := range b.txs {
		tx, err := buildTx(b.txs[i].nonce, b.txs[i].prog)
		if err != nil {
			return nil, err
		}
		h := tx.Hash()
		if check && b.txs[i].hash != hexOf(h) {
			return nil, fmt.Errorf("tx hash mismatch")
		}
		b.txs[i].hash = hexOf(h)
		blk.Transactions = append(blk.Transactions, tx)
	}
	blk.RebuildMerkleRoot()
	h := hdr.Hash()
	if check && b.hash != hexOf(h) {
		return nil, fmt.Errorf("block hash mismatch")
	}
	b.hash = hexOf(h)
	for _, k := range b.bks {
		hdr.Bookkeepers = append(hdr.Bookkeepers, pool[k].pub)
	}
	for _, s := range b.sigs {
		switch s[0] {
		case 's', 'w':
			k, err := strconv.Atoi(s[1:])
			if err != nil || k < 0 || k >= poolSize {
				return nil, errors.New("bad sig token")
			}
			msg := h[:]
			if s[0] == 'w' {
				msg = append([]byte("other message"), h[:]...)
			}
			ck := fmt.Sprintf("%s/%x", s, h[:])
			raw, ok := sigCache[ck]
			if !ok {
				sg, err := osig.Sign(osig.SHA256withECDSA, pool[k].priv, msg, nil)
				if err != nil {
					return nil, err
				}
				if raw, err = osig.Serialize(sg); err != nil {
					return nil, err
				}
				if len(sigCache) > 200000 {
					sigCache = map[string][]byte{}
				}
				sigCache[ck] = raw
			}
			hdr.SigData = append(hdr.SigData, raw)
		case 'g':
			hdr.SigData = append(hdr.SigData, []byte{0xff, 0x01, 0x02})
		default:
			return nil, errors.New("bad sig token")
		}
	}
	return blk, nil
}

func (b *blockSpec) txsToken() string {
	if len(b.txs) == 0 {
		return "-"
	}
	var parts []string
	for _, t := range b.txs {
		p := "_"
		if len(t.prog) > 0 {
			p = hx.Hex(t.prog)
		}
		parts = append(parts, fmt.Sprintf("%d.%s.%s", t.nonce, p, t.hash))
	}
	return strings.Join(parts, "/")
}

func intsToken(v []int) string {
	if len(v) == 0 {
		return "-"
	}
	s := make([]string, len(v))
	for i, x := range v {
		s[i] = strconv.Itoa(x)
	}
	return strings.Join(s, ",")
}

func (b *blockSpec) opLine() string {
	cfg := "-"
	if b.hasCfg {
		cfg = "c" + strings.TrimPrefix(intsToken(b.cfg), "-")
	}
	if b.badPayload {
		cfg = "x"
	}
	sg := "-"
	if len(b.sigs) > 0 {
		sg = strings.Join(b.sigs, ",")
	}
	return fmt.Sprintf("blk %s %d %s %d %s %s %s %s %s %d %s", b.name, b.height, hexOf(b.prev), b.ts, hexOf(b.root),
		b.txsToken(), intsToken(b.bks), sg, cfg, b.lastCfg, b.hash)
}

// ---------------------------------------------------------------------------------------------

type ledgerInst struct {
	dir     string
	store   *ledgerstore.LedgerStoreImp
	genesis *types.Block
	bks     []keypair.PublicKey
	dead    string // reopen failed: the ledger cannot be used any more
}

func (l *ledgerInst) open() error {
	st, err := ledgerstore.NewLedgerStore(l.dir)
	if err != nil {
		return err
	}
	l.store = st
	if err := st.InitLedgerStoreWithGenesisBlock(l.genesis, l.bks); err != nil {
		st.Close()
		l.store = nil
		return err
	}
	return nil
}

func (l *ledgerInst) close() {
	if l.store != nil {
		func() {
			defer func() { recover() }()
			l.store.Close()
		}()
		l.store = nil
	}
}

func (l *ledgerInst) destroy() {
	l.close()
	if l.dir != "" {
		os.RemoveAll(l.dir)
	}
}

type world struct {
	main, twin *ledgerInst
	blocks     map[string]*blockSpec
	ev         bool
	net        string
}

func (w *world) Reset(r *hx.Run) {
	setup()
	if w.main != nil {
		w.main.destroy()
	}
	if w.twin != nil {
		w.twin.destroy()
	}
	w.main, w.twin = nil, nil
	w.blocks = map[string]*blockSpec{}
}

func errClass(err error) string {
	if err == nil {
		return "ok"
	}
	s := err.Error()
	for _, c := range [][2]string{
		{"not equal next block height", "height"}, {"not equal next header height", "height"},
		{"cannot find pre header", "noprev"}, {"get prev header error", "noprev"},
		{"block height is incorrect", "prevheight"}, {"block timestamp is incorrect", "timestamp"},
		{"header Bookkeepers", "fewkeys"}, {"invalid pubkey", "pubkey"},
		{"not enough signatures", "fewsigs"}, {"invalid signature data", "sigdata"},
		{"multi-signature verification failed", "multisig"}, {"wrong block root", "blockroot"},
		{"state merkle root mismatch", "stateroot"}, {"unmarshal blockInfo", "payload"},
		{"merkle tree size is inconsistent", "treesize"}, {"stored hashes are less", "hashfile"},
		{"GenesisBlock arenot init", "genesis"}, {"previous block is not the current block", "notip"},
	} {
		if strings.Contains(s, c[0]) {
			return "err:" + c[1]
		}
	}
	return "err:other"
}

func short(h common.Uint256) string { return hexOf(h) }

// hashes travel in raw byte order (not the reversed order of Uint256.ToHexString)
func hexOf(h common.Uint256) string { return fmt.Sprintf("%x", h[:]) }

func parseHash(s string) (common.Uint256, error) {
	b, err := hex.DecodeString(s)
	if err != nil {
		return common.UINT256_EMPTY, err
	}
	return common.Uint256ParseFromBytes(b)
}

func peersToken(m map[string]uint32) string {
	var ids []int
	for id := range m {
		if i, ok := keyIdx[id]; ok {
			ids = append(ids, i)
		} else {
			ids = append(ids, 99)
		}
	}
	sort.Ints(ids)
	return intsToken(ids)
}

// observation of one ledger (everything a restart has to preserve, plus the in-memory sync state)
type obsT struct {
	bh, sh, eh, hh           uint32
	tip, stip                common.Uint256
	btMem, btStored          uint32
	btRoot                   common.Uint256
	stMem, stStored          uint32
	stRootMem, stRootStored  common.Uint256
	cnt                      string
	rng                      string
	xr                       string
	nev                      string
	peersH, peersB           string
	cache                    int
	fl                       int64
	err                      string
}

func (l *ledgerInst) observe() obsT {
	var o obsT
	if l.store == nil {
		o.err = "closed:" + l.dead
		return o
	}
	st := l.store
	o.bh = st.GetCurrentBlockHeight()
	o.tip = st.GetCurrentBlockHash()
	o.hh = st.GetCurrentHeaderHeight()
	var err error
	if o.stip, o.sh, err = st.VerifStateCurrentBlock(); err != nil {
		o.err += "state-current;"
	}
	if _, o.eh, err = st.VerifEventCurrentBlock(); err != nil {
		o.err += "event-current;"
	}
	if o.btMem, o.btRoot, o.btStored, err = st.VerifBlockTree(); err != nil {
		o.err += "block-tree;"
	}
	if o.stMem, o.stRootMem, o.stStored, err = st.VerifStateTree(); err != nil {
		o.err += "state-tree;"
	}
	if o.stRootStored, err = st.GetStateMerkleRoot(o.sh); err != nil {
		o.err += "state-root;"
	}
	var parts []string
	for k := 0; k < 8; k++ {
		raw := append([]byte{0x05}, counterKey(byte(k))...)
		v, err := st.VerifStorageRaw(raw)
		if err != nil {
			o.err += "storage;"
		}
		if len(v) == 8 {
			parts = append(parts, fmt.Sprintf("%d=%d", k, binary.LittleEndian.Uint64(v)))
		} else if len(v) != 0 {
			parts = append(parts, fmt.Sprintf("%d=?", k))
		}
	}
	o.cnt = strings.Join(parts, ",")
	if o.cnt == "" {
		o.cnt = "-"
	}
	// the wide counter range (only when it has been used): digest over every fifth of the first rangeObserved counters
	// (the state root covers all of them)
	o.rng = "-"
	if v0, _ := st.VerifStorageRaw(append([]byte{0x05}, rangeKey(0)...)); len(v0) != 0 {
		hr := sha256.New()
		for j := 0; j < rangeObserved; j += 5 {
			v, err := st.VerifStorageRaw(append([]byte{0x05}, rangeKey(j)...))
			if err != nil {
				o.err += "storage;"
			}
			hr.Write([]byte{byte(len(v))})
			hr.Write(v)
		}
		o.rng = fmt.Sprintf("%x", hr.Sum(nil)[:8])
	}
	// cross-state root of every block up to the block height, folded into one digest
	h := sha256.New()
	for i := uint32(0); i <= o.bh; i++ {
		x, err := st.GetCrossStateRoot(i)
		if err != nil {
			o.err += "cross;"
		}
		h.Write(x[:])
	}
	o.xr = fmt.Sprintf("%x", h.Sum(nil)[:8])
	evs, err := st.GetEventNotifyByBlock(o.bh)
	if err != nil {
		o.nev = "none"
	} else {
		o.nev = strconv.Itoa(len(evs))
	}
	ph, pb := st.VerifPeerInfo()
	o.peersH, o.peersB = peersToken(ph), peersToken(pb)
	o.cache = st.VerifHeaderCacheLen()
	if fi, err := os.Stat(l.dir + string(os.PathSeparator) + ledgerstore.MerkleTreeStorePath); err == nil {
		o.fl = fi.Size() / 32
	} else {
		o.fl = -1
	}
	return o
}

func (o obsT) String() string {
	if strings.HasPrefix(o.err, "closed") {
		return o.err
	}
	e := o.err
	if e == "" {
		e = "-"
	}
	return fmt.Sprintf("bh=%d tip=%s sh=%d stip=%s eh=%d hh=%d bt=%d/%d:%s st=%d/%d:%s:%s cnt=%s rng=%s xr=%s nev=%s peers=%s|%s cache=%d fl=%d e=%s",
		o.bh, short(o.tip), o.sh, short(o.stip), o.eh, o.hh, o.btMem, o.btStored, short(o.btRoot), o.stMem, o.stStored,
		short(o.stRootMem), short(o.stRootStored), o.cnt, o.rng, o.xr, o.nev, o.peersH, o.peersB, o.cache, o.fl, e)
}

// durable is the part of an observation that the property C12 speaks about (no in-memory sync caches).
func (o obsT) durable() string {
	if strings.HasPrefix(o.err, "closed") {
		return o.err
	}
	return fmt.Sprintf("bh=%d tip=%s sh=%d stip=%s eh=%d bt=%d/%d:%s st=%d/%d:%s:%s cnt=%s rng=%s xr=%s nev=%s e=%s",
		o.bh, short(o.tip), o.sh, short(o.stip), o.eh, o.btMem, o.btStored, short(o.btRoot), o.stMem, o.stStored,
		short(o.stRootMem), short(o.stRootStored), o.cnt, o.rng, o.xr, o.nev, o.err)
}

func diffFields(a, b string) string {
	fa, fb := strings.Fields(a), strings.Fields(b)
	var d []string
	for i := 0; i < len(fa) && i < len(fb); i++ {
		if fa[i] != fb[i] {
			d = append(d, fa[i]+" vs "+fb[i])
		}
	}
	if len(fa) != len(fb) {
		d = append(d, "shape")
	}
	return strings.Join(d, "; ")
}

// ---------------------------------------------------------------------------------------------

func (w *world) newLedger(gen *types.Block, n int) (*ledgerInst, error) {
	ledgerCount++
	// HLEDGER_DIR (set by the check to a memory-backed directory when there is one) keeps the many small
	// database commits off the disk; the process-crash model does not depend on the medium
	dir, err := os.MkdirTemp(os.Getenv("HLEDGER_DIR"), fmt.Sprintf("hledger-%d-", ledgerCount))
	if err != nil {
		return nil, err
	}
	l := &ledgerInst{dir: dir, genesis: gen}
	for i := 0; i < n; i++ {
		l.bks = append(l.bks, pool[i].pub)
	}
	if err := l.open(); err != nil {
		l.destroy()
		return nil, err
	}
	return l, nil
}

// genesisCrash: first start stopped at crash point k, then a second start on the same directory.
func (w *world) genesisCrash(r *hx.Run, g *blockSpec, blk *types.Block, n, k int, twin bool) string {
	ledgerCount++
	dir, err := os.MkdirTemp(os.Getenv("HLEDGER_DIR"), fmt.Sprintf("hledger-%d-", ledgerCount))
	if err != nil {
		return "err:other"
	}
	l := &ledgerInst{dir: dir, genesis: blk}
	for i := 0; i < n; i++ {
		l.bks = append(l.bks, pool[i].pub)
	}
	w.main = l
	crashed := false
	var ferr error
	func() {
		defer func() {
			if e := recover(); e != nil {
				if _, ok := e.(ledgerstore.VerifCrash); ok {
					crashed = true
					return
				}
				panic(e)
			}
		}()
		ledgerstore.VerifCrashAt = k
		ferr = l.open()
	}()
	ledgerstore.VerifCrashAt = -1
	if !crashed {
		return "nocrash:" + errClass(ferr)
	}
	l.close()
	rerr := l.open()
	if twin {
		blk2, _ := g.materialize(true)
		if w.twin, err = w.newLedger(blk2, n); err != nil {
			return "twin-" + errClass(err)
		}
	}
	if rerr != nil {
		l.dead = errClass(rerr)
		r.Viol(fmt.Sprintf("C12:first-start-crash:restart-fails:k=%d", k), fmt.Sprintf("after a crash at point %d while persisting the genesis block the node cannot start again: %v", k, rerr))
		return "crashed " + errClass(rerr)
	}
	got := l.observe()
	if w.twin != nil {
		if a, b := got.durable(), w.twin.observe().durable(); a != b {
			r.Viol(fmt.Sprintf("C12:first-start-crash:state-differs:k=%d", k), fmt.Sprintf("after a crash at point %d while persisting the genesis block and a second start the ledger differs from a ledger started without crash: %s", k, diffFields(a, b)))
		}
	}
	return "crashed ok " + got.String()
}

func (l *ledgerInst) addBlock(blk *types.Block, badRoot bool) error {
	res, _ := l.store.ExecuteBlock(blk)
	root := res.MerkleRoot
	if badRoot {
		root[3] ^= 0x10
	}
	return l.store.AddBlock(blk, root)
}

func (l *ledgerInst) submitBlock(blk *types.Block) error {
	res, err := l.store.ExecuteBlock(blk)
	if err != nil {
		return err
	}
	return l.store.SubmitBlock(blk, res)
}

func (w *world) Exec(r *hx.Run, op []string) string {
	setup()
	if len(op) == 0 {
		return "bad-op"
	}
	switch op[0] {
	case "genesis", "gcrash":
		// gcrash: the very first start is stopped at crash point k of the genesis block's submitBlock, the stores are
		// closed and the node is started again on the same directory
		want := 8
		if op[0] == "gcrash" {
			want = 9
		}
		if len(op) != want {
			return "bad-op"
		}
		n, _ := strconv.Atoi(op[1])
		if n < 0 || n > poolSize {
			return "bad-op"
		}
		w.net = op[2]
		setNet(op[2])
		w.ev = op[3] == "1"
		config.DefConfig.Common.EnableEventLog = w.ev
		ts, _ := strconv.ParseUint(op[4], 10, 32)
		txs, err := parseTxs(op[5])
		if err != nil {
			return "bad-op"
		}
		cfg := make([]int, n)
		for i := range cfg {
			cfg[i] = i
		}
		g := &blockSpec{name: "g", height: 0, ts: uint32(ts), txs: txs, hasCfg: true, cfg: cfg, hash: op[6]}
		blk, err := g.materialize(true)
		if err != nil {
			return "bad-op:" + err.Error()
		}
		w.blocks["g"] = g
		if op[0] == "gcrash" {
			k, _ := strconv.Atoi(op[8])
			return w.genesisCrash(r, g, blk, n, k, op[7] == "1")
		}
		if w.main, err = w.newLedger(blk, n); err != nil {
			return errClass(err)
		}
		if op[7] == "1" {
			blk2, _ := g.materialize(true)
			if w.twin, err = w.newLedger(blk2, n); err != nil {
				return "twin-" + errClass(err)
			}
		}
		return "ok " + w.main.observe().String()
	case "blk":
		if len(op) != 12 {
			return "bad-op"
		}
		b := &blockSpec{name: op[1], hash: op[11]}
		h, err1 := strconv.ParseUint(op[2], 10, 32)
		ts, err2 := strconv.ParseUint(op[4], 10, 32)
		lc, err3 := strconv.ParseUint(op[10], 10, 32)
		prev, err4 := parseHash(op[3])
		root, err5 := parseHash(op[5])
		txs, err6 := parseTxs(op[6])
		bks, err7 := parseInts(op[7])
		if err1 != nil || err2 != nil || err3 != nil || err4 != nil || err5 != nil || err6 != nil || err7 != nil {
			return "bad-op"
		}
		b.height, b.ts, b.lastCfg, b.prev, b.root, b.txs, b.bks = uint32(h), uint32(ts), uint32(lc), prev, root, txs, bks
		if op[8] != "-" {
			b.sigs = strings.Split(op[8], ",")
		}
		if op[9] == "x" {
			b.badPayload = true
		} else if op[9] != "-" {
			if op[9][0] != 'c' {
				return "bad-op"
			}
			b.hasCfg = true
			var err error
			if b.cfg, err = parseInts(op[9][1:]); err != nil {
				return "bad-op"
			}
		}
		if _, err := b.materialize(true); err != nil {
			return "bad-op:" + err.Error()
		}
		w.blocks[b.name] = b
		return "def"
	}
	if w.main == nil {
		return "bad-op:no-ledger"
	}
	switch op[0] {
	case "obs":
		return w.main.observe().String()
	case "add", "sub", "hdr":
		if len(op) < 2 || w.blocks[op[1]] == nil {
			return "bad-op"
		}
		if w.main.store == nil {
			return "closed"
		}
		spec := w.blocks[op[1]]
		bad := len(op) > 2 && op[2] == "badroot"
		run := func(l *ledgerInst) error {
			blk, err := spec.materialize(true)
			if err != nil {
				return err
			}
			switch op[0] {
			case "add":
				return l.addBlock(blk, bad)
			case "sub":
				return l.submitBlock(blk)
			default:
				return l.store.AddHeader(blk.Header)
			}
		}
		before := w.main.observe()
		err := run(w.main)
		after := w.main.observe()
		verdict := errClass(err)
		if w.twin != nil && w.twin.store != nil {
			terr := run(w.twin)
			if errClass(terr) != verdict {
				r.Viol("C12:next-block-verdict-differs", fmt.Sprintf("after a crash and restart the ledger answers %s to %s %s, the uncrashed twin answers %s (%v / %v)",
					verdict, op[0], op[1], errClass(terr), err, terr))
			} else if a, b := after.durable(), w.twin.observe().durable(); a != b {
				r.Viol("C12:state-diverges-after-recovery", "after a crash and restart the ledger and the uncrashed twin diverge on "+op[0]+" "+op[1]+": "+diffFields(a, b))
			}
		}
		w.checkSuccessor(r, op[0], spec, before, after, err)
		return verdict + " " + after.String()
	case "reopen":
		w.main.close()
		err := w.main.open()
		if err != nil {
			w.main.dead = errClass(err)
			return errClass(err)
		}
		o := w.main.observe()
		w.checkSetsInForce(r, "restart", o)
		return "ok " + o.String()
	case "crash", "crashr":
		// crashr <name> <k> <r,r,..>: after the crash at point k of submitBlock every further start is stopped inside
		// recoverStore at point r (0 = nothing committed, 1 = event store, 2 = event and state store) until the list is
		// used up; then the node is started normally
		if (op[0] == "crash" && len(op) != 3) || (op[0] == "crashr" && len(op) != 4) || w.blocks[op[1]] == nil {
			return "bad-op"
		}
		if w.main.store == nil {
			return "closed"
		}
		spec := w.blocks[op[1]]
		k, _ := strconv.Atoi(op[2])
		blk, err := spec.materialize(true)
		if err != nil {
			return "bad-op"
		}
		var twinBefore string
		if w.twin != nil && w.twin.store != nil {
			twinBefore = w.twin.observe().durable()
		}
		crashed := false
		var addErr error
		func() {
			defer func() {
				if e := recover(); e != nil {
					if _, ok := e.(ledgerstore.VerifCrash); ok {
						crashed = true
						return
					}
					panic(e)
				}
			}()
			ledgerstore.VerifCrashAt = k
			addErr = w.main.addBlock(blk, false)
		}()
		ledgerstore.VerifCrashAt = -1
		if !crashed {
			return "nocrash:" + errClass(addErr) + " " + w.main.observe().String()
		}
		w.main.close()
		pattern := ""
		if op[0] == "crashr" {
			rs, err := parseInts(op[3])
			if err != nil {
				return "bad-op"
			}
			for _, rp := range rs {
				w.main.close()
				again := false
				var oerr error
				func() {
					defer func() {
						if e := recover(); e != nil {
							if _, ok := e.(ledgerstore.VerifCrash); ok {
								again = true
								return
							}
							panic(e)
						}
					}()
					ledgerstore.VerifCrashAt = 4 + rp
					oerr = w.main.open()
				}()
				ledgerstore.VerifCrashAt = -1
				switch {
				case again:
					pattern += "R"
				case oerr != nil:
					pattern += "e"
				default:
					pattern += "n"
				}
			}
			w.main.close()
			pattern = " " + pattern
		}
		rerr := w.main.open()
		// the uncrashed twin: a crash before the first commit loses the block (it was never acknowledged),
		// a crash after it must end in the state of a complete submission
		var want string
		if w.twin != nil && w.twin.store != nil {
			if k >= 1 {
				b2, _ := spec.materialize(true)
				if terr := w.twin.addBlock(b2, false); terr != nil {
					return "twin-" + errClass(terr)
				}
				want = w.twin.observe().durable()
			} else {
				want = twinBefore
			}
		}
		if rerr != nil {
			w.main.dead = errClass(rerr)
			if want != "" {
				r.Viol(fmt.Sprintf("C12:restart-fails:k=%d", k), fmt.Sprintf("ledger cannot be reopened after a crash at point %d while persisting block %d: %v", k, spec.height, rerr))
			}
			return "crashed" + pattern + " " + errClass(rerr)
		}
		got := w.main.observe()
		if got.bh != got.sh {
			r.Viol(fmt.Sprintf("C12:heights-differ-after-restart:k=%d", k), fmt.Sprintf("after a crash at point %d while persisting block %d and a restart the block store is at height %d, the state store at height %d", k, spec.height, got.bh, got.sh))
		}
		if want != "" && got.durable() != want {
			r.Viol(fmt.Sprintf("C12:recovered-state-differs:k=%d", k), fmt.Sprintf("after a crash at point %d while persisting block %d and a restart the ledger differs from the uncrashed twin: %s", k, spec.height, diffFields(got.durable(), want)))
		}
		w.checkSetsInForce(r, "crash-restart", got)
		return "crashed" + pattern + " ok " + got.String()
	case "root":
		// root <start> <hash,hash,..>: GetBlockRootWithPreBlockHashes as a proposer calls it
		if len(op) != 3 || w.main.store == nil {
			return "bad-op"
		}
		start, err := strconv.ParseUint(op[1], 10, 32)
		if err != nil {
			return "bad-op"
		}
		var pre []common.Uint256
		if op[2] != "-" {
			for _, hs := range strings.Split(op[2], ",") {
				h, err := parseHash(hs)
				if err != nil {
					return "bad-op"
				}
				pre = append(pre, h)
			}
		}
		st := w.main.store
		cur := st.GetCurrentBlockHeight()
		got := st.GetBlockRootWithPreBlockHashes(uint32(start), pre)
		// reference: the accumulator over the previous-block hashes of blocks 0..cur plus the hashes not yet committed
		if uint32(start) <= cur+1 && cur+1 <= uint32(start)+uint32(len(pre)) {
			var hashes []common.Uint256
			for i := uint32(0); i < cur; i++ {
				hashes = append(hashes, st.GetBlockHash(i))
			}
			hashes = append(hashes, pre[cur+1-uint32(start):]...)
			if want := refBlockRoot(hashes); want != got {
				r.Viol("C13:block-root-query-wrong", fmt.Sprintf("GetBlockRootWithPreBlockHashes(%d, %d hashes) at block height %d returns %s, the accumulator root over the committed block hashes and the given predecessors is %s", start, len(pre), cur, hexOf(got), hexOf(want)))
			}
		}
		return hexOf(got)
	case "prefill":
		// prefill <n>: the in-memory header index is grown to n entries (header height n-1)
		if len(op) != 2 || w.main.store == nil {
			return "bad-op"
		}
		n, err := strconv.ParseUint(op[1], 10, 32)
		if err != nil {
			return "bad-op"
		}
		w.main.store.VerifPrefillHeaderIndex(uint32(n))
		return "ok " + w.main.observe().String()
	case "fast":
		// fast <ts0> <lastcfg> <hash>...: honest empty blocks at the next heights, signed by the set in force, added
		// one after the other without observing in between (long chains)
		if len(op) < 4 || w.main.store == nil {
			return "bad-op"
		}
		ts0, _ := strconv.ParseUint(op[1], 10, 32)
		lc, _ := strconv.ParseUint(op[2], 10, 32)
		for i, hs := range op[3:] {
			for _, l := range []*ledgerInst{w.main, w.twin} {
				if l == nil || l.store == nil {
					continue
				}
				h := l.store.GetCurrentBlockHeight() + 1
				prev := l.store.GetCurrentBlockHash()
				_, pb := l.store.VerifPeerInfo()
				b := &blockSpec{name: fmt.Sprintf("f%d", h), height: h, prev: prev, ts: uint32(ts0) + uint32(i),
					root: l.store.GetBlockRootWithPreBlockHashes(h, []common.Uint256{prev}), lastCfg: uint32(lc), hash: hs}
				b.bks = parseSet(peersToken(pb))
				for _, k := range b.bks {
					b.sigs = append(b.sigs, fmt.Sprintf("s%d", k))
				}
				blk, err := b.materialize(true)
				if err != nil {
					return fmt.Sprintf("bad-op:%v@%d", err, i)
				}
				if l == w.main {
					w.blocks[b.name] = b
				}
				if err := l.addBlock(blk, false); err != nil {
					return fmt.Sprintf("%s@%d", errClass(err), i)
				}
			}
		}
		o := w.main.observe()
		if w.twin != nil && w.twin.store != nil {
			if a, b := o.durable(), w.twin.observe().durable(); a != b {
				r.Viol("C12:state-diverges-after-recovery", "after a crash and restart the ledger and the uncrashed twin diverge on a run of blocks: "+diffFields(a, b))
			}
		}
		return "ok " + o.String()
	case "get":
		if len(op) != 2 || w.blocks[op[1]] == nil || w.main.store == nil {
			return "bad-op"
		}
		return w.lookup(w.blocks[op[1]])
	case "vh":
		if len(op) != 3 || w.blocks[op[1]] == nil || w.main.store == nil {
			return "bad-op"
		}
		return w.verifyHeaderOp(r, w.blocks[op[1]], op[2])
	}
	return "bad-op"
}

func (w *world) lookup(spec *blockSpec) string {
	st := w.main.store
	h, _ := parseHash(spec.hash)
	byHash := 0
	if b, err := st.GetBlockByHash(h); err == nil && b != nil && b.Hash() == h && len(b.Transactions) == len(spec.txs) {
		byHash = 1
	}
	byHeight := 0
	if b, err := st.GetBlockByHeight(spec.height); err == nil && b != nil && b.Hash() == h {
		byHeight = 1
	}
	hdrBy := 0
	if hd, err := st.GetHeaderByHash(h); err == nil && hd != nil && hd.Hash() == h {
		hdrBy = 1
	}
	ntx := 0
	for _, t := range spec.txs {
		th, _ := parseHash(t.hash)
		if tx, height, err := st.GetTransaction(th); err == nil && tx != nil && tx.Hash() == th && height == spec.height {
			ntx++
		}
	}
	cont, _ := st.IsContainBlock(h)
	c := 0
	if cont {
		c = 1
	}
	return fmt.Sprintf("byhash=%d byheight=%d header=%d contains=%d txs=%d/%d", byHash, byHeight, hdrBy, c, ntx, len(spec.txs))
}

var _ = bytes.Equal
