// hledger: correspondence harness for the ledger store (C12 crash recovery, C13 valid successors,
// C14 signature quorum). One op vocabulary (world.go) executed on a real LedgerStoreImp in a temp
// directory; three generator families (gen.go).
package main

import (
	"os"
	"runtime/pprof"

	"polyverif/internal/hx"
)

var families = map[string]func() hx.Family{}

func main() {
	if p := os.Getenv("HLEDGER_CPUPROFILE"); p != "" {
		if f, err := os.Create(p); err == nil {
			pprof.StartCPUProfile(f)
			defer pprof.StopCPUProfile()
		}
	}
	hx.Main(families)
}
