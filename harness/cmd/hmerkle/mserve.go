package main

import (
	"bytes"
	"fmt"
	"strconv"
	"strings"

	"github.com/polynetwork/poly/common"
	"github.com/polynetwork/poly/merkle"
	"polyverif/internal/hx"
)

// Family mserve (C08, tree part): the two tree builders behind the cross-state proofs.
//
//	fullroot <h1,...,hn>          -> HashFullTreeWithLeafHash (the root committed in the header; RFC split)
//	mhashes <depth> <h1,...,hn>   -> MerkleHashes levels (paired levels, odd last node promoted), top level first
//	depth <n>                     -> depth(n)
//	leafpath <data> <h1,...,hn>   -> MerkleLeafPath | reject:<class>
//
// Property oracles (r.Viol): the committed root equals the independent RFC reference and the top of the
// paired levels; every served path verifies with the real MerkleProve against the committed root and
// yields exactly the record; a record that is not in the list gets no path.
type mserve struct{}

func init() { families["mserve"] = func() hx.Family { return &mserve{} } }

func (f *mserve) Reset(r *hx.Run) {}

func levelsStr(ls [][]common.Uint256) string {
	parts := make([]string, len(ls))
	for i, l := range ls {
		parts[i] = hexList(l)
	}
	return strings.Join(parts, "/")
}

func leafPathErr(err error) string {
	m := err.Error()
	switch {
	case strings.HasPrefix(m, "data length over max value"):
		return "reject:too-big"
	case strings.HasPrefix(m, "values doesn't exist"):
		return "reject:not-found"
	}
	return "reject:other"
}

func (f *mserve) Exec(r *hx.Run, op []string) string {
	switch op[0] {
	case "fullroot":
		hs, ok := parseHashes(op[1])
		if !ok {
			return "bad-op"
		}
		got := merkle.TreeHasher{}.HashFullTreeWithLeafHash(hs)
		if want := refMTH(hs); got != want {
			r.Viol(fmt.Sprintf("C08:committed-root-differs-from-rfc6962:n=%d", len(hs)),
				fmt.Sprintf("HashFullTreeWithLeafHash over %d leaf hashes = %x, RFC 6962 MTH = %x", len(hs), got[:], want[:]))
		}
		if len(hs) >= 1 {
			d := merkle.VerifDepth(len(hs))
			lv := merkle.MerkleHashes(append([]common.Uint256{}, hs...), d)
			if len(lv[0]) != 1 || lv[0][0] != got {
				r.Viol(fmt.Sprintf("C08:paired-root-differs-from-committed-root:n=%d", len(hs)),
					fmt.Sprintf("top of MerkleHashes over %d leaf hashes is %s, the committed root is %x", len(hs), hexList(lv[0]), got[:]))
			}
		}
		return hx.Hex(got[:])
	case "mhashes":
		d, _ := strconv.Atoi(op[1])
		hs, ok := parseHashes(op[2])
		if !ok {
			return "bad-op"
		}
		return levelsStr(merkle.MerkleHashes(hs, d))
	case "hleaf":
		// HashLeaf and TreeHasher.hash_leaf (through HashFullTree of one leaf) against the reference, per length
		d := hx.UnHex(op[1])
		a := merkle.HashLeaf(d)
		b := merkle.TreeHasher{}.HashFullTree([][]byte{d})
		if want := refLeaf(d); a != want || b != want {
			r.Viol(fmt.Sprintf("C07:leaf-hash-wrong:len=%d", len(d)),
				fmt.Sprintf("HashLeaf / hash_leaf of a %d-byte leaf = %x / %x, sha256(0x00 || leaf) = %x", len(d), a[:], b[:], want[:]))
		}
		return hx.Hex(a[:]) + " " + hx.Hex(b[:])
	case "hchild":
		l, ok1 := u256(hx.UnHex(op[1]))
		rr, ok2 := u256(hx.UnHex(op[2]))
		if !ok1 || !ok2 {
			return "bad-op"
		}
		a := merkle.HashChildren(l, rr)
		if want := refNode(l, rr); a != want {
			r.Viol("C07:children-hash-wrong", fmt.Sprintf("HashChildren = %x, sha256(0x01 || l || r) = %x", a[:], want[:]))
		}
		return hx.Hex(a[:])
	case "depth":
		n, _ := strconv.Atoi(op[1])
		return strconv.Itoa(merkle.VerifDepth(n))
	case "leafpath":
		d := hx.UnHex(op[1])
		hs, ok := parseHashes(op[2])
		if !ok {
			return "bad-op"
		}
		path, err := merkle.MerkleLeafPath(d, hs)
		member := false
		for _, h := range hs {
			if h == refLeaf(d) {
				member = true
			}
		}
		if err != nil {
			res := leafPathErr(err)
			if member && res != "reject:too-big" {
				r.Viol(fmt.Sprintf("C08:no-path-for-committed-record:n=%d", len(hs)), "MerkleLeafPath refuses a record whose leaf hash is in the list: "+err.Error())
			}
			return res
		}
		if !member {
			r.Viol(fmt.Sprintf("C08:path-for-absent-record:n=%d", len(hs)), "MerkleLeafPath produced a path for a record that is not in the list")
		}
		root := merkle.TreeHasher{}.HashFullTreeWithLeafHash(hs)
		v, e := merkle.MerkleProve(path, root[:])
		if e == nil && len(d) > 0 {
			// the same path with the last byte of the record changed must not verify (unless that record is in the block too)
			d2 := append([]byte{}, d...)
			d2[len(d2)-1] ^= 0x01
			in := false
			for _, h := range hs {
				if h == refLeaf(d2) {
					in = true
				}
			}
			if p2 := swapValue(path, d, d2); p2 != nil && !in {
				if _, e3 := merkle.MerkleProve(p2, root[:]); e3 == nil {
					r.Viol(fmt.Sprintf("C07:changed-record-accepted:len=%d", len(d)),
						fmt.Sprintf("MerkleProve accepts the path of the %d-byte record %x for the record with its last byte changed", len(d), d))
				}
			}
		}
		for _, o := range otherRoots(root[:], refMTH(append([]common.Uint256{refLeaf([]byte("other"))}, hs...))) {
			if _, e2 := merkle.MerkleProve(path, o); e2 == nil {
				r.Viol(fmt.Sprintf("C08:served-path-verifies-against-another-root:n=%d", len(hs)),
					fmt.Sprintf("the path served for record %x of a %d-record block, accepted for the committed root %x, is also accepted for root %x", d, len(hs), root[:], o))
			}
		}
		if e != nil || !bytes.Equal(v, d) {
			idx := -1
			for i, h := range hs {
				if h == refLeaf(d) {
					idx = i
					break
				}
			}
			r.Viol(fmt.Sprintf("C08:served-path-does-not-verify:n=%d:i=%d", len(hs), idx),
				fmt.Sprintf("the path served for record %x (first index %d of %d) does not verify against the committed root %x: err=%v value=%x", d, idx, len(hs), root[:], e, v))
		}
		return hx.Hex(path)
	}
	return "bad-op"
}

func (f *mserve) Gen(r *hx.Run) {
	r.Rule("lists of 1..N records (0..60 bytes, duplicates included): committed root, paired levels, served path for every record (sampled on big lists), absent records, the 1 MiB path-size guard; distinct non-trivial = distinct (size, index) with size >= 2")
	genTreeCases(r, r.Pick(140, 700), true)
}

// genTreeCases is shared with the ledger family's generator (sizes and shapes of record lists).
func genTreeCases(r *hx.Run, maxN int, big bool) {
	special := []int{0, 1, 31, 32, 33, 63, 64, 65, 66, 127, 128, 129, 255, 256, 1000}
	nrec := 0
	rec := func() []byte {
		nrec++
		if nrec%5 == 0 {
			return r.Rng.Bytes(special[(nrec/5)%len(special)])
		}
		switch r.Rng.Intn(8) {
		case 0:
			return []byte{}
		case 1:
			return r.Rng.Bytes(0xfd + r.Rng.Intn(4)) // 3-byte length prefix
		default:
			return r.Rng.Bytes(1 + r.Rng.Intn(60))
		}
	}
	r.Case("hashes")
	for n := 0; n <= 140; n++ { // leaf hash per length, every length around the block and buffer boundaries
		r.Do("hleaf " + hx.Hex(r.Rng.Bytes(n)))
	}
	for _, n := range []int{255, 256, 257, 1000, 4096} {
		r.Do("hleaf " + hx.Hex(r.Rng.Bytes(n)))
	}
	for k := 0; k < 20; k++ {
		r.Do(fmt.Sprintf("hchild %s %s", hx.Hex(r.Rng.Bytes(32)), hx.Hex(r.Rng.Bytes(32))))
	}
	r.Case("empty")
	r.Do("fullroot -")
	r.Do("leafpath 00 -")
	r.Do("mhashes 0 -")
	for n := 0; n <= 70; n++ {
		r.Do(fmt.Sprintf("depth %d", n+1))
	}
	for j := 7; j <= 20; j++ {
		for _, d := range []int{-1, 0, 1} {
			r.Do(fmt.Sprintf("depth %d", (1<<uint(j))+d))
		}
	}
	for n := 1; n <= maxN; n++ {
		r.Case(fmt.Sprintf("list-%d", n))
		recs := make([][]byte, n)
		hs := make([]common.Uint256, n)
		for i := range recs {
			recs[i] = rec()
			if i > 0 && r.Rng.Chance(1, 9) {
				recs[i] = recs[r.Rng.Intn(i)] // the same record twice in one block
			}
			hs[i] = refLeaf(recs[i])
		}
		r.Do("fullroot " + hexList(hs))
		if n <= 40 || n%13 == 0 {
			r.Do(fmt.Sprintf("mhashes %d %s", merkle.VerifDepth(n), hexList(hs)))
		}
		r.Hist("size." + sizeClass(n))
		var idx []int
		if n <= 48 {
			for i := 0; i < n; i++ {
				idx = append(idx, i)
			}
		} else {
			idx = []int{0, 1, n - 1, n - 2, n / 2, refSplit(n), refSplit(n) - 1, r.Rng.Intn(n), r.Rng.Intn(n)}
		}
		for _, i := range idx {
			r.Do(fmt.Sprintf("leafpath %s %s", hx.Hex(recs[i]), hexList(hs)))
			if n >= 2 {
				r.Nontrivial(fmt.Sprintf("leafpath/%d/%d", n, i))
			}
		}
		r.Do(fmt.Sprintf("leafpath %s %s", hx.Hex(r.Rng.Bytes(5)), hexList(hs))) // absent record
		if n >= 2 {
			// an interior node's preimage as "record": must be absent
			inner := append([]byte{1}, hs[0][:]...)
			inner = append(inner, hs[1][:]...)
			r.Do(fmt.Sprintf("leafpath %s %s", hx.Hex(inner), hexList(hs)))
		}
	}
	if big {
		// the MAX_SIZE guard: size = len(hashes)*33 + len(data) + 8 must not exceed 1 MiB
		for _, n := range []int{31774, 31775} {
			r.Case(fmt.Sprintf("guard-%d", n))
			hs := make([]common.Uint256, n)
			for i := range hs {
				copy(hs[i][:], r.Rng.Bytes(32))
			}
			d := r.Rng.Bytes(26)
			hs[n-3] = refLeaf(d)
			r.Do(fmt.Sprintf("leafpath %s %s", hx.Hex(d), hexList(hs)))  // 31774*33+26+8 = 1048576: allowed; 31775: refused
			r.Do(fmt.Sprintf("leafpath %s %s", hx.Hex(append(d, 1)), hexList(hs)))
			r.Do("fullroot " + hexList(hs))
		}
	}
}

// swapValue replaces the value at the front of a path (varbytes) by another value of the same length.
func swapValue(path, old, new []byte) []byte {
	if len(old) != len(new) {
		return nil
	}
	i := bytes.Index(path, old)
	if len(old) == 0 || i < 0 || i > 9 {
		return nil
	}
	out := append([]byte{}, path...)
	copy(out[i:], new)
	return out
}
