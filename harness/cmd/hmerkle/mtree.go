package main

import (
	"bytes"
	"fmt"
	"os"
	"path/filepath"
	"strconv"
	"strings"

	"github.com/polynetwork/poly/common"
	"github.com/polynetwork/poly/merkle"
	"polyverif/internal/hx"
)

// Family mtree (C06): the real CompactMerkleTree with a memory store, a file store (temp dir) or no store.
//
//	new mem|file|nil             -> ok
//	append <data>                -> <size> <root> <returned audit path>
//	state                        -> <size> <frontier> <stored hashes | nil>
//	store <i>                    -> GetHash(i)
//	storeall                     -> every stored hash (file: the whole file)
//	root                         -> Root()
//	predict1 <32 bytes>          -> GetRootWithNewLeaf
//	predict <h1,...,hn>          -> GetRootWithNewLeaves
//	marshal / unmarshal <bytes>  -> bytes / ok <size> <frontier>
//	newtree <size> <hashes>      -> NewTree(size, hashes, current store)
//	reopen all|<keep>            -> close the file, optionally truncate it to <keep> hashes, NewFileHashStore + NewTree
//	incl <m> <n> / cons <m> <n> / leafpath <data> <m> <n> / mroot <n> / bits <n>
//	recheck                      -> ok   (harness-side: results handed out earlier - saved states, proofs, paths - are
//	                                      kept alive, must still read the same, and saved states must still reload)
//	resume <n>                   -> ok   (harness-side: oracles on again after a crash scenario)
//
// Property oracles evaluated on the implementation's outputs (r.Viol): root = independent RFC 6962
// reference; predicted root = reference root of the extended list; marshal round trip; generated
// inclusion / consistency proofs equal the RFC PATH / PROOF and are accepted by the node's verifiers;
// leaf paths verify with MerkleProve; merkleRoot(n) = reference root of the first n leaves.
type mtree struct {
	kind   string
	tree   *merkle.CompactMerkleTree
	store  merkle.HashStore
	path   string
	data   [][]byte         // appended leaf data (of the list the frontier currently stands for)
	lh     []common.Uint256 // their leaf hashes
	known  bool             // data/lh describe the current tree (false after unmarshal/newtree of foreign state)
	nfiles int
	held   []heldResult // results handed out earlier, kept alive (not copied) to see whether later calls disturb them
	nheld  int
}

// heldResult is a value returned by the tree some time ago: the very slice that was returned (live) and a private
// copy taken at that moment. A saved compact state (Marshal) additionally remembers what it must reload to.
type heldResult struct {
	what   string
	live   []byte
	liveH  []common.Uint256
	copyB  []byte
	copyH  []common.Uint256
	size   uint32
	hashes []common.Uint256
	root   common.Uint256
}

func (f *mtree) hold(h heldResult) {
	h.copyB = append([]byte{}, h.live...)
	h.copyH = append([]common.Uint256{}, h.liveH...)
	f.nheld++
	if len(f.held) < 96 {
		f.held = append(f.held, h)
	} else if f.nheld%3 == 0 {
		f.held[(f.nheld/3)%96] = h
	}
}

// recheck: every result handed out earlier must still read as it did, and every saved compact state must still
// reload to the tree it was taken from (checkpoints are kept while the tree moves on).
func (f *mtree) recheck(r *hx.Run) string {
	bad := 0
	for _, h := range f.held {
		if !bytes.Equal(h.live, h.copyB) || !eqHashes(h.liveH, h.copyH) {
			bad++
			r.Viol("C06:returned-value-changed-later:"+h.what,
				fmt.Sprintf("a %s result returned earlier (%x...) reads differently after later calls on the same tree", h.what, firstBytes(h.copyB, h.copyH)))
		}
		if h.what == "marshal" {
			t2 := merkle.NewTree(0, nil, nil)
			err := t2.UnMarshal(h.live)
			if err != nil || t2.TreeSize() != h.size || !eqHashes(t2.Hashes(), h.hashes) || t2.Root() != h.root {
				bad++
				r.Viol(fmt.Sprintf("C06:held-checkpoint-does-not-reload:n=%d", h.size),
					fmt.Sprintf("the compact state saved at size %d and kept while the tree moved on no longer reloads to that tree (err=%v, size=%d)", h.size, err, t2.TreeSize()))
			}
		}
	}
	if bad > 0 {
		return "BAD"
	}
	return "ok"
}

func firstBytes(b []byte, hs []common.Uint256) []byte {
	if len(b) > 12 {
		return b[:12]
	}
	if len(b) > 0 {
		return b
	}
	if len(hs) > 0 {
		return hs[0][:12]
	}
	return nil
}

func init() { families["mtree"] = func() hx.Family { return &mtree{} } }

func (f *mtree) closeFile() {
	if f.store != nil && f.kind == "file" {
		f.store.Close()
	}
	f.store = nil
}

func (f *mtree) Reset(r *hx.Run) {
	f.closeFile()
	if f.path != "" {
		os.Remove(f.path)
	}
	f.kind, f.tree, f.path, f.data, f.lh, f.known = "nil", merkle.NewTree(0, nil, nil), "", nil, nil, true
	f.held, f.nheld = nil, 0
}

func classify(e interface{}) string { return "panic" }

func (f *mtree) refRootAt(n int) common.Uint256 { return refMTH(f.lh[:n]) }

func (f *mtree) Exec(r *hx.Run, op []string) string {
	switch op[0] {
	case "new":
		f.Reset(r)
		f.kind = op[1]
		switch op[1] {
		case "mem":
			f.store = merkle.NewMemHashStore()
		case "file":
			f.nfiles++
			f.path = filepath.Join(os.TempDir(), fmt.Sprintf("mtree-%d-%d.db", os.Getpid(), f.nfiles))
			os.Remove(f.path)
			st, err := merkle.NewFileHashStore(f.path, 0)
			if err != nil {
				return "err-open"
			}
			f.store = st
		}
		if f.store != nil {
			f.tree = merkle.NewTree(0, nil, f.store)
		} else {
			f.tree = merkle.NewTree(0, nil, nil)
		}
		return "ok"
	case "append":
		d := hx.UnHex(op[1])
		audit := f.tree.Append(d)
		if len(f.lh)%5 == 0 && len(audit) > 0 {
			f.hold(heldResult{what: "append-audit-path", liveH: audit})
		}
		f.data = append(f.data, d)
		f.lh = append(f.lh, refLeaf(d))
		root := f.tree.Root()
		n := len(f.lh)
		if f.known && (n <= 600 || (n <= 6000 && n%61 == 0) || sizeClass(n) != "odd" && sizeClass(n) != "even") {
			if want := refMTH(f.lh); root != want {
				r.Viol(fmt.Sprintf("C06:root-differs-from-rfc6962:n=%d", n),
					fmt.Sprintf("after %d appends Root() = %x, RFC 6962 MTH of the appended leaves = %x", n, root[:], want[:]))
			}
			if int(f.tree.TreeSize()) != n {
				r.Viol(fmt.Sprintf("C06:size-wrong:n=%d", n), fmt.Sprintf("TreeSize() = %d after %d appends", f.tree.TreeSize(), n))
			}
		}
		return fmt.Sprintf("%d %s %s", f.tree.TreeSize(), hx.Hex(root[:]), hexList(audit))
	case "state":
		st := "nil"
		if f.store != nil {
			st = strconv.Itoa(f.fileLen()) // file store: the real file length in hashes
		}
		return fmt.Sprintf("%d %s %s", f.tree.TreeSize(), hexList(f.tree.Hashes()), st)
	case "store":
		if f.store == nil {
			return "nil"
		}
		i, _ := strconv.ParseUint(op[1], 10, 32)
		h, _ := f.store.GetHash(uint32(i)) // callers ignore the error
		return hx.Hex(h[:])
	case "storeall":
		if f.store == nil {
			return "nil"
		}
		n := f.fileLen()
		hs := make([]common.Uint256, n)
		for i := range hs {
			hs[i], _ = f.store.GetHash(uint32(i))
		}
		return hexList(hs)
	case "root":
		root := f.tree.Root()
		return hx.Hex(root[:])
	case "predict1":
		u, ok := u256(hx.UnHex(op[1]))
		if !ok {
			return "bad-op"
		}
		got := f.tree.GetRootWithNewLeaf(u)
		if f.known {
			want := refMTH(append(append([]common.Uint256{}, f.lh...), refLeaf(u[:])))
			if got != want {
				r.Viol(fmt.Sprintf("C06:predicted-root-wrong:single:n=%d", len(f.lh)),
					fmt.Sprintf("GetRootWithNewLeaf on a tree of %d leaves = %x, root of the extended list = %x", len(f.lh), got[:], want[:]))
			}
		}
		return hx.Hex(got[:])
	case "predict":
		xs, ok := parseHashes(op[1])
		if !ok {
			return "bad-op"
		}
		before := f.tree.Root()
		sizeBefore, storeBefore := f.tree.TreeSize(), f.storeLen()
		got := f.tree.GetRootWithNewLeaves(xs)
		if f.known {
			ext := append([]common.Uint256{}, f.lh...)
			for _, x := range xs {
				ext = append(ext, refLeaf(x[:]))
			}
			if want := refMTH(ext); got != want {
				r.Viol(fmt.Sprintf("C06:predicted-root-wrong:n=%d:extra=%d", len(f.lh), len(xs)),
					fmt.Sprintf("GetRootWithNewLeaves(%d leaves) on a tree of %d = %x, root after appending them = %x", len(xs), len(f.lh), got[:], want[:]))
			}
		}
		if f.tree.Root() != before || f.tree.TreeSize() != sizeBefore || f.storeLen() != storeBefore {
			r.Viol(fmt.Sprintf("C06:predict-mutates-tree:n=%d", len(f.lh)), "GetRootWithNewLeaves changed the tree or its store")
		}
		return hx.Hex(got[:])
	case "recheck":
		return f.recheck(r)
	case "marshal":
		b, _ := f.tree.Marshal()
		f.hold(heldResult{what: "marshal", live: b, size: f.tree.TreeSize(), hashes: append([]common.Uint256{}, f.tree.Hashes()...), root: f.tree.Root()})
		t2 := merkle.NewTree(0, nil, nil)
		if err := t2.UnMarshal(b); err != nil || t2.TreeSize() != f.tree.TreeSize() || !eqHashes(t2.Hashes(), f.tree.Hashes()) || t2.Root() != f.tree.Root() {
			r.Viol(fmt.Sprintf("C06:marshal-roundtrip:n=%d", f.tree.TreeSize()), fmt.Sprintf("UnMarshal(Marshal(tree)) differs from the tree (err=%v)", err))
		}
		f.recheck(r) // earlier checkpoints must have survived this Marshal call (failures go to r.Viol)
		return hx.Hex(b)
	case "unmarshal":
		b := hx.UnHex(op[1])
		if err := f.tree.UnMarshal(b); err != nil {
			if strings.HasPrefix(err.Error(), "Too short") {
				return "reject:too-short-buf"
			}
			return "reject:other"
		}
		f.known = false
		return fmt.Sprintf("ok %d %s", f.tree.TreeSize(), hexList(f.tree.Hashes()))
	case "newtree":
		n, _ := strconv.ParseUint(op[1], 10, 32)
		hs, ok := parseHashes(op[2])
		if !ok {
			return "bad-op"
		}
		if f.store != nil {
			f.tree = merkle.NewTree(uint32(n), hs, f.store)
		} else {
			f.tree = merkle.NewTree(uint32(n), hs, nil)
		}
		f.known = false
		return "ok"
	case "reopen":
		if f.store == nil {
			return "nil"
		}
		if f.kind != "file" {
			return "mem"
		}
		size, hashes := f.tree.TreeSize(), append([]common.Uint256{}, f.tree.Hashes()...)
		rootBefore := f.tree.Root()
		f.closeFile()
		if op[1] != "all" {
			keep, _ := strconv.ParseInt(op[1], 10, 64)
			if st, err := os.Stat(f.path); err == nil && st.Size() > keep*32 {
				os.Truncate(f.path, keep*32)
			}
		}
		st, err := merkle.NewFileHashStore(f.path, size)
		if err != nil {
			// as StateStore.init: persistence disabled, the tree continues without a store
			f.store = nil
			f.tree = merkle.NewTree(size, hashes, nil)
			return "nostore"
		}
		f.store = st
		f.tree = merkle.NewTree(size, hashes, st)
		if f.tree.Root() != rootBefore {
			r.Viol(fmt.Sprintf("C06:reload-changes-root:n=%d", size), "root differs after reopening the hash file")
		}
		return "ok"
	case "resume":
		// harness-side: after a crash the compact state went back to the first n leaves (the hash file kept
		// the orphaned hashes of the lost appends). Checked against the independent reference before the
		// oracles are switched on again for the history that follows.
		n, _ := strconv.Atoi(op[1])
		if n > len(f.lh) || int(f.tree.TreeSize()) != n || f.tree.Root() != refMTH(f.lh[:n]) {
			return "no"
		}
		f.data, f.lh, f.known = f.data[:n], f.lh[:n], true
		return "ok"
	case "incl":
		m, _ := strconv.ParseUint(op[1], 10, 32)
		n, _ := strconv.ParseUint(op[2], 10, 32)
		proof, err := f.tree.InclusionProof(uint32(m), uint32(n))
		if err != nil {
			return genErr(err)
		}
		if (m+n)%7 == 0 {
			f.hold(heldResult{what: "inclusion-proof", liveH: proof})
		}
		if f.known && f.storeIntact() && int(n) <= len(f.lh) {
			want := refPath(int(m), f.lh[:n])
			if !eqHashes(proof, want) {
				r.Viol(fmt.Sprintf("C06:inclusion-proof-differs-from-rfc-path:m=%d:n=%d", m, n),
					fmt.Sprintf("InclusionProof(%d,%d) = %s, RFC 6962 PATH = %s", m, n, hexList(proof), hexList(want)))
			}
			v := merkle.NewMerkleVerifier()
			if e := v.VerifyLeafHashInclusion(f.lh[m], uint32(m), proof, f.refRootAt(int(n)), uint32(n)); e != nil {
				r.Viol(fmt.Sprintf("C06:inclusion-proof-rejected:m=%d:n=%d", m, n),
					fmt.Sprintf("the node's verifier rejects the generated inclusion proof of leaf %d in the tree of size %d: %v", m, n, e))
			}
		}
		return hexList(proof)
	case "cons":
		m, _ := strconv.ParseUint(op[1], 10, 32)
		n, _ := strconv.ParseUint(op[2], 10, 32)
		proof := f.tree.ConsistencyProof(uint32(m), uint32(n))
		if proof == nil && (m > n || uint64(f.tree.TreeSize()) < n || f.store == nil) {
			return "nil"
		}
		if (m+n)%7 == 1 {
			f.hold(heldResult{what: "consistency-proof", liveH: proof})
		}
		if f.known && f.storeIntact() && int(n) <= len(f.lh) && m >= 1 {
			want := refProof(int(m), f.lh[:n])
			if !eqHashes(proof, want) {
				r.Viol(fmt.Sprintf("C06:consistency-proof-differs-from-rfc-proof:m=%d:n=%d", m, n),
					fmt.Sprintf("ConsistencyProof(%d,%d) = %s, RFC 6962 PROOF = %s", m, n, hexList(proof), hexList(want)))
			}
			v := merkle.NewMerkleVerifier()
			if e := v.VerifyConsistency(uint32(m), uint32(n), f.refRootAt(int(m)), f.refRootAt(int(n)), proof); e != nil {
				r.Viol(fmt.Sprintf("C06:consistency-proof-rejected:m=%d:n=%d", m, n),
					fmt.Sprintf("the node's verifier rejects the generated consistency proof between sizes %d and %d: %v", m, n, e))
			}
		}
		return hexList(proof)
	case "leafpath":
		d := hx.UnHex(op[1])
		m, _ := strconv.ParseUint(op[2], 10, 32)
		n, _ := strconv.ParseUint(op[3], 10, 32)
		p, err := f.tree.MerkleInclusionLeafPath(d, uint32(m), uint32(n))
		if err != nil {
			return genErr(err)
		}
		f.hold(heldResult{what: "leaf-path", live: p})
		if f.known && f.storeIntact() && int(n) <= len(f.lh) && bytes.Equal(d, f.data[m]) {
			root := f.refRootAt(int(n))
			v, e := merkle.MerkleProve(p, root[:])
			if e != nil || !bytes.Equal(v, d) {
				r.Viol(fmt.Sprintf("C06:leaf-path-rejected:m=%d:n=%d", m, n),
					fmt.Sprintf("MerkleProve rejects the generated leaf path of leaf %d in the tree of size %d (err=%v, value=%x)", m, n, e, v))
			}
		}
		return hx.Hex(p)
	case "mroot":
		if f.store == nil {
			return "nil"
		}
		n, _ := strconv.ParseUint(op[1], 10, 32)
		got := f.tree.VerifMerkleRoot(uint32(n))
		if f.known && f.storeIntact() && int(n) <= len(f.lh) && n >= 1 {
			if want := f.refRootAt(int(n)); got != want {
				r.Viol(fmt.Sprintf("C06:stored-root-differs:n=%d", n), fmt.Sprintf("merkleRoot(%d) from the store = %x, reference = %x", n, got[:], want[:]))
			}
		}
		return hx.Hex(got[:])
	case "bits":
		n64, _ := strconv.ParseUint(op[1], 10, 32)
		n := uint32(n64)
		return fmt.Sprintf("%d %d %d %s %s %d", merkle.VerifCountBit(n), merkle.VerifHighBit(n), merkle.VerifLowBit(n),
			u32List(merkle.VerifGetSubTreeSize(n)), u32List(merkle.VerifGetSubTreePos(n)), merkle.VerifStoredHashNum(n))
	}
	return "bad-op"
}

func u32List(xs []uint32) string {
	if len(xs) == 0 {
		return "-"
	}
	parts := make([]string, len(xs))
	for i, x := range xs {
		parts[i] = strconv.FormatUint(uint64(x), 10)
	}
	return strings.Join(parts, ",")
}

func genErr(err error) string {
	switch err.Error() {
	case "wrong parameters":
		return "reject:wrong-params"
	case "not available yet":
		return "reject:not-available"
	case "hash store not available":
		return "reject:no-store"
	}
	return "reject:other"
}

// storeIntact: the store holds the hashes of exactly the leaves in f.lh (set false by truncating reopen).
func (f *mtree) storeIntact() bool { return f.store != nil }

func (f *mtree) fileLen() int {
	if f.kind == "file" {
		if st, err := os.Stat(f.path); err == nil {
			return int(st.Size() / 32)
		}
		return 0
	}
	// memory store: the slice is unexported; probe GetHash (it panics past the end)
	has := func(i int) (ok bool) {
		defer func() {
			if recover() != nil {
				ok = false
			}
		}()
		f.store.GetHash(uint32(i))
		return true
	}
	lo, hi := 0, 1
	for has(hi - 1) {
		lo, hi = hi, hi*2
	}
	for lo < hi { // first index that panics
		mid := (lo + hi) / 2
		if has(mid) {
			lo = mid + 1
		} else {
			hi = mid
		}
	}
	return lo
}

// storeLen is the number of hashes written so far for the current tree.
func (f *mtree) storeLen() int {
	if f.store == nil {
		return -1
	}
	return int(merkle.VerifStoredHashNum(f.tree.TreeSize()))
}

func (f *mtree) Gen(r *hx.Run) {
	r.Rule("append sequences on memory / file / absent stores with leaves of length 0..40 (duplicates included); every tree size 0..N with root, frontier, store length; every (m,n) inclusion and consistency pair up to a bound plus sampled pairs on big trees; reopen of the hash file at every size, with truncated and over-long files; marshal round trips and malformed buffers; predicted roots for 0..6 extra leaves; distinct non-trivial = distinct (store kind, op kind, m, n / size) with n >= 2")
	special := []int{0, 1, 31, 32, 33, 63, 64, 65, 66, 127, 128, 129, 255, 256, 1000}
	nleaf := 0
	leaf := func() string {
		nleaf++
		if nleaf%4 == 0 { // every length around the hash block / preimage buffer boundaries, in turn
			return hx.Hex(r.Rng.Bytes(special[(nleaf/4)%len(special)]))
		}
		switch r.Rng.Intn(6) {
		case 0:
			return "-"
		case 1:
			return hx.Hex(r.Rng.Bytes(32))
		default:
			return hx.Hex(r.Rng.Bytes(1 + r.Rng.Intn(40)))
		}
	}
	grid := r.Pick(48, 160)
	maxN := r.Pick(260, 1100)
	for _, kind := range []string{"mem", "file"} {
		// A: every size, then the full (m,n) grid on the final tree and on the growing tree
		r.Case("grid-" + kind)
		r.Do("new " + kind)
		r.Do("root")
		r.Do("state")
		var leaves []string
		for n := 1; n <= maxN; n++ {
			l := leaf()
			if n%17 == 0 {
				l = leaves[r.Rng.Intn(len(leaves))] // repeated leaf
			}
			leaves = append(leaves, l)
			r.Do("append " + l)
			r.Do("state")
			r.Hist("size." + sizeClass(n))
			if n <= grid {
				// proofs against the current size
				for m := 0; m <= n; m++ {
					if m < n {
						r.Do(fmt.Sprintf("incl %d %d", m, n))
						if n >= 2 {
							r.Nontrivial(fmt.Sprintf("%s/incl/%d/%d", kind, m, n))
						}
					}
					r.Do(fmt.Sprintf("cons %d %d", m, n))
					if n >= 2 && m >= 1 {
						r.Nontrivial(fmt.Sprintf("%s/cons/%d/%d", kind, m, n))
					}
				}
				r.Do(fmt.Sprintf("mroot %d", n))
			}
			if kind == "file" && n <= grid {
				r.Do("reopen all")
				r.Do("state")
			}
		}
		// proofs for earlier sizes on the final tree
		for n := 1; n <= grid; n++ {
			for m := 0; m <= n; m++ {
				if m < n {
					r.Do(fmt.Sprintf("incl %d %d", m, n))
					if (m+n)%5 == 0 {
						r.Do(fmt.Sprintf("leafpath %s %d %d", leaves[m], m, n))
					}
				}
				if m >= 1 {
					r.Do(fmt.Sprintf("cons %d %d", m, n))
				}
			}
			r.Do(fmt.Sprintf("mroot %d", n))
		}
		// sampled pairs on the big tree
		for k := 0; k < r.Pick(400, 6000); k++ {
			n := 1 + r.Rng.Intn(maxN)
			if r.Rng.Chance(1, 3) {
				n = nearPow2(r, maxN)
			}
			m := r.Rng.Intn(n)
			r.Do(fmt.Sprintf("incl %d %d", m, n))
			r.Do(fmt.Sprintf("cons %d %d", m+1, n))
			r.Do(fmt.Sprintf("leafpath %s %d %d", leaves[m], m, n))
			r.Nontrivial(fmt.Sprintf("%s/pair/%d/%d", kind, m, n))
		}
		// parameter errors
		r.Do(fmt.Sprintf("incl %d %d", 5, 5))
		r.Do(fmt.Sprintf("incl %d %d", 6, 5))
		r.Do(fmt.Sprintf("incl %d %d", 0, maxN+1))
		r.Do(fmt.Sprintf("cons %d %d", 6, 5))
		r.Do(fmt.Sprintf("cons %d %d", 1, maxN+1))
		r.Do(fmt.Sprintf("cons %d %d", 0, 0))
		r.Do(fmt.Sprintf("cons %d %d", maxN, maxN))
		r.Do(fmt.Sprintf("leafpath 00 %d %d", 3, 3))
		r.Do(fmt.Sprintf("leafpath 00 %d %d", 0, maxN+1))
		r.Do(fmt.Sprintf("leafpath %s %d %d", "ffee", 1, 9)) // data that is not the leaf: the path is still produced
		r.Do("marshal")
		r.Do("recheck") // everything handed out during the case still reads as it did
		r.Do("storeall")
	}
	// B: no store
	r.Case("nostore")
	r.Do("new nil")
	for n := 1; n <= 40; n++ {
		r.Do("append " + leaf())
		r.Do("state")
	}
	r.Do("incl 0 5")
	r.Do("cons 1 5")
	r.Do("leafpath 00 0 5")
	r.Do("incl 7 5")
	r.Do("store 0")
	r.Do("mroot 3")
	// C: marshal / unmarshal / newtree
	r.Case("marshal")
	r.Do("new mem")
	var snaps []string
	for n := 0; n <= r.Pick(140, 700); n++ {
		if n > 0 {
			r.Do("append " + leaf())
		}
		m := r.Do("marshal")
		snaps = append(snaps, m)
		if n%7 == 3 {
			r.Do("unmarshal " + m) // same state back
			r.Do("state")
			r.Do("root")
			r.Nontrivial(fmt.Sprintf("marshal/%d", n))
		}
	}
	r.Do("recheck")
	for i, m := range snaps {
		if i%9 != 4 {
			continue
		}
		b := hx.UnHex(m)
		r.Do("unmarshal " + hx.Hex(append(append([]byte{}, b...), r.Rng.Bytes(1+r.Rng.Intn(40))...))) // trailing bytes
		r.Do("state")
		r.Do("root")
		if len(b) > 4 {
			r.Do("unmarshal " + hx.Hex(b[:len(b)-1]))                          // one byte short
			r.Do("unmarshal " + hx.Hex(b[:4+r.Rng.Intn(len(b)-4)]))            // cut anywhere
			c := append([]byte{}, b...)
			c[3] ^= byte(1 << uint(r.Rng.Intn(8)))                             // size field changed
			r.Do("unmarshal " + hx.Hex(c))
			r.Do("state")
		}
		r.Do("unmarshal " + m)
	}
	for _, short := range []string{"-", "00", "0000", "000000"} {
		r.Do("unmarshal " + short) // buf[0:4] on a short buffer
	}
	r.Do("unmarshal 00000000")
	r.Do("state")
	r.Do("unmarshal 00000001")
	r.Do("unmarshal ffffffff" + strings.Repeat("ab", 32*32))
	r.Do("state")
	r.Do("newtree 5 " + hexList([]common.Uint256{refLeaf([]byte{1}), refLeaf([]byte{2})}))
	r.Do("root")
	r.Do("append 01")
	r.Do("state")
	r.Do("newtree 5 " + hexList([]common.Uint256{refLeaf([]byte{1})}))
	r.Do("newtree 0 -")
	r.Do("root")
	r.Do("newtree 0 " + hexList([]common.Uint256{refLeaf([]byte{1})}))
	// D: predicted roots
	r.Case("predict")
	r.Do("new mem")
	for n := 0; n <= r.Pick(70, 400); n++ {
		if n > 0 {
			r.Do("append " + leaf())
		}
		r.Do("predict1 " + hx.Hex(r.Rng.Bytes(32)))
		k := r.Rng.Intn(7)
		xs := make([]common.Uint256, k)
		for i := range xs {
			copy(xs[i][:], r.Rng.Bytes(32))
		}
		r.Do("predict " + hexList(xs))
		r.Do("state")
		r.Nontrivial(fmt.Sprintf("predict/%d/%d", n, k))
	}
	r.Case("predict-nostore")
	r.Do("new nil")
	for n := 0; n <= 20; n++ {
		if n > 0 {
			r.Do("append " + leaf())
		}
		xs := make([]common.Uint256, 1+r.Rng.Intn(4))
		for i := range xs {
			copy(xs[i][:], r.Rng.Bytes(32))
		}
		r.Do("predict " + hexList(xs))
		r.Do("predict1 " + hx.Hex(r.Rng.Bytes(32)))
	}
	// E: reopen with a truncated / over-long file
	for t := 0; t < r.Pick(12, 120); t++ {
		r.Case(fmt.Sprintf("reopen-%d", t))
		r.Do("new file")
		n := 1 + r.Rng.Intn(40)
		var leaves []string
		for i := 0; i < n; i++ {
			leaves = append(leaves, leaf())
			r.Do("append " + leaves[i])
		}
		snap := r.Do("marshal")
		extra := 1 + r.Rng.Intn(12)
		for i := 0; i < extra; i++ {
			leaves = append(leaves, leaf())
			r.Do("append " + leaves[n+i])
		}
		switch t % 3 {
		case 0: // crash after the hash-file write of some appends but before their compact state was committed:
			// restart at the committed size with the orphaned hashes still in the file, then a different history
			r.Do("unmarshal " + snap)
			r.Do("reopen all")
			r.Do(fmt.Sprintf("resume %d", n))
			r.Do("state")
			r.Do("storeall")
			leaves = leaves[:n]
			for i := 0; i < extra+2; i++ {
				l := leaf()
				if t%2 == 0 && i == 0 {
					l = hx.Hex(r.Rng.Bytes(7)) // certainly not the lost leaf
				}
				leaves = append(leaves, l)
				r.Do("append " + l)
				cur := n + i + 1
				// every proof read back from the file must verify (oracles in Exec)
				for m := 0; m < cur; m++ {
					if cur <= 24 || m%3 == i%3 || m+2 >= cur {
						r.Do(fmt.Sprintf("incl %d %d", m, cur))
						r.Do(fmt.Sprintf("cons %d %d", m+1, cur))
					}
				}
				mm := r.Rng.Intn(cur)
				r.Do(fmt.Sprintf("leafpath %s %d %d", leaves[mm], mm, cur))
				r.Do(fmt.Sprintf("mroot %d", cur))
				r.Do(fmt.Sprintf("mroot %d", 1+r.Rng.Intn(cur)))
			}
			// earlier sizes on the final tree
			for k := 0; k < 12; k++ {
				nn := 1 + r.Rng.Intn(len(leaves))
				mm := r.Rng.Intn(nn)
				r.Do(fmt.Sprintf("incl %d %d", mm, nn))
				r.Do(fmt.Sprintf("cons %d %d", mm+1, nn))
				r.Do(fmt.Sprintf("leafpath %s %d %d", leaves[mm], mm, nn))
			}
			r.Do("storeall")
		case 1: // file shorter than the tree needs: persistence disabled
			keep := r.Rng.Intn(2*(n+extra) - 1)
			r.Do(fmt.Sprintf("reopen %d", keep))
			r.Do("state")
			r.Do("append " + leaf())
			r.Do(fmt.Sprintf("incl 0 %d", n))
			r.Do(fmt.Sprintf("cons 1 %d", n))
			r.Do("root")
		case 2: // exact file
			r.Do("reopen all")
			r.Do("state")
			for i := 0; i < 6; i++ {
				nn := 1 + r.Rng.Intn(n+extra)
				r.Do(fmt.Sprintf("incl %d %d", r.Rng.Intn(nn), nn))
				r.Do(fmt.Sprintf("cons %d %d", 1+r.Rng.Intn(nn), nn))
			}
			r.Do("append " + leaf())
			r.Do("state")
		}
		r.Do("recheck")
		r.Nontrivial(fmt.Sprintf("reopen/%d/%d/%d", t%3, n, extra))
	}
	// F: bit helpers on boundary values
	r.Case("bits")
	for n := 0; n <= 70; n++ {
		r.Do(fmt.Sprintf("bits %d", n))
	}
	for j := 6; j <= 30; j++ {
		for _, d := range []int{-1, 0, 1} {
			r.Do(fmt.Sprintf("bits %d", (1<<uint(j))+d))
		}
	}
	r.Do(fmt.Sprintf("bits %d", (1<<31)-1))
	for k := 0; k < r.Pick(200, 5000); k++ {
		r.Do(fmt.Sprintf("bits %d", r.Rng.Intn(1<<31)))
	}
	// G: a big tree around powers of two
	r.Case("big")
	r.Do("new mem")
	bigN := r.Pick(4200, 150000)
	var bl []string
	for n := 1; n <= bigN; n++ {
		l := hx.Hex(r.Rng.Bytes(8))
		bl = append(bl, l)
		r.Do("append " + l)
		if sizeClass(n) != "odd" && sizeClass(n) != "even" {
			r.Do("marshal") // checkpoint held while the tree grows
			r.Do("state")
			for k := 0; k < 4; k++ {
				m := r.Rng.Intn(n)
				r.Do(fmt.Sprintf("incl %d %d", m, n))
				r.Do(fmt.Sprintf("cons %d %d", m+1, n))
			}
			r.Do(fmt.Sprintf("incl %d %d", n-1, n))
			r.Do(fmt.Sprintf("incl %d %d", 0, n))
			r.Do(fmt.Sprintf("mroot %d", n))
		}
	}
	for k := 0; k < r.Pick(150, 1500); k++ {
		n := nearPow2(r, bigN)
		m := r.Rng.Intn(n)
		r.Do(fmt.Sprintf("incl %d %d", m, n))
		r.Do(fmt.Sprintf("cons %d %d", m+1, n))
		r.Do(fmt.Sprintf("leafpath %s %d %d", bl[m], m, n))
		r.Nontrivial(fmt.Sprintf("big/%d/%d", m, n))
	}
	r.Do("recheck")
}

// nearPow2 returns a size in [1, max] within 2 of a power of two.
func nearPow2(r *hx.Run, max int) int {
	for {
		j := r.Rng.Intn(31)
		n := (1 << uint(j)) + r.Rng.Intn(5) - 2
		if n >= 1 && n <= max {
			return n
		}
	}
}
