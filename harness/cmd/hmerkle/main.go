// hmerkle: correspondence harness for /repo/merkle and the ledger glue that serves Merkle proofs
// (C06 accumulator, C07 verifiers, C08 served proofs). Each family lives in its own file and registers
// itself in `families`.
package main

import "polyverif/internal/hx"

var families = map[string]func() hx.Family{}

func main() { hx.Main(families) }
