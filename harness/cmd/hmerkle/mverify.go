package main

import (
	"bytes"
	"fmt"
	"strconv"
	"strings"

	"github.com/polynetwork/poly/common"
	"github.com/polynetwork/poly/merkle"
	"polyverif/internal/hx"
)

// Family mverify (C07): the three verifiers on honest proofs and on mutated ones.
//
//	ctx <d1,...,dn>                              -> ok   (harness only: the committed list A of leaf DATA, non-empty items)
//	ctx2 <d1,...,dn>                             -> ok   (second committed list B, for consistency claims)
//	vincl <leafhash> <index> <size> <root> <proof>     -> ok | reject:<class>
//	vleaf <leafdata> <index> <size> <root> <proof>     -> ok | reject:<class>
//	vcons <old> <new> <oldroot> <newroot> <proof>      -> ok | reject:<class>
//	mprove <path> <root>                               -> ok <value> | reject:<class>
//	aplen <index> <size>                               -> audit_path_length
//
// Verdicts are compared with the model. In addition the soundness property itself is evaluated on the
// implementation: when a verifier ACCEPTS and the roots of the claim are the true RFC 6962 roots of the
// committed lists, the claim must be true (leaf at that index / prefix relation / value is a leaf) —
// otherwise a false claim was accepted (r.Viol). Honest proofs must be accepted.
type mverify struct {
	a, b   [][]byte
	ah, bh []common.Uint256
}

func init() { families["mverify"] = func() hx.Family { return &mverify{} } }

func (f *mverify) Reset(r *hx.Run) { f.a, f.b, f.ah, f.bh = nil, nil, nil, nil }

func dataList(s string) ([][]byte, []common.Uint256) {
	if s == "-" {
		return nil, nil
	}
	var ds [][]byte
	var hs []common.Uint256
	for _, p := range strings.Split(s, ",") {
		d := hx.UnHex(p)
		ds = append(ds, d)
		hs = append(hs, refLeaf(d))
	}
	return ds, hs
}

func inclErr(err error) string {
	if err == nil {
		return "ok"
	}
	m := err.Error()
	switch {
	case strings.HasPrefix(m, "Wrong params"):
		return "reject:wrong-params"
	case strings.HasPrefix(m, "Proof too short"):
		return "reject:too-short"
	case strings.HasPrefix(m, "Proof too long"):
		return "reject:too-long"
	case strings.HasPrefix(m, "Constructed root hash differs"):
		return "reject:root-mismatch"
	}
	return "reject:other"
}

func consErr(err error) string {
	if err == nil {
		return "ok"
	}
	m := err.Error()
	switch {
	case strings.HasPrefix(m, "Older tree has bigger size"):
		return "reject:older-bigger"
	case strings.HasPrefix(m, "Wrong proof length"):
		return "reject:wrong-length"
	case strings.HasPrefix(m, "Bad Merkle proof"):
		return "reject:second-root"
	case strings.HasPrefix(m, "Inconsistency"):
		return "reject:first-root"
	case strings.HasPrefix(m, "Proof too long"):
		return "reject:too-long"
	}
	return "reject:other"
}

func proveErr(err error) string {
	m := err.Error()
	switch {
	case strings.HasPrefix(m, "read bytes error"):
		return "reject:eof"
	case strings.HasPrefix(m, "expect root is not equal"):
		return "reject:root-mismatch"
	}
	return "reject:other"
}

func isPrefix(a, b []common.Uint256) bool {
	if len(a) > len(b) {
		return false
	}
	for i := range a {
		if a[i] != b[i] {
			return false
		}
	}
	return true
}

func (f *mverify) Exec(r *hx.Run, op []string) string {
	v := merkle.NewMerkleVerifier()
	switch op[0] {
	case "ctx":
		f.a, f.ah = dataList(op[1])
		return "ok"
	case "ctx2":
		f.b, f.bh = dataList(op[1])
		return "ok"
	case "vincl", "vleaf":
		var lh common.Uint256
		if op[0] == "vincl" {
			u, ok := u256(hx.UnHex(op[1]))
			if !ok {
				return "bad-op"
			}
			lh = u
		} else {
			lh = refLeaf(hx.UnHex(op[1]))
		}
		i, _ := strconv.ParseUint(op[2], 10, 32)
		n, _ := strconv.ParseUint(op[3], 10, 32)
		root, ok1 := u256(hx.UnHex(op[4]))
		proof, ok2 := parseHashes(op[5])
		if !ok1 || !ok2 {
			return "bad-op"
		}
		var err error
		if op[0] == "vincl" {
			err = v.VerifyLeafHashInclusion(lh, uint32(i), proof, root, uint32(n))
		} else {
			err = v.VerifyLeafInclusion(hx.UnHex(op[1]), uint32(i), proof, root, uint32(n))
		}
		res := inclErr(err)
		r.Hist("vincl." + res)
		if err == nil && len(proof) != refPathLen(int(i), int(n)) {
			r.Viol(fmt.Sprintf("C07:inclusion-accepts-wrong-length:i=%d:n=%d:len=%d", i, n, len(proof)),
				fmt.Sprintf("VerifyLeafHashInclusion accepted a proof of %d hashes for leaf %d of a %d-leaf tree; the audit path has %d", len(proof), i, n, refPathLen(int(i), int(n))))
		}
		if err == nil {
			// soundness oracle: the root is the true root of the first n committed leaves => leaf i is lh
			for _, c := range [][]common.Uint256{f.ah, f.bh} {
				if int(n) >= 1 && int(n) <= len(c) && refMTH(c[:n]) == root && c[i] != lh {
					r.Viol(fmt.Sprintf("C07:inclusion-accepts-false-claim:i=%d:n=%d", i, n),
						fmt.Sprintf("VerifyLeafHashInclusion accepted leaf hash %x at index %d of the %d-leaf tree with root %x, but that leaf is %x", lh[:], i, n, root[:], c[i][:]))
				}
			}
		}
		return res
	case "vcons":
		m, _ := strconv.ParseUint(op[1], 10, 32)
		n, _ := strconv.ParseUint(op[2], 10, 32)
		r1, ok1 := u256(hx.UnHex(op[3]))
		r2, ok2 := u256(hx.UnHex(op[4]))
		proof, ok3 := parseHashes(op[5])
		if !ok1 || !ok2 || !ok3 {
			return "bad-op"
		}
		err := v.VerifyConsistency(uint32(m), uint32(n), r1, r2, proof)
		res := consErr(err)
		r.Hist("vcons." + res)
		if err == nil && m >= 1 && r1 != r2 && len(proof) != refProofLen(int(m), int(n), true) {
			r.Viol(fmt.Sprintf("C07:consistency-accepts-wrong-length:m=%d:n=%d:len=%d", m, n, len(proof)),
				fmt.Sprintf("VerifyConsistency accepted a proof of %d hashes between sizes %d and %d (different roots); the RFC 6962 proof has %d", len(proof), m, n, refProofLen(int(m), int(n), true)))
		}
		if err == nil {
			// soundness oracle over every pair of committed lists whose true roots are the claimed ones
			lists := [][]common.Uint256{f.ah, f.bh}
			for _, x := range lists {
				for _, y := range lists {
					if int(m) <= len(x) && int(n) <= len(y) && int(m) >= 1 && refMTH(x[:m]) == r1 && refMTH(y[:n]) == r2 && !isPrefix(x[:m], y[:n]) {
						r.Viol(fmt.Sprintf("C07:consistency-accepts-false-claim:m=%d:n=%d", m, n),
							fmt.Sprintf("VerifyConsistency accepted sizes %d -> %d with the true roots of two lists of which the first is not a prefix of the second", m, n))
					}
				}
			}
		}
		return res
	case "mprove":
		path, root := hx.UnHex(op[1]), hx.UnHex(op[2])
		val, err := merkle.MerkleProve(path, root)
		if err != nil {
			res := proveErr(err)
			r.Hist("mprove." + res)
			return res
		}
		r.Hist("mprove.ok")
		// the root an accepted path folds to is determined by the path: an accepted (path, root) pair whose root
		// is not the independently recomputed fold is a proof accepted against the wrong root
		if _, want, ok := refFoldPath(path); !ok || !bytes.Equal(want[:], root) {
			r.Viol(fmt.Sprintf("C07:merkleprove-accepts-wrong-root:pathlen=%d", len(path)),
				fmt.Sprintf("MerkleProve accepted path %x against root %x; the path folds to %x", path, root, want[:]))
		}
		for k, c := range [][]common.Uint256{f.ah, f.bh} {
			ds := f.a
			if k == 1 {
				ds = f.b
			}
			if len(c) >= 1 {
				tr := refMTH(c)
				if bytes.Equal(tr[:], root) {
					found := false
					for _, d := range ds {
						if bytes.Equal(d, val) {
							found = true
						}
					}
					if !found {
						r.Viol(fmt.Sprintf("C07:merkleprove-accepts-non-leaf:n=%d", len(c)),
							fmt.Sprintf("MerkleProve returned value %x for the true root of a %d-leaf tree that does not contain it", val, len(c)))
					}
				}
			}
		}
		return "ok " + hx.Hex(val)
	case "aplen":
		i, _ := strconv.ParseUint(op[1], 10, 32)
		n, _ := strconv.ParseUint(op[2], 10, 32)
		return strconv.Itoa(merkle.VerifAuditPathLength(uint32(i), uint32(n)))
	}
	return "bad-op"
}

// ---- generation

type vtree struct {
	data [][]byte
	lh   []common.Uint256
	tree *merkle.CompactMerkleTree
}

var vtreeCtr int

func buildTree(r *hx.Run, n int, dup bool) *vtree {
	t := &vtree{tree: merkle.NewTree(0, nil, merkle.NewMemHashStore())}
	special := []int{1, 31, 32, 33, 63, 64, 65, 66, 127, 128, 129, 255, 256, 1000}
	for i := 0; i < n; i++ {
		d := r.Rng.Bytes(1 + r.Rng.Intn(12))
		if i%3 == 1 { // leaf lengths around the hash block / preimage buffer boundaries
			vtreeCtr++
			d = r.Rng.Bytes(special[vtreeCtr%len(special)])
		}
		if dup && i > 0 && r.Rng.Chance(1, 4) {
			d = t.data[r.Rng.Intn(i)]
		}
		t.data = append(t.data, d)
		t.lh = append(t.lh, refLeaf(d))
		t.tree.Append(d)
	}
	return t
}

func (t *vtree) ctx() string {
	parts := make([]string, len(t.data))
	for i, d := range t.data {
		parts[i] = hx.Hex(d)
	}
	if len(parts) == 0 {
		return "-"
	}
	return strings.Join(parts, ",")
}

func flipBit(r *hx.Run, h common.Uint256) common.Uint256 {
	h[r.Rng.Intn(32)] ^= byte(1 << uint(r.Rng.Intn(8)))
	return h
}

func cloneHashes(p []common.Uint256) []common.Uint256 { return append([]common.Uint256{}, p...) }

// mutateProof applies one structural mutation to a hash list.
func mutateProof(r *hx.Run, p []common.Uint256, pool []common.Uint256) ([]common.Uint256, string) {
	q := cloneHashes(p)
	kinds := []string{"flip", "swap", "drop", "dup", "extra", "subst", "dropfirst", "droplast", "empty", "reverse"}
	k := kinds[r.Rng.Intn(len(kinds))]
	switch k {
	case "flip":
		if len(q) > 0 {
			i := r.Rng.Intn(len(q))
			q[i] = flipBit(r, q[i])
		}
	case "swap":
		if len(q) > 1 {
			i := r.Rng.Intn(len(q) - 1)
			q[i], q[i+1] = q[i+1], q[i]
		}
	case "drop":
		if len(q) > 0 {
			i := r.Rng.Intn(len(q))
			q = append(q[:i], q[i+1:]...)
		}
	case "dup":
		if len(q) > 0 {
			i := r.Rng.Intn(len(q))
			q = append(q[:i+1], append([]common.Uint256{q[i]}, q[i+1:]...)...)
		}
	case "extra":
		var x common.Uint256
		copy(x[:], r.Rng.Bytes(32))
		if r.Rng.Bool() && len(pool) > 0 {
			x = pool[r.Rng.Intn(len(pool))]
		}
		i := r.Rng.Intn(len(q) + 1)
		q = append(q[:i], append([]common.Uint256{x}, q[i:]...)...)
	case "subst":
		if len(q) > 0 && len(pool) > 0 {
			q[r.Rng.Intn(len(q))] = pool[r.Rng.Intn(len(pool))]
		}
	case "dropfirst":
		if len(q) > 0 {
			q = q[1:]
		}
	case "droplast":
		if len(q) > 0 {
			q = q[:len(q)-1]
		}
	case "empty":
		q = nil
	case "reverse":
		for i, j := 0, len(q)-1; i < j; i, j = i+1, j-1 {
			q[i], q[j] = q[j], q[i]
		}
	}
	return q, k
}

func vsizes(r *hx.Run) []int {
	s := []int{}
	for n := 1; n <= r.Pick(34, 130); n++ {
		s = append(s, n)
	}
	for _, n := range []int{63, 64, 65, 127, 128, 129, 255, 256, 257} {
		s = append(s, n)
	}
	if r.Thorough() {
		s = append(s, 511, 512, 513, 1023, 1024, 1025, 2047, 2048, 2049)
	}
	return s
}

func (f *mverify) Gen(r *hx.Run) {
	r.Rule("honest inclusion / consistency / path proofs of real trees (sizes 1..N and around powers of two, lists with repeated leaves) and single and double mutations of every component (proof hash bit flip, swap, drop, duplicate, extra, substitution by another node of the tree, index and size +-1 / next power of two, leaf <-> interior node, root flip / other root, flag 0<->1 and 1<->2, truncated and extended path bytes, non-canonical length prefix); distinct non-trivial = distinct (verifier, size, index / old size, mutation kind)")
	muts := r.Pick(6, 200)
	for _, n := range vsizes(r) {
		t := buildTree(r, n, n%3 == 0)
		root := refMTH(t.lh)
		// pool of other nodes of the same tree (interior nodes and leaves)
		var pool []common.Uint256
		pool = append(pool, t.lh...)
		for sz := 2; sz <= n; sz *= 2 {
			pool = append(pool, refMTH(t.lh[:sz]))
		}
		// ---------------- inclusion
		r.Case(fmt.Sprintf("incl-%d", n))
		r.Do("ctx " + t.ctx())
		idx := []int{}
		if n <= 40 {
			for i := 0; i < n; i++ {
				idx = append(idx, i)
			}
		} else {
			idx = append(idx, 0, 1, n-2, n-1, n/2, refSplit(n), refSplit(n)-1)
			for k := 0; k < 6; k++ {
				idx = append(idx, r.Rng.Intn(n))
			}
		}
		for _, i := range idx {
			proof, err := t.tree.InclusionProof(uint32(i), uint32(n))
			if err != nil {
				continue
			}
			emit := func(lh common.Uint256, i, n int, root common.Uint256, p []common.Uint256, kind string) string {
				res := r.Do(fmt.Sprintf("vincl %s %d %d %s %s", hx.Hex(lh[:]), i, n, hx.Hex(root[:]), hexList(p)))
				r.Nontrivial(fmt.Sprintf("vincl/%d/%d/%s", n, i, kind))
				r.Hist("mut.incl." + kind)
				return res
			}
			if res := emit(t.lh[i], i, n, root, proof, "honest"); res != "ok" {
				r.Viol(fmt.Sprintf("C07:honest-inclusion-rejected:i=%d:n=%d", i, n), "VerifyLeafHashInclusion rejects an honestly generated proof: "+res)
			}
			r.Do(fmt.Sprintf("vleaf %s %d %d %s %s", hx.Hex(t.data[i]), i, n, hx.Hex(root[:]), hexList(proof)))
			r.Do(fmt.Sprintf("aplen %d %d", i, n))
			// the accepted leaf with its last byte changed, same proof
			d2 := append([]byte{}, t.data[i]...)
			d2[len(d2)-1] ^= byte(1 << uint(r.Rng.Intn(8)))
			r.Do(fmt.Sprintf("vleaf %s %d %d %s %s", hx.Hex(d2), i, n, hx.Hex(root[:]), hexList(proof)))
			r.Hist("mut.incl.leaf-last-byte")
			// special expected roots (all-zero, the empty-tree root, the leaf hash itself, all-ones) combined with
			// proofs of the right and of the wrong length
			var zero, ones common.Uint256
			for j := range ones {
				ones[j] = 0xff
			}
			var extra common.Uint256
			copy(extra[:], r.Rng.Bytes(32))
			shapes := [][]common.Uint256{proof, append(cloneHashes(proof), extra), nil}
			if len(proof) > 0 {
				shapes = append(shapes, proof[:len(proof)-1], proof[1:])
			}
			for _, sr := range []common.Uint256{zero, refMTH(nil), t.lh[i], ones} {
				for k, p := range shapes {
					if k == 0 || r.Rng.Chance(1, 2) || n <= 8 {
						emit(t.lh[i], i, n, sr, p, "special-root")
					}
				}
			}
			for k := 0; k < muts; k++ {
				lh, ii, nn, rt, p := t.lh[i], i, n, root, cloneHashes(proof)
				nm := 1
				if r.Rng.Chance(1, 4) {
					nm = 2
				}
				var kinds []string
				for j := 0; j < nm; j++ {
					switch r.Rng.Intn(9) {
					case 0, 1, 2:
						var kd string
						p, kd = mutateProof(r, p, pool)
						kinds = append(kinds, kd)
					case 3:
						ii += []int{-1, 1, 2, -2, n}[r.Rng.Intn(5)]
						if ii < 0 {
							ii = 0
						}
						kinds = append(kinds, "index")
					case 4:
						nn += []int{-1, 1}[r.Rng.Intn(2)]
						if nn < 0 {
							nn = 0
						}
						kinds = append(kinds, "size")
					case 5:
						nn = 2 * refSplit(n)
						kinds = append(kinds, "size-pow2")
					case 6:
						lh = pool[r.Rng.Intn(len(pool))] // another leaf or an interior node as leaf
						kinds = append(kinds, "leaf")
					case 7:
						if r.Rng.Bool() {
							rt = flipBit(r, rt)
						} else {
							rt = pool[r.Rng.Intn(len(pool))]
						}
						kinds = append(kinds, "root")
					case 8:
						// claim about a smaller committed tree with the same proof
						nn = 1 + r.Rng.Intn(n)
						rt = refMTH(t.lh[:nn])
						kinds = append(kinds, "other-tree")
					}
				}
				emit(lh, ii, nn, rt, p, strings.Join(kinds, "+"))
			}
			// leaf passed off as interior node: claim that an interior node is leaf i/2 of the half-size tree
			if n >= 2 && n%2 == 0 && i%2 == 0 && len(proof) >= 1 {
				inner := refNode(t.lh[i], t.lh[i+1])
				emit(inner, i/2, n/2, root, proof[1:], "interior-as-leaf")
			}
		}
		// ---------------- consistency
		r.Case(fmt.Sprintf("cons-%d", n))
		r.Do("ctx " + t.ctx())
		// a second list that shares only a prefix with the first
		t2 := buildTree(r, 0, false)
		cut := r.Rng.Intn(n + 1)
		for i := 0; i < n; i++ {
			d := t.data[i]
			if i >= cut {
				d = r.Rng.Bytes(1 + r.Rng.Intn(12))
			}
			t2.data = append(t2.data, d)
			t2.lh = append(t2.lh, refLeaf(d))
			t2.tree.Append(d)
		}
		r.Do("ctx2 " + t2.ctx())
		ms := []int{}
		if n <= 40 {
			for m := 0; m <= n; m++ {
				ms = append(ms, m)
			}
		} else {
			ms = append(ms, 0, 1, 2, n-1, n, n/2, refSplit(n), refSplit(n)+1, refSplit(n)-1)
			for k := 0; k < 6; k++ {
				ms = append(ms, 1+r.Rng.Intn(n))
			}
		}
		for _, m := range ms {
			var proof []common.Uint256
			if m >= 1 {
				proof = t.tree.ConsistencyProof(uint32(m), uint32(n))
			}
			r1, r2 := refMTH(t.lh[:m]), root
			emit := func(m, n int, r1, r2 common.Uint256, p []common.Uint256, kind string) string {
				res := r.Do(fmt.Sprintf("vcons %d %d %s %s %s", m, n, hx.Hex(r1[:]), hx.Hex(r2[:]), hexList(p)))
				r.Nontrivial(fmt.Sprintf("vcons/%d/%d/%s", n, m, kind))
				r.Hist("mut.cons." + kind)
				return res
			}
			if res := emit(m, n, r1, r2, proof, "honest"); res != "ok" {
				r.Viol(fmt.Sprintf("C07:honest-consistency-rejected:m=%d:n=%d", m, n), "VerifyConsistency rejects an honestly generated proof: "+res)
			}
			for k := 0; k < muts; k++ {
				mm, nn, a, b, p := m, n, r1, r2, cloneHashes(proof)
				nm := 1
				if r.Rng.Chance(1, 4) {
					nm = 2
				}
				var kinds []string
				for j := 0; j < nm; j++ {
					switch r.Rng.Intn(9) {
					case 0, 1, 2:
						var kd string
						p, kd = mutateProof(r, p, pool)
						kinds = append(kinds, kd)
					case 3:
						mm += []int{-1, 1}[r.Rng.Intn(2)]
						if mm < 0 {
							mm = 0
						}
						kinds = append(kinds, "old-size")
					case 4:
						nn += []int{-1, 1}[r.Rng.Intn(2)]
						if nn < 0 {
							nn = 0
						}
						kinds = append(kinds, "new-size")
					case 5:
						a = flipBit(r, a)
						kinds = append(kinds, "old-root")
					case 6:
						b = flipBit(r, b)
						kinds = append(kinds, "new-root")
					case 7:
						// forked history: the new root is the root of the list that diverges at `cut`
						b = refMTH(t2.lh[:nn%(n+1)])
						kinds = append(kinds, "forked-new-root")
					case 8:
						// old root of the forked list against the honest new root
						if mm <= n {
							a = refMTH(t2.lh[:mm])
						}
						kinds = append(kinds, "forked-old-root")
					}
				}
				emit(mm, nn, a, b, p, strings.Join(kinds, "+"))
			}
			// special roots (all-zero, empty-tree root) on either side, proofs of the right and of the wrong length
			if m >= 1 {
				var zero, extra common.Uint256
				copy(extra[:], r.Rng.Bytes(32))
				shapes := [][]common.Uint256{proof, append(cloneHashes(proof), extra), nil}
				if len(proof) > 0 {
					shapes = append(shapes, proof[:len(proof)-1])
				}
				for _, p := range shapes {
					emit(m, n, zero, r2, p, "special-old-root")
					emit(m, n, r1, zero, p, "special-new-root")
					if r.Rng.Chance(1, 3) {
						emit(m, n, zero, refMTH(nil), p, "special-both-roots")
					}
				}
			}
			// the honest proof of the forked list against the honest roots and vice versa
			if m >= 1 {
				p2 := t2.tree.ConsistencyProof(uint32(m), uint32(n))
				emit(m, n, refMTH(t2.lh[:m]), root, p2, "forked-proof-old")
				emit(m, n, r1, refMTH(t2.lh), p2, "forked-proof-new")
				emit(m, n, refMTH(t2.lh[:m]), refMTH(t2.lh), p2, "forked-honest")
			}
		}
		// ---------------- MerkleProve on accumulator leaf paths and on paired-level paths
		r.Case(fmt.Sprintf("prove-%d", n))
		r.Do("ctx " + t.ctx())
		for _, i := range idx {
			path, err := t.tree.MerkleInclusionLeafPath(t.data[i], uint32(i), uint32(n))
			if err != nil {
				continue
			}
			path2, err2 := merkle.MerkleLeafPath(t.data[i], t.lh)
			emitP := func(path []byte, root []byte, kind string) string {
				res := r.Do(fmt.Sprintf("mprove %s %s", hx.Hex(path), hx.Hex(root)))
				r.Nontrivial(fmt.Sprintf("mprove/%d/%d/%s", n, i, kind))
				r.Hist("mut.prove." + kind)
				return res
			}
			if res := emitP(path, root[:], "honest"); res != "ok "+hx.Hex(t.data[i]) {
				r.Viol(fmt.Sprintf("C07:honest-path-rejected:i=%d:n=%d", i, n), "MerkleProve rejects an honestly generated accumulator leaf path: "+res)
			}
			// the same (already proved) path against other roots: flipped bit, zero, root of another tree
			for _, o := range otherRoots(root[:], refMTH(append([]common.Uint256{refLeaf([]byte("other"))}, t.lh...))) {
				emitP(path, o, "same-path-other-root")
			}
			emitP(path, root[:], "honest-again")
			emitP(path, make([]byte, 32), "zero-root")
			if n := len(t.data[i]); n > 0 {
				// the proved value with its last byte changed (value bytes end right before the first pair)
				p2 := append([]byte{}, path...)
				p2[len(path)-33*len(refPath(i, t.lh))-1] ^= 0x01
				emitP(p2, root[:], "value-last-byte")
			}
			if err2 == nil {
				if res := emitP(path2, root[:], "honest-paired"); res != "ok "+hx.Hex(t.data[i]) {
					r.Viol(fmt.Sprintf("C07:honest-paired-path-rejected:i=%d:n=%d", i, n), "MerkleProve rejects an honestly generated paired-level leaf path: "+res)
				}
			}
			vlen := len(path) - 33*len(refPath(i, t.lh)) // varbytes part
			for k := 0; k < muts; k++ {
				p := append([]byte{}, path...)
				rt := append([]byte{}, root[:]...)
				kind := ""
				np := (len(p) - vlen) / 33
				switch r.Rng.Intn(12) {
				case 0: // flag 0 <-> 1
					if np > 0 {
						j := vlen + 33*r.Rng.Intn(np)
						p[j] ^= 1
					}
					kind = "flag01"
				case 1: // flag 1 -> 2 (any non-zero byte means "sibling on the right")
					if np > 0 {
						j := vlen + 33*r.Rng.Intn(np)
						if p[j] != 0 {
							p[j] = byte(2 + r.Rng.Intn(254))
						} else {
							p[j] = byte(2 + r.Rng.Intn(254))
						}
					}
					kind = "flag-other"
				case 2: // sibling hash bit flip
					if np > 0 {
						j := vlen + 33*r.Rng.Intn(np) + 1 + r.Rng.Intn(32)
						p[j] ^= byte(1 << uint(r.Rng.Intn(8)))
					}
					kind = "hash-flip"
				case 3: // value changed
					if vlen > 1 {
						p[1+r.Rng.Intn(vlen-1)] ^= byte(1 << uint(r.Rng.Intn(8)))
					}
					kind = "value"
				case 4: // truncated anywhere
					p = p[:r.Rng.Intn(len(p)+1)]
					kind = "truncate"
				case 5: // trailing garbage shorter than a pair (ignored by the code) or a full extra pair
					p = append(p, r.Rng.Bytes(1+r.Rng.Intn(40))...)
					kind = "extend"
				case 6: // drop one pair
					if np > 0 {
						j := vlen + 33*r.Rng.Intn(np)
						p = append(p[:j], p[j+33:]...)
					}
					kind = "drop-pair"
				case 7: // swap two pairs
					if np > 1 {
						j := vlen + 33*r.Rng.Intn(np-1)
						tmp := append([]byte{}, p[j:j+33]...)
						copy(p[j:j+33], p[j+33:j+66])
						copy(p[j+33:j+66], tmp)
					}
					kind = "swap-pairs"
				case 8: // root flip / short root / long root
					switch r.Rng.Intn(3) {
					case 0:
						rt[r.Rng.Intn(32)] ^= 1
					case 1:
						rt = rt[:31]
					default:
						rt = append(rt, 0)
					}
					kind = "root"
				case 9: // non-canonical length prefix for the same value
					if vlen-1 < 0xfd {
						q := []byte{0xfd, byte(vlen - 1), 0}
						p = append(q, p[1:]...)
					}
					kind = "noncanonical-len"
				case 10: // interior node passed off as the value: value := 0x01||left||right can never hash as a leaf
					if n >= 2 && i+1 < n && i%2 == 0 {
						val := append([]byte{1}, t.lh[i][:]...)
						val = append(val, t.lh[i+1][:]...)
						q := common.NewZeroCopySink(nil)
						q.WriteVarBytes(val)
						if np > 0 {
							p = append(q.Bytes(), p[vlen+33:]...)
						}
					}
					kind = "interior-as-value"
				case 11: // length prefix larger than the data
					p[0] = byte(0xfc)
					kind = "len-too-big"
				}
				emitP(p, rt, kind)
			}
		}
	}
	// malformed stream: random bytes
	r.Case("garbage")
	for k := 0; k < r.Pick(300, 6000); k++ {
		p := r.Rng.Bytes(r.Rng.Intn(120))
		if len(p) > 0 && r.Rng.Chance(1, 3) {
			p[0] = []byte{0xfd, 0xfe, 0xff, 0, 1, 0x20}[r.Rng.Intn(6)]
		}
		r.Do(fmt.Sprintf("mprove %s %s", hx.Hex(p), hx.Hex(r.Rng.Bytes([]int{0, 31, 32, 33}[r.Rng.Intn(4)]))))
		var hs []common.Uint256
		for j := r.Rng.Intn(5); j > 0; j-- {
			var x common.Uint256
			copy(x[:], r.Rng.Bytes(32))
			hs = append(hs, x)
		}
		a, b := r.Rng.Bytes(32), r.Rng.Bytes(32)
		i, n := r.Rng.U64B()&0x7fffffff, r.Rng.U64B()&0x7fffffff
		r.Do(fmt.Sprintf("vincl %s %d %d %s %s", hx.Hex(a), i, n, hx.Hex(b), hexList(hs)))
		r.Do(fmt.Sprintf("vcons %d %d %s %s %s", i, n, hx.Hex(a), hx.Hex(b), hexList(hs)))
		r.Do(fmt.Sprintf("aplen %d %d", i, n))
	}
}
