package main

import (
	"bytes"
	"crypto/sha256"
	"encoding/binary"
	"strings"

	"github.com/polynetwork/poly/common"
	"polyverif/internal/hx"
)

// Independent RFC 6962 reference (section 2.1), written directly from the RFC text: recursion over the
// leaf-hash list, split at the largest power of two smaller than n. Shares no code with /repo/merkle.

func refLeaf(d []byte) common.Uint256 {
	return sha256.Sum256(append([]byte{0}, d...))
}

func refNode(l, r common.Uint256) common.Uint256 {
	b := make([]byte, 0, 65)
	b = append(b, 1)
	b = append(b, l[:]...)
	b = append(b, r[:]...)
	return sha256.Sum256(b)
}

func refSplit(n int) int {
	k := 1
	for k*2 < n {
		k *= 2
	}
	return k
}

func refMTH(hs []common.Uint256) common.Uint256 {
	switch len(hs) {
	case 0:
		return sha256.Sum256(nil)
	case 1:
		return hs[0]
	}
	k := refSplit(len(hs))
	return refNode(refMTH(hs[:k]), refMTH(hs[k:]))
}

// refPath is PATH(m, D[n]).
func refPath(m int, hs []common.Uint256) []common.Uint256 {
	if len(hs) <= 1 {
		return nil
	}
	k := refSplit(len(hs))
	if m < k {
		return append(refPath(m, hs[:k]), refMTH(hs[k:]))
	}
	return append(refPath(m-k, hs[k:]), refMTH(hs[:k]))
}

// refProof is PROOF(m, D[n]) = SUBPROOF(m, D[n], true), 0 < m <= n.
func refProof(m int, hs []common.Uint256) []common.Uint256 { return refSubproof(m, hs, true) }

func refSubproof(m int, hs []common.Uint256, b bool) []common.Uint256 {
	if m == len(hs) {
		if b {
			return nil
		}
		return []common.Uint256{refMTH(hs)}
	}
	k := refSplit(len(hs))
	if m <= k {
		return append(refSubproof(m, hs[:k], b), refMTH(hs[k:]))
	}
	return append(refSubproof(m-k, hs[k:], false), refMTH(hs[:k]))
}

// ---- line protocol helpers

func hexList(hs []common.Uint256) string {
	if len(hs) == 0 {
		return "-"
	}
	parts := make([]string, len(hs))
	for i, h := range hs {
		parts[i] = hx.Hex(h[:])
	}
	return strings.Join(parts, ",")
}

// parseHashes parses a comma separated list of 32-byte hashes; ok=false when an element is not 32 bytes.
func parseHashes(s string) (out []common.Uint256, ok bool) {
	if s == "-" {
		return nil, true
	}
	for _, p := range strings.Split(s, ",") {
		b := hx.UnHex(p)
		if len(b) != 32 {
			return nil, false
		}
		var u common.Uint256
		copy(u[:], b)
		out = append(out, u)
	}
	return out, true
}

func parseBytesList(s string) [][]byte {
	if s == "-" {
		return nil
	}
	var out [][]byte
	for _, p := range strings.Split(s, ",") {
		out = append(out, hx.UnHex(p))
	}
	return out
}

func bytesList(bs [][]byte) string {
	if len(bs) == 0 {
		return "-"
	}
	parts := make([]string, len(bs))
	for i, b := range bs {
		if len(b) == 0 {
			parts[i] = ""
		} else {
			parts[i] = hx.Hex(b)
		}
	}
	return strings.Join(parts, ",")
}

func u256(b []byte) (u common.Uint256, ok bool) {
	if len(b) != 32 {
		return u, false
	}
	copy(u[:], b)
	return u, true
}

func eqHashes(a, b []common.Uint256) bool {
	if len(a) != len(b) {
		return false
	}
	for i := range a {
		if a[i] != b[i] {
			return false
		}
	}
	return true
}

func sizeClass(n int) string {
	switch {
	case n == 0:
		return "0"
	case n == 1:
		return "1"
	case n&(n-1) == 0:
		return "pow2"
	case (n-1)&(n-2) == 0:
		return "pow2+1"
	case (n+1)&n == 0:
		return "pow2-1"
	case n%2 == 1:
		return "odd"
	default:
		return "even"
	}
}

// refPathLen is |PATH(m, D[n])| from the RFC recursion (no hashing).
func refPathLen(m, n int) int {
	if n <= 1 {
		return 0
	}
	k := refSplit(n)
	if m < k {
		return refPathLen(m, k) + 1
	}
	return refPathLen(m-k, n-k) + 1
}

// refProofLen is |SUBPROOF(m, D[n], b)| from the RFC recursion (no hashing), 0 < m <= n.
func refProofLen(m, n int, b bool) int {
	if m == n {
		if b {
			return 0
		}
		return 1
	}
	k := refSplit(n)
	if m <= k {
		return refProofLen(m, k, b) + 1
	}
	return refProofLen(m-k, n-k, false) + 1
}

// refFoldPath is an independent reading of a MerkleProve path (written from the wire format, shares no code
// with /repo): varuint length, value, then (flag, 32-byte hash) pairs; flag 0 = sibling on the left.
// ok=false when the value cannot be read.
func refFoldPath(path []byte) (value []byte, root common.Uint256, ok bool) {
	if len(path) == 0 {
		return nil, root, false
	}
	var n uint64
	rest := path[1:]
	need := 0
	switch path[0] {
	case 0xfd:
		need = 2
	case 0xfe:
		need = 4
	case 0xff:
		need = 8
	default:
		n = uint64(path[0])
	}
	if need > 0 {
		if len(rest) < need {
			return nil, root, false
		}
		buf := make([]byte, 8)
		copy(buf, rest[:need])
		n = binary.LittleEndian.Uint64(buf)
		rest = rest[need:]
	}
	if uint64(len(rest)) < n {
		return nil, root, false
	}
	value, rest = rest[:n], rest[n:]
	h := refLeaf(value)
	for len(rest) >= 33 {
		var sib common.Uint256
		copy(sib[:], rest[1:33])
		if rest[0] == 0 {
			h = refNode(sib, h)
		} else {
			h = refNode(h, sib)
		}
		rest = rest[33:]
	}
	return value, h, true
}

// otherRoots returns roots that differ from `root`: one flipped bit, the zero hash, and `alt` (root of another tree).
func otherRoots(root []byte, alt common.Uint256) [][]byte {
	var out [][]byte
	if len(root) == 32 {
		f := append([]byte{}, root...)
		f[13] ^= 0x20
		out = append(out, f)
	}
	z := make([]byte, 32)
	if !bytes.Equal(z, root) {
		out = append(out, z)
	}
	if !bytes.Equal(alt[:], root) {
		out = append(out, append([]byte{}, alt[:]...))
	}
	return out
}
