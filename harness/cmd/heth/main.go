// heth: correspondence harness for the Ethereum-family light client (header_sync/eth rules and fork choice,
// cross_chain_manager/eth deposit proofs). Each family lives in its own file and registers itself in `families`.
package main

import (
	"os"

	"github.com/polynetwork/poly/common/log"
	"polyverif/internal/hx"
)

var families = map[string]func() hx.Family{}

func main() {
	log.InitLog(log.FatalLog, os.Stderr) // the contracts log warnings (e.g. "header has exist") to stdout by default
	hx.Main(families)
}
