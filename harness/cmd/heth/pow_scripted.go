package main

import (
	"fmt"
	"math/big"
	"strings"

	"github.com/polynetwork/poly/native/service/header_sync/eth"
	"polyverif/internal/hx"
)

// Scripted fork scenarios of family pow (C27), in addition to the random trees:
//
//	stale-head   a reorganisation-triggering header followed IN THE SAME CALL by a header that extends the old head /
//	             the new head / a third branch / is already known (the head must be re-read for every header of a call)
//	lower-multi  a shorter but heavier fork takes over (CURRENT_HEADER_HEIGHT goes DOWN, stale main-chain entries stay
//	             above it) and, in the same call, a child of the old (higher) head wins the head back across them
//	three-way    three branches; after each reorganisation every stored header (of all branches) is re-submitted, one by
//	             one and in a single call: nothing may change and every side header must still have its parent stored
type scripted struct {
	g    *hx.Rng
	r    *hx.Run
	salt uint32
}

func (s *scripted) chain(parent *eth.Header, n int, dt uint64) []*eth.Header {
	var out []*eth.Header
	p := parent
	for i := 0; i < n; i++ {
		s.salt++
		h := powChild(s.g, p, 0x5c000000+s.salt, dt)
		out = append(out, h)
		p = h
	}
	return out
}

func (s *scripted) call(hs ...*eth.Header) string {
	parts := []string{"sync"}
	for _, h := range hs {
		parts = append(parts, powFields(h))
	}
	res := s.r.Do(strings.Join(parts, " "))
	return strings.SplitN(res, " ", 2)[0]
}

func (s *scripted) each(hs []*eth.Header) {
	for _, h := range hs {
		s.call(h)
	}
}

func (f *pow) genScripted(r *hx.Run) {
	g := r.Rng
	s := &scripted{g: g, r: r}
	n := r.Pick(12, 400)
	for i := 0; i < n; i++ {
		net := uint32(1)
		setNetwork(net)
		base := []uint64{12964990, 14000000, 9500000, 15049990, 13772990}[g.Intn(5)]
		mkRoot := func() *eth.Header {
			root := &eth.Header{Number: new(big.Int).SetUint64(base), Time: 1500000000 + g.U64()%100000000, UncleHash: uncleHash(true),
				GasLimit: 15000000, Extra: []byte{}}
			root.Difficulty = new(big.Int).SetUint64(1000000000000000 + g.U64()%1000000000000000)
			if eth.VerifIsLondon(root) {
				root.BaseFee = big.NewInt(1000000000)
			}
			return root
		}
		// ---- stale head inside one call
		for v := 0; v < 5; v++ {
			root := mkRoot()
			r.Case(fmt.Sprintf("scripted-stale-head-%d-%d", i, v))
			r.Do(fmt.Sprintf("genesis %d %s", net, powFields(root)))
			a := s.chain(root, 3, 13)
			b := s.chain(root, 3, 1) // same heights, slightly heavier
			if g.Bool() {
				s.call(a...)
			} else {
				s.each(a)
			}
			all := append(append([]*eth.Header{}, a...), b...)
			switch v {
			case 0:
				s.each(b[:2])
				a4 := s.chain(a[2], 1, 13)
				s.call(b[2], a4[0]) // reorg to b3, then the child of the OLD head (heavier again: reorg back)
				all = append(all, a4...)
			case 1:
				s.each(b[:2])
				b4 := s.chain(b[2], 1, 13)
				s.call(b[2], b4[0]) // reorg, then a child of the NEW head
				all = append(all, b4...)
			case 2:
				s.each(b[:2])
				c3 := s.chain(b[1], 1, 5)
				s.call(b[2], c3[0]) // reorg, then a sibling on a third branch
				all = append(all, c3...)
			case 3:
				s.each(b[:2])
				s.call(b[2], a[2], b[2]) // reorg, then known headers
			case 4:
				s.call(b[0])
				a4 := s.chain(a[2], 1, 13)
				b4 := s.chain(b[2], 1, 1)
				s.call(b[1], b[2], a4[0], b4[0]) // side, reorg, reorg back, reorg again
				all = append(all, a4[0], b4[0])
			}
			s.each(all) // every stored header again: no-op
			s.call(all...)
			r.Nontrivial(fmt.Sprintf("scripted/stale-head/%d", v))
		}
		// ---- shorter but heavier fork, and back, within one call
		{
			root := mkRoot()
			r.Case(fmt.Sprintf("scripted-lower-multi-%d", i))
			r.Do(fmt.Sprintf("genesis %d %s", net, powFields(root)))
			a := s.chain(root, 7, 1000) // difficulty falls by 99/2048 per block
			b := s.chain(root, 6, 1)    // one block shorter, heavier in total
			s.call(a[:4]...)
			s.each(a[4:])
			s.call(b[:3]...)
			s.call(b[3], b[4])
			a8 := s.chain(a[6], 2, 1000)
			switch i % 3 {
			case 0:
				s.call(b[5])       // head moves DOWN from root+7 to root+6
				s.call(a[6], a[5]) // known
				s.call(a8[0])      // the longer chain wins back across the stale entry
			case 1:
				s.call(b[5], a8[0]) // both in one call
			default:
				s.call(b[5], a8[0], a8[1])
			}
			all := append(append(append([]*eth.Header{}, a...), b...), a8[0])
			s.each(all)
			r.Nontrivial(fmt.Sprintf("scripted/lower-multi/%d", i%3))
		}
		// ---- three branches; re-submission after every reorganisation
		{
			root := mkRoot()
			r.Case(fmt.Sprintf("scripted-three-way-%d", i))
			r.Do(fmt.Sprintf("genesis %d %s", net, powFields(root)))
			a := s.chain(root, 3, 13)
			b := s.chain(root, 2, 13)
			c := s.chain(a[0], 3, 1) // forks off a1, ends one block above a3, heavier
			s.each(a)
			s.each(b)
			all := append(append([]*eth.Header{}, a...), b...)
			for _, h := range c {
				s.call(h)
				all = append(all, h)
				s.each(all)
				s.call(all...)
			}
			b3 := s.chain(b[1], 3, 1) // the third branch overtakes in turn
			for _, h := range b3 {
				s.call(h)
				all = append(all, h)
				s.each(all)
			}
			r.Nontrivial("scripted/three-way")
		}
	}
}
