package main

import (
	"bytes"
	"encoding/binary"
	"encoding/hex"
	"fmt"
	"math/big"
	"sort"
	"strings"
	"time"

	"github.com/btcsuite/btcd/blockchain"
	"github.com/btcsuite/btcd/chaincfg/chainhash"
	"github.com/btcsuite/btcd/wire"
	"github.com/polynetwork/poly/common"
	cstates "github.com/polynetwork/poly/core/states"
	"github.com/polynetwork/poly/core/store/leveldbstore"
	"github.com/polynetwork/poly/core/store/overlaydb"
	"github.com/polynetwork/poly/native/service/governance/side_chain_manager"
	"github.com/polynetwork/poly/native/service/header_sync/btc"
	scom "github.com/polynetwork/poly/native/service/header_sync/common"
	"github.com/polynetwork/poly/native/service/utils"
	"github.com/polynetwork/poly/native/storage"
	"polyverif/internal/hx"
)

// Family powbtc (C27, Bitcoin variant): synthetic header trees with REAL proof of work (regtest parameters: the work
// per header is 2..512 hashes) through the real BTCHandler.SyncBlockHeader on a real native service and contract
// cache; the whole key space of the contract for the chain is compared with the model after every call and the
// property is evaluated on the implementation's state.
//
//	bgenesis <height> <header>      -> state dump    (trust root through putGenesisBlockHeader, total work 0)
//	bsync <header> ... <header>     -> ok|reject:<class> + state dump
//
// <header> = <hash> <prevHash> <bits> <nonce> <unixTime> <merkleRoot>   (hashes in internal byte order)
type powbtc struct {
	backend *overlaydb.OverlayDB
	genesis chainhash.Hash
}

const btcChain = 1
const btcTok = 6

func init() { families["powbtc"] = func() hx.Family { return &powbtc{} } }

func (f *powbtc) Reset(r *hx.Run) {
	if f.backend == nil {
		store, err := leveldbstore.NewMemLevelDBStore()
		if err != nil {
			panic(err)
		}
		f.backend = overlaydb.NewOverlayDB(store)
	}
	f.backend.Reset()
	// the chain is registered as a regtest Bitcoin chain (CCMCAddress carries the net type)
	db := storage.NewCacheDB(f.backend)
	net := make([]byte, 8)
	binary.LittleEndian.PutUint64(net, uint64(utils.TyRegtest))
	if err := side_chain_manager.PutSideChain(newService(db, nil), &side_chain_manager.SideChain{ChainId: btcChain, Router: 0, Name: "btc", BlocksToWait: 1, CCMCAddress: net}); err != nil {
		panic(err)
	}
	db.Commit()
}

func btcHeaderOf(a []string) (*wire.BlockHeader, error) {
	h := &wire.BlockHeader{Version: 2, Bits: uint32(u64Of(a[2])), Nonce: uint32(u64Of(a[3])), Timestamp: time.Unix(int64(u64Of(a[4])), 0)}
	copy(h.PrevBlock[:], hx.UnHex(a[1]))
	copy(h.MerkleRoot[:], hx.UnHex(a[5]))
	if got := h.BlockHash(); !bytes.Equal(got[:], hx.UnHex(a[0])) {
		return nil, fmt.Errorf("hash in op line differs from BlockHash()")
	}
	return h, nil
}

func btcFields(h *wire.BlockHeader) string {
	hash := h.BlockHash()
	return strings.Join([]string{hx.Hex(hash[:]), hx.Hex(h.PrevBlock[:]), fmt.Sprint(h.Bits), fmt.Sprint(h.Nonce), fmt.Sprint(h.Timestamp.Unix()), hx.Hex(h.MerkleRoot[:])}, " ")
}

type btcEntry struct {
	hash, prev chainhash.Hash
	height     uint32
	total      *big.Int
	bits       uint32
}

type btcState struct {
	best     *btcEntry
	genesis  string
	index    map[uint32]chainhash.Hash
	headers  map[chainhash.Hash]*btcEntry
	otherKey []string
}

func shortB(h chainhash.Hash) string { return hex.EncodeToString(h[:4]) }

// parseStored decodes the serialized StoredHeader record (header as var bytes, height, 32-byte total work).
func parseStored(raw []byte) (*btcEntry, error) {
	src := common.NewZeroCopySource(raw)
	hb, eof := src.NextVarBytes()
	if eof {
		return nil, fmt.Errorf("stored header: header bytes")
	}
	var h wire.BlockHeader
	if err := h.Deserialize(bytes.NewReader(hb)); err != nil {
		return nil, err
	}
	height, eof := src.NextUint32()
	if eof {
		return nil, fmt.Errorf("stored header: height")
	}
	tw, eof := src.NextVarBytes()
	if eof {
		return nil, fmt.Errorf("stored header: total work")
	}
	return &btcEntry{hash: h.BlockHash(), prev: h.PrevBlock, height: height, total: new(big.Int).SetBytes(tw), bits: h.Bits}, nil
}

func (f *powbtc) readState(db *storage.CacheDB) (*btcState, error) {
	st := &btcState{index: map[uint32]chainhash.Hash{}, headers: map[chainhash.Hash]*btcEntry{}}
	prefix := utils.HeaderSyncContractAddress[:]
	it := db.NewIterator(prefix)
	defer it.Release()
	chain := string(utils.GetUint64Bytes(btcChain))
	for ok := it.First(); ok; ok = it.Next() {
		key := string(append([]byte{}, it.Key()...)[len(prefix):])
		val, err := cstates.GetValueFromRawStorageItem(it.Value())
		if err != nil {
			return nil, err
		}
		switch {
		case strings.HasPrefix(key, scom.BLOCK_HEADER+chain):
			e, err := parseStored(val)
			if err != nil {
				return nil, err
			}
			var k chainhash.Hash
			copy(k[:], key[len(scom.BLOCK_HEADER)+8:])
			if k != e.hash {
				st.otherKey = append(st.otherKey, "header-key-differs-from-hash:"+shortB(k))
			}
			st.headers[k] = e
		case strings.HasPrefix(key, scom.HEADER_INDEX+chain):
			var h chainhash.Hash
			copy(h[:], val)
			st.index[binary.LittleEndian.Uint32([]byte(key[len(scom.HEADER_INDEX)+8:]))] = h
		case key == scom.CURRENT_HEADER_HEIGHT+chain:
			e, err := parseStored(val)
			if err != nil {
				return nil, err
			}
			st.best = e
		case key == scom.GENESIS_HEADER+chain:
			e, err := parseStored(val)
			if err != nil {
				return nil, err
			}
			st.genesis = shortB(e.hash)
		default:
			st.otherKey = append(st.otherKey, "key:"+hex.EncodeToString([]byte(key)))
		}
	}
	return st, nil
}

func (e *btcEntry) String() string {
	return fmt.Sprintf("%s:%v:%d:%s", shortB(e.hash), e.total, e.height, shortB(e.prev))
}

func (st *btcState) String() string {
	var hs []int
	for h := range st.index {
		hs = append(hs, int(h))
	}
	sort.Ints(hs)
	var idx, hdrs []string
	for _, h := range hs {
		idx = append(idx, fmt.Sprintf("%d:%s", h, shortB(st.index[uint32(h)])))
	}
	for _, e := range st.headers {
		hdrs = append(hdrs, e.String())
	}
	sort.Strings(hdrs)
	best := "none"
	if st.best != nil {
		best = st.best.String()
	}
	s := fmt.Sprintf("best=%s genesis=%s index=[%s] headers=[%s]", best, st.genesis, strings.Join(idx, ","), strings.Join(hdrs, ","))
	if len(st.otherKey) > 0 {
		sort.Strings(st.otherKey)
		s += " other=[" + strings.Join(st.otherKey, ",") + "]"
	}
	return s
}

func (f *powbtc) checkProperty(r *hx.Run, st *btcState) {
	ge, ok := st.headers[f.genesis]
	if !ok {
		r.Viol("C27:btc:trust-root-not-stored", "the trust root is no longer stored")
		return
	}
	for k, e := range st.headers {
		if k == f.genesis {
			continue
		}
		p, ok := st.headers[e.prev]
		switch {
		case !ok:
			r.Viol("C27:btc:stored-parent-missing", fmt.Sprintf("stored header %s has no stored parent", shortB(k)))
		case e.height != p.height+1:
			r.Viol("C27:btc:stored-height-not-parent-plus-one", fmt.Sprintf("stored header %s has height %d, parent %d", shortB(k), e.height, p.height))
		case e.total.Cmp(new(big.Int).Add(p.total, blockchain.CalcWork(e.bits))) != 0:
			r.Viol("C27:btc:stored-work-not-parent-plus-own", fmt.Sprintf("stored header %s: total work %v, parent's %v + own %v", shortB(k), e.total, p.total, blockchain.CalcWork(e.bits)))
		}
	}
	if st.best == nil {
		r.Viol("C27:btc:best-missing", "no best header record")
		return
	}
	if sb, ok := st.headers[st.best.hash]; !ok || sb.String() != st.best.String() {
		r.Viol("C27:btc:best-not-a-stored-header", "the best header record is not one of the stored headers")
		return
	}
	for n := ge.height; n <= st.best.height; n++ {
		h, ok := st.index[n]
		e, ok2 := st.headers[h]
		if !ok || !ok2 || e.height != n {
			r.Viol("C27:btc:index-gap", fmt.Sprintf("height index slot %d (best height %d) missing, unknown or of another height", n, st.best.height))
			return
		}
		if n > ge.height && e.prev != st.index[n-1] {
			r.Viol("C27:btc:index-not-parent-linked", fmt.Sprintf("height index slot %d is not the child of slot %d", n, n-1))
			return
		}
	}
	if st.index[ge.height] != f.genesis {
		r.Viol("C27:btc:index-root", "the height index does not start at the trust root")
	}
	if st.index[st.best.height] != st.best.hash {
		r.Viol("C27:btc:index-head-is-not-best", "the height index at the best height does not name the best header")
	}
	for n := range st.index {
		if n > st.best.height || n < ge.height {
			r.Viol("C27:btc:index-entry-outside-best-chain", fmt.Sprintf("height index has an entry at %d outside [%d, %d]", n, ge.height, st.best.height))
			break
		}
	}
	for k, e := range st.headers {
		if e.total.Cmp(st.best.total) > 0 {
			r.Viol("C27:btc:best-not-heaviest", fmt.Sprintf("stored header %s has total work %v above the best header's %v", shortB(k), e.total, st.best.total))
			return
		}
	}
}

func btcClass(err error) string {
	if err == nil {
		return "ok"
	}
	s := err.Error()
	switch {
	case strings.Contains(s, "is an orphan"):
		return "reject:orphan"
	case strings.Contains(s, "GetBestBlockHeader"):
		return "reject:nobest"
	case strings.Contains(s, "common ancestor"):
		return "reject:ancestor"
	case strings.Contains(s, "CheckHeader"):
		return "reject:check"
	case strings.Contains(s, "deserialize header"):
		return "reject:decode"
	}
	return "reject:other"
}

func (f *powbtc) Exec(r *hx.Run, op []string) string {
	switch op[0] {
	case "bgenesis":
		h, err := btcHeaderOf(op[2:])
		if err != nil {
			return "bad-op"
		}
		db := storage.NewCacheDB(f.backend)
		btc.VerifPutGenesisBlockHeader(newService(db, nil), btcChain, *h, uint32(u64Of(op[1])))
		db.Commit()
		f.genesis = h.BlockHash()
		st, err := f.readState(storage.NewCacheDB(f.backend))
		if err != nil {
			return "reject:state"
		}
		f.checkProperty(r, st)
		return st.String()
	case "bsync":
		rest := op[1:]
		if len(rest)%btcTok != 0 {
			return "bad-op"
		}
		before, _ := f.readState(storage.NewCacheDB(f.backend))
		param := &scom.SyncBlockHeaderParam{ChainID: btcChain}
		allKnown := true
		for i := 0; i < len(rest); i += btcTok {
			h, err := btcHeaderOf(rest[i : i+btcTok])
			if err != nil {
				return "bad-op"
			}
			if _, ok := before.headers[h.BlockHash()]; !ok {
				allKnown = false
			}
			var buf bytes.Buffer
			h.Serialize(&buf)
			param.Headers = append(param.Headers, buf.Bytes())
		}
		sink := common.NewZeroCopySink(nil)
		param.Serialization(sink)
		db := storage.NewCacheDB(f.backend)
		res := func() (res string) {
			defer func() {
				if e := recover(); e != nil {
					res = "panic"
					r.Viol("C27:btc:sync-panics", fmt.Sprintf("BTC SyncBlockHeader panics: %v", e))
				}
			}()
			return btcClass(btc.NewBTCHandler().SyncBlockHeader(newService(db, sink.Bytes())))
		}()
		if res == "panic" {
			return res
		}
		if res == "ok" {
			db.Commit()
		}
		st, err := f.readState(storage.NewCacheDB(f.backend))
		if err != nil {
			return "reject:state"
		}
		f.checkProperty(r, st)
		if allKnown && (res != "ok" || st.String() != before.String()) {
			r.Viol("C27:btc:resubmit-changed-state", fmt.Sprintf("re-submitting known headers gave %s and changed the state", res))
		}
		if res == "ok" && before.best != nil && st.best != nil {
			switch {
			case st.best.hash == before.best.hash && len(st.headers) > len(before.headers):
				r.Hist("btc.effect.side-chain-only")
			case st.best.hash == before.best.hash:
				r.Hist("btc.effect.nothing-new")
			case st.best.prev == before.best.hash && len(param.Headers) == 1:
				r.Hist("btc.effect.extend")
			case st.best.height < before.best.height:
				r.Hist("btc.effect.reorg-to-lower-height")
			case st.best.height == before.best.height:
				r.Hist("btc.effect.reorg-same-height")
			default:
				r.Hist("btc.effect.reorg-or-multi-extend-higher")
			}
		}
		return res + " " + st.String()
	}
	return "bad-op"
}

// ---------------------------------------------------------------- Gen

// mine finds a nonce with BlockHash <= target(bits); with invalid == true it finds one ABOVE the target instead.
func mine(h *wire.BlockHeader, invalid bool) {
	target := blockchain.CompactToBig(h.Bits)
	for n := uint32(0); ; n++ {
		h.Nonce = n
		hash := h.BlockHash()
		ok := blockchain.HashToBig(&hash).Cmp(target) <= 0
		if ok != invalid {
			return
		}
	}
}

func (f *powbtc) Gen(r *hx.Run) {
	r.Rule("Bitcoin variant: header trees of 2..14 nodes over a trust root at a random height, real regtest proof of work with per-header work " +
		"2, 4, 32, 256 or 512 (so shorter branches can be heavier: reorganisations to lower, equal and higher heights, ties), a few headers with " +
		"invalid proof of work (skipped silently) and orphans, submitted in topological and random orders with 1..4 headers per call; distinct " +
		"non-trivial = distinct (tree shape, work assignment, order class, outcome sequence)")
	g := r.Rng
	bitsChoices := []uint32{0x207fffff, 0x203fffff, 0x2007ffff, 0x2000ffff, 0x1f7fffff}
	trees := r.Pick(500, 20000)
	for t := 0; t < trees; t++ {
		gh := uint32(g.Intn(5))
		if g.Bool() {
			gh = uint32(100000 + g.Intn(600000))
		}
		mk := func(prev chainhash.Hash, bits uint32, salt int, invalid bool) *wire.BlockHeader {
			h := &wire.BlockHeader{Version: 2, PrevBlock: prev, Bits: bits, Timestamp: time.Unix(int64(1500000000+g.Intn(100000000)), 0)}
			binary.LittleEndian.PutUint32(h.MerkleRoot[:], uint32(t*1000+salt))
			mine(h, invalid)
			return h
		}
		root := mk(chainhash.Hash{}, bitsChoices[0], 0, false)
		type bnode struct {
			h      *wire.BlockHeader
			parent int
			usable bool
		}
		nodes := []bnode{{root, -1, true}}
		n := 2 + g.Intn(13)
		shape := []string{}
		for i := 1; i <= n; i++ {
			pi := g.Intn(len(nodes))
			if g.Bool() {
				pi = len(nodes) - 1 - g.Intn(minInt(3, len(nodes)))
			}
			for !nodes[pi].usable {
				pi = g.Intn(len(nodes))
			}
			bits := bitsChoices[g.Intn(len(bitsChoices))]
			if g.Chance(1, 3) {
				bits = bitsChoices[0]
			}
			usable := true
			prev := nodes[pi].h.BlockHash()
			invalid := false
			switch g.Intn(16) {
			case 0:
				invalid, usable = true, false // proof of work above the target: skipped silently
			case 1:
				prev[3] ^= 0x55 // unknown parent
				usable = false
			}
			nodes = append(nodes, bnode{mk(prev, bits, i, invalid), pi, usable})
			shape = append(shape, fmt.Sprintf("%d/%x", pi, bits>>16))
		}
		orders := r.Pick(3, 4)
		for o := 0; o < orders; o++ {
			r.Case(fmt.Sprintf("btc-tree-%d-order-%d", t, o))
			r.Do(fmt.Sprintf("bgenesis %d %s", gh, btcFields(root)))
			var seq []int
			if o == 0 {
				for i := 1; i < len(nodes); i++ {
					seq = append(seq, i)
				}
			} else {
				for _, i := range g.Perm(len(nodes) - 1) {
					seq = append(seq, i+1)
				}
				seq = append(seq, seq...)
				seq = append(seq, seq[:len(seq)/2]...)
			}
			if g.Chance(1, 3) {
				seq = append(seq, seq[g.Intn(len(seq))])
			}
			outs := []string{}
			for i := 0; i < len(seq); {
				k := 1
				if g.Chance(1, 3) {
					k = 1 + g.Intn(4)
				}
				if i+k > len(seq) {
					k = len(seq) - i
				}
				parts := []string{"bsync"}
				for _, j := range seq[i : i+k] {
					parts = append(parts, btcFields(nodes[j].h))
				}
				res := r.Do(strings.Join(parts, " "))
				outs = append(outs, strings.SplitN(res, " ", 2)[0])
				i += k
			}
			r.Nontrivial(fmt.Sprintf("%s/%d/%s", strings.Join(shape, "."), o, strings.Join(outs, ",")))
			for _, x := range outs {
				r.Hist("btc.call." + x)
			}
			if t%100 == 0 && o == 1 {
				r.Sample(map[string]interface{}{"tree": shape, "genesisHeight": gh, "calls": outs})
			}
		}
	}
}
