package main

import (
	"crypto/ecdsa"
	"crypto/elliptic"
	"crypto/sha256"
	"encoding/json"
	"fmt"
	"math/big"

	ecom "github.com/ethereum/go-ethereum/common"
	ethtypes "github.com/ethereum/go-ethereum/core/types"
	ecrypto "github.com/ethereum/go-ethereum/crypto"
	"github.com/ontio/ontology-crypto/ec"
	"github.com/ontio/ontology-crypto/keypair"
	"github.com/polynetwork/poly/common"
	vconfig "github.com/polynetwork/poly/consensus/vbft/config"
	cstates "github.com/polynetwork/poly/core/states"
	ptypes "github.com/polynetwork/poly/core/types"
	"github.com/polynetwork/poly/native"
	"github.com/polynetwork/poly/native/service/governance/node_manager"
	"github.com/polynetwork/poly/native/service/governance/side_chain_manager"
	hsbsc "github.com/polynetwork/poly/native/service/header_sync/bsc"
	hsbytom "github.com/polynetwork/poly/native/service/header_sync/bytom"
	hscom "github.com/polynetwork/poly/native/service/header_sync/common"
	"github.com/polynetwork/poly/native/service/header_sync/eth"
	hsheco "github.com/polynetwork/poly/native/service/header_sync/heco"
	hshsc "github.com/polynetwork/poly/native/service/header_sync/hsc"
	hspixie "github.com/polynetwork/poly/native/service/header_sync/pixiechain"
	"github.com/polynetwork/poly/native/service/utils"
	"github.com/polynetwork/poly/native/storage"
	"polyverif/internal/hx"
)

// Real header stores for the sibling routers whose light client is a PoSA client (bsc, bytom, heco, hsc, pixiechain):
// next to the eth chain of a case the harness builds, for each of them, a chain of the same shape (same numbers, same
// state roots) through the router's OWN SyncGenesisHeader / SyncBlockHeader: one validator key, headers really sealed
// (secp256k1 over the router's SealHash), genesis witnessed by the consensus operator. Deposits then go through the
// router's own verifyFrom*Tx against that store (GetCanonicalHeight / GetCanonicalHeader over what its own header sync
// wrote). The msc and polygon routers, and chains that would cross an epoch block (number % 200 == 0), use the mirrored
// records of evm_routers.go instead.
type posaStore struct {
	name     string
	chainID  uint64
	typesHdr bool
	genesis  func(ns *native.NativeService) error
	sync     func(ns *native.NativeService) error
	sealHash func(h *eth.Header, cid *big.Int) ecom.Hash
}

var posaStores = map[string]*posaStore{
	"bsc": {"bsc", 201, true, func(ns *native.NativeService) error { return hsbsc.NewHandler().SyncGenesisHeader(ns) },
		func(ns *native.NativeService) error { return hsbsc.NewHandler().SyncBlockHeader(ns) },
		func(h *eth.Header, cid *big.Int) ecom.Hash { return hsbsc.SealHash(toGeth(h), cid) }},
	"bytom": {"bytom", 202, true, func(ns *native.NativeService) error { return hsbytom.NewHandler().SyncGenesisHeader(ns) },
		func(ns *native.NativeService) error { return hsbytom.NewHandler().SyncBlockHeader(ns) },
		func(h *eth.Header, cid *big.Int) ecom.Hash { return hsbytom.SealHash(toGeth(h), cid) }},
	"heco": {"heco", 203, false, func(ns *native.NativeService) error { return hsheco.NewHecoHandler().SyncGenesisHeader(ns) },
		func(ns *native.NativeService) error { return hsheco.NewHecoHandler().SyncBlockHeader(ns) },
		func(h *eth.Header, cid *big.Int) ecom.Hash { return hsheco.SealHash(h, cid) }},
	"hsc": {"hsc", 204, false, func(ns *native.NativeService) error { return hshsc.NewHscHandler().SyncGenesisHeader(ns) },
		func(ns *native.NativeService) error { return hshsc.NewHscHandler().SyncBlockHeader(ns) },
		func(h *eth.Header, cid *big.Int) ecom.Hash { return hshsc.SealHash(h, cid) }},
	"pixiechain": {"pixiechain", 205, false, func(ns *native.NativeService) error { return hspixie.NewPixieHandler().SyncGenesisHeader(ns) },
		func(ns *native.NativeService) error { return hspixie.NewPixieHandler().SyncBlockHeader(ns) },
		func(h *eth.Header, cid *big.Int) ecom.Hash { return hspixie.SealHash(h, cid) }},
}

const posaEthChainID = 56
const posaPeriod = 3

var posaValidator = func() *ecdsa.PrivateKey {
	d := sha256.Sum256([]byte("polyverif-heth-posa-validator"))
	k, err := ecrypto.ToECDSA(d[:])
	if err != nil {
		panic(err)
	}
	return k
}()

var posaOperatorPub, posaOperatorAddr = func() (keypair.PublicKey, common.Address) {
	d := sha256.Sum256([]byte("polyverif-heth-operator"))
	k := &ec.PrivateKey{Algorithm: ec.ECDSA, PrivateKey: ec.ConstructPrivateKey(d[:], elliptic.P256())}
	pub := k.Public().(keypair.PublicKey)
	return pub, ptypes.AddressFromPubKey(pub)
}()

func operatorService(db *storage.CacheDB, input []byte) *native.NativeService {
	ns, err := native.NewNativeService(db, &ptypes.Transaction{SignedAddr: []common.Address{posaOperatorAddr}}, 0, 0, common.Uint256{}, 0, input, false)
	if err != nil {
		panic(err)
	}
	return ns
}

// posaState is the per-case bookkeeping: eth header hash -> the sibling header built for it, per router.
type posaState struct {
	usable map[string]bool
	hdr    map[string]map[ecom.Hash]*eth.Header
}

// posaSetup writes the governance view, the operator as only consensus peer and the side-chain records.
func posaSetup(db *storage.CacheDB) {
	sink := common.NewZeroCopySink(nil)
	(&node_manager.GovernanceView{TxHash: common.UINT256_EMPTY}).Serialization(sink)
	db.Put(utils.ConcatKey(utils.NodeManagerContractAddress, []byte(node_manager.GOVERNANCE_VIEW)), cstates.GenRawStorageItem(sink.Bytes()))
	id := vconfig.PubkeyID(posaOperatorPub)
	ppm := &node_manager.PeerPoolMap{PeerPoolMap: map[string]*node_manager.PeerPoolItem{
		id: {Address: posaOperatorAddr, Status: node_manager.ConsensusStatus, PeerPubkey: id, Index: 0}}}
	sink.Reset()
	ppm.Serialization(sink)
	db.Put(utils.ConcatKey(utils.NodeManagerContractAddress, []byte(node_manager.PEER_POOL), utils.GetUint32Bytes(0)), cstates.GenRawStorageItem(sink.Bytes()))
	ex, _ := json.Marshal(map[string]interface{}{"ChainID": posaEthChainID, "Period": posaPeriod})
	for _, ps := range posaStores {
		if err := side_chain_manager.PutSideChain(operatorService(db, nil), &side_chain_manager.SideChain{ChainId: ps.chainID, Name: ps.name,
			BlocksToWait: 1, CCMCAddress: []byte{1}, ExtraInfo: ex}); err != nil {
			panic(err)
		}
	}
}

func (ps *posaStore) headerJSON(h *eth.Header) []byte {
	var b []byte
	var err error
	if ps.typesHdr {
		b, err = json.Marshal(toGeth(h))
	} else {
		b, err = json.Marshal(h)
	}
	if err != nil {
		panic(err)
	}
	return b
}

// build makes the sibling header for an eth header: same number and state root, sealed by the validator.
func (ps *posaStore) build(e *eth.Header, parent *eth.Header, genesis bool) *eth.Header {
	val := ecrypto.PubkeyToAddress(posaValidator.PublicKey)
	h := &eth.Header{UncleHash: ethtypes.CalcUncleHash(nil), Coinbase: val, Root: e.Root, TxHash: ethtypes.EmptyRootHash,
		ReceiptHash: ethtypes.EmptyRootHash, Difficulty: big.NewInt(2), Number: new(big.Int).Set(e.Number), GasLimit: 30000000}
	// the salt of the eth header keeps sibling headers of the same number apart
	copy(h.TxHash[:8], e.Coinbase[:8])
	if genesis {
		h.Time = 1500000000
		h.Extra = append(append(make([]byte, 32), val[:]...), make([]byte, 65)...)
		return h
	}
	if ps.typesHdr {
		h.ParentHash = toGeth(parent).Hash()
	} else {
		h.ParentHash = parent.Hash()
	}
	h.Time = parent.Time + posaPeriod
	h.Extra = make([]byte, 32+65)
	sh := ps.sealHash(h, big.NewInt(posaEthChainID))
	sig, err := ecrypto.Sign(sh[:], posaValidator)
	if err != nil {
		panic(err)
	}
	copy(h.Extra[32:], sig)
	return h
}

// posaGenesis / posaSync mirror an accepted eth `genesis` / `sync` op into the real stores.
func (f *evm) posaGenesis(r *hx.Run, root *eth.Header) {
	f.posa = &posaState{usable: map[string]bool{}, hdr: map[string]map[ecom.Hash]*eth.Header{}}
	n := root.Number.Uint64()
	if (n+12)/200 != n/200 && n%200 != 0 { // a later block of the case could be an epoch block: mirrored records instead
		r.Hist("evm.posa.skipped-epoch-boundary")
		return
	}
	val := ecrypto.PubkeyToAddress(posaValidator.PublicKey)
	for name, ps := range posaStores {
		g := ps.build(root, nil, true)
		type hv struct {
			Height     *big.Int
			Validators []ecom.Address
			Hash       *ecom.Hash
		}
		gj, _ := json.Marshal(map[string]interface{}{"Header": json.RawMessage(ps.headerJSON(g)),
			"PrevValidators": []hv{{Height: big.NewInt(0), Validators: []ecom.Address{val}}}})
		p := &hscom.SyncGenesisHeaderParam{ChainID: ps.chainID, GenesisHeader: gj}
		sink := common.NewZeroCopySink(nil)
		p.Serialization(sink)
		db := storage.NewCacheDB(f.backend)
		if err := ps.genesis(operatorService(db, sink.Bytes())); err != nil {
			r.Hist("evm.posa.genesis-failed." + name)
			f.posaErr = fmt.Sprintf("%s genesis: %v", name, err)
			continue
		}
		db.Commit()
		f.posa.usable[name] = true
		f.posa.hdr[name] = map[ecom.Hash]*eth.Header{root.Hash(): g}
	}
}

func (f *evm) posaSync(r *hx.Run, hs []*eth.Header) {
	if f.posa == nil {
		return
	}
	for name, ps := range posaStores {
		if !f.posa.usable[name] {
			continue
		}
		for _, e := range hs {
			if _, done := f.posa.hdr[name][e.Hash()]; done {
				continue
			}
			parent, ok := f.posa.hdr[name][e.ParentHash]
			if !ok {
				f.posa.usable[name] = false
				r.Hist("evm.posa.parent-unknown." + name)
				break
			}
			h := ps.build(e, parent, false)
			p := &hscom.SyncBlockHeaderParam{ChainID: ps.chainID, Headers: [][]byte{ps.headerJSON(h)}}
			sink := common.NewZeroCopySink(nil)
			p.Serialization(sink)
			db := storage.NewCacheDB(f.backend)
			if err := ps.sync(operatorService(db, sink.Bytes())); err != nil {
				f.posa.usable[name] = false
				f.posaErr = fmt.Sprintf("%s sync %d: %v", name, e.Number, err)
				r.Hist("evm.posa.sync-failed." + name)
				break
			}
			db.Commit()
			f.posa.hdr[name][e.Hash()] = h
		}
	}
}
