package main

import (
	"math/big"
	"strings"

	ethcommon "github.com/ethereum/go-ethereum/common"
	ethtypes "github.com/ethereum/go-ethereum/core/types"
	"github.com/polynetwork/poly/common"
	"github.com/polynetwork/poly/common/config"
	"github.com/polynetwork/poly/core/store/leveldbstore"
	"github.com/polynetwork/poly/core/store/overlaydb"
	"github.com/polynetwork/poly/core/types"
	"github.com/polynetwork/poly/native"
	"github.com/polynetwork/poly/native/service/header_sync/eth"
	"github.com/polynetwork/poly/native/storage"
)

var backend *overlaydb.OverlayDB

// newDB returns a fresh contract cache over one shared, never written, in-memory ledger store (nothing is ever
// committed to it, so every cache starts empty; opening a goleveldb instance per case costs ~50 ms of buffer clearing).
func newDB() *storage.CacheDB {
	if backend == nil {
		store, err := leveldbstore.NewMemLevelDBStore()
		if err != nil {
			panic(err)
		}
		backend = overlaydb.NewOverlayDB(store)
	}
	return storage.NewCacheDB(backend)
}

func newService(db *storage.CacheDB, input []byte) *native.NativeService {
	s, err := native.NewNativeService(db, &types.Transaction{}, 0, 0, common.Uint256{}, 0, input, false)
	if err != nil {
		panic(err)
	}
	return s
}

func setNetwork(id uint32) {
	config.DefConfig.P2PNode.NetworkId = id
	config.DefConfig.Common.EnableEventLog = false
}

func bigOf(s string) *big.Int {
	if s == "nil" {
		return nil
	}
	b, ok := new(big.Int).SetString(s, 10)
	if !ok {
		panic("bad integer in op: " + s)
	}
	return b
}

func u64Of(s string) uint64 {
	b := bigOf(s)
	if b.Sign() < 0 || b.BitLen() > 64 {
		panic("bad uint64 in op: " + s)
	}
	return b.Uint64()
}

func bigStr(b *big.Int) string {
	if b == nil {
		return "nil"
	}
	return b.String()
}

// nonEmptyUncle is any hash different from types.EmptyUncleHash.
var nonEmptyUncle = ethcommon.HexToHash("0x1dcc4de8dec75d7aab85b567b6ccd41ad312451b948a7413f0a142fd40d49348")

func uncleHash(empty bool) ethcommon.Hash {
	if empty {
		return ethtypes.EmptyUncleHash
	}
	return nonEmptyUncle
}

// hdrFromFields: number time difficulty uncleEmpty gasLimit gasUsed baseFee
func hdrFromFields(f []string) *eth.Header {
	return &eth.Header{
		Number: bigOf(f[0]), Time: u64Of(f[1]), Difficulty: bigOf(f[2]), UncleHash: uncleHash(f[3] == "1"),
		GasLimit: u64Of(f[4]), GasUsed: u64Of(f[5]), BaseFee: bigOf(f[6]),
	}
}

func fieldsOf(h *eth.Header) string {
	u := "0"
	if h.UncleHash == ethtypes.EmptyUncleHash {
		u = "1"
	}
	return strings.Join([]string{bigStr(h.Number), new(big.Int).SetUint64(h.Time).String(), bigStr(h.Difficulty), u,
		new(big.Int).SetUint64(h.GasLimit).String(), new(big.Int).SetUint64(h.GasUsed).String(), bigStr(h.BaseFee)}, " ")
}

// classify maps SyncBlockHeader's error text to the model's verdict classes.
func classify(err error) string {
	if err == nil {
		return "ok"
	}
	s := err.Error()
	for _, p := range [][2]string{
		{"deserialize header err", "reject:json"},
		{"get the parent block failed", "reject:orphan"},
		{"invalid header height", "reject:height"},
		{"parent header is not right", "reject:parenthash"},
		{"extra-data too long", "reject:extra"},
		{"verify header time error", "reject:future"},
		{"verify header time fail", "reject:time"},
		{"invalid gasLimit: have", "reject:gascap"},
		{"invalid gasUsed", "reject:gasused"},
		{"invalid gas limit: have", "reject:gaslimit-bounds"},
		{"invalid gas limit below", "reject:gaslimit-min"},
		{"header is missing baseFee", "reject:basefee-missing"},
		{"invalid baseFee", "reject:basefee-wrong"},
		{"invalid difficulty", "reject:difficulty"},
		{"verify header error", "reject:seal"},
	} {
		if strings.Contains(s, p[0]) {
			return p[1]
		}
	}
	return "reject:other"
}
