package main

import (
	"encoding/json"
	"fmt"
	"math/big"
	"strings"

	ecom "github.com/ethereum/go-ethereum/common"
	ethtypes "github.com/ethereum/go-ethereum/core/types"
	cstates "github.com/polynetwork/poly/core/states"
	"github.com/polynetwork/poly/native"
	ccmbsc "github.com/polynetwork/poly/native/service/cross_chain_manager/bsc"
	ccmbytom "github.com/polynetwork/poly/native/service/cross_chain_manager/bytom"
	scom "github.com/polynetwork/poly/native/service/cross_chain_manager/common"
	ccmheco "github.com/polynetwork/poly/native/service/cross_chain_manager/heco"
	ccmhsc "github.com/polynetwork/poly/native/service/cross_chain_manager/hsc"
	ccmmsc "github.com/polynetwork/poly/native/service/cross_chain_manager/msc"
	ccmpixie "github.com/polynetwork/poly/native/service/cross_chain_manager/pixiechain"
	ccmpolygon "github.com/polynetwork/poly/native/service/cross_chain_manager/polygon"
	"github.com/polynetwork/poly/native/service/governance/side_chain_manager"
	hsbsc "github.com/polynetwork/poly/native/service/header_sync/bsc"
	hsbytom "github.com/polynetwork/poly/native/service/header_sync/bytom"
	hscom "github.com/polynetwork/poly/native/service/header_sync/common"
	"github.com/polynetwork/poly/native/service/header_sync/eth"
	hsheco "github.com/polynetwork/poly/native/service/header_sync/heco"
	hshsc "github.com/polynetwork/poly/native/service/header_sync/hsc"
	hsmsc "github.com/polynetwork/poly/native/service/header_sync/msc"
	hspixie "github.com/polynetwork/poly/native/service/header_sync/pixiechain"
	hspolygon "github.com/polynetwork/poly/native/service/header_sync/polygon"
	"github.com/polynetwork/poly/native/service/utils"
	"github.com/polynetwork/poly/native/storage"
	"polyverif/internal/hx"
)

// The seven sibling routers (copies of the same deposit check over their own header stores). Their light-client
// state is mirrored from the eth state of the case by writing the stores' own records (CURRENT_HEADER_HEIGHT,
// MAIN_CHAIN height -> hash, HEADER_INDEX hash -> HeaderWithDifficultySum as JSON) under a chain id of their own.
type siblingRouter struct {
	name    string
	chainID uint64
	// record returns the header hash under which the store keeps the header and the stored JSON record
	record func(h *eth.Header, td *big.Int) (ecom.Hash, []byte)
	verify func(s *native.NativeService, proof, extra []byte, chainID uint64, height uint32, sc *side_chain_manager.SideChain) (*scom.MakeTxParam, error)
}

func toGeth(h *eth.Header) *ethtypes.Header {
	return &ethtypes.Header{ParentHash: h.ParentHash, UncleHash: h.UncleHash, Coinbase: h.Coinbase, Root: h.Root, TxHash: h.TxHash,
		ReceiptHash: h.ReceiptHash, Bloom: h.Bloom, Difficulty: h.Difficulty, Number: h.Number, GasLimit: h.GasLimit, GasUsed: h.GasUsed,
		Time: h.Time, Extra: h.Extra, MixDigest: h.MixDigest, Nonce: h.Nonce}
}

func mustJSON(v interface{}) []byte {
	b, err := json.Marshal(v)
	if err != nil {
		panic(err)
	}
	return b
}

var siblingRouters = []siblingRouter{
	{"bsc", 101, func(h *eth.Header, td *big.Int) (ecom.Hash, []byte) {
		g := toGeth(h)
		return g.Hash(), mustJSON(&hsbsc.HeaderWithDifficultySum{Header: g, DifficultySum: td})
	}, ccmbsc.VerifVerifyFromTx},
	{"msc", 102, func(h *eth.Header, td *big.Int) (ecom.Hash, []byte) {
		g := toGeth(h)
		return g.Hash(), mustJSON(&hsmsc.HeaderWithDifficultySum{Header: g, DifficultySum: td})
	}, ccmmsc.VerifVerifyFromTx},
	{"bytom", 103, func(h *eth.Header, td *big.Int) (ecom.Hash, []byte) {
		g := toGeth(h)
		return g.Hash(), mustJSON(&hsbytom.HeaderWithDifficultySum{Header: g, DifficultySum: td})
	}, ccmbytom.VerifVerifyFromTx},
	{"heco", 104, func(h *eth.Header, td *big.Int) (ecom.Hash, []byte) {
		return h.Hash(), mustJSON(&hsheco.HeaderWithDifficultySum{Header: h, DifficultySum: td})
	}, ccmheco.VerifVerifyFromTx},
	{"hsc", 105, func(h *eth.Header, td *big.Int) (ecom.Hash, []byte) {
		return h.Hash(), mustJSON(&hshsc.HeaderWithDifficultySum{Header: h, DifficultySum: td})
	}, ccmhsc.VerifVerifyFromTx},
	{"pixiechain", 106, func(h *eth.Header, td *big.Int) (ecom.Hash, []byte) {
		return h.Hash(), mustJSON(&hspixie.HeaderWithDifficultySum{Header: h, DifficultySum: td})
	}, ccmpixie.VerifVerifyFromTx},
	{"polygon", 107, func(h *eth.Header, td *big.Int) (ecom.Hash, []byte) {
		return h.Hash(), mustJSON(&hspolygon.HeaderWithDifficultySum{HeaderWithOptionalSnap: &hspolygon.HeaderWithOptionalSnap{Header: *h}, DifficultySum: td})
	}, ccmpolygon.VerifVerifyFromTx},
}

// mirror writes the eth light-client state `st` into the sibling's store on the (uncommitted) cache db.
func (sr *siblingRouter) mirror(db *storage.CacheDB, st *powState, hdrs map[ecom.Hash]*eth.Header) {
	c := utils.HeaderSyncContractAddress
	cid := utils.GetUint64Bytes(sr.chainID)
	if st.hasCur {
		db.Put(utils.ConcatKey(c, []byte(hscom.CURRENT_HEADER_HEIGHT), cid), cstates.GenRawStorageItem(utils.GetUint64Bytes(st.cur)))
	}
	// every stored header (side branches and replaced blocks included) goes into the sibling's header index ...
	rhash := map[ecom.Hash]ecom.Hash{}
	for hash, h := range hdrs {
		rh, rec := sr.record(h, st.index[hash].td)
		rhash[hash] = rh
		db.Put(utils.ConcatKey(c, []byte(hscom.HEADER_INDEX), cid, rh.Bytes()), cstates.GenRawStorageItem(rec))
	}
	// ... and the canonical height -> hash assignments up to the head (these stores delete the entries above a new head)
	for height, hash := range st.main {
		rh, ok := rhash[hash]
		if !ok || height > st.cur {
			continue
		}
		db.Put(utils.ConcatKey(c, []byte(hscom.MAIN_CHAIN), cid, utils.GetUint64Bytes(height)), cstates.GenRawStorageItem(rh.Bytes()))
	}
}

func siblingClass(err error) string {
	if err != nil && strings.Contains(err.Error(), "GetCanonicalHeader height") {
		return "reject:noheader"
	}
	if err != nil && strings.Contains(err.Error(), "GetCanonicalHeight") {
		return "reject:nohead"
	}
	return depositClass(err)
}

// siblings runs the same deposit through every sibling router on a mirrored state and reports the routers whose
// verdict differs from the eth router's (which is the one compared with the model).
func (f *evm) siblings(r *hx.Run, d *depositOp, st *powState, hdrs map[ecom.Hash]*eth.Header, proof []byte, ethRes string) string {
	var diff []string
	for i := range siblingRouters {
		sr := &siblingRouters[i]
		db := storage.NewCacheDB(f.backend)
		chainID := sr.chainID
		if ps, ok := posaStores[sr.name]; ok && f.posa != nil && f.posa.usable[sr.name] {
			chainID = ps.chainID // the store its own SyncGenesisHeader / SyncBlockHeader built
			r.Hist("evm.sibling-store.real." + sr.name)
		} else {
			sr.mirror(db, st, hdrs)
			r.Hist("evm.sibling-store.mirrored." + sr.name)
		}
		side := &side_chain_manager.SideChain{ChainId: chainID, BlocksToWait: d.btw, CCMCAddress: d.ccmc}
		res := func() (res string) {
			defer func() {
				if e := recover(); e != nil {
					res = "panic"
				}
			}()
			param, err := sr.verify(newService(db, nil), proof, d.extra, chainID, d.height, side)
			if err == nil {
				return "ok:" + strings.Join([]string{hx.Hex(param.TxHash), hx.Hex(param.CrossChainID), hx.Hex(param.FromContractAddress), fmt.Sprint(param.ToChainID),
					hx.Hex(param.ToContractAddress), hx.Hex([]byte(param.Method)), hx.Hex(param.Args)}, ":")
			}
			return siblingClass(err)
		}()
		r.Hist("evm.sibling." + sr.name + "." + strings.SplitN(res, ":", 2)[0])
		if res == ethRes {
			continue
		}
		short := res
		if strings.HasPrefix(short, "ok:") {
			short = "ok"
		}
		ethShort := ethRes
		if strings.HasPrefix(ethShort, "ok:") {
			ethShort = "ok"
		}
		diff = append(diff, sr.name+"="+short)
		if res == "panic" {
			_, onChain := st.main[uint64(d.height)]
			why := "other"
			if !onChain {
				why = "no-canonical-header-at-height"
			}
			r.Viol(fmt.Sprintf("C23:router-panics:%s:%s", sr.name, why),
				fmt.Sprintf("%s router: the deposit check panics (height %d, current %d, BlocksToWait %d; the eth router answers %s)", sr.name, d.height, st.cur, d.btw, ethShort))
		} else {
			r.Viol(fmt.Sprintf("C23:router-differs:%s:%s-vs-%s", sr.name, strings.TrimPrefix(ethShort, "reject:"), strings.TrimPrefix(short, "reject:")),
				fmt.Sprintf("%s router answers %s where the eth router (same logic, same state and proof) answers %s", sr.name, short, ethShort))
		}
	}
	if len(diff) == 0 {
		return "siblings=agree"
	}
	return "siblings=" + strings.Join(diff, ",")
}
