package main

import (
	"fmt"
	"math/big"
	"time"

	"github.com/btcsuite/btcd/blockchain"
	"github.com/btcsuite/btcd/chaincfg"
	"github.com/btcsuite/btcd/wire"
	"github.com/polynetwork/poly/native/service/header_sync/btc"
	"polyverif/internal/hx"
)

// Family btcdiff (C27, Bitcoin variant, the difficulty rule behind CheckHeader): calcDiffAdjust and btcd's compact
// target codec against the model, and against Bitcoin Core's retarget formula in seconds (property oracle).
//
//	adj <net> <startSec> <endSec> <bits>   -> new compact target
//	tobig <bits>                           -> blockchain.CompactToBig
//	tocompact <int>                        -> blockchain.BigToCompact
type btcdiff struct{}

func init() { families["btcdiff"] = func() hx.Family { return &btcdiff{} } }

func (f *btcdiff) Reset(r *hx.Run) {}

var btcNets = map[string]*chaincfg.Params{"main": &chaincfg.MainNetParams, "test3": &chaincfg.TestNet3Params, "regtest": &chaincfg.RegressionNetParams}

func (f *btcdiff) Exec(r *hx.Run, op []string) string {
	switch op[0] {
	case "adj":
		p := btcNets[op[1]]
		s, e, bits := u64Of(op[2]), u64Of(op[3]), uint32(u64Of(op[4]))
		got := btc.VerifCalcDiffAdjust(wire.BlockHeader{Timestamp: time.Unix(int64(s), 0)}, wire.BlockHeader{Timestamp: time.Unix(int64(e), 0), Bits: bits}, p)
		// Bitcoin Core CalculateNextWorkRequired, in seconds, for a positive old target
		old := blockchain.CompactToBig(bits)
		if old.Sign() > 0 {
			actual := int64(e) - int64(s)
			if actual < 1209600/4 {
				actual = 1209600 / 4
			}
			if actual > 1209600*4 {
				actual = 1209600 * 4
			}
			t := new(big.Int).Mul(old, big.NewInt(actual))
			t.Quo(t, big.NewInt(1209600))
			if t.Cmp(p.PowLimit) > 0 {
				t.Set(p.PowLimit)
			}
			if want := blockchain.BigToCompact(t); want != got {
				r.Viol("C27:btc:retarget-differs-from-bitcoin-core", fmt.Sprintf("calcDiffAdjust(%d..%d, bits %#x, %s) = %#x, Bitcoin Core's formula gives %#x", s, e, bits, op[1], got, want))
			}
		}
		return fmt.Sprint(got)
	case "tobig":
		return blockchain.CompactToBig(uint32(u64Of(op[1]))).String()
	case "tocompact":
		return fmt.Sprint(blockchain.BigToCompact(bigOf(op[1])))
	}
	return "bad-op"
}

func (f *btcdiff) Gen(r *hx.Run) {
	r.Rule("retarget: epochs of 0 s .. 10 weeks around the 3.5-day and 8-week clamps, compact targets with exponents 0..34, mantissas around the " +
		"sign bit and the pow limit of main / test / regtest; codec: every exponent x boundary mantissas, integers of 0..35 bytes incl. negative; " +
		"distinct non-trivial = distinct (net, clamp class, exponent)")
	g := r.Rng
	r.Case("codec")
	mant := []uint32{0, 1, 0x7f, 0x80, 0xff, 0x100, 0x7fff, 0x8000, 0xffff, 0x10000, 0x7fffff, 0x800000, 0x800001, 0xffffff, 0x123456, 0xc0ffee}
	for exp := uint32(0); exp <= 36; exp++ {
		for _, m := range mant {
			r.Do(fmt.Sprintf("tobig %d", exp<<24|m))
		}
	}
	for i := 0; i < r.Pick(600, 20000); i++ {
		n := new(big.Int).SetBytes(g.Bytes(g.Intn(36)))
		if g.Chance(1, 4) {
			n = new(big.Int).Lsh(big.NewInt(int64(g.Intn(1<<24))), uint(8*g.Intn(30)))
		}
		if g.Chance(1, 6) {
			n.Neg(n)
		}
		r.Do("tocompact " + n.String())
	}
	r.Case("retarget")
	nets := []string{"main", "test3", "regtest"}
	durs := []int64{0, 1, 302399, 302400, 302401, 1209599, 1209600, 1209601, 4838399, 4838400, 4838401, 6000000, -5}
	bitsL := []uint32{0x1d00ffff, 0x1b0404cb, 0x170b8c8b, 0x1c0ae493, 0x207fffff, 0x1d00fffe, 0x1e00ffff, 0x03123456, 0x02123456, 0x01123456, 0x00123456, 0x04923456, 0x1d7fffff, 0x1d008000}
	for i := 0; i < r.Pick(3000, 100000); i++ {
		net := nets[g.Intn(3)]
		s := int64(1231006505 + g.Intn(1<<30))
		d := durs[g.Intn(len(durs))]
		if g.Chance(1, 3) {
			d = int64(g.Intn(7000000))
		}
		e := s + d
		bits := bitsL[g.Intn(len(bitsL))]
		if g.Chance(1, 3) {
			bits = uint32(g.Intn(34))<<24 | uint32(g.Intn(1<<24))
		}
		r.Do(fmt.Sprintf("adj %s %d %d %d", net, s, e, bits))
		cls := "inside"
		if d < 302400 {
			cls = "fast"
		} else if d > 4838400 {
			cls = "slow"
		}
		r.Nontrivial(fmt.Sprintf("adj/%s/%s/%d", net, cls, bits>>24))
	}
}
