package main

import (
	"bytes"
	"encoding/json"
	"fmt"
	"math/big"
	"sort"
	"strings"

	ethcommon "github.com/ethereum/go-ethereum/common"
	"github.com/ethereum/go-ethereum/consensus/ethash"
	ethtypes "github.com/ethereum/go-ethereum/core/types"
	"github.com/ethereum/go-ethereum/crypto"
	ethparams "github.com/ethereum/go-ethereum/params"
	gethrlp "github.com/ethereum/go-ethereum/rlp"
	"github.com/polynetwork/poly/common"
	"github.com/polynetwork/poly/common/config"
	scom "github.com/polynetwork/poly/native/service/header_sync/common"
	"github.com/polynetwork/poly/native/service/header_sync/eth"
	polyrlp "github.com/polynetwork/poly/native/service/header_sync/eth/rlp"
	"polyverif/internal/hx"
)

// Family ethrules (C28): the Ethereum header rules of header_sync/eth against the model, and against independent
// references of the specification formulas (property oracle).
//
//	consts                                                        -> k=v ... (run-time values of the rule constants)
//	diff legacy|<delay> <time> <ptime> <pnumber> <pdiff> <pUncleEmpty>  -> difficulty
//	fork <net> <number> <basefee|nil>                             -> london=0/1 arrow=0/1 gray=0/1
//	gas <parentGasLimit> <gasLimit>                               -> verdict of VerifyGaslimit
//	basefee <net> <pnumber> <pbasefee|nil> <pgaslimit> <pgasused> -> CalcBaseFee | panic
//	v1559 <net> <pnumber> <pbasefee|nil> <pgl> <pgu> <hnumber> <hbasefee|nil> <hgl> -> verdict of VerifyEip1559Header
//	dsize <block> / csize <block>                                 -> "<datasetSize(block)> <calcDatasetSize(epoch)>"
//	prime <n>                                                     -> 0/1 (big.Int.ProbablyPrime(1))
//	hdrrlp <15 fields + basefee|nil>                              -> "<rlp(header)> <seal pre-image>"
//	rules <net> <parent 7 fields> <header 7 fields> <extraLen>    -> verdict of the real SyncBlockHeader (seal hook on)
type ethrules struct{}

func init() { families["ethrules"] = func() hx.Family { return &ethrules{} } }

func (f *ethrules) Reset(r *hx.Run) {}

// ---------------------------------------------------------------- independent references (specification)

// fdiv is floor division written with truncated Quo/Rem (independent of big.Int.Div).
func fdiv(a, b *big.Int) *big.Int {
	q, m := new(big.Int).QuoRem(a, b, new(big.Int))
	if m.Sign() != 0 && (m.Sign() < 0) != (b.Sign() < 0) {
		q.Sub(q, big.NewInt(1))
	}
	return q
}

// refDifficulty: Yellow Paper D(H) with delay kappa.
func refDifficulty(kappa, pd *big.Int, hasUncles bool, pn, pt, t *big.Int) *big.Int {
	x := fdiv(pd, big.NewInt(2048))
	y := int64(1)
	if hasUncles {
		y = 2
	}
	s := new(big.Int).Sub(big.NewInt(y), fdiv(new(big.Int).Sub(t, pt), big.NewInt(9)))
	if s.Cmp(big.NewInt(-99)) < 0 {
		s = big.NewInt(-99)
	}
	d := new(big.Int).Add(pd, new(big.Int).Mul(x, s))
	if d.Cmp(big.NewInt(131072)) < 0 {
		d = big.NewInt(131072)
	}
	hi := new(big.Int).Add(pn, big.NewInt(1))
	fake := new(big.Int).Sub(hi, kappa)
	if fake.Sign() < 0 {
		fake = new(big.Int)
	}
	periods := fdiv(fake, big.NewInt(100000))
	if periods.Cmp(big.NewInt(2)) >= 0 {
		d.Add(d, new(big.Int).Lsh(big.NewInt(1), uint(periods.Uint64()-2)))
	}
	return d
}

type eraEntry struct {
	from  uint64
	name  string
	kappa int64
}

// Specification era tables (EIP-2384/2387, EIP-3554, EIP-4345, EIP-5133 activation blocks).
var specEras = map[uint32][]eraEntry{
	1: {{15050000, "grayGlacier", 11400000}, {13773000, "arrowGlacier", 10700000}, {12965000, "london", 9700000}, {9200000, "muirGlacier", 9000000}},
	2: {{10499401, "london", 9700000}, {7117117, "muirGlacier", 9000000}},
}
var specLondon = map[uint32]uint64{1: 12965000, 2: 10499401}

func specEra(net uint32, n uint64) (string, int64, bool) {
	for _, e := range specEras[net] {
		if n >= e.from {
			return e.name, e.kappa, true
		}
	}
	return "", 0, false
}

func refGasLimitOk(p, h *big.Int) bool {
	q := new(big.Int).Quo(p, big.NewInt(1024))
	return h.Cmp(new(big.Int).Add(p, q)) < 0 && h.Cmp(new(big.Int).Sub(p, q)) > 0 && h.Cmp(big.NewInt(5000)) >= 0
}

// refBaseFee: EIP-1559 expected_base_fee_per_gas (parentLondon=false is the fork block).
func refBaseFee(parentLondon bool, pbf *big.Int, pgl, pgu uint64) *big.Int {
	if !parentLondon {
		return big.NewInt(1000000000)
	}
	target := new(big.Int).SetUint64(pgl / 2)
	used := new(big.Int).SetUint64(pgu)
	switch used.Cmp(target) {
	case 0:
		return new(big.Int).Set(pbf)
	case 1:
		delta := fdiv(fdiv(new(big.Int).Mul(pbf, new(big.Int).Sub(used, target)), target), big.NewInt(8))
		if delta.Cmp(big.NewInt(1)) < 0 {
			delta = big.NewInt(1)
		}
		return new(big.Int).Add(pbf, delta)
	default:
		delta := fdiv(fdiv(new(big.Int).Mul(pbf, new(big.Int).Sub(target, used)), target), big.NewInt(8))
		return new(big.Int).Sub(pbf, delta)
	}
}

// refSize: Ethash appendix get_cache_size / get_full_size with a 20-round primality test.
func refSize(init, growth, unit, epoch uint64) uint64 {
	sz := init + growth*epoch - unit
	for !new(big.Int).SetUint64(sz / unit).ProbablyPrime(20) {
		sz -= 2 * unit
	}
	return sz
}

// ---------------------------------------------------------------- Exec

func verdictOf(err error) string {
	if err == nil {
		return "ok"
	}
	return classify(fmt.Errorf("SyncBlockHeader, err:%v", err))
}

func (f *ethrules) Exec(r *hx.Run, op []string) string {
	switch op[0] {
	case "consts":
		m := eth.VerifConsts()
		m["MinimumDifficulty"] = ethparams.MinimumDifficulty
		m["DifficultyBoundDivisor"] = ethparams.DifficultyBoundDivisor
		m["GasLimitBoundDivisor"] = new(big.Int).SetUint64(ethparams.GasLimitBoundDivisor)
		m["MinGasLimit"] = new(big.Int).SetUint64(ethparams.MinGasLimit)
		m["MaximumExtraDataSize"] = new(big.Int).SetUint64(ethparams.MaximumExtraDataSize)
		for _, id := range []uint32{1, 2, 77} {
			m[fmt.Sprintf("eth1559:%d", id)] = new(big.Int).SetUint64(config.GetEth1559Height(id))
			m[fmt.Sprintf("eth4345:%d", id)] = new(big.Int).SetUint64(config.GetEth4345Height(id))
			m[fmt.Sprintf("eth5133:%d", id)] = new(big.Int).SetUint64(config.GetEth5133Height(id))
		}
		keys := []string{}
		for k := range m {
			keys = append(keys, k)
		}
		sort.Strings(keys)
		parts := []string{}
		for _, k := range keys {
			parts = append(parts, k+"="+m[k].String())
		}
		return strings.Join(parts, " ")
	case "diff":
		t, pt, pn, pd := bigOf(op[2]), u64Of(op[3]), bigOf(op[4]), bigOf(op[5])
		parent := &eth.Header{Time: pt, Number: pn, Difficulty: pd, UncleHash: uncleHash(op[6] == "1")}
		var got *big.Int
		kappa := big.NewInt(9000000)
		if op[1] == "legacy" {
			got = eth.VerifDifficultyCalculator(new(big.Int).Set(t), parent)
		} else {
			kappa = bigOf(op[1])
			got = eth.VerifMakeDifficultyCalculator(kappa)(t.Uint64(), parent)
		}
		want := refDifficulty(kappa, pd, op[6] != "1", pn, new(big.Int).SetUint64(pt), t)
		if got.Cmp(want) != 0 {
			r.Viol(fmt.Sprintf("C28:difficulty-differs-from-spec:%s", op[1]),
				fmt.Sprintf("difficulty calculator %s gives %v, Yellow Paper formula with delay %v gives %v (op %v)", op[1], got, kappa, want, op))
		}
		// second oracle: go-ethereum's own calculators for the delays it knows
		if cfg := gethConfigFor(kappa); cfg != nil && t.Sign() >= 0 && t.IsUint64() && pn.Sign() >= 0 {
			g := ethash.CalcDifficulty(cfg, t.Uint64(), &ethtypes.Header{Time: pt, Number: pn, Difficulty: pd, UncleHash: uncleHash(op[6] == "1")})
			if g.Cmp(got) != 0 {
				r.Viol(fmt.Sprintf("C28:difficulty-differs-from-geth:%s", op[1]),
					fmt.Sprintf("difficulty calculator %s gives %v, go-ethereum CalcDifficulty gives %v (op %v)", op[1], got, g, op))
			}
			r.Hist("oracle.geth")
		}
		return got.String()
	case "fork":
		setNetwork(uint32(u64Of(op[1])))
		h := &eth.Header{Number: bigOf(op[2]), BaseFee: bigOf(op[3])}
		b := func(x bool) int {
			if x {
				return 1
			}
			return 0
		}
		return fmt.Sprintf("london=%d arrow=%d gray=%d", b(eth.VerifIsLondon(h)), b(eth.VerifIsArrowGlacier(h)), b(eth.VerifIsGrayGlacier(h)))
	case "gas":
		p, h := u64Of(op[1]), u64Of(op[2])
		res := verdictOf(eth.VerifyGaslimit(p, h))
		if p < 1<<63 && h < 1<<63 {
			want := refGasLimitOk(new(big.Int).SetUint64(p), new(big.Int).SetUint64(h))
			if want != (res == "ok") {
				r.Viol("C28:gaslimit-window-differs-from-spec", fmt.Sprintf("VerifyGaslimit(%d,%d) = %s, specification window says valid=%v", p, h, res, want))
			}
		}
		return res
	case "basefee":
		net := uint32(u64Of(op[1]))
		setNetwork(net)
		p := &eth.Header{Number: bigOf(op[2]), BaseFee: bigOf(op[3]), GasLimit: u64Of(op[4]), GasUsed: u64Of(op[5])}
		got := eth.CalcBaseFee(p) // a panic is recovered by hx and becomes the outcome "panic"
		if london := eth.VerifIsLondon(p); !london || (p.BaseFee != nil && p.BaseFee.Sign() >= 0 && p.GasLimit >= 2) {
			want := refBaseFee(london, p.BaseFee, p.GasLimit, p.GasUsed)
			if got.Cmp(want) != 0 {
				r.Viol("C28:basefee-differs-from-spec", fmt.Sprintf("CalcBaseFee gives %v, EIP-1559 gives %v (op %v)", got, want, op))
			}
		}
		return got.String()
	case "v1559":
		setNetwork(uint32(u64Of(op[1])))
		p := &eth.Header{Number: bigOf(op[2]), BaseFee: bigOf(op[3]), GasLimit: u64Of(op[4]), GasUsed: u64Of(op[5])}
		h := &eth.Header{Number: bigOf(op[6]), BaseFee: bigOf(op[7]), GasLimit: u64Of(op[8])}
		return verdictOf(eth.VerifyEip1559Header(p, h))
	case "dsize", "csize":
		blk := u64Of(op[1])
		epoch := blk / 30000
		var tab, calc, ref uint64
		kind := "dataset"
		if op[0] == "dsize" {
			tab, calc, ref = eth.VerifDatasetSize(blk), eth.VerifCalcDatasetSize(int(epoch)), refSize(1<<30, 1<<23, 128, epoch)
		} else {
			kind = "cache"
			tab, calc, ref = eth.VerifCacheSize(blk), eth.VerifCalcCacheSize(int(epoch)), refSize(1<<24, 1<<17, 64, epoch)
		}
		if tab != ref {
			r.Viol(fmt.Sprintf("C28:%s-size-differs-from-spec:epoch=%d", kind, epoch),
				fmt.Sprintf("%sSize(block %d) = %d, Ethash appendix size of epoch %d = %d", kind, blk, tab, epoch, ref))
		}
		if calc != ref {
			r.Viol(fmt.Sprintf("C28:%s-calc-differs-from-spec:epoch=%d", kind, epoch),
				fmt.Sprintf("calc %s size of epoch %d = %d, Ethash appendix = %d", kind, epoch, calc, ref))
		}
		return fmt.Sprintf("%d %d", tab, calc)
	case "prime":
		if bigOf(op[1]).ProbablyPrime(1) {
			return "1"
		}
		return "0"
	case "hdrrlp":
		return f.hdrrlp(r, op)
	case "rules":
		return f.rules(r, op)
	}
	return "bad-op"
}

func gethConfigFor(kappa *big.Int) *ethparams.ChainConfig {
	z := big.NewInt(0)
	switch kappa.Int64() {
	case 9000000:
		return &ethparams.ChainConfig{HomesteadBlock: z, ByzantiumBlock: z, ConstantinopleBlock: z, MuirGlacierBlock: z}
	case 5000000:
		return &ethparams.ChainConfig{HomesteadBlock: z, ByzantiumBlock: z, ConstantinopleBlock: z}
	case 3000000:
		return &ethparams.ChainConfig{HomesteadBlock: z, ByzantiumBlock: z}
	}
	return nil
}

// legacy16 is the header with the EIP-1559 field for go-ethereum v1.9.15's rlp (which knows no "optional").
type header16 struct {
	ParentHash  ethcommon.Hash
	UncleHash   ethcommon.Hash
	Coinbase    ethcommon.Address
	Root        ethcommon.Hash
	TxHash      ethcommon.Hash
	ReceiptHash ethcommon.Hash
	Bloom       ethtypes.Bloom
	Difficulty  *big.Int
	Number      *big.Int
	GasLimit    uint64
	GasUsed     uint64
	Time        uint64
	Extra       []byte
	MixDigest   ethcommon.Hash
	Nonce       ethtypes.BlockNonce
	BaseFee     *big.Int
}

func (f *ethrules) hdrrlp(r *hx.Run, op []string) string {
	a := op[1:]
	h := &eth.Header{}
	copy(h.ParentHash[:], hx.UnHex(a[0]))
	copy(h.UncleHash[:], hx.UnHex(a[1]))
	copy(h.Coinbase[:], hx.UnHex(a[2]))
	copy(h.Root[:], hx.UnHex(a[3]))
	copy(h.TxHash[:], hx.UnHex(a[4]))
	copy(h.ReceiptHash[:], hx.UnHex(a[5]))
	copy(h.Bloom[:], hx.UnHex(a[6]))
	h.Difficulty, h.Number = bigOf(a[7]), bigOf(a[8])
	h.GasLimit, h.GasUsed, h.Time = u64Of(a[9]), u64Of(a[10]), u64Of(a[11])
	h.Extra = hx.UnHex(a[12])
	copy(h.MixDigest[:], hx.UnHex(a[13]))
	copy(h.Nonce[:], hx.UnHex(a[14]))
	h.BaseFee = bigOf(a[15])
	pre, err := polyrlp.EncodeToBytes(h)
	if err != nil {
		return "reject:rlp"
	}
	if got := h.Hash(); !bytes.Equal(crypto.Keccak256(pre), got[:]) {
		r.Viol("C28:header-hash-not-keccak-of-rlp", fmt.Sprintf("Header.Hash() = %x differs from Keccak256 of the RLP of the header", got))
	}
	// independent encoders: go-ethereum's own header type (legacy) / go-ethereum's rlp over a 16-field struct (London)
	var ref []byte
	if h.BaseFee == nil {
		gh := &ethtypes.Header{ParentHash: h.ParentHash, UncleHash: h.UncleHash, Coinbase: h.Coinbase, Root: h.Root, TxHash: h.TxHash,
			ReceiptHash: h.ReceiptHash, Bloom: h.Bloom, Difficulty: h.Difficulty, Number: h.Number, GasLimit: h.GasLimit, GasUsed: h.GasUsed,
			Time: h.Time, Extra: h.Extra, MixDigest: h.MixDigest, Nonce: h.Nonce}
		ref, _ = gethrlp.EncodeToBytes(gh)
		if gh.Hash() != h.Hash() {
			r.Viol("C28:header-hash-differs-from-geth", fmt.Sprintf("Header.Hash() = %x, go-ethereum types.Header.Hash() = %x", h.Hash(), gh.Hash()))
		}
	} else {
		ref, _ = gethrlp.EncodeToBytes(&header16{h.ParentHash, h.UncleHash, h.Coinbase, h.Root, h.TxHash, h.ReceiptHash, h.Bloom, h.Difficulty,
			h.Number, h.GasLimit, h.GasUsed, h.Time, h.Extra, h.MixDigest, h.Nonce, h.BaseFee})
	}
	if !bytes.Equal(ref, pre) {
		r.Viol("C28:header-rlp-differs-from-reference", fmt.Sprintf("RLP of the header %x differs from the reference encoding %x", pre, ref))
	}
	// seal hash pre-image: the 13 fields (+ base fee), encoded with go-ethereum's rlp
	enc := []interface{}{h.ParentHash, h.UncleHash, h.Coinbase, h.Root, h.TxHash, h.ReceiptHash, h.Bloom, h.Difficulty, h.Number,
		h.GasLimit, h.GasUsed, h.Time, h.Extra}
	if h.BaseFee != nil {
		enc = append(enc, h.BaseFee)
	}
	seal, _ := gethrlp.EncodeToBytes(enc)
	if got := eth.HashHeader(h); !bytes.Equal(crypto.Keccak256(seal), got[:]) {
		r.Viol("C28:seal-hash-not-keccak-of-13-fields", fmt.Sprintf("HashHeader = %x differs from Keccak256 of the RLP of the header without mix digest and nonce", got))
	}
	return hx.Hex(pre) + " " + hx.Hex(seal)
}

const rulesChain = 2

// rules plants the parent as trust root and submits the header through the real SyncBlockHeader (seal hook on).
func (f *ethrules) rules(r *hx.Run, op []string) string {
	net := uint32(u64Of(op[1]))
	setNetwork(net)
	p := hdrFromFields(op[2:9])
	h := hdrFromFields(op[9:16])
	h.Extra = bytes.Repeat([]byte{0x5a}, int(u64Of(op[16])))
	p.Extra = []byte{}
	db := newDB()
	if err := eth.VerifPutGenesisBlockHeader(newService(db, nil), *p, rulesChain); err != nil {
		return "reject:genesis"
	}
	// the stored parent is what SyncBlockHeader reads back (JSON round trip)
	h.ParentHash = p.Hash()
	raw, err := json.Marshal(h)
	if err != nil {
		return "reject:marshal"
	}
	param := &scom.SyncBlockHeaderParam{ChainID: rulesChain, Headers: [][]byte{raw}}
	sink := common.NewZeroCopySink(nil)
	param.Serialization(sink)
	eth.VerifAcceptSeal = true
	res := classify(eth.NewETHHandler().SyncBlockHeader(newService(db, sink.Bytes())))
	f.rulesOracle(r, net, p, h, len(h.Extra), res)
	return res
}

// rulesOracle evaluates the specification on the pair and compares with the implementation's verdict, inside the
// supported domain: known era for the header number, well-formed parent (gas limit in [2, 2^62), base fee present and
// non-negative exactly from London on).
func (f *ethrules) rulesOracle(r *hx.Run, net uint32, p, h *eth.Header, extraLen int, res string) {
	london, ok := specLondon[net]
	if !ok || !p.Number.IsUint64() || !h.Number.IsUint64() || p.Number.Uint64() >= 1<<62 {
		return
	}
	pn, hn := p.Number.Uint64(), h.Number.Uint64()
	era, kappa, ok := specEra(net, hn)
	if !ok {
		r.Hist("rules.oracle.skipped-before-muir-glacier")
		return
	}
	pLondon := pn >= london
	if p.GasLimit < 2 || p.GasLimit >= 1<<62 || pLondon != (p.BaseFee != nil) || (p.BaseFee != nil && p.BaseFee.Sign() < 0) {
		r.Hist("rules.oracle.skipped-malformed-parent")
		return
	}
	if h.GasLimit >= 1<<63 {
		return
	}
	reason := ""
	hLondon := hn >= london
	switch {
	case hn != pn+1:
		reason = "height"
	case extraLen > 32:
		reason = "extra"
	case h.Time <= p.Time:
		reason = "time"
	case h.GasUsed > h.GasLimit:
		reason = "gasused"
	}
	if reason == "" {
		pgl := p.GasLimit
		if hLondon && !pLondon {
			pgl *= 2
		}
		switch {
		case !hLondon && h.BaseFee != nil:
			reason = "basefee-before-london"
		case !refGasLimitOk(new(big.Int).SetUint64(pgl), new(big.Int).SetUint64(h.GasLimit)):
			reason = "gaslimit"
		case hLondon && h.BaseFee == nil:
			reason = "basefee-missing"
		case hLondon && h.BaseFee.Cmp(refBaseFee(pLondon, p.BaseFee, p.GasLimit, p.GasUsed)) != 0:
			reason = "basefee-wrong"
		case h.Difficulty.Cmp(refDifficulty(big.NewInt(kappa), p.Difficulty, p.UncleHash != ethtypes.EmptyUncleHash, p.Number,
			new(big.Int).SetUint64(p.Time), new(big.Int).SetUint64(h.Time))) != 0:
			reason = "difficulty"
		}
	}
	r.Hist("rules.oracle.era." + era)
	if reason == "" && res != "ok" {
		r.Viol(fmt.Sprintf("C28:rejects-spec-valid:%s:era=%s:net=%d", strings.TrimPrefix(res, "reject:"), era, net),
			fmt.Sprintf("a header that satisfies the Ethereum specification (era %s, number %d) is rejected with %s; parent [%s] header [%s]", era, hn, res, fieldsOf(p), fieldsOf(h)))
	}
	if reason != "" && res == "ok" {
		r.Viol(fmt.Sprintf("C28:accepts-spec-invalid:%s:era=%s:net=%d", reason, era, net),
			fmt.Sprintf("a header that violates the Ethereum specification (%s; era %s, number %d) passes every check up to the seal; parent [%s] header [%s]", reason, era, hn, fieldsOf(p), fieldsOf(h)))
	}
}

// ---------------------------------------------------------------- Gen

func (f *ethrules) Gen(r *hx.Run) {
	r.Rule("header rules: (a) every epoch 0..2047 of both ethash size tables + computed epochs above; (b) difficulty calculators on parent/child " +
		"pairs with time deltas around multiples of 9, uncles or not, numbers around every bomb-period boundary of each delay, difficulties around " +
		"the minimum and 2048 multiples, any sign; (c) gas limits at the +-1/1024 bounds and the int64 corners; (d) base fee with gas used <,=,> target, " +
		"tiny/huge/nil fees, fork block; (e) fork predicates around the configured heights incl. numbers >= 2^64; (f) header RLP; (g) whole rule " +
		"sequence through SyncBlockHeader on main-net / test-net numbers around every fork and era boundary with single-field mutations. " +
		"distinct non-trivial = distinct (op kind, branch signature)")
	g := r.Rng
	r.Case("consts")
	r.Do("consts")

	// (a) sizes
	r.Case("sizes-table")
	for e := uint64(0); e < 2048; e++ {
		off := uint64(g.Intn(30000))
		if e%3 == 0 {
			off = 0
		} else if e%3 == 1 {
			off = 29999
		}
		r.Do(fmt.Sprintf("dsize %d", e*30000+off))
		r.Do(fmt.Sprintf("csize %d", e*30000+off))
		r.Nontrivial(fmt.Sprintf("size/table/%d", e))
	}
	r.Case("sizes-computed")
	for e := uint64(2048); e < uint64(r.Pick(2048+150, 2048+3000)); e++ {
		r.Do(fmt.Sprintf("dsize %d", e*30000+uint64(g.Intn(30000))))
		r.Do(fmt.Sprintf("csize %d", e*30000+uint64(g.Intn(30000))))
		r.Nontrivial(fmt.Sprintf("size/calc/%d", e))
	}
	for i := 0; i < r.Pick(20, 300); i++ {
		e := uint64(2048 + g.Intn(1<<18))
		r.Do(fmt.Sprintf("dsize %d", e*30000))
		r.Do(fmt.Sprintf("csize %d", e*30000))
	}
	r.Case("primes")
	for n := 0; n < 300; n++ {
		r.Do(fmt.Sprintf("prime %d", n))
	}
	for _, n := range []uint64{561, 1105, 1729, 2047, 2465, 2821, 3277, 4033, 4681, 6601, 8321, 8911, 10585, 15841, 29341, 41041, 46657, 52633,
		62745, 63973, 75361, 101101, 115921, 126217, 162401, 172081, 188461, 252601, 278545, 294409, 314821, 334153, 340561, 399001,
		410041, 449065, 488881, 512461, 1373653, 25326001, 3215031751, 2147483647, 4294967291, 4294967297, 2147483647 * 3, 65537 * 65537,
		8388593, 8388607, 16777213, 16777215, 134217689, 134217727} {
		r.Do(fmt.Sprintf("prime %d", n))
	}
	for i := 0; i < r.Pick(200, 4000); i++ {
		r.Do(fmt.Sprintf("prime %d", g.U64()>>uint(24+g.Intn(36))))
	}

	// (b) difficulty
	delays := []string{"legacy", "9700000", "10700000", "9000000", "5000000", "3000000", "11400000", "0", "1", "100000"}
	deltas := []int64{-100, -10, -9, -8, -1, 0, 1, 8, 9, 10, 17, 18, 19, 26, 27, 28, 35, 36, 89, 90, 91, 890, 891, 899, 900, 901, 908, 909, 910, 1000, 100000}
	nDiff := r.Pick(12000, 400000)
	for i := 0; i < nDiff; i++ {
		if i%200 == 0 {
			r.Case(fmt.Sprintf("diff-%d", i/200))
		}
		which := delays[g.Intn(len(delays))]
		if g.Chance(1, 20) {
			which = fmt.Sprint(g.Intn(20000000))
		}
		kappa := int64(9000000)
		if which != "legacy" {
			kappa = bigOf(which).Int64()
		}
		pt := int64(g.U64() >> uint(24+g.Intn(40)))
		if g.Chance(1, 10) {
			pt = int64(g.Intn(3))
		}
		d := deltas[g.Intn(len(deltas))]
		if g.Chance(1, 3) {
			d = int64(g.Intn(2000)) - 20
		}
		t := pt + d
		if which != "legacy" && t < 0 {
			t = 0
		}
		// parent number: around a bomb-period boundary of this delay, or far from any
		var pn int64
		switch g.Intn(5) {
		case 0:
			pn = int64(g.Intn(30000000))
		case 1:
			pn = kappa - 1 + int64(g.Intn(5)) - 2
		default:
			pn = kappa - 1 + int64(g.Intn(70))*100000 + int64(g.Intn(5)) - 2
		}
		if g.Chance(1, 40) {
			pn = -pn
		}
		if g.Chance(1, 200) {
			pn = kappa + 100000*int64(2000+g.Intn(3000))
		}
		var pd *big.Int
		switch g.Intn(6) {
		case 0:
			pd = big.NewInt(131072 + int64(g.Intn(5000)) - 2500)
		case 1:
			pd = big.NewInt(int64(g.Intn(200)) * 2048)
			pd.Add(pd, big.NewInt(int64(g.Intn(3))-1))
		case 2:
			pd = new(big.Int).SetUint64(g.U64() >> uint(g.Intn(64)))
		case 3:
			pd = new(big.Int).Lsh(new(big.Int).SetUint64(g.U64()), uint(g.Intn(40)))
		default:
			pd = new(big.Int).SetUint64(1000000000000 + g.U64()%9000000000000000)
		}
		if g.Chance(1, 30) {
			pd.Neg(pd)
		}
		u := g.Intn(2)
		res := r.Do(fmt.Sprintf("diff %s %d %d %d %s %d", which, t, pt, pn, pd.String(), u))
		per := (pn + 1 - kappa) / 100000
		if pn+1 < kappa {
			per = -1
		}
		adj := (t - pt) / 9
		if adj > 101 {
			adj = 101
		}
		r.Nontrivial(fmt.Sprintf("diff/%s/per=%d/adj=%d/u=%d/min=%v", which, per, adj, u, len(res) <= 6))
	}

	// (c) gas limit
	r.Case("gas")
	gls := []uint64{0, 1, 1023, 1024, 1025, 2047, 2048, 4999, 5000, 5001, 8000000, 10000000, 30000000, 1 << 32, 1 << 62, 1<<62 + 1, 1<<63 - 1, 1 << 63, 1<<63 + 1, 1<<64 - 2, 1<<64 - 1}
	for i := 0; i < r.Pick(3000, 100000); i++ {
		p := gls[g.Intn(len(gls))]
		if g.Chance(1, 2) {
			p = g.U64() >> uint(g.Intn(64))
		}
		lim := p / 1024
		var h uint64
		switch g.Intn(8) {
		case 0:
			h = p + lim
		case 1:
			h = p + lim - 1
		case 2:
			h = p - lim
		case 3:
			h = p - lim + 1
		case 4:
			h = p + lim + 1
		case 5:
			h = p - lim - 1
		case 6:
			h = gls[g.Intn(len(gls))]
		default:
			h = p + uint64(g.Intn(2000)) - 1000
		}
		res := r.Do(fmt.Sprintf("gas %d %d", p, h))
		r.Nontrivial(fmt.Sprintf("gas/%s/p63=%v/h63=%v/cmp=%v", res, p >= 1<<63, h >= 1<<63, h > p))
	}

	// (d) base fee, (e) fork predicates, EIP-1559 header check
	nets := []uint32{1, 2, 77}
	fees := []string{"nil", "0", "1", "7", "8", "9", "1000000000", "1000000007", "123456789012345678901234567890", "-1", "-1000000000"}
	forkNums := func(net uint32) []string {
		l := config.GetEth1559Height(net)
		a := config.GetEth4345Height(net)
		gg := config.GetEth5133Height(net)
		out := []string{"0", "1"}
		for _, b := range []uint64{l, a, gg} {
			for _, d := range []int64{-2, -1, 0, 1, 2} {
				out = append(out, fmt.Sprint(int64(b)+d))
			}
		}
		two64 := new(big.Int).Lsh(big.NewInt(1), 64)
		out = append(out, two64.String(), new(big.Int).Add(two64, big.NewInt(int64(l))).String(), new(big.Int).Sub(two64, big.NewInt(1)).String(),
			fmt.Sprint(-int64(l)), "20000000")
		return out
	}
	r.Case("fork")
	for _, net := range nets {
		for _, n := range forkNums(net) {
			for _, bf := range []string{"nil", "0", "1000000000"} {
				res := r.Do(fmt.Sprintf("fork %d %s %s", net, n, bf))
				r.Nontrivial(fmt.Sprintf("fork/%d/%s/%v", net, res, bf == "nil"))
			}
		}
	}
	r.Case("basefee")
	for i := 0; i < r.Pick(3000, 100000); i++ {
		net := nets[g.Intn(len(nets))]
		fn := forkNums(net)
		pn := fn[g.Intn(len(fn))]
		bf := fees[g.Intn(len(fees))]
		if g.Chance(1, 3) {
			bf = fmt.Sprint(g.U64() >> uint(g.Intn(64)))
		}
		pgl := []uint64{0, 1, 2, 3, 4, 5000, 10000, 15000000, 30000000, 1<<63 - 1, 1<<64 - 1}[g.Intn(11)]
		if g.Chance(1, 2) {
			pgl = 5000 + g.U64()%60000000
		}
		target := pgl / 2
		var pgu uint64
		switch g.Intn(7) {
		case 0:
			pgu = target
		case 1:
			pgu = target + 1
		case 2:
			pgu = target - 1
		case 3:
			pgu = 0
		case 4:
			pgu = pgl
		default:
			if pgl == ^uint64(0) {
				pgu = g.U64()
			} else if pgl > 0 {
				pgu = g.U64() % (pgl + 1)
			}
		}
		if target == 0 && pgu == ^uint64(0) {
			pgu = 0
		}
		res := r.Do(fmt.Sprintf("basefee %d %s %s %d %d", net, pn, bf, pgl, pgu))
		cls := "eq"
		if pgu > target {
			cls = "gt"
		} else if pgu < target {
			cls = "lt"
		}
		r.Nontrivial(fmt.Sprintf("basefee/%s/panic=%v/nil=%v/small=%v/t0=%v", cls, res == "panic", bf == "nil", len(bf) < 3, target == 0))
		if i%3 == 0 {
			// EIP-1559 header check on the same parent
			hbf := res
			switch g.Intn(5) {
			case 0:
				hbf = "nil"
			case 1:
				if res != "panic" {
					hbf = new(big.Int).Add(bigOf(res), big.NewInt(int64(g.Intn(3))-1)).String()
					if strings.HasPrefix(hbf, "-") {
						hbf = "0"
					}
				}
			}
			if hbf == "panic" {
				hbf = "5"
			}
			lim := pgl / 1024
			hgl := pgl + uint64(g.Intn(3)) - 1
			switch g.Intn(6) {
			case 0:
				hgl = 2*pgl + 2*lim - 1
			case 1:
				hgl = 2*pgl - 2*lim + 1
			case 2:
				hgl = pgl + lim - 1
			case 3:
				hgl = pgl - lim + 1
			case 4:
				hgl = 2 * pgl
			}
			hn := new(big.Int).Add(bigOf(pn), big.NewInt(1)).String()
			r2 := r.Do(fmt.Sprintf("v1559 %d %s %s %d %d %s %s %d", net, pn, bf, pgl, pgu, hn, hbf, hgl))
			r.Nontrivial("v1559/" + r2)
		}
	}

	// (f) header RLP
	r.Case("hdrrlp")
	for i := 0; i < r.Pick(600, 20000); i++ {
		rb := func(n int) string { return hx.Hex(g.Bytes(n)) }
		num := func(big bool) string {
			switch g.Intn(6) {
			case 0:
				return []string{"0", "1", "127", "128", "255", "256", "65535", "65536", "18446744073709551615"}[g.Intn(9)]
			case 1:
				if big {
					return new(big0).Lsh(new(big0).SetUint64(g.U64()), uint(g.Intn(200))).String()
				}
			}
			return fmt.Sprint(g.U64() >> uint(g.Intn(64)))
		}
		exl := []int{0, 1, 1, 2, 31, 32, 33, 54, 55, 56, 57, 100, 255, 256, 300}[g.Intn(15)]
		extra := g.Bytes(exl)
		if exl == 1 && g.Bool() {
			extra[0] &= 0x7f
		}
		bf := "nil"
		if g.Bool() {
			bf = num(true)
		}
		bloom := rb(256)
		if g.Chance(1, 4) {
			bloom = hx.Hex(make([]byte, 256))
		}
		r.Do(strings.Join([]string{"hdrrlp", rb(32), rb(32), rb(20), rb(32), rb(32), rb(32), bloom, num(true), num(true), num(false), num(false), num(false),
			hx.Hex(extra), rb(32), rb(8), bf}, " "))
		r.Nontrivial(fmt.Sprintf("hdrrlp/ex=%d/bf=%v", exl, bf != "nil"))
	}

	// (g) whole rule sequence
	f.genRules(r)
}

type big0 = big.Int

func (f *ethrules) genRules(r *hx.Run) {
	g := r.Rng
	n := r.Pick(12000, 300000)
	for i := 0; i < n; i++ {
		if i%100 == 0 {
			r.Case(fmt.Sprintf("rules-%d", i/100))
		}
		net := uint32(1)
		if g.Chance(1, 4) {
			net = 2
		}
		london := specLondon[net]
		// header number: around a fork / era boundary, around a bomb period boundary, or anywhere in the supported range
		var hn uint64
		eras := specEras[net]
		switch g.Intn(4) {
		case 0:
			e := eras[g.Intn(len(eras))]
			hn = e.from + uint64(g.Intn(5)) - 2
		case 1:
			e := eras[g.Intn(len(eras))]
			hn = uint64(e.kappa) + uint64(g.Intn(70))*100000 + uint64(g.Intn(5)) - 2
		default:
			lo := eras[len(eras)-1].from
			hn = lo + g.U64()%(16500000-lo)
		}
		if hn < 2 {
			hn = 2
		}
		pn := hn - 1
		era, kappa, known := specEra(net, hn)
		_ = era
		p := &eth.Header{Number: new(big.Int).SetUint64(pn), Time: 1500000000 + g.U64()%100000000, UncleHash: uncleHash(g.Chance(3, 4))}
		switch g.Intn(4) {
		case 0:
			p.Difficulty = big.NewInt(131072 + int64(g.Intn(4096)))
		case 1:
			p.Difficulty = new(big.Int).SetUint64(g.U64() >> uint(g.Intn(50)))
		default:
			p.Difficulty = new(big.Int).SetUint64(1000000000000 + g.U64()%9000000000000000)
		}
		p.GasLimit = []uint64{5000, 5001, 8000000, 12500000, 15000000, 30000000}[g.Intn(6)]
		if g.Bool() {
			p.GasLimit = 5000 + g.U64()%40000000
		}
		target := p.GasLimit / 2
		switch g.Intn(5) {
		case 0:
			p.GasUsed = target
		case 1:
			p.GasUsed = target + 1
		case 2:
			p.GasUsed = target - 1
		default:
			p.GasUsed = g.U64() % (p.GasLimit + 1)
		}
		pLondon := pn >= london
		if pLondon {
			p.BaseFee = []*big.Int{big.NewInt(0), big.NewInt(1), big.NewInt(7), big.NewInt(8), big.NewInt(1000000000), new(big.Int).SetUint64(g.U64() >> uint(g.Intn(60)))}[g.Intn(6)]
		}
		// a header valid by the specification
		hLondon := hn >= london
		h := &eth.Header{Number: new(big.Int).SetUint64(hn), UncleHash: uncleHash(g.Bool())}
		dts := []uint64{1, 2, 8, 9, 10, 17, 18, 19, 26, 27, 28, 899, 900, 901, 908, 909, 910, 5000}
		h.Time = p.Time + dts[g.Intn(len(dts))]
		pgl := p.GasLimit
		if hLondon && !pLondon {
			pgl *= 2
		}
		lim := pgl / 1024
		switch g.Intn(5) {
		case 0:
			h.GasLimit = pgl + lim - 1
		case 1:
			h.GasLimit = pgl - lim + 1
		case 2:
			h.GasLimit = pgl
		default:
			if lim > 1 {
				h.GasLimit = pgl - lim + 1 + g.U64()%(2*lim-1)
			} else {
				h.GasLimit = pgl
			}
		}
		if h.GasLimit < 5000 {
			h.GasLimit = 5000
		}
		h.GasUsed = g.U64() % (h.GasLimit + 1)
		if hLondon {
			h.BaseFee = refBaseFee(pLondon, p.BaseFee, p.GasLimit, p.GasUsed)
		}
		k := kappa
		if !known {
			k = 9000000
		}
		h.Difficulty = refDifficulty(big.NewInt(k), p.Difficulty, p.UncleHash != ethtypes.EmptyUncleHash, p.Number, new(big.Int).SetUint64(p.Time), new(big.Int).SetUint64(h.Time))
		extra := g.Intn(33)
		// mutations (one field), about half of the cases
		mut := "none"
		if g.Bool() {
			switch g.Intn(14) {
			case 0:
				h.Number = new(big.Int).SetUint64(hn + 1)
				mut = "number+1"
			case 1:
				extra = 33 + g.Intn(3)
				mut = "extra"
			case 2:
				h.Time = p.Time - uint64(g.Intn(2))
				mut = "time"
			case 3:
				h.GasUsed = h.GasLimit + 1
				mut = "gasused"
			case 4:
				h.GasLimit = pgl + lim + uint64(g.Intn(2))
				mut = "gaslimit-hi"
			case 5:
				h.GasLimit = pgl - lim - uint64(g.Intn(2))
				mut = "gaslimit-lo"
			case 6:
				if h.BaseFee != nil {
					h.BaseFee = new(big.Int).Add(h.BaseFee, big.NewInt(1))
					mut = "basefee+1"
				} else {
					h.BaseFee = big.NewInt(1000000000)
					mut = "basefee-before-london"
				}
			case 7:
				if h.BaseFee != nil {
					h.BaseFee = nil
					mut = "basefee-nil"
				}
			case 8:
				h.Difficulty = new(big.Int).Add(h.Difficulty, big.NewInt(int64(g.Intn(2))*2-1))
				mut = "difficulty+-1"
			case 9:
				// difficulty of a neighbouring era
				alt := []int64{9000000, 9700000, 10700000, 11400000}[g.Intn(4)]
				h.Difficulty = refDifficulty(big.NewInt(alt), p.Difficulty, p.UncleHash != ethtypes.EmptyUncleHash, p.Number, new(big.Int).SetUint64(p.Time), new(big.Int).SetUint64(h.Time))
				mut = fmt.Sprintf("difficulty-of-delay-%d", alt)
			case 10:
				h.GasLimit = 1<<63 + uint64(g.Intn(2)) - 1
				h.GasUsed = 0
				mut = "gascap"
			case 11:
				h.GasLimit = 4999
				h.GasUsed = 0
				mut = "gasmin"
			case 12:
				// uncle flag of the parent flips the expected adjustment: recompute nothing (header becomes invalid or stays valid)
				h.Time = p.Time + 9*uint64(1+g.Intn(3))
				mut = "time-multiple-of-9"
			case 13:
				// a header below London dressed as a London header: base fee of a fork block, doubled gas-limit window,
				// London bomb delay (what isLondon's `BaseFee != nil ||` clause lets through)
				if !hLondon {
					h.BaseFee = big.NewInt(1000000000)
					h.GasLimit = 2*p.GasLimit - uint64(g.Intn(3))
					h.GasUsed = 0
					h.Difficulty = refDifficulty(big.NewInt(9700000), p.Difficulty, p.UncleHash != ethtypes.EmptyUncleHash, p.Number, new(big.Int).SetUint64(p.Time), new(big.Int).SetUint64(h.Time))
					mut = "prelondon-dressed-as-london"
				}
			}
		}
		res := r.Do(fmt.Sprintf("rules %d %s %s %d", net, fieldsOf(p), fieldsOf(h), extra))
		r.Nontrivial(fmt.Sprintf("rules/%d/%s/%s/%s", net, era, mut, res))
		r.Hist("rules.verdict." + res)
		if i%250 == 3 {
			r.Sample(map[string]interface{}{"net": net, "parent": fieldsOf(p), "header": fieldsOf(h), "extra": extra, "mutation": mut, "verdict": res})
		}
	}
}
