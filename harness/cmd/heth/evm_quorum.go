package main

import (
	"crypto/ecdsa"
	"crypto/sha256"
	"encoding/json"
	"fmt"
	"math/big"
	"strings"

	ecom "github.com/ethereum/go-ethereum/common"
	ethtypes "github.com/ethereum/go-ethereum/core/types"
	ecrypto "github.com/ethereum/go-ethereum/crypto"
	gethrlp "github.com/ethereum/go-ethereum/rlp"
	"github.com/polynetwork/poly/common"
	scom "github.com/polynetwork/poly/native/service/cross_chain_manager/common"
	ccmquorum "github.com/polynetwork/poly/native/service/cross_chain_manager/quorum"
	"github.com/polynetwork/poly/native/service/governance/side_chain_manager"
	hscom "github.com/polynetwork/poly/native/service/header_sync/common"
	"github.com/polynetwork/poly/native/service/header_sync/eth"
	hsquorum "github.com/polynetwork/poly/native/service/header_sync/quorum"
	"github.com/polynetwork/poly/native/storage"
	"polyverif/internal/hx"
)

// The quorum router end to end: its validator set is installed through the real SyncGenesisHeader (operator
// witnessed), every deposit is submitted through the real QuorumHandler.MakeDepositProposal together with an Istanbul
// header that commits to the state root of the block under test and is really signed by the proposer and by three of
// the four validators (committed seals). Only the header's validity is fixed (always valid here: the validator-signature
// rule is C29/C30); message decoding, done-tx bookkeeping and the proof check run as written.
const quorumChain = 301

var quorumKeys = func() []*ecdsa.PrivateKey {
	ks := make([]*ecdsa.PrivateKey, 4)
	for i := range ks {
		d := sha256.Sum256([]byte(fmt.Sprintf("polyverif-heth-quorum-validator-%d", i)))
		k, err := ecrypto.ToECDSA(d[:])
		if err != nil {
			panic(err)
		}
		ks[i] = k
	}
	return ks
}()

func quorumVals() []ecom.Address {
	var out []ecom.Address
	for _, k := range quorumKeys {
		out = append(out, ecrypto.PubkeyToAddress(k.PublicKey))
	}
	return out
}

func istanbulExtra(vals []ecom.Address, seal []byte, committed [][]byte) []byte {
	payload, err := gethrlp.EncodeToBytes(&hsquorum.IstanbulExtra{Validators: vals, Seal: seal, CommittedSeal: committed})
	if err != nil {
		panic(err)
	}
	return append(make([]byte, hsquorum.IstanbulExtraVanity), payload...)
}

// quorumHeader builds an Istanbul header at `number` committing to `root`, signed by validator 0 (proposer seal) and
// carrying the committed seals of validators 1..3.
func quorumHeader(number uint64, root ecom.Hash) *ethtypes.Header {
	h := &ethtypes.Header{Number: new(big.Int).SetUint64(number), Root: root, Difficulty: big.NewInt(1), GasLimit: 30000000,
		Time: 1500000000, MixDigest: hsquorum.IstanbulDigest, UncleHash: ethtypes.CalcUncleHash(nil)}
	vals := quorumVals()
	h.Extra = istanbulExtra(vals, []byte{}, [][]byte{})
	// proposer seal over Keccak(rlp(header with empty seals))
	enc, err := gethrlp.EncodeToBytes(hsquorum.IstanbulFilteredHeader(h, false))
	if err != nil {
		panic(err)
	}
	sigHash := ecrypto.Keccak256(enc)
	seal, err := ecrypto.Sign(ecrypto.Keccak256(sigHash), quorumKeys[0])
	if err != nil {
		panic(err)
	}
	h.Extra = istanbulExtra(vals, seal, [][]byte{})
	hash := hsquorum.GetQuorumHeaderHash(h)
	var committed [][]byte
	for _, k := range quorumKeys[1:] {
		cs, err := ecrypto.Sign(ecrypto.Keccak256(hsquorum.PrepareCommittedSeal(hash)), k)
		if err != nil {
			panic(err)
		}
		committed = append(committed, cs)
	}
	h.Extra = istanbulExtra(vals, seal, committed)
	return h
}

// quorumSetup installs the validator set through the real SyncGenesisHeader.
func quorumSetup(db *storage.CacheDB) {
	g := &ethtypes.Header{Number: big.NewInt(1), Difficulty: big.NewInt(1), MixDigest: hsquorum.IstanbulDigest,
		Extra: istanbulExtra(quorumVals(), []byte{}, [][]byte{})}
	raw, err := json.Marshal(g)
	if err != nil {
		panic(err)
	}
	p := &hscom.SyncGenesisHeaderParam{ChainID: quorumChain, GenesisHeader: raw}
	sink := common.NewZeroCopySink(nil)
	p.Serialization(sink)
	if err := hsquorum.NewQuorumHandler().SyncGenesisHeader(operatorService(db, sink.Bytes())); err != nil {
		panic(err)
	}
}

func quorumClass(err error) string {
	if err != nil && strings.Contains(err.Error(), "failed to deserialize MakeTxParam") {
		return "reject:decode"
	}
	if err != nil && (strings.Contains(err.Error(), "failed to verify quorum header") || strings.Contains(err.Error(), "deserialize header err") ||
		strings.Contains(err.Error(), "less than epoch height")) {
		return "reject:header"
	}
	if err != nil && strings.Contains(err.Error(), "check done transaction") {
		return "reject:done"
	}
	return depositClass(err)
}

// quorumDeposit runs the deposit through the real MakeDepositProposal against the given canonical block.
func (f *evm) quorumDeposit(r *hx.Run, d *depositOp, proof []byte, blk *eth.Header) string {
	db := storage.NewCacheDB(f.backend)
	if err := side_chain_manager.PutSideChain(operatorService(db, nil), &side_chain_manager.SideChain{ChainId: quorumChain, Name: "quorum",
		BlocksToWait: d.btw, CCMCAddress: d.ccmc}); err != nil {
		return "reject:sidechain"
	}
	hraw, err := json.Marshal(quorumHeader(blk.Number.Uint64(), blk.Root))
	if err != nil {
		return "reject:marshal"
	}
	ep := &scom.EntranceParam{SourceChainID: quorumChain, Height: d.height, Proof: proof, RelayerAddress: []byte{1}, Extra: d.extra, HeaderOrCrossChainMsg: hraw}
	sink := common.NewZeroCopySink(nil)
	ep.Serialization(sink)
	param, err := ccmquorum.NewQuorumHandler().MakeDepositProposal(newService(db, sink.Bytes()))
	if err != nil {
		return quorumClass(err)
	}
	return "ok:" + strings.Join([]string{hx.Hex(param.TxHash), hx.Hex(param.CrossChainID), hx.Hex(param.FromContractAddress), fmt.Sprint(param.ToChainID),
		hx.Hex(param.ToContractAddress), hx.Hex([]byte(param.Method)), hx.Hex(param.Args)}, ":")
}
