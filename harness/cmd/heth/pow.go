package main

import (
	"encoding/binary"
	"encoding/hex"
	"encoding/json"
	"fmt"
	"math/big"
	"sort"
	"strings"

	ethcommon "github.com/ethereum/go-ethereum/common"
	ethtypes "github.com/ethereum/go-ethereum/core/types"
	"github.com/polynetwork/poly/common"
	cstates "github.com/polynetwork/poly/core/states"
	"github.com/polynetwork/poly/core/store/leveldbstore"
	"github.com/polynetwork/poly/core/store/overlaydb"
	scom "github.com/polynetwork/poly/native/service/header_sync/common"
	"github.com/polynetwork/poly/native/service/header_sync/eth"
	"github.com/polynetwork/poly/native/service/utils"
	"github.com/polynetwork/poly/native/storage"
	"polyverif/internal/hx"
)

// Family pow (C27): synthetic header trees through the real ETHHandler.SyncBlockHeader on a real native service and
// contract cache (seal accepted by the verif hook, nothing else), the whole light-client key space compared with the
// model after every call, and the property itself evaluated on the implementation's state.
//
//	genesis <net> <header>            -> state dump       (trust root through putGenesisBlockHeader)
//	sync <header> ... <header>        -> ok|reject:<class> + state dump   (one contract call; committed only on success)
//
// <header> = <hash> <parentHash> <salt> <number> <time> <difficulty> <uncleEmpty> <gasLimit> <gasUsed> <baseFee|nil> <extraLen> <stateRoot>
// (the hash is Keccak256(RLP(header)): computed by the generator with the real code and re-checked by Exec).
type pow struct {
	backend *overlaydb.OverlayDB
	net     uint32
	genesis ethcommon.Hash
	seen    map[ethcommon.Hash]bool
}

const powChain = 2
const powTok = 12 // tokens per header

func init() { families["pow"] = func() hx.Family { return &pow{} } }

func (f *pow) Reset(r *hx.Run) {
	if f.backend == nil {
		store, err := leveldbstore.NewMemLevelDBStore()
		if err != nil {
			panic(err)
		}
		f.backend = overlaydb.NewOverlayDB(store)
	}
	f.backend.Reset()
	f.seen = map[ethcommon.Hash]bool{}
}

func powHeader(a []string) (*eth.Header, error) {
	h := hdrFromFields(a[3:10])
	copy(h.ParentHash[:], hx.UnHex(a[1]))
	salt := hx.UnHex(a[2])
	copy(h.Coinbase[:], salt)
	n := int(u64Of(a[10]))
	h.Extra = make([]byte, n)
	for i := range h.Extra {
		h.Extra[i] = 0x42
	}
	copy(h.Root[:], hx.UnHex(a[11]))
	want := hx.UnHex(a[0])
	if got := h.Hash(); hex.EncodeToString(got[:]) != hex.EncodeToString(want) {
		return nil, fmt.Errorf("hash in op line %x differs from Header.Hash() %x", want, got)
	}
	return h, nil
}

func powFields(h *eth.Header) string {
	hash := h.Hash()
	return strings.Join([]string{hx.Hex(hash[:]), hx.Hex(h.ParentHash[:]), hx.Hex(h.Coinbase[:]), fieldsOf(h), fmt.Sprint(len(h.Extra)), hx.Hex(h.Root[:])}, " ")
}

type powEntry struct {
	hash, parent ethcommon.Hash
	number       uint64
	td, diff     *big.Int
}

type powState struct {
	cur      uint64
	hasCur   bool
	genesis  string
	main     map[uint64]ethcommon.Hash
	index    map[ethcommon.Hash]powEntry
	otherKey []string
}

func short(h ethcommon.Hash) string { return hex.EncodeToString(h[:4]) }

// readState iterates the whole key space of the header-sync contract.
func (f *pow) readState(db *storage.CacheDB) (*powState, error) {
	st := &powState{main: map[uint64]ethcommon.Hash{}, index: map[ethcommon.Hash]powEntry{}}
	prefix := utils.HeaderSyncContractAddress[:]
	it := db.NewIterator(prefix)
	defer it.Release()
	chain := utils.GetUint64Bytes(powChain)
	for ok := it.First(); ok; ok = it.Next() {
		key := append([]byte{}, it.Key()...)[len(prefix):]
		val, err := cstates.GetValueFromRawStorageItem(it.Value())
		if err != nil {
			return nil, err
		}
		switch {
		case strings.HasPrefix(string(key), scom.HEADER_INDEX+string(chain)):
			var hs eth.HeaderWithDifficultySum
			if err := json.Unmarshal(val, &hs); err != nil {
				return nil, err
			}
			var k ethcommon.Hash
			copy(k[:], key[len(scom.HEADER_INDEX)+8:])
			if hs.Header.Hash() != k {
				st.otherKey = append(st.otherKey, "index-key-differs-from-header-hash:"+short(k))
			}
			st.index[k] = powEntry{k, hs.Header.ParentHash, hs.Header.Number.Uint64(), hs.DifficultySum, hs.Header.Difficulty}
		case strings.HasPrefix(string(key), scom.MAIN_CHAIN+string(chain)):
			var h ethcommon.Hash
			copy(h[:], val)
			st.main[binary.LittleEndian.Uint64(key[len(scom.MAIN_CHAIN)+8:])] = h
		case string(key) == scom.CURRENT_HEADER_HEIGHT+string(chain):
			st.cur, st.hasCur = binary.LittleEndian.Uint64(val), true
		case string(key) == scom.GENESIS_HEADER+string(chain):
			var hs eth.HeaderWithDifficultySum
			if err := json.Unmarshal(val, &hs); err != nil {
				return nil, err
			}
			st.genesis = short(hs.Header.Hash())
		default:
			if foreignChainKey(key) {
				continue // records of the sibling routers' own header stores (family evm), other chain ids
			}
			st.otherKey = append(st.otherKey, "key:"+hex.EncodeToString(key))
		}
	}
	return st, nil
}

func (st *powState) String() string {
	var hs []uint64
	for h := range st.main {
		hs = append(hs, h)
	}
	sort.Slice(hs, func(i, j int) bool { return hs[i] < hs[j] })
	var main, idx []string
	for _, h := range hs {
		main = append(main, fmt.Sprintf("%d:%s", h, short(st.main[h])))
	}
	for k, e := range st.index {
		idx = append(idx, fmt.Sprintf("%s:%v:%d:%s", short(k), e.td, e.number, short(e.parent)))
	}
	sort.Strings(idx)
	s := fmt.Sprintf("cur=%d genesis=%s main=[%s] index=[%s]", st.cur, st.genesis, strings.Join(main, ","), strings.Join(idx, ","))
	if len(st.otherKey) > 0 {
		sort.Strings(st.otherKey)
		s += " other=[" + strings.Join(st.otherKey, ",") + "]"
	}
	return s
}

// checkProperty evaluates C27 directly on the implementation's state.
func (f *pow) checkProperty(r *hx.Run, st *powState) {
	g := f.genesis
	ge, ok := st.index[g]
	if !ok {
		r.Viol("C27:trust-root-not-stored", "the trust root is no longer in the header index")
		return
	}
	for k, e := range st.index {
		if k == g {
			continue
		}
		p, ok := st.index[e.parent]
		switch {
		case !ok:
			r.Viol("C27:stored-parent-missing", fmt.Sprintf("stored header %s has no stored parent %s", short(k), short(e.parent)))
		case e.number != p.number+1:
			r.Viol("C27:stored-height-not-parent-plus-one", fmt.Sprintf("stored header %s has height %d, parent %d", short(k), e.number, p.number))
		case e.td.Cmp(new(big.Int).Add(p.td, e.diff)) != 0:
			r.Viol("C27:stored-td-not-parent-plus-own", fmt.Sprintf("stored header %s: total difficulty %v, parent's %v + own %v", short(k), e.td, p.td, e.diff))
		}
	}
	if !st.hasCur || st.cur < ge.number {
		r.Viol("C27:current-height-missing", "current height missing or below the trust root")
		return
	}
	if st.main[ge.number] != g {
		r.Viol("C27:main-chain-root", "the main chain does not start at the trust root")
	}
	for n := ge.number; n <= st.cur; n++ {
		h, ok := st.main[n]
		e, ok2 := st.index[h]
		if !ok || !ok2 || e.number != n {
			r.Viol("C27:main-chain-gap", fmt.Sprintf("main chain slot %d (current height %d) missing, unknown or of another height", n, st.cur))
			return
		}
		if n > ge.number && e.parent != st.main[n-1] {
			r.Viol("C27:main-chain-not-parent-linked", fmt.Sprintf("main chain slot %d is not the child of slot %d", n, n-1))
			return
		}
	}
	head := st.index[st.main[st.cur]]
	for k, e := range st.index {
		if e.td.Cmp(head.td) > 0 {
			r.Viol("C27:head-not-heaviest", fmt.Sprintf("stored header %s has total difficulty %v above the head %s with %v",
				short(k), e.td, short(head.hash), head.td))
			return
		}
	}
}

func (f *pow) Exec(r *hx.Run, op []string) string {
	eth.VerifAcceptSeal = true
	switch op[0] {
	case "genesis":
		f.net = uint32(u64Of(op[1]))
		setNetwork(f.net)
		h, err := powHeader(op[2:])
		if err != nil {
			return "bad-op"
		}
		db := storage.NewCacheDB(f.backend)
		if err := eth.VerifPutGenesisBlockHeader(newService(db, nil), *h, powChain); err != nil {
			return "reject:genesis"
		}
		db.Commit()
		f.genesis = h.Hash()
		st, err := f.readState(storage.NewCacheDB(f.backend))
		if err != nil {
			return "reject:state"
		}
		f.checkProperty(r, st)
		return st.String()
	case "sync":
		setNetwork(f.net)
		rest := op[1:]
		if len(rest)%powTok != 0 {
			return "bad-op"
		}
		param := &scom.SyncBlockHeaderParam{ChainID: powChain}
		allKnown := true
		before, _ := f.readState(storage.NewCacheDB(f.backend))
		for i := 0; i < len(rest); i += powTok {
			h, err := powHeader(rest[i : i+powTok])
			if err != nil {
				return "bad-op"
			}
			if _, ok := before.index[h.Hash()]; !ok {
				allKnown = false
			}
			raw, err := json.Marshal(h)
			if err != nil {
				return "bad-op"
			}
			param.Headers = append(param.Headers, raw)
		}
		sink := common.NewZeroCopySink(nil)
		param.Serialization(sink)
		db := storage.NewCacheDB(f.backend)
		res := func() (res string) {
			defer func() {
				if e := recover(); e != nil {
					res = "panic"
					r.Viol("C27:sync-panics", fmt.Sprintf("SyncBlockHeader panics on a submission of stored-parent headers: %v", e))
				}
			}()
			return classify(eth.NewETHHandler().SyncBlockHeader(newService(db, sink.Bytes())))
		}()
		if res == "panic" {
			return res
		}
		if res == "ok" {
			db.Commit() // the native service commits the contract cache only when the call succeeds
		}
		st, err := f.readState(storage.NewCacheDB(f.backend))
		if err != nil {
			return "reject:state"
		}
		f.checkProperty(r, st)
		if res == "ok" && before.hasCur && st.hasCur {
			oh, nh := before.main[before.cur], st.main[st.cur]
			switch {
			case oh == nh && len(st.index) > len(before.index):
				r.Hist("pow.effect.side-chain-only")
				if st.index[nh].td != nil {
					for k, e := range st.index {
						if _, old := before.index[k]; !old && e.td.Cmp(st.index[nh].td) == 0 {
							r.Hist("pow.effect.tie-with-head-kept")
						}
					}
				}
			case oh == nh:
				r.Hist("pow.effect.nothing-new")
			case st.index[nh].parent == oh && st.cur == before.cur+1 && len(param.Headers) == 1:
				r.Hist("pow.effect.append")
			case st.cur < before.cur:
				r.Hist("pow.effect.reorg-to-lower-height")
			case st.cur == before.cur:
				r.Hist("pow.effect.reorg-same-height")
			default:
				r.Hist("pow.effect.reorg-or-multi-append-higher")
			}
			if _, stale := st.main[st.cur+1]; stale {
				r.Hist("pow.state.stale-entries-above-head")
			}
		}
		if allKnown && (res != "ok" || st.String() != before.String()) {
			r.Viol("C27:resubmit-changed-state", fmt.Sprintf("re-submitting known headers gave %s and changed the state from %s to %s", res, before, st))
		}
		return res + " " + st.String()
	}
	return "bad-op"
}

// ---------------------------------------------------------------- Gen

type node struct {
	h      *eth.Header
	parent int // index of the parent node, -1 for the trust root's (unknown) parent
	valid  bool
}

// child builds a header that satisfies every rule of SyncBlockHeader relative to p (difficulty through the real
// calculators, selected as SyncBlockHeader selects them).
func powChild(g *hx.Rng, p *eth.Header, salt uint32, dt uint64) *eth.Header {
	h := &eth.Header{ParentHash: p.Hash(), Number: new(big.Int).Add(p.Number, big.NewInt(1)), UncleHash: uncleHash(g.Chance(3, 4))}
	binary.BigEndian.PutUint32(h.Coinbase[:], salt)
	dts := []uint64{1, 2, 5, 8, 9, 10, 13, 17, 18, 19, 27, 40, 100, 900, 1000}
	h.Time = p.Time + dts[g.Intn(len(dts))]
	if dt != 0 {
		h.Time = p.Time + dt
	}
	h.Extra = make([]byte, g.Intn(5))
	for i := range h.Extra {
		h.Extra[i] = 0x42
	}
	pLondon := eth.VerifIsLondon(p)
	// decide London-ness of the child by number only (no base fee below the fork)
	probe := &eth.Header{Number: h.Number}
	hLondon := eth.VerifIsLondon(probe)
	pgl := p.GasLimit
	if hLondon && !pLondon {
		pgl *= 2
	}
	lim := pgl / 1024
	h.GasLimit = pgl
	if lim > 1 && g.Bool() {
		h.GasLimit = pgl - lim + 1 + g.U64()%(2*lim-1)
	}
	if h.GasLimit < 5000 {
		h.GasLimit = 5000
	}
	h.GasUsed = g.U64() % (h.GasLimit + 1)
	if hLondon {
		h.BaseFee = eth.CalcBaseFee(p)
	}
	switch {
	case eth.VerifIsGrayGlacier(h):
		h.Difficulty = eth.VerifMakeDifficultyCalculator(big.NewInt(11400000))(h.Time, p)
	case eth.VerifIsArrowGlacier(h):
		h.Difficulty = eth.VerifMakeDifficultyCalculator(big.NewInt(10700000))(h.Time, p)
	case eth.VerifIsLondon(h):
		h.Difficulty = eth.VerifMakeDifficultyCalculator(big.NewInt(9700000))(h.Time, p)
	default:
		h.Difficulty = eth.VerifDifficultyCalculator(new(big.Int).SetUint64(h.Time), p)
	}
	return h
}

func (f *pow) Gen(r *hx.Run) {
	r.Rule("scripted fork scenarios (stale head inside one multi-header call, shorter-but-heavier fork and back within one call, three-way forks with re-submission of every stored header after each reorganisation) + synthetic header trees of 2..12 nodes (every fourth tree: a slow long fork against a fast shorter one, up to 17 nodes, to force reorganisations to a lower height and back) over a trust root (heights around the London / Arrow Glacier / Gray Glacier forks and elsewhere, " +
		"difficulties from the real calculators so that sibling forks tie or differ), a few invalid / orphan / wrong-height nodes, submitted in " +
		"random orders (child before parent, duplicates, 1..4 headers per call) through SyncBlockHeader; after every call the whole key space is " +
		"compared with the model and the property is evaluated on the implementation's state; distinct non-trivial = distinct (tree shape, order class, outcome sequence)")
	g := r.Rng
	f.genScripted(r)
	trees := r.Pick(500, 20000)
	for t := 0; t < trees; t++ {
		net := uint32(1)
		if g.Chance(1, 5) {
			net = 2
		}
		setNetwork(net)
		bases := []uint64{12964995, 12964999, 13772995, 15049995, 9500000, 14000000, 16000000, 10499395, 11000000}
		base := bases[g.Intn(len(bases))]
		if g.Chance(1, 4) {
			base = 9200000 + g.U64()%7000000
		}
		root := &eth.Header{Number: new(big.Int).SetUint64(base), Time: 1500000000 + g.U64()%100000000, UncleHash: uncleHash(true),
			GasLimit: []uint64{8000000, 12500000, 15000000, 30000000}[g.Intn(4)], Extra: []byte{}}
		root.GasUsed = g.U64() % (root.GasLimit + 1)
		root.Difficulty = new(big.Int).SetUint64(131072 + g.U64()%(1<<uint(17+g.Intn(36))))
		if eth.VerifIsLondon(root) {
			root.BaseFee = big.NewInt(int64(g.Intn(2000000000)))
		}
		nodes := []node{{root, -1, true}}
		n := 2 + g.Intn(r.Pick(11, 11))
		shape := []string{}
		longFork := t%4 == 3
		if longFork {
			// a slow chain A of 7..8 blocks (time steps of 1000 s: difficulty falls by 99/2048 per block) against a fast chain B
			// of 6 blocks (1 s steps): B is shorter but heavier, so the head moves to a LOWER height and leaves stale
			// main-chain entries above it; one or two more A blocks then win the head back across the stale entries.
			n = 0
			root.Difficulty = new(big.Int).SetUint64(1000000000000000 + g.U64()%1000000000000000)
			la, lb := 7, 6
			if t%16 == 15 {
				la = 8
			}
			prev := 0
			for i := 0; i < la; i++ {
				nodes = append(nodes, node{powChild(g, nodes[prev].h, uint32(t*100+len(nodes)), 1000), prev, true})
				shape = append(shape, fmt.Sprint(prev))
				prev = len(nodes) - 1
			}
			lastA := prev
			prev = 0 // fork from the root: B (6 blocks) is heavier than A (7 blocks) and one block shorter
			nb := lb
			for i := 0; i < nb; i++ {
				nodes = append(nodes, node{powChild(g, nodes[prev].h, uint32(t*100+len(nodes)), 1), prev, true})
				shape = append(shape, fmt.Sprint(prev))
				prev = len(nodes) - 1
			}
			extra := 1 + g.Intn(2)
			for i := 0; i < extra; i++ {
				nodes = append(nodes, node{powChild(g, nodes[lastA].h, uint32(t*100+len(nodes)), 1000), lastA, true})
				shape = append(shape, fmt.Sprint(lastA))
				lastA = len(nodes) - 1
			}
		}
		for i := 1; i <= n; i++ {
			// parent: bias towards the deepest nodes so that forks of different lengths arise
			pi := g.Intn(len(nodes))
			if g.Bool() {
				pi = len(nodes) - 1 - g.Intn(minInt(3, len(nodes)))
			}
			for !nodes[pi].valid {
				pi = g.Intn(len(nodes))
			}
			h := powChild(g, nodes[pi].h, uint32(t*100+i), 0)
			valid := true
			switch g.Intn(14) {
			case 0:
				h.Difficulty = new(big.Int).Add(h.Difficulty, big.NewInt(1))
				valid = false
			case 1:
				h.Number = new(big.Int).Add(h.Number, big.NewInt(1))
				valid = false
			case 2:
				h.ParentHash[5] ^= 0x80 // unknown parent
				valid = false
			case 3:
				h.Time = nodes[pi].h.Time
				valid = false
			}
			nodes = append(nodes, node{h, pi, valid})
			shape = append(shape, fmt.Sprint(pi))
		}
		orders := r.Pick(3, 4)
		for o := 0; o < orders; o++ {
			r.Case(fmt.Sprintf("tree-%d-order-%d", t, o))
			r.Do(fmt.Sprintf("genesis %d %s", net, powFields(root)))
			var seq []int
			switch o {
			case 0: // topological (creation) order
				for i := 1; i < len(nodes); i++ {
					seq = append(seq, i)
				}
			default:
				for _, i := range g.Perm(len(nodes) - 1) {
					seq = append(seq, i+1)
				}
				// orphans are rejected; submit everything a few more times so that late parents unlock their children
				seq = append(seq, seq...)
				seq = append(seq, seq[:len(seq)/2]...)
			}
			if g.Chance(1, 3) {
				seq = append(seq, seq[g.Intn(len(seq))]) // a duplicate
			}
			outs := []string{}
			for i := 0; i < len(seq); {
				k := 1
				if g.Chance(1, 3) {
					k = 1 + g.Intn(4)
				}
				if i+k > len(seq) {
					k = len(seq) - i
				}
				parts := []string{"sync"}
				for _, j := range seq[i : i+k] {
					parts = append(parts, powFields(nodes[j].h))
				}
				res := r.Do(strings.Join(parts, " "))
				outs = append(outs, strings.SplitN(res, " ", 2)[0])
				i += k
			}
			r.Nontrivial(fmt.Sprintf("%s/%d/%s", strings.Join(shape, "."), o, strings.Join(outs, ",")))
			for _, x := range outs {
				r.Hist("pow.call." + x)
			}
			if t%100 == 0 && o == 1 {
				r.Sample(map[string]interface{}{"tree": shape, "net": net, "base": base, "calls": outs})
			}
		}
	}
}

func minInt(a, b int) int {
	if a < b {
		return a
	}
	return b
}

var _ = ethtypes.EmptyUncleHash

// foreignChainKey: a header-sync record "<kind><chain id (8 bytes LE)>..." of a chain id in 101..999 (the sibling
// routers of family evm keep their stores under those ids; the chain under test is powChain).
func foreignChainKey(key []byte) bool {
	for _, kind := range []string{scom.HEADER_INDEX, scom.MAIN_CHAIN, scom.CURRENT_HEADER_HEIGHT, scom.GENESIS_HEADER, scom.CONSENSUS_PEER, scom.CONSENSUS_PEER_BLOCK_HEIGHT, scom.KEY_HEIGHTS} {
		if strings.HasPrefix(string(key), kind) && len(key) >= len(kind)+8 {
			id := binary.LittleEndian.Uint64(key[len(kind) : len(kind)+8])
			if id > 100 && id < 1000 {
				return true
			}
		}
	}
	return false
}
