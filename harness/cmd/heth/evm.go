package main

import (
	"bytes"
	"encoding/hex"
	"encoding/json"
	"fmt"
	"math/big"
	"regexp"
	"strings"

	ecom "github.com/ethereum/go-ethereum/common"
	"github.com/ethereum/go-ethereum/crypto"
	"github.com/ethereum/go-ethereum/ethdb/memorydb"
	"github.com/ethereum/go-ethereum/light"
	gethrlp "github.com/ethereum/go-ethereum/rlp"
	"github.com/ethereum/go-ethereum/trie"
	"github.com/polynetwork/poly/common"
	scom "github.com/polynetwork/poly/native/service/cross_chain_manager/common"
	ccmeth "github.com/polynetwork/poly/native/service/cross_chain_manager/eth"
	ccmquorum "github.com/polynetwork/poly/native/service/cross_chain_manager/quorum"
	"github.com/polynetwork/poly/native/service/governance/side_chain_manager"
	"github.com/polynetwork/poly/native/service/header_sync/eth"
	"github.com/polynetwork/poly/native/storage"
	"polyverif/internal/hx"
)

// Family evm (C23): deposit proofs through the real verifyFromEthTx (cross_chain_manager/eth) over a light-client
// state built with the real SyncBlockHeader; state and storage tries are built with go-ethereum's trie package and
// proved with trie.Prove.
//
//	genesis / sync                   as in family pow (headers carry their state root)
//	deposit <blocksToWait> <height> <ccmc> json=ok|bad s:<address> s:<balance> s:<codeHash> s:<nonce> s:<storageHash>
//	        l<n>:<accountProof,...> <k> {s:<key> l<n>:<proof,...>}*k <extra> K:<in>=<keccak>;... VP:<root>|<key>=<res>;...
//	                                 -> ok:<decoded message> | reject:<class>
//
// K and VP are the oracle tables for the model (Keccak-256 and trie.VerifyProof results, computed by the generator
// with the same libraries the code calls); Exec re-computes them and refuses a line whose tables are stale.
type evm struct {
	pow
	posa    *posaState
	posaErr string
}

func (f *evm) Reset(r *hx.Run) {
	f.pow.Reset(r)
	f.posa = nil
	db := storage.NewCacheDB(f.backend)
	posaSetup(db)
	quorumSetup(db)
	db.Commit()
}

func init() { families["evm"] = func() hx.Family { return &evm{} } }

func sOf(t string) string { return strings.TrimPrefix(t, "s:") }

func lOf(t string) []string {
	i := strings.Index(t, ":")
	if i < 0 || t[1:i] == "0" {
		return nil
	}
	return strings.Split(t[i+1:], ",")
}

func sTok(s string) string { return "s:" + s }

func lTok(l []string) string { return fmt.Sprintf("l%d:%s", len(l), strings.Join(l, ",")) }

func depositClass(err error) string {
	if err == nil {
		return "ok"
	}
	s := err.Error()
	for _, p := range [][2]string{
		{"get current header fail", "nohead"},
		{"transaction is not confirmed", "not-confirmed"},
		{"get header by height", "noheader"},
		{"unmarshal proof error", "json"},
		{"incorrect proof format", "format"},
		{"invalid storage proof format", "format"},
		{"contract address is error", "address"},
		{"verify account proof error", "acct-proof"},
		{"invalid format of nounce", "number"},
		{"invalid format of balance", "number"},
		{"cannot encode negative", "rlp"},
		{"verify account proof failed", "acct-mismatch"},
		{"verify storage proof error", "storage-proof"},
		{"verifyMerkleProof failed", "absent"},
		{"verify proof value hash failed", "value-hash"},
		{"deserialize merkleValue error", "decode"},
	} {
		if strings.Contains(s, p[0]) {
			return "reject:" + p[1]
		}
	}
	return "reject:other"
}

func vpString(v []byte, err error) string {
	switch {
	case err != nil:
		return "err"
	case v == nil:
		return "nil"
	}
	return "v" + hex.EncodeToString(v)
}

func nodeSet(proof []string) *light.NodeSet {
	nl := new(light.NodeList)
	for _, s := range proof {
		nl.Put(nil, ecom.Hex2Bytes(scom.Replace0x(s)))
	}
	return nl.NodeSet()
}

type depositOp struct {
	btw           uint64
	height        uint32
	ccmc          []byte
	jsonOK        bool
	p             ccmeth.ETHProof
	raw           []byte // the proof as submitted (JSON text)
	extra         []byte
	wellFormed    bool // every string of the proof is plain 0x-prefixed even-length hex of the natural size
	ktab, vptab   string
	rootsAtHeight []ecom.Hash
}

// tables computes the oracle tables for the model: Keccak of the values the code hashes, VerifyProof of the account
// proof under every candidate root and of the storage proof under the claimed storage hash.
func (d *depositOp) tables(roots []ecom.Hash) (string, string) {
	var ks, vs []string
	k := func(b []byte) []byte {
		h := crypto.Keccak256(b)
		ks = append(ks, hx.Hex(b)+"="+hx.Hex(h))
		return h
	}
	addr := ecom.Hex2Bytes(scom.Replace0x(d.p.Address))
	ak := k(addr)
	ans := nodeSet(d.p.AccountProof)
	for _, r := range roots {
		v, err := trie.VerifyProof(r, ak, ans)
		vs = append(vs, hx.Hex(r[:])+"|"+hx.Hex(ak)+"="+vpString(v, err))
	}
	sh := ecom.HexToHash(scom.Replace0x(d.p.StorageHash))
	for _, sp := range d.p.StorageProofs {
		sk := k(ecom.HexToHash(scom.Replace0x(sp.Key)).Bytes())
		v, err := trie.VerifyProof(sh, sk, nodeSet(sp.Proof))
		vs = append(vs, hx.Hex(sh[:])+"|"+hx.Hex(sk)+"="+vpString(v, err))
	}
	k(d.extra)
	return "K:" + strings.Join(ks, ";"), "VP:" + strings.Join(vs, ";")
}

func (d *depositOp) line() string {
	return strings.Join([]string{"deposit", fmt.Sprint(d.btw), fmt.Sprint(d.height), hx.Hex(d.ccmc), "j:" + hex.EncodeToString(d.raw),
		hx.Hex(d.extra), d.ktab, d.vptab}, " ")
}

// setRaw fixes the submitted JSON text and derives from it (with encoding/json and the code's own struct) what the
// oracle tables and the property evaluation need.
func (d *depositOp) setRaw(raw []byte) {
	d.raw = raw
	d.p = ccmeth.ETHProof{}
	d.jsonOK = json.Unmarshal(raw, &d.p) == nil
}

func parseDeposit(op []string) (*depositOp, bool) {
	if len(op) != 8 || !strings.HasPrefix(op[4], "j:") {
		return nil, false
	}
	raw, err := hex.DecodeString(op[4][2:])
	if err != nil {
		return nil, false
	}
	d := &depositOp{btw: u64Of(op[1]), height: uint32(u64Of(op[2])), ccmc: hx.UnHex(op[3]), extra: hx.UnHex(op[5]), ktab: op[6], vptab: op[7]}
	d.setRaw(raw)
	return d, true
}

func (f *evm) Exec(r *hx.Run, op []string) string {
	if op[0] != "deposit" {
		res := f.pow.Exec(r, op)
		// accepted trust roots / headers are also built, really sealed, in the PoSA siblings' own header stores
		if op[0] == "genesis" && !strings.HasPrefix(res, "reject") && res != "bad-op" {
			if h, err := powHeader(op[2:]); err == nil {
				f.posaGenesis(r, h)
			}
		}
		if op[0] == "sync" && strings.HasPrefix(res, "ok ") {
			var hs []*eth.Header
			for i := 1; i+powTok <= len(op); i += powTok {
				if h, err := powHeader(op[i : i+powTok]); err == nil {
					hs = append(hs, h)
				}
			}
			f.posaSync(r, hs)
		}
		return res
	}
	setNetwork(f.net)
	d, ok := parseDeposit(op)
	if !ok {
		return "bad-op"
	}
	db := storage.NewCacheDB(f.backend)
	st, err := f.readState(db)
	if err != nil {
		return "reject:state"
	}
	// candidate roots: every stored header of that height (the model looks its own choice up in the table)
	var roots []ecom.Hash
	hdrs := map[ecom.Hash]*eth.Header{}
	for k, e := range st.index {
		h, _, err := eth.GetHeaderByHash(newService(db, nil), k[:], powChain)
		if err == nil {
			hdrs[k] = h
			if e.number == uint64(d.height) {
				roots = append(roots, h.Root)
			}
		}
	}
	kt, vt := d.tables(roots)
	if !sameTable(kt, d.ktab) || !sameTable(vt, d.vptab) {
		return "bad-op:stale-oracle-tables"
	}
	proof := d.raw
	side := &side_chain_manager.SideChain{ChainId: powChain, BlocksToWait: d.btw, CCMCAddress: d.ccmc}
	param, verr := ccmeth.VerifVerifyFromEthTx(newService(db, nil), proof, d.extra, powChain, d.height, side)
	res := depositClass(verr)
	if verr == nil {
		res = "ok:" + strings.Join([]string{hx.Hex(param.TxHash), hx.Hex(param.CrossChainID), hx.Hex(param.FromContractAddress), fmt.Sprint(param.ToChainID),
			hx.Hex(param.ToContractAddress), hx.Hex([]byte(param.Method)), hx.Hex(param.Args)}, ":")
	}
	f.depositOracle(r, d, st, hdrs, res)
	// the quorum router: its proof check alone (verif wrapper) and the whole MakeDepositProposal with a really signed
	// Istanbul header that commits to the main-chain block of that height (its validator-signature rule is C29/C30)
	quorum := "na"
	if blk, _, err := eth.GetHeaderByHeight(newService(db, nil), uint64(d.height), powChain); err == nil {
		pc := depositClass(ccmquorum.VerifVerifyFromQuorumTx(proof, d.extra, toGeth(blk), side))
		quorum = f.quorumDeposit(r, d, proof, blk)
		r.Hist("evm.quorum." + strings.SplitN(quorum, ":", 2)[0] + "/" + strings.TrimPrefix(pc, "reject:"))
		// the full handler decodes the message first and then must agree with its proof check
		short := quorum
		if strings.HasPrefix(short, "ok:") {
			short = "ok"
		}
		if short != "reject:decode" && short != pc {
			r.Viol("C23:quorum:handler-differs-from-proof-check", fmt.Sprintf("quorum MakeDepositProposal answers %s, its proof check alone %s", short, pc))
		}
	}
	return res + " " + f.siblings(r, d, st, hdrs, proof, res) + " quorum=" + quorum
}

func sameTable(a, b string) bool {
	set := func(t string) map[string]bool {
		m := map[string]bool{}
		for _, x := range strings.Split(t[strings.Index(t, ":")+1:], ";") {
			m[x] = true
		}
		return m
	}
	ma, mb := set(a), set(b)
	if len(ma) != len(mb) {
		return false
	}
	for x := range ma {
		if !mb[x] {
			return false
		}
	}
	return true
}

// depositOracle evaluates the property statement itself with go-ethereum's libraries, inside the domain where the
// statement is unambiguous (1 <= BlocksToWait <= 2^32, plain hex strings): accepted exactly when the block at that
// height is on the canonical chain with at least BlocksToWait confirmations, account and storage proofs verify against
// that block's state root for the registered contract, and the proven value is Keccak-256 of the message; the accepted
// message is the submitted one.
func (f *evm) depositOracle(r *hx.Run, d *depositOp, st *powState, hdrs map[ecom.Hash]*eth.Header, res string) {
	if !isPlainHex(d.p.Address, 20) || !isPlainHex(d.p.StorageHash, 32) || !isPlainHex(d.p.CodeHash, 32) || !isPlainNum(d.p.Nonce) || !isPlainNum(d.p.Balance) {
		r.Hist("evm.oracle.skipped-irregular-strings")
		return
	}
	for _, sp := range d.p.StorageProofs {
		if !isPlainHex(sp.Key, 32) {
			r.Hist("evm.oracle.skipped-irregular-strings")
			return
		}
	}
	if d.btw < 1 || d.btw > 1<<32 || !st.hasCur || st.cur >= 1<<32 {
		r.Hist("evm.oracle.skipped-blocks-to-wait-corner")
		return
	}
	why := ""
	blk, onChain := st.main[uint64(d.height)]
	hdr := hdrs[blk]
	switch {
	case uint64(d.height) > st.cur || !onChain || hdr == nil:
		why = "no-canonical-block-at-height"
	case st.cur-uint64(d.height)+1 < d.btw:
		why = "too-few-confirmations"
	case !d.jsonOK || len(d.p.StorageProofs) != 1:
		why = "malformed-proof"
	case !bytes.Equal(ecom.FromHex(d.p.Address), d.ccmc):
		why = "other-contract"
	}
	if why == "" {
		nonce, _ := new(big.Int).SetString(strings.TrimPrefix(d.p.Nonce, "0x"), 16)
		bal, _ := new(big.Int).SetString(strings.TrimPrefix(d.p.Balance, "0x"), 16)
		acct, _ := gethrlp.EncodeToBytes([]interface{}{nonce, bal, ecom.FromHex(d.p.StorageHash), ecom.FromHex(d.p.CodeHash)})
		av, aerr := trie.VerifyProof(hdr.Root, crypto.Keccak256(d.ccmc), nodeSet(d.p.AccountProof))
		sp := d.p.StorageProofs[0]
		sv, serr := trie.VerifyProof(ecom.BytesToHash(ecom.FromHex(d.p.StorageHash)), crypto.Keccak256(ecom.FromHex(sp.Key)), nodeSet(sp.Proof))
		var stored []byte
		switch {
		case aerr != nil || !bytes.Equal(av, acct):
			why = "account-proof"
		case serr != nil || sv == nil:
			why = "storage-proof"
		case gethrlp.DecodeBytes(sv, &stored) != nil || !bytes.Equal(ecom.LeftPadBytes(stored, 32), crypto.Keccak256(d.extra)) || len(stored) > 32:
			why = "value-is-not-hash-of-message"
		}
	}
	var want *scom.MakeTxParam
	if why == "" {
		want = new(scom.MakeTxParam)
		if want.Deserialization(common.NewZeroCopySource(d.extra)) != nil {
			why = "message-does-not-decode"
		}
	}
	accepted := strings.HasPrefix(res, "ok:")
	if accepted && why != "" {
		r.Viol("C23:accepts-invalid:"+why, fmt.Sprintf("deposit at height %d (current %d, BlocksToWait %d) accepted although: %s", d.height, st.cur, d.btw, why))
	}
	if !accepted && why == "" {
		r.Viol("C23:rejects-valid:"+strings.TrimPrefix(res, "reject:"), fmt.Sprintf("a valid deposit at height %d (current %d, BlocksToWait %d) is rejected: %s", d.height, st.cur, d.btw, res))
	}
	if accepted && why == "" {
		sink := common.NewZeroCopySink(nil)
		want.Serialization(sink)
		got := strings.Split(strings.TrimPrefix(res, "ok:"), ":")
		if len(got) != 7 || got[0] != hx.Hex(want.TxHash) || got[1] != hx.Hex(want.CrossChainID) || got[6] != hx.Hex(want.Args) {
			r.Viol("C23:accepted-message-differs", "the accepted message is not the decoding of the submitted one")
		}
	}
	r.Hist("evm.oracle.evaluated")
}

func isPlainHex(s string, n int) bool {
	if !strings.HasPrefix(s, "0x") || len(s) != 2+2*n {
		return false
	}
	_, err := hex.DecodeString(s[2:])
	return err == nil && !strings.Contains(s[2:], "0x")
}

func isPlainNum(s string) bool {
	if !strings.HasPrefix(s, "0x") || len(s) < 3 || strings.Contains(s[2:], "x") {
		return false
	}
	_, ok := new(big.Int).SetString(s[2:], 16)
	return ok && s[2] != '-' && s[2] != '+'
}

// ---------------------------------------------------------------- Gen

type acctRec struct {
	addr           []byte
	nonce, balance *big.Int
	codeHash       ecom.Hash
	slots          map[ecom.Hash][]byte // slot -> stored value (untrimmed 32 bytes or arbitrary)
	storageTrie    *trie.Trie
	storageRoot    ecom.Hash
	acctRlp        []byte
}

type worldState struct {
	accts []*acctRec
	trie  *trie.Trie
	root  ecom.Hash
}

func newTrie() *trie.Trie {
	t, err := trie.New(ecom.Hash{}, trie.NewDatabase(memorydb.New()))
	if err != nil {
		panic(err)
	}
	return t
}

func (a *acctRec) seal() {
	a.storageTrie = newTrie()
	for k, v := range a.slots {
		enc, _ := gethrlp.EncodeToBytes(bytes.TrimLeft(v, "\x00"))
		a.storageTrie.Update(crypto.Keccak256(k[:]), enc)
	}
	a.storageRoot = a.storageTrie.Hash()
	a.acctRlp, _ = gethrlp.EncodeToBytes([]interface{}{a.nonce, a.balance, a.storageRoot, a.codeHash})
}

func (w *worldState) seal() {
	w.trie = newTrie()
	for _, a := range w.accts {
		a.seal()
		w.trie.Update(crypto.Keccak256(a.addr), a.acctRlp)
	}
	w.root = w.trie.Hash()
}

func prove(t *trie.Trie, key []byte) []string {
	var nl light.NodeList
	if err := t.Prove(key, 0, &nl); err != nil {
		panic(err)
	}
	var out []string
	for _, n := range nl {
		out = append(out, "0x"+hex.EncodeToString(n))
	}
	return out
}

func hex0x(b []byte) string { return "0x" + hex.EncodeToString(b) }

func numHex(b *big.Int) string { return "0x" + b.Text(16) }

func randMsg(g *hx.Rng, leadingZero bool) []byte {
	for {
		p := &scom.MakeTxParam{TxHash: g.Bytes(32), CrossChainID: g.Bytes(1 + g.Intn(32)), FromContractAddress: g.Bytes(20), ToChainID: g.U64() % 100,
			ToContractAddress: g.Bytes(20), Method: []string{"unlock", "lock", "", "a"}[g.Intn(4)], Args: g.Bytes(g.Intn(300))}
		sink := common.NewZeroCopySink(nil)
		p.Serialization(sink)
		if !leadingZero || crypto.Keccak256(sink.Bytes())[0] == 0 {
			return sink.Bytes()
		}
	}
}

func (f *evm) Gen(r *hx.Run) {
	r.Rule("light-client chains of 3..8 blocks (some with a side fork and a reorganisation) whose headers commit to synthetic world states " +
		"(2..5 accounts, the cross-chain manager contract with 1..6 deposit slots; built with go-ethereum's trie and proved with trie.Prove); " +
		"per chain ~25 deposits: valid ones at every height x BlocksToWait around the confirmation boundary (incl. 0, 2^32, 2^32+1, 2^64-1), and single " +
		"mutations: truncated / re-ordered / foreign node lists, other account, other slot, other value, absence proofs, wrong account fields, " +
		"non-canonical block, future height, zero or two storage proofs, malformed JSON, irregular hex strings, truncated message, stored values that are only the tail / head of the hash or 33 bytes, a private storage trie under a genuine account proof; every second chain is reorganised half way (the blocks from a random height on are replaced) and deposits against the replaced and the new blocks of the same heights follow; " +
		"distinct non-trivial = distinct (mutation, verdict, confirmation class)")
	g := r.Rng
	chains := r.Pick(160, 6000)
	for c := 0; c < chains; c++ {
		r.Case(fmt.Sprintf("chain-%d", c))
		net := uint32(1)
		setNetwork(net)
		ccmc := g.Bytes(20)
		// world states per block
		slotKind := map[ecom.Hash]string{} // slot -> what its stored value is, when it is not the full hash
		mkWorld := func() (*worldState, *acctRec, map[ecom.Hash][]byte) {
			w := &worldState{}
			msgs := map[ecom.Hash][]byte{}
			cc := &acctRec{addr: ccmc, nonce: big.NewInt(int64(g.Intn(3))), balance: new(big.Int).SetUint64(g.U64() >> uint(g.Intn(64))),
				codeHash: ecom.BytesToHash(g.Bytes(32)), slots: map[ecom.Hash][]byte{}}
			for i := 0; i < 1+g.Intn(6); i++ {
				m := randMsg(g, g.Chance(1, 6))
				slot := ecom.BytesToHash(g.Bytes(32))
				cc.slots[slot] = crypto.Keccak256(m)
				msgs[slot] = m
			}
			if g.Chance(1, 3) {
				// a slot that commits to a message which does not decode (truncated serialization)
				m := randMsg(g, false)
				m = m[:1+g.Intn(len(m)-1)]
				slot := ecom.BytesToHash(g.Bytes(32))
				cc.slots[slot] = crypto.Keccak256(m)
				msgs[slot] = m
			}
			if g.Chance(1, 2) {
				// slots whose value is only a PART of keccak(message): the low-order bytes (what a check that compares just
				// the tail, or pads on the wrong side, would accept), the high-order bytes, or 33 bytes ending in the hash
				m := randMsg(g, false)
				hsh := crypto.Keccak256(m)
				slot := ecom.BytesToHash(g.Bytes(32))
				switch g.Intn(4) {
				case 0:
					k := []int{31, 20, 8, 1}[g.Intn(4)]
					cc.slots[slot] = append([]byte{}, hsh[32-k:]...)
					slotKind[slot] = "value-is-tail-of-hash"
				case 1:
					k := []int{31, 20, 8}[g.Intn(3)]
					cc.slots[slot] = append([]byte{}, hsh[:k]...)
					slotKind[slot] = "value-is-head-of-hash"
				case 2:
					cc.slots[slot] = append([]byte{1}, hsh...)
					slotKind[slot] = "value-is-33-bytes-ending-in-hash"
				default:
					cc.slots[slot] = []byte{}
					slotKind[slot] = "value-is-empty"
				}
				msgs[slot] = m
			}
			w.accts = append(w.accts, cc)
			for i := 0; i < 1+g.Intn(4); i++ {
				o := &acctRec{addr: g.Bytes(20), nonce: big.NewInt(int64(g.Intn(1000))), balance: new(big.Int).SetUint64(g.U64()),
					codeHash: ecom.BytesToHash(g.Bytes(32)), slots: map[ecom.Hash][]byte{}}
				for j := 0; j < g.Intn(4); j++ {
					o.slots[ecom.BytesToHash(g.Bytes(32))] = g.Bytes(32)
				}
				w.accts = append(w.accts, o)
			}
			w.seal()
			return w, cc, msgs
		}
		base := []uint64{12964996, 13000000, 9500000, 14000000, 15049997}[g.Intn(5)]
		root := &eth.Header{Number: new(big.Int).SetUint64(base), Time: 1500000000 + g.U64()%100000000, UncleHash: uncleHash(true),
			GasLimit: 30000000, Extra: []byte{}}
		root.Difficulty = new(big.Int).SetUint64(1000000000000 + g.U64()%1000000000000)
		if eth.VerifIsLondon(root) {
			root.BaseFee = big.NewInt(1000000000)
		}
		type blk struct {
			h     *eth.Header
			w     *worldState
			cc    *acctRec
			msgs  map[ecom.Hash][]byte
			canon bool
		}
		w0, cc0, m0 := mkWorld()
		root.Root = w0.root
		blocks := []*blk{{root, w0, cc0, m0, true}}
		r.Do(fmt.Sprintf("genesis %d %s", net, powFields(root)))
		n := 2 + g.Intn(6)
		for i := 1; i <= n; i++ {
			w, cc, ms := mkWorld()
			h := powChild(g, blocks[len(blocks)-1].h, uint32(c*100+i), 13)
			h.Root = w.root
			h.ParentHash = blocks[len(blocks)-1].h.Hash()
			blocks = append(blocks, &blk{h, w, cc, ms, true})
			r.Do("sync " + powFields(h))
		}
		// a lighter side block at a random height (stored, never canonical)
		var sideBlk *blk
		if g.Bool() && n >= 2 {
			at := 1 + g.Intn(n-1)
			w, cc, ms := mkWorld()
			h := powChild(g, blocks[at-1].h, uint32(c*100+50), 1000)
			h.Root = w.root
			sideBlk = &blk{h, w, cc, ms, false}
			r.Do("sync " + powFields(h))
		}
		cur := base + uint64(n)
		var sides []*blk
		if sideBlk != nil {
			sides = append(sides, sideBlk)
		}
		phase := "before-reorg"
		runDeposits := func(deposits int) {
			for k := 0; k < deposits; k++ {
				bi := g.Intn(len(blocks))
				b := blocks[bi]
				mut := "none"
				if len(sides) > 0 && g.Chance(1, 6) {
					b = sides[g.Intn(len(sides))]
					mut = "non-canonical-block"
					if b.canon {
						mut = "block-reorganised-out"
					}
				}
				height := b.h.Number.Uint64()
				// a slot of the contract
				var slot ecom.Hash
				for s := range b.cc.slots {
					slot = s
					if g.Bool() {
						break
					}
				}
				extra := b.msgs[slot]
				if kind, ok := slotKind[slot]; ok && mut == "none" {
					mut = kind
				}
				conf := cur - height + 1
				btws := []uint64{1, conf, conf, conf + 1, conf - 1, 2, 12, 0, 1 << 32, 1<<32 + 1, 1<<32 + conf, 1<<64 - 1}
				d := &depositOp{btw: btws[g.Intn(len(btws))], height: uint32(height), ccmc: ccmc, jsonOK: true, extra: extra}
				if d.btw == 0 && !g.Chance(1, 3) {
					d.btw = conf
				}
				d.p = ccmeth.ETHProof{Address: hex0x(ccmc), Balance: numHex(b.cc.balance), CodeHash: hex0x(b.cc.codeHash[:]), Nonce: numHex(b.cc.nonce),
					StorageHash: hex0x(b.cc.storageRoot[:]), AccountProof: prove(b.w.trie, crypto.Keccak256(ccmc)),
					StorageProofs: []ccmeth.StorageProof{{Key: hex0x(slot[:]), Proof: prove(b.cc.storageTrie, crypto.Keccak256(slot[:]))}}}
				if mut == "none" && g.Chance(3, 5) {
					other := b.w.accts[1+g.Intn(len(b.w.accts)-1)]
					switch g.Intn(25) {
					case 0:
						d.p.AccountProof = d.p.AccountProof[:len(d.p.AccountProof)-1]
						mut = "account-proof-truncated-tail"
					case 1:
						d.p.AccountProof = d.p.AccountProof[1:]
						mut = "account-proof-truncated-head"
					case 2:
						sp := &d.p.StorageProofs[0]
						sp.Proof = sp.Proof[:len(sp.Proof)-1]
						mut = "storage-proof-truncated-tail"
					case 3:
						// re-ordered node lists verify all the same (a node set is keyed by hash)
						ap := d.p.AccountProof
						for i, j := 0, len(ap)-1; i < j; i, j = i+1, j-1 {
							ap[i], ap[j] = ap[j], ap[i]
						}
						mut = "account-proof-reversed"
					case 4:
						d.p.AccountProof = prove(b.w.trie, crypto.Keccak256(other.addr))
						mut = "account-proof-of-other-account"
					case 5:
						d.p.Address = hex0x(other.addr)
						d.p.AccountProof = prove(b.w.trie, crypto.Keccak256(other.addr))
						d.p.Balance, d.p.Nonce, d.p.CodeHash, d.p.StorageHash = numHex(other.balance), numHex(other.nonce), hex0x(other.codeHash[:]), hex0x(other.storageRoot[:])
						mut = "whole-proof-for-other-account"
					case 6:
						var s2 ecom.Hash
						for s := range b.cc.slots {
							if s != slot {
								s2 = s
							}
						}
						if (s2 != ecom.Hash{}) {
							d.p.StorageProofs[0].Proof = prove(b.cc.storageTrie, crypto.Keccak256(s2[:]))
							mut = "storage-proof-of-other-slot"
						}
					case 7:
						var s2 ecom.Hash
						for s := range b.cc.slots {
							if s != slot {
								s2 = s
							}
						}
						if (s2 != ecom.Hash{}) {
							d.p.StorageProofs[0] = ccmeth.StorageProof{Key: hex0x(s2[:]), Proof: prove(b.cc.storageTrie, crypto.Keccak256(s2[:]))}
							mut = "other-slot-with-this-message"
						}
					case 8:
						d.extra = randMsg(g, false)
						mut = "other-message"
					case 9:
						absent := ecom.BytesToHash(g.Bytes(32))
						d.p.StorageProofs[0] = ccmeth.StorageProof{Key: hex0x(absent[:]), Proof: prove(b.cc.storageTrie, crypto.Keccak256(absent[:]))}
						mut = "absence-proof-storage"
					case 10:
						d.p.Nonce = numHex(new(big.Int).Add(b.cc.nonce, big.NewInt(1)))
						mut = "nonce+1"
					case 11:
						d.p.Balance = numHex(new(big.Int).Add(b.cc.balance, big.NewInt(1)))
						mut = "balance+1"
					case 12:
						d.p.CodeHash = hex0x(g.Bytes(32))
						mut = "other-code-hash"
					case 13:
						d.height = uint32(cur + 1 + uint64(g.Intn(3)))
						mut = "future-height"
					case 14:
						d.p.StorageProofs = append(d.p.StorageProofs, d.p.StorageProofs[0])
						mut = "two-storage-proofs"
					case 15:
						d.p.StorageProofs = nil
						mut = "no-storage-proof"
					case 16:
						d.jsonOK = false
						mut = "malformed-json"
					case 17:
						// irregular spellings the code's lenient helpers accept or reject
						switch g.Intn(6) {
						case 0:
							d.p.Address = strings.ToUpper(d.p.Address)
						case 1:
							d.p.Address = strings.TrimPrefix(d.p.Address, "0x")
						case 2:
							d.p.Nonce = ""
						case 3:
							d.p.Balance = "0x-1"
						case 4:
							d.p.StorageHash = d.p.StorageHash + "ff"
						case 5:
							d.p.Nonce = "0xzz"
						}
						mut = "irregular-strings"
					case 18:
						if len(d.extra) > 3 {
							d.extra = d.extra[:g.Intn(len(d.extra))]
						}
						mut = "message-truncated"
					case 19:
						d.ccmc = g.Bytes(20)
						mut = "other-registered-contract"
					case 20:
						// the proof is taken from another block's state
						ob := blocks[g.Intn(len(blocks))]
						d.p.AccountProof = prove(ob.w.trie, crypto.Keccak256(ccmc))
						mut = "account-proof-from-other-block"
					case 21:
						d.p.StorageHash = hex0x(g.Bytes(32))
						mut = "other-storage-hash"
					case 22:
						d.height = uint32(base - 1 - uint64(g.Intn(3)))
						d.btw = 1
						mut = "below-trust-root"
					case 23, 24:
						// genuine account proof, nonce, balance and code hash - but the storage hash is the root of a PRIVATE trie
						// that holds the hash of a forged message under the slot (only the account-record comparison, which
						// includes the storage root, stands between this and acceptance)
						forged := randMsg(g, false)
						priv := newTrie()
						for s2, v := range b.cc.slots {
							if s2 != slot {
								enc, _ := gethrlp.EncodeToBytes(bytes.TrimLeft(v, "\x00"))
								priv.Update(crypto.Keccak256(s2[:]), enc)
							}
						}
						enc, _ := gethrlp.EncodeToBytes(bytes.TrimLeft(crypto.Keccak256(forged), "\x00"))
						priv.Update(crypto.Keccak256(slot[:]), enc)
						pr := priv.Hash()
						d.p.StorageHash = hex0x(pr[:])
						d.p.StorageProofs[0].Proof = prove(priv, crypto.Keccak256(slot[:]))
						d.extra = forged
						mut = "private-storage-trie"
					}
				}
				var roots []ecom.Hash
				for _, x := range blocks {
					if x.h.Number.Uint64() == uint64(d.height) {
						roots = append(roots, x.h.Root)
					}
				}
				for _, x := range sides {
					if x.h.Number.Uint64() == uint64(d.height) {
						roots = append(roots, x.h.Root)
					}
				}
				raw := proofJSON(&d.p)
				if !d.jsonOK {
					raw = []byte(`{"address":`)
				} else if mut == "none" && g.Chance(1, 4) {
					raw, mut = jsonMutation(g, raw)
				} else if g.Chance(1, 5) {
					raw = jsonSpaces(g, raw)
				}
				d.setRaw(raw)
				d.ktab, d.vptab = d.tables(roots)
				res := r.Do(d.line())
				confClass := "enough"
				if d.btw == 0 || d.btw > 1<<32 {
					confClass = "corner"
				} else if conf < d.btw {
					confClass = "short"
				} else if conf == d.btw {
					confClass = "exact"
				}
				verdict := strings.SplitN(res, " ", 2)[0]
				if strings.HasPrefix(res, "ok:") {
					verdict = "ok"
				}
				r.Nontrivial(fmt.Sprintf("%s/%s/%s/%s", mut, verdict, confClass, phase))
				r.Hist("evm.verdict." + verdict)
				r.Hist("evm.mutation." + mut)
				if mut == "none" || mut == "block-reorganised-out" {
					r.Hist("evm.phase." + phase + "." + mut + "." + verdict)
				}
				if c%40 == 0 && k < 2 {
					r.Sample(map[string]interface{}{"mutation": mut, "height": d.height, "current": cur, "blocksToWait": d.btw, "verdict": verdict, "phase": phase})
				}
			}
		}
		total := r.Pick(25, 40)
		if c%2 == 1 || n < 2 {
			runDeposits(total)
			continue
		}
		// deposits, then a reorganisation that replaces the blocks from height base+at on (the new branch is one block
		// longer, hence heavier), then deposits again: proofs against the replaced blocks must now fail, proofs against
		// the new canonical blocks of the same heights must pass
		runDeposits(total / 2)
		at := 1 + g.Intn(n-1)
		newBlocks := append([]*blk{}, blocks[:at]...)
		for i := at; i <= n+1; i++ {
			w, cc, ms := mkWorld()
			h := powChild(g, newBlocks[len(newBlocks)-1].h, uint32(c*100+60+i), 1)
			h.Root = w.root
			newBlocks = append(newBlocks, &blk{h, w, cc, ms, true})
			r.Do("sync " + powFields(h))
		}
		sides = append(sides, blocks[at:]...)
		blocks = newBlocks
		cur = base + uint64(n) + 1
		phase = "after-reorg"
		runDeposits(total - total/2)
	}
}

// proofJSON writes the proof in the eth_getProof response format with the field names spelled out here (NOT through
// the struct tags of the code under test, so that a changed tag does not go unnoticed).
func proofJSON(p *ccmeth.ETHProof) []byte {
	q := func(s string) string {
		b, _ := json.Marshal(s)
		return string(b)
	}
	arr := func(l []string) string {
		if l == nil {
			return "null"
		}
		parts := make([]string, len(l))
		for i, x := range l {
			parts[i] = q(x)
		}
		return "[" + strings.Join(parts, ",") + "]"
	}
	sps := "null"
	if p.StorageProofs != nil {
		var parts []string
		for _, sp := range p.StorageProofs {
			parts = append(parts, fmt.Sprintf(`{"key":%s,"value":%s,"proof":%s}`, q(sp.Key), q(sp.Value), arr(sp.Proof)))
		}
		sps = "[" + strings.Join(parts, ",") + "]"
	}
	return []byte(fmt.Sprintf(`{"address":%s,"balance":%s,"codeHash":%s,"nonce":%s,"storageHash":%s,"accountProof":%s,"storageProof":%s}`,
		q(p.Address), q(p.Balance), q(p.CodeHash), q(p.Nonce), q(p.StorageHash), arr(p.AccountProof), sps))
}

// jsonSpaces inserts white space between tokens (outside strings).
func jsonSpaces(g *hx.Rng, raw []byte) []byte {
	var out []byte
	inStr := false
	for i, c := range raw {
		if c == '"' && (i == 0 || raw[i-1] != '\\') {
			inStr = !inStr
		}
		out = append(out, c)
		if !inStr && (c == ',' || c == ':' || c == '{' || c == '[') && g.Chance(1, 3) {
			out = append(out, []byte{' ', '\n', '\t', '\r'}[g.Intn(4)])
		}
	}
	return append([]byte(" \n"), append(out, ' ')...)
}

// jsonMutation edits the JSON TEXT of a valid proof: what encoding/json does with key case, duplicate keys, unknown
// fields, nulls, wrong types, escapes, white space and trailing input is part of the deposit check.
func jsonMutation(g *hx.Rng, raw []byte) ([]byte, string) {
	s := string(raw)
	rep := func(old, new string) string { return strings.Replace(s, old, new, 1) }
	switch g.Intn(26) {
	case 0:
		return []byte(rep(`"address":`, `"ADDRESS":`)), "json:key-upper-case"
	case 1:
		return []byte(rep(`"storageProof":`, `"storageproof":`)), "json:key-lower-case"
	case 2:
		return []byte(rep(`"codeHash":`, `"CodeHash":`)), "json:key-mixed-case"
	case 3:
		return []byte(rep(`{"address":`, `{"nonce":"0xffff","address":`)), "json:duplicate-key-first-wrong"
	case 4:
		return []byte(s[:len(s)-1] + `,"nonce":"0xffff"}`), "json:duplicate-key-last-wrong"
	case 5:
		return []byte(rep(`{"address":`, `{"zzz":{"a":[1,-0,1.5e-3,true,false,null,"x\\n",{"b":[]}]},"Value":7,"address":`)), "json:unknown-fields"
	case 6:
		return []byte(regexpReplace(s, `"balance":"[^"]*"`, `"balance":null`)), "json:string-field-null"
	case 7:
		return []byte(regexpReplace(s, `"balance":"[^"]*"`, `"balance":17`)), "json:string-field-number"
	case 8:
		return []byte(regexpReplace(s, `"nonce":"[^"]*"`, `"nonce":["0x1"]`)), "json:string-field-array"
	case 9:
		return []byte(regexpReplace(s, `"accountProof":\[[^\]]*\]`, `"accountProof":null`)), "json:account-proof-null"
	case 10:
		return []byte(regexpReplace(s, `"accountProof":\[[^\]]*\]`, `"accountProof":"0xc0"`)), "json:account-proof-string"
	case 11:
		return []byte(rep(`"accountProof":[`, `"accountProof":[null,`)), "json:account-proof-null-element"
	case 12:
		return []byte(rep(`"accountProof":[`, `"accountProof":[5,`)), "json:account-proof-number-element"
	case 13:
		return []byte(regexpReplace(s, `"storageProof":\[.*\]\}$`, `"storageProof":null}`)), "json:storage-proof-null"
	case 14:
		return []byte(regexpReplace(s, `"storageProof":\[.*\]\}$`, `"storageProof":[null]}`)), "json:storage-proof-null-element"
	case 15:
		return []byte(regexpReplace(s, `"storageProof":\[.*\]\}$`, `"storageProof":["x"]}`)), "json:storage-proof-string-element"
	case 16:
		return []byte(s + "x"), "json:trailing-garbage"
	case 17:
		return []byte(s + s), "json:two-values"
	case 18:
		return [][]byte{[]byte("null"), []byte(" null "), []byte("[]"), []byte(`"str"`), []byte("123"), []byte(""), []byte("{}"), []byte("{"), []byte("nul")}[g.Intn(9)], "json:top-level-other"
	case 19:
		return []byte(rep(`"address":"0x`, `"address":"\\u0030x`)), "json:unicode-escape"
	case 20:
		return []byte(rep(`"address":"0x`, `"address":"\\q0x`)), "json:invalid-escape"
	case 21:
		return []byte(rep(`"address":"0x`, "\"address\":\"0\nx")), "json:control-char-in-string"
	case 22:
		return []byte(rep(`{"address":`, `{"n":`+[]string{"01", "1.", ".5", "+1", "1e", "-", "0x1", "1e+"}[g.Intn(8)]+`,"address":`)), "json:invalid-number"
	case 23:
		return []byte(regexpReplace(s, `\]\}$`, `,]}`)), "json:trailing-comma"
	case 24:
		return []byte(rep(`"key":`, `"KEY":`)), "json:nested-key-upper-case"
	default:
		return []byte(rep(`"proof":[`, `"value":{"x":1},"proof":[`)), "json:nested-value-wrong-type"
	}
}

func regexpReplace(s, pat, repl string) string {
	re := regexp.MustCompile(pat)
	loc := re.FindStringIndex(s)
	if loc == nil {
		return s
	}
	return s[:loc[0]] + repl + s[loc[1]:]
}
