// hbtc: correspondence harness for the BTC cross-chain handler (coin selection, UTXO bookkeeping).
// Each family lives in its own file and registers itself in `families`.
package main

import "polyverif/internal/hx"

var families = map[string]func() hx.Family{}

func main() { hx.Main(families) }
